package main

// Encodings the readers still accept but today's writers do not emit (older agents):
// TxRecord with another version byte (>= 10; < 10 must be refused), another positive multi-trace
// presence byte, the caller-identity flags 1, 3, 4, 5 and unknown flags.  The harness synthesises
// them with its own writer (a transcription of what those agents wrote), decodes them with the real
// TxRecord.Read, compares with the legacy oracle and with the model (`EA` bytes, `D1` decode).
//
// Also: raw byte streams starting with the type codes of the unregistered step types, decoded by
// the real ReadStep and by the model.

import (
	"fmt"
	"strings"

	gio "github.com/whatap/golib/io"
	"github.com/whatap/golib/lang/service"
	"github.com/whatap/golib/lang/step"
	"github.com/whatap/golib/lang/value"
	"verif/harness/vh"
)

// legacyTx writes t the way an agent with the given version byte / presence bytes did.
func legacyTx(t *service.TxRecord, ver, mtidFlag, callerFlag byte) []byte {
	o := gio.NewDataOutputX()
	o.WriteLong(t.Txid)
	o.WriteDecimal(t.EndTime)
	o.WriteDecimal(int64(t.Service))
	o.WriteDecimal(int64(t.Elapsed))
	o.WriteDecimal(t.Error)
	o.WriteDecimal(int64(t.CpuTime))
	o.WriteDecimal(t.Malloc)
	o.WriteDecimal(int64(t.SqlCount))
	o.WriteDecimal(int64(t.SqlTime))
	o.WriteDecimal(int64(t.SqlFetchCount))
	o.WriteDecimal(int64(t.SqlFetchTime))
	o.WriteDecimal(int64(t.HttpcCount))
	o.WriteDecimal(int64(t.HttpcTime))
	o.WriteBool(t.Active)
	o.WriteDecimal(t.StepsDataPos)
	o.WriteDecimal(int64(t.Cipher))
	o.WriteInt(t.IpAddr)
	o.WriteDecimal(t.WClientId)
	o.WriteDecimal(int64(t.UserAgent))
	o.WriteDecimal(int64(t.Referer))
	o.WriteDecimal(int64(t.Status))
	if t.Mtid != 0 {
		o.WriteByte(mtidFlag)
		o.WriteDecimal(t.Mtid)
		o.WriteDecimal(int64(t.Mdepth))
		o.WriteDecimal(t.Mcaller)
	} else {
		o.WriteByte(0)
	}
	if t.McallerPcode != 0 {
		o.WriteByte(callerFlag)
		switch callerFlag {
		case 1:
			o.WriteDecimal(t.McallerPcode)
		case 3:
			o.WriteDecimal(t.McallerPcode)
			o.WriteDecimal(int64(t.McallerSpec))
			o.WriteDecimal(int64(t.McallerUrl))
		case 4:
			o.WriteDecimal(t.McallerPcode)
			o.WriteDecimal(int64(t.McallerSpec))
			o.WriteDecimal(int64(t.McallerUrl))
			o.WriteDecimal(int64(t.MthisSpec))
		case 5:
			o.WriteDecimal(t.McallerPcode)
			o.WriteDecimal(int64(t.McallerOid))
			o.WriteDecimal(int64(t.McallerSpec))
			o.WriteDecimal(int64(t.McallerUrl))
			o.WriteDecimal(int64(t.MthisSpec))
		case 6:
			o.WriteDecimal(t.McallerPcode)
			o.WriteDecimal(int64(t.McallerOkind))
			o.WriteDecimal(int64(t.McallerOid))
			o.WriteDecimal(int64(t.McallerSpec))
			o.WriteDecimal(int64(t.McallerUrl))
			o.WriteDecimal(int64(t.MthisSpec))
		}
	} else {
		o.WriteByte(0)
	}
	o.WriteByte(t.HttpMethod)
	o.WriteDecimal(int64(t.Domain))
	if t.Fields == nil {
		o.WriteByte(0)
	} else {
		o.WriteByte(byte(t.Fields.Size()))
		keys := t.Fields.Keys()
		for keys.HasMoreElements() {
			k := keys.NextString()
			o.WriteText(k)
			if v := t.Fields.Get(k); v != nil {
				value.WriteValue(o, v)
			} else {
				value.WriteValue(o, value.NewTextValue(""))
			}
		}
	}
	o.WriteDecimal(int64(t.Login))
	o.WriteByte(t.ErrorLevel)
	o.WriteDecimal(int64(t.Oid))
	o.WriteDecimal(int64(t.Okind))
	o.WriteDecimal(int64(t.Onode))
	o.WriteText(t.Uuid)
	o.WriteDecimal(int64(t.DbcTime))
	o.WriteByte(t.Apdex)
	o.WriteDecimal(t.McallerStepId)
	o.WriteText(t.OriginUrl)
	o.WriteDecimal(int64(t.StepSplitCount))
	d := gio.NewDataOutputX()
	d.WriteByte(ver)
	d.WriteBlob(o.ToByteArray())
	return append([]byte{}, d.ToByteArray()...)
}

// what TxRecord.Read must restore from such an encoding
func carriedLegacy(m map[string]string, callerFlag int) map[string]string {
	c := carried("TxRecord", m)
	if c["McallerPcode"] == "i0" {
		return c
	}
	keep := map[int][]string{
		1: {"McallerPcode"},
		3: {"McallerPcode", "McallerSpec", "McallerUrl"},
		4: {"McallerPcode", "McallerSpec", "McallerUrl", "MthisSpec"},
		5: {"McallerPcode", "McallerOid", "McallerSpec", "McallerUrl", "MthisSpec"},
		6: {"McallerPcode", "McallerOkind", "McallerOid", "McallerSpec", "McallerUrl", "MthisSpec"},
	}[callerFlag]
	has := map[string]bool{}
	for _, k := range keep {
		has[k] = true
	}
	for _, k := range []string{"McallerPcode", "McallerOkind", "McallerOid", "McallerSpec", "McallerUrl", "MthisSpec"} {
		if !has[k] {
			c[k] = "i0"
		}
	}
	return c
}

func (c *ctx) checkLegacy(t *service.TxRecord, ver, mtidFlag, callerFlag int, rest []byte) {
	rep := c.rep
	s := specOf("TxRecord")
	m := dump(t, s)
	rec := recText(m)
	rc := replayCase{Op: "legacy", Items: []replayItem{{"TxRecord", replayRec(t, s)}}, Rest: vh.Hex(rest), Ver: ver, MtidFlag: mtidFlag, CallerFlag: callerFlag}
	rep.Case(fmt.Sprintf("legacy ver=%d mtid=%d caller=%d %s", ver, mtidFlag, callerFlag, rec), true)
	rep.Count(fmt.Sprintf("legacy-caller-flag:%d", callerFlag))
	rep.Count(fmt.Sprintf("legacy-version:%s", map[bool]string{true: ">=10", false: "<10"}[ver >= 10]))
	b := legacyTx(t, byte(ver), byte(mtidFlag), byte(callerFlag))
	full := append(append([]byte{}, b...), rest...)
	d := decodeOne(s, full)
	choices := fmt.Sprintf("Mtid=%d,McallerPcode=%d,$ver=%d", mtidFlag, callerFlag, ver)

	if ver < 10 { // the reader must refuse it; the model says `fail`
		refused := !d.oc.OK()
		c.ask("D1 TxRecord "+vh.Hex(full), func(ans string) {
			if (ans == "fail") != refused {
				rep.Fail("correspondence", "TxRecord:old-version", fmt.Sprintf("version byte %d: implementation refuses=%v, model answers %s", ver, refused, vh.Clip(ans, 40)), rc)
			}
		})
		return
	}
	want := carriedLegacy(m, callerFlag)
	propOK := true
	var got map[string]string
	if !d.oc.OK() {
		propOK = false
		rep.Fail("property", "TxRecord.Read:legacy-panic", fmt.Sprintf("decoding a version-%d record with caller flag %d, multi-trace flag %d panicked: %s", ver, callerFlag, mtidFlag, vh.Clip(d.oc.Panic, 100)), rc)
	} else {
		got = dump(d.obj, s)
		if bad := diffFields(want, got); len(bad) > 0 {
			propOK = false
			rep.Fail("property", "TxRecord.Read:legacy-fields", fmt.Sprintf("caller flag %d, multi-trace flag %d, version %d: fields %s differ from what that encoding carries", callerFlag, mtidFlag, ver, vh.Clip(strings.Join(bad, ","), 100)), rc)
		}
		if d.consumed != len(b) {
			propOK = false
			rep.Fail("property", "TxRecord.Read:legacy-consumed", fmt.Sprintf("decoder consumed %d of %d bytes", d.consumed, len(b)), rc)
		}
	}
	c.ask(fmt.Sprintf("EA TxRecord %s %s", choices, rec), func(ans string) {
		if ans != vh.Hex(b) {
			rep.Fail("correspondence", "TxRecord:legacy-bytes", fmt.Sprintf("model writes %s, the harness's legacy writer %s", vh.Clip(ans, 80), vh.Clip(vh.Hex(b), 80)), rc)
		}
	})
	c.ask("D1 TxRecord "+vh.Hex(full), func(ans string) {
		if !propOK {
			return
		}
		if !strings.HasPrefix(ans, "ok ") {
			rep.Fail("correspondence", "TxRecord:legacy-model-decode", "model: "+vh.Clip(ans, 60)+" where the implementation decodes", rc)
			return
		}
		parts := strings.Split(ans, " ")
		var mrest int
		fmt.Sscanf(parts[2], "%d", &mrest)
		if bad := diffFields(parseRec(parts[1]), got); len(bad) > 0 || mrest != len(rest) {
			rep.Fail("correspondence", "TxRecord:legacy-decoded-fields", fmt.Sprintf("model and implementation decode the legacy encoding differently: %s (model rest %d, expected %d)", strings.Join(bad, ","), mrest, len(rest)), rc)
		}
	})
}

func genLegacy(c *ctx, r *vh.Rng) {
	n := 500
	if c.env.Thorough {
		n = 5000
	}
	s := specOf("TxRecord")
	for i := 0; i < n; i++ {
		t := newFilled(r, s, false).(*service.TxRecord)
		shapeTx(r, t, r.Intn(32)|3) // multi-trace ids and caller identity present (the sections the flags select)
		if r.Chance(10) {
			shapeTx(r, t, r.Intn(32))
		}
		ver := r.PickInt([]int{10, 10, 11, 12, 200, 255})
		if r.Chance(8) {
			ver = r.PickInt([]int{0, 1, 9})
		}
		mtidFlag := r.PickInt([]int{1, 1, 2, 3, 127, 128, 255})
		callerFlag := r.PickInt([]int{1, 3, 4, 5, 6, 2, 7, 255})
		var rest []byte
		if r.Bool() {
			rest = r.Bytes(1 + r.Intn(3))
		}
		c.checkLegacy(t, ver, mtidFlag, callerFlag, rest)
	}
}

// ---------------------------------------------------------------- raw streams (unregistered type codes)

// checkRawStream decodes arbitrary bytes with ReadStep until the input is used up (or a panic) and
// compares with the model's `DS step`.
func (c *ctx) checkRawStream(what string, b []byte) {
	rep := c.rep
	rc := map[string]string{"op": "raw-stream", "what": what, "bytes": vh.Hex(b)}
	type one struct {
		m    map[string]string
		code int
		cons int
	}
	var outs []one
	in := gio.NewDataInputX(b)
	failedAt := -1
	for k := 0; in.Available() > 0 && k < 64; k++ {
		before := int(in.Available())
		var st step.Step
		oc := vh.Guard(func() { st = step.ReadStep(in) })
		if !oc.OK() {
			failedAt = k
			break
		}
		outs = append(outs, one{dump(st, specOfObj(st)), int(st.GetStepType()), before - int(in.Available())})
	}
	rep.Count("raw-stream:" + what)
	c.ask("DS step "+vh.Hex(b), func(ans string) {
		if failedAt >= 0 {
			if ans != fmt.Sprintf("fail %d", failedAt) {
				rep.Fail("correspondence", what+":raw-stream", fmt.Sprintf("implementation panics at step %d, model answers %s", failedAt, vh.Clip(ans, 60)), rc)
			}
			return
		}
		if !strings.HasPrefix(ans, "ok ") {
			rep.Fail("correspondence", what+":raw-stream", fmt.Sprintf("implementation decodes %d steps, model answers %s", len(outs), vh.Clip(ans, 60)), rc)
			return
		}
		parts := strings.Split(ans[3:], "|")
		if ans == "ok -" {
			parts = nil
		}
		if len(parts) != len(outs) {
			rep.Fail("correspondence", what+":raw-stream", fmt.Sprintf("implementation decodes %d steps, model %d", len(outs), len(parts)), rc)
			return
		}
		for k, p := range parts {
			i := strings.Index(p, ":")
			j := strings.LastIndex(p, "@")
			var code, cons int
			fmt.Sscanf(p[:i], "%d", &code)
			fmt.Sscanf(p[j+1:], "%d", &cons)
			if code != outs[k].code || cons != outs[k].cons || len(diffFields(parseRec(p[i+1:j]), outs[k].m)) > 0 {
				rep.Fail("correspondence", what+":raw-stream", fmt.Sprintf("step %d decoded differently by model and implementation", k), rc)
				return
			}
		}
	})
}

func genRawStreams(c *ctx, r *vh.Rng) {
	n := 60
	if c.env.Thorough {
		n = 600
	}
	// a call stack one element beyond the signed 16-bit count: the reader sees a negative count and refuses
	// (theorem intarray_too_long_rejected); the implementation must refuse where the model does
	{
		ms := step.NewMethodStepX()
		ms.Stack = make([]int32, 32768)
		c.checkRawStream("MethodStepX-stack-32768", append([]byte{}, step.ToBytesStep([]step.Step{ms})...))
	}
	mx, s3 := specOf("MessageStepX"), specOf("SqlStep_3")
	for i := 0; i < n; i++ {
		// a MessageStepX behind some registered steps: ReadStep has no constructor for code 22
		items := genSteps(r, r.Intn(3))
		pre := step.ToBytesStep(stepsOf(items))
		o := newFilled(r, mx, false).(*step.MessageStepX)
		b := append(append([]byte{}, pre...), step.ToBytesStep([]step.Step{o})...)
		c.checkRawStream("MessageStepX", b)
		// a SqlStep_3 body behind its own type code (18 = STEP_SQL_X): read with SqlStepX's layout
		q := newFilled(r, s3, false).(*step.SqlStep_3)
		out := gio.NewDataOutputX()
		out.WriteByte(q.GetStepType())
		q.Write(out)
		c.checkRawStream("SqlStep_3", append([]byte{}, out.ToByteArray()...))
	}
}
