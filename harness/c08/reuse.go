package main

// Two more history shapes:
//
//  * service-record streams: 2..5 records of mixed service types written one after another with
//    service.ToBytes into ONE stream and read in turn with service.ToObject from ONE DataInputX, with
//    exact per-record consumption (a reader that looks at "what is left" over-consumes only here);
//  * decoding into a RE-USED object: decode A, then decode B into the same instance (or into an
//    instance populated through its fields/setters before).  What B's encoding carries must come
//    from B; what B's encoding does not carry keeps the object's previous value for the types whose
//    reader assigns optional sections only when present (TxRecord, HttpcStepX, MessageStepX,
//    SqlStep_3 — the model: assigned fields over the existing object), and a container that builds
//    its parts afresh (ProfilePack.Transaction) must not show anything of the previous record.

import (
	"fmt"
	"strings"

	gio "github.com/whatap/golib/io"
	"github.com/whatap/golib/lang/pack"
	"github.com/whatap/golib/lang/service"
	"github.com/whatap/golib/lang/step"
	"verif/harness/vh"
)

var svcSpecs = []string{"WasService", "AppService", "WasService2"}

func (c *ctx) checkSvcStream(items []item) {
	rep := c.rep
	rc := replayCase{Op: "svc-stream", Fam: "svc"}
	var recs []map[string]string
	var itexts []string
	var encs [][]byte
	out := gio.NewDataOutputX()
	oc := vh.Guard(func() {
		for _, it := range items {
			service.ToBytes(it.o.(service.Service), out)
		}
	})
	for _, it := range items {
		m := dump(it.o, it.s)
		recs = append(recs, m)
		rc.Items = append(rc.Items, replayItem{it.s.name, replayRec(it.o, it.s)})
		itexts = append(itexts, fmt.Sprintf("%d:%s:%s", it.s.code, it.s.name, recText(m)))
		b, _ := encode(it.s, it.o)
		encs = append(encs, b)
		rep.Count("svc-stream-record:" + it.s.name)
	}
	canon := strings.Join(itexts, "|")
	rep.Case("svc-stream "+canon, true)
	rep.Count(fmt.Sprintf("svc-stream-len:%d", len(items)))
	if !oc.OK() {
		rep.Fail("property", "service.ToBytes:panic", vh.Clip(oc.Panic, 120), rc)
		return
	}
	b := append([]byte{}, out.ToByteArray()...)
	sum := 0
	for _, e := range encs {
		sum += len(e)
	}
	if sum != len(b) {
		rep.Fail("property", "service.ToBytes:not-concatenation", fmt.Sprintf("the stream has %d bytes, the records alone %d", len(b), sum), rc)
	}
	in := gio.NewDataInputX(b)
	propOK := true
	type one struct {
		m    map[string]string
		cons int
	}
	var outs []one
	for k := 0; k < len(items); k++ {
		it := items[k]
		before := int(in.Available())
		var sv service.Service
		oc := vh.Guard(func() { sv = service.ToObject(in) })
		if !oc.OK() {
			propOK = false
			rep.Fail("property", it.s.name+".Read:panic", fmt.Sprintf("service.ToObject panicked at record %d of %d: %s", k, len(items), vh.Clip(oc.Panic, 100)), rc)
			break
		}
		cons := before - int(in.Available())
		got := dump(sv, it.s)
		outs = append(outs, one{got, cons})
		want := carried(it.s.name, recs[k])
		if bad := diffFields(want, got); len(bad) > 0 {
			propOK = false
			rep.Fail("property", it.s.name+":stream-roundtrip", fmt.Sprintf("record %d of %d: fields %s differ from its own original", k, len(items), vh.Clip(strings.Join(bad, ","), 80)), rc)
		}
		if cons != len(encs[k]) {
			propOK = false
			rep.Fail("property", it.s.name+":consumed", fmt.Sprintf("record %d of %d consumed %d bytes, its encoding has %d", k, len(items), cons, len(encs[k])), rc)
			break // everything after is misaligned
		}
		if !c.checkIdentity(it.s, it.o, sv, recs[k], want, encs[k], rc, fmt.Sprintf("record %d of %d: ", k, len(items))) {
			propOK = false
		}
	}
	if propOK && in.Available() != 0 {
		propOK = false
		rep.Fail("property", "service:stream-rest", fmt.Sprintf("%d bytes left after reading all %d records", in.Available(), len(items)), rc)
	}
	c.ask("ES "+canon, func(ans string) {
		if ans != vh.Hex(b) {
			rep.Fail("correspondence", "svc-stream:bytes", fmt.Sprintf("model bytes %s, implementation %s", vh.Clip(ans, 80), vh.Clip(vh.Hex(b), 80)), rc)
		}
	})
	c.ask("DS svc "+vh.Hex(b), func(ans string) {
		if !propOK {
			return
		}
		if !strings.HasPrefix(ans, "ok ") {
			rep.Fail("correspondence", "svc-stream:model-decode", "model: "+vh.Clip(ans, 80), rc)
			return
		}
		parts := strings.Split(ans[3:], "|")
		if len(parts) != len(outs) {
			rep.Fail("correspondence", "svc-stream:model-count", fmt.Sprintf("model decodes %d records, implementation %d", len(parts), len(outs)), rc)
			return
		}
		for k, p := range parts {
			i := strings.Index(p, ":")
			j := strings.LastIndex(p, "@")
			var code, cons int
			fmt.Sscanf(p[:i], "%d", &code)
			fmt.Sscanf(p[j+1:], "%d", &cons)
			if code != items[k].s.code || cons != outs[k].cons || len(diffFields(parseRec(p[i+1:j]), outs[k].m)) > 0 {
				rep.Fail("correspondence", items[k].s.name+":svc-stream-decoded", fmt.Sprintf("record %d decoded differently by model and implementation", k), rc)
				return
			}
		}
	})
}

func genSvcStreams(c *ctx, r *vh.Rng) {
	n := 400
	if c.env.Thorough {
		n = 4000
	}
	for i := 0; i < n; i++ {
		k := 2 + r.Intn(4)
		items := make([]item, k)
		for j := range items {
			s := specOf(r.PickStr(svcSpecs))
			items[j] = item{s, newFilled(r, s, false)}
		}
		c.checkSvcStream(items)
	}
}

// ---------------------------------------------------------------- decoding into a re-used object

// readInto decodes one encoding (as produced by spec.enc) into an EXISTING object.
func readInto(s *spec, o interface{}, in *gio.DataInputX) {
	switch s.fam {
	case "step":
		in.ReadByte() // the type tag ReadStep dispatches on
		o.(step.Step).Read(in)
	case "svc":
		in.ReadByte()
		o.(service.Service).Read(in)
	default:
		switch x := o.(type) {
		case *service.TxRecord:
			x.Read(in)
		case interface{ Read(in *gio.DataInputX) }:
			x.Read(in)
		default:
			panic(fmt.Sprintf("harness: no reader for %T", o))
		}
	}
}

// unassigned: the fields the reader does not assign for this record (absent optional sections).
func unassigned(typ string, m map[string]string) []string {
	switch typ {
	case "HttpcStepX":
		if m["Version"] != "i2" {
			return []string{"StepId", "Driver", "OriginUrl", "Param"}
		}
	case "SqlStep_3":
		var opt int
		fmt.Sscanf(m["Opt"], "i%d", &opt)
		var u []string
		if opt&1 == 0 {
			u = append(u, "P1", "P2", "Pcrc")
		}
		if opt&2 == 0 {
			u = append(u, "StartCpu", "Cpu", "StartMem", "Mem")
		}
		if opt&4 == 0 {
			u = append(u, "Stack")
		}
		return u
	case "MessageStepX":
		if m["Attr"] == "n" {
			return []string{"Attr"}
		}
	case "TxRecord":
		var u []string
		if m["Mtid"] == "i0" {
			u = append(u, "Mtid", "Mdepth", "Mcaller")
		}
		if m["McallerPcode"] == "i0" {
			u = append(u, "McallerPcode", "McallerOkind", "McallerOid", "McallerSpec", "McallerUrl", "MthisSpec")
		}
		if m["Fields"] == "n" || m["Fields"] == "m-" {
			u = append(u, "Fields")
		}
		return u
	}
	return nil // every other type (and ProfilePack, which builds its TxRecord afresh): everything is assigned or fresh
}

// checkReuse: decode B into an object that already holds something (A decoded into it, or values set
// through its fields).
func (c *ctx) checkReuse(s *spec, a, b interface{}, viaSetters bool) {
	rep := c.rep
	how := "after-decode"
	if viaSetters {
		how = "after-setters"
	}
	rc := replayCase{Op: "reuse", Items: []replayItem{{s.name, replayRec(a, s)}, {s.name, replayRec(b, s)}}, Mutate: viaSetters}
	mb := dump(b, s)
	rep.Case(fmt.Sprintf("reuse %s %s %s | %s", how, s.name, recText(dump(a, s)), recText(mb)), true)
	rep.Count("reuse:" + how)
	rep.Count("reuse-type:" + s.name)
	eb, oc := encode(s, b)
	if !oc.OK() {
		return // reported by the single-object checks
	}
	var target interface{}
	if viaSetters {
		target = a // an object populated through its fields and setters, never decoded into
	} else {
		ea, oc := encode(s, a)
		if !oc.OK() {
			return
		}
		target = s.mk()
		if oc := vh.Guard(func() { readInto(s, target, gio.NewDataInputX(ea)) }); !oc.OK() {
			return
		}
	}
	prior := dump(target, s)
	cons := 0
	oc = vh.Guard(func() {
		in := gio.NewDataInputX(eb)
		readInto(s, target, in)
		cons = len(eb) - int(in.Available())
	})
	if !oc.OK() {
		rep.Fail("property", s.name+".Read:reused-object-panic", fmt.Sprintf("decoding into an object used before (%s) panicked: %s", how, vh.Clip(oc.Panic, 100)), rc)
		return
	}
	want := carried(s.name, mb)
	for _, f := range unassigned(s.name, mb) {
		if v, ok := prior[f]; ok {
			want[f] = v // not carried by B: the reader leaves the field alone
		}
	}
	if s.name == "TxRecord" { // the error-level default looks at the (assigned) Error only
		if mb["ErrorLevel"] == "i0" && mb["Error"] != "i0" {
			want["ErrorLevel"] = "i20"
		}
	}
	got := dump(target, s)
	if bad := diffFields(want, got); len(bad) > 0 {
		rep.Fail("property", s.name+".Read:reused-object",
			fmt.Sprintf("decoding a second record into an object used before (%s): fields %s are neither the second record's nor (for sections it does not carry) untouched", how, vh.Clip(strings.Join(bad, ","), 100)), rc)
	}
	if cons != len(eb) {
		rep.Fail("property", s.name+":consumed", fmt.Sprintf("decoding into a used object consumed %d of %d bytes", cons, len(eb)), rc)
	}
	// the model's readInto (assigned fields over the existing object; ProfilePack: fresh transaction)
	body := eb
	switch s.fam {
	case "step", "svc":
		body = eb[1:]
	case "pack":
		body = eb[headerLen(b):]
	}
	c.ask(fmt.Sprintf("RI %s %s %s", s.name, recText(prior), vh.Hex(body)), func(ans string) {
		if !strings.HasPrefix(ans, "ok ") {
			rep.Fail("correspondence", s.name+":readinto-model", "model: "+vh.Clip(ans, 60)+" where the implementation decodes into the used object", rc)
			return
		}
		parts := strings.Split(ans, " ")
		if bad := diffFields(parseRec(parts[1]), got); len(bad) > 0 || parts[2] != "0" {
			rep.Fail("correspondence", s.name+":readinto-fields", fmt.Sprintf("model and implementation leave different objects after decoding into a used one: %s (model rest %s)", vh.Clip(strings.Join(bad, ","), 80), parts[2]), rc)
		}
	})
}

func txOf(o interface{}) *service.TxRecord { return o.(*pack.ProfilePack).Transaction }

func genReuse(c *ctx, r *vh.Rng) {
	per := 40
	if c.env.Thorough {
		per = 400
	}
	for _, s := range specs {
		for i := 0; i < per; i++ {
			a, b := newFilled(r, s, false), newFilled(r, s, false)
			switch s.name {
			case "TxRecord":
				// first with optional sections, then without (and the other mixes)
				shapeTx(r, a.(*service.TxRecord), r.PickInt([]int{31, 7, 3, r.Intn(32)}))
				shapeTx(r, b.(*service.TxRecord), r.PickInt([]int{0, 8, 16, r.Intn(32)}))
			case "ProfilePack":
				pa, pb := a.(interface{ SetProfile([]step.Step) }), b.(interface{ SetProfile([]step.Step) })
				pa.SetProfile(stepsOf(genSteps(r, r.Intn(3))))
				pb.SetProfile(stepsOf(genSteps(r, r.Intn(3))))
				shapeTx(r, txOf(a), r.PickInt([]int{31, 7, 3, r.Intn(32)}))
				shapeTx(r, txOf(b), r.PickInt([]int{0, 8, 16, r.Intn(32)}))
			}
			c.checkReuse(s, a, b, i%3 == 2)
		}
	}
}
