// Correspondence harness for the extension check X03: the UDP client's datagram batching
// (net/udp/UcpClient.go and its older twin net/UdpClient.go) against the Lean model
// Golib.Ext.UdpClient (driver drv_x03) and against the laws evaluated directly.
//
// The real client runs in-process and talks to a receiver socket on 127.0.0.1 (free port).
//
//	live histories     process() runs (the goroutine GetUdpClient starts); after every operation the
//	                   harness waits – logically, on the client's own counters – until everything
//	                   handed to the channel was written and received (so never more than one burst is
//	                   in flight and the kernel's receive buffer cannot overflow under load)
//	manual histories   no process() goroutine: the channel fills, Shutdown drains it itself, the
//	                   buffer's remainder stays behind; then more sends, ApplyConfig (re-open), …
//
// Laws evaluated on what the receiver got, without the model (kind "property"):
//
//	every datagram parses into whole frames; the frames, in order, are the accepted packs minus those
//	whose frame exceeds the UDP maximum, minus the tail still in the buffer; no datagram exceeds the
//	limit unless it is a single frame.
//
// Then the same history is answered by the model (kind "correspondence" when only that differs).
//
// Needs the hooks of proposed/X03/hooks.diff (net/udp/export_verif.go, net/export_udp_verif.go).
package main

import (
	"bytes"
	"encoding/hex"
	"encoding/json"
	"fmt"
	"io"
	"log"
	"net"
	"os"
	"os/exec"
	"path/filepath"
	"strings"
	"sync"
	"syscall"
	"time"

	"verif/harness/vh"

	wio "github.com/whatap/golib/io"
	"github.com/whatap/golib/lang/pack"
	upack "github.com/whatap/golib/lang/pack/udp"
	wnet "github.com/whatap/golib/net"
	wudp "github.com/whatap/golib/net/udp"
)

const udpMax = 65507
const hang = 30 * time.Second

// ---------------------------------------------------------------- receiver

type receiver struct {
	conn *net.UDPConn
	port int
	mu   sync.Mutex
	got  [][]byte
}

func newReceiver() *receiver {
	c, err := net.ListenUDP("udp4", &net.UDPAddr{IP: net.IPv4(127, 0, 0, 1), Port: 0})
	if err != nil {
		vh.Die("listen udp: %v", err)
	}
	c.SetReadBuffer(4 << 20)
	r := &receiver{conn: c, port: c.LocalAddr().(*net.UDPAddr).Port}
	go func() {
		buf := make([]byte, 70000)
		for {
			n, _, err := c.ReadFromUDP(buf)
			if err != nil {
				return
			}
			d := make([]byte, n)
			copy(d, buf[:n])
			r.mu.Lock()
			r.got = append(r.got, d)
			r.mu.Unlock()
		}
	}()
	return r
}
func (r *receiver) count() int { r.mu.Lock(); defer r.mu.Unlock(); return len(r.got) }
func (r *receiver) take() [][]byte {
	r.mu.Lock()
	defer r.mu.Unlock()
	g := r.got
	r.got = nil
	return g
}
func (r *receiver) snapshot() [][]byte {
	r.mu.Lock()
	defer r.mu.Unlock()
	return append([][]byte(nil), r.got...)
}
func (r *receiver) close() { r.conn.Close() }

// waitFor polls cond until it holds; the deadline only bounds hangs.
func waitFor(cond func() bool) bool {
	dl := time.Now().Add(hang)
	for i := 0; ; i++ {
		if cond() {
			return true
		}
		if time.Now().After(dl) {
			return false
		}
		if i < 50 {
			time.Sleep(100 * time.Microsecond)
		} else {
			time.Sleep(2 * time.Millisecond)
		}
	}
}

// ---------------------------------------------------------------- the two clients behind one face

type client interface {
	Send(p upack.UdpPack)
	SendRelay(p pack.Pack, flush bool)
	SendData(typ byte, ver int32, data []byte, flush bool)
	SendNil()
	Flush()
	Shutdown()
	StartProcess()
	Counts() [5]int
	State() (int, int, bool)
	Reset()
	Reopen(port int)
}

type ucp struct{ c *wudp.UdpClient }

func (u ucp) Send(p upack.UdpPack)              { u.c.Send(p) }
func (u ucp) SendRelay(p pack.Pack, flush bool) { u.c.SendRelay(p, flush) }
func (u ucp) SendData(t byte, v int32, d []byte, f bool) {
	u.c.SendDataForVerif(&wudp.UdpData{Type: t, Ver: v, Data: d, Flush: f})
}
func (u ucp) SendNil()      { u.c.SendDataForVerif(nil) }
func (u ucp) Flush()        { u.c.FlushRemainForVerif() }
func (u ucp) Shutdown()     { u.c.Shutdown() }
func (u ucp) StartProcess() { u.c.StartProcessForVerif() }
func (u ucp) Counts() [5]int {
	a, b, c, d, e := u.c.CountsForVerif()
	return [5]int{a, b, c, d, e}
}
func (u ucp) State() (int, int, bool) { return u.c.StateForVerif() }
func (u ucp) Reset()                  { u.c.AddCount(0, 0, 0, 0, 0, true) }
func (u ucp) Reopen(port int) {
	u.c.ApplyConfig(&fakeConf{m: map[string]string{"net_udp_host": "127.0.0.1", "net_udp_port": fmt.Sprint(port)}})
}

type old struct{ c *wnet.UdpClient }

func (u old) Send(p upack.UdpPack)              { u.c.Send(p) }
func (u old) SendRelay(p pack.Pack, flush bool) { u.c.SendRelay(p, flush) }
func (u old) SendData(t byte, v int32, d []byte, f bool) {
	u.c.SendDataForVerif(&wnet.UdpData{Type: t, Ver: v, Data: d, Flush: f})
}
func (u old) SendNil()      { u.c.SendDataForVerif(nil) }
func (u old) Flush()        { u.c.FlushRemainForVerif() }
func (u old) Shutdown()     { u.c.Shutdown() }
func (u old) StartProcess() { u.c.StartProcessForVerif() }
func (u old) Counts() [5]int {
	a, b, c, d, e := u.c.CountsForVerif()
	return [5]int{a, b, c, d, e}
}
func (u old) State() (int, int, bool) { return u.c.StateForVerif() }
func (u old) Reset()                  { u.c.AddCount(0, 0, 0, 0, 0, true) }
func (u old) Reopen(port int)         {}

func limitOf(kind string) int {
	if kind == "ucp" {
		l, _, _, _ := wudp.ConstsForVerif()
		return l
	}
	l, _, _, _ := wnet.UdpConstsForVerif()
	return l
}

func newClient(kind string, port int) client {
	if kind == "ucp" {
		return ucp{wudp.NewForVerif(wudp.WithUdpServer("127.0.0.1", port))}
	}
	return old{wnet.NewUdpForVerif("127.0.0.1", port)}
}

// a minimal config.Config
type fakeConf struct{ m map[string]string }

func (f *fakeConf) ApplyDefault()            {}
func (f *fakeConf) GetConfFile() string      { return "" }
func (f *fakeConf) Destroy()                 {}
func (f *fakeConf) GetKeys() []string        { return nil }
func (f *fakeConf) GetValue(k string) string { return f.m[k] }
func (f *fakeConf) GetValueDef(k, d string) string {
	if v, ok := f.m[k]; ok {
		return v
	}
	return d
}
func (f *fakeConf) GetBoolean(k string, d bool) bool                     { return d }
func (f *fakeConf) GetInt(k string, d int) int32                         { return int32(d) }
func (f *fakeConf) GetIntSet(k, d, deli string) []int32                  { return nil }
func (f *fakeConf) GetLong(k string, d int64) int64                      { return d }
func (f *fakeConf) GetStringArray(k string, d string, s string) []string { return nil }
func (f *fakeConf) GetStringHashSet(k, d, deli string) []int32           { return nil }
func (f *fakeConf) GetStringHashCodeSet(k, d, deli string) []int32       { return nil }
func (f *fakeConf) GetFloat(k string, d float32) float32                 { return d }
func (f *fakeConf) SetValues(v *map[string]string)                       {}
func (f *fakeConf) ToString() string                                     { return "" }
func (f *fakeConf) String() string                                       { return "" }

// a pack whose body is given bytes; its type is outside the pooled types of udp.ClosePack
type rawPack struct {
	typ   uint8
	ver   int32
	flush bool
	body  []byte
}

func (p *rawPack) GetPackType() uint8       { return p.typ }
func (p *rawPack) Write(o *wio.DataOutputX) { o.WriteBytes(p.body) }
func (p *rawPack) Read(in *wio.DataInputX)  {}
func (p *rawPack) SetVersion(v int32)       { p.ver = v }
func (p *rawPack) GetVersion() int32        { return p.ver }
func (p *rawPack) SetFlush(f bool)          { p.flush = f }
func (p *rawPack) IsFlush() bool            { return p.flush }
func (p *rawPack) Process()                 {}
func (p *rawPack) Clear()                   { p.body = nil }

// ---------------------------------------------------------------- operations

type op struct {
	K     string `json:"k"` // S Z T D R
	Via   string `json:"via,omitempty"`
	Typ   int    `json:"typ,omitempty"`
	Ver   int32  `json:"ver,omitempty"`
	Flush bool   `json:"flush,omitempty"`
	Len   int    `json:"len,omitempty"`
	Seed  int    `json:"seed,omitempty"`
	Hex   string `json:"hex,omitempty"` // body given literally (relay)
	Burst bool   `json:"burst,omitempty"`
}

func genBody(n, seed int) []byte {
	b := make([]byte, n)
	for i := range b {
		b[i] = byte((seed + 31*i + i/251) % 256)
	}
	return b
}
func (o *op) body() []byte {
	if o.Hex != "" {
		b, _ := hex.DecodeString(o.Hex)
		return b
	}
	return genBody(o.Len, o.Seed)
}
func (o *op) line() string {
	switch o.K {
	case "S":
		b := "-"
		if o.Hex != "" {
			b = "x" + o.Hex
		} else if o.Len > 0 {
			b = fmt.Sprintf("g%d:%d", o.Len, o.Seed)
		}
		fl := "0"
		if o.Flush {
			fl = "1"
		}
		return fmt.Sprintf("S %d %d %s %s", o.Typ, o.Ver, fl, b)
	}
	return o.K
}

func apply(c client, o *op, recvPort int) vh.Outcome {
	return vh.GuardTimeout(hang, func() {
		switch o.K {
		case "S":
			switch o.Via {
			case "pack":
				c.Send(&rawPack{typ: uint8(o.Typ), ver: o.Ver, flush: o.Flush, body: o.body()})
			case "relay":
				p := pack.NewParamPack()
				p.Pcode = int64(o.Seed)
				p.Id = int32(o.Len)
				c.SendRelay(p, o.Flush)
			default:
				c.SendData(byte(o.Typ), o.Ver, o.body(), o.Flush)
			}
		case "Z":
			c.SendNil()
		case "T":
			if _, _, open := c.State(); open { // processRemain: `if !isOpen continue`
				c.Flush()
			}
		case "D":
			c.Shutdown()
		case "R":
			c.Reopen(recvPort + 1)
		}
	})
}

func genSend(rng *vh.Rng, limit, bufLen int, allowHuge bool) *op {
	o := &op{K: "S", Typ: 100 + rng.Intn(100), Ver: int32(rng.Pick64([]int64{50100, 0, -1, 10109, 2147483647, -2147483648, int64(rng.Intn(100000))})),
		Flush: rng.Chance(25), Seed: rng.Intn(256)}
	switch x := rng.Intn(100); {
	case x < 30:
		o.Len = rng.Intn(65)
	case x < 50:
		o.Len = 65 + rng.Intn(1936)
	case x < 64:
		o.Len = 2000 + rng.Intn(18000)
	case x < 72:
		o.Len = limit/2 - 9 - 2 + rng.Intn(5)
	case x < 80:
		o.Len = limit - 9 - 3 + rng.Intn(7)
	case x < 94: // land exactly on / one around the limit together with what is buffered
		o.Len = limit - bufLen - 9 - 1 + rng.Intn(3)
		if o.Len < 0 {
			o.Len = rng.Intn(10)
		}
	case x < 98:
		o.Len = limit + 1 + rng.Intn(udpMax-9-limit-1)
	default:
		if allowHuge {
			o.Len = udpMax - 9 - 2 + rng.Intn(600)
		} else {
			o.Len = rng.Intn(100)
		}
	}
	switch v := rng.Intn(100); {
	case v < 50:
		o.Via = "data"
	case v < 92:
		o.Via = "pack"
	default:
		o.Via = "relay"
		p := pack.NewParamPack()
		p.Pcode = int64(o.Seed)
		p.Id = int32(o.Len)
		o.Hex = hex.EncodeToString(pack.ToBytesPack(p))
		o.Typ = int(upack.RELAY_PACK)
		o.Ver = upack.UDP_PACK_VERSION
	}
	return o
}

// ---------------------------------------------------------------- histories

type history struct {
	ID    int      `json:"id"`
	Kind  string   `json:"kind"` // ucp | old
	Mode  string   `json:"mode"` // live | manual
	Ops   []*op    `json:"ops"`
	impl  []string // observable summary after each op (same fields as the model's summary)
	lines []string // driver lines; lineOf[i] = index of the line answering op i
	at    []int
	recv  [][]byte
	bad   string // harness-level trouble (hang, panic) with a stable key suffix
	fin   [5]int
	finB  int
}

func digest(d []byte) string {
	h := uint32(2166136261)
	for _, b := range d {
		h = (h ^ uint32(b)) * 16777619
	}
	return fmt.Sprintf("%d:%d", len(d), h)
}

func implSummary(c client, w int) string {
	b, ch, open := c.State()
	k := c.Counts()
	o := 0
	if open {
		o = 1
	}
	return fmt.Sprintf("b=%d c=%d w=%d pc=%d cc=%d sc=%d ec=%d open=%d", b, ch, w, k[0], k[1], k[2], k[4], o)
}

// the model's summary restricted to the fields the implementation shows
func modelSummary(s string) string {
	var keep []string
	for _, f := range strings.Split(s, " ") {
		if strings.HasPrefix(f, "o=") || strings.HasPrefix(f, "l=") {
			continue
		}
		keep = append(keep, f)
	}
	return strings.Join(keep, " ")
}

// live: one client per worker and kind, process() running; reused across histories after a
// timer flush and AddCount(reset) – which is the fresh state again.
type liveEnv struct {
	dead bool
	c    client
	r    *receiver
	kind string
}

func newLive(kind string) *liveEnv {
	r := newReceiver()
	c := newClient(kind, r.port)
	c.StartProcess()
	return &liveEnv{c: c, r: r, kind: kind}
}

func (e *liveEnv) quiesce() bool {
	return waitFor(func() bool {
		k := e.c.Counts()
		_, ch, _ := e.c.State()
		return ch == 0 && k[2] == k[1] && e.r.count() == k[2]-k[4]
	})
}

func runLive(e *liveEnv, h *history, rng *vh.Rng, n int) {
	limit := limitOf(h.Kind)
	h.lines = append(h.lines, "N "+h.Kind)
	for i := 0; i < n && h.bad == ""; i++ {
		var batch []*op
		b, _, _ := e.c.State()
		switch x := rng.Intn(100); {
		case x < 5:
			batch = []*op{{K: "T"}}
		case x < 7:
			batch = []*op{{K: "Z"}}
		case x < 13: // burst of small flushed packs, no waiting in between
			for k, m := 0, 5+rng.Intn(36); k < m; k++ {
				o := genSend(rng, limit, b, false)
				o.Len, o.Hex, o.Via, o.Flush, o.Burst = rng.Intn(90), "", "data", rng.Chance(80), true
				o.Typ = 100 + rng.Intn(100)
				batch = append(batch, o)
			}
		default:
			batch = []*op{genSend(rng, limit, b, true)}
		}
		for _, o := range batch {
			if out := apply(e.c, o, e.r.port); !out.OK() {
				h.bad = o.K + ":" + out.String()
			}
			h.Ops = append(h.Ops, o)
			h.lines = append(h.lines, o.line())
		}
		if !e.quiesce() {
			h.bad = "quiesce:timeout"
		}
		h.lines = append(h.lines, "PA")
		h.at = append(h.at, len(h.lines)-1)
		h.impl = append(h.impl, implSummary(e.c, e.r.count()))
	}
	h.fin = e.c.Counts()
	h.finB, _, _ = e.c.State()
	h.recv = e.r.snapshot()
	h.lines = append(h.lines, "W")
	// back to the fresh state for the next history
	vh.GuardTimeout(hang, e.c.Flush)
	if h.bad != "" || !e.quiesce() {
		e.dead = true // out of step with its receiver: the worker takes a new client
		return
	}
	e.r.take()
	e.c.Reset()
}

func runManual(h *history, rng *vh.Rng, n int) {
	r := newReceiver()
	defer r.close()
	c := newClient(h.Kind, r.port)
	limit := limitOf(h.Kind)
	h.lines = append(h.lines, "N "+h.Kind)
	budget := 120000 // bytes that Shutdown may write at once (no flow control there)
	expect := 0
	shut, reopened := false, false
	for i := 0; i < n && h.bad == ""; i++ {
		var o *op
		b, ch, _ := c.State()
		switch x := rng.Intn(100); {
		case x < 8:
			o = &op{K: "T"}
		case x < 10:
			o = &op{K: "Z"}
		case x < 20 && i > 1:
			o = &op{K: "D"}
		case x < 26 && shut && h.Kind == "ucp":
			o = &op{K: "R"}
		default:
			o = genSend(rng, limit, b, false)
			if fl := 9 + len(o.body()); fl > budget || fl > udpMax {
				o.Len, o.Hex, o.Via = rng.Intn(200), "", "data"
				if o.Typ == int(upack.RELAY_PACK) {
					o.Typ = 150
				}
			}
			if !shut {
				budget -= 9 + len(o.body())
			}
		}
		if o.K == "D" && !shut {
			expect = ch
		}
		out := apply(c, o, r.port)
		if o.K == "D" {
			shut = true
		}
		if o.K == "R" {
			reopened = true
		}
		oc := out.String()
		if o.K == "T" && reopened && oc == "panic" {
			oc = "ok" // sendBuffer has no recover: `send on closed channel` reaches the caller (the model drops the buffer)
		}
		if oc != "ok" {
			h.bad = o.K + ":" + oc
		}
		h.Ops = append(h.Ops, o)
		h.lines = append(h.lines, o.line())
		h.at = append(h.at, len(h.lines)-1)
		if o.K == "D" {
			if !waitFor(func() bool { return r.count() >= expect }) {
				h.bad = "shutdown:datagrams-missing"
			}
		}
		h.impl = append(h.impl, implSummary(c, r.count()))
	}
	h.fin = c.Counts()
	h.finB, _, _ = c.State()
	time.Sleep(2 * time.Millisecond)
	h.recv = r.take()
	h.lines = append(h.lines, "W")
	if !shut {
		vh.GuardTimeout(hang, c.Shutdown)
	}
}

// ---------------------------------------------------------------- the laws, on the implementation

type frame struct {
	typ  int
	ver  int32
	body []byte
}

func parseFrames(d []byte) ([]frame, bool) {
	var fs []frame
	for len(d) > 0 {
		if len(d) < 9 {
			return nil, false
		}
		t := int(d[0])
		v := wio.ToInt(d[1:5], 0)
		l := int(wio.ToInt(d[5:9], 0))
		if l < 0 || 9+l > len(d) {
			return nil, false
		}
		fs = append(fs, frame{t, v, d[9 : 9+l]})
		d = d[9+l:]
	}
	return fs, true
}

// laws for a live history (nothing may be lost except frames above the UDP maximum)
func lawsLive(h *history) (key, what string) {
	limit := limitOf(h.Kind)
	// accepted frames; the tail whose sizes add up to the buffer length is still buffered
	var acc []frame
	for _, o := range h.Ops {
		if o.K == "S" {
			acc = append(acc, frame{o.Typ, o.Ver, o.body()})
		}
	}
	k, rest := len(acc), 0
	for k > 0 && rest < h.finB {
		k--
		rest += 9 + len(acc[k].body)
	}
	var want []frame
	for _, f := range acc[:k] {
		if 9+len(f.body) <= udpMax { // above the UDP maximum: refused by the socket (known finding)
			want = append(want, f)
		}
	}
	var got []frame
	for i, d := range h.recv {
		fs, ok := parseFrames(d)
		if !ok || len(fs) == 0 {
			return "datagram:not-whole-frames", fmt.Sprintf("datagram %d (%d bytes) is not a sequence of whole frames", i, len(d))
		}
		if len(d) > limit && len(fs) != 1 {
			return "datagram:over-limit", fmt.Sprintf("datagram %d has %d bytes > %d and %d frames", i, len(d), limit, len(fs))
		}
		got = append(got, fs...)
	}
	if rest != h.finB {
		return "buffer:not-whole-frames", fmt.Sprintf("the buffer holds %d bytes, which is no suffix of the accepted frames", h.finB)
	}
	if len(got) > len(want) {
		return "frames:duplicated-or-invented", fmt.Sprintf("%d frames received, %d accepted and no longer buffered", len(got), len(want))
	}
	for i := range got {
		if got[i].typ != want[i].typ || got[i].ver != want[i].ver || !bytes.Equal(got[i].body, want[i].body) {
			return "frames:order-or-content", fmt.Sprintf("frame %d differs from the %d-th accepted pack", i, i)
		}
	}
	if len(got) < len(want) {
		return "frames:lost", fmt.Sprintf("%d accepted frames neither received nor buffered", len(want)-len(got))
	}
	return "", ""
}

// ---------------------------------------------------------------- main

func main() {
	if os.Getenv("X03_CHILD") == "shutdown" {
		shutdownChild()
		return
	}
	env, rep := vh.Parse("X03")
	log.SetOutput(io.Discard)
	quietStdout()
	var rl syscall.Rlimit
	if syscall.Getrlimit(syscall.RLIMIT_NOFILE, &rl) == nil {
		rl.Cur = rl.Max
		syscall.Setrlimit(syscall.RLIMIT_NOFILE, &rl)
	}
	rng := vh.NewRng(env.Seed)
	rep.Rule = "one case = one operation history on one client (ucp = net/udp/UcpClient.go, old = net/UdpClient.go): sends with frame sizes " +
		"tiny / small / medium / half the limit / the limit ±3 / exactly filling the buffer to limit-1, limit, limit+1 / above the limit / above the UDP maximum, " +
		"flush flags, nil data, timer flushes, bursts of 5..40 small packs, and (manual mode) Shutdown in the middle, sends after it, ApplyConfig re-open; " +
		"via SendDataForVerif, Send(pack) or SendRelay(pack); non-trivial: at least two datagrams were produced; distinct = distinct operation texts"

	nLive, nManual, opsPer := 70, 60, 30
	if env.Thorough {
		nLive, nManual, opsPer = 600, 500, 45
	}
	var hs []*history
	if env.Replay != "" {
		hs = replayFile(env.Replay)
	} else {
		for i := 0; i < nLive+nManual; i++ {
			h := &history{ID: i, Kind: "ucp", Mode: "live"}
			if i%3 == 2 {
				h.Kind = "old"
			}
			if i >= nLive {
				h.Mode = "manual"
			}
			hs = append(hs, h)
		}
	}

	// the slow known replay runs beside everything else
	fullCh := make(chan [2]string, 1)
	go func() { fullCh <- replayChannelFull() }()

	workers := 6
	var wg sync.WaitGroup
	jobs := make(chan *history)
	forks := make([]*vh.Rng, len(hs))
	for i := range hs {
		forks[i] = rng.Fork()
	}
	for w := 0; w < workers; w++ {
		wg.Add(1)
		go func() {
			defer wg.Done()
			live := map[string]*liveEnv{}
			for h := range jobs {
				if env.Replay != "" {
					rerun(h, live)
					continue
				}
				if h.Mode == "live" {
					if live[h.Kind] == nil || live[h.Kind].dead {
						live[h.Kind] = newLive(h.Kind)
					}
					runLive(live[h.Kind], h, forks[h.ID], opsPer/3+forks[h.ID].Intn(opsPer))
				} else {
					runManual(h, forks[h.ID], opsPer/3+forks[h.ID].Intn(opsPer))
				}
			}
		}()
	}
	for _, h := range hs {
		jobs <- h
	}
	close(jobs)
	wg.Wait()

	var lines []string
	base := make([]int, len(hs))
	for i, h := range hs {
		base[i] = len(lines)
		lines = append(lines, h.lines...)
	}
	outs, err := vh.RunDriver(env.Driver, lines)
	if err != nil {
		vh.Die("%v", err)
	}

	for i, h := range hs {
		judge(h, outs[base[i]:base[i]+len(h.lines)], rep)
	}
	parserCases(rng, env, rep)
	optionCases(rng, rep)
	knownReplays(env, rep, <-fullCh)
	rep.Write(env.Out)
}

// the client prints with fmt.Println (sendBuffer: ">>>> Send to chan 3"); keep the harness's stdout clean
func quietStdout() {
	if f, err := os.OpenFile(os.DevNull, os.O_WRONLY, 0); err == nil {
		os.Stdout = f
	}
}

func canon(h *history) string {
	var sb strings.Builder
	sb.WriteString(h.Kind + "/" + h.Mode)
	for _, o := range h.Ops {
		sb.WriteString(";" + o.line() + "/" + o.Via)
	}
	return sb.String()
}

func judge(h *history, outs []string, rep *vh.Report) {
	rep.Case(canon(h), len(h.recv) >= 2)
	rep.Count("history:" + h.Kind + ":" + h.Mode)
	limit := limitOf(h.Kind)
	for _, o := range h.Ops {
		rep.Count("op:" + o.K)
		if o.K == "S" {
			rep.Count("via:" + o.Via)
			fl := 9 + len(o.body())
			switch {
			case fl > udpMax:
				rep.Count("frame:>udpmax")
			case fl > limit:
				rep.Count("frame:>limit")
			case fl >= limit-3:
				rep.Count("frame:limit-3..limit")
			case fl > limit/4:
				rep.Count("frame:big")
			default:
				rep.Count("frame:small")
			}
			if o.Flush {
				rep.Count("flush")
			}
			if o.Burst {
				rep.Count("burst-op")
			}
		}
	}
	rep.CountN("datagrams", len(h.recv))
	for _, d := range h.recv {
		if fs, ok := parseFrames(d); ok && len(fs) > 1 {
			rep.Count("datagram:multi-frame")
		}
		if len(d) > limit {
			rep.Count("datagram:>limit")
		}
	}
	id := h.Kind + ":" + h.Mode
	if h.bad != "" {
		rep.Fail("property", "UdpClient["+id+"]:"+h.bad, "an operation of the history did not return normally: "+h.bad, h)
		return
	}
	if h.Mode == "live" {
		if key, what := lawsLive(h); key != "" {
			rep.Fail("property", "UdpClient["+id+"]:"+key, what, h)
			return
		}
	}
	// model
	for i, at := range h.at {
		if m := modelSummary(outs[at]); m != h.impl[i] {
			rep.Fail("correspondence", "UdpClient["+id+"]:state",
				fmt.Sprintf("after step %d: implementation %q, model %q", i, h.impl[i], m), h)
			return
		}
	}
	var ds []string
	for _, d := range h.recv {
		ds = append(ds, digest(d))
	}
	if got, want := vh.List(ds), outs[len(outs)-1]; got != want {
		rep.Fail("correspondence", "UdpClient["+id+"]:datagram-sequence",
			fmt.Sprintf("received %s, model %s", trunc(got), trunc(want)), h)
	}
	if h.ID < 2 {
		rep.Sample(map[string]interface{}{"kind": h.Kind, "mode": h.Mode, "ops": len(h.Ops), "datagrams": ds})
	}
}

func trunc(s string) string {
	if len(s) > 300 {
		return s[:300] + "…"
	}
	return s
}

// ---------------------------------------------------------------- parser cases: receiver-side parsing vs the model's

func parserCases(rng *vh.Rng, env *vh.Env, rep *vh.Report) {
	var lines []string
	var want []string
	n := 300
	for i := 0; i < n; i++ {
		var d []byte
		k := 1 + rng.Intn(4)
		for j := 0; j < k; j++ {
			o := wio.NewDataOutputX()
			o.WriteByte(byte(rng.Intn(256)))
			o.WriteInt(int32(rng.Pick64([]int64{0, -1, 50100, 2147483647, -2147483648, int64(rng.Intn(70000))})))
			o.WriteIntBytes(rng.Bytes(rng.Intn(12)))
			d = append(d, o.ToByteArray()...)
		}
		switch rng.Intn(5) {
		case 0:
			if len(d) > 0 {
				d = d[:rng.Intn(len(d))] // truncated
			}
		case 1:
			d = append(d, rng.Bytes(1+rng.Intn(8))...) // trailing garbage
		}
		fs, ok := parseFrames(d)
		w := "fail"
		if ok {
			var parts []string
			for _, f := range fs {
				hb := "-"
				if len(f.body) > 0 {
					hb = hex.EncodeToString(f.body)
				}
				parts = append(parts, fmt.Sprintf("%d:%d:%s", f.typ, f.ver, hb))
			}
			w = strings.Join(parts, ";")
			if len(parts) == 0 {
				w = "-"
			}
		}
		hx := "-"
		if len(d) > 0 {
			hx = hex.EncodeToString(d)
		}
		lines = append(lines, "F "+hx)
		want = append(want, w)
		rep.Case("F "+hx, ok && len(fs) > 0)
		if ok {
			rep.Count("parse:ok")
		} else {
			rep.Count("parse:fail")
		}
	}
	outs, err := vh.RunDriver(env.Driver, lines)
	if err != nil {
		vh.Die("%v", err)
	}
	for i := range lines {
		if outs[i] != want[i] {
			rep.Fail("correspondence", "UdpClient:frame-parser", fmt.Sprintf("%s: header parsing of the Go side %q, model %q", lines[i], want[i], outs[i]), map[string]string{"line": lines[i]})
			return
		}
	}
}

// ---------------------------------------------------------------- options (law 4): defaults, last option wins

func optionCases(rng *vh.Rng, rep *vh.Report) {
	type exp struct {
		host   string
		port   int
		server string
	}
	for i := 0; i < 40; i++ {
		e := exp{"127.0.0.1", 6600, "127.0.0.1:6600"}
		var opts []wudp.UdpClientOption
		var txt []string
		for k, n := 0, rng.Intn(4); k < n; k++ {
			switch rng.Intn(3) {
			case 0:
				p := 20000 + rng.Intn(20000)
				opts = append(opts, wudp.WithUdpServer("127.0.0.1", p))
				e = exp{"127.0.0.1", p, fmt.Sprintf("127.0.0.1:%d", p)}
				txt = append(txt, fmt.Sprintf("server:%d", p))
			case 1:
				opts = append(opts, wudp.WithContext(nil, nil))
				txt = append(txt, "ctx:nil")
			case 2:
				opts = append(opts, wudp.WithConfigObserver(nil))
				txt = append(txt, "observer:nil")
			}
		}
		var c *wudp.UdpClient
		out := vh.GuardTimeout(hang, func() { c = wudp.NewForVerif(opts...) })
		rep.Case("options "+strings.Join(txt, ","), len(opts) > 0)
		rep.Count("options")
		if !out.OK() {
			rep.Fail("property", "UdpClient.options:"+out.String(), "constructing a client with options "+strings.Join(txt, ","), txt)
			return
		}
		host, port, server, timeout, hasCtx, hasCancel, hasLog, _, addr := c.ConfForVerif()
		_, _, open := c.StateForVerif()
		got := fmt.Sprintf("%s %d %s %v ctx=%v cancel=%v log=%v addr=%s open=%v", host, port, server, timeout, hasCtx, hasCancel, hasLog, addr, open)
		want := fmt.Sprintf("%s %d %s %v ctx=true cancel=true log=true addr=%s open=true", e.host, e.port, e.server, 60*time.Second, e.server)
		if got != want {
			rep.Fail("property", "UdpClient.options:defaults-or-order", fmt.Sprintf("options %v: got %q, want %q", txt, got, want), txt)
			return
		}
		vh.GuardTimeout(hang, c.Shutdown)
	}
}

// ---------------------------------------------------------------- known findings

func knownReplays(env *vh.Env, rep *vh.Report, full [2]string) {
	// 1. GetUdpClient: newUdpClient's result is overwritten by new(UdpClient); open() dereferences the nil conf
	wudp.ResetSingletonForVerif()
	var c1, c2 *wudp.UdpClient
	o1 := vh.GuardTimeout(hang, func() { c1 = wudp.GetUdpClient(wudp.WithUdpServer("127.0.0.1", 9)) })
	rep.KnownReplay("UcpClient.GetUdpClient:nil-conf-panic", o1.Panic != "" && c1 == nil,
		"first udp.GetUdpClient(WithUdpServer(127.0.0.1, 9)): "+o1.String())
	// 2. the second call returns the half-built singleton; Send panics inside sendByBuffer's recover
	//    handler (nil conf again), which skips lock.Unlock(): the next Send blocks for ever
	o2 := vh.GuardTimeout(hang, func() { c2 = wudp.GetUdpClient() })
	dead := false
	what := "second GetUdpClient: " + o2.String()
	if o2.OK() && c2 != nil && o1.Panic != "" {
		s1 := vh.GuardTimeout(hang, func() { c2.Send(&rawPack{typ: 150, ver: 1, body: []byte{1}}) })
		s2 := vh.GuardTimeout(2*time.Second, func() { c2.Send(&rawPack{typ: 150, ver: 1, body: []byte{2}}) })
		dead = s1.Panic != "" && s2.Timeout
		what += "; Send #1 " + s1.String() + ", Send #2 " + s2.String()
	}
	rep.KnownReplay("UcpClient.GetUdpClient:broken-singleton-send-deadlock", dead, what)
	wudp.ResetSingletonForVerif()

	// 3. GetUdpClient of net/udp never starts processRemain: no timer flush (static: the source text)
	if src, err := os.ReadFile(filepath.Join(env.Repo, "net/udp/UcpClient.go")); err == nil {
		fn := string(src)
		if i := strings.Index(fn, "func GetUdpClient("); i >= 0 {
			fn = fn[i:]
			if j := strings.Index(fn, "\nfunc newUdpClient"); j >= 0 {
				fn = fn[:j]
			}
		}
		rep.KnownReplay("UcpClient.GetUdpClient:no-timer-flush", !strings.Contains(fn, "processRemain()"),
			"net/udp GetUdpClient starts receive() and process() but not processRemain(): an unflushed pack stays in the buffer until a later pack pushes it out")
	}

	// 4. Shutdown does not flush the buffer; afterwards every Send is dropped
	for _, kind := range []string{"ucp", "old"} {
		r := newReceiver()
		c := newClient(kind, r.port)
		c.SendData(150, 50100, []byte{1, 2, 3}, true)
		c.SendData(151, 50100, []byte{4, 5, 6}, false)
		vh.GuardTimeout(hang, c.Shutdown)
		waitFor(func() bool { return r.count() >= 1 })
		c.SendData(152, 50100, []byte{7}, true)
		time.Sleep(5 * time.Millisecond)
		b, _, open := c.State()
		got := r.take()
		still := len(got) == 1 && b == 12 && !open
		key := "UcpClient.Shutdown:buffer-not-flushed"
		if kind == "old" {
			key = "UdpClient.Shutdown:buffer-not-flushed"
		}
		rep.KnownReplay(key, still, fmt.Sprintf("send(flush) send(no flush) Shutdown send(flush): %d datagram(s) received, %d bytes left in the buffer, open=%v", len(got), b, open))
		r.close()
	}

	// 5. a frame above the UDP maximum is written alone and refused by the socket: the pack is lost
	{
		r := newReceiver()
		c := newClient("ucp", r.port)
		c.StartProcess()
		c.SendData(150, 1, genBody(udpMax-9+1, 7), true)
		waitFor(func() bool { k := c.Counts(); return k[2] == 1 })
		c.SendData(151, 1, []byte{1}, true)
		waitFor(func() bool { return r.count() >= 1 })
		k := c.Counts()
		got := r.take()
		rep.KnownReplay("UcpClient.sendUDP:oversize-datagram-dropped", len(got) == 1 && len(got[0]) == 10 && k[4] == 1,
			fmt.Sprintf("a %d-byte frame then a 10-byte frame, both flushed: %d datagram(s) received, errCount=%d", udpMax+1, len(got), k[4]))
		r.close()
	}

	// 6. ApplyConfig: the new host/port never reach conf; after a Shutdown it re-opens the socket over the closed channel
	{
		r := newReceiver()
		r2 := newReceiver()
		c := ucp{wudp.NewForVerif(wudp.WithUdpServer("127.0.0.1", r.port))}
		vh.GuardTimeout(hang, func() { c.Reopen(r2.port) })
		host, port, server, _, _, _, _, _, addr := c.c.ConfForVerif()
		ignored := port == r.port && server == fmt.Sprintf("127.0.0.1:%d", r.port) && addr == server && host == "127.0.0.1"
		rep.KnownReplay("UcpClient.ApplyConfig:settings-ignored", ignored,
			fmt.Sprintf("ApplyConfig(net_udp_port=%d) on a client of port %d: conf port %d server %s addr %s", r2.port, r.port, port, server, addr))
		vh.GuardTimeout(hang, c.Shutdown)
		vh.GuardTimeout(hang, func() { c.Reopen(r2.port) })
		_, _, open := c.State()
		c.SendData(150, 1, []byte{9}, true)
		time.Sleep(5 * time.Millisecond)
		b, ch, _ := c.State()
		k := c.Counts()
		rep.KnownReplay("UcpClient.ApplyConfig:reopen-closed-channel", open && b == 0 && ch == 0 && k[1] == 1 && r.count()+r2.count() == 0,
			fmt.Sprintf("Shutdown, ApplyConfig, Send(flush): open=%v buffer=%d channel=%d chanCount=%d received=%d (send on closed channel, recovered; the pack is gone)", open, b, ch, k[1], r.count()+r2.count()))
		r.close()
		r2.close()
	}

	// 7. Shutdown while process() runs: the closed channel yields nil, sendUDP(nil) dereferences it
	{
		exe, _ := os.Executable()
		cmd := exec.Command(exe)
		cmd.Env = append(os.Environ(), "X03_CHILD=shutdown")
		var ob, eb bytes.Buffer
		cmd.Stdout, cmd.Stderr = &ob, &eb
		done := make(chan error, 1)
		cmd.Start()
		go func() { done <- cmd.Wait() }()
		res := ""
		select {
		case err := <-done:
			res = strings.TrimSpace(ob.String())
			if err != nil {
				res = "crashed"
				if strings.Contains(eb.String(), "nil pointer") {
					res = "crashed: nil pointer dereference in process()"
				}
			}
		case <-time.After(20 * time.Second):
			cmd.Process.Kill()
			res = "hung"
		}
		rep.KnownReplay("UcpClient.Shutdown:process-goroutine-crash-or-spin", res != "survived",
			"child process: client with process() running, one flushed pack, Shutdown, 300 ms: "+res)
	}

	// 8. a full channel: the sender blocks 5 s and the datagram is dropped
	rep.KnownReplay("UcpClient.sendByBuffer:full-channel-drop", full[0] == "dropped", full[1])
}

func replayChannelFull() [2]string {
	r := newReceiver()
	defer r.close()
	c := ucp{wudp.NewForVerif(wudp.WithUdpServer("127.0.0.1", r.port))}
	_, capN, _, _ := wudp.ConstsForVerif()
	for i := 0; i < capN; i++ {
		c.SendData(150, 1, nil, true)
	}
	t0 := time.Now()
	out := vh.GuardTimeout(hang, func() { c.SendData(151, 1, []byte{1}, true) })
	el := time.Since(t0)
	b, ch, _ := c.State()
	k := c.Counts()
	what := fmt.Sprintf("%d flushed packs with nobody draining, then one more: %s after %.1fs, channel=%d buffer=%d chanCount=%d (model: l=1 c=%d)", capN, out.String(), el.Seconds(), ch, b, k[1], capN)
	if out.OK() && ch == capN && b == 0 && k[1] == capN+1 && el > 4*time.Second {
		return [2]string{"dropped", what}
	}
	return [2]string{"kept", what}
}

func shutdownChild() {
	log.SetOutput(io.Discard)
	r := newReceiver()
	c := ucp{wudp.NewForVerif(wudp.WithUdpServer("127.0.0.1", r.port))}
	c.StartProcess()
	c.SendData(150, 1, []byte{1}, true)
	waitFor(func() bool { return r.count() == 1 })
	c.Shutdown()
	time.Sleep(300 * time.Millisecond)
	k := c.Counts()
	if k[2] > 100 {
		fmt.Printf("spinning: sendCount=%d errCount=%d\n", k[2], k[4])
		os.Exit(0)
	}
	fmt.Println("survived")
}

// ---------------------------------------------------------------- replay

func replayFile(path string) []*history {
	b, err := os.ReadFile(path)
	if err != nil {
		vh.Die("%v", err)
	}
	var h history
	if json.Unmarshal(b, &h) != nil || len(h.Ops) == 0 {
		var wrap struct {
			Replay history   `json:"replay"`
			Cases  []history `json:"cases"`
		}
		if json.Unmarshal(b, &wrap) != nil || (len(wrap.Replay.Ops) == 0 && len(wrap.Cases) == 0) {
			vh.Die("replay file %s: no history", path)
		}
		h = wrap.Replay
		if len(h.Ops) == 0 {
			h = wrap.Cases[0]
		}
	}
	h.ID = 0
	return []*history{&h}
}

// rerun executes the recorded ops of h
func rerun(h *history, live map[string]*liveEnv) {
	ops := h.Ops
	h.Ops = nil
	h.lines = []string{"N " + h.Kind}
	if h.Mode == "live" {
		e := newLive(h.Kind)
		for _, o := range ops {
			if out := apply(e.c, o, e.r.port); !out.OK() {
				h.bad = o.K + ":" + out.String()
			}
			h.Ops = append(h.Ops, o)
			h.lines = append(h.lines, o.line())
			if !o.Burst {
				e.quiesce()
				h.lines = append(h.lines, "PA")
				h.at = append(h.at, len(h.lines)-1)
				h.impl = append(h.impl, implSummary(e.c, e.r.count()))
			}
		}
		e.quiesce()
		h.fin = e.c.Counts()
		h.finB, _, _ = e.c.State()
		h.recv = e.r.take()
		h.lines = append(h.lines, "PA", "W")
		return
	}
	r := newReceiver()
	defer r.close()
	c := newClient(h.Kind, r.port)
	for _, o := range ops {
		_, ch, _ := c.State()
		apply(c, o, r.port)
		h.Ops = append(h.Ops, o)
		h.lines = append(h.lines, o.line())
		h.at = append(h.at, len(h.lines)-1)
		if o.K == "D" {
			waitFor(func() bool { return r.count() >= ch })
		}
		h.impl = append(h.impl, implSummary(c, r.count()))
	}
	time.Sleep(2 * time.Millisecond)
	h.recv = r.take()
	h.lines = append(h.lines, "W")
}
