package main

import (
	"fmt"
	"math"
	"os"
	"os/exec"
	"strconv"
	"strings"
	"time"

	"github.com/whatap/golib/lang/ref"
	"github.com/whatap/golib/lang/value"
	"github.com/whatap/golib/util/castutil"
	"github.com/whatap/golib/util/mathutil"
	"github.com/whatap/golib/util/paramtext"
	"github.com/whatap/golib/util/shellarg"
	"github.com/whatap/golib/util/stringutil"
	"github.com/whatap/golib/util/urlutil"
	"verif/harness/vh"
)

func hx(s string) string   { return vh.Hex([]byte(s)) }
func unhx(s string) string { return string(vh.UnHex(s)) }

func hexList(xs []string) string {
	if len(xs) == 0 {
		return "-"
	}
	h := make([]string, len(xs))
	for i, x := range xs {
		h[i] = hx(x)
	}
	return strings.Join(h, ",")
}
func unhexList(s string) []string {
	if s == "-" {
		return nil
	}
	var r []string
	for _, p := range strings.Split(s, ",") {
		r = append(r, unhx(p))
	}
	return r
}
func bit(b bool) string {
	if b {
		return "1"
	}
	return "0"
}

// runImpl answers the request line with the real code, in the driver's answer syntax.
func runImpl(c *kase) {
	f := strings.Split(c.line, " ")
	c.fam = f[0]
	o := vh.Guard(func() {
		switch f[0] {
		case "PT":
			c.impl = implPT(f)
		case "SA":
			c.impl = implSA(f)
		case "URL":
			c.impl = implURL(f)
		case "C":
			c.impl = implC(f)
		case "SC":
			n, _ := strconv.ParseInt(f[1], 10, 64)
			c.impl = fmt.Sprint(mathutil.Scale(int(n)))
		case "RS":
			b, _ := strconv.ParseUint(f[1], 10, 64)
			sc, _ := strconv.ParseInt(f[2], 10, 64)
			c.impl = fmt.Sprint(math.Float64bits(mathutil.RoundScale(math.Float64frombits(b), int(sc))))
		case "RI":
			v, _ := strconv.ParseInt(f[1], 10, 64)
			sc, _ := strconv.ParseInt(f[2], 10, 64)
			r := mathutil.RoundScale(float64(v), int(sc))
			if r != math.Trunc(r) || math.Abs(r) > 1e15 {
				c.impl = "non-integer:" + fmt.Sprint(math.Float64bits(r))
			} else {
				c.impl = fmt.Sprint(int64(r))
			}
		case "HC":
			v, _ := strconv.ParseInt(f[1], 10, 64)
			x := ref.NewINT()
			x.Value = int(v)
			c.impl = fmt.Sprint(x.HashCode())
		case "SB":
			c.impl = implSB(f)
		case "TS":
			c.impl = hx(strings.TrimSpace(unhx(f[1])))
		case "AT":
			v, err := strconv.Atoi(unhx(f[1]))
			c.impl = fmt.Sprintf("%d %s", v, bit(err == nil))
		default:
			c.impl = "bad-op"
		}
	})
	if !o.OK() {
		c.impl = o.String()
	}
}

func implPT(f []string) string {
	text, sb, eb, p := unhx(f[1]), unhx(f[2]), unhx(f[3]), unhx(f[5])
	if sb == "" && eb == "" && text != "" {
		// the constructor does not return (known finding, replayed in a child process)
		return "diverges"
	}
	var m map[string]string
	if f[4] != "nil" {
		m = map[string]string{}
		if f[4] != "-" {
			for _, kv := range strings.Split(f[4], ",") {
				p := strings.Split(kv, ":")
				if _, dup := m[unhx(p[0])]; !dup { // the model looks a key up first-wins
					m[unhx(p[0])] = unhx(p[1])
				}
			}
		}
	}
	var pt *paramtext.ParamText
	if sb == "${" && eb == "}" && len(text)%2 == 0 {
		pt = paramtext.NewParamText(text)
	} else {
		pt = paramtext.NewParamTextBrace(text, sb, eb)
	}
	if pt.GetOriginal() != text {
		return "GetOriginal-differs"
	}
	return fmt.Sprintf("%s %s %s %s", hexList(pt.GetKeys()), hx(pt.ToStringMap(nil)), hx(pt.ToStringMap(m)), hx(pt.ToStringStr(p)))
}

func implSA(f []string) string {
	args := unhexList(f[1])
	key, ds := unhx(f[2]), unhx(f[3])
	di, _ := strconv.ParseInt(f[4], 10, 32)
	dl, _ := strconv.ParseInt(f[5], 10, 64)
	db := f[6] == "1"
	s := shellarg.NewShellArg(args)
	var tags, params, p2 []string
	for e := s.Tags.Keys(); e.HasMoreElements(); {
		k := e.NextString()
		tags = append(tags, hx(k)+":"+hx(s.Tags.Get(k).(string)))
	}
	const sentinel = "\x00absent\x00"
	for e := s.Keys(); e.HasMoreElements(); {
		k := e.NextString()
		params = append(params, hx(k)+":"+hx(s.Get(k, sentinel)))
		v2 := "!"
		if o := vh.Guard(func() { v2 = hx(s.Get2(k)) }); !o.OK() {
			v2 = "!"
		}
		p2 = append(p2, hx(k)+":"+v2)
	}
	g2 := "panic"
	vh.Guard(func() { g2 = hx(s.Get2(key)) })
	return fmt.Sprintf("%s %s %s %s %s %d %d %s %s", vh.List(tags), vh.List(params), vh.List(p2),
		bit(s.HasKey(key)), hx(s.Get(key, ds)), s.GetInt(key, int32(di)), s.GetLong(key, dl), bit(s.GetBoolean(key, db)), g2)
}

func implURL(f []string) string {
	u := urlutil.NewURL(unhx(f[1]))
	if u.Url != unhx(f[1]) {
		return "Url-differs"
	}
	return fmt.Sprintf("%s %s %s %s %s %d %s %s %s %s %s %s %s", hx(u.Protocol), hx(u.Host), hx(u.RawPath), hx(u.Path), hx(u.RawPort), u.Port,
		hx(u.RawQuery), hx(u.Query), hx(u.File), hx(u.String()), hx(u.HostPort()), hx(u.Domain()), hx(u.DomainPath()))
}

func parseDyn(s string) (interface{}, string) {
	p := strings.SplitN(s, ":", 2)
	switch p[0] {
	case "nil":
		return nil, "nil"
	case "bvnil":
		return (*value.BoolValue)(nil), "bvnil"
	case "s":
		return unhx(p[1]), "s"
	case "i64":
		n, _ := strconv.ParseInt(p[1], 10, 64)
		return n, "i64"
	case "int":
		n, _ := strconv.ParseInt(p[1], 10, 64)
		return int(n), "int"
	case "i32":
		n, _ := strconv.ParseInt(p[1], 10, 32)
		return int32(n), "i32"
	case "f64":
		n, _ := strconv.ParseUint(p[1], 10, 64)
		return math.Float64frombits(n), "f64"
	case "f32":
		n, _ := strconv.ParseUint(p[1], 10, 32)
		return math.Float32frombits(uint32(n)), "f32"
	case "b":
		return p[1] == "1", "b"
	case "bv":
		return value.NewBoolValue(p[1] == "1"), "bv"
	}
	panic("bad dyn " + s)
}

// implC: the float results the model leaves open are checked here against the library directly
// and written with the model's tag when they agree with it.
func implC(f []string) string {
	v, ty := parseDyn(f[1])
	ci, cl := castutil.CInt(v), castutil.CLong(v)
	if castutil.CInteger(v) != ci {
		return "CInteger-differs"
	}
	cd, cf := castutil.CDouble(v), castutil.CFloat(v)
	sd := fmt.Sprintf("bits:%d", math.Float64bits(cd))
	sf := fmt.Sprintf("bits:%d", math.Float32bits(cf))
	switch ty {
	case "s":
		w, err := strconv.ParseFloat(v.(string), 64)
		if err != nil {
			w = 0
		}
		if math.Float64bits(w) == math.Float64bits(cd) {
			sd = "parse"
		}
		w32, err := strconv.ParseFloat(v.(string), 32)
		if err != nil {
			w32 = 0
		}
		if math.Float32bits(float32(w32)) == math.Float32bits(cf) {
			sf = "parse"
		}
	case "f64":
		if math.Float32bits(float32(v.(float64))) == math.Float32bits(cf) {
			sf = "narrow"
		}
	}
	cs := castutil.CString(v)
	ss := "t:" + hx(cs)
	switch ty {
	case "f64":
		if cs == strconv.FormatFloat(v.(float64), 'f', 7, 64) {
			ss = "fmt"
		}
	case "bv", "bvnil":
		// %s of a pointer: an address (bv) or %!s(*value.BoolValue=<nil>) — not an observable the model fixes
		ss = "t:-"
	}
	return fmt.Sprintf("%d %d %s %s %s %s", ci, cl, sd, sf, bit(castutil.CBool(v)), ss)
}

// ---------------------------------------------------------------- known finding: non-termination

func divergeChild() {
	paramtext.NewParamTextBrace("a", "", "")
	fmt.Println("returned")
}

// divergesInChild runs NewParamTextBrace("a","","") in a child process (it allocates without bound)
// and reports whether it was still running after the deadline.
func divergesInChild() bool {
	cmd := exec.Command(os.Args[0])
	cmd.Env = append(os.Environ(), "X02_CHILD=diverge", "GOMEMLIMIT=256MiB", "GOMAXPROCS=1")
	if err := cmd.Start(); err != nil {
		return false
	}
	done := make(chan error, 1)
	go func() { done <- cmd.Wait() }()
	select {
	case <-done:
		return false
	case <-time.After(300 * time.Millisecond):
		cmd.Process.Kill()
		<-done
		return true
	}
}

func implSB(f []string) string {
	sb := stringutil.NewStringBuffer()
	flags := ""
	if f[1] != "-" {
		for _, op := range strings.Split(f[1], ",") {
			p := strings.SplitN(op, ":", 2)
			arg := unhx(p[1])
			o := vh.Guard(func() {
				var r *stringutil.StringBuffer
				switch p[0] {
				case "a":
					r = sb.Append(arg)
				case "l":
					r = sb.AppendLine(arg)
				case "i":
					r = sb.AppendLineIndent(arg)
				case "c":
					r = sb.AppendLineClose(arg)
				case "k":
					r = sb.AppendClose(arg)
				case "m":
					r = sb.AppendComment(arg)
				case "x":
					sb.Clear()
					r = sb
				}
				if r != sb {
					panic("the call did not return its receiver")
				}
			})
			if o.OK() {
				flags += "1"
			} else {
				flags += "0"
			}
		}
	}
	if flags == "" {
		flags = "-"
	}
	return flags + " " + hx(sb.ToString())
}
