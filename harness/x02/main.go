// Correspondence harness for the extension check X02: text and conversion utilities
// (util/paramtext ParamText, util/shellarg, util/urlutil, util/castutil, util/mathutil, lang/ref)
// against the Lean models Golib.Ext.* (driver drv_x02) and against direct oracles.
//
// Every case is one request line of the driver.  Three executors answer it:
//   impl   the real code, observed through its public API only           (impl.go)
//   spec   the evident law evaluated directly, on structured cases whose expected answer
//          the generator knows by construction                            (gen.go: want)
//   model  the Lean model                                                 (driver)
// impl ≠ spec          → the law fails on the implementation   (kind "property")
// impl = spec ≠ model  → the model misdescribes the code       (kind "correspondence")
//
// Strings travel as the hex of their bytes: the Go code indexes bytes everywhere (strings.Index,
// slicing, len) except strings.TrimSpace / strings.ToLower, which decode UTF-8; the generators
// therefore mix ASCII, multi-byte white space and invalid UTF-8.
package main

import (
	"encoding/json"
	"fmt"
	"os"
	"strings"

	"verif/harness/vh"
)

type kase struct {
	line string // request line (replayable)
	fam  string // PT SA URL C SC RS RI HC TS AT
	impl string // answer of the implementation, in the driver's answer syntax
	want string // spec answer where the generator knows it ("" = none); same syntax, "*" fields are not checked
	law  string // which law `want` instantiates
	nt   bool   // non-trivial under the stated rule
}

func main() {
	if os.Getenv("X02_CHILD") == "diverge" {
		divergeChild()
		return
	}
	env, rep := vh.Parse("X02")
	rng := vh.NewRng(env.Seed)
	rep.Rule = "one case = one request line: a ParamText (text, braces, map, p), a ShellArg argv with a queried key, a URL, " +
		"a castutil argument of one dynamic type, a Scale/RoundScale/HashCode argument, a TrimSpace/Atoi text, a StringBuffer history; " +
		"non-trivial: the text has at least one reference / argv has ≥ 2 words / the URL has ≥ 2 components / the argument is not nil; " +
		"distinct = distinct request lines"

	var cases []*kase
	if env.Replay != "" {
		cases = loadReplay(env.Replay)
	} else {
		cases = generate(rng, env.Thorough, rep)
	}
	for _, c := range cases {
		runImpl(c)
	}
	lines := make([]string, len(cases))
	for i, c := range cases {
		lines[i] = c.line
	}
	if d := os.Getenv("VERIF_DUMP"); d != "" {
		os.WriteFile(d, []byte(strings.Join(lines, "\n")+"\n"), 0o644)
	}
	outs, err := vh.RunDriver(env.Driver, lines)
	if err != nil {
		vh.Die("%v", err)
	}

	replayFindings(rep, env.Driver)

	for i, c := range cases {
		judge(c, outs[i], rep)
	}
	rep.Write(env.Out)
}

// fieldsAgree compares two answers field by field; "*" in want matches anything.
func fieldsAgree(want, got string) (bool, int) {
	w := strings.Split(want, " ")
	g := strings.Split(got, " ")
	if len(w) != len(g) {
		return false, -1
	}
	for i := range w {
		if w[i] != "*" && w[i] != g[i] {
			return false, i
		}
	}
	return true, 0
}

var fieldNames = map[string][]string{
	"PT":  {"GetKeys", "ToStringMap(nil)", "ToStringMap", "ToStringStr"},
	"SA":  {"Tags", "Keys/Get", "Get2", "HasKey", "Get", "GetInt", "GetLong", "GetBoolean", "Get2(key)"},
	"URL": {"Protocol", "Host", "RawPath", "Path", "RawPort", "Port", "RawQuery", "Query", "File", "String", "HostPort", "Domain", "DomainPath"},
	"SB":  {"returned", "ToString"},
	"C":   {"CInt", "CLong", "CDouble", "CFloat", "CBool", "CString"},
}

func fieldName(fam string, i int) string {
	if ns, ok := fieldNames[fam]; ok && i >= 0 && i < len(ns) {
		return ns[i]
	}
	return "result"
}

func typeName(fam string) string {
	switch fam {
	case "PT":
		return "ParamText"
	case "SA":
		return "ShellArg"
	case "URL":
		return "URL"
	case "C":
		return "castutil"
	case "SC":
		return "mathutil.Scale"
	case "RS", "RI":
		return "mathutil.RoundScale"
	case "HC":
		return "ref.INT.HashCode"
	case "SB":
		return "StringBuffer"
	case "TS":
		return "strings.TrimSpace"
	case "AT":
		return "strconv.Atoi"
	}
	return fam
}

func judge(c *kase, model string, rep *vh.Report) {
	rep.Case(c.line, c.nt)
	rep.Count("family:" + c.fam)
	if c.want != "" {
		rep.Count("law:" + c.law)
		if ok, i := fieldsAgree(c.want, c.impl); !ok {
			key := fmt.Sprintf("%s.%s:%s", typeName(c.fam), fieldName(c.fam, i), c.law)
			rep.Fail("property", key,
				fmt.Sprintf("%s: law %q fails on the implementation: expected %s, got %s", typeName(c.fam), c.law, vh.Clip(c.want, 300), vh.Clip(c.impl, 300)),
				map[string]string{"line": c.line, "want": c.want, "impl": c.impl, "model": model})
			return
		}
	}
	// fields the model does not determine ("parse", "narrow", "fmt", "skip") are compared by impl.go against the library directly
	if ok, i := fieldsAgreeModel(model, c.impl); !ok {
		key := fmt.Sprintf("%s.%s:model", typeName(c.fam), fieldName(c.fam, i))
		kind := "correspondence"
		// property-directed search on this very input: laws that can be evaluated on the implementation for
		// an arbitrary input (laws.go); one of them failing makes this an exhibited failure of the law
		if law := directLaws(c); law != "" {
			rep.Fail("property", fmt.Sprintf("%s:%s", typeName(c.fam), law),
				fmt.Sprintf("%s: law %q fails on the implementation (input found through a model/implementation disagreement on field %s)", typeName(c.fam), law, fieldName(c.fam, i)),
				map[string]string{"line": c.line, "impl": c.impl, "model": model, "law": law})
			return
		}
		// property-directed search around the input: the structured laws were evaluated on this very
		// input (above) and on the whole structured stream; none failed, so this is a disagreement of
		// the model with the code and not an exhibited failure of a law — unless the case itself is a law case
		rep.Fail(kind, key,
			fmt.Sprintf("%s: model and implementation disagree (field %s): model %s, implementation %s", typeName(c.fam), fieldName(c.fam, i), vh.Clip(model, 300), vh.Clip(c.impl, 300)),
			map[string]string{"line": c.line, "impl": c.impl, "model": model})
	}
}

// the model leaves some fields open (float parsing/formatting); they are written with a tag and skipped here
func fieldsAgreeModel(model, impl string) (bool, int) {
	m := strings.Split(model, " ")
	g := strings.Split(impl, " ")
	if len(m) != len(g) {
		return false, -1
	}
	for i := range m {
		switch m[i] {
		case "parse", "narrow", "fmt", "skip":
			continue
		}
		if m[i] != g[i] {
			return false, i
		}
	}
	return true, 0
}

func loadReplay(path string) []*kase {
	raw, err := os.ReadFile(path)
	if err != nil {
		vh.Die("replay: %v", err)
	}
	var f struct {
		Cases []map[string]string `json:"cases"`
	}
	if err := json.Unmarshal(raw, &f); err != nil {
		vh.Die("replay: %v", err)
	}
	var cs []*kase
	for _, m := range f.Cases {
		if l := m["line"]; l != "" {
			c := &kase{line: l, fam: strings.SplitN(l, " ", 2)[0], nt: true, want: m["want"], law: "replayed"}
			cs = append(cs, c)
		}
	}
	return cs
}
