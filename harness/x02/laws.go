package main

import (
	"strings"
	"unicode"

	"github.com/whatap/golib/util/castutil"
	"github.com/whatap/golib/util/paramtext"
	"github.com/whatap/golib/util/shellarg"
	"github.com/whatap/golib/util/urlutil"
	"verif/harness/vh"
)

// hasWhiteSpace: some White_Space code point's UTF-8 encoding occurs in s as a byte substring
func hasWhiteSpace(s string) bool {
	for r := rune(0); r <= 0x3000; r++ {
		if unicode.IsSpace(r) && strings.Contains(s, string(r)) {
			return true
		}
	}
	return false
}

// directLaws evaluates, on the implementation and for the input of c (any input, not only the
// structured ones), consequences of the theorems of Props/X02.lean that need no model:
//   PT   ToStringMap(nil) = text when the text has no white space; keys are trimmed; #references = #keys; substituting every key by X is ToStringStr(X);
//        a text without the start brace is reproduced                (paramtext_keys, _tokenwise, _no_parameter)
//   SA   every enumerated key is a key with a value; Get of it is not the default   (table laws)
//   URL  Domain() ⊑ DomainPath() ⊑ String(); Host/RawPort come from one ParsePort   (url_plain_string shape-free part)
//   C    CInteger = CInt; CLong within int32 ⇒ CInt = CLong                        (cInt_eq_cLong_inRange)
// It returns the name of the first law that fails, "" if none does.
func directLaws(c *kase) (law string) {
	f := strings.Split(c.line, " ")
	o := vh.Guard(func() {
		switch f[0] {
		case "PT":
			text, sb, eb := unhx(f[1]), unhx(f[2]), unhx(f[3])
			if sb == "" && eb == "" && text != "" {
				return
			}
			pt := paramtext.NewParamTextBrace(text, sb, eb)
			keys := pt.GetKeys()
			for _, k := range keys {
				if strings.TrimSpace(k) != k {
					law = "keys-are-trimmed"
					return
				}
			}
			const mark = "\x00\x01mark\x01\x00"
			if !strings.Contains(text, mark) && strings.Count(pt.ToStringStr(mark), mark) != len(keys) {
				law = "one-key-per-reference"
				return
			}
			all := map[string]string{}
			for _, k := range keys {
				all[k] = "<X>"
			}
			if pt.ToStringMap(all) != pt.ToStringStr("<X>") {
				law = "map-of-all-keys-is-ToStringStr"
				return
			}
			if sb != "" && !strings.Contains(text, sb) && (pt.ToStringMap(nil) != text || len(keys) != 0) {
				law = "no-parameter"
				return
			}
			// paramtext_roundtrip_partial: without any white-space character in the text no name can be padded
			if !hasWhiteSpace(text) && pt.ToStringMap(nil) != text {
				law = "roundtrip-without-white-space"
			}
		case "SA":
			s := shellarg.NewShellArg(unhexList(f[1]))
			const sentinel = "\x00absent\x00"
			for e := s.Keys(); e.HasMoreElements(); {
				k := e.NextString()
				if !s.HasKey(k) || s.Get(k, sentinel) == sentinel {
					law = "enumerated-key-has-a-value"
					return
				}
			}
			for _, a := range unhexList(f[1]) {
				if strings.HasPrefix(a, "-") && !s.HasKey(a) {
					law = "every-dash-word-is-a-key"
					return
				}
			}
		case "URL":
			u := urlutil.NewURL(unhx(f[1]))
			if !strings.HasPrefix(u.DomainPath(), u.Domain()) || !strings.HasPrefix(u.String(), u.DomainPath()) {
				law = "Domain-DomainPath-String-prefixes"
				return
			}
			if strings.Contains(u.Host, ":") {
				law = "host-has-no-colon"
			}
		case "C":
			v, _ := parseDyn(f[1])
			if castutil.CInteger(v) != castutil.CInt(v) {
				law = "CInteger=CInt"
				return
			}
			if l := castutil.CLong(v); l >= -2147483648 && l <= 2147483647 && int64(castutil.CInt(v)) != l {
				law = "CInt=CLong-within-int32"
			}
		}
	})
	if !o.OK() && law == "" {
		// a panic where the model answers is a totality failure
		if f[0] != "PT" || !(unhx(f[2]) == "" && unhx(f[3]) == "") {
			law = "total"
		}
	}
	return
}
