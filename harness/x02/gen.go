package main

import (
	"fmt"
	"math"
	"strconv"
	"strings"

	"github.com/whatap/golib/util/castutil"
	"github.com/whatap/golib/util/mathutil"
	"github.com/whatap/golib/util/shellarg"
	"github.com/whatap/golib/util/urlutil"
	"verif/harness/vh"
)

var spaces = []string{" ", "\t", "\n", "\v", "\f", "\r", "\u0085", "\u00a0", "\u1680", "\u2000", "\u2003", "\u200a", "\u2028", "\u2029", "\u202f", "\u205f", "\u3000"}

// near misses of the white-space encodings and invalid UTF-8
var almostSpaces = []string{"\xc2", "\x85", "\xa0", "\xe2\x80", "\xe2\x80\x8b", "\xe2\x80\xa7", "\xe3\x80", "\x80\x80", "\xc2\x84", "\xe1\x9a\x81", "\xff", "\u200b", "\ufeff", "\x1c", "\x1f", "\x00"}

var words = []string{"a", "b", "key", "name", "x1", "K", "한", "é", "0", "42", "$", "{", "}", "${", "$${", "}}", "<", ">", "<<", ">>", "%", "=", ".", "-", "_"}

func pick(r *vh.Rng, xs []string) string { return xs[r.Intn(len(xs))] }

func randText(r *vh.Rng, pools [][]string, maxPieces int) string {
	n := r.Intn(maxPieces + 1)
	var sb strings.Builder
	for i := 0; i < n; i++ {
		p := pools[r.Intn(len(pools))]
		sb.WriteString(pick(r, p))
	}
	return sb.String()
}

func without(s string, b byte) string { return strings.ReplaceAll(s, string([]byte{b}), "") }

func pairs(m [][2]string) string {
	if m == nil {
		return "nil"
	}
	if len(m) == 0 {
		return "-"
	}
	var ps []string
	for _, kv := range m {
		ps = append(ps, hx(kv[0])+":"+hx(kv[1]))
	}
	return strings.Join(ps, ",")
}

func generate(r *vh.Rng, thorough bool, rep *vh.Report) []*kase {
	scale := 1
	if thorough {
		scale = 12
	}
	var cs []*kase
	add := func(c *kase) { cs = append(cs, c) }
	for i := 0; i < 2500*scale; i++ {
		add(genPTStructured(r))
	}
	for i := 0; i < 2500*scale; i++ {
		add(genPTRandom(r))
	}
	for i := 0; i < 1500*scale; i++ {
		add(genSAStructured(r))
	}
	for i := 0; i < 1500*scale; i++ {
		add(genSARandom(r))
	}
	for i := 0; i < 2000*scale; i++ {
		add(genURLStructured(r))
	}
	for i := 0; i < 2500*scale; i++ {
		add(genURLRandom(r))
	}
	for i := 0; i < 3000*scale; i++ {
		add(genCast(r))
	}
	for i := 0; i < 800*scale; i++ {
		add(genMath(r))
	}
	for i := 0; i < 1500*scale; i++ {
		add(genLib(r))
	}
	for i := 0; i < 1200*scale; i++ {
		add(genSB(r))
	}
	return cs
}

// ---------------------------------------------------------------- ParamText

var bracePairs = [][2]string{{"${", "}"}, {"${", "}"}, {"{", "}"}, {"<<", ">>"}, {"%", "%"}, {"$$", "$"}, {"aa", "a"}, {"[[", "]"}, {"#{", "}#"}, {"한", "é"}, {"\xff", "\xfe"}}

// structured: literals free of the first byte of sb, names free of the first byte of eb — the shape of
// theorem X02.parse_segments; the expected answers are known by construction.
func genPTStructured(r *vh.Rng) *kase {
	bp := bracePairs[r.Intn(len(bracePairs))]
	sb, eb := bp[0], bp[1]
	nseg := r.Intn(5)
	useNil := r.Chance(15)
	p := randText(r, [][]string{words, spaces}, 3)
	// the names first, then a map over some of their keys (distinct) and a key that is not used
	names := make([]string, nseg)
	keys := make([]string, nseg)
	var m [][2]string
	look := map[string]string{}
	if !useNil {
		m = [][2]string{}
	}
	for i := range names {
		name := without(randText(r, [][]string{words, words, spaces, almostSpaces}, 3), eb[0])
		if r.Chance(50) {
			name = pick(r, spaces) + name
		}
		if r.Chance(40) {
			name = name + pick(r, spaces)
		}
		names[i], keys[i] = name, strings.TrimSpace(name)
		if _, dup := look[keys[i]]; !useNil && !dup && r.Chance(60) {
			v := randText(r, [][]string{words, spaces}, 3)
			look[keys[i]] = v
			m = append(m, [2]string{keys[i], v})
		}
	}
	if k := pick(r, words); !useNil && r.Chance(30) {
		if _, dup := look[k]; !dup {
			look[k] = "other"
			m = append(m, [2]string{k, "other"})
		}
	}
	var text, wantNil, wantMap, wantStr strings.Builder
	for i := range names {
		lit := without(randText(r, [][]string{words, words, spaces, almostSpaces}, 4), sb[0])
		text.WriteString(lit + sb + names[i] + eb)
		sub := sb + keys[i] + eb
		if v, ok := look[keys[i]]; ok {
			sub = v
		}
		wantNil.WriteString(lit + sb + keys[i] + eb)
		wantMap.WriteString(lit + sub)
		wantStr.WriteString(lit + p)
	}
	tail := without(randText(r, [][]string{words, spaces, almostSpaces}, 4), sb[0])
	text.WriteString(tail)
	wantNil.WriteString(tail)
	wantMap.WriteString(tail)
	wantStr.WriteString(tail)
	c := &kase{fam: "PT", nt: nseg > 0, law: "segments"}
	if nseg == 0 {
		c.law = "no-parameter"
	}
	c.line = fmt.Sprintf("PT %s %s %s %s %s", hx(text.String()), hx(sb), hx(eb), pairs(m), hx(p))
	c.want = fmt.Sprintf("%s %s %s %s", hexList(keys), hx(wantNil.String()), hx(wantMap.String()), hx(wantStr.String()))
	return c
}

func genPTRandom(r *vh.Rng) *kase {
	var sb, eb string
	switch r.Intn(10) {
	case 0, 1, 2, 3:
		sb, eb = "${", "}"
	case 4, 5, 6:
		bp := bracePairs[r.Intn(len(bracePairs))]
		sb, eb = bp[0], bp[1]
	case 7:
		sb, eb = "", pick(r, []string{"}", "a", ">>", ""})
	case 8:
		sb, eb = pick(r, []string{"${", "a", "<<"}), ""
	default:
		sb, eb = pick(r, words), pick(r, words)
	}
	pool := []string{sb, eb, sb, eb, sb + " ", " " + eb}
	text := randText(r, [][]string{words, pool, pool, spaces, almostSpaces}, 12)
	var m [][2]string
	if r.Chance(85) {
		m = [][2]string{}
		seen := map[string]bool{}
		for i := r.Intn(4); i > 0; i-- {
			k := pick(r, []string{"a", "b", "key", "", " a", "x1", "name", "한", "$", "0"})
			if !seen[k] {
				seen[k] = true
				m = append(m, [2]string{k, randText(r, [][]string{words, spaces, {sb, eb}}, 3)})
			}
		}
	}
	p := randText(r, [][]string{words, spaces, {sb, eb}}, 3)
	c := &kase{fam: "PT", nt: strings.Contains(text, sb) && sb != ""}
	c.line = fmt.Sprintf("PT %s %s %s %s %s", hx(text), hx(sb), hx(eb), pairs(m), hx(p))
	if sb != "" && !strings.Contains(text, sb) {
		c.law = "no-parameter"
		c.want = fmt.Sprintf("- %s %s %s", hx(text), hx(text), hx(text))
	}
	return c
}

// ---------------------------------------------------------------- ShellArg

var optNames = []string{"-a", "-b", "-c", "-port", "-tag.x", "-tag.", "-tag.env", "-", "--v", "-한", "-n"}
var optValues = []string{"v", "1", "0", "42", "true", "TRUE", "tRuE", "false", "2147483648", "-5", "4294967297", "9223372036854775807", "9223372036854775808", "+7", " 7", "7 ", "x y", "", "tag.z", "1_000", "0x10", "한"}

func genSAStructured(r *vh.Rng) *kase {
	n := 1 + r.Intn(5)
	var args []string
	type g struct{ k, v1, v2 string; n int }
	var gs []g
	used := map[string]bool{}
	for i := 0; i < n; i++ {
		k := pick(r, optNames)
		if used[k] {
			continue
		}
		used[k] = true
		x := g{k: k, n: r.Intn(3)}
		args = append(args, k)
		val := func() string {
			for {
				v := pick(r, optValues)
				if !strings.HasPrefix(v, "-") {
					return v
				}
			}
		}
		if x.n >= 1 {
			x.v1 = val()
			args = append(args, x.v1)
		}
		if x.n >= 2 {
			x.v2 = val()
			args = append(args, x.v2)
		}
		gs = append(gs, x)
	}
	q := gs[r.Intn(len(gs))]
	var tags, params, p2 []string
	for _, x := range gs {
		if strings.HasPrefix(x.k, "-tag.") {
			tags = append(tags, hx(x.k)+":"+hx(x.k[5:]))
		}
		params = append(params, hx(x.k)+":"+hx(x.v1))
		if x.n >= 2 {
			p2 = append(p2, hx(x.k)+":"+hx(x.v2))
		} else {
			p2 = append(p2, hx(x.k)+":!")
		}
	}
	g2 := "panic"
	if q.n >= 2 {
		g2 = hx(q.v2)
	}
	c := &kase{fam: "SA", nt: len(args) >= 2, law: "well-formed-options"}
	c.line = fmt.Sprintf("SA %s %s %s %d %d %d", hexList(args), hx(q.k), hx("dflt"), 7, 8, 1)
	c.want = fmt.Sprintf("%s %s %s 1 %s * * * %s", vh.List(tags), vh.List(params), vh.List(p2), hx(q.v1), g2)
	return c
}

func genSARandom(r *vh.Rng) *kase {
	n := r.Intn(9)
	var args []string
	for i := 0; i < n; i++ {
		if r.Chance(45) {
			args = append(args, pick(r, optNames))
		} else {
			args = append(args, pick(r, optValues))
		}
	}
	key := pick(r, optNames)
	if len(args) > 0 && r.Chance(75) {
		key = args[r.Intn(len(args))]
	}
	di := r.Pick64([]int64{0, 7, -1, math.MaxInt32, math.MinInt32})
	dl := r.Pick64(vh.SignedBoundaries())
	c := &kase{fam: "SA", nt: len(args) >= 2}
	c.line = fmt.Sprintf("SA %s %s %s %d %d %s", hexList(args), hx(key), hx(pick(r, optValues)), di, dl, bit(r.Bool()))
	return c
}

// ---------------------------------------------------------------- URL

var hostWords = []string{"a", "example", "com", "www", "127", "0", "1", "localhost", "한", "x-y", "_"}
var pathWords = []string{"a", "b", "index.html", "api", "v1", "한", ".", "..", "x y", "=", "&", ":", "@", "~"}
var queryWords = []string{"a=1", "b", "&", "=", "x", "?", "/", ":", "한", "//", "#f", " "}

func genURLStructured(r *vh.Rng) *kase {
	proto := pick(r, []string{"http", "https", "https", "ftp", "ws", "HTTPS", "h2"})
	host := ""
	for i := 1 + r.Intn(3); i > 0; i-- {
		if host != "" {
			host += "."
		}
		host += pick(r, hostWords)
	}
	port := ""
	if r.Chance(50) {
		port = pick(r, []string{"80", "443", "8080", "1", "0", "65535", "65536", "08", "9223372036854775807", "9223372036854775808", "123456789012345678", "1234567890123456789", "-1", "+5", "x", "8x", "80:90", " 80"})
	}
	path := ""
	for i := r.Intn(4); i > 0; i-- {
		path += "/" + pick(r, pathWords)
	}
	if path != "" && r.Chance(20) {
		path += "/"
	}
	query := ""
	if r.Chance(50) {
		for i := 1 + r.Intn(3); i > 0; i-- {
			query += pick(r, queryWords)
		}
	}
	u := proto + "://" + host
	dp := u
	if port != "" {
		u += ":" + port
	}
	dp = u + path
	u = dp
	if query != "" {
		u += "?" + query
	}
	pv, _ := strconv.Atoi(port) // the code ignores the error too; the point of the law is the value it leaves
	if port == "" {
		pv = 80
		if proto == "https" {
			pv = 443
		}
	}
	c := &kase{fam: "URL", nt: true, law: "plain-shape"}
	c.line = "URL " + hx(u)
	c.want = fmt.Sprintf("%s %s %s %s %s %d %s %s * %s * %s %s", hx(proto), hx(host), hx(path), hx(path), hx(port), pv, hx(query), hx(query), hx(u), hx(proto+"://"+host), hx(dp))
	return c
}

func genURLRandom(r *vh.Rng) *kase {
	pool := []string{"://", "://", "/", "/", "?", ":", ":", "%", "%41", "%2F", "%zz", "%4", "+", "#", "@", "https", "http"}
	u := randText(r, [][]string{pool, pool, hostWords, pathWords, queryWords, {"80", "443", "8080", "99999999999999999999", "-1", "0"}, almostSpaces}, 10)
	c := &kase{fam: "URL", nt: strings.ContainsAny(u, "/:?")}
	c.line = "URL " + hx(u)
	return c
}

// ---------------------------------------------------------------- castutil / mathutil / ref

var intTexts = []string{"", "0", "-0", "+0", "7", "-7", "+7", "007", "2147483647", "2147483648", "-2147483648", "-2147483649", "4294967296", "4294967301",
	"9223372036854775807", "9223372036854775808", "-9223372036854775808", "-9223372036854775809", "18446744073709551615", "18446744073709551616",
	"99999999999999999999", "99999999999999999999x", "9x", "1_0", "0x1f", " 1", "1 ", "1.0", "1e3", "-", "+", "--1", "true", "TRUE", "True", "tRUE", "truE", "false", "T", "ｔrue", "tr\u0131e", "\u212a", "TRU\xc9", "NaN", "Inf", "-inf", "1.5", ".5", "1e400", "0x1p-2", "한"}

func genCast(r *vh.Rng) *kase {
	var d, want, law string
	b := vh.SignedBoundaries()
	switch r.Intn(12) {
	case 0:
		d = "nil"
		want, law = "0 0 bits:0 bits:0 0 t:-", "nil-is-zero"
	case 1, 2:
		v := r.Pick64(b)
		if r.Chance(40) {
			v = r.I64() >> uint(r.Intn(64))
		}
		d = fmt.Sprintf("i64:%d", v)
		want, law = fmt.Sprintf("%d %d bits:0 bits:0 0 *", int32(v), v), "int64-converts"
	case 3:
		d = fmt.Sprintf("int:%d", r.Pick64(b))
	case 4:
		d = fmt.Sprintf("i32:%d", int32(r.Pick64(b)))
	case 5:
		bits := r.U64()
		if r.Chance(50) {
			bits = math.Float64bits(float64(r.Pick64(b)) / float64(r.PickInt([]int{1, 3, 10, 1000})))
		}
		d = fmt.Sprintf("f64:%d", bits)
		want, law = fmt.Sprintf("0 0 bits:%d narrow 0 fmt", bits), "float64-converts"
	case 6:
		d = fmt.Sprintf("f32:%d", uint32(r.U64()))
	case 7:
		d = "b:" + bit(r.Bool())
	case 8:
		d = pick(r, []string{"bv:0", "bv:1", "bvnil"})
	case 9:
		v := r.Pick64(b)
		if r.Chance(40) {
			v = r.I64() >> uint(r.Intn(64))
		}
		s := strconv.FormatInt(v, 10)
		d = "s:" + hx(s)
		want, law = fmt.Sprintf("%d %d * * 0 t:%s", int32(v), v, hx(s)), "decimal-text-converts"
	default:
		s := pick(r, intTexts)
		if r.Chance(20) {
			s = randText(r, [][]string{intTexts, spaces, {"-", "+", "_", "0", "9"}}, 3)
		}
		d = "s:" + hx(s)
	}
	return &kase{fam: "C", line: "C " + d, nt: d != "nil", want: want, law: law}
}

func genMath(r *vh.Rng) *kase {
	switch r.Intn(5) {
	case 0:
		n := r.Pick64([]int64{-2, -1, 0, 1, 2, 3, 4, 5, 6, 10, 100, math.MaxInt32, math.MinInt64, math.MaxInt64})
		c := &kase{fam: "SC", line: fmt.Sprintf("SC %d", n), nt: true}
		if n >= 1 && n <= 4 {
			c.law, c.want = "power-of-ten", strconv.FormatInt(int64(math.Pow10(int(n))), 10)
		}
		return c
	case 1:
		v := r.Range(-(1 << 39), 1<<39)
		sc := r.Range(-1, 6)
		return &kase{fam: "RI", line: fmt.Sprintf("RI %d %d", v, sc), nt: true, law: "integers-are-fixed", want: strconv.FormatInt(v, 10)}
	case 2:
		return &kase{fam: "HC", line: fmt.Sprintf("HC %d", r.Pick64(vh.SignedBoundaries())), nt: true}
	default:
		var f float64
		switch r.Intn(4) {
		case 0:
			f = math.Float64frombits(r.U64())
		case 1:
			f = float64(r.Range(-1e9, 1e9)) / float64(r.PickInt([]int{3, 7, 100, 1000, 10000, 100000}))
		case 2:
			f = float64(r.Pick64(vh.SignedBoundaries())) / float64(r.PickInt([]int{1, 10, 10000}))
		default:
			f = float64(r.Range(-100000, 100000))/100 + float64(r.Range(-5, 5))*1e-9
		}
		sc := r.Range(-1, 6)
		return &kase{fam: "RS", line: fmt.Sprintf("RS %d %d", math.Float64bits(f), sc), nt: true}
	}
}

// the library functions the models rest on, compared on their own
func genLib(r *vh.Rng) *kase {
	if r.Bool() {
		s := randText(r, [][]string{spaces, spaces, almostSpaces, words}, 7)
		return &kase{fam: "TS", line: "TS " + hx(s), nt: s != ""}
	}
	s := pick(r, intTexts)
	if r.Chance(40) {
		v := r.Pick64(vh.SignedBoundaries())
		s = strconv.FormatInt(v, 10)
		if r.Chance(30) {
			s += pick(r, []string{"0", "9", "x", " "})
		}
	}
	return &kase{fam: "AT", line: "AT " + hx(s), nt: s != ""}
}

// ---------------------------------------------------------------- StringBuffer

// histories that mostly stay balanced, sometimes close more than they opened; the balanced ones carry
// the expected text (each line at the depth of the enclosing blocks)
func genSB(r *vh.Rng) *kase {
	n := r.Intn(14)
	var ops []string
	var want strings.Builder
	depth, under := 0, false
	allowUnder := r.Chance(25)
	for i := 0; i < n; i++ {
		arg := randText(r, [][]string{words, {"x", "{", "}", "if a {", "end"}, spaces}, 2)
		k := r.Intn(12)
		tabs := func(d int) string { return strings.Repeat("\t", d) }
		switch {
		case k < 3:
			ops = append(ops, "a:"+hx(arg))
			want.WriteString(tabs(depth) + arg)
		case k < 5:
			ops = append(ops, "l:"+hx(arg))
			want.WriteString(tabs(depth) + arg + "\n")
		case k < 7:
			ops = append(ops, "i:"+hx(arg))
			want.WriteString(tabs(depth) + arg + "\n")
			depth++
		case k < 9:
			if depth == 0 && !allowUnder {
				continue
			}
			if depth == 0 {
				under = true
			}
			depth--
			ops = append(ops, "c:"+hx(arg))
			if !under {
				want.WriteString(tabs(depth) + arg + "\n")
			}
		case k < 10:
			if depth == 0 && !allowUnder {
				continue
			}
			if depth == 0 {
				under = true
			}
			depth--
			ops = append(ops, "k:"+hx(arg))
			if !under {
				want.WriteString(tabs(depth) + arg)
			}
		case k < 11:
			ops = append(ops, "m:"+hx(arg))
			want.WriteString(tabs(depth) + "/// " + arg + "\n")
		default:
			if r.Chance(30) {
				ops = append(ops, "x:-")
				want.Reset()
				depth = 0
			}
		}
		if under {
			break
		}
	}
	c := &kase{fam: "SB", line: "SB " + vh.List(ops), nt: len(ops) >= 2}
	if !under {
		c.law = "balanced-blocks"
		flags := strings.Repeat("1", len(ops))
		if flags == "" {
			flags = "-"
		}
		c.want = flags + " " + hx(want.String())
	}
	return c
}

// ---------------------------------------------------------------- known findings, replayed every run

func replayFindings(rep *vh.Report, driver string) {
	// 1. both braces empty: the constructor never returns
	rep.KnownReplay("ParamText.NewParamTextBrace:empty-braces-diverge", divergesInChild(),
		`paramtext.NewParamTextBrace("a", "", "") does not return (each iteration appends a reference named "" and consumes nothing)`)

	// 2. ToStringMap(nil) does not reproduce a text whose parameter name is padded
	rep.KnownReplay("ParamText.ToStringMap:padded-name-not-reproduced",
		implLine("PT "+hx("${ a }")+" "+hx("${")+" "+hx("}")+" nil -") == fmt.Sprintf("%s %s %s %s", hx("a"), hx("${a}"), hx("${a}"), "-"),
		`NewParamText("${ a }").ToStringMap(nil) = "${a}", not the original text (the name is stored trimmed)`)

	// 3. String() drops an empty port / empty query delimiter
	u := urlutil.NewURL("http://a:/x?")
	rep.KnownReplay("URL.String:empty-port-or-query-dropped", u.String() == "http://a/x",
		`NewURL("http://a:/x?").String() = "http://a/x"`)

	// 4. File of a URL without path is cut at the "//" of the scheme
	u = urlutil.NewURL("http://host")
	rep.KnownReplay("URL.File:bare-host", u.File == "/host", `NewURL("http://host").File = "/host"`)

	// 5. the error of Atoi is ignored
	u1 := urlutil.NewURL("https://a:x/")
	u2 := urlutil.NewURL("http://a:99999999999999999999/")
	rep.KnownReplay("URL.Port:atoi-error-ignored", u1.Port == 0 && u2.Port == math.MaxInt64,
		`NewURL("https://a:x/").Port = 0 (not 443); NewURL("http://a:99999999999999999999/").Port = 9223372036854775807`)

	// 6. only int64 / float64 convert
	rep.KnownReplay("castutil:only-int64-float64-convert",
		castutil.CInt(int32(5)) == 0 && castutil.CInt(5) == 0 && castutil.CLong(int32(5)) == 0 && castutil.CFloat(float32(1.5)) == 0 &&
			castutil.CString(float32(1.5)) == "" && castutil.CString(int64(5)) == "%!s(int64=5)",
		`CInt(int32(5)) = CInt(5) = CLong(int32(5)) = 0, CFloat(float32(1.5)) = 0, CString(float32(1.5)) = "", CString(int64(5)) = "%!s(int64=5)"`)

	// 7. a negative number cannot be an option value
	s := shellarg.NewShellArg([]string{"-n", "-5"})
	rep.KnownReplay("ShellArg:negative-value-is-a-key", s.GetInt("-n", 7) == 0 && s.HasKey("-5"),
		`NewShellArg(["-n","-5"]).GetInt("-n", 7) = 0 and "-5" is a key`)

	// 9. closing more blocks than were opened
	rep.KnownReplay("StringBuffer.AppendClose:negative-indent-panics", implLine("SB k:"+hx("}")+",a:"+hx("x")) == "00 -",
		`stringutil.NewStringBuffer().AppendClose("}") panics (strings: negative Repeat count) and so does every later Append`)

	// 8. Scale outside 1..4
	rep.KnownReplay("mathutil.Scale:default-10000", mathutil.Scale(0) == 10000 && mathutil.Scale(5) == 10000 && mathutil.Scale(-1) == 10000,
		`Scale(0) = Scale(5) = Scale(-1) = 10000`)
}

func implLine(line string) string {
	c := &kase{line: line}
	runImpl(c)
	return c.impl
}
