// Correspondence harness for C12: the plain hash maps / sets IntIntMap, IntKeyMap, IntSet and
// StringSet of util/hmap against the Lean Spec `HMap.PS.step` (a finite map) run by driver drv_c12.
//
// The model compared with is the *Spec* of the property, so a disagreement on a return value or on
// the (sorted) multiset of enumerated elements / Size after an operation is a failure of the
// property itself on that history.  Enumerations are compared as sorted multisets; the serialized
// form of IntIntMap is read back by the implementation and by the model (both directions).
package main

import (
	"encoding/hex"
	"encoding/json"
	"fmt"
	"math"
	"os"
	"sort"
	"strconv"
	"strings"
	"sync"
	"sync/atomic"
	"time"

	gio "github.com/whatap/golib/io"
	"github.com/whatap/golib/util/hash"
	"github.com/whatap/golib/util/hmap"
	"verif/harness/vh"
)

type key struct {
	i int64
	s string
}

// V is the value type stored in IntKeyMap (interface{} values).
type V int64

type ctor struct {
	def bool
	cap int
	lf  float32
	arr bool // the sets only: NewIntSetArray / NewStringSetArray (as the code has it: the argument is ignored, the set starts empty)
}

func (c ctor) String() string {
	if c.arr {
		return "array-ctor"
	}
	if c.def {
		return "default"
	}
	return fmt.Sprintf("cap=%d,lf=%g", c.cap, c.lf)
}

type op struct {
	t     int // target instance of the history's pool of live containers
	src   int // source instance of a cross-object operation (PAF, TOF)
	code  string
	k     key
	v     int64
	n     int
	hit   bool // ESV only: the entry was found (set when executed)
	rel   bool // SM only: n is an offset from the target's Size() at the moment of the call (resolved when executed)
	asc   bool
	pairs []pairKV // PA, TO
}

type pairKV struct {
	k key
	v int64
}

type pairS struct{ k, v string }

type dump struct {
	entries    []pairS // as enumerated
	keys       []string
	values     []string
	keyArray   []string
	valueArray []string
	size       int
	has        map[string]bool // which views this type offers (and which did not hang in the probe)
}

type inst struct {
	exec func(o op) string
	dump func(skip map[string]bool) dump
	// wire (IntIntMap only)
	toBytes  func() []byte
	fromWire func(b []byte) *inst
	// several live containers
	putAllFrom    func(src *inst)   // IntKeyMap.PutAll(other)
	toObjectBytes func(b []byte)    // IntIntMap.ToObject(bytes of another map)
	keyArrayWrite func() string     // KeyArray()/ValueArray(): sorted keys, then the caller scribbles over the returned slices
	putAllWrite   func(ps []pairKV) // IntSet.PutAll(slice), then the caller scribbles over the slice
	openEnum      func()            // take the enumerators now …
	drainEnum     func() string     // … and drain them later (sorted entries); the container is not modified in between
	stepEnum      func(n int)       // … or advance them by up to n elements now (HasMoreElements / Next), keeping what they yielded for drainEnum
	raw           interface{}
}

type tdesc struct {
	name     string
	kkind    byte // 'i' int32, 's' string
	hasCtor  bool
	isSet    bool
	ops      []string
	xops     []string // operations that involve another live container, a caller-held slice or a kept enumerator
	views    []string
	mk       func(ctor) *inst
	repaired bool // a known finding of this type no longer reproduces: compare with the repaired descriptor
}

// strTok: a Go string is a byte string.  `~` = ""; bytes [A-Za-z0-9_] as they are; anything else `%<hex>`.
func strTok(s string) string {
	if s == "" {
		return "~"
	}
	plain := s[0] != '%'
	for i := 0; i < len(s) && plain; i++ {
		c := s[i]
		plain = (c >= '0' && c <= '9') || (c >= 'A' && c <= 'Z') || (c >= 'a' && c <= 'z') || c == '_'
	}
	if plain {
		return s
	}
	return "%" + hex.EncodeToString([]byte(s))
}

func tokStr(t string) string {
	if t == "~" {
		return ""
	}
	if strings.HasPrefix(t, "%") {
		b, _ := hex.DecodeString(t[1:])
		return string(b)
	}
	return t
}

// nilV stands for a nil interface value in an op (token `nil`).
const nilV = math.MinInt64 + 7777

// Value kinds (IntKeyMap stores interface{} values): the map must treat a value as opaque — store it, hand it back —
// whatever its dynamic type.  A model value in [kindBase, kindBase+nKinds*kindSpan) stands for a Go value of kind
// (v-kindBase)/kindSpan carrying the payload (v-kindBase)%kindSpan; any other model value is the boxed integer V(v).
// Kinds 3, 4, 5, 6, 10 are NOT comparable (`==` on two interface values of that dynamic type panics), 8 is a typed nil
// pointer inside a non-nil interface, 2 is a pointer (identity; interned per payload).
const (
	kindBase = int64(1000000000000000)
	kindSpan = int64(1000000)
	nKinds   = 11
)

type valCell struct{ p int64 }
type valStruct struct {
	xs  []int64
	tag string
}
type valBox struct{ v interface{} } // comparable type, but comparing two of them panics when v holds a slice

var kindNames = []string{"string", "float64", "pointer", "slice", "map", "func", "struct-with-slice", "array", "typed-nil-pointer", "bool", "struct-with-interface-slice"}

var valCells sync.Map // payload → *valCell

func codedV(kind int, payload int64) int64 {
	switch kind {
	case 8:
		payload = 0
	case 9:
		payload &= 1
	}
	return kindBase + int64(kind)*kindSpan + payload%kindSpan
}

func valKind(v int64) int { // -1: a boxed integer (or nil)
	if v >= kindBase && v < kindBase+nKinds*kindSpan {
		return int((v - kindBase) / kindSpan)
	}
	return -1
}

func comparableVal(v int64) bool {
	switch valKind(v) {
	case 3, 4, 5, 6, 10:
		return false
	}
	return true
}

func boxV(v int64) interface{} {
	if v == nilV {
		return nil
	}
	k := valKind(v)
	if k < 0 {
		return V(v)
	}
	p := (v - kindBase) % kindSpan
	switch k {
	case 0:
		return "s" + strconv.FormatInt(p, 10)
	case 1:
		return float64(p) + 0.5
	case 2:
		c, _ := valCells.LoadOrStore(p, &valCell{p})
		return c.(*valCell)
	case 3:
		return []int32{int32(p)}
	case 4:
		return map[string]int64{"p": p}
	case 5:
		return func() int64 { return p }
	case 6:
		return valStruct{xs: []int64{p}, tag: "t"}
	case 7:
		return [2]int32{int32(p), -int32(p)}
	case 8:
		return (*valCell)(nil)
	case 9:
		return p == 1
	}
	return valBox{v: []int32{int32(p)}}
}

func valTok(v int64) string {
	if v == nilV {
		return "nil"
	}
	return strconv.FormatInt(v, 10)
}
func boolTok(b bool) string {
	if b {
		return "T"
	}
	return "F"
}
func i32Tok(k int32) string { return strconv.FormatInt(int64(k), 10) }

func objVal(x interface{}) string {
	switch t := x.(type) {
	case nil:
		return "-"
	case V:
		return strconv.FormatInt(int64(t), 10)
	case string:
		if p, err := strconv.ParseInt(strings.TrimPrefix(t, "s"), 10, 64); err == nil && strings.HasPrefix(t, "s") {
			return strconv.FormatInt(codedV(0, p), 10)
		}
	case float64:
		return strconv.FormatInt(codedV(1, int64(t-0.5)), 10)
	case *valCell:
		if t == nil {
			return strconv.FormatInt(codedV(8, 0), 10)
		}
		if c, ok := valCells.Load(t.p); ok && c.(*valCell) == t { // the very pointer that was stored
			return strconv.FormatInt(codedV(2, t.p), 10)
		}
	case []int32:
		if len(t) == 1 {
			return strconv.FormatInt(codedV(3, int64(t[0])), 10)
		}
	case map[string]int64:
		if p, ok := t["p"]; ok && len(t) == 1 {
			return strconv.FormatInt(codedV(4, p), 10)
		}
	case func() int64:
		return strconv.FormatInt(codedV(5, t()), 10)
	case valStruct:
		if len(t.xs) == 1 && t.tag == "t" {
			return strconv.FormatInt(codedV(6, t.xs[0]), 10)
		}
	case [2]int32:
		if t[1] == -t[0] {
			return strconv.FormatInt(codedV(7, int64(t[0])), 10)
		}
	case bool:
		if t {
			return strconv.FormatInt(codedV(9, 1), 10)
		}
		return strconv.FormatInt(codedV(9, 0), 10)
	case valBox:
		if s, ok := t.v.([]int32); ok && len(s) == 1 {
			return strconv.FormatInt(codedV(10, int64(s[0])), 10)
		}
	}
	return fmt.Sprintf("?%T:%v", x, x)
}

const enumSlack = 8

// drive runs an enumerator in one of three ways (`*mode` mod 3):
//
//	0  while HasMoreElements() { Next }
//	1  exactly `size` calls of Next with NO HasMoreElements in between (IntSet.ToString, KeyArray, ValueArray and callers do that)
//	2  mixed: HasMoreElements called 0–3 times before each Next, `size` elements
//
// After 1 and 2 whatever HasMoreElements still announces is drained, so that it shows up as a difference.
func drive(mode *int, size int, hasMore func() bool, next func()) {
	m := 0
	if mode != nil {
		m = *mode % 3
	}
	switch m {
	case 0:
		for i := 0; hasMore() && i < size+enumSlack; i++ {
			next()
		}
		return
	case 1:
		for i := 0; i < size; i++ {
			next()
		}
	case 2:
		for i := 0; i < size; i++ {
			stop := false
			for k := (i*7 + 3) % 4; k > 0; k-- {
				if !hasMore() {
					stop = true
				}
			}
			if stop {
				return
			}
			next()
		}
	}
	for i := 0; hasMore() && i < enumSlack; i++ {
		next()
	}
}

// ---------------------------------------------------------------- the four types

func newIntIntMap(c ctor) *inst {
	var m *hmap.IntIntMap
	if c.def {
		m = hmap.NewIntIntMapDefault()
	} else {
		m = hmap.NewIntIntMap(c.cap, c.lf)
	}
	return wrapIntIntMap(m)
}

func wrapIntIntMap(m *hmap.IntIntMap) *inst {
	dm := new(int) // how the enumerators of this instance are driven (rotated by every dump / EO)
	var it *inst
	it = &inst{
		exec: func(o op) string {
			k, v := int32(o.k.i), int32(o.v)
			switch o.code {
			case "P":
				return i32Tok(m.Put(k, v))
			case "A":
				return i32Tok(m.Add(k, v))
			case "AE":
				return i32Tok(m.AddIfExist(k, v))
			case "G":
				return i32Tok(m.Get(k))
			case "CK":
				return boolTok(m.ContainsKey(k))
			case "CV":
				return boolTok(m.ContainsValue(v))
			case "R":
				return i32Tok(m.Remove(k))
			case "C":
				m.Clear()
				return "u"
			case "SZ":
				return strconv.Itoa(m.Size())
			case "IE":
				return boolTok(m.IsEmpty())
			case "IF":
				return boolTok(m.IsFull())
			case "SM":
				m.SetMax(o.n)
				return "u"
			case "SN": // the NONE a caller configures (exported field; no setter)
				m.NONE = int32(o.v)
				return strconv.Itoa(m.Size())
			case "SO":
				if o.asc {
					m.Sort(func(a, b int32) bool { return a < b })
				} else {
					m.Sort(func(a, b int32) bool { return a > b })
				}
				return "u"
			case "TO":
				m.ToObject(gio.NewDataInputX(encodePairs(o.pairs)))
				return "u"
			case "ESV": // SetValue on the live entry of key k (found by enumerating Entries()): writes through to the map
				en := m.Entries()
				for i := 0; en.HasMoreElements() && i < m.Size()+enumSlack; i++ {
					if e, ok := en.NextElement().(*hmap.IntIntEntry); ok && e.GetKey() == k {
						return i32Tok(e.SetValue(v))
					}
				}
				return "absent"
			case "TS": // ToString() against the entries' own ToString(), enumerated the HasMoreElements way
				var parts []string
				en := m.Entries()
				for i := 0; en.HasMoreElements() && i < m.Size()+enumSlack; i++ {
					if e, ok := en.NextElement().(*hmap.IntIntEntry); ok {
						parts = append(parts, e.ToString())
					}
				}
				want := "{" + strings.Join(parts, ", ") + "}"
				if got := m.ToString(); got != want {
					return strconv.Itoa(m.Size()) + "!ToString=" + got + " want " + want
				}
				return strconv.Itoa(m.Size())
			}
			return "?unsupported"
		},
		dump: func(skip map[string]bool) dump {
			*dm++
			d := dump{has: map[string]bool{}}
			n := m.Size()
			d.size = n
			if !skip["Entries"] {
				d.has["Entries"] = true
				en := m.Entries()
				drive(dm, n, en.HasMoreElements, func() {
					if e, ok := en.NextElement().(*hmap.IntIntEntry); ok {
						d.entries = append(d.entries, pairS{i32Tok(e.GetKey()), i32Tok(e.GetValue())})
					} else {
						d.entries = append(d.entries, pairS{"?", "?"})
					}
				})
			}
			if !skip["Keys"] {
				d.has["Keys"] = true
				en := m.Keys()
				drive(dm, n, en.HasMoreElements, func() {
					d.keys = append(d.keys, i32Tok(en.NextInt()))
				})
			}
			if !skip["Values"] {
				d.has["Values"] = true
				en := m.Values()
				drive(dm, n, en.HasMoreElements, func() {
					d.values = append(d.values, i32Tok(en.NextInt()))
				})
			}
			if !skip["KeyArray"] {
				d.has["KeyArray"] = true
				for _, k := range m.KeyArray() {
					d.keyArray = append(d.keyArray, i32Tok(k))
				}
			}
			if !skip["ValueArray"] {
				d.has["ValueArray"] = true
				for _, v := range m.ValueArray() {
					d.valueArray = append(d.valueArray, i32Tok(v))
				}
			}
			return d
		},
		toBytes: func() []byte {
			o := gio.NewDataOutputX()
			m.ToBytes(o)
			return o.ToByteArray()
		},
		fromWire: func(b []byte) *inst {
			return wrapIntIntMap(hmap.NewIntIntMapDefault().ToObject(gio.NewDataInputX(b)))
		},
		toObjectBytes: func(b []byte) { m.ToObject(gio.NewDataInputX(b)) },
		raw:           m,
	}
	var keptK, keptV []int32 // results the caller kept unmodified: they must still hold their contents at the next call
	var keptKT, keptVT string
	kaCalls := 0
	toks32 := func(xs []int32) string {
		var ts []string
		for _, x := range xs {
			ts = append(ts, i32Tok(x))
		}
		return strings.Join(ts, ",")
	}
	it.keyArrayWrite = func() string {
		note := ""
		if keptK != nil {
			if toks32(keptK) != keptKT || toks32(keptV) != keptVT {
				note = "!kept-KeyArray/ValueArray-result-changed"
			}
			keptK, keptV = nil, nil
		}
		ks, vs := m.KeyArray(), m.ValueArray()
		var toks []string
		for _, k := range ks {
			toks = append(toks, i32Tok(k))
		}
		kaCalls++
		if kaCalls%2 == 1 && len(ks) > 0 {
			keptK, keptV, keptKT, keptVT = ks, vs, toks32(ks), toks32(vs)
		} else {
			for i := range ks {
				ks[i] = 0x5a5a5a5a
			}
			for i := range vs {
				vs[i] = -7
			}
		}
		return sortedToks(toks, true) + note
	}
	var enE hmap.Enumeration
	var enK hmap.IntEnumer
	var ps []pairS // what the kept enumerators have yielded so far (EN steps), completed by ED
	var ks, ks2 []string
	takeE := func() {
		if e, ok := enE.NextElement().(*hmap.IntIntEntry); ok {
			ps = append(ps, pairS{i32Tok(e.GetKey()), i32Tok(e.GetValue())})
			ks = append(ks, i32Tok(e.GetKey()))
		}
	}
	it.openEnum = func() { *dm++; enE, enK = m.Entries(), m.Keys(); ps, ks, ks2 = nil, nil, nil }
	it.stepEnum = func(n int) {
		if enE == nil {
			it.openEnum()
		}
		for i := 0; i < n && enE.HasMoreElements(); i++ {
			takeE()
		}
		for i := 0; i < n && enK.HasMoreElements(); i++ {
			ks2 = append(ks2, i32Tok(enK.NextInt()))
		}
	}
	it.drainEnum = func() string {
		if enE == nil {
			it.openEnum()
		}
		n := m.Size()
		drive(dm, max(0, n-len(ps)), enE.HasMoreElements, takeE)
		drive(dm, max(0, n-len(ks2)), enK.HasMoreElements, func() {
			ks2 = append(ks2, i32Tok(enK.NextInt()))
		})
		enE, enK = nil, nil
		out := joinPairs(sortedPairs(&tdesc{kkind: 'i'}, ps))
		if sortedToks(ks, true) != sortedToks(ks2, true) {
			out += "!keys=" + sortedToks(ks2, true)
		}
		return out
	}
	return it
}

func encodePairs(ps []pairKV) []byte {
	o := gio.NewDataOutputX()
	o.WriteDecimal(int64(len(ps)))
	for _, p := range ps {
		o.WriteDecimal(p.k.i)
		o.WriteDecimal(p.v)
	}
	return o.ToByteArray()
}

func newIntKeyMap(c ctor) *inst {
	dm := new(int) // how the enumerators of this instance are driven (rotated by every dump / EO)
	var m *hmap.IntKeyMap
	if c.def {
		m = hmap.NewIntKeyMapDefault()
	} else {
		m = hmap.NewIntKeyMap(c.cap, c.lf)
	}
	it := &inst{
		exec: func(o op) string {
			k := int32(o.k.i)
			switch o.code {
			case "P":
				return objVal(m.Put(k, boxV(o.v)))
			case "G":
				return objVal(m.Get(k))
			case "CK":
				return boolTok(m.ContainsKey(k))
			case "CV":
				return boolTok(m.ContainsValue(boxV(o.v)))
			case "ESV": // SetValue on the live entry of key k: writes through to the map
				en := m.Entries()
				for i := 0; en.HasMoreElements() && i < m.Size()+enumSlack; i++ {
					if e, ok := en.NextElement().(*hmap.IntKeyEntry); ok && e.GetKey() == k {
						return objVal(e.SetValue(boxV(o.v)))
					}
				}
				return "absent"
			case "TFS": // ToFormatString() against the entries' own ToString()
				var sb strings.Builder
				sb.WriteString("{\n")
				en := m.Entries()
				for i := 0; en.HasMoreElements() && i < m.Size()+enumSlack; i++ {
					if e, ok := en.NextElement().(*hmap.IntKeyEntry); ok {
						sb.WriteString("\t" + e.ToString() + "\n")
					}
				}
				sb.WriteString("}")
				if got := m.ToFormatString(); got != sb.String() {
					return strconv.Itoa(m.Size()) + "!ToFormatString=" + got + " want " + sb.String()
				}
				return strconv.Itoa(m.Size())
			case "R":
				return objVal(m.Remove(k))
			case "C":
				m.Clear()
				return "u"
			case "SZ":
				return strconv.Itoa(m.Size())
			case "TS":
				var parts []string
				en := m.Entries()
				for i := 0; en.HasMoreElements() && i < m.Size()+enumSlack; i++ {
					if e, ok := en.NextElement().(*hmap.IntKeyEntry); ok {
						parts = append(parts, e.ToString())
					}
				}
				want := "{" + strings.Join(parts, ", ") + "}"
				if got := m.ToString(); got != want {
					return strconv.Itoa(m.Size()) + "!ToString=" + got + " want " + want
				}
				return strconv.Itoa(m.Size())
			case "PA":
				other := hmap.NewIntKeyMap(3, 0.75)
				for _, p := range o.pairs {
					other.Put(int32(p.k.i), boxV(p.v))
				}
				m.PutAll(other)
				return "u"
			}
			return "?unsupported"
		},
		dump: func(skip map[string]bool) dump {
			*dm++
			d := dump{has: map[string]bool{}}
			n := m.Size()
			d.size = n
			if !skip["Entries"] {
				d.has["Entries"] = true
				en := m.Entries()
				drive(dm, n, en.HasMoreElements, func() {
					if e, ok := en.NextElement().(*hmap.IntKeyEntry); ok {
						d.entries = append(d.entries, pairS{i32Tok(e.GetKey()), objVal(e.GetValue())})
					} else {
						d.entries = append(d.entries, pairS{"?", "?"})
					}
				})
			}
			if !skip["Keys"] {
				d.has["Keys"] = true
				en := m.Keys()
				drive(dm, n, en.HasMoreElements, func() {
					d.keys = append(d.keys, i32Tok(en.NextInt()))
				})
			}
			if !skip["Values"] {
				d.has["Values"] = true
				en := m.Values()
				drive(dm, n, en.HasMoreElements, func() {
					d.values = append(d.values, objVal(en.NextElement()))
				})
			}
			if !skip["KeyArray"] {
				d.has["KeyArray"] = true
				for _, k := range m.KeyArray() {
					d.keyArray = append(d.keyArray, i32Tok(k))
				}
			}
			return d
		},
	}
	it.raw = m
	it.putAllFrom = func(src *inst) { m.PutAll(src.raw.(*hmap.IntKeyMap)) }
	var keptK []int32
	var keptKT string
	kaCalls := 0
	it.keyArrayWrite = func() string {
		note := ""
		toks32 := func(xs []int32) string {
			var ts []string
			for _, x := range xs {
				ts = append(ts, i32Tok(x))
			}
			return strings.Join(ts, ",")
		}
		if keptK != nil {
			if toks32(keptK) != keptKT {
				note = "!kept-KeyArray-result-changed"
			}
			keptK = nil
		}
		ks := m.KeyArray()
		var toks []string
		for _, k := range ks {
			toks = append(toks, i32Tok(k))
		}
		kaCalls++
		if kaCalls%2 == 1 && len(ks) > 0 {
			keptK, keptKT = ks, toks32(ks)
		} else {
			for i := range ks {
				ks[i] = 0x5a5a5a5a
			}
		}
		return sortedToks(toks, true) + note
	}
	var enE hmap.Enumeration
	var enK hmap.IntEnumer
	var ps []pairS // what the kept enumerators have yielded so far (EN steps), completed by ED
	var ks, ks2 []string
	takeE := func() {
		if e, ok := enE.NextElement().(*hmap.IntKeyEntry); ok {
			ps = append(ps, pairS{i32Tok(e.GetKey()), objVal(e.GetValue())})
			ks = append(ks, i32Tok(e.GetKey()))
		}
	}
	it.openEnum = func() { *dm++; enE, enK = m.Entries(), m.Keys(); ps, ks, ks2 = nil, nil, nil }
	it.stepEnum = func(n int) {
		if enE == nil {
			it.openEnum()
		}
		for i := 0; i < n && enE.HasMoreElements(); i++ {
			takeE()
		}
		for i := 0; i < n && enK.HasMoreElements(); i++ {
			ks2 = append(ks2, i32Tok(enK.NextInt()))
		}
	}
	it.drainEnum = func() string {
		if enE == nil {
			it.openEnum()
		}
		n := m.Size()
		drive(dm, max(0, n-len(ps)), enE.HasMoreElements, takeE)
		drive(dm, max(0, n-len(ks2)), enK.HasMoreElements, func() {
			ks2 = append(ks2, i32Tok(enK.NextInt()))
		})
		enE, enK = nil, nil
		out := joinPairs(sortedPairs(&tdesc{kkind: 'i'}, ps))
		if sortedToks(ks, true) != sortedToks(ks2, true) {
			out += "!keys=" + sortedToks(ks2, true)
		}
		return out
	}
	return it
}

func newIntSet(c ctor) *inst {
	dm := new(int) // how the enumerators of this instance are driven (rotated by every dump / EO)
	m := hmap.NewIntSet()
	if c.arr {
		m = hmap.NewIntSetArray([]string{"1", "2", "3"})
	}
	it := &inst{
		exec: func(o op) string {
			k := int32(o.k.i)
			switch o.code {
			case "P":
				return boolTok(m.Put(k))
			case "CK":
				return boolTok(m.Contains(k))
			case "R":
				return i32Tok(m.Remove(k))
			case "C":
				m.Clear()
				return "u"
			case "SZ":
				return strconv.Itoa(m.Size())
			case "TS": // IntSet.ToString drives the enumerator with Size() bare NextInt calls
				var parts []string
				en := m.Values()
				for i := 0; en.HasMoreElements() && i < m.Size()+enumSlack; i++ {
					parts = append(parts, strconv.Itoa(int(en.NextInt())))
				}
				want := "{" + strings.Join(parts, ", ") + "}"
				if got := m.ToString(); got != want {
					return strconv.Itoa(m.Size()) + "!ToString=" + got + " want " + want
				}
				return strconv.Itoa(m.Size())
			case "PA":
				var xs []int32
				for _, p := range o.pairs {
					xs = append(xs, int32(p.k.i))
				}
				m.PutAll(xs)
				return "u"
			}
			return "?unsupported"
		},
		dump: func(skip map[string]bool) dump {
			*dm++
			d := dump{has: map[string]bool{}}
			n := m.Size()
			d.size = n
			if !skip["Values"] {
				d.has["Entries"] = true
				en := m.Values()
				drive(dm, n, en.HasMoreElements, func() {
					d.entries = append(d.entries, pairS{i32Tok(en.NextInt()), "0"})
				})
			}
			return d
		},
	}
	it.raw = m
	it.putAllWrite = func(ps []pairKV) {
		xs := make([]int32, 0, len(ps))
		for _, p := range ps {
			xs = append(xs, int32(p.k.i))
		}
		m.PutAll(xs)
		for i := range xs {
			xs[i] = 0x5a5a5a5a
		}
	}
	var en *hmap.IntSetEnumer
	var ps []pairS
	it.openEnum = func() { *dm++; en = m.Values(); ps = nil }
	it.stepEnum = func(n int) {
		if en == nil {
			it.openEnum()
		}
		for i := 0; i < n && en.HasMoreElements(); i++ {
			ps = append(ps, pairS{i32Tok(en.NextInt()), "0"})
		}
	}
	it.drainEnum = func() string {
		if en == nil {
			it.openEnum()
		}
		n := m.Size()
		drive(dm, max(0, n-len(ps)), en.HasMoreElements, func() {
			ps = append(ps, pairS{i32Tok(en.NextInt()), "0"})
		})
		en = nil
		return joinPairs(sortedPairs(&tdesc{kkind: 'i'}, ps))
	}
	return it
}

func newStringSet(c ctor) *inst {
	dm := new(int) // how the enumerators of this instance are driven (rotated by every dump / EO)
	m := hmap.NewStringSet()
	if c.arr {
		m = hmap.NewStringSetArray([]string{"a", "b", "c"})
	}
	it := &inst{
		exec: func(o op) string {
			k := o.k.s
			switch o.code {
			case "P":
				return strTok(m.Put(k))
			case "U":
				return strTok(m.Unipoint(k))
			case "CK":
				return boolTok(m.Contains(k))
			case "HK":
				return boolTok(m.HasKey(k))
			case "R":
				return boolTok(m.Remove(k))
			case "C":
				m.Clear()
				return "u"
			case "SZ":
				return strconv.Itoa(m.Size())
			}
			return "?unsupported"
		},
		dump: func(skip map[string]bool) dump {
			*dm++
			d := dump{has: map[string]bool{}}
			n := m.Size()
			d.size = n
			if !skip["Keys"] {
				d.has["Entries"] = true
				en := m.Keys()
				drive(dm, n, en.HasMoreElements, func() {
					d.entries = append(d.entries, pairS{strTok(en.NextString()), "0"})
				})
			}
			return d
		},
	}
	it.raw = m
	var en hmap.StringEnumer
	var ps []pairS
	it.openEnum = func() { *dm++; en = m.Keys(); ps = nil }
	it.stepEnum = func(n int) {
		if en == nil {
			it.openEnum()
		}
		for i := 0; i < n && en.HasMoreElements(); i++ {
			ps = append(ps, pairS{strTok(en.NextString()), "0"})
		}
	}
	it.drainEnum = func() string {
		if en == nil {
			it.openEnum()
		}
		n := m.Size()
		drive(dm, max(0, n-len(ps)), en.HasMoreElements, func() {
			ps = append(ps, pairS{strTok(en.NextString()), "0"})
		})
		en = nil
		return joinPairs(sortedPairs(&tdesc{kkind: 's'}, ps))
	}
	return it
}

var types = []*tdesc{
	{name: "IntIntMap", kkind: 'i', hasCtor: true,
		ops:  []string{"P", "A", "AE", "G", "CK", "CV", "R", "C", "SZ", "IE", "IF", "SM", "SN", "SO", "TO", "TS", "ESV"},
		xops: []string{"TOF", "KAW", "EOB", "EIB"}, views: []string{"Entries", "Keys", "Values", "KeyArray", "ValueArray"}, mk: newIntIntMap},
	{name: "IntKeyMap", kkind: 'i', hasCtor: true,
		ops:  []string{"P", "G", "CK", "CV", "R", "C", "SZ", "PA", "TS", "ESV", "TFS"},
		xops: []string{"PAF", "KAW", "EOB", "EIB"}, views: []string{"Entries", "Keys", "Values", "KeyArray"}, mk: newIntKeyMap},
	{name: "IntSet", kkind: 'i', isSet: true,
		ops:  []string{"P", "CK", "R", "C", "SZ", "PA", "TS"},
		xops: []string{"PAW", "EOB", "EIB"}, views: []string{"Values"}, mk: newIntSet},
	{name: "StringSet", kkind: 's', isSet: true,
		ops:  []string{"P", "U", "CK", "HK", "R", "C", "SZ"},
		xops: []string{"EOB", "EIB"}, views: []string{"Keys"}, mk: newStringSet},
}

func (t *tdesc) method(code string) string {
	switch code {
	case "P":
		return "Put"
	case "U":
		return "Unipoint"
	case "A":
		return "Add"
	case "AE":
		return "AddIfExist"
	case "G":
		return "Get"
	case "CK":
		if t.isSet {
			return "Contains"
		}
		return "ContainsKey"
	case "HK":
		return "HasKey"
	case "CV":
		return "ContainsValue"
	case "R":
		return "Remove"
	case "C":
		return "Clear"
	case "SZ":
		return "Size"
	case "IE":
		return "IsEmpty"
	case "IF":
		return "IsFull"
	case "SM":
		return "SetMax"
	case "SO":
		return "Sort"
	case "PA":
		return "PutAll"
	case "TS":
		return "ToString"
	case "TFS":
		return "ToFormatString"
	case "ESV":
		return "Entry.SetValue"
	case "TO", "TOF":
		return "ToObject"
	case "PAF", "PAW":
		return "PutAll"
	case "KAW":
		return "KeyArray"
	case "EO", "ED", "EN":
		return "Enumerator"
	case "SN":
		return "NONE="
	}
	return code
}

func (t *tdesc) keyTok(k key) string {
	if t.kkind == 's' {
		return strTok(k.s)
	}
	return strconv.FormatInt(k.i, 10)
}

// line is the request line sent to the driver: `@<instance> <operation>`.
func (t *tdesc) line(o op) string { return fmt.Sprintf("@%d %s", o.t, t.line0(o)) }

func (t *tdesc) line0(o op) string {
	switch o.code {
	case "PAF", "TOF":
		return fmt.Sprintf("%s %d", o.code, o.src)
	case "PAW":
		o2 := o
		o2.code = "PA"
		return t.line0(o2)
	case "KAW":
		return "KS"
	case "ESV": // SetValue on the live entry of a present key IS put(k, v); no entry, nothing happens
		if o.hit {
			return fmt.Sprintf("P %s %s", t.keyTok(o.k), valTok(o.v))
		}
		return "G " + t.keyTok(o.k)
	case "EO", "TS", "TFS", "EN", "SN": // SN: the configured NONE only changes how "absent" is shown; the model sees a Size query
		return "SZ"
	case "ED":
		return "ES"
	case "P", "A", "AE":
		return fmt.Sprintf("%s %s %s", o.code, t.keyTok(o.k), valTok(o.v))
	case "U":
		return fmt.Sprintf("P %s 0", t.keyTok(o.k))
	case "G", "CK", "R":
		return o.code + " " + t.keyTok(o.k)
	case "HK":
		return "CK " + t.keyTok(o.k)
	case "CV":
		return fmt.Sprintf("CV %d", o.v)
	case "SM":
		n := o.n
		if n < 0 {
			n = 0
		}
		return fmt.Sprintf("SM %d", n)
	case "SO":
		if o.asc {
			return "SO asc"
		}
		return "SO desc"
	case "PA":
		if len(o.pairs) == 0 {
			return "PA []"
		}
		var ps []string
		for _, p := range o.pairs {
			ps = append(ps, fmt.Sprintf("%s=%s", t.keyTok(p.k), valTok(p.v)))
		}
		return "PA " + strings.Join(ps, ",")
	case "TO":
		return "TO " + vh.Hex(encodePairs(o.pairs))
	}
	return o.code
}

// the line as stored in a replay (the harness-side op, so that U / HK / PA / TO can be re-executed)
func (t *tdesc) replayLine(o op) string { return fmt.Sprintf("@%d %s", o.t, t.replayLine0(o)) }

func (t *tdesc) replayLine0(o op) string {
	switch o.code {
	case "KAW", "EO", "ED", "TS", "TFS":
		return o.code
	case "ESV":
		return fmt.Sprintf("ESV %s %s", t.keyTok(o.k), valTok(o.v))
	case "EN":
		return fmt.Sprintf("EN %d", o.n)
	case "SN":
		return fmt.Sprintf("SN %d", o.v)
	case "PAW":
		o2 := o
		o2.code = "PA"
		return "PAW" + t.line0(o2)[2:]
	case "U", "HK":
		return o.code + " " + t.keyTok(o.k)
	case "TO":
		var ps []string
		for _, p := range o.pairs {
			ps = append(ps, fmt.Sprintf("%s=%s", t.keyTok(p.k), valTok(p.v)))
		}
		if len(ps) == 0 {
			return "TO []"
		}
		return "TO " + strings.Join(ps, ",")
	}
	return t.line0(o)
}

func parseLine(t *tdesc, l string) (op, bool) {
	w := strings.Fields(l)
	tgt := 0
	if len(w) > 0 && strings.HasPrefix(w[0], "@") {
		tgt, _ = strconv.Atoi(w[0][1:])
		w = w[1:]
	}
	if len(w) == 0 {
		return op{}, false
	}
	o := op{code: w[0], t: tgt}
	pk := func(s string) key {
		if t.kkind == 's' {
			return key{s: tokStr(s)}
		}
		i, _ := strconv.ParseInt(s, 10, 64)
		return key{i: i}
	}
	switch w[0] {
	case "P", "A", "AE", "ESV":
		if len(w) != 3 {
			return o, false
		}
		o.k = pk(w[1])
		if w[2] == "nil" {
			o.v = nilV
		} else {
			o.v, _ = strconv.ParseInt(w[2], 10, 64)
		}
	case "G", "CK", "R", "U", "HK":
		if len(w) != 2 {
			return o, false
		}
		o.k = pk(w[1])
	case "CV", "SN":
		o.v, _ = strconv.ParseInt(w[1], 10, 64)
	case "SM", "EN":
		o.n, _ = strconv.Atoi(w[1])
	case "SO":
		o.asc = w[1] == "asc"
	case "PAF", "TOF":
		if len(w) != 2 {
			return o, false
		}
		o.src, _ = strconv.Atoi(w[1])
	case "PA", "TO", "PAW":
		if len(w) == 2 && w[1] != "[]" {
			for _, p := range strings.Split(w[1], ",") {
				i := strings.LastIndexByte(p, '=')
				if i < 0 {
					return o, false
				}
				v, _ := strconv.ParseInt(p[i+1:], 10, 64)
				if p[i+1:] == "nil" {
					v = nilV
				}
				o.pairs = append(o.pairs, pairKV{pk(p[:i]), v})
			}
		}
	}
	return o, true
}

func mutating(code string) bool {
	switch code {
	case "P", "U", "A", "AE", "R", "C", "SO", "SM", "PA", "TO", "PAF", "TOF", "PAW", "KAW", "ESV":
		return true // (KAW does not mutate; it is followed by a dump because the caller writes the returned slices)
	}
	return false
}

func thrList(c ctor) (int, string) {
	cp, lf := c.cap, c.lf
	if c.def {
		cp, lf = 101, 0.75
	}
	if cp == 0 {
		cp = 1
	}
	var parts []string
	x := cp
	for i := 0; i < 26 && x < 1<<40; i++ {
		parts = append(parts, fmt.Sprintf("%d:%d", x, int(float32(x)*lf)))
		x = 2*x + 1
	}
	return cp, strings.Join(parts, ",")
}

func (t *tdesc) newLine(c ctor) string {
	cp, thr := thrList(c)
	r := ""
	if t.repaired {
		r = " R"
	}
	return fmt.Sprintf("N %s id %d %s%s", t.name, cp, thr, r)
}

// expect converts the driver's answer into the token the implementation shows for the same
// abstract result.
func (t *tdesc) expect(o op, model string, none string) string {
	if o.code == "ESV" && model == "-" && !(o.hit && t.name == "IntKeyMap") {
		if !o.hit {
			return "absent" // no entry with that key was enumerated, and the model has none
		}
		return "present-in-the-implementation-only"
	}
	switch t.name {
	case "IntIntMap":
		switch o.code {
		case "P", "A", "G", "R":
			if model == "-" {
				return none // the instance's configured NONE (0 unless set)
			}
		case "AE":
			if model == "-" {
				return "0" // as the code has it: addIfExist answers the literal 0 for an absent key, whatever NONE is
			}
		}
	case "IntSet":
		switch o.code {
		case "P": // Put answers "was it added"
			return boolTok(model == "-")
		case "R": // Remove answers the key, 0 when absent
			if model == "-" {
				return "0"
			}
			return t.keyTok(o.k)
		}
	case "StringSet":
		switch o.code {
		case "P", "U": // Put answers the stored key; the refused empty key answers ""
			if o.k.s == "" {
				return "~"
			}
			return t.keyTok(o.k)
		case "R":
			return boolTok(model != "-")
		}
	}
	return model
}

// ---------------------------------------------------------------- running a history

type stepRes struct {
	line string
	o    op
	out  string
	dmps []dump // dump of EVERY live instance after this step (nil: not dumped)
}

type histRes struct {
	t      *tdesc
	c      ctor   // constructor of instance 0
	cs     []ctor // constructors of all live instances
	ops    []op
	steps  []stepRes
	abort  string
	abortI int
	abortP string
	wire   []byte // ToBytes of the final state (IntIntMap)
	wireRT *dump  // dump of ToObject(wire) into a fresh map
	skip   map[string]bool
}

// execOp runs one operation of a multi-instance history.
func execOp(ms []*inst, o op) string {
	m := ms[o.t]
	switch o.code {
	case "PAF":
		m.putAllFrom(ms[o.src])
		return "u"
	case "TOF":
		m.toObjectBytes(ms[o.src].toBytes())
		return "u"
	case "PAW":
		m.putAllWrite(o.pairs)
		return "u"
	case "KAW":
		return m.keyArrayWrite()
	case "EO":
		m.openEnum()
		return m.exec(op{code: "SZ"})
	case "EN":
		m.stepEnum(o.n)
		return m.exec(op{code: "SZ"})
	case "ED":
		return m.drainEnum()
	}
	return m.exec(o)
}

func runImpl(t *tdesc, cs []ctor, ops []op, dumpEvery int, skip map[string]bool) *histRes {
	// A hang is one operation (with its dump) that makes no progress for `stall`.  The verdict must not depend on the
	// machine's load: a history that stalls for 8 s is run once more with a 60 s limit — a real deadlock stalls again
	// (and is reported), a starved goroutine does not.
	h := runImplStall(t, cs, ops, dumpEvery, skip, 8*time.Second)
	if _, known := confirmedHang.Load(t.name); h.abort == "timeout" && !known {
		h = runImplStall(t, cs, ops, dumpEvery, skip, 60*time.Second)
		if h.abort == "timeout" {
			confirmedHang.Store(t.name, true) // this type really hangs: further stalls of it need no second look
		}
	}
	return h
}

var confirmedHang sync.Map

func runImplStall(t *tdesc, cs []ctor, ops []op, dumpEvery int, skip map[string]bool, stall time.Duration) *histRes {
	h := &histRes{t: t, c: cs[0], cs: cs, ops: ops, skip: skip}
	var cur int64 = -1
	var mu sync.Mutex
	done := make(chan vh.Outcome, 1)
	go func() {
		done <- vh.Guard(func() {
			var ms []*inst
			for _, c := range cs {
				ms = append(ms, t.mk(c))
			}
			m := ms[0]
			sinceDump := 0
			// dumpEvery < 0: "late" dumps — a dump that is due is taken after the read-only operations that follow the
			// mutating one (just before the next mutating operation), so that a directly observed Size() / IsEmpty() /
			// lookup right after a Clear / Sort is compared first and gives the short, specific replay
			late := dumpEvery < 0
			if late {
				dumpEvery = -dumpEvery
			}
			due := false
			for i, o := range ops {
				atomic.StoreInt64(&cur, int64(i))
				if o.t >= len(ms) {
					o.t = 0
				}
				if o.src >= len(ms) {
					o.src = 0
				}
				if o.code == "SM" && o.rel { // size-1 / size / size+1 of the container as it is now
					sz, _ := strconv.Atoi(ms[o.t].exec(op{code: "SZ"}))
					o.n, o.rel = sz+o.n, false
				}
				out := execOp(ms, o)
				if o.code == "ESV" {
					o.hit = out != "absent"
				}
				st := stepRes{line: t.line(o), o: o, out: out}
				if mutating(o.code) {
					sinceDump++
					if sinceDump >= dumpEvery || i == len(ops)-1 {
						due = true
					}
				}
				if due && (!late || i == len(ops)-1 || mutating(ops[i+1].code)) {
					if late { // publish the step first: if the dump itself fails, the operations before it are in the replay
						mu.Lock()
						h.steps = append(h.steps, stepRes{line: t.line(o), o: o, out: out})
						mu.Unlock()
					}
					for _, mi := range ms {
						st.dmps = append(st.dmps, mi.dump(skip))
					}
					sinceDump, due = 0, false
					if late {
						mu.Lock()
						h.steps[len(h.steps)-1] = st
						mu.Unlock()
						continue
					}
				}
				mu.Lock()
				h.steps = append(h.steps, st)
				mu.Unlock()
			}
			if m.toBytes != nil {
				atomic.StoreInt64(&cur, int64(len(ops)))
				h.wire = m.toBytes()
				d := m.fromWire(h.wire).dump(skip)
				h.wireRT = &d
			}
		})
	}()
	// watchdog on progress: a hang is one operation (with its dump) that does not finish within
	// `stall`; a long history on a loaded machine is not a hang
	last, lastAt := int64(-2), time.Now()
	tick := time.NewTicker(200 * time.Millisecond)
	defer tick.Stop()
	for {
		select {
		case o := <-done:
			if !o.OK() {
				h.abort, h.abortI, h.abortP = "panic", int(atomic.LoadInt64(&cur)), o.Panic
			}
			return h
		case <-tick.C:
			if c := atomic.LoadInt64(&cur); c != last {
				last, lastAt = c, time.Now()
			} else if time.Since(lastAt) > stall {
				h.abort, h.abortI = "timeout", int(c)
				mu.Lock()
				h.steps = append([]stepRes(nil), h.steps...)
				mu.Unlock()
				return h
			}
		}
	}
}

type replayCase struct {
	Type   string   `json:"type"`
	Ctor   string   `json:"ctor"`
	New    string   `json:"new"`
	Ops    []string `json:"ops"`
	At     int      `json:"failing_op_index"`
	Want   string   `json:"spec"`
	Got    string   `json:"implementation"`
	Detail string   `json:"detail,omitempty"`
	Cap    int      `json:"cap"`
	Lf     float32  `json:"lf"`
	Def    bool     `json:"default_ctor"`
	Insts  []instJ  `json:"instances"`
}

type instJ struct {
	Cap int     `json:"cap"`
	Lf  float32 `json:"lf"`
	Def bool    `json:"default_ctor"`
	Arr bool    `json:"array_ctor,omitempty"`
}

func ctorsJ(cs []ctor) []instJ {
	var out []instJ
	for _, c := range cs {
		out = append(out, instJ{c.cap, c.lf, c.def, c.arr})
	}
	return out
}

func ctorsStr(cs []ctor) string {
	var xs []string
	for _, c := range cs {
		xs = append(xs, c.String())
	}
	return strings.Join(xs, " | ")
}

func mkReplay(h *histRes, upto int, want, got, detail string) replayCase {
	var lines []string
	for i := 0; i <= upto && i < len(h.steps); i++ {
		lines = append(lines, h.t.replayLine(h.steps[i].o))
	}
	return replayCase{Type: h.t.name, Ctor: ctorsStr(h.cs), New: h.t.newLine(h.c), Ops: lines, At: upto, Want: want, Got: got, Detail: detail,
		Cap: h.c.cap, Lf: h.c.lf, Def: h.c.def, Insts: ctorsJ(h.cs)}
}

func driverLines(h *histRes) []string {
	var ls []string
	for i, c := range h.cs {
		ls = append(ls, fmt.Sprintf("@%d %s", i, h.t.newLine(c)))
	}
	for _, s := range h.steps {
		ls = append(ls, s.line)
		for i := range s.dmps {
			ls = append(ls, fmt.Sprintf("@%d ES", i))
		}
	}
	if h.wire != nil && h.abort == "" {
		// the model's own serialization of the final state of instance 0, then: the implementation's bytes
		// read by the model into the scratch slot 3
		ls = append(ls, "@0 ES", "@0 TB", "@3 "+h.t.newLine(ctor{def: true}), "@3 TO "+vh.Hex(h.wire), "@3 ES")
	}
	return ls
}

type verdict struct {
	key, summary string
	rc           replayCase
}

func sortedPairs(t *tdesc, ps []pairS) []pairS {
	out := append([]pairS(nil), ps...)
	sort.SliceStable(out, func(i, j int) bool {
		if t.kkind == 's' {
			return tokStr(out[i].k) < tokStr(out[j].k) // bytewise, like the model's byte-list order
		}
		a, _ := strconv.ParseInt(out[i].k, 10, 64)
		b, _ := strconv.ParseInt(out[j].k, 10, 64)
		return a < b
	})
	return out
}

func joinPairs(ps []pairS) string {
	if len(ps) == 0 {
		return "[]"
	}
	var b strings.Builder
	for i, p := range ps {
		if i > 0 {
			b.WriteByte(',')
		}
		b.WriteString(p.k)
		b.WriteByte('=')
		b.WriteString(p.v)
	}
	return b.String()
}

func sortedToks(xs []string, numeric bool) string {
	out := append([]string(nil), xs...)
	sort.SliceStable(out, func(i, j int) bool {
		if numeric {
			a, e1 := strconv.ParseInt(out[i], 10, 64)
			b, e2 := strconv.ParseInt(out[j], 10, 64)
			if e1 == nil && e2 == nil {
				return a < b
			}
		}
		return out[i] < out[j]
	})
	if len(out) == 0 {
		return "[]"
	}
	return strings.Join(out, ",")
}

func compare(h *histRes, ans []string, postWire func(modelBytes string, modelEnts string) *verdict) []*verdict {
	var vs []*verdict
	seen := map[string]bool{}
	side := func(v *verdict) {
		if !seen[v.key] {
			seen[v.key] = true
			vs = append(vs, v)
		}
	}
	t := h.t
	for i := range h.cs {
		if ans[i] != "ok" {
			return []*verdict{{key: t.name + ".New:driver", summary: "driver refused the session: " + ans[i], rc: mkReplay(h, -1, "ok", ans[i], "")}}
		}
	}
	nones := make([]string, len(h.cs)+4) // current NONE per instance
	for i := range nones {
		nones[i] = "0"
	}
	j := len(h.cs)
	for i, s := range h.steps {
		model := ans[j]
		j++
		if strings.HasPrefix(model, "MISMATCH") || model == "bad-op" || model == "no-session" {
			return append(vs, &verdict{key: t.name + "." + t.method(s.o.code) + ":model", summary: "Lean Spec and CodeModel disagree (theorem C12.plain_refine would be violated): " + model,
				rc: mkReplay(h, i, model, s.out, "")})
		}
		want := t.expect(s.o, model, nones[s.o.t])
		if s.o.code == "SN" {
			nones[s.o.t] = strconv.FormatInt(s.o.v, 10)
		}
		if want != s.out {
			return append(vs, &verdict{key: t.name + "." + t.method(s.o.code) + ":result",
				summary: fmt.Sprintf("%s.%s returned %s, the map model returns %s (op %d: %s)", t.name, t.method(s.o.code), s.out, want, i, t.replayLine(s.o)),
				rc:      mkReplay(h, i, want, s.out, "")})
		}
		for di := range s.dmps {
			es := ans[j]
			j++
			d := &s.dmps[di]
			if d.has["Entries"] {
				got := joinPairs(sortedPairs(t, d.entries))
				if got != es {
					if di != s.o.t {
						return append(vs, &verdict{key: t.name + "." + t.method(s.o.code) + ":aliasing",
							summary: fmt.Sprintf("%s.%s on instance %d changed ANOTHER live instance (%d): it enumerates (sorted) %s, its model has %s (op %d: %s)", t.name, t.method(s.o.code), s.o.t, di, vh.Clip(got, 160), vh.Clip(es, 160), i, t.replayLine(s.o)),
							rc:      mkReplay(h, i, es, got, fmt.Sprintf("instance %d", di))})
					}
					return append(vs, &verdict{key: t.name + "." + t.method(s.o.code) + ":state",
						summary: fmt.Sprintf("after %s.%s the enumerated elements (sorted) are %s, the map model has %s (op %d: %s)", t.name, t.method(s.o.code), vh.Clip(got, 160), vh.Clip(es, 160), i, t.replayLine(s.o)),
						rc:      mkReplay(h, i, es, got, "")})
				}
				if d.size != len(d.entries) {
					side(&verdict{key: t.name + ".Size:count", summary: fmt.Sprintf("%s.Size() = %d with %d elements enumerated", t.name, d.size, len(d.entries)),
						rc: mkReplay(h, i, strconv.Itoa(len(d.entries)), strconv.Itoa(d.size), "")})
				}
			}
			var ks, vals []string
			for _, p := range d.entries {
				ks = append(ks, p.k)
				vals = append(vals, p.v)
			}
			chk := func(view string, got, want []string) {
				if d.has[view] && sortedToks(got, true) != sortedToks(want, true) {
					side(&verdict{key: t.name + "." + view + ":enumeration",
						summary: fmt.Sprintf("%s.%s() yields (sorted) %s but Entries() yields %s", t.name, view, vh.Clip(sortedToks(got, true), 160), vh.Clip(sortedToks(want, true), 160)),
						rc:      mkReplay(h, i, sortedToks(want, true), sortedToks(got, true), "")})
				}
			}
			if d.has["Entries"] {
				chk("Keys", d.keys, ks)
				chk("Values", d.values, vals)
				chk("KeyArray", d.keyArray, ks)
				chk("ValueArray", d.valueArray, vals)
			}
		}
	}
	if h.wire != nil && h.abort == "" && j+5 <= len(ans) {
		finalEs, modelBytes, _, _, rtEs := ans[j], ans[j+1], ans[j+2], ans[j+3], ans[j+4]
		n := len(h.steps) - 1
		// implementation's bytes, read by the Lean model
		if rtEs != finalEs {
			side(&verdict{key: t.name + ".ToBytes:wire", summary: fmt.Sprintf("%s.ToBytes of the final state decodes (Lean model of ToObject) to %s, the map holds %s", t.name, vh.Clip(rtEs, 160), vh.Clip(finalEs, 160)),
				rc: mkReplay(h, n, finalEs, rtEs, "wire="+vh.Hex(h.wire))})
		}
		// implementation's bytes, read back by the implementation
		if h.wireRT != nil {
			got := joinPairs(sortedPairs(t, h.wireRT.entries))
			if got != finalEs {
				side(&verdict{key: t.name + ".ToObject:roundtrip", summary: fmt.Sprintf("%s: ToObject(ToBytes(m)) holds %s, m holds %s", t.name, vh.Clip(got, 160), vh.Clip(finalEs, 160)),
					rc: mkReplay(h, n, finalEs, got, "wire="+vh.Hex(h.wire))})
			}
		}
		// the model's bytes, read by the implementation
		if v := postWire(modelBytes, finalEs); v != nil {
			v.rc = mkReplay(h, n, finalEs, v.rc.Got, "model wire="+modelBytes)
			side(v)
		}
	}
	return vs
}

// ---------------------------------------------------------------- generators

var strCollide []string

func initCollide() {
	target := uint(hash.HashStr("k0"))
	for i := 1; len(strCollide) < 7 && i < 5000000; i++ {
		s := "k" + strconv.Itoa(i)
		h := uint(hash.HashStr(s))
		if h%101 == target%101 && h%203 == target%203 {
			strCollide = append(strCollide, s)
		}
	}
	strCollide = append(strCollide, "k0")
	initFullCollide()
}

// fullCollide: per type, groups of DISTINCT keys whose *full* hash value (the value the type caches /
// re-buckets with) is identical — they share a bucket at every table size, so only the key comparison
// tells them apart.
var fullCollide = map[string][][]key{}

// crcPairs: pairs of distinct printable strings with the same hash.HashStr (CRC-32), found by a
// deterministic birthday search over "c0", "c1", …
func crcPairs(want int) [][]key {
	// names: 8 characters of [A-Za-z0-9] drawn from a fixed LCG (decimal counters do not work: CRC-32 is
	// affine and the few varying bits of same-length digit strings never cancel)
	const alpha = "ABCDEFGHIJKLMNOPQRSTUVWXYZabcdefghijklmnopqrstuvwxyz0123456789"
	seen := make(map[int32]string, 1<<19)
	var out [][]key
	x := uint64(0x9E3779B97F4A7C15)
	buf := make([]byte, 8)
	for i := 0; i < 4000000 && len(out) < want; i++ {
		for j := range buf {
			x = x*6364136223846793005 + 1442695040888963407
			buf[j] = alpha[(x>>33)%uint64(len(alpha))]
		}
		s := string(buf)
		h := hash.HashStr(s)
		if p, ok := seen[h]; ok && p != s {
			out = append(out, []key{{s: p}, {s: s}})
		} else {
			seen[h] = s
		}
	}
	return out
}

// intKeyMapHash mirrors IntKeyMap.hash (only used to *find* candidate collisions; whether they
// really collide does not matter for soundness, they are ordinary keys otherwise).
func intKeyMapHash(h int32) uint {
	ret := uint(h)
	ret ^= (uint(h) >> 20) ^ (uint(h) >> 12)
	ret = ret ^ (uint(h) >> 7) ^ (uint(h) >> 4)
	return ret & uint(math.MaxInt32)
}

func initFullCollide() {
	fullCollide["StringSet"] = crcPairs(5) // hash() = uint(hash.HashStr(key)), cached in StringSetry.hash
	// IntKeyMap: hash = bit mix & MaxInt32: deterministic birthday search (negative keys sign-extend)
	seen := make(map[uint]int32, 1<<19)
	x := uint32(12345)
	var gs [][]key
	for i := 0; i < 3000000 && len(gs) < 5; i++ {
		x = x*1664525 + 1013904223
		k := int32(x)
		h := intKeyMapHash(k)
		if p, ok := seen[h]; ok && p != k {
			gs = append(gs, []key{{i: int64(p)}, {i: int64(k)}})
		} else {
			seen[h] = k
		}
	}
	fullCollide["IntKeyMap"] = gs
	// IntIntMap / IntSet: hash = uint(key) is injective — no full collisions exist; keys that agree
	// modulo every early table size (multiples of 101*203*407) are already in the pools
}

func keyPool(t *tdesc, r *vh.Rng) []key {
	n := r.PickInt([]int{1, 2, 3, 4, 6, 9, 16, 40, 120})
	var cand []key
	if t.kkind == 's' {
		base := []string{"", "a", "b", "aa", "Aa", "BB", "AaAa", "BBBB", "z", "0", "key", "A_long_key_0123456789",
			"é", "日本語", "\xff\xfe", "a b", "k,=v", "\x00", "%25", "Aa\x80"}
		base = append(base, strCollide...)
		for _, s := range base {
			cand = append(cand, key{s: s})
		}
		for i := 0; i < 100; i++ {
			cand = append(cand, key{s: "r" + strconv.Itoa(r.Intn(100000))})
		}
	} else {
		xs := []int64{0, 1, -1, 2, 3, 101, 202, 303, 203, 406, 407, 814, 8344921, 2 * 8344921, 3 * 8344921, -101, -202, -8344921,
			math.MaxInt32, math.MinInt32, math.MaxInt32 - 101, math.MinInt32 + 101}
		for _, x := range xs {
			cand = append(cand, key{i: x})
		}
		for i := 0; i < 100; i++ {
			if r.Chance(50) {
				cand = append(cand, key{i: int64(r.Intn(60)) * 101})
			} else {
				cand = append(cand, key{i: int64(int32(r.U64()))})
			}
		}
	}
	for i := len(cand) - 1; i > 0; i-- {
		j := r.Intn(i + 1)
		cand[i], cand[j] = cand[j], cand[i]
	}
	if n > len(cand) {
		n = len(cand)
	}
	pool := append([]key(nil), cand[:n]...)
	if t.kkind == 's' && r.Chance(35) {
		pool[0] = key{s: ""}
	}
	// whole groups of keys with an identical full hash
	if gs := fullCollide[t.name]; len(gs) > 0 && r.Chance(50) {
		have := map[key]bool{}
		for _, k := range pool {
			have[k] = true
		}
		for g := 0; g < 1+r.Intn(2); g++ {
			for _, k := range gs[r.Intn(len(gs))] {
				if !have[k] {
					have[k] = true
					pool = append(pool, k)
				}
			}
		}
		if r.Chance(40) { // a pool of colliding keys only
			pool = pool[n:]
			if len(pool) == 0 {
				pool = append(pool, gs[0]...)
			}
		}
	}
	return pool
}

func genVal(t *tdesc, r *vh.Rng) int64 {
	if t.isSet {
		return 0
	}
	if t.name == "IntIntMap" {
		if r.Chance(20) {
			return r.Pick64([]int64{0, math.MaxInt32, math.MinInt32, -1, 1})
		}
		return r.Range(-50, 50)
	}
	if r.Chance(10) {
		return r.Pick64([]int64{0, math.MaxInt64, math.MinInt64})
	}
	if r.Chance(6) {
		return nilV // a stored nil interface value (IntKeyMap)
	}
	if r.Chance(30) { // a value of another dynamic type: half of them of a NON-comparable type (slice, map, func, struct holding one)
		if r.Chance(50) {
			return codedV(r.PickInt([]int{3, 4, 5, 6, 10, 3}), int64(r.Intn(4)))
		}
		return codedV(r.Intn(nKinds), int64(r.Intn(4)))
	}
	return r.Range(-50, 50)
}

// baseOnly: the single-object operations among the available ones
func baseOnly(avail []string) []string {
	var out []string
	for _, a := range avail {
		switch a {
		case "PAF", "TOF", "PAW", "KAW", "EOB", "EIB":
		default:
			out = append(out, a)
		}
	}
	return out
}

var weights = map[string]int{"ESV": 4, "TFS": 1, "TS": 3, "PAF": 6, "TOF": 5, "PAW": 3, "KAW": 2, "EOB": 3, "EIB": 3, "SN": 2, "P": 30, "U": 8, "A": 10, "AE": 6, "G": 8, "CK": 7, "HK": 3, "CV": 4, "R": 14, "C": 1, "SZ": 2, "IE": 1, "IF": 2, "SM": 2, "SO": 2, "PA": 3, "TO": 2}

// genOps generates a history over `nInst` live instances of the type (one key pool for all of them, so
// that the same keys live in several containers).  Cross-object operations: PAF (PutAll from another live
// instance, sometimes into a just-cleared target), TOF (ToObject of another instance's ToBytes), PAW
// (PutAll of a slice the caller overwrites afterwards), KAW (KeyArray/ValueArray overwritten by the caller),
// EOB (enumerators taken, other instances mutated, enumerators drained).
func genOps(t *tdesc, r *vh.Rng, avail []string, n int, nInst int) []op {
	pool := keyPool(t, r)
	total := 0
	for _, a := range avail {
		total += weights[a]
	}
	var vals []int64
	putK := make([][]key, nInst) // keys put so far, per instance
	ops := make([]op, 0, n)
	readOnly := []string{"G", "CK", "SZ"}
	for len(ops) < n {
		x := r.Intn(total)
		var code string
		for _, a := range avail {
			x -= weights[a]
			if x < 0 {
				code = a
				break
			}
		}
		o := op{code: code, k: pool[r.Intn(len(pool))], t: r.Intn(nInst)}
		switch code {
		case "PAF", "TOF":
			o.src = r.Intn(nInst)
			if r.Chance(30) { // an empty target
				ops = append(ops, op{code: "C", t: o.t})
			}
		case "PAW":
			for i, m := 0, r.Intn(6); i < m; i++ {
				o.pairs = append(o.pairs, pairKV{pool[r.Intn(len(pool))], 0})
			}
		case "EOB":
			a := o.t
			ops = append(ops, op{code: "EO", t: a})
			for i, m := 0, 1+r.Intn(4); i < m; i++ {
				if nInst > 1 {
					b := (a + 1 + r.Intn(nInst-1)) % nInst
					sub := genOps(t, r, baseOnly(avail), 1, 1)[0]
					sub.t = b
					sub.k = pool[r.Intn(len(pool))]
					ops = append(ops, sub)
				} else {
					c := readOnly[r.Intn(len(readOnly))]
					if t.isSet && c == "G" {
						c = "CK"
					}
					ops = append(ops, op{code: c, t: a, k: pool[r.Intn(len(pool))]})
				}
			}
			ops = append(ops, op{code: "ED", t: a})
			continue
		case "EIB":
			// an enumeration drained step by step, interleaved with READ-ONLY operations on the same container
			// (lookups of colliding keys, Size, ToString): reads are not modifications, so the enumeration must still
			// yield every element exactly once
			a := o.t
			ops = append(ops, op{code: "EO", t: a})
			for i, m := 0, 2+r.Intn(5); i < m; i++ {
				ops = append(ops, op{code: "EN", t: a, n: 1 + r.Intn(3)})
				for j, q := 0, 1+r.Intn(3); j < q; j++ {
					ops = append(ops, readOp(t, r, avail, a, pool, putK[a]))
				}
			}
			ops = append(ops, op{code: "ED", t: a})
			continue
		case "SN":
			o.v = int64(r.PickInt([]int{0, -1, 7, 5, 1, 100, -2147483648}))
			if len(vals) > 0 && r.Chance(30) {
				o.v = vals[r.Intn(len(vals))] // a NONE equal to a stored value
			}
			ops = append(ops, o)
			// … then every operation that can answer "absent", on absent (and present) keys
			for i, m := 0, 3+r.Intn(4); i < m; i++ {
				c := []string{"G", "R", "P", "A", "AE", "G", "R"}[r.Intn(7)]
				k := pool[r.Intn(len(pool))]
				if r.Chance(50) {
					k = key{i: int64(900000 + r.Intn(50))} // most probably absent
				}
				ops = append(ops, op{code: c, t: o.t, k: k, v: genVal(t, r)})
			}
			continue
		case "ESV":
			o.v = genVal(t, r)
			if o.v == nilV { // IntKeyEntry.SetValue(nil) is refused by the entry (entryObjects checks that directly)
				o.v = 0
			}
			if ks := putK[o.t]; len(ks) > 0 && r.Chance(75) {
				o.k = ks[r.Intn(len(ks))]
			}
			vals = append(vals, o.v)
		case "P", "A", "AE", "U":
			o.v = genVal(t, r)
			vals = append(vals, o.v)
			putK[o.t] = append(putK[o.t], o.k)
		case "CV":
			if len(vals) > 0 && r.Chance(70) {
				o.v = vals[r.Intn(len(vals))]
			} else {
				o.v = genVal(t, r)
			}
			if o.v == nilV {
				o.v = 0
			}
			if !comparableVal(o.v) { // ContainsValue compares with ==: two values of one non-comparable dynamic type cannot be compared in Go
				o.v = codedV(r.PickInt([]int{0, 1, 2, 7, 8, 9}), (o.v-kindBase)%kindSpan)
			}
		case "SM":
			// a configuration call at any point of a history: no bound (0, negative), tiny bounds, bounds around the
			// current size, and bounds above the table length of the default capacity
			switch x := r.Intn(16); {
			case x < 3:
				o.n, o.rel = x-1, true // size-1, size, size+1
			default:
				o.n = r.PickInt([]int{0, -1, -1000, 1, 2, 3, 7, 75, 76, 77, 200, 1000, 100000})
			}
			ops = append(ops, o, op{code: "IF", t: o.t})
			// … followed by lookups / removals / updates of keys inserted BEFORE the call
			if ks := putK[o.t]; len(ks) > 0 {
				for i, m := 0, 2+r.Intn(5); i < m; i++ {
					c := []string{"G", "CK", "R", "P", "A", "AE", "G"}[r.Intn(7)]
					ops = append(ops, op{code: c, t: o.t, k: ks[r.Intn(len(ks))], v: genVal(t, r)})
				}
				ops = append(ops, op{code: "SZ", t: o.t}, op{code: "IF", t: o.t})
			}
			continue
		case "SO":
			o.asc = r.Bool()
		case "PA", "TO":
			m := r.Intn(6)
			seen := map[string]bool{}
			for i := 0; i < m; i++ {
				k := pool[r.Intn(len(pool))]
				if code == "PA" && t.name == "IntKeyMap" && seen[t.keyTok(k)] {
					continue // PutAll(other *IntKeyMap): the other map has distinct keys
				}
				seen[t.keyTok(k)] = true
				o.pairs = append(o.pairs, pairKV{k, genVal(t, r)})
			}
		}
		ops = append(ops, o)
	}
	return ops
}

func genCtor(t *tdesc, r *vh.Rng, capOK map[int]bool) ctor {
	c := ctor{def: true}
	if t.isSet && r.Chance(30) {
		c.arr = true
	}
	if t.hasCtor && r.Chance(80) {
		caps := []int{0, 1, 2, 3, 101}
		for tries := 0; tries < 10; tries++ {
			c.cap = r.PickInt(caps)
			if ok, seen := capOK[c.cap]; !seen || ok {
				break
			}
			c.cap = 1
		}
		c.def = false
		c.lf = []float32{0.5, 0.75, 1, 4}[r.Intn(4)]
	}
	return c
}

// readOp: one read-only operation of the type on instance a (lookups prefer keys that were put)
func readOp(t *tdesc, r *vh.Rng, avail []string, a int, pool, put []key) op {
	var cands []string
	for _, c := range avail {
		switch c {
		case "G", "CK", "HK", "SZ", "TS", "TFS", "CV", "IE", "IF":
			cands = append(cands, c)
			if c == "G" || c == "CK" {
				cands = append(cands, c, c) // mostly lookups
			}
		}
	}
	c := cands[r.Intn(len(cands))]
	k := pool[r.Intn(len(pool))]
	if len(put) > 0 && r.Chance(70) {
		k = put[r.Intn(len(put))]
	}
	return op{code: c, t: a, k: k, v: 0}
}

// genEnumReads: chains of ≥ 2 entries (keys that collide in the tables of 101, 203 and 407 buckets, or the type's
// full-hash collision groups), then an enumeration drained ONE element at a time with a lookup of a colliding key —
// preferably one further down the chain — between any two steps, then the rest drained (bounded by Size()+slack).
func genEnumReads(t *tdesc, r *vh.Rng, avail []string) []op {
	var ops []op
	var groups [][]key
	if t.kkind == 's' {
		groups = append(groups, fullCollide[t.name]...)
	} else {
		for g, m := 0, 1+r.Intn(3); g < m; g++ {
			var ks []key
			base := int64(r.Intn(90))
			for j, q := 0, 2+r.Intn(5); j < q; j++ {
				ks = append(ks, key{i: base + int64(j)*8344921}) // 8344921 = 101 * 203 * 407
			}
			groups = append(groups, ks)
		}
	}
	var all []key
	for _, g := range groups {
		for _, k := range g {
			all = append(all, k)
			ops = append(ops, op{code: "P", k: k, v: genVal(t, r)})
		}
	}
	for i, m := 0, r.Intn(6); i < m; i++ { // a few singletons
		k := key{i: int64(1000 + i*3), s: "s" + strconv.Itoa(i)}
		all = append(all, k)
		ops = append(ops, op{code: "P", k: k, v: genVal(t, r)})
	}
	if len(all) == 0 {
		return ops
	}
	look := "CK"
	for _, a := range avail {
		if a == "G" {
			look = "G"
		}
	}
	for round := 0; round < 2; round++ {
		ops = append(ops, op{code: "EO"})
		for i := 0; i < len(all)+2; i++ {
			ops = append(ops, op{code: "EN", n: 1})
			g := groups[r.Intn(len(groups))]
			if len(g) > 0 {
				ops = append(ops, op{code: look, k: g[r.Intn(len(g))]}, op{code: "CK", k: g[len(g)-1-r.Intn((len(g)+1)/2)]})
			}
			if r.Chance(20) {
				ops = append(ops, readOp(t, r, avail, 0, all, all))
			}
		}
		ops = append(ops, op{code: "ED"}, op{code: "SZ"})
	}
	return ops
}

// smValues: the bounds every configuration history goes through (relative ones are resolved against Size())
var smValues = []op{{n: 0}, {n: -1}, {n: -1000}, {n: 1}, {n: -1, rel: true}, {n: 0, rel: true}, {n: 1, rel: true},
	{n: 75}, {n: 76}, {n: 77}, {n: 200}, {n: 1000}}

// genConfig (IntIntMap, the only plain type with a configuration setter): a populated map, ONE SetMax, then every
// key inserted before the call is looked up, some are removed / updated / added to, fresh keys are inserted.
func genConfig(t *tdesc, r *vh.Rng, pop int, sm op) []op {
	var ops []op
	var ks []key
	seen := map[int64]bool{}
	for i := 0; len(ks) < pop; i++ {
		k := key{i: int64(int32(int64(i)*int64(r.PickInt([]int{1, 101, -203, 8344921})) - int64(r.Intn(3))))}
		if seen[k.i] {
			continue
		}
		seen[k.i] = true
		ks = append(ks, k)
		ops = append(ops, op{code: "P", k: k, v: genVal(t, r)})
	}
	sm.code = "SM"
	ops = append(ops, sm, op{code: "SZ"}, op{code: "IF"})
	for _, k := range ks {
		ops = append(ops, op{code: []string{"G", "CK"}[r.Intn(2)], k: k})
	}
	for _, k := range ks {
		switch r.Intn(6) {
		case 0:
			ops = append(ops, op{code: "R", k: k})
		case 1:
			ops = append(ops, op{code: "P", k: k, v: genVal(t, r)})
		case 2:
			ops = append(ops, op{code: "A", k: k, v: genVal(t, r)})
		case 3:
			ops = append(ops, op{code: "AE", k: k, v: genVal(t, r)})
		}
	}
	ops = append(ops, op{code: "SZ"}, op{code: "IF"})
	for i, m := 0, 1+r.Intn(4); i < m; i++ {
		ops = append(ops, op{code: "P", k: key{i: int64(1<<20 + i)}, v: genVal(t, r)}, op{code: "IF"})
	}
	if r.Chance(30) {
		ops = append(ops, op{code: "SO", asc: r.Bool()})
	}
	ops = append(ops, op{code: "SZ"}, op{code: "TS"})
	return ops
}

// wide history: "inserted through path X, then the table grows, then looked up".  ~60% of `width` distinct keys are
// FIRST inserted through `path` — P, A (IntIntMap.Add of a fresh key), U (StringSet.Unipoint), the batch paths PA / TO /
// PAW (PutAll of pairs / ToObject of bytes / PutAll of a caller's slice, 1–12 keys per call) or the cross-object
// paths PAF / TOF (PutAll / ToObject from instance 1) — the rest through Put; the width crosses growth thresholds
// of the table.  During and after the growth the keys that came in through the path are looked up, put / added a
// second time (no duplicate may appear), removed.
func genWide(t *tdesc, r *vh.Rng, has map[string]bool, path string, width int) []op {
	var ops []op
	seen := map[string]bool{}
	mk := func(i int) key {
		for {
			var k key
			if t.kkind == 's' {
				k = key{s: "w" + strconv.Itoa((i*7919+r.Intn(3))%100003)}
			} else {
				k = key{i: int64(int32(int64(i)*int64(r.PickInt([]int{101, -203, 8344921, 1})) - int64(r.Intn(5))))}
			}
			if tok := t.keyTok(k); !seen[tok] {
				seen[tok] = true
				return k
			}
			i += 100003
		}
	}
	var viaPath, viaPut []key
	look := func(k key) {
		if has["G"] && r.Chance(50) {
			ops = append(ops, op{code: "G", k: k})
		} else {
			ops = append(ops, op{code: "CK", k: k})
		}
	}
	probeSome := func(m int) {
		for j := 0; j < m && len(viaPath) > 0; j++ {
			look(viaPath[r.Intn(len(viaPath))])
		}
		if len(viaPut) > 0 {
			look(viaPut[r.Intn(len(viaPut))])
		}
	}
	switch path {
	case "PAF", "TOF":
		m := width * 6 / 10
		if r.Chance(50) {
			m = width - r.Intn(4)
		}
		for i := 0; i < m; i++ {
			k := mk(i)
			viaPath = append(viaPath, k)
			ops = append(ops, op{code: "P", t: 1, k: k, v: genVal(t, r)})
		}
		if r.Chance(50) { // sometimes into a container that already holds entries
			for i := 0; i < 1+r.Intn(5); i++ {
				ops = append(ops, op{code: "P", t: 0, k: viaPath[r.Intn(len(viaPath))], v: genVal(t, r)})
			}
		}
		ops = append(ops, op{code: path, t: 0, src: 1})
		probeSome(6)
		for i := m; i < width; i++ {
			k := mk(i)
			viaPut = append(viaPut, k)
			ops = append(ops, op{code: "P", k: k, v: genVal(t, r)})
			if i%20 == 0 {
				probeSome(3)
			}
		}
	case "PA", "TO", "PAW":
		for i := 0; i < width; {
			if r.Chance(60) {
				o := op{code: path}
				for j, m := 0, 1+r.Intn(12); j < m && i < width; j++ {
					k := mk(i)
					i++
					viaPath = append(viaPath, k)
					o.pairs = append(o.pairs, pairKV{k, genVal(t, r)})
				}
				ops = append(ops, o)
			} else {
				k := mk(i)
				i++
				viaPut = append(viaPut, k)
				ops = append(ops, op{code: "P", k: k, v: genVal(t, r)})
			}
			if r.Chance(12) {
				probeSome(3)
			}
		}
	default:
		for i := 0; i < width; i++ {
			k := mk(i)
			if r.Chance(60) {
				viaPath = append(viaPath, k)
				ops = append(ops, op{code: path, k: k, v: genVal(t, r)})
			} else {
				viaPut = append(viaPut, k)
				ops = append(ops, op{code: "P", k: k, v: genVal(t, r)})
			}
			if i%20 == 19 {
				probeSome(3)
			}
		}
	}
	ops = append(ops, op{code: "SZ"})
	for _, k := range viaPath {
		look(k)
	}
	for _, k := range viaPath {
		switch x := r.Intn(10); {
		case x < 2 && has["A"]:
			ops = append(ops, op{code: "A", k: k, v: genVal(t, r)})
		case x == 2 && has["AE"]:
			ops = append(ops, op{code: "AE", k: k, v: genVal(t, r)})
		case x == 2 && has["U"]:
			ops = append(ops, op{code: "U", k: k})
		case x < 4:
			ops = append(ops, op{code: "P", k: k, v: genVal(t, r)})
		case x < 6:
			ops = append(ops, op{code: "R", k: k})
			if r.Chance(30) {
				look(k)
			}
		}
	}
	ops = append(ops, op{code: "SZ"})
	for _, k := range viaPut {
		if r.Chance(30) {
			look(k)
		}
	}
	if has["TS"] && r.Chance(30) {
		ops = append(ops, op{code: "TS"})
	}
	return ops
}

// genValueKinds (IntKeyMap): a value is opaque to the map.  Keys holding a value of kind `a` (-1 = boxed integer,
// -2 = nil) are overwritten with a value of EVERY kind — the same non-comparable dynamic type included — through Put,
// through the live entry's SetValue and through PutAll; every overwrite must return the previous value and store the new one.
func genValueKinds(t *tdesc, r *vh.Rng, a int, has map[string]bool) []op {
	mkv := func(kind int, p int64) int64 {
		switch kind {
		case -1:
			return p
		case -2:
			return nilV
		}
		return codedV(kind, p)
	}
	var ops []op
	base := int64(r.Intn(50)) * 101
	kinds := []int{-2, -1}
	for k := 0; k < nKinds; k++ {
		kinds = append(kinds, k)
	}
	key := func(i int) key { return key{i: base + int64(i)*int64(r.PickInt([]int{1, 101, 8344921}))} }
	for i := range kinds {
		ops = append(ops, op{code: "P", k: key(i), v: mkv(a, 1)})
	}
	via := []string{"P"}
	if has["ESV"] {
		via = append(via, "ESV")
	}
	for i, b := range kinds {
		c := via[r.Intn(len(via))]
		v := mkv(b, 2)
		if c == "ESV" && v == nilV {
			c = "P"
		}
		ops = append(ops, op{code: c, k: key(i), v: v}, op{code: "G", k: key(i)})
	}
	if has["PA"] { // … and back to kind a through PutAll (every key is overwritten once more)
		o := op{code: "PA"}
		for i := range kinds {
			o.pairs = append(o.pairs, pairKV{key(i), mkv(a, 3)})
		}
		ops = append(ops, o)
	}
	if has["CV"] && comparableVal(mkv(a, 3)) && a != -2 {
		ops = append(ops, op{code: "CV", v: mkv(a, 3)}, op{code: "CV", v: mkv(a, 1)})
	}
	for i := range kinds {
		if i%2 == 0 {
			ops = append(ops, op{code: "R", k: key(i)})
		} else {
			ops = append(ops, op{code: "P", k: key(i), v: mkv(a, 3)}) // the value it already holds (same payload, same kind)
		}
	}
	ops = append(ops, op{code: "SZ"})
	if has["TS"] {
		ops = append(ops, op{code: "TS"})
	}
	if has["TFS"] {
		ops = append(ops, op{code: "TFS"})
	}
	return ops
}

// genGrowReset: "populated until the table has grown g times, then RESET (Clear, or Sort — which clears and re-puts),
// then observed and populated again".  Whatever the table went through, after Clear the container is the empty
// map / set: Size 0, IsEmpty, no member, an empty enumeration, KeyArray of length 0; what is put afterwards counts
// from zero and the table grows again.  `width` distinct keys before the reset, `width2` after it.
func genGrowReset(t *tdesc, r *vh.Rng, has map[string]bool, width, width2 int) []op {
	var ops []op
	seen := map[string]bool{}
	mk := func(i int) key {
		for {
			var k key
			if t.kkind == 's' {
				k = key{s: "q" + strconv.Itoa((i*7919+r.Intn(3))%100003)}
			} else {
				k = key{i: int64(int32(int64(i)*int64(r.PickInt([]int{7, 101, -203, 8344921, 1})) - 300))}
			}
			if tok := t.keyTok(k); !seen[tok] {
				seen[tok] = true
				return k
			}
			i += 100003
		}
	}
	observe := func(ks []key) {
		ops = append(ops, op{code: "SZ"})
		for _, c := range []string{"IE", "IF"} {
			if has[c] {
				ops = append(ops, op{code: c})
			}
		}
		for j := 0; j < 3 && len(ks) > 0; j++ {
			c := "CK"
			if has["G"] && r.Bool() {
				c = "G"
			}
			ops = append(ops, op{code: c, k: ks[r.Intn(len(ks))]})
		}
		for _, c := range []string{"TS", "TFS"} {
			if has[c] && r.Chance(60) {
				ops = append(ops, op{code: c})
			}
		}
	}
	populate := func(n int) []key {
		var ks []key
		for i := 0; i < n; i++ {
			k := mk(len(seen))
			ks = append(ks, k)
			c := "P"
			if has["A"] && r.Chance(25) {
				c = "A"
			}
			ops = append(ops, op{code: c, k: k, v: genVal(t, r)})
		}
		return ks
	}
	reset := func() {
		if has["SO"] && r.Chance(35) {
			ops = append(ops, op{code: "SO", asc: r.Bool()})
			return
		}
		ops = append(ops, op{code: "C"})
	}
	ks := populate(width)
	ops = append(ops, op{code: "SZ"})
	if has["SO"] && r.Chance(50) { // Sort of the grown map: same map (it clears and re-puts internally)
		ops = append(ops, op{code: "SO", asc: r.Bool()})
		observe(ks)
	}
	ops = append(ops, op{code: "C"})
	observe(ks)
	if has["KAW"] {
		ops = append(ops, op{code: "KAW"})
	}
	if has["EOB"] {
		ops = append(ops, op{code: "EO"}, op{code: "ED"})
	}
	if r.Chance(50) { // a second Clear, now of an empty container with a large table
		ops = append(ops, op{code: "C"}, op{code: "SZ"})
	}
	ops = append(ops, op{code: "P", k: mk(len(seen)), v: genVal(t, r)})
	if has["A"] {
		ops = append(ops, op{code: "A", k: mk(len(seen)), v: genVal(t, r)})
	}
	ops = append(ops, op{code: "SZ"})
	if has["KAW"] {
		ops = append(ops, op{code: "KAW"})
	}
	ks2 := populate(width2)
	observe(ks2)
	for _, k := range ks[:min(len(ks), 4)] { // keys of the first population are gone
		ops = append(ops, op{code: "CK", k: k})
	}
	for i := 0; i < min(len(ks2), 6); i++ {
		ops = append(ops, op{code: "R", k: ks2[r.Intn(len(ks2))]})
	}
	ops = append(ops, op{code: "SZ"})
	reset()
	observe(ks2)
	return ops
}

func genGrowth(t *tdesc, r *vh.Rng, n int) []op {
	var ops []op
	mk := func(i int) key {
		if t.kkind == 's' {
			return key{s: "g" + strconv.Itoa(i*7919%100003)}
		}
		var x int64
		switch r.Intn(3) {
		case 0:
			x = int64(i) * 101
		case 1:
			x = -int64(i) * 203
		default:
			x = int64(i)*8344921 - 5
		}
		return key{i: int64(int32(x))}
	}
	var gk []key
	for _, g := range fullCollide[t.name] {
		gk = append(gk, g...)
	}
	for _, k := range gk {
		if r.Chance(70) {
			ops = append(ops, op{code: "P", k: k, v: genVal(t, r)})
		}
	}
	for i := 0; i < n; i++ {
		if len(gk) > 0 && r.Chance(3) {
			k := gk[r.Intn(len(gk))]
			switch r.Intn(3) {
			case 0:
				ops = append(ops, op{code: "P", k: k, v: genVal(t, r)})
			case 1:
				ops = append(ops, op{code: "R", k: k})
			default:
				ops = append(ops, op{code: "CK", k: k})
			}
		}
		ops = append(ops, op{code: "P", k: mk(i), v: genVal(t, r)})
		if r.Chance(6) {
			ops = append(ops, op{code: "R", k: mk(r.Intn(i + 1))})
		}
		if r.Chance(4) {
			ops = append(ops, op{code: "CK", k: mk(r.Intn(i + 1))})
		}
	}
	for _, k := range gk { // after all the growth: every colliding key is looked up, some removed
		ops = append(ops, op{code: "CK", k: k})
		if r.Chance(50) {
			ops = append(ops, op{code: "R", k: k})
		}
	}
	return ops
}

// ---------------------------------------------------------------- probes

type probeOut struct {
	excluded map[string]bool
	skipView map[string]bool
	capOK    map[int]bool
}

func probe(t *tdesc, rep *vh.Report) probeOut {
	po := probeOut{excluded: map[string]bool{}, skipView: map[string]bool{}, capOK: map[int]bool{}}
	k := func(i int) key {
		if t.kkind == 's' {
			return key{s: "p" + strconv.Itoa(i)}
		}
		return key{i: int64(i)}
	}
	setup := []op{{code: "P", k: k(3), v: 30}, {code: "P", k: k(1), v: 10}, {code: "P", k: k(2), v: 20}}
	lines := func(os []op) []string {
		var ls []string
		for _, o := range os {
			ls = append(ls, t.replayLine(o))
		}
		return ls
	}
	c := ctor{def: true}
	for _, view := range t.views {
		skip := map[string]bool{}
		for _, v := range t.views {
			if v != view {
				skip[v] = true
			}
		}
		out := guardProbe(func() {
			m := t.mk(c)
			for _, s := range setup {
				m.exec(s)
			}
			m.dump(skip)
		})
		if !out.OK() {
			po.skipView[view] = true
			kind := map[bool]string{true: "deadlock", false: "panic"}[out.Timeout]
			rep.Fail("property", t.name+"."+view+":"+kind, fmt.Sprintf("%s.%s() on a 3-element map: %s %s", t.name, view, out.String(), vh.Clip(out.Panic, 120)),
				replayCase{Type: t.name, Ctor: c.String(), New: t.newLine(c), Ops: append(lines(setup), view+"()"), At: 3, Want: "3 elements", Got: out.String(), Detail: out.Panic, Def: true})
		}
	}
	for _, code := range t.ops {
		o := op{code: code, k: k(1), v: 10, n: 2, asc: true, pairs: []pairKV{{k(7), 70}}}
		out := guardProbe(func() {
			m := t.mk(c)
			for _, s := range setup {
				m.exec(s)
			}
			m.exec(o)
		})
		if !out.OK() {
			po.excluded[code] = true
			kind := map[bool]string{true: "deadlock", false: "panic"}[out.Timeout]
			rep.Fail("property", t.name+"."+t.method(code)+":"+kind,
				fmt.Sprintf("%s.%s on a 3-element map: %s %s", t.name, t.method(code), out.String(), vh.Clip(out.Panic, 120)),
				replayCase{Type: t.name, Ctor: c.String(), New: t.newLine(c), Ops: append(lines(setup), t.replayLine(o)), At: 3, Want: "a result", Got: out.String(), Detail: out.Panic, Def: true})
		}
	}
	if t.hasCtor {
		for _, cp := range []int{0, 1, 2, 3, 101} {
			cc := ctor{cap: cp, lf: 0.75}
			out := guardProbe(func() {
				m := t.mk(cc)
				for _, s := range setup {
					m.exec(s)
				}
				m.exec(op{code: "G", k: k(1)})
			})
			po.capOK[cp] = out.OK()
			if !out.OK() {
				rep.Fail("property", fmt.Sprintf("%s.New:capacity%d", t.name, cp),
					fmt.Sprintf("New%s(%d, 0.75) then Put: %s %s", t.name, cp, out.String(), vh.Clip(out.Panic, 120)),
					replayCase{Type: t.name, Ctor: cc.String(), New: t.newLine(cc), Ops: lines(setup), At: 0, Want: "-", Got: out.String(), Detail: out.Panic, Cap: cp, Lf: 0.75})
			}
		}
	}
	return po
}

// ---------------------------------------------------------------- known findings, replayed on every run

func knownReplays(rep *vh.Report) {
	byName := map[string]*tdesc{}
	for _, t := range types {
		byName[t.name] = t
	}
	{ // D17
		still := false
		vh.Guard(func() {
			m := hmap.NewIntIntMapDefault()
			a := m.Add(5, 7)
			b := m.Add(5, 1)
			still = a == 7 && b == 7 && m.Get(5) == 8
		})
		rep.KnownReplay("IntIntMap.Add:fresh-key-result", still, "IntIntMap.Add(5,7) on an empty map returns 7 (the new value) while Add on an existing key returns the previous value (Add(5,1) → 7, Get = 8); Put and the linked siblings return NONE for a fresh key")
		byName["IntIntMap"].repaired = !still
	}
	{ // D15
		still := false
		vh.Guard(func() {
			s := hmap.NewStringSet()
			r := s.Put("")
			still = r == "" && s.Size() == 0 && !s.Contains("")
		})
		rep.KnownReplay("StringSet.Put:empty-key", still, "StringSet.Put(\"\") is ignored (Size stays 0, Contains(\"\") = false) although the quantifier names empty-string keys")
		byName["StringSet"].repaired = !still
	}
}

// ---------------------------------------------------------------- entry objects and enumerator constructors, evaluated directly
//
// The cells and enumerators are exported types with exported constructors / accessors.  What the property says about
// them: an entry shows the key and the value it was made with, SetValue stores the new value and answers the previous
// one, two entries are Equal exactly when their keys are (as the code has it: the value is not compared), and an
// enumerator over ANY table — here one built by the caller out of NewIntKeyEntry chains — yields every cell exactly
// once, buckets from the last to the first, each chain head first, driven in each of the three ways.
func entryObjects(rep *vh.Report, r *vh.Rng) {
	fail := func(key, what string, replay interface{}) {
		rep.Fail("property", key, what, replay)
	}
	type rc struct {
		What string   `json:"what"`
		Ops  []string `json:"ops"`
	}
	n := 0
	o := vh.Guard(func() {
		for i := 0; i < 400; i++ {
			k, k2 := int32(r.U64()), int32(r.U64())
			if i%4 == 0 {
				k2 = k
			}
			v1, v2 := genVal(types[1], r), genVal(types[1], r)
			if v2 == nilV {
				v2 = 5
			}
			tail := hmap.NewIntKeyEntry(k2, boxV(v2), nil)
			e := hmap.NewIntKeyEntry(k, boxV(v1), tail)
			ops := []string{fmt.Sprintf("e := NewIntKeyEntry(%d, %s, NewIntKeyEntry(%d, %s, nil))", k, valTok(v1), k2, valTok(v2))}
			if e.GetKey() != k || objVal(e.GetValue()) != objVal(boxV(v1)) || e.Next != tail || e.Key != k {
				fail("IntKeyEntry.New:fields", fmt.Sprintf("NewIntKeyEntry(%d, %s, next): GetKey() = %d, GetValue() = %s", k, valTok(v1), e.GetKey(), objVal(e.GetValue())), rc{"constructor / accessors", ops})
			}
			if e.Equals(tail) != (k == k2) || e.HashCode() != k {
				fail("IntKeyEntry.Equals:result", fmt.Sprintf("entries with keys %d and %d: Equals = %v, HashCode = %d", k, k2, e.Equals(tail), e.HashCode()), rc{"Equals is equality of keys; HashCode is the key", ops})
			}
			if want := fmt.Sprintf("%d=%v", k, boxV(v1)); e.ToString() != want && valKind(v1) != 5 {
				fail("IntKeyEntry.ToString:result", fmt.Sprintf("ToString() = %q, want %q", e.ToString(), want), rc{"ToString is key=value", ops})
			}
			old := e.SetValue(boxV(v2))
			ops = append(ops, fmt.Sprintf("e.SetValue(%s)", valTok(v2)))
			if objVal(old) != objVal(boxV(v1)) || objVal(e.GetValue()) != objVal(boxV(v2)) || e.GetKey() != k || e.Next != tail {
				fail("IntKeyEntry.SetValue:result", fmt.Sprintf("SetValue(%s) on an entry holding %s returned %s and the entry now holds %s", valTok(v2), valTok(v1), objVal(old), objVal(e.GetValue())), rc{"SetValue stores the value and answers the previous one", ops})
			}
			// as the code has it: a nil value is refused (the entry keeps its value, the call answers nil and does not panic)
			if got := e.SetValue(nil); got != nil || objVal(e.GetValue()) != objVal(boxV(v2)) {
				fail("IntKeyEntry.SetValue:nil", fmt.Sprintf("SetValue(nil) returned %s and the entry now holds %s", objVal(got), objVal(e.GetValue())), rc{"SetValue(nil) is refused", append(ops, "e.SetValue(nil)")})
			}
			n++

			s1, s2 := hmap.NewIntSetry(k, nil), hmap.NewIntSetry(k2, hmap.NewIntSetry(k, nil))
			if s1.GetKey() != k || s1.Get() != k || s1.HashCode() != k || s1.ToString() != strconv.Itoa(int(k)) || s1.Equals(s2) != (k == k2) ||
				s2.Clone() == s2 || s2.Clone().GetKey() != k2 || !s2.Clone().Equals(s2) {
				fail("IntSetry:accessors", fmt.Sprintf("NewIntSetry(%d): GetKey %d Get %d HashCode %d ToString %s Equals(%d) %v", k, s1.GetKey(), s1.Get(), s1.HashCode(), s1.ToString(), k2, s1.Equals(s2)),
					rc{"an IntSetry shows its key; Equals is equality of keys; Clone is a distinct equal cell", []string{fmt.Sprintf("NewIntSetry(%d, nil)", k)}})
			}
			ka, kb := "e"+strconv.Itoa(int(k)), "e"+strconv.Itoa(int(k2))
			if i%7 == 0 {
				ka = ""
			}
			t1, t2 := hmap.NewStringSetry(uint(hash.HashStr(ka)), ka, nil), hmap.NewStringSetry(uint(hash.HashStr(kb)), kb, hmap.NewStringSetry(7, ka, nil))
			if t1.GetKey() != ka || t1.Get() != ka || t1.ToString() != ka || t1.Equals(t2) != (ka == kb) || t2.Clone() == t2 || t2.Clone().GetKey() != kb ||
				t1.HashCode() != hmap.NewStringSetry(0, ka, nil).HashCode() {
				fail("StringSetry:accessors", fmt.Sprintf("NewStringSetry(%q): GetKey %q Get %q ToString %q Equals(%q) %v", ka, t1.GetKey(), t1.Get(), t1.ToString(), kb, t1.Equals(t2)),
					rc{"a StringSetry shows its key; Equals is equality of keys; HashCode depends on the key only", []string{fmt.Sprintf("NewStringSetry(h, %q, nil)", ka)}})
			}
			n++
		}
		// IntIntEntry (no exported constructor): the live cells of a map
		for i := 0; i < 60; i++ {
			m := hmap.NewIntIntMapDefault()
			want := map[int32]int32{}
			var ops []string
			for j, q := 0, 1+r.Intn(30); j < q; j++ {
				k, v := int32(r.Intn(40)*101), int32(r.Range(-50, 50))
				m.Put(k, v)
				want[k] = v
				ops = append(ops, fmt.Sprintf("Put(%d, %d)", k, v))
			}
			var cells []*hmap.IntIntEntry
			for en := m.Entries(); en.HasMoreElements() && len(cells) < len(want)+enumSlack; {
				cells = append(cells, en.NextElement().(*hmap.IntIntEntry))
			}
			for _, c := range cells {
				k, v := c.GetKey(), c.GetValue()
				if w, ok := want[k]; !ok || w != v || c.ToString() != fmt.Sprintf("%d=%d", k, v) || c.HashCode() != uint(k)^uint(v) {
					fail("IntIntEntry:accessors", fmt.Sprintf("entry %s of a map holding %d=%d (HashCode %d)", c.ToString(), k, w, c.HashCode()), rc{"an entry shows the key and value stored in the map", ops})
				}
				for _, c2 := range cells {
					if c.Equals(c2) != (c == c2) { // keys are distinct within a map, so two different cells are never equal
						fail("IntIntEntry.Equals:result", fmt.Sprintf("entries %s and %s: Equals = %v", c.ToString(), c2.ToString(), c.Equals(c2)), rc{"Equals is equality of key and value", ops})
					}
				}
			}
			if len(cells) != len(want) {
				fail("IntIntEntry:count", fmt.Sprintf("%d entries enumerated, %d keys put", len(cells), len(want)), rc{"every stored element exactly once", ops})
			}
			n++
		}
		// enumerators over a table the caller built: every cell exactly once, last bucket first, chain head first
		for i := 0; i < 120; i++ {
			nb := r.PickInt([]int{0, 1, 2, 3, 7, 16})
			table := make([]*hmap.IntKeyEntry, nb)
			var ops []string
			for b := 0; b < nb; b++ {
				for j, q := 0, r.PickInt([]int{0, 0, 1, 2, 5}); j < q; j++ {
					k := int32(b*1000 + j)
					table[b] = hmap.NewIntKeyEntry(k, V(int64(k)*3), table[b])
					ops = append(ops, fmt.Sprintf("table[%d] = NewIntKeyEntry(%d, %d, table[%d])", b, k, int64(k)*3, b))
				}
			}
			var want []string
			for b := nb - 1; b >= 0; b-- {
				for e := table[b]; e != nil; e = e.Next {
					want = append(want, fmt.Sprintf("%d=%s", e.Key, objVal(e.Value)))
				}
			}
			for mode := 0; mode < 3; mode++ {
				for _, ty := range []int{hmap.ELEMENT_TYPE_KEYS, hmap.ELEMENT_TYPE_VALUES, hmap.ELEMENT_TYPE_ENTRIES} {
					en := hmap.NewIntKeyEnumer(ty, table)
					var got []string
					md := mode
					drive(&md, len(want), en.HasMoreElements, func() {
						switch x := en.NextElement().(type) {
						case int32:
							got = append(got, fmt.Sprintf("%d=%d", x, int64(x)*3))
						case V:
							got = append(got, fmt.Sprintf("%d=%d", int64(x)/3, int64(x)))
						case *hmap.IntKeyEntry:
							got = append(got, fmt.Sprintf("%d=%s", x.Key, objVal(x.Value)))
						}
					})
					if strings.Join(got, ",") != strings.Join(want, ",") {
						fail("IntKeyEnumer:hand-built-table", fmt.Sprintf("NewIntKeyEnumer(%d, table of %d buckets) driven in mode %d yields %s, the table holds %s", ty, nb, mode, vh.Clip(strings.Join(got, ","), 160), vh.Clip(strings.Join(want, ","), 160)),
							rc{"an enumerator yields every cell exactly once, last bucket first, chain head first", ops})
					}
				}
			}
			n++
		}
		// the constructors that take no table: an enumerator over nothing
		if en := hmap.NewIntIntMapEnumer(hmap.ELEMENT_TYPE_KEYS); en.HasMoreElements() {
			fail("IntIntMapEnumer.New:hasMore", "NewIntIntMapEnumer(KEYS).HasMoreElements() = true on an enumerator without a table", rc{"an enumerator over nothing has no element", []string{"NewIntIntMapEnumer(1).HasMoreElements()"}})
		}
		hmap.NewIntSetEnumer(nil, 0)
		hmap.NewStringSetEnumer(nil, 0)
		if (hmap.IntIntMapSortable{}).Len() != 0 {
			fail("IntIntMapSortable.Len:result", "Len() of the zero IntIntMapSortable is not 0", rc{"Len is the number of entries", []string{"IntIntMapSortable{}.Len()"}})
		}
	})
	if !o.OK() {
		fail("EntryObjects:panic", "an entry / enumerator constructor or accessor panicked: "+vh.Clip(o.Panic, 160), rc{"totality of the accessors", nil})
	}
	rep.CountN("entry-object-checks", n)
}

// ---------------------------------------------------------------- main

func main() {
	env, rep := vh.Parse("C12")
	rng := vh.NewRng(env.Seed*0x2545F4914F6CDD1D + 0x1B873593) // decorrelate consecutive seeds (vh seeds are one splitmix step apart)
	initCollide()
	rep.Rule = "one case = one history (constructor + ≤200 public operations, or a >2500-insert growth history) on IntIntMap, IntKeyMap, IntSet or StringSet; " +
		"non-trivial = at least one operation changes the state; distinct = different canonical text (type, constructor, operation lines)"

	for _, t := range types {
		if gs := fullCollide[t.name]; len(gs) > 0 {
			var names []string
			for _, g := range gs {
				var ks []string
				for _, k := range g {
					ks = append(ks, t.keyTok(k))
				}
				names = append(names, strings.Join(ks, "~"))
			}
			rep.Note("full-hash collision groups of %s: %s", t.name, strings.Join(names, " | "))
		}
	}
	if env.Replay != "" {
		replayFile(env, rep)
		rep.Write(env.Out)
		return
	}

	entryObjects(rep, rng.Fork())
	knownReplays(rep) // first: a finding that no longer reproduces switches its type to the repaired descriptor

	perType := 500
	growthPer := 3
	growthN := 2700
	if env.Thorough {
		perType = 5000
		growthPer = 10
		growthN = 8000
	}

	var hists []*histRes
	for _, t := range types {
		po := probe(t, rep)
		if po.skipView["Entries"] || (t.isSet && len(po.skipView) > 0) {
			continue
		}
		var avail []string
		for _, c := range t.ops {
			if !po.excluded[c] {
				avail = append(avail, c)
			}
		}
		type job struct {
			cs  []ctor
			ops []op
			de  int
		}
		if !po.skipView["KeyArray"] || !contains(t.xops, "KAW") {
			avail = append(avail, t.xops...)
		} else {
			for _, x := range t.xops {
				if x != "KAW" {
					avail = append(avail, x)
				}
			}
		}
		genCtors := func(r *vh.Rng) []ctor {
			n := r.PickInt([]int{1, 2, 2, 2, 3, 3})
			cs := []ctor{genCtor(t, r, po.capOK)}
			for len(cs) < n {
				if r.Chance(50) {
					cs = append(cs, cs[0]) // same capacity / load factor: same table length
				} else {
					cs = append(cs, genCtor(t, r, po.capOK))
				}
			}
			return cs
		}
		var jobs []job
		for i := 0; i < perType; i++ {
			r := rng.Fork()
			n := 10 + r.Intn(191)
			if env.Thorough && r.Chance(2) {
				n = 1000 + r.Intn(4000)
			}
			de := 1
			if n > 400 {
				de = 25
			}
			cs := genCtors(r)
			jobs = append(jobs, job{cs, genOps(t, r, avail, n, len(cs)), de})
		}
		{ // wide histories: every insertion path × growth thresholds of the default table, and small random capacities
			has := map[string]bool{}
			for _, a := range avail {
				has[a] = true
			}
			for _, p := range []string{"P", "A", "U", "PA", "TO", "PAW", "PAF", "TOF"} {
				if !has[p] {
					continue
				}
				for wi, w := range [][2]int{{78, 100}, {155, 180}, {308, 330}, {20, 330}} {
					r := rng.Fork()
					c := ctor{def: true}
					if wi == 3 || (env.Thorough && r.Chance(40)) {
						c = genCtor(t, r, po.capOK)
					}
					cs := []ctor{c}
					if p == "PAF" || p == "TOF" {
						cs = append(cs, genCtor(t, r, po.capOK))
					}
					reps := 1
					if env.Thorough {
						reps = 4
					}
					for q := 0; q < reps; q++ {
						jobs = append(jobs, job{cs, genWide(t, r, has, p, int(r.Range(int64(w[0]), int64(w[1])))), 16})
						rep.Count("wide-history:" + p)
					}
				}
			}
		}
		for i, m := 0, 12; i < m; i++ { // enumerations drained step by step with lookups of colliding keys in between
			r := rng.Fork()
			c := ctor{def: true}
			if i%4 == 3 {
				c = genCtor(t, r, po.capOK)
			}
			jobs = append(jobs, job{[]ctor{c}, genEnumReads(t, r, avail), 8})
			rep.Count("enum-with-reads-history")
		}
		if t.name == "IntIntMap" { // configuration calls on populated maps (every bound of smValues, small and large populations)
			for _, sm := range smValues {
				for _, ps := range [][]int{{1, 2, 5}, {40, 60, 74}, {76, 90, 120}} {
					r := rng.Fork()
					c := genCtor(t, r, po.capOK)
					if r.Chance(50) {
						c = ctor{def: true}
					}
					jobs = append(jobs, job{[]ctor{c}, genConfig(t, r, r.PickInt(ps), sm), 8})
					rep.Count("config-history")
				}
			}
		}
		{ // reset (Clear / Sort) after 0..5 growth steps of the table, small and large tables, then observed and re-populated
			has := map[string]bool{}
			for _, a := range avail {
				has[a] = true
			}
			type gr struct {
				c      ctor
				w1, w2 int
			}
			grs := []gr{{ctor{def: true}, 40, 90}, {ctor{def: true}, 100, 20}, {ctor{def: true}, 170, 30}, {ctor{def: true}, 200, 320},
				{ctor{def: true}, 330, 10}, {ctor{def: true}, 640, 100}}
			if t.hasCtor { // small tables grow 2..6 times within a short history; large explicit capacities start beyond every default-table size
				for _, cp := range []int{1, 1, 2, 3} {
					if ok, seen := po.capOK[cp]; !seen || ok {
						grs = append(grs, gr{ctor{cap: cp, lf: []float32{0.5, 0.75, 1}[rng.Intn(3)]}, 3 + rng.Intn(40), 2 + rng.Intn(40)})
					}
				}
				for _, cp := range []int{405, 1000, 4001} {
					grs = append(grs, gr{ctor{cap: cp, lf: 0.75}, 5 + rng.Intn(60), 5 + rng.Intn(30)})
				}
			}
			reps := 1
			if env.Thorough {
				reps = 3
			}
			for _, g := range grs {
				for q := 0; q < reps; q++ {
					r := rng.Fork()
					c := g.c
					if t.isSet && r.Chance(30) {
						c.arr = true
					}
					jobs = append(jobs, job{[]ctor{c}, genGrowReset(t, r, has, g.w1, g.w2), -12})
					rep.Count("grow-reset-history")
				}
			}
			if t.name == "IntKeyMap" { // values of every dynamic type overwritten by values of every dynamic type
				for a := -2; a < nKinds; a++ {
					r := rng.Fork()
					c := ctor{def: true}
					if a%3 == 0 {
						c = genCtor(t, r, po.capOK)
					}
					jobs = append(jobs, job{[]ctor{c}, genValueKinds(t, r, a, has), 1})
					rep.Count("value-kind-history")
				}
			}
		}
		for i := 0; i < growthPer; i++ {
			r := rng.Fork()
			jobs = append(jobs, job{[]ctor{genCtor(t, r, po.capOK)}, genGrowth(t, r, growthN), 64})
		}
		res := make([]*histRes, len(jobs))
		var wg sync.WaitGroup
		sem := make(chan struct{}, 12)
		for i, j := range jobs {
			wg.Add(1)
			sem <- struct{}{}
			go func(i int, j job) {
				defer wg.Done()
				res[i] = runImpl(t, j.cs, j.ops, j.de, po.skipView)
				<-sem
			}(i, j)
		}
		wg.Wait()
		hists = append(hists, res...)
	}

	for _, h := range hists {
		if h.abort == "" {
			continue
		}
		kind := map[string]string{"panic": "panic", "timeout": "deadlock"}[h.abort]
		meth, line := "ToBytes", "ToBytes/ToObject"
		if h.abortI >= 0 && h.abortI < len(h.ops) {
			meth, line = h.t.method(h.ops[h.abortI].code), h.t.replayLine(h.ops[h.abortI])
		}
		rc := mkReplay(h, len(h.steps)-1, "a result", h.abort, h.abortP)
		rc.Ops = append(rc.Ops, line)
		rc.At = len(rc.Ops) - 1
		rep.Fail("property", h.t.name+"."+meth+":"+kind,
			fmt.Sprintf("%s.%s (operation %d of a history: %s) ended in %s %s", h.t.name, meth, h.abortI, line, h.abort, vh.Clip(h.abortP, 120)), rc)
	}

	nw := 12
	chunks := make([][]*histRes, nw)
	for i, h := range hists {
		chunks[i%nw] = append(chunks[i%nw], h)
	}
	type cres struct {
		vs  [][]*verdict
		err error
	}
	out := make([]cres, nw)
	var wg sync.WaitGroup
	for w := 0; w < nw; w++ {
		wg.Add(1)
		go func(w int) {
			defer wg.Done()
			var lines []string
			var offs []int
			for _, h := range chunks[w] {
				offs = append(offs, len(lines))
				lines = append(lines, driverLines(h)...)
			}
			if len(lines) == 0 {
				return
			}
			ans, err := vh.RunDriver(env.Driver, lines)
			if err != nil {
				out[w].err = err
				return
			}
			for i, h := range chunks[w] {
				end := len(lines)
				if i+1 < len(offs) {
					end = offs[i+1]
				}
				out[w].vs = append(out[w].vs, compare(h, ans[offs[i]:end], func(modelBytes, modelEnts string) *verdict {
					return readModelWire(h.t, modelBytes, modelEnts)
				}))
			}
		}(w)
	}
	wg.Wait()
	for w := 0; w < nw; w++ {
		if out[w].err != nil {
			vh.Die("%v", out[w].err)
		}
	}

	var pending []pendingFail
	sampled := map[string]bool{}
	for w := 0; w < nw; w++ {
		for i, h := range chunks[w] {
			var sb strings.Builder
			sb.WriteString(h.t.name + " " + h.c.String())
			nontriv := false
			maxSize := 0
			for _, s := range h.steps {
				sb.WriteByte(';')
				sb.WriteString(s.line)
				rep.Count("op:" + s.o.code)
				if mutating(s.o.code) {
					nontriv = true
				}
				for _, d := range s.dmps {
					if d.size > maxSize {
						maxSize = d.size
					}
				}
			}
			rep.Case(sb.String(), nontriv)
			rep.Count("type:" + h.t.name)
			if touchesGroup(h.t, h.ops) {
				rep.Count("history-with-full-hash-collision:" + h.t.name)
			}
			rep.Count("ctor:" + h.c.String())
			rep.Count(fmt.Sprintf("live-instances:%d", len(h.cs)))
			rep.Count("history-length:" + bucket(len(h.steps)))
			rep.Count("max-size:" + bucket(maxSize))
			rep.Count(fmt.Sprintf("growth-steps:%d", growthSteps(h.c, maxSize)))
			if h.wire != nil {
				rep.Count("wire-roundtrips")
			}
			if !sampled[h.t.name] && len(h.steps) > 5 && len(h.steps) < 40 {
				sampled[h.t.name] = true
				rep.Sample(map[string]interface{}{"type": h.t.name, "ctor": h.c.String(), "ops": driverLines(h)[1:]})
			}
			for _, v := range out[w].vs[i] {
				pending = append(pending, pendingFail{h, v})
			}
		}
	}
	reportShrunk(env, rep, pending)
	rep.Write(env.Out)
}

// ---------------------------------------------------------------- shrinking of failing histories

type pendingFail struct {
	h *histRes
	v *verdict
}

func failsWith(env *vh.Env, t *tdesc, c []ctor, ops []op, key string, skip map[string]bool) (*histRes, *verdict) {
	h := runImplStall(t, c, ops, 1, skip, 8*time.Second)
	if h.abort != "" {
		return nil, nil
	}
	ans, err := vh.RunDriver(env.Driver, driverLines(h))
	if err != nil {
		return nil, nil
	}
	for _, v := range compare(h, ans, func(mb, me string) *verdict { return readModelWire(t, mb, me) }) {
		if v.key == key {
			return h, v
		}
	}
	return nil, nil
}

// shrink removes chunks of operations (halves, quarters, … single operations) while the same
// failure key persists; at most `budget` re-executions.
func shrink(env *vh.Env, h *histRes, v *verdict, budget int) (*histRes, *verdict) {
	upto := v.rc.At + 1
	if upto > len(h.ops) || upto <= 0 {
		upto = len(h.ops)
	}
	cur := append([]op(nil), h.ops[:upto]...)
	bestH, bestV := failsWith(env, h.t, h.cs, cur, v.key, h.skip)
	if bestH == nil {
		return h, v
	}
	n := 2
	deadline := time.Now().Add(20 * time.Second) // candidates that hang cost a watchdog period each
	for len(cur) >= 2 && budget > 0 && time.Now().Before(deadline) {
		chunk := (len(cur) + n - 1) / n
		reduced := false
		for i := 0; i < len(cur) && budget > 0 && time.Now().Before(deadline); i += chunk {
			j := i + chunk
			if j > len(cur) {
				j = len(cur)
			}
			cand := append(append([]op(nil), cur[:i]...), cur[j:]...)
			budget--
			if hh, vv := failsWith(env, h.t, h.cs, cand, v.key, h.skip); hh != nil {
				cur, bestH, bestV = cand, hh, vv
				reduced = true
				if n > 2 {
					n--
				}
				break
			}
		}
		if !reduced {
			if chunk == 1 {
				break
			}
			n *= 2
			if n > len(cur) {
				n = len(cur)
			}
		}
	}
	return bestH, bestV
}

func reportShrunk(env *vh.Env, rep *vh.Report, pending []pendingFail) {
	first := map[string]int{}
	for i, p := range pending {
		if _, ok := first[p.v.key]; !ok {
			first[p.v.key] = i
		}
	}
	var wg sync.WaitGroup
	sem := make(chan struct{}, 12)
	for _, i := range first {
		wg.Add(1)
		sem <- struct{}{}
		go func(i int) {
			defer wg.Done()
			p := pending[i]
			n0 := p.v.rc.At + 1
			_, v := shrink(env, p.h, p.v, 160)
			if len(v.rc.Ops) < n0 {
				v.rc.Detail = strings.TrimSpace(v.rc.Detail + fmt.Sprintf(" (shrunk from %d operations)", n0))
			}
			pending[i].v = v
			<-sem
		}(i)
	}
	wg.Wait()
	keys := make([]string, 0, len(first))
	for k := range first {
		keys = append(keys, k)
	}
	sort.Strings(keys)
	for _, k := range keys {
		v := pending[first[k]].v
		rep.Fail("property", v.key, v.summary, v.rc)
	}
	for i, p := range pending {
		if first[p.v.key] != i {
			rep.Fail("property", p.v.key, p.v.summary, p.v.rc)
		}
	}
}

// readModelWire feeds the Lean model's serialization to the implementation's ToObject.
func readModelWire(t *tdesc, modelHex, modelEnts string) *verdict {
	if t.name != "IntIntMap" {
		return nil
	}
	var got string
	o := vh.Guard(func() {
		m := wrapIntIntMap(hmap.NewIntIntMapDefault().ToObject(gio.NewDataInputX(vh.UnHex(modelHex))))
		got = joinPairs(sortedPairs(t, m.dump(nil).entries))
	})
	if !o.OK() {
		got = "panic " + o.Panic
	}
	if got != modelEnts {
		return &verdict{key: "IntIntMap.ToObject:wire", summary: fmt.Sprintf("IntIntMap.ToObject of the model's serialization holds %s, expected %s", vh.Clip(got, 160), vh.Clip(modelEnts, 160)),
			rc: replayCase{Got: got}}
	}
	return nil
}

// touchesGroup: does the history insert at least two distinct keys of one full-hash collision group?
func touchesGroup(t *tdesc, ops []op) bool {
	for _, g := range fullCollide[t.name] {
		in := map[key]bool{}
		for _, k := range g {
			in[k] = true
		}
		put := map[key]bool{}
		for _, o := range ops {
			if (o.code == "P" || o.code == "A" || o.code == "U" || o.code == "AN") && in[o.k] {
				put[o.k] = true
			}
		}
		if len(put) >= 2 {
			return true
		}
	}
	return false
}

func contains(xs []string, x string) bool {
	for _, y := range xs {
		if y == x {
			return true
		}
	}
	return false
}

func bucket(n int) string {
	switch {
	case n == 0:
		return "0"
	case n <= 3:
		return "1-3"
	case n <= 10:
		return "4-10"
	case n <= 50:
		return "11-50"
	case n <= 200:
		return "51-200"
	case n <= 1000:
		return "201-1000"
	}
	return ">1000"
}

func growthSteps(c ctor, maxSize int) int {
	cp, lf := c.cap, c.lf
	if c.def {
		cp, lf = 101, 0.75
	}
	if cp == 0 {
		cp = 1
	}
	g := 0
	for int(float32(cp)*lf) < maxSize && g < 30 {
		cp = 2*cp + 1
		g++
	}
	return g
}

func replayFile(env *vh.Env, rep *vh.Report) {
	raw, err := os.ReadFile(env.Replay)
	if err != nil {
		vh.Die("replay file: %v", err)
	}
	var f struct {
		Cases []replayCase `json:"cases"`
	}
	if err := json.Unmarshal(raw, &f); err != nil {
		vh.Die("replay file: %v", err)
	}
	byName := map[string]*tdesc{}
	for _, t := range types {
		byName[t.name] = t
	}
	for _, rc := range f.Cases {
		t := byName[rc.Type]
		if t == nil {
			continue
		}
		c := ctor{def: rc.Def, cap: rc.Cap, lf: rc.Lf}
		var ops []op
		for _, l := range rc.Ops {
			if o, ok := parseLine(t, l); ok && o.code != "ES" {
				ops = append(ops, o)
			}
		}
		cs := []ctor{c}
		if len(rc.Insts) > 0 {
			cs = nil
			for _, x := range rc.Insts {
				cs = append(cs, ctor{def: x.Def, cap: x.Cap, lf: x.Lf, arr: x.Arr})
			}
		}
		h := runImpl(t, cs, ops, 1, nil)
		if h.abort != "" {
			rep.Fail("property", rc.Type+".replay:"+h.abort, fmt.Sprintf("replayed history ends in %s at op %d: %s", h.abort, h.abortI, vh.Clip(h.abortP, 160)),
				mkReplay(h, len(h.steps)-1, "a result", h.abort, h.abortP))
		}
		ans, err := vh.RunDriver(env.Driver, driverLines(h))
		if err != nil {
			vh.Die("%v", err)
		}
		rep.Case(rc.Type+" "+strings.Join(rc.Ops, ";"), true)
		for _, v := range compare(h, ans, func(mb, me string) *verdict { return readModelWire(t, mb, me) }) {
			rep.Fail("property", v.key, v.summary, v.rc)
		}
	}
}

// guardProbe runs a probe (a handful of operations on a 3-element container) under a watchdog that only bounds hangs:
// 2 s, and if that expires once more with 30 s — a real deadlock expires twice, a starved goroutine on a busy machine does not.
func guardProbe(f func()) vh.Outcome {
	o := vh.GuardTimeout(2*time.Second, f)
	if o.Timeout {
		o = vh.GuardTimeout(30*time.Second, f)
	}
	return o
}
