package main

import (
	"math"
	"strconv"
	"strings"

	"github.com/whatap/golib/util/ansi"
	"github.com/whatap/golib/util/exception"
	"github.com/whatap/golib/util/percentutil"
	"github.com/whatap/golib/util/stringutil"
	"github.com/whatap/golib/util/uuidutil"
	"verif/harness/vh"
)

func hx(s string) string   { return vh.Hex([]byte(s)) }
func unhx(s string) string { return string(vh.UnHex(s)) }

// lists of strings: <n>:<h1>,<h2>,…   (0: = empty list, 1:- = one empty string)
func hexList(xs []string) string {
	h := make([]string, len(xs))
	for i, x := range xs {
		h[i] = hx(x)
	}
	return strconv.Itoa(len(xs)) + ":" + strings.Join(h, ",")
}

func unhexList(s string) []string {
	i := strings.IndexByte(s, ':')
	if i < 0 {
		vh.Die("bad list %q", s)
	}
	n, err := strconv.Atoi(s[:i])
	if err != nil {
		vh.Die("bad list %q", s)
	}
	if n == 0 {
		return []string{}
	}
	ps := strings.Split(s[i+1:], ",")
	if len(ps) != n {
		vh.Die("bad list %q", s)
	}
	out := make([]string, n)
	for j, p := range ps {
		out[j] = unhx(p)
	}
	return out
}

func atoi(s string) int {
	v, err := strconv.ParseInt(s, 10, 64)
	if err != nil {
		vh.Die("bad int %q", s)
	}
	return int(v)
}

func bit(b bool) string {
	if b {
		return "1"
	}
	return "0"
}

// CAT items: s:<hex> | int:<n> | i32:<n> | i64:<n> | u:<n> | u32:<n> | u64:<n>
func catItems(s string) []interface{} {
	if s == "-" {
		return nil
	}
	var out []interface{}
	for _, it := range strings.Split(s, ",") {
		i := strings.IndexByte(it, ':')
		if i < 0 {
			vh.Die("bad item %q", it)
		}
		t, v := it[:i], it[i+1:]
		switch t {
		case "s":
			out = append(out, unhx(v))
		case "int":
			out = append(out, atoi(v))
		case "i32":
			out = append(out, int32(atoi(v)))
		case "i64":
			out = append(out, int64(atoi(v)))
		case "u", "u32", "u64":
			u, err := strconv.ParseUint(v, 10, 64)
			if err != nil {
				vh.Die("bad item %q", it)
			}
			switch t {
			case "u":
				out = append(out, uint(u))
			case "u32":
				out = append(out, uint32(u))
			default:
				out = append(out, u)
			}
		default:
			vh.Die("bad item %q", it)
		}
	}
	return out
}

var arity = map[string]int{"PAD": 2, "LPI": 2, "CUT": 2, "TP": 2, "SUB": 3, "SUBN": 4, "TOK": 2, "SPL": 2, "TRM": 1,
	"TRN": 2, "INS": 2, "NUL": 1, "ESC": 1, "CAT": 1, "SAS": 5, "UL": 1, "TF": 2, "EX": 4, "AN": 2}

func ansiFn(color string) func(string) string {
	switch color {
	case "red":
		return ansi.Red
	case "yellow":
		return ansi.Yellow
	case "green":
		return ansi.Green
	case "cyan":
		return ansi.Cyan
	case "blue":
		return ansi.Blue
	}
	vh.Die("bad colour %q", color)
	return nil
}

func sasMap(k, v string) map[string][]string {
	if v == "!" {
		return map[string][]string{unhx(k): {}}
	}
	return map[string][]string{unhx(k): {unhx(v)}}
}

// eval answers one request on the implementation (not guarded).
func eval(op string, a []string) string {
	switch op {
	case "PAD":
		s, n := unhx(a[0]), atoi(a[1])
		return hx(stringutil.LPad(s, n)) + " " + hx(stringutil.RPad(s, n))
	case "LPI":
		return hx(stringutil.LPadInt(atoi(a[0]), atoi(a[1])))
	case "CUT":
		return hx(stringutil.CutLastString(unhx(a[0]), unhx(a[1])))
	case "TP":
		k, v := stringutil.ToPair(unhx(a[0]), unhx(a[1]))
		return hx(k) + " " + hx(v)
	case "SUB":
		return hx(stringutil.Substring(unhx(a[0]), unhx(a[1]), unhx(a[2])))
	case "SUBN":
		return hexList(stringutil.SubstringN(unhx(a[0]), unhx(a[1]), unhx(a[2]), atoi(a[3])))
	case "TOK":
		s, d := unhx(a[0]), unhx(a[1])
		return hexList(stringutil.Tokenizer(s, d)) + " " + hx(stringutil.FirstWord(s, d)) + " " + hx(stringutil.LastWord(s, d))
	case "SPL":
		return hexList(stringutil.Split(unhx(a[0]), unhx(a[1])))
	case "TRM":
		s := unhx(a[0])
		return hx(stringutil.TrimEmpty(s)) + " " + hx(stringutil.TrimAllSpace(s))
	case "TRN":
		return hx(stringutil.TruncateRune(unhx(a[0]), atoi(a[1])))
	case "INS":
		s, l := unhx(a[0]), unhexList(a[1])
		return bit(stringutil.StringInSlice(s, l)) + " " + bit(stringutil.Contains(l, s)) + " " + bit(stringutil.InArray(s, l)) + " " +
			bit(stringutil.InArrayCaseSensitive(s, l)) + " " + bit(stringutil.IsNotEmpty(s))
	case "NUL":
		return hexList(stringutil.NullTermToStrings(vh.UnHex(a[0])))
	case "ESC":
		return hx(stringutil.EscapeSpace(unhx(a[0])))
	case "CAT":
		return hx(stringutil.Concat(catItems(a[0])...))
	case "SAS":
		return hx(stringutil.ParseMapSASToString(sasMap(a[0], a[1]), atoi(a[2]), atoi(a[3]), atoi(a[4])))
	case "UL":
		return strconv.FormatInt(uuidutil.ToLong(unhx(a[0])), 10)
	case "TF":
		src := math.Float32frombits(uint32(atoi(a[0])))
		top := math.Float32frombits(uint32(atoi(a[1])))
		return strconv.FormatUint(uint64(math.Float32bits(percentutil.TopFloat(src, top))), 10)
	case "EX":
		return hx(exception.NewCustomException(unhx(a[0]), unhx(a[1]), unhx(a[2]), unhx(a[3])).Error())
	case "AN":
		return hx(ansiFn(a[0])(unhx(a[1])))
	}
	vh.Die("unknown op %q", op)
	return ""
}

func splitLine(line string) (string, []string) {
	f := strings.Split(line, " ")
	n, ok := arity[f[0]]
	if !ok || len(f)-1 != n {
		vh.Die("bad request line %q", vh.Clip(line, 200))
	}
	return f[0], f[1:]
}

func runImpl(c *kase) {
	op, a := splitLine(c.line)
	c.fam = op
	var ans string
	if o := vh.Guard(func() { ans = eval(op, a) }); !o.OK() {
		ans = "panic"
	}
	c.impl = ans
}
