package main

import (
	"fmt"
	"math"
	"strconv"
	"strings"
	"unicode"
	"unicode/utf8"

	"verif/harness/vh"
)

var blanks = []string{" ", "\t", "\n", "\u00a0", "\u3000", "\u0085", "\u2028"}
var caselessMB = []string{"\uac00", "\ud55c", "\u4e2d", "\u3000", "\u00a0", "\u0085", "\u2028", "\U0001F600"}
var casedMB = []string{"\u00e9", "\u212a", "\u0130", "\u00df", "\u03b1", "\u03a9", "\u03c2", "\u0436", "\u0414", "\u01c5", "\u0131", "\u017f"}
var illBytes = []string{"\xff", "\xc0", "\x80", "\xed\xa0\x80", "\xe2\x82", "\xf0\x9f"}

type gen struct {
	r       *vh.Rng
	longMax int
}

func (g *gen) pick(xs []string) string { return xs[g.r.Intn(len(xs))] }

func (g *gen) word() string {
	n := 1 + g.r.Intn(6)
	b := make([]byte, n)
	for i := range b {
		c := byte('a' + g.r.Intn(26))
		if g.r.Chance(30) {
			c -= 32
		}
		if g.r.Chance(8) {
			c = byte('0' + g.r.Intn(10))
		}
		b[i] = c
	}
	return string(b)
}

func (g *gen) mb(caseless bool) string {
	if caseless || g.r.Chance(35) {
		return g.pick(caselessMB)
	}
	return g.pick(casedMB)
}

func (g *gen) from(alpha []func() string, n int) string {
	var b strings.Builder
	for i := 0; i < n; i++ {
		b.WriteString(alpha[g.r.Intn(len(alpha))]())
	}
	return b.String()
}

func flipCase(r *vh.Rng, s string) string {
	b := []byte(s)
	for i, c := range b {
		if (c >= 'a' && c <= 'z' || c >= 'A' && c <= 'Z') && r.Bool() {
			b[i] = c ^ 0x20
		}
	}
	return string(b)
}

// str: the boundary-biased text generator.  caseless: non-ASCII code points are taken from scripts without case.
func (g *gen) str(caseless bool) string {
	w := g.word
	bl := func() string { return g.pick(blanks) }
	m := func() string { return g.mb(caseless) }
	il := func() string { return g.pick(illBytes) }
	switch k := g.r.Intn(16); {
	case k == 0:
		return ""
	case k == 1:
		return g.from([]func() string{bl}, 1+g.r.Intn(4))
	case k <= 4:
		n := 1 + g.r.Intn(4)
		ws := make([]string, n)
		for i := range ws {
			ws[i] = w()
		}
		s := strings.Join(ws, " ")
		if g.r.Chance(30) {
			s = bl() + s
		}
		if g.r.Chance(30) {
			s += bl()
		}
		return s
	case k == 5:
		sep := g.pick([]string{",", ";", ":", "=", " ", "\t", "::", ".", "/"})
		return sep + w() + sep + sep + w() + sep
	case k <= 8:
		return g.from([]func() string{w, m, m, bl}, 1+g.r.Intn(8))
	case k <= 11:
		s := g.from([]func() string{w, m, il, il, bl}, g.r.Intn(6))
		// at least one ill-formed byte
		i := 0
		if len(s) > 0 {
			i = g.r.Intn(len(s) + 1)
		}
		return s[:i] + il() + s[i:]
	case k <= 14:
		return g.from([]func() string{w, m, il, bl, func() string { return g.pick([]string{",", ";", ":", "=", ".", "/", "\\", "0", "7"}) }}, g.r.Intn(10))
	default:
		if g.r.Chance(15) {
			return g.long(caseless, g.longMax)
		}
		return w()
	}
}

func (g *gen) long(caseless bool, max int) string {
	n := max/2 + g.r.Intn(max/2+1)
	var b strings.Builder
	alpha := []func() string{g.word, g.word, func() string { return g.mb(caseless) }, func() string { return g.pick(blanks) },
		func() string { return g.pick([]string{",", ";", ":", "=", " "}) }}
	if g.r.Chance(30) {
		alpha = append(alpha, func() string { return g.pick(illBytes) })
	}
	for b.Len() < n {
		b.WriteString(alpha[g.r.Intn(len(alpha))]())
	}
	return b.String()[:n]
}

func shape(s string) string {
	switch {
	case s == "":
		return "empty"
	case len(s) > 500:
		return "long"
	case !utf8.ValidString(s):
		return "illformed"
	}
	blank, ascii := true, true
	for _, r := range s {
		if !unicode.IsSpace(r) {
			blank = false
		}
		if r >= 0x80 {
			ascii = false
		}
	}
	switch {
	case blank:
		return "blank"
	case !ascii:
		return "multibyte"
	}
	return "ascii"
}

// a separator: empty, one ASCII byte, doubled, letters (case matters for ToPair/Substring), multi-byte, ill-formed, U+FFFD
func (g *gen) sep(caseless bool) string {
	switch k := g.r.Intn(20); {
	case k == 0:
		return ""
	case k <= 7:
		return g.pick([]string{",", ";", ":", "=", ".", "|", "/", " ", "\t"})
	case k <= 10:
		return g.pick([]string{"::", "==", ", ", "->", " = ", ":::", "=>"})
	case k <= 13:
		return g.pick([]string{"ab", "X", "aB", "to", "FROM", "k"})
	case k <= 15:
		return g.mb(caseless)
	case k == 16:
		return g.pick(illBytes)
	case k == 17:
		return "\xef\xbf\xbd"
	default:
		return g.pick([]string{",", ":", "="}) + g.mb(caseless)
	}
}

func (g *gen) piece(caseless bool) string {
	switch g.r.Intn(9) {
	case 0:
		return ""
	case 1:
		return g.pick(blanks) + g.word() + g.pick(blanks)
	case 2:
		return g.mb(caseless)
	case 3:
		return g.pick(illBytes)
	case 4:
		return g.word() + g.mb(caseless)
	case 5:
		return g.word() + " " + g.word()
	}
	return g.word()
}

// sepText: a text in which the separator (really) occurs, possibly in another letter case (flip), possibly doubled / at the ends
func (g *gen) sepText(caseless, flip bool) (s, sep string) {
	sep = g.sep(caseless)
	parts := 1 + g.r.Intn(4)
	var b strings.Builder
	if g.r.Chance(15) {
		b.WriteString(sep)
	}
	for i := 0; i < parts; i++ {
		b.WriteString(g.piece(caseless))
		if i < parts-1 || g.r.Chance(20) {
			sv := sep
			if flip && g.r.Bool() {
				sv = flipCase(g.r, sep)
			}
			b.WriteString(sv)
			if g.r.Chance(15) {
				b.WriteString(sv)
			}
		}
	}
	s = b.String()
	if g.r.Chance(20) && len(s) > 0 { // 1..3 bytes taken out of the text
		i := g.r.Intn(len(s))
		k := 1 + g.r.Intn(3)
		if i+k > len(s) {
			k = len(s) - i
		}
		sep = s[i : i+k]
		if flip && g.r.Bool() {
			sep = flipCase(g.r, sep)
		}
	}
	if g.r.Chance(8) {
		s = g.str(caseless)
	}
	return
}

func hxl(xs []string) string { return hexList(xs) }

var f32Boundaries = []uint32{0, 0x80000000, 1, 0x80000001, 0x007fffff, 0x00800000, 0x3f800000, 0xbf800000, 0x7f7fffff, 0xff7fffff,
	0x7f800000, 0xff800000, 0x7fc00000, 0xffc00000, 0x7f800001, 0x7fffffff, 0xff800001, 0x42c80000, 0x42c7ffff, 0x42c80001, 0x3f000000}

func (g *gen) f32() uint32 {
	if g.r.Chance(60) {
		return f32Boundaries[g.r.Intn(len(f32Boundaries))]
	}
	if g.r.Chance(50) {
		return math.Float32bits(float32(g.r.Range(-1000, 1000)) / 8)
	}
	return uint32(g.r.U64())
}

func (g *gen) escText() string {
	alpha := []func() string{
		func() string {
			return g.pick([]string{`\040`, `\134`, `\999`, `\12`, `\101\101`, `\1341`, `\011`, `\000`, `\377`, `\400`, `\777`, `\0401`, `\\040`, `\134040`, `\08`})
		},
		func() string { return `\` },
		func() string { return strconv.Itoa(g.r.Intn(10)) },
		func() string { return fmt.Sprintf(`\%03d`, g.r.Intn(1000)) },
		func() string { return fmt.Sprintf(`\%03o`, g.r.Intn(512)) },
		g.word,
		func() string { return g.pick([]string{" ", "/", "é", "\xff", "한"}) },
	}
	return g.from(alpha, g.r.Intn(8))
}

func (g *gen) nulBytes() string {
	switch k := g.r.Intn(10); {
	case k == 0:
		return ""
	case k == 1:
		return g.word() // no \0 at all
	case k == 2:
		return g.word() + "\x00" // single terminator: panics
	case k <= 6: // well-formed: a\0b\0\0
		n := 1 + g.r.Intn(4)
		var b strings.Builder
		for i := 0; i < n; i++ {
			b.WriteString(g.pick([]string{g.word(), g.word(), "한", "\xff", "a b"}))
			b.WriteByte(0)
		}
		b.WriteByte(0)
		if g.r.Chance(30) {
			b.WriteString(g.word())
		}
		return b.String()
	default:
		return g.from([]func() string{g.word, func() string { return "\x00" }, func() string { return "\x00" }, func() string { return "\x00\x00" },
			func() string { return g.pick([]string{"\xff", " ", "é"}) }}, g.r.Intn(8))
	}
}

func (g *gen) catItems() string {
	n := g.r.Intn(6)
	if n == 0 {
		return "-"
	}
	b64 := vh.SignedBoundaries()
	its := make([]string, n)
	for i := range its {
		v := b64[g.r.Intn(len(b64))]
		if g.r.Chance(40) {
			v = g.r.Range(-1000, 1000)
		}
		switch g.r.Intn(9) {
		case 0, 1, 2:
			s := g.str(false)
			if len(s) > 200 {
				s = s[:200]
			}
			its[i] = "s:" + hx(s)
		case 3:
			its[i] = "int:" + strconv.FormatInt(v, 10)
		case 4:
			its[i] = "i32:" + strconv.FormatInt(int64(int32(v)), 10)
		case 5:
			its[i] = "i64:" + strconv.FormatInt(v, 10)
		case 6:
			its[i] = "u:" + strconv.FormatUint(uint64(v), 10)
		case 7:
			its[i] = "u32:" + strconv.FormatUint(uint64(uint32(v)), 10)
		case 8:
			its[i] = "u64:" + strconv.FormatUint(uint64(v), 10)
		}
	}
	return strings.Join(its, ",")
}

func (g *gen) uuidLike() string {
	const hexd = "0123456789abcdef"
	b := make([]byte, 36)
	for i := range b {
		b[i] = hexd[g.r.Intn(16)]
	}
	b[8], b[13], b[18], b[23] = '-', '-', '-', '-'
	b[14] = '4'
	b[19] = "89ab"[g.r.Intn(4)]
	return string(b)
}

var tokDelims = []string{",", " ", ";", ":", "\t"}

func generate(rng *vh.Rng, thorough bool, rep *vh.Report) []*kase {
	g := &gen{r: rng, longMax: 2000}
	n := 1500
	if thorough {
		n = 15000
		g.longMax = 50000
	}
	var cases []*kase
	add := func(nt bool, primary string, format string, a ...interface{}) {
		c := &kase{line: fmt.Sprintf(format, a...), nt: nt, shape: shape(primary)}
		cases = append(cases, c)
	}
	i64b := vh.SignedBoundaries()

	for i := 0; i < n; i++ {
		// PAD
		{
			s := g.str(false)
			k := int(g.r.Range(-3, 40))
			if g.r.Chance(5) {
				k = int(g.r.Range(41, 300))
			}
			if g.r.Chance(15) {
				k = len(s) + int(g.r.Range(-1, 1))
			}
			add(s != "" && k > len(s), s, "PAD %s %d", hx(s), k)
		}
		// LPI
		{
			v := i64b[g.r.Intn(len(i64b))]
			switch g.r.Intn(4) {
			case 0:
				v = g.r.Range(-1000, 1000)
			case 1:
				v = g.r.I64() >> uint(g.r.Intn(64))
			}
			sz := g.r.Range(-2, 25)
			add(sz > 1, "x", "LPI %d %d", v, sz)
		}
		// CUT
		{
			s, d := g.sepText(false, false)
			if g.r.Chance(40) && d != "" { // mostly the documented use: one-byte delimiter
				d = g.pick([]string{".", "/", ":", ","})
				s = strings.ReplaceAll(g.from([]func() string{g.word, g.word, func() string { return d }, func() string { return g.mb(false) }}, g.r.Intn(7)), "", "")
			}
			if len(s) > 5000 {
				s = s[:5000]
			}
			add(s != "" && d != "" && strings.Contains(s, d), s, "CUT %s %s", hx(s), hx(d))
		}
		// TP
		{
			s, d := g.sepText(true, true)
			if g.r.Chance(3) {
				s, d = g.pick([]string{"\xff=ab", "\xff\xff=", "a=b", " k = v ", "=", "\xffk=v"}), "="
			}
			add(s != "" && d != "" && strings.Contains(strings.ToLower(s), strings.ToLower(d)), s, "TP %s %s", hx(s), hx(d))
		}
		// SUB / SUBN
		{
			mk := func() (string, string, string) {
				from, to := g.sep(true), g.sep(true)
				if g.r.Chance(20) {
					to = ""
				}
				if g.r.Chance(10) {
					to = from
				}
				if g.r.Chance(30) {
					from = g.pick([]string{"from", "select", "[", "(", "<a>"})
					to = g.pick([]string{"where", "]", ")", "</a>", ""})
				}
				var b strings.Builder
				b.WriteString(g.piece(true))
				for j := g.r.Intn(4); j > 0; j-- {
					f, t := from, to
					if g.r.Bool() {
						f = flipCase(g.r, f)
					}
					if g.r.Bool() {
						t = flipCase(g.r, t)
					}
					if !g.r.Chance(8) {
						b.WriteString(f)
					}
					b.WriteString(g.piece(true))
					if !g.r.Chance(20) {
						b.WriteString(t)
					}
					if g.r.Chance(60) {
						b.WriteString(g.piece(true))
					}
				}
				s := b.String()
				if g.r.Chance(6) {
					s = g.str(true)
					if len(s) > 5000 {
						s = s[:5000]
					}
				}
				return s, from, to
			}
			s, from, to := mk()
			add(s != "" && from != "" && strings.Contains(strings.ToLower(s), strings.ToLower(from)), s, "SUB %s %s %s", hx(s), hx(from), hx(to))
			s, from, to = mk()
			k := g.r.Intn(5) - 1
			add(s != "" && from != "" && strings.Contains(strings.ToLower(s), strings.ToLower(from)), s, "SUBN %s %s %s %d", hx(s), hx(from), hx(to), k)
		}
		// TOK
		{
			ds := append([]string{}, tokDelims...)
			if g.r.Chance(35) {
				ds = append(ds, g.pick([]string{g.mb(false), g.pick(illBytes), "\xef\xbf\xbd"}))
			}
			var d strings.Builder
			for j := 1 + g.r.Intn(3); j > 0; j-- {
				d.WriteString(g.pick(ds))
			}
			if g.r.Chance(4) {
				d.Reset()
			}
			dp := func() string { return g.pick(ds) }
			s := g.from([]func() string{g.word, g.word, dp, dp, dp, func() string { return g.mb(false) }, func() string { return g.pick(illBytes) },
				func() string { return g.pick(blanks) }}, g.r.Intn(11))
			if g.r.Chance(4) {
				s = g.str(false)
			}
			add(s != "" && d.Len() > 0 && strings.ContainsAny(s, d.String()), s, "TOK %s %s", hx(s), hx(d.String()))
		}
		// SPL
		{
			s, d := g.sepText(false, false)
			add(s != "" && d != "" && strings.Contains(s, d), s, "SPL %s %s", hx(s), hx(d))
		}
		// TRM
		{
			s := g.str(false)
			if g.r.Chance(40) && len(s) < 500 {
				s = g.from([]func() string{func() string { return g.pick(blanks) }}, g.r.Intn(3)) + s + g.from([]func() string{func() string { return g.pick(blanks) }}, g.r.Intn(3))
			}
			add(s != "", s, "TRM %s", hx(s))
		}
		// TRN
		{
			s := g.str(false)
			if len(s) > 3000 {
				s = s[:3000]
			}
			add(s != "", s, "TRN %s %d", hx(s), g.r.Range(-1, 20))
		}
		// INS
		{
			s := g.str(true)
			if len(s) > 300 {
				s = s[:300]
			}
			l := make([]string, g.r.Intn(5))
			for j := range l {
				switch g.r.Intn(8) {
				case 0:
					l[j] = s
				case 1:
					l[j] = flipCase(g.r, s)
				case 2:
					l[j] = g.pick(blanks) + s + g.pick(blanks)
				case 3:
					l[j] = g.pick(blanks) + flipCase(g.r, s) + g.pick(blanks)
				case 4:
					l[j] = ""
				case 5:
					l[j] = g.word()
				case 6:
					l[j] = strings.TrimSpace(s)
				default:
					l[j] = g.str(true)
					if len(l[j]) > 300 {
						l[j] = l[j][:300]
					}
				}
			}
			add(s != "" && len(l) > 0, s, "INS %s %s", hx(s), hxl(l))
		}
		// NUL
		{
			b := g.nulBytes()
			add(strings.Contains(b, "\x00"), b, "NUL %s", hx(b))
		}
		// ESC
		{
			s := g.escText()
			add(strings.Contains(s, `\`), s, "ESC %s", hx(s))
		}
		// CAT
		{
			it := g.catItems()
			add(it != "-", "x", "CAT %s", it)
		}
		// SAS
		{
			k := g.str(false)
			if len(k) > 200 {
				k = k[:200]
			}
			v := "!"
			if !g.r.Chance(12) {
				vs := g.str(false)
				if len(vs) > 200 {
					vs = vs[:200]
				}
				v = hx(vs)
			}
			add(k != "" && v != "!", k, "SAS %s %s %d %d %d", hx(k), v, g.r.Range(-1, 3), g.r.Range(0, 12), g.r.Range(0, 12))
		}
		// UL
		{
			s := g.str(false)
			if g.r.Chance(30) {
				s = g.uuidLike()
			}
			add(s != "", s, "UL %s", hx(s))
		}
		// TF
		{
			a, b := g.f32(), g.f32()
			add(a != b, "x", "TF %d %d", a, b)
		}
		// EX
		{
			f := make([]string, 4)
			for j := range f {
				f[j] = g.str(false)
				if len(f[j]) > 300 {
					f[j] = f[j][:300]
				}
			}
			add(f[0] != "" || f[1] != "", f[0], "EX %s %s %s %s", hx(f[0]), hx(f[1]), hx(f[2]), hx(f[3]))
		}
		// AN
		{
			s := g.str(false)
			add(s != "", s, "AN %s %s", g.pick([]string{"red", "yellow", "green", "cyan", "blue"}), hx(s))
		}
	}
	return cases
}
