// Correspondence harness for the extension check X05: string utilities
// (util/stringutil StringUtil.go, util/uuidutil, util/percentutil, util/exception, util/ansi)
// against the Lean model (driver drv_x05) and against laws evaluated directly on the implementation.
//
// One case = one request line.  Executors:
//   impl   the real code through its public API, every call under vh.Guard   (impl.go: eval)
//   laws   laws that can be evaluated on the implementation for any input     (main.go: directLaws)
//   model  the Lean model                                                     (driver)
// a law fails                 → kind "property",       key <Func>:<law>
// laws hold, impl ≠ model     → kind "correspondence", key <Func>:model
//
// Strings travel as lowercase hex of their bytes ("-" = empty), lists as <n>:<h1>,<h2>,…
package main

import (
	"encoding/json"
	"fmt"
	"math"
	"os"
	"strconv"
	"strings"
	"unicode"
	"unicode/utf8"

	"github.com/whatap/golib/util/percentutil"
	"github.com/whatap/golib/util/stringutil"
	"github.com/whatap/golib/util/uuidutil"
	"verif/harness/vh"
)

type kase struct {
	line  string // request line (replayable)
	fam   string
	impl  string // answer of the implementation in the driver's answer syntax
	nt    bool   // non-trivial under the stated rule
	shape string // shape of the primary text
}

func main() {
	env, rep := vh.Parse("X05")
	rng := vh.NewRng(env.Seed)
	rep.Rule = "one case = one request line (PAD LPI CUT TP SUB SUBN TOK SPL TRM TRN INS NUL ESC CAT SAS UL TF EX AN): a text from a boundary-biased " +
		"generator (empty, blanks incl. U+00A0/U+3000/U+0085/U+2028, mixed-case ASCII words, separators doubled and at the ends, multi-byte, ill-formed UTF-8, long) " +
		"plus the operation's arguments (width, separator built so that it occurs in the text — for ToPair/Substring also in another letter case —, list, sizes, float bit patterns); " +
		"for ToPair/Substring/SubstringN/InArray the non-ASCII code points are caseless; " +
		"non-trivial: the text is non-empty and the separator/delimiter is non-empty and occurs in it (CUT TP SUB SUBN TOK SPL), the width exceeds the text (PAD, LPI), " +
		"the list is non-empty (INS), a \\0 / a backslash occurs (NUL, ESC), there are items (CAT), key and value present (SAS), the two floats differ (TF), text non-empty (others); " +
		"distinct = distinct request lines"

	var cases []*kase
	if env.Replay != "" {
		cases = loadReplay(env.Replay)
	} else {
		cases = generate(rng, env.Thorough, rep)
	}
	for _, c := range cases {
		runImpl(c)
	}
	lines := make([]string, len(cases))
	for i, c := range cases {
		lines[i] = c.line
	}
	if d := os.Getenv("VERIF_DUMP"); d != "" {
		os.WriteFile(d, []byte(strings.Join(lines, "\n")+"\n"), 0o644)
	}
	var outs []string
	if len(lines) > 0 {
		var err error
		outs, err = vh.RunDriver(env.Driver, lines)
		if err != nil {
			rep.Write(env.Out)
			vh.Die("%v", err)
		}
	}

	replayFindings(rep)
	if env.Replay == "" {
		uuidLaw(rep)
	}

	sampled := map[string]bool{}
	for i, c := range cases {
		judge(c, outs[i], rep)
		if !sampled[c.fam] && c.nt && (i/19)%7 == 3 {
			sampled[c.fam] = true
			rep.Sample(map[string]string{"line": vh.Clip(c.line, 300), "impl": vh.Clip(c.impl, 300), "model": vh.Clip(outs[i], 300)})
		}
	}
	rep.Write(env.Out)
}

var fieldNames = map[string][]string{
	"PAD": {"LPad", "RPad"}, "LPI": {"LPadInt"}, "CUT": {"CutLastString"}, "TP": {"ToPair", "ToPair"}, "SUB": {"Substring"},
	"SUBN": {"SubstringN"}, "TOK": {"Tokenizer", "FirstWord", "LastWord"}, "SPL": {"Split"}, "TRM": {"TrimEmpty", "TrimAllSpace"},
	"TRN": {"TruncateRune"}, "INS": {"StringInSlice", "Contains", "InArray", "InArrayCaseSensitive", "IsNotEmpty"},
	"NUL": {"NullTermToStrings"}, "ESC": {"EscapeSpace"}, "CAT": {"Concat"}, "SAS": {"ParseMapSASToString"}, "UL": {"uuidutil.ToLong"},
	"TF": {"percentutil.TopFloat"}, "EX": {"CustomException.Error"}, "AN": {"ansi"},
}

func fieldName(fam string, i int) string {
	ns := fieldNames[fam]
	if i >= 0 && i < len(ns) {
		return ns[i]
	}
	if len(ns) > 0 {
		return ns[0]
	}
	return fam
}

func agree(model, impl string) (bool, int) {
	if model == impl {
		return true, 0
	}
	m := strings.Split(model, " ")
	g := strings.Split(impl, " ")
	if len(m) != len(g) {
		return false, -1
	}
	for i := range m {
		if m[i] != g[i] {
			return false, i
		}
	}
	return true, 0
}

func judge(c *kase, model string, rep *vh.Report) {
	rep.Case(c.line, c.nt)
	rep.Count("family:" + c.fam)
	if c.shape != "" {
		rep.Count("shape:" + c.shape)
	}
	if c.impl == "panic" {
		rep.Count("answer:panic")
	}
	// the laws are evaluated on the implementation for every input
	var law string
	if o := vh.Guard(func() { law = directLaws(c) }); !o.OK() {
		law = fieldName(c.fam, 0) + ":law-evaluation-panics"
	}
	if law != "" {
		rep.Fail("property", law,
			fmt.Sprintf("law %q fails on the implementation", law),
			map[string]string{"line": c.line, "impl": c.impl, "model": model, "law": law})
		return
	}
	if ok, i := agree(model, c.impl); !ok {
		if d := os.Getenv("VERIF_DISAGREE"); d != "" { // debugging aid: every disagreement, not only 3 per key
			if f, err := os.OpenFile(d, os.O_APPEND|os.O_CREATE|os.O_WRONLY, 0o644); err == nil {
				fmt.Fprintf(f, "%s\n  impl  %s\n  model %s\n", c.line, c.impl, model)
				f.Close()
			}
		}
		// the laws were just evaluated on this very input and hold: a disagreement of model and code
		key := fieldName(c.fam, i) + ":model"
		rep.Fail("correspondence", key,
			fmt.Sprintf("%s: model and implementation disagree: model %s, implementation %s", fieldName(c.fam, i), vh.Clip(model, 300), vh.Clip(c.impl, 300)),
			map[string]string{"line": c.line, "impl": c.impl, "model": model})
	}
}

func isASCII(s string) bool {
	for i := 0; i < len(s); i++ {
		if s[i] >= 0x80 {
			return false
		}
	}
	return true
}

func max(a, b int) int {
	if a > b {
		return a
	}
	return b
}

// directLaws evaluates, on the implementation, the laws that are meaningful for this input; "" = all hold.
// They are stated so that they hold on the code as it is (known quirks are outside their domain).
func directLaws(c *kase) string {
	op, a := splitLine(c.line)
	panicked := c.impl == "panic"
	switch op {
	case "PAD":
		s, n := unhx(a[0]), atoi(a[1])
		l, r := stringutil.LPad(s, n), stringutil.RPad(s, n)
		if len(l) != max(len(s), n) || !strings.HasSuffix(l, s) || strings.Trim(l[:len(l)-len(s)], " ") != "" {
			return "LPad:length-and-suffix"
		}
		if len(r) != max(len(s), n) || !strings.HasPrefix(r, s) || strings.Trim(r[len(s):], " ") != "" {
			return "RPad:length-and-prefix"
		}
	case "LPI":
		v, n := atoi(a[0]), atoi(a[1])
		d := strconv.Itoa(v)
		r := stringutil.LPadInt(v, n)
		if len(r) != max(len(d), n) || !strings.HasSuffix(r, d) || strings.Trim(r[:len(r)-len(d)], "0") != "" {
			return "LPadInt:length-and-suffix"
		}
	case "CUT":
		s, d := unhx(a[0]), unhx(a[1])
		if len(d) == 1 {
			if panicked {
				return "CutLastString:panics-on-one-byte-delim"
			}
			r := stringutil.CutLastString(s, d)
			if !strings.Contains(s, d) {
				if r != s {
					return "CutLastString:absent-delim-identity"
				}
			} else if !strings.HasSuffix(s, d+r) || strings.Contains(r, d) {
				return "CutLastString:tail-after-last-delim"
			}
		}
	case "TP":
		if panicked {
			return "" // known: index into the lowered text
		}
		s, d := unhx(a[0]), unhx(a[1])
		k, v := stringutil.ToPair(s, d)
		if k != strings.TrimSpace(k) || v != strings.TrimSpace(v) {
			return "ToPair:trimmed"
		}
		if !strings.Contains(strings.ToLower(s), strings.ToLower(d)) && (k != "" || v != "") {
			return "ToPair:absent-sep-empty"
		}
		if isASCII(s) && isASCII(d) && strings.Contains(strings.ToLower(s), strings.ToLower(d)) {
			i := strings.Index(strings.ToLower(s), strings.ToLower(d))
			if k != strings.TrimSpace(s[:i]) || v != strings.TrimSpace(s[i+len(d):]) {
				return "ToPair:ascii-split-at-first-sep"
			}
		}
	case "SUB":
		s, from, to := unhx(a[0]), unhx(a[1]), unhx(a[2])
		r := stringutil.Substring(s, from, to)
		if r != strings.TrimSpace(r) {
			return "Substring:trimmed"
		}
		if !strings.Contains(strings.ToLower(s), strings.ToLower(from)) && r != "" {
			return "Substring:absent-from-empty"
		}
		if isASCII(s) && !strings.Contains(s, r) {
			return "Substring:ascii-result-occurs-in-text"
		}
	case "SUBN":
		s, from, to, n := unhx(a[0]), unhx(a[1]), unhx(a[2]), atoi(a[3])
		r := stringutil.SubstringN(s, from, to, n)
		if n >= 1 && len(r) > n {
			return "SubstringN:at-most-n"
		}
		for _, x := range r {
			if x != strings.TrimSpace(x) {
				return "SubstringN:trimmed"
			}
			if isASCII(s) && !strings.Contains(s, x) {
				return "SubstringN:ascii-result-occurs-in-text"
			}
		}
	case "TOK":
		s, d := unhx(a[0]), unhx(a[1])
		ts := stringutil.Tokenizer(s, d)
		if s == "" || d == "" {
			if len(ts) != 1 || ts[0] != s {
				return "Tokenizer:empty-argument-identity"
			}
			break
		}
		dr := []rune(d)
		for _, t := range ts {
			if t == "" {
				return "Tokenizer:token-non-empty"
			}
			for _, r := range t {
				for _, q := range dr {
					if r == q {
						return "Tokenizer:token-free-of-delimiters"
					}
				}
			}
		}
		if len(ts) > 0 {
			if stringutil.FirstWord(s, d) != strings.TrimSpace(ts[0]) {
				return "FirstWord:first-token-trimmed"
			}
			if stringutil.LastWord(s, d) != strings.TrimSpace(ts[len(ts)-1]) {
				return "LastWord:last-token-trimmed"
			}
		}
	case "SPL":
		s, d := unhx(a[0]), unhx(a[1])
		if d != "" {
			ps := stringutil.Split(s, d)
			if strings.Join(ps, d) != s {
				return "Split:join-inverse"
			}
			if len(ps) != strings.Count(s, d)+1 {
				return "Split:count"
			}
		}
	case "TRM":
		s := unhx(a[0])
		if stringutil.TrimEmpty(s) != strings.TrimSpace(s) {
			return "TrimEmpty:is-TrimSpace"
		}
		r := stringutil.TrimAllSpace(s)
		for _, x := range r {
			if unicode.IsSpace(x) {
				return "TrimAllSpace:no-space-left"
			}
		}
		if utf8.ValidString(s) {
			want := strings.Map(func(x rune) rune {
				if unicode.IsSpace(x) {
					return -1
				}
				return x
			}, s)
			if r != want {
				return "TrimAllSpace:well-formed-only-spaces-dropped"
			}
		}
	case "TRN":
		s, n := unhx(a[0]), atoi(a[1])
		r := stringutil.TruncateRune(s, n)
		if utf8.ValidString(s) && !strings.HasPrefix(s, r) {
			return "TruncateRune:well-formed-prefix"
		}
		if n <= 0 && r != "" {
			return "TruncateRune:non-positive-size-empty"
		}
	case "INS":
		s, l := unhx(a[0]), unhexList(a[1])
		in, co, ia, ic := stringutil.StringInSlice(s, l), stringutil.Contains(l, s), stringutil.InArray(s, l), stringutil.InArrayCaseSensitive(s, l)
		if in != co {
			return "StringInSlice:equals-Contains"
		}
		if in && !ic {
			return "InArrayCaseSensitive:member-implies"
		}
		if ic && !ia {
			return "InArray:case-sensitive-implies"
		}
		if stringutil.IsNotEmpty(s) != (s != "") {
			return "IsNotEmpty:definition"
		}
	case "NUL":
		if panicked {
			return "" // known: single terminator
		}
		b := vh.UnHex(a[0])
		r := stringutil.NullTermToStrings(b)
		for _, x := range r {
			if strings.Contains(x, "\x00") {
				return "NullTermToStrings:element-free-of-NUL"
			}
		}
		if len(r) > 0 && !strings.HasPrefix(string(b), strings.Join(r, "\x00")+"\x00") {
			return "NullTermToStrings:elements-are-the-prefix"
		}
	case "ESC":
		s := unhx(a[0])
		if !strings.Contains(s, `\`) && stringutil.EscapeSpace(s) != s {
			return "EscapeSpace:no-backslash-identity"
		}
	case "CAT":
		var w strings.Builder
		for _, it := range catItems(a[0]) {
			w.WriteString(fmt.Sprint(it))
		}
		if stringutil.Concat(catItems(a[0])...) != w.String() {
			return "Concat:concatenation-of-decimal-texts"
		}
	case "SAS":
		k := unhx(a[0])
		ksz, vsz := atoi(a[3]), atoi(a[4])
		want := stringutil.Truncate(k, ksz) + "="
		if a[1] != "!" {
			want += stringutil.Truncate(unhx(a[1]), vsz) + "\n"
		}
		if atoi(a[2]) < 0 { // idx(0) > maxCount: the loop is left before the first entry
			want = ""
		}
		if stringutil.ParseMapSASToString(sasMap(a[0], a[1]), atoi(a[2]), ksz, vsz) != want {
			return "ParseMapSASToString:one-entry-line"
		}
	case "UL":
		s := unhx(a[0])
		h := uuidutil.ToLong(s)
		if s == "" {
			if h != 0 {
				return "uuidutil.ToLong:empty-zero"
			}
		} else if h != 31*uuidutil.ToLong(s[:len(s)-1])+int64(s[len(s)-1]) {
			return "uuidutil.ToLong:horner-step"
		}
	case "TF":
		sb, tb := uint32(atoi(a[0])), uint32(atoi(a[1]))
		r := math.Float32bits(percentutil.TopFloat(math.Float32frombits(sb), math.Float32frombits(tb)))
		if r != sb && r != tb {
			return "percentutil.TopFloat:one-of-the-arguments"
		}
		src, top := math.Float32frombits(sb), math.Float32frombits(tb)
		if src == src && top == top && math.Float32frombits(r) > top {
			return "percentutil.TopFloat:not-above-top"
		}
	case "EX":
		n := 29
		for _, x := range a {
			n += len(unhx(x))
		}
		if len(unhx(c.impl)) != n {
			return "CustomException.Error:length"
		}
	case "AN":
		s := unhx(a[1])
		code := map[string]string{"red": "31", "yellow": "33", "green": "32", "cyan": "36", "blue": "34"}[a[0]]
		r := ansiFn(a[0])(s)
		if r != "\x1b["+code+"m"+s+"\x1b[0m" || len(r) != len(s)+9 {
			return "ansi:code-text-reset"
		}
	}
	return ""
}

// uuidutil.Generate: format of a version-4 UUID (not a model case: the result is random)
func uuidLaw(rep *vh.Report) {
	for i := 0; i < 200; i++ {
		var u string
		o := vh.Guard(func() { u = uuidutil.Generate() })
		rep.Count("uuid:generate")
		ok := o.OK() && len(u) == 36
		if ok {
			for j := 0; j < 36; j++ {
				ch := u[j]
				switch j {
				case 8, 13, 18, 23:
					ok = ok && ch == '-'
				default:
					ok = ok && (ch >= '0' && ch <= '9' || ch >= 'a' && ch <= 'f')
				}
			}
			ok = ok && u[14] == '4' && strings.IndexByte("89ab", u[19]) >= 0
		}
		if !ok {
			rep.Fail("property", "uuidutil.Generate:format", fmt.Sprintf("Generate() = %q is not a version-4 UUID text", u), map[string]string{"uuid": u})
		}
	}
}

// replayFindings replays the witnesses of the known findings on the implementation.
func replayFindings(rep *vh.Report) {
	panics := func(f func()) bool { return !vh.Guard(f).OK() }
	holds := func(f func() bool) bool {
		r := false
		o := vh.Guard(func() { r = f() })
		return o.OK() && r
	}
	rep.KnownReplay("CutLastString:multi-byte-delim-keeps-tail",
		holds(func() bool { return stringutil.CutLastString("a::b", "::") == ":b" }),
		`CutLastString("a::b","::") == ":b" (skips one byte, not len(delim))`)
	rep.KnownReplay("CutLastString:empty-delim-panics",
		panics(func() { stringutil.CutLastString("abc", "") }),
		`CutLastString("abc","") panics (slice [len+1:])`)
	rep.KnownReplay("ToPair:index-of-lowered-text",
		holds(func() bool {
			k, v := stringutil.ToPair("\xff=ab", "=")
			k2, v2 := stringutil.ToPair("\u212a=v", "=")
			return k == "\xff=a" && v == "" && k2 == "\xe2" && v2 == "\xaa=v"
		}),
		`ToPair("\xff=ab","=") = ("\xff=a",""), ToPair("K(U+212A)=v","=") = ("\xe2","\xaa=v"): the index is taken in strings.ToLower(s), whose byte length differs`)
	rep.KnownReplay("ToPair:panics-on-ill-formed-text",
		panics(func() { stringutil.ToPair("\xff\xff=", "=") }),
		`ToPair("\xff\xff=","=") panics (index of the lowered text beyond len(s))`)
	rep.KnownReplay("NullTermToStrings:single-terminator-panics",
		panics(func() { stringutil.NullTermToStrings([]byte("a\x00")) }),
		`NullTermToStrings([]byte("a\x00")) panics (b[0] of the empty rest)`)
	rep.KnownReplay("LPadInt:negative-sign-inside-padding",
		holds(func() bool { return stringutil.LPadInt(-5, 4) == "00-5" }),
		`LPadInt(-5,4) == "00-5"`)
	rep.KnownReplay("TruncateRune:counts-byte-offsets",
		holds(func() bool {
			return stringutil.TruncateRune("한글", 2) == "한" && stringutil.TruncateRune("한", 1) == "한"
		}),
		`TruncateRune("한글",2) == "한", TruncateRune("한",1) == "한" (3 bytes): sz is compared with byte offsets`)
	rep.KnownReplay("ParseMapSASToString:maxCount-ignored",
		holds(func() bool {
			m := map[string][]string{"a": {"1"}, "b": {"2"}, "c": {"3"}}
			return strings.Count(stringutil.ParseMapSASToString(m, 0, 10, 10), "\n") == 3
		}),
		`a 3-entry map with maxCount=0 yields 3 lines (idx is never incremented)`)
	rep.KnownReplay("SubstringN:unterminated-last-field-loses-all",
		holds(func() bool {
			a := stringutil.SubstringN("a=1;a=2;", "a=", ";", -1)
			b := stringutil.SubstringN("a=1;a=2", "a=", ";", -1)
			return len(a) == 2 && a[0] == "1" && a[1] == "2" && b == nil
		}),
		`SubstringN("a=1;a=2;","a=",";",-1) = [1 2] but SubstringN("a=1;a=2","a=",";",-1) = nil: the second round slices s[lastPos+pos:lastPos+len(s)], panics, and the recover drops the fields already found`)
	rep.KnownReplay("TrimAllSpace:rewrites-ill-formed-bytes",
		holds(func() bool { return stringutil.TrimAllSpace("\xff") == "\xef\xbf\xbd" }),
		`TrimAllSpace("\xff") == "\xef\xbf\xbd"`)
}

func loadReplay(path string) []*kase {
	raw, err := os.ReadFile(path)
	if err != nil {
		vh.Die("replay: %v", err)
	}
	var f struct {
		Cases []map[string]string `json:"cases"`
	}
	if err := json.Unmarshal(raw, &f); err != nil {
		vh.Die("replay: %v", err)
	}
	var cs []*kase
	for _, m := range f.Cases {
		if l := m["line"]; l != "" {
			cs = append(cs, &kase{line: l, nt: true})
		}
	}
	return cs
}
