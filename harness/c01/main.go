// Correspondence harness for C01: io.DataOutputX / io.DataInputX against the
// Lean CodeModel Golib.Prim.Ops (driver drv_c01).
//
// The model is the reference encoder of the format, so for this property a
// disagreement on bytes *is* a failure of the property ("byte for byte what an
// independent reference encoder emits"); in addition the round trip, exact
// consumption and Size() are evaluated directly on the implementation.
package main

import (
	"bytes"
	"fmt"
	stdio "io"
	"math"
	"net"
	"strconv"
	"strings"
	"sync"
	"sync/atomic"
	"time"

	gio "github.com/whatap/golib/io"
	"verif/harness/vh"
)

type op struct {
	kind string
	b    bool
	i    int64
	u    uint64
	bs   []byte
	is   []int64
	us   []uint64
	bss  [][]byte
	nilv bool     // hand nil instead of empty to the writer
	txt  []string // strings exactly as a read returned them (re-rendered late: a string built over reused memory would change)
}

var kinds = []string{"bool", "byte", "short", "ushort", "int3", "int", "long5", "long", "float", "double",
	"decimal", "blob", "text", "shortBytes", "intBytes", "textShort",
	"shortArr", "intArr", "longArr", "floatArr", "doubleArr", "textArr"}

func rangeOf(w uint) (int64, int64) {
	if w == 8 {
		return math.MinInt64, math.MaxInt64
	}
	hi := int64(1)<<(8*w-1) - 1
	return -hi - 1, hi
}

var bounds = vh.SignedBoundaries()

func clamp(v, lo, hi int64) int64 {
	// wrap into range the way a Go conversion of a wider constant would not: pick modulo span
	if v < lo || v > hi {
		span := uint64(hi-lo) + 1
		return lo + int64(uint64(v-lo)%span)
	}
	return v
}

func genInt(r *vh.Rng, w uint) int64 {
	lo, hi := rangeOf(w)
	if r.Chance(50) {
		return clamp(r.Pick64(bounds), lo, hi)
	}
	if r.Chance(30) { // small magnitude of random byte width
		k := uint(r.Intn(int(w))) + 1
		l, h := rangeOf(k)
		return r.Range(l, h)
	}
	return r.Range(lo, hi)
}

var floatBits = []uint64{0, 0x80000000, 0x7f800000, 0xff800000, 0x7fc00000, 0x7fc00001, 0xffc12345, 0x7f800001, 1, 0x007fffff, 0x3f800000, 0xffffffff}
var doubleBits = []uint64{0, 0x8000000000000000, 0x7ff0000000000000, 0xfff0000000000000, 0x7ff8000000000000, 0x7ff8000000000001, 0xfff8123456789abc, 0x7ff0000000000001, 1, 0x000fffffffffffff, 0x3ff0000000000000, 0xffffffffffffffff}

var streamBudget = 400 // programs also read back through a fragmented net.Pipe

var bigBudget = 24 // at most this many 1 MiB payloads per run (memory)

var blobLens = []int{0, 1, 2, 252, 253, 254, 255, 256, 300}
var blobLensBig = []int{65534, 65535, 65536, 65537}

func genBytes(r *vh.Rng, thorough bool, maxLen int) []byte {
	n := 0
	switch {
	case r.Chance(45):
		n = r.PickInt(blobLens)
	case r.Chance(4):
		n = r.PickInt(blobLensBig)
	case thorough && bigBudget > 0 && r.Chance(1):
		bigBudget--
		n = 1 << 20
	default:
		n = r.Intn(40)
	}
	if n > maxLen {
		n = maxLen
	}
	return r.Bytes(n)
}

func genLen(r *vh.Rng) int {
	switch {
	case r.Chance(30):
		return r.PickInt([]int{0, 1, 2, 255, 256})
	case r.Chance(1):
		return 32767
	default:
		return r.Intn(12)
	}
}

func genOp(r *vh.Rng, thorough bool) op {
	k := r.PickStr(kinds)
	o := op{kind: k}
	switch k {
	case "bool":
		o.b = r.Bool()
	case "byte":
		o.u = uint64(r.Intn(256))
	case "short":
		o.i = genInt(r, 2)
	case "ushort":
		o.u = uint64(uint16(genInt(r, 2)))
	case "int3":
		o.i = genInt(r, 3)
	case "int":
		o.i = genInt(r, 4)
	case "long5":
		o.i = genInt(r, 5)
	case "long", "decimal":
		o.i = genInt(r, 8)
	case "float":
		if r.Chance(40) {
			o.u = floatBits[r.Intn(len(floatBits))]
		} else {
			o.u = r.U64() & 0xffffffff
		}
	case "double":
		if r.Chance(40) {
			o.u = doubleBits[r.Intn(len(doubleBits))]
		} else {
			o.u = r.U64()
		}
	case "blob", "text", "intBytes":
		o.bs = genBytes(r, thorough, 1<<21)
		o.nilv = len(o.bs) == 0 && r.Bool()
	case "shortBytes", "textShort":
		o.bs = genBytes(r, thorough, 65535)
		o.nilv = len(o.bs) == 0 && r.Bool()
	case "shortArr", "intArr", "longArr":
		w := map[string]uint{"shortArr": 2, "intArr": 4, "longArr": 8}[k]
		n := genLen(r)
		o.is = make([]int64, n)
		for i := range o.is {
			o.is[i] = genInt(r, w)
		}
		o.nilv = n == 0 && r.Bool()
	case "floatArr", "doubleArr":
		n := genLen(r)
		o.us = make([]uint64, n)
		for i := range o.us {
			if k == "floatArr" {
				o.us[i] = r.U64() & 0xffffffff
			} else {
				o.us[i] = r.U64()
			}
		}
		o.nilv = n == 0 && r.Bool()
	case "textArr":
		n := genLen(r)
		if n > 300 {
			n = 300
		}
		o.bss = make([][]byte, n)
		for i := range o.bss {
			o.bss[i] = genBytes(r, false, 400)
		}
		o.nilv = n == 0 && r.Bool()
	}
	return o
}

func ints(xs []int64) string {
	s := make([]string, len(xs))
	for i, x := range xs {
		s[i] = strconv.FormatInt(x, 10)
	}
	return vh.List(s)
}
func uints(xs []uint64) string {
	s := make([]string, len(xs))
	for i, x := range xs {
		s[i] = strconv.FormatUint(x, 10)
	}
	return vh.List(s)
}
func hexes(xs [][]byte) string {
	s := make([]string, len(xs))
	for i, x := range xs {
		s[i] = vh.Hex(x)
		if len(x) == 0 {
			s[i] = "z" // a lone "-" is the empty list
		}
	}
	return vh.List(s)
}

func (o op) String() string {
	switch o.kind {
	case "bool":
		if o.b {
			return "bool:1"
		}
		return "bool:0"
	case "byte", "ushort", "float", "double":
		return o.kind + ":" + strconv.FormatUint(o.u, 10)
	case "short", "int3", "int", "long5", "long", "decimal":
		return o.kind + ":" + strconv.FormatInt(o.i, 10)
	case "blob", "text", "shortBytes", "intBytes", "textShort":
		return o.kind + ":" + vh.Hex(o.bs)
	case "shortArr", "intArr", "longArr":
		return o.kind + ":" + ints(o.is)
	case "floatArr", "doubleArr":
		return o.kind + ":" + uints(o.us)
	case "textArr":
		return o.kind + ":" + hexes(o.bss)
	}
	return "?"
}

func write(out *gio.DataOutputX, o op) {
	switch o.kind {
	case "bool":
		out.WriteBool(o.b)
	case "byte":
		out.WriteByte(byte(o.u))
	case "short":
		out.WriteShort(int16(o.i))
	case "ushort":
		out.WriteUShort(uint16(o.u))
	case "int3":
		out.WriteInt3(int32(o.i))
	case "int":
		out.WriteInt(int32(o.i))
	case "long5":
		out.WriteLong5(o.i)
	case "long":
		out.WriteLong(o.i)
	case "float":
		out.WriteFloat(math.Float32frombits(uint32(o.u)))
	case "double":
		out.WriteDouble(math.Float64frombits(o.u))
	case "decimal":
		out.WriteDecimal(o.i)
	case "blob":
		if o.nilv {
			out.WriteBlob(nil)
		} else {
			out.WriteBlob(o.bs)
		}
	case "text":
		out.WriteText(string(o.bs))
	case "shortBytes":
		if o.nilv {
			out.WriteShortBytes(nil)
		} else {
			out.WriteShortBytes(o.bs)
		}
	case "intBytes":
		if o.nilv {
			out.WriteIntBytes(nil)
		} else {
			out.WriteIntBytes(o.bs)
		}
	case "textShort":
		out.WriteTextShortLength(string(o.bs))
	case "shortArr":
		if o.nilv {
			out.WriteShortArray(nil)
			return
		}
		v := make([]int16, len(o.is))
		for i, x := range o.is {
			v[i] = int16(x)
		}
		out.WriteShortArray(v)
	case "intArr":
		if o.nilv {
			out.WriteIntArray(nil)
			return
		}
		v := make([]int32, len(o.is))
		for i, x := range o.is {
			v[i] = int32(x)
		}
		out.WriteIntArray(v)
	case "longArr":
		if o.nilv {
			out.WriteLongArray(nil)
			return
		}
		out.WriteLongArray(append([]int64{}, o.is...))
	case "floatArr":
		if o.nilv {
			out.WriteFloatArray(nil)
			return
		}
		v := make([]float32, len(o.us))
		for i, x := range o.us {
			v[i] = math.Float32frombits(uint32(x))
		}
		out.WriteFloatArray(v)
	case "doubleArr":
		if o.nilv {
			out.WriteDoubleArray(nil)
			return
		}
		v := make([]float64, len(o.us))
		for i, x := range o.us {
			v[i] = math.Float64frombits(x)
		}
		out.WriteDoubleArray(v)
	case "textArr":
		if o.nilv {
			out.WriteTextArray(nil)
			return
		}
		v := make([]string, len(o.bss))
		for i, x := range o.bss {
			v[i] = string(x)
		}
		out.WriteTextArray(v)
	}
}

// read performs the read matching kind and renders the value in op syntax.
func read(in *gio.DataInputX, kind string) string { return readRaw(in, kind).String() }

// readRaw performs the read matching kind and keeps the value exactly as the implementation
// returned it (byte slices are NOT copied), so that a result which is overwritten by a later read
// (a reader handing out its own scratch memory) shows when the results are rendered at the end.
func readRaw(in *gio.DataInputX, kind string) op {
	o := op{kind: kind}
	switch kind {
	case "bool":
		o.b = in.ReadBool()
	case "byte":
		o.u = uint64(in.ReadByte())
	case "short":
		o.i = int64(in.ReadShort())
	case "ushort":
		o.u = uint64(in.ReadUShort())
	case "int3":
		o.i = int64(in.ReadInt3())
	case "int":
		o.i = int64(in.ReadInt())
	case "long5":
		o.i = in.ReadLong5()
	case "long":
		o.i = in.ReadLong()
	case "float":
		o.u = uint64(math.Float32bits(in.ReadFloat()))
	case "double":
		o.u = math.Float64bits(in.ReadDouble())
	case "decimal":
		o.i = in.ReadDecimal()
	case "blob":
		o.bs = in.ReadBlob()
	case "text":
		o.txt = []string{in.ReadText()}
		o.bs = []byte(o.txt[0])
	case "shortBytes":
		o.bs = in.ReadShortBytes()
	case "intBytes":
		o.bs = in.ReadIntBytes()
	case "textShort":
		o.txt = []string{in.ReadTextShortLength()}
		o.bs = []byte(o.txt[0])
	case "shortArr":
		for _, x := range in.ReadShortArray() {
			o.is = append(o.is, int64(x))
		}
	case "intArr":
		for _, x := range in.ReadIntArray() {
			o.is = append(o.is, int64(x))
		}
	case "longArr":
		o.is = in.ReadLongArray()
	case "floatArr":
		for _, x := range in.ReadFloatArray() {
			o.us = append(o.us, uint64(math.Float32bits(x)))
		}
	case "doubleArr":
		for _, x := range in.ReadDoubleArray() {
			o.us = append(o.us, math.Float64bits(x))
		}
	case "textArr":
		o.txt = in.ReadTextArray()
		for _, x := range o.txt {
			o.bss = append(o.bss, []byte(x))
		}
	}
	return o
}

// renderLate renders the results of a whole program of reads after the last read; when a result
// changed between the moment it was returned and the end of the program, the slot reads
// "overwritten(<first>-><last>)" and so never equals what was written.
func renderLate(raw []op, early []string) string {
	ss := make([]string, len(raw))
	for i, o := range raw {
		if o.kind == "textArr" && o.txt != nil {
			o.bss = nil
			for _, x := range o.txt {
				o.bss = append(o.bss, []byte(x))
			}
		} else if len(o.txt) == 1 {
			o.bs = []byte(o.txt[0])
		}
		ss[i] = o.String()
		if ss[i] != early[i] {
			ss[i] = "overwritten(" + early[i] + "->" + ss[i] + ")"
		}
	}
	if len(raw) == 0 {
		return "-"
	}
	return strings.Join(ss, ";")
}

type prog struct {
	ops   []op
	line  string // op;op;…
	bytes []byte
	size  int
}

func runWrite(ops []op) (p prog) {
	p.ops = ops
	out := gio.NewDataOutputX()
	ss := make([]string, len(ops))
	for i, o := range ops {
		write(out, o)
		ss[i] = o.String()
	}
	p.line = strings.Join(ss, ";")
	if len(ops) == 0 {
		p.line = "-"
	}
	p.bytes = append([]byte{}, out.ToByteArray()...)
	p.size = out.Size()
	return
}

// readBack decodes with the reads matching ops; returns "ok v;v;… rest" or "fail".
func readBack(ops []op, data []byte) string {
	var res string
	o := vh.Guard(func() {
		in := gio.NewDataInputX(data)
		raw := make([]op, len(ops))
		early := make([]string, len(ops))
		for i, x := range ops {
			raw[i] = readRaw(in, x.kind)
			early[i] = raw[i].String()
		}
		res = fmt.Sprintf("ok %s %d", renderLate(raw, early), in.Available())
	})
	if !o.OK() {
		return "fail"
	}
	return res
}

// fragmentsOf cuts data into the fragments a connection will deliver: sizes 1..maxFrag, now and
// then a fragment of 0 bytes (a Read that returns 0, nil — allowed by io.Reader).
func fragmentsOf(data []byte, rng *vh.Rng) [][]byte {
	maxFrag := rng.PickInt([]int{1, 2, 3, 7, 64, 4096})
	zeros := rng.Chance(30)
	var frags [][]byte
	for off := 0; off < len(data); {
		if zeros && rng.Chance(10) {
			frags = append(frags, []byte{})
		}
		n := 1 + rng.Intn(maxFrag)
		if off+n > len(data) {
			n = len(data) - off
		}
		frags = append(frags, data[off:off+n])
		off += n
	}
	return frags
}

// fragLine renders fragments for the driver's RS line (`z` = empty fragment).
func fragLine(frags [][]byte) string {
	if len(frags) == 0 {
		return "-"
	}
	ss := make([]string, len(frags))
	for i, f := range frags {
		if len(f) == 0 {
			ss[i] = "z"
		} else {
			ss[i] = vh.Hex(f)
		}
	}
	return strings.Join(ss, ",")
}

// readBackStream decodes through the connection-backed input (NewDataInputNet) while the bytes
// arrive in the given fragments; a field may be split over any number of fragments.  `tail` is what
// the peer sends right behind the program's bytes (the next message): after the program has been
// read it must still be on the connection, byte for byte, for whoever reads the connection next —
// "consuming exactly those bytes" on the stream path.
func readBackStream(ops []op, frags [][]byte, tail, expectLeft []byte) string {
	c1, c2 := net.Pipe()
	go func() {
		defer c1.Close()
		for _, f := range frags {
			if _, err := c1.Write(f); err != nil {
				return
			}
		}
		if len(tail) > 0 {
			c1.Write(tail)
		}
	}()
	defer c2.Close()
	var res string
	o := vh.GuardTimeout(120*time.Second, func() {
		in := gio.NewDataInputNet(c2)
		raw := make([]op, len(ops))
		early := make([]string, len(ops))
		for i, x := range ops {
			raw[i] = readRaw(in, x.kind)
			early[i] = raw[i].String()
		}
		rest := "0"
		if len(expectLeft) > 0 {
			got := make([]byte, len(expectLeft))
			c2.SetReadDeadline(time.Now().Add(30 * time.Second))
			n, err := stdio.ReadFull(c2, got)
			if err != nil || !bytes.Equal(got, expectLeft) {
				rest = fmt.Sprintf("next-message-damaged(%d of %d bytes left on the connection: %s)", n, len(expectLeft), vh.Hex(got[:n]))
			}
		}
		res = fmt.Sprintf("ok %s %s", renderLate(raw, early), rest)
	})
	if !o.OK() {
		return "fail:" + o.String()
	}
	return res
}

func main() {
	env, rep := vh.Parse("C01")
	rng := vh.NewRng(env.Seed)
	rep.Rule = "random programs of 1..N mixed write ops (50% boundary values) + exhaustive 16-bit sweeps + threshold tables; " +
		"non-trivial = a program whose encoding is longer than one byte; distinct = distinct op lines"

	nprog, maxlen := 600, 40
	if env.Thorough {
		nprog, maxlen = 8000, 300
	}

	var lines []string
	type expect struct {
		want string // what the implementation produced
		key  string
		desc string
		kind string // "property" (the model is the reference encoder/decoder of the format) | "correspondence"
	}
	var exps []expect
	add := func(line, want, key, desc string) {
		lines = append(lines, line)
		exps = append(exps, expect{want, key, desc, "property"})
	}
	// addC: a disagreement on this line is a disagreement between model and code on an input about
	// which the property text itself is silent (malformed input); the property is evaluated directly
	// on the implementation by every other stage of the run
	addC := func(line, want, key, desc string) {
		lines = append(lines, line)
		exps = append(exps, expect{want, key, desc, "correspondence"})
	}

	totalLines := 0
	flush := func() {
		if len(lines) == 0 {
			return
		}
		totalLines += len(lines)
		outs, err := vh.RunDriver(env.Driver, lines)
		if err != nil {
			vh.Die("%v", err)
		}
		// a disagreeing multi-op program is localised: each of its ops is re-run alone
		var lines2 []string
		var exps2 []expect
		for i, got := range outs {
			e := exps[i]
			if got == e.want {
				continue
			}
			if strings.HasSuffix(e.key, ":program") && strings.HasPrefix(lines[i], "W ") {
				for _, one := range strings.Split(e.desc, ";") {
					o1 := parseOp(one)
					p := runWrite([]op{o1})
					lines2 = append(lines2, "W "+p.line)
					exps2 = append(exps2, expect{fmt.Sprintf("%s %d", vh.Hex(p.bytes), p.size), "encode:" + o1.kind, p.line, "property"})
				}
				continue
			}
			rep.Fail(e.kind, e.key, "implementation differs from the reference model",
				map[string]interface{}{"line": vh.Clip(lines[i], 4000), "implementation": vh.Clip(e.want, 4000), "model": vh.Clip(got, 4000)})
		}
		if len(lines2) > 0 {
			outs2, err := vh.RunDriver(env.Driver, lines2)
			if err != nil {
				vh.Die("%v", err)
			}
			for i, got := range outs2 {
				if got != exps2[i].want {
					rep.Fail("property", exps2[i].key, "implementation differs from the reference model",
						map[string]interface{}{"line": vh.Clip(lines2[i], 4000), "implementation": vh.Clip(exps2[i].want, 4000), "model": vh.Clip(got, 4000)})
				}
			}
		}
		lines, exps = nil, nil
	}
	tailBroken := false
	checkProg := func(ops []op, tag string) {
		var p prog
		oc := vh.Guard(func() { p = runWrite(ops) })
		if !oc.OK() {
			rep.Fail("property", "write-panic:"+tag, "writer panicked: "+oc.Panic, map[string]interface{}{"ops": fmt.Sprint(ops)})
			return
		}
		rep.Case(p.line, len(p.bytes) > 1)
		rep.Count("prog:" + tag)
		for _, o := range ops {
			rep.Count("op:" + o.kind)
		}
		if rep.Evaluations < 6 {
			rep.Sample(map[string]interface{}{"ops": vh.Clip(p.line, 300), "bytes": vh.Clip(vh.Hex(p.bytes), 120), "size": p.size})
		}
		// direct evaluation of the property on the implementation
		if p.size != len(p.bytes) {
			rep.Fail("property", "size:"+kindsOf(ops), fmt.Sprintf("Size()=%d but %d bytes produced", p.size, len(p.bytes)),
				map[string]interface{}{"ops": p.line})
		}
		back := readBack(ops, p.bytes)
		want := fmt.Sprintf("ok %s 0", p.line)
		if back != want {
			rep.Fail("property", "roundtrip:"+firstDiffKind(ops, back, want), "read back differs from what was written",
				map[string]interface{}{"ops": p.line, "bytes": vh.Hex(p.bytes), "read": vh.Clip(back, 2000)})
		}
		// the same bytes delivered through a connection in fragments (stream input path)
		if len(p.bytes) > 0 && len(p.bytes) < 200000 && streamBudget > 0 && (tag != "random" || rng.Chance(25)) {
			streamBudget--
			rep.Count("stream-read")
			frags := fragmentsOf(p.bytes, rng)
			var tail, tailAll []byte
			if rng.Chance(50) && !tailBroken {
				tailAll = rng.Bytes(1 + rng.Intn(40))
				tail = tailAll
				if rng.Chance(50) { // the next message arrives in the same fragment as the end of this one
					k := 1 + rng.Intn(len(tail))
					last := append(append([]byte{}, frags[len(frags)-1]...), tail[:k]...)
					tail = tail[k:]
					frags = append(append([][]byte{}, frags[:len(frags)-1]...), last)
				}
			}
			sb := readBackStream(ops, frags, tail, tailAll)
			if sb != want {
				key := "stream-roundtrip:" + firstDiffKind(ops, sb, want)
				if strings.Contains(sb, "next-message-damaged") {
					key = "stream-consumes-beyond-the-program"
					tailBroken = true // established once; every further probe would wait for its deadline
				}
				if strings.HasPrefix(sb, "fail:timeout") {
					streamBudget = 0 // a hanging stream read is established once
				}
				rep.Fail("property", key, "read back over a fragmented connection differs from what was written, or took bytes of the next message",
					map[string]interface{}{"ops": vh.Clip(p.line, 2000), "bytes": vh.Clip(vh.Hex(p.bytes), 2000), "fragments": vh.Clip(fragLine(frags), 2000), "tail": vh.Hex(tail), "read": vh.Clip(sb, 2000)})
			}
			// the model's connection-backed decoder (P.runC over the same fragments)
			if len(p.bytes) < 20000 {
				rep.Count("stream-model")
				mfrags, msb := frags, sb
				if len(tail) > 0 {
					mfrags = append(append([][]byte{}, frags...), tail)
				}
				if strings.HasSuffix(sb, " 0") { // the model reports what is still to arrive
					msb = strings.TrimSuffix(sb, " 0") + fmt.Sprintf(" %d", len(tailAll))
				}
				add("RS "+p.line+" "+fragLine(mfrags), msb, "stream-decode:"+kindsOf(ops), p.line)
			}
		}
		// the model as reference encoder and reference decoder
		add("W "+p.line, fmt.Sprintf("%s %d", vh.Hex(p.bytes), p.size), "encode:"+kindsOf(ops), p.line)
		// decode with 0..3 trailing bytes to observe exact consumption
		extra := rng.Bytes(rng.Intn(3))
		data := append(append([]byte{}, p.bytes...), extra...)
		add("R "+p.line+" "+vh.Hex(data), readBack(ops, data), "decode:"+kindsOf(ops), p.line)
	}

	// 1. random programs
	for i := 0; i < nprog; i++ {
		n := 1 + rng.Intn(maxlen)
		if rng.Chance(30) {
			n = 1 + rng.Intn(3)
		}
		ops := make([]op, n)
		for j := range ops {
			ops[j] = genOp(rng, env.Thorough)
		}
		checkProg(ops, "random")
		if len(lines) >= 4000 {
			flush()
		}
	}
	// 2. every boundary of every integer class through every integer op
	for _, v := range bounds {
		for _, k := range []struct {
			kind string
			w    uint
		}{{"short", 2}, {"int3", 3}, {"int", 4}, {"long5", 5}, {"long", 8}, {"decimal", 8}} {
			lo, hi := rangeOf(k.w)
			if v < lo || v > hi {
				continue
			}
			checkProg([]op{{kind: k.kind, i: v}}, "boundary")
		}
	}
	// 3. blob / text / length-prefixed thresholds
	for _, n := range append(append([]int{}, blobLens...), blobLensBig...) {
		for _, k := range []string{"blob", "text", "intBytes", "shortBytes", "textShort"} {
			if n > 65535 && (k == "shortBytes" || k == "textShort") {
				continue
			}
			checkProg([]op{{kind: k, bs: rng.Bytes(n)}}, "threshold")
		}
	}
	// nil and empty are the same value on the wire
	for _, k := range []string{"blob", "shortBytes", "intBytes", "shortArr", "intArr", "longArr", "floatArr", "doubleArr", "textArr"} {
		a := runWrite([]op{{kind: k, nilv: true}})
		b := runWrite([]op{{kind: k, bs: []byte{}, is: []int64{}, us: []uint64{}, bss: [][]byte{}}})
		rep.Case("nil-vs-empty:"+k, true)
		if vh.Hex(a.bytes) != vh.Hex(b.bytes) {
			rep.Fail("property", "nil-vs-empty:"+k, "nil and empty encode differently", map[string]interface{}{"kind": k, "nil": vh.Hex(a.bytes), "empty": vh.Hex(b.bytes)})
		}
		checkProg([]op{{kind: k, nilv: true}}, "nil")
	}
	// 4. arrays at the count limit, and one element beyond (reader must reject)
	for _, k := range []string{"shortArr", "longArr"} {
		mk := func(n int) op { return op{kind: k, is: make([]int64, n)} }
		checkProg([]op{mk(32767)}, "arr-max")
		p := runWrite([]op{mk(32768)})
		rep.Case("arr-over:"+k, true)
		add("R "+k+":- "+vh.Hex(p.bytes), readBack([]op{{kind: k}}, p.bytes), "decode-overlong:"+k, k+" of 32768 elements")
	}
	// 5. exhaustive 16-bit sweeps (short, ushort, decimal around the 1/2-byte classes) through the driver
	step := 1
	if !env.Thorough {
		step = 1
	}
	for v := -32768; v <= 32767; v += step {
		ops := []op{{kind: "short", i: int64(v)}, {kind: "ushort", u: uint64(uint16(v))}, {kind: "decimal", i: int64(v)}}
		p := runWrite(ops)
		rep.Case(p.line, true)
		rep.Count("prog:sweep16")
		back := readBack(ops, p.bytes)
		if back != fmt.Sprintf("ok %s 0", p.line) {
			rep.Fail("property", "roundtrip:sweep16", "16-bit sweep read back differs", map[string]interface{}{"ops": p.line, "read": back})
		}
		add("W "+p.line, fmt.Sprintf("%s %d", vh.Hex(p.bytes), p.size), "encode:sweep16", p.line)
	}
	// 6. little-endian helpers: all 2^16 two-byte inputs; sampled 4/8-byte inputs
	le := func(b []byte) {
		var want string
		switch len(b) {
		case 2:
			add("LS 2 "+vh.Hex(b), fmt.Sprint(gio.ToShortLittle(b, 0)), "little:ToShortLittle", vh.Hex(b))
			add("LU 2 "+vh.Hex(b), fmt.Sprint(gio.ToUshortLittle(b, 0)), "little:ToUshortLittle", vh.Hex(b))
			in := gio.NewDataInputX(b)
			add("LS 2 "+vh.Hex(b), fmt.Sprint(in.ReadShortLittle()), "little:ReadShortLittle", vh.Hex(b))
			in = gio.NewDataInputX(b)
			add("LU 2 "+vh.Hex(b), fmt.Sprint(in.ReadUnsignedShortLittle()), "little:ReadUnsignedShortLittle", vh.Hex(b))
		case 4:
			add("LS 4 "+vh.Hex(b), fmt.Sprint(gio.ToIntLittle(b, 0)), "little:ToIntLittle", vh.Hex(b))
			add("LU 4 "+vh.Hex(b), fmt.Sprint(gio.ToUintLittle(b, 0)), "little:ToUintLittle", vh.Hex(b))
			in := gio.NewDataInputX(b)
			add("LS 4 "+vh.Hex(b), fmt.Sprint(in.ReadIntLittle()), "little:ReadIntLittle", vh.Hex(b))
			in = gio.NewDataInputX(b)
			add("LU 4 "+vh.Hex(b), fmt.Sprint(in.ReadUintLittle()), "little:ReadUintLittle", vh.Hex(b))
		case 8:
			add("LS 8 "+vh.Hex(b), fmt.Sprint(gio.ToLongLittle(b, 0)), "little:ToLongLittle", vh.Hex(b))
			add("LU 8 "+vh.Hex(b), fmt.Sprint(gio.ToUlongLittle(b, 0)), "little:ToUlongLittle", vh.Hex(b))
		}
		_ = want
		rep.Case("le:"+vh.Hex(b), true)
		rep.Count("le")
	}
	for v := 0; v < 65536; v++ {
		if !env.Thorough && v%7 != 0 && v > 1024 && v < 64512 {
			continue
		}
		le([]byte{byte(v >> 8), byte(v)})
	}
	nle := 2000
	if env.Thorough {
		nle = 200000
	}
	for i := 0; i < nle; i++ {
		b := rng.Bytes(4)
		if rng.Chance(20) {
			b = []byte{byte(rng.PickInt([]int{0, 0x7f, 0x80, 0xff})), byte(rng.Intn(256)), byte(rng.PickInt([]int{0, 0xff})), byte(rng.PickInt([]int{0, 0x7f, 0x80, 0xff}))}
		}
		le(b)
		c := rng.Bytes(8)
		if rng.Chance(20) {
			c[0] = byte(rng.PickInt([]int{0, 0x7f, 0x80, 0xff}))
			c[7] = byte(rng.PickInt([]int{0, 0x7f, 0x80, 0xff}))
		}
		le(c)
	}
	// 6b. the rest of the stream API: headers, two-step decimal, unsigned reads, limited int-bytes, decimal arrays
	nextra := 300
	if env.Thorough {
		nextra = 6000
	}
	for i := 0; i < nextra; i++ {
		// WriteHeader / WriteOneWayHeader / WriteSecureHeader over a random program
		n := rng.Intn(6)
		ops := make([]op, n)
		for j := range ops {
			ops[j] = genOp(rng, false)
		}
		src, ver := byte(rng.Intn(256)), byte(rng.Intn(256))
		pcode, lic := genInt(rng, 8), genInt(rng, 8)
		oid, key := genInt(rng, 4), genInt(rng, 4)
		mk := func() (*gio.DataOutputX, string) {
			out := gio.NewDataOutputX()
			ss := make([]string, len(ops))
			for j, o := range ops {
				write(out, o)
				ss[j] = o.String()
			}
			l := strings.Join(ss, ";")
			if len(ops) == 0 {
				l = "-"
			}
			return out, l
		}
		out, l := mk()
		which := rng.Intn(3)
		switch which {
		case 0:
			out.WriteHeader(src, ver, pcode, lic)
		case 1:
			out.WriteOneWayHeader(src, ver, pcode, lic)
		}
		if which < 2 {
			add(fmt.Sprintf("H %d %d %d %d %s", src, ver, pcode, lic, l), fmt.Sprintf("%s %d", vh.Hex(out.ToByteArray()), out.Size()),
				[]string{"header:WriteHeader", "header:WriteOneWayHeader"}[which], l)
		} else {
			out.WriteSecureHeader(src, ver, pcode, int32(oid), int32(key))
			add(fmt.Sprintf("HS %d %d %d %d %d %s", src, ver, pcode, oid, key, l), fmt.Sprintf("%s %d", vh.Hex(out.ToByteArray()), out.Size()),
				"header:WriteSecureHeader", l)
		}
		if out.Size() != len(out.ToByteArray()) {
			rep.Fail("property", "size:after-header", fmt.Sprintf("Size()=%d but %d bytes in the buffer after a header was written", out.Size(), len(out.ToByteArray())),
				map[string]interface{}{"ops": l, "which": which})
		}
		rep.Case(fmt.Sprintf("header:%d:%s", which, l), true)
		rep.Count("extra:header")

		// Write(b, off, sz): a window of a slice after a program
		{
			wout, wl := mk()
			wb := rng.Bytes(rng.Intn(40))
			woff := rng.Intn(len(wb) + 1)
			wsz := rng.Intn(len(wb) - woff + 1)
			oc := vh.Guard(func() { wout.Write(wb, woff, wsz) })
			got := "panic"
			if oc.OK() {
				got = fmt.Sprintf("%s %d", vh.Hex(wout.ToByteArray()), wout.Size())
			}
			add(fmt.Sprintf("WW %s %s %d %d", wl, vh.Hex(wb), woff, wsz), got, "write:Write(b,off,sz)", fmt.Sprintf("off=%d sz=%d len=%d", woff, wsz, len(wb)))
		}

		// ReadByte + ReadDecimalLen
		v := genInt(rng, 8)
		d := gio.NewDataOutputX().WriteDecimal(v).ToByteArray()
		extra := rng.Bytes(rng.Intn(3))
		data := append(append([]byte{}, d...), extra...)
		got := "fail"
		if o := vh.Guard(func() {
			in := gio.NewDataInputX(data)
			b := in.ReadByte()
			x := in.ReadDecimalLen(int(b))
			got = fmt.Sprintf("%d %d", x, in.Available())
		}); !o.OK() {
			got = "fail"
		}
		add("DL "+vh.Hex(data), got, "read:ReadDecimalLen", fmt.Sprint(v))

		// unsigned reads of signed writes
		iv := genInt(rng, 4)
		b4 := append(gio.NewDataOutputX().WriteInt(int32(iv)).ToByteArray(), extra...)
		add("U 4 "+vh.Hex(b4), fmt.Sprintf("%d %d", gio.NewDataInputX(b4).ReadUnsignedInt(), len(extra)), "read:ReadUnsignedInt", fmt.Sprint(iv))
		sv := genInt(rng, 2)
		b2 := append(gio.NewDataOutputX().WriteShort(int16(sv)).ToByteArray(), extra...)
		add("U 2 "+vh.Hex(b2), fmt.Sprintf("%d %d", gio.NewDataInputX(b2).ReadUnsignedShort(), len(extra)), "read:ReadUnsignedShort", fmt.Sprint(sv))

		// ReadIntBytesLimit
		pl := genBytes(rng, false, 2000)
		ib := append(gio.NewDataOutputX().WriteIntBytes(pl).ToByteArray(), extra...)
		mx := rng.PickInt([]int{0, len(pl) - 1, len(pl), len(pl) + 1, 1 << 20})
		if mx < 0 {
			mx = 0
		}
		got = "fail"
		vh.Guard(func() {
			in := gio.NewDataInputX(ib)
			x := in.ReadIntBytesLimit(mx)
			got = fmt.Sprintf("%s %d", vh.Hex(x), in.Available())
		})
		add(fmt.Sprintf("BL %d %s", mx, vh.Hex(ib)), got, "read:ReadIntBytesLimit", fmt.Sprintf("len=%d max=%d", len(pl), mx))

		// decimal arrays (written as a decimal count followed by decimals)
		na := genLen(rng)
		if na > 400 {
			na = 400
		}
		xs := make([]int64, na)
		wide := rng.Chance(50)
		for j := range xs {
			if wide {
				xs[j] = genInt(rng, 8)
			} else {
				xs[j] = genInt(rng, 4)
			}
		}
		ao := gio.NewDataOutputX()
		ao.WriteDecimal(int64(len(xs)))
		for _, x := range xs {
			ao.WriteDecimal(x)
		}
		ab := append([]byte{}, ao.ToByteArray()...)
		add("WDA "+ints(xs), vh.Hex(ab), "encode:decimal-array", ints(xs))
		abx := append(append([]byte{}, ab...), extra...)
		got = "fail"
		vh.Guard(func() {
			in := gio.NewDataInputX(abx)
			x := in.ReadDecimalArray()
			got = fmt.Sprintf("%s %d", ints(x), in.Available())
		})
		add("DA "+vh.Hex(abx), got, "read:ReadDecimalArray", ints(xs))
		got = "fail"
		vh.Guard(func() {
			in := gio.NewDataInputX(abx)
			x := in.ReadDecimalArrayInt()
			y := make([]int64, len(x))
			for j := range x {
				y[j] = int64(x[j])
			}
			got = fmt.Sprintf("%s %d", ints(y), in.Available())
		})
		add("DI "+vh.Hex(abx), got, "read:ReadDecimalArrayInt", ints(xs))
		rep.Count("extra:reads")
		if len(lines) >= 4000 {
			flush()
		}
	}
	// 7. thorough: every 24-bit and a stride of 32-bit patterns, implementation round trip vs arithmetic mirror
	if env.Thorough {
		bad := 0
		for v := -8388608; v <= 8388607 && bad < 3; v++ {
			b := gio.ToBytesInt3(int32(v))
			u := uint32(v) & 0xffffff
			if b[0] != byte(u>>16) || b[1] != byte(u>>8) || b[2] != byte(u) || gio.ToInt3(b, 0) != int32(v) {
				bad++
				rep.Fail("property", "roundtrip:int3-sweep", "24-bit pattern mis-coded", map[string]interface{}{"value": v, "bytes": vh.Hex(b)})
			}
		}
		rep.CountN("sweep24", 1<<24)
		rep.Evaluations += 1 << 24
		// all 2^32 patterns, split over 16 goroutines
		type badCase struct {
			v int32
			b []byte
		}
		badCh := make(chan badCase, 64)
		var wg sync.WaitGroup
		const parts = 16
		for p := uint64(0); p < parts; p++ {
			wg.Add(1)
			go func(p uint64) {
				defer wg.Done()
				nbad := 0
				for x := p << 28; x < (p+1)<<28 && nbad < 3; x++ {
					v := int32(uint32(x))
					b := gio.ToBytesInt(v)
					if b[0] != byte(x>>24) || b[1] != byte(x>>16) || b[2] != byte(x>>8) || b[3] != byte(x) || gio.ToInt(b, 0) != v ||
						math.Float32bits(gio.ToFloat(gio.ToBytesFloat(math.Float32frombits(uint32(x))), 0)) != uint32(x) {
						nbad++
						badCh <- badCase{v, b}
					}
				}
			}(p)
		}
		go func() { wg.Wait(); close(badCh) }()
		for bc := range badCh {
			rep.Fail("property", "roundtrip:int-sweep", "32-bit pattern mis-coded", map[string]interface{}{"value": bc.v, "bytes": vh.Hex(bc.b)})
		}
		rep.CountN("sweep32", 1<<32)
		rep.Evaluations += 1 << 32
	}

	// 10. the exported helpers at any offset.  Every reader helper takes (buf, pos) and every packing
	// helper (buf, off, v); the stream methods only ever pass 0, callers elsewhere (packs, the UDP and
	// TCP headers) do not.  A field embedded at offset p must read as the same field at offset 0 (which
	// the model ties), and a setter must write exactly its w bytes at `off` — the bytes ToBytesX gives —
	// and leave every other byte of the buffer alone.
	{
		type rd struct {
			name string
			w    int
			f    func(b []byte, pos int) string
		}
		readers := []rd{
			{"ToBool", 1, func(b []byte, p int) string { return fmt.Sprint(gio.ToBool(b, p)) }},
			{"ToShort", 2, func(b []byte, p int) string { return fmt.Sprint(gio.ToShort(b, p)) }},
			{"ToUShort", 2, func(b []byte, p int) string { return fmt.Sprint(gio.ToUShort(b, p)) }},
			{"ToUshort", 2, func(b []byte, p int) string { return fmt.Sprint(gio.ToUshort(b, p)) }},
			{"ToShortLittle", 2, func(b []byte, p int) string { return fmt.Sprint(gio.ToShortLittle(b, p)) }},
			{"ToUshortLittle", 2, func(b []byte, p int) string { return fmt.Sprint(gio.ToUshortLittle(b, p)) }},
			{"ToInt3", 3, func(b []byte, p int) string { return fmt.Sprint(gio.ToInt3(b, p)) }},
			{"ToInt", 4, func(b []byte, p int) string { return fmt.Sprint(gio.ToInt(b, p)) }},
			{"ToUint", 4, func(b []byte, p int) string { return fmt.Sprint(gio.ToUint(b, p)) }},
			{"ToIntLittle", 4, func(b []byte, p int) string { return fmt.Sprint(gio.ToIntLittle(b, p)) }},
			{"ToUintLittle", 4, func(b []byte, p int) string { return fmt.Sprint(gio.ToUintLittle(b, p)) }},
			{"ToLong5", 5, func(b []byte, p int) string { return fmt.Sprint(gio.ToLong5(b, p)) }},
			{"ToLong6", 6, func(b []byte, p int) string { return fmt.Sprint(gio.ToLong6(b, p)) }},
			{"ToLong", 8, func(b []byte, p int) string { return fmt.Sprint(gio.ToLong(b, p)) }},
			{"ToLongLittle", 8, func(b []byte, p int) string { return fmt.Sprint(gio.ToLongLittle(b, p)) }},
			{"ToUlongLittle", 8, func(b []byte, p int) string { return fmt.Sprint(gio.ToUlongLittle(b, p)) }},
			{"ToFloat", 4, func(b []byte, p int) string { return fmt.Sprint(math.Float32bits(gio.ToFloat(b, p))) }},
			{"ToDouble", 8, func(b []byte, p int) string { return fmt.Sprint(math.Float64bits(gio.ToDouble(b, p))) }},
			{"Get", 7, func(b []byte, p int) string { return vh.Hex(gio.Get(b, p, 7)) }},
		}
		type wr struct {
			name string
			w    int
			set  func(b []byte, off int, v uint64) []byte
			enc  func(v uint64) []byte
		}
		writers := []wr{
			{"SetBytesBool", 1, func(b []byte, o int, v uint64) []byte { return gio.SetBytesBool(b, o, v&1 == 1) }, func(v uint64) []byte { return gio.ToBytesBool(v&1 == 1) }},
			{"SetBytesShort", 2, func(b []byte, o int, v uint64) []byte { return gio.SetBytesShort(b, o, int16(v)) }, func(v uint64) []byte { return gio.ToBytesShort(int16(v)) }},
			{"SetBytesInt3", 3, func(b []byte, o int, v uint64) []byte { return gio.SetBytesInt3(b, o, int32(v)) }, func(v uint64) []byte { return gio.ToBytesInt3(int32(v)) }},
			{"SetBytesInt", 4, func(b []byte, o int, v uint64) []byte { return gio.SetBytesInt(b, o, int32(v)) }, func(v uint64) []byte { return gio.ToBytesInt(int32(v)) }},
			{"SetBytesLong5", 5, func(b []byte, o int, v uint64) []byte { return gio.SetBytesLong5(b, o, int64(v)) }, func(v uint64) []byte { return gio.ToBytesLong5(int64(v)) }},
			{"SetBytesLong", 8, func(b []byte, o int, v uint64) []byte { return gio.SetBytesLong(b, o, int64(v)) }, func(v uint64) []byte { return gio.ToBytesLong(int64(v)) }},
			{"SetBytesFloat", 4, func(b []byte, o int, v uint64) []byte {
				return gio.SetBytesFloat(b, o, math.Float32frombits(uint32(v)))
			}, func(v uint64) []byte { return gio.ToBytesFloat(math.Float32frombits(uint32(v))) }},
			{"SetBytesDouble", 8, func(b []byte, o int, v uint64) []byte { return gio.SetBytesDouble(b, o, math.Float64frombits(v)) }, func(v uint64) []byte { return gio.ToBytesDouble(math.Float64frombits(v)) }},
			{"SetBytes", 6, func(b []byte, o int, v uint64) []byte { return gio.SetBytes(b, o, gio.ToBytesLong(int64(v))[:6]) }, func(v uint64) []byte { return gio.ToBytesLong(int64(v))[:6] }},
		}
		field := func(w int) []byte {
			b := rng.Bytes(w)
			if rng.Chance(40) {
				for i := range b {
					b[i] = byte(rng.PickInt([]int{0, 1, 0x7f, 0x80, 0xff}))
				}
			}
			return b
		}
		noff := 60
		if env.Thorough {
			noff = 3000
		}
		bad := map[string]bool{}
		for it := 0; it < noff; it++ {
			p := rng.PickInt([]int{1, 2, 3, 4, 5, 7, 8, 9, 16, 33})
			pre, suf := rng.Bytes(p), rng.Bytes(rng.Intn(9))
			for _, r := range readers {
				fl := field(r.w)
				buf := append(append(append([]byte{}, pre...), fl...), suf...)
				var at0, atp string
				oc := vh.Guard(func() { at0 = r.f(append([]byte{}, fl...), 0); atp = r.f(buf, p) })
				rep.Count("offset-read")
				if conv, ok := convOf[r.name]; ok && oc.OK() {
					add(fmt.Sprintf("G %s %d %s", conv, p, vh.Hex(buf)), atp, "offset-model:"+r.name, "field at an offset")
					if rng.Chance(15) { // a position at which the field leaves the buffer: index out of range
						q := len(buf) - r.w + 1 + rng.Intn(3)
						gotq := "fail"
						bc := append([]byte{}, buf...)[:len(buf):len(buf)] // cap == len: Get is a slice expression, whose bound is the capacity
						vh.Guard(func() { gotq = r.f(bc, q) })
						add(fmt.Sprintf("G %s %d %s", conv, q, vh.Hex(buf)), gotq, "offset-model:"+r.name+":out-of-range", "field beyond the buffer")
					}
				}
				if (!oc.OK() || at0 != atp) && !bad[r.name] {
					bad[r.name] = true
					rep.Fail("property", "offset:"+r.name, "the helper reads a field at offset p differently from the same field at offset 0",
						map[string]interface{}{"helper": r.name, "field": vh.Hex(fl), "offset": p, "buffer": vh.Hex(buf), "at0": at0, "atOffset": atp, "panic": oc.Panic})
				}
				// independent reference for the two helpers no stream method uses
				if r.name == "ToLong6" {
					var want int64
					for _, x := range fl {
						want = want<<8 | int64(x)
					}
					if at0 != fmt.Sprint(want) && !bad["ToLong6:value"] {
						bad["ToLong6:value"] = true
						rep.Fail("property", "offset:ToLong6:value", "ToLong6 is not the unsigned big-endian value of its six bytes", map[string]interface{}{"field": vh.Hex(fl), "got": at0, "want": want})
					}
				}
				if r.name == "ToBool" && at0 != fmt.Sprint(fl[0] != 0) && !bad["ToBool:value"] {
					bad["ToBool:value"] = true
					rep.Fail("property", "offset:ToBool:value", "ToBool is not `byte != 0`", map[string]interface{}{"field": vh.Hex(fl), "got": at0})
				}
			}
			for _, w := range writers {
				v := rng.U64()
				if rng.Chance(30) {
					v = uint64(rng.PickInt([]int{0, 1, 0x7f, 0x80, 0xff, 0x7fff, 0x8000, 0xffff})) << uint(8*rng.Intn(8))
				}
				before := append(append(append([]byte{}, pre...), rng.Bytes(w.w)...), suf...)
				buf := append([]byte{}, before...)
				var ret, enc []byte
				oc := vh.Guard(func() { enc = w.enc(v); ret = w.set(buf, p, v) })
				rep.Count("offset-write")
				if oc.OK() {
					if w.name == "SetBytesBool" || w.name == "SetBytes" {
						add(fmt.Sprintf("SR %d %s %s", p, vh.Hex(enc), vh.Hex(before)), vh.Hex(buf), "offset-model:"+w.name, "bytes packed at an offset")
					} else {
						add(fmt.Sprintf("SB %d %d %d %s", w.w, p, int64(v), vh.Hex(before)), vh.Hex(buf), "offset-model:"+w.name, "field packed at an offset")
					}
				}
				want := append(append(append([]byte{}, before[:p]...), enc...), before[p+w.w:]...)
				if (!oc.OK() || !bytes.Equal(buf, want) || !bytes.Equal(ret, want)) && !bad[w.name] {
					bad[w.name] = true
					rep.Fail("property", "offset:"+w.name, "the packing helper does not write exactly its bytes at the offset (or touches other bytes / returns another buffer)",
						map[string]interface{}{"helper": w.name, "value": v, "offset": p, "before": vh.Hex(before), "after": vh.Hex(buf), "returned": vh.Hex(ret), "want": vh.Hex(want), "panic": oc.Panic})
				}
			}
		}
	}

	// 11. buffers owned by the caller.  A writer must copy what it is handed: the caller may reuse
	// its scratch slice right after the call, and a slice with spare capacity (frame[:n]) must not be
	// written into by later writes.  Every byte-slice writer, as the first write on an empty stream and
	// later, with sizes around the internal thresholds (253/254, 1023/1024, 4096, 65535/65536).
	{
		type bw struct {
			name  string
			write func(o *gio.DataOutputX, b []byte)
			enc   func(b []byte) []byte // expected bytes, from the model's format (independent of the slice identity)
		}
		be := func(n, w int) []byte {
			out := make([]byte, w)
			for i := w - 1; i >= 0; i-- {
				out[i] = byte(n)
				n >>= 8
			}
			return out
		}
		blobEnc := func(b []byte) []byte {
			switch {
			case len(b) == 0:
				return []byte{0}
			case len(b) <= 253:
				return append([]byte{byte(len(b))}, b...)
			case len(b) <= 65535:
				return append(append([]byte{255}, be(len(b), 2)...), b...)
			default:
				return append(append([]byte{254}, be(len(b), 4)...), b...)
			}
		}
		writers := []bw{
			{"WriteBytes", func(o *gio.DataOutputX, b []byte) { o.WriteBytes(b) }, func(b []byte) []byte { return b }},
			{"Write", func(o *gio.DataOutputX, b []byte) { o.Write(b, 0, len(b)) }, func(b []byte) []byte { return b }},
			{"WriteBlob", func(o *gio.DataOutputX, b []byte) { o.WriteBlob(b) }, blobEnc},
			{"WriteIntBytes", func(o *gio.DataOutputX, b []byte) { o.WriteIntBytes(b) }, func(b []byte) []byte { return append(be(len(b), 4), b...) }},
			{"WriteShortBytes", func(o *gio.DataOutputX, b []byte) { o.WriteShortBytes(b) }, func(b []byte) []byte { return append(be(len(b), 2), b...) }},
		}
		sizes := []int{1, 8, 253, 254, 1023, 1024, 1025, 4096, 20000, 65535, 65536, 70000}
		bad := map[string]bool{}
		for _, w := range writers {
			for _, n := range sizes {
				if w.name == "WriteShortBytes" && n > 32767 {
					continue
				}
				for _, first := range []bool{true, false} {
					rep.Count("caller-buffer")
					frame := rng.Bytes(n + 64) // n bytes handed over, 64 bytes of spare capacity behind them
					orig := append([]byte{}, frame...)
					var want, got []byte
					var size int
					oc := vh.Guard(func() {
						o := gio.NewDataOutputX()
						if !first {
							o.WriteInt(0x01020304)
							want = append(want, 1, 2, 3, 4)
						}
						w.write(o, frame[:n])
						want = append(want, w.enc(orig[:n])...)
						o.WriteLong(-2) // a later write must not land in the caller's spare capacity
						want = append(want, 255, 255, 255, 255, 255, 255, 255, 254)
						for i := 0; i < n; i++ { // the caller reuses its scratch slice before the stream is read
							frame[i] ^= 0x5a
						}
						got = append([]byte{}, o.ToByteArray()...)
						size = o.Size()
					})
					key := ""
					switch {
					case !oc.OK():
						key = "panic"
					case !bytes.Equal(got, want):
						key = "stream-aliases-the-callers-slice"
					case size != len(want):
						key = "size"
					case !bytes.Equal(frame[n:], orig[n:]):
						key = "writes-into-the-callers-spare-capacity"
					}
					if key != "" && !bad[w.name+key] {
						bad[w.name+key] = true
						rep.Fail("property", "caller-buffer:"+w.name+":"+key, "the stream does not hold its own copy of the bytes it was handed",
							map[string]interface{}{"writer": w.name, "bytes": n, "first_write_on_empty_stream": first, "got": vh.Clip(vh.Hex(got), 300), "want": vh.Clip(vh.Hex(want), 300), "size": size, "panic": oc.Panic})
					}
				}
			}
		}
	}

	// 12. malformed input.  The model's decoders are total: on every byte string they either fail or
	// return values and a rest.  The implementation must agree with them on truncated, mutated and
	// random input as well (which ties the failure side of the model, the signed/unsigned reading of
	// every length field and — through the array reads — the CheckCount guard, which the model proves
	// invisible: `check_count_invisible`).  A strict prefix of a program's bytes must never read back
	// (`program_prefix_fails`): evaluated directly.
	{
		nmal := 500
		if env.Thorough {
			nmal = 6000
		}
		arrKinds := []string{"shortArr", "intArr", "longArr", "floatArr", "doubleArr", "textArr"}
		mutate := func(b []byte) ([]byte, string) {
			c := append([]byte{}, b...)
			if len(c) == 0 {
				return []byte{byte(rng.Intn(256))}, "insert"
			}
			switch rng.Intn(5) {
			case 0:
				c[rng.Intn(len(c))] = byte(rng.PickInt([]int{0, 1, 0x7f, 0x80, 0xfd, 0xfe, 0xff}))
				return c, "boundary-byte"
			case 1:
				c[rng.Intn(len(c))] ^= 1 << uint(rng.Intn(8))
				return c, "bit-flip"
			case 2:
				i := rng.Intn(len(c))
				return append(c[:i], c[i+1:]...), "delete"
			case 3:
				i := rng.Intn(len(c) + 1)
				return append(append(append([]byte{}, c[:i]...), byte(rng.Intn(256))), c[i:]...), "insert"
			default:
				c[0] = byte(rng.PickInt([]int{0, 1, 2, 3, 4, 5, 6, 8, 9, 0x7f, 0x80, 0xfd, 0xfe, 0xff}))
				return c, "first-byte"
			}
		}
		truncBad := false
		for i := 0; i < nmal; i++ {
			n := 1 + rng.Intn(4)
			ops := make([]op, n)
			for j := range ops {
				ops[j] = genOp(rng, false)
				for len(ops[j].bs) > 400 || len(ops[j].is) > 300 || len(ops[j].us) > 300 { // keep the lines short
					ops[j] = genOp(rng, false)
				}
			}
			p := runWrite(ops)
			// (a) a strict prefix
			if len(p.bytes) > 0 {
				cut := rng.Intn(len(p.bytes))
				if rng.Chance(40) {
					cut = len(p.bytes) - 1
				}
				pre := p.bytes[:cut]
				back := readBack(ops, pre)
				rep.Count("malformed:prefix")
				if back != "fail" && !truncBad {
					truncBad = true
					rep.Fail("property", "truncated-stream-reads-back:"+kindsOf(ops), "a strict prefix of a program's bytes was read back without an error (values invented for bytes that are not there)",
						map[string]interface{}{"ops": vh.Clip(p.line, 2000), "bytes": vh.Clip(vh.Hex(p.bytes), 2000), "prefix_length": cut, "read": vh.Clip(back, 2000)})
				}
				add("R "+p.line+" "+vh.Hex(pre), back, "decode-truncated:"+kindsOf(ops), p.line)
			}
			// (b) a mutated encoding
			mb, how := mutate(p.bytes)
			rep.Count("malformed:" + how)
			addC("R "+p.line+" "+vh.Hex(mb), readBack(ops, mb), "decode-malformed:"+kindsOf(ops), how)
			// (c) random bytes under a random program of reads (short, so that some reads succeed)
			rb := rng.Bytes(rng.Intn(24))
			if rng.Chance(50) {
				for j := range rb {
					rb[j] = byte(rng.PickInt([]int{0, 0, 1, 2, 3, 0xff, 0xfe, 0x80}))
				}
			}
			rep.Count("malformed:random")
			addC("R "+p.line+" "+vh.Hex(rb), readBack(ops, rb), "decode-malformed:"+kindsOf(ops), "random bytes")
			// (d) one array read, with its guard, on a count that does not match the bytes
			k := rng.PickStr(arrKinds)
			ao := genOp(rng, false)
			for ao.kind != k || len(ao.is) > 300 || len(ao.us) > 300 {
				ao = genOp(rng, false)
			}
			ab := runWrite([]op{ao}).bytes
			switch rng.Intn(4) {
			case 0: // count larger than the elements present
				c := int(int16(uint16(ab[0])<<8|uint16(ab[1]))) + 1 + rng.Intn(3)
				ab[0], ab[1] = byte(c>>8), byte(c)
			case 1: // negative / huge count
				ab[0], ab[1] = byte(rng.PickInt([]int{0x80, 0xff, 0x7f})), byte(rng.Intn(256))
			case 2:
				ab, _ = mutate(ab)
			case 3: // exactly at the guard's boundary: count*width == available, and one byte less
				if rng.Bool() && len(ab) > 2 {
					ab = ab[:len(ab)-1]
				}
			}
			rep.Count("malformed:array-guard")
			got := readBack([]op{{kind: k}}, ab)
			addC("RG "+k+" "+vh.Hex(ab), got, "decode-guarded:"+k, "array read with CheckCount")
			addC("R "+k+":- "+vh.Hex(ab), got, "decode-malformed:"+k, "array read, model without the guard")
			rep.Case("malformed:"+p.line+":"+vh.Hex(mb), true)
			if len(lines) >= 4000 {
				flush()
			}
		}
		// decimal-count arrays with their guard
		for i := 0; i < nmal/4; i++ {
			na := rng.Intn(6)
			ao := gio.NewDataOutputX()
			ao.WriteDecimal(int64(na))
			for j := 0; j < na; j++ {
				ao.WriteDecimal(genInt(rng, 8))
			}
			ab := append([]byte{}, ao.ToByteArray()...)
			if rng.Chance(70) {
				ab, _ = mutate(ab)
			}
			got := "fail"
			vh.Guard(func() {
				in := gio.NewDataInputX(ab)
				x := in.ReadDecimalArray()
				got = fmt.Sprintf("%s %d", ints(x), in.Available())
			})
			rep.Count("malformed:decimal-array")
			addC("RG decArr "+vh.Hex(ab), got, "decode-guarded:decimal-array", "ReadDecimalArray with CheckCount")
			addC("DA "+vh.Hex(ab), got, "decode-malformed:decimal-array", "ReadDecimalArray, model without the guard")
		}
	}

	// 13. histories of one output stream: typed writes, WriteBytes, Write(b,off,sz) and the three
	// frame headers in any order (a header wraps what was written so far; writing goes on behind it;
	// a second header wraps the first frame).  Size() == len(ToByteArray()) is evaluated after every
	// step; bytes and Size() are compared with the model's `foldl Writer.step` (theorem `writer_history`).
	{
		nh := 300
		if env.Thorough {
			nh = 4000
		}
		sizeBad := false
		for i := 0; i < nh; i++ {
			out := gio.NewDataOutputX()
			n := 1 + rng.Intn(8)
			steps := make([]string, 0, n)
			// header arguments correlated with the payload now and then (first / last byte of what was written)
			corr := func() (byte, byte) {
				src, ver := byte(rng.Intn(256)), byte(rng.Intn(256))
				if b := out.ToByteArray(); len(b) > 0 && rng.Chance(35) {
					src = b[0]
					if rng.Bool() {
						ver = b[len(b)-1]
					}
				}
				return src, ver
			}
			okRun := vh.Guard(func() {
				for j := 0; j < n; j++ {
					var st string
					switch c := rng.Intn(10); {
					case c < 4:
						o := genOp(rng, false)
						for len(o.bs) > 400 || len(o.is) > 100 || len(o.us) > 100 || len(o.bss) > 20 {
							o = genOp(rng, false)
						}
						write(out, o)
						st = "o=" + o.String()
					case c < 5:
						b := rng.Bytes(rng.Intn(20))
						out.WriteBytes(b)
						st = "b=" + vh.Hex(b)
					case c < 6:
						b := rng.Bytes(rng.Intn(20))
						off := rng.Intn(len(b) + 1)
						sz := rng.Intn(len(b) - off + 1)
						out.Write(b, off, sz)
						st = fmt.Sprintf("w=%s/%d/%d", vh.Hex(b), off, sz)
					case c < 9:
						src, ver := corr()
						pcode, lic := genInt(rng, 8), genInt(rng, 8)
						if rng.Bool() {
							out.WriteHeader(src, ver, pcode, lic)
						} else {
							out.WriteOneWayHeader(src, ver, pcode, lic)
						}
						st = fmt.Sprintf("h=%d/%d/%d/%d", src, ver, pcode, lic)
					default:
						src, ver := corr()
						pcode, oid, key := genInt(rng, 8), genInt(rng, 4), genInt(rng, 4)
						out.WriteSecureHeader(src, ver, pcode, int32(oid), int32(key))
						st = fmt.Sprintf("s=%d/%d/%d/%d/%d", src, ver, pcode, oid, key)
					}
					steps = append(steps, st)
					rep.Count("history-step:" + st[:1])
					if out.Size() != len(out.ToByteArray()) && !sizeBad {
						sizeBad = true
						rep.Fail("property", "size:history:"+st[:1], fmt.Sprintf("Size()=%d but %d bytes in the buffer after step %d of a history", out.Size(), len(out.ToByteArray()), j+1),
							map[string]interface{}{"history": vh.Clip(strings.Join(steps, "|"), 3000)})
					}
				}
			})
			h := strings.Join(steps, "|")
			rep.Case("history:"+h, true)
			if !okRun.OK() {
				rep.Fail("property", "write-panic:history", "a writer panicked inside a history: "+okRun.Panic, map[string]interface{}{"history": vh.Clip(h, 3000)})
				continue
			}
			add("HIST "+h, fmt.Sprintf("%s %d", vh.Hex(out.ToByteArray()), out.Size()), "history:"+steps[len(steps)-1][:1], h)
			// a frame reads back: header fields, then the payload as int-length bytes, and nothing is left
			if last := steps[len(steps)-1]; last[0] == 'h' {
				var f []string
				vh.Guard(func() {
					in := gio.NewDataInputX(out.ToByteArray())
					f = append(f, fmt.Sprint(in.ReadByte()), fmt.Sprint(in.ReadByte()), fmt.Sprint(in.ReadLong()), fmt.Sprint(in.ReadLong()))
					pl := in.ReadIntBytes()
					f = append(f, fmt.Sprint(len(pl)), fmt.Sprint(in.Available()))
				})
				want := strings.Split(last[2:], "/")
				if len(f) != 6 || f[0] != want[0] || f[1] != want[1] || f[2] != want[2] || f[3] != want[3] || f[5] != "0" {
					rep.Fail("property", "roundtrip:header-frame", "a frame written by WriteHeader does not read back as source, version, project code, hash, int-length payload",
						map[string]interface{}{"history": vh.Clip(h, 3000), "read": f})
				}
			}
			if len(lines) >= 4000 {
				flush()
			}
		}
	}

	// 14. ReadBytes(sz) with a signed size, WriteBytes/ReadBytes round trip, CheckCount itself,
	// Available()/CheckCount on a connection-backed input.
	{
		nrb := 400
		if env.Thorough {
			nrb = 4000
		}
		for i := 0; i < nrb; i++ {
			b := rng.Bytes(rng.Intn(40))
			skip := 0
			if len(b) > 0 && rng.Chance(50) {
				skip = rng.Intn(len(b) + 1) // the reader has already consumed some bytes
			}
			left := len(b) - skip
			sz := int64(rng.PickInt([]int{-1, 0, 1, left - 1, left, left + 1, rng.Intn(45), math.MinInt32, math.MaxInt32, -2147483647, 65536}))
			got := "fail"
			vh.Guard(func() {
				in := gio.NewDataInputX(b)
				in.ReadBytes(int32(skip))
				x := in.ReadBytes(int32(sz))
				got = fmt.Sprintf("%s %d", vh.Hex(x), in.Available())
			})
			rep.Count("read-bytes")
			add(fmt.Sprintf("RB %d %s", sz, vh.Hex(b[skip:])), got, "read:ReadBytes", fmt.Sprintf("size=%d available=%d", sz, left))
			if 0 <= sz && sz <= int64(left) && got != fmt.Sprintf("%s %d", vh.Hex(b[skip:skip+int(sz)]), left-int(sz)) {
				rep.Fail("property", "roundtrip:ReadBytes", "ReadBytes(sz) does not return exactly the next sz bytes / leave exactly the rest",
					map[string]interface{}{"buffer": vh.Hex(b), "already_read": skip, "size": sz, "got": got})
			}
			// WriteBytes(b) ; ReadBytes(len b)
			var back []byte
			var size int
			oc := vh.Guard(func() {
				o := gio.NewDataOutputX().WriteBytes(b)
				size = o.Size()
				back = gio.NewDataInputX(o.ToByteArray()).ReadBytes(int32(len(b)))
			})
			if !oc.OK() || !bytes.Equal(back, b) || size != len(b) {
				rep.Fail("property", "roundtrip:WriteBytes", "WriteBytes(b) then ReadBytes(len(b)) is not the identity, or Size() is off",
					map[string]interface{}{"bytes": vh.Hex(b), "read": vh.Hex(back), "size": size, "panic": oc.Panic})
			}
			// CheckCount(count, minBytes) with `left` bytes available
			count := int64(rng.PickInt([]int{-1, 0, 1, left, left + 1, left / 2, left/2 + 1, left / 4, left/4 + 1, left / 8, left/8 + 1, rng.Intn(50), math.MaxInt32, math.MinInt32}))
			mbs := int64(rng.PickInt([]int{-1, 0, 1, 2, 3, 4, 8, 100}))
			ck := "fail"
			vh.Guard(func() {
				in := gio.NewDataInputX(b)
				in.ReadBytes(int32(skip))
				in.CheckCount(int(count), int(mbs))
				ck = "ok"
			})
			rep.Count("check-count")
			add(fmt.Sprintf("CK %d %d %d", count, mbs, left), ck, "read:CheckCount", fmt.Sprintf("count=%d minBytes=%d available=%d", count, mbs, left))
			rep.Case(fmt.Sprintf("rb:%d:%s:%d:%d", sz, vh.Hex(b), count, mbs), true)
		}
		// on a connection the number of bytes to come is unknown: Available() is 0 and CheckCount never rejects
		c1, c2 := net.Pipe()
		var av int32 = -1
		oc := vh.Guard(func() {
			in := gio.NewDataInputNet(c2)
			av = in.Available()
			in.CheckCount(1000000, 8)
		})
		c1.Close()
		c2.Close()
		rep.Count("conn-available")
		if !oc.OK() || av != 0 {
			rep.Fail("property", "conn:Available/CheckCount", "on a connection-backed input Available() must be 0 and CheckCount must not reject",
				map[string]interface{}{"available": av, "panic": oc.Panic})
		}
	}

	// 15. read results owned by the caller.  "Reads back identically and in order" is about a whole
	// sequence of reads, and between two reads the caller USES what it got: it appends to a byte
	// string it has read (key + suffix), scrubs it, keeps it.  None of that may change what the
	// following reads return, nor what a second decode of the same input returns.  (A reader that
	// hands out a view of its input — zero copy — is right for every read whose result is only
	// looked at: an append lands in the spare capacity, i.e. in the fields still to be read.)
	// Histories: 2..9 fields, byte-string valued fields (blob, short/int-length bytes, limited
	// int-bytes, raw ReadBytes — lengths 0, small, and both sides of 253/254, 1023/1024, 65535/65536)
	// mixed with every other kind; after each byte-string result one of keep / append / edit /
	// append+edit; from memory and, for a share, from a connection.
	{
		nown := 1500
		if env.Thorough {
			nown = 15000
		}
		byteKinds := []string{"blob", "shortBytes", "intBytes", "intBytesLimit", "raw"}
		isByteKind := func(k string) bool {
			for _, b := range byteKinds {
				if b == k {
					return true
				}
			}
			return false
		}
		lens := []int{0, 0, 1, 2, 3, 8, 40, 253, 254, 255, 1023, 1024, 4096}
		str := func(o op) string {
			if o.kind == "raw" || o.kind == "intBytesLimit" {
				return o.kind + ":" + vh.Hex(o.bs)
			}
			return o.String()
		}
		wr := func(out *gio.DataOutputX, o op) {
			switch o.kind {
			case "raw":
				out.WriteBytes(o.bs)
			case "intBytesLimit":
				out.WriteIntBytes(o.bs)
			default:
				write(out, o)
			}
		}
		rd := func(in *gio.DataInputX, w op) op {
			switch w.kind {
			case "raw":
				return op{kind: "raw", bs: in.ReadBytes(int32(len(w.bs)))}
			case "intBytesLimit":
				return op{kind: "intBytesLimit", bs: in.ReadIntBytesLimit(len(w.bs) + len(w.bs)%3)}
			}
			return readRaw(in, w.kind)
		}
		// decode reads the fields of ops from in, applying acts[j] to the j-th result right after it
		// was returned; values are rendered at the moment of return (before the caller touches them)
		decode := func(in *gio.DataInputX, ops []op, acts []string, junk [][]byte) (vals []string, avail int32, oc vh.Outcome) {
			oc = vh.Guard(func() {
				for j, w := range ops {
					r := rd(in, w)
					vals = append(vals, str(r))
					if acts != nil && isByteKind(w.kind) {
						if strings.Contains(acts[j], "append") {
							ext := append(r.bs, junk[j]...)
							_ = ext
						}
						if strings.Contains(acts[j], "edit") {
							for i := range r.bs {
								r.bs[i] ^= 0x5a
							}
						}
					}
				}
				avail = in.Available()
			})
			return
		}
		bad := map[string]bool{}
		for i := 0; i < nown; i++ {
			n := 2 + rng.Intn(8)
			ops := make([]op, n)
			acts := make([]string, n)
			junk := make([][]byte, n)
			used := false // a byte-string result that is not the last field is appended to or edited
			for j := range ops {
				if rng.Chance(45) || (j == n-2 && !used) {
					ln := rng.Intn(24)
					switch {
					case rng.Chance(35):
						ln = rng.PickInt(lens)
					case rng.Chance(1):
						ln = 65530 + rng.Intn(12)
					}
					k := rng.PickStr(byteKinds)
					if k == "shortBytes" && ln > 65535 {
						ln = 65535
					}
					ops[j] = op{kind: k, bs: rng.Bytes(ln)}
				} else {
					ops[j] = genOp(rng, false)
				}
				acts[j] = "keep"
				if isByteKind(ops[j].kind) {
					acts[j] = rng.PickStr([]string{"keep", "append", "append", "edit", "append+edit"})
					if j == n-2 && !used {
						acts[j] = "append"
					}
					junk[j] = rng.Bytes(1 + rng.Intn(40))
					if acts[j] != "keep" && j < n-1 {
						used = true
					}
				}
			}
			var data []byte
			want := make([]string, n)
			ocw := vh.Guard(func() {
				out := gio.NewDataOutputX()
				for j, o := range ops {
					wr(out, o)
					want[j] = str(o)
				}
				data = append([]byte{}, out.ToByteArray()...)
			})
			if !ocw.OK() {
				rep.Fail("property", "write-panic:owned-result", "writer panicked: "+ocw.Panic, map[string]interface{}{"ops": vh.Clip(strings.Join(want, ";"), 3000)})
				continue
			}
			line := strings.Join(want, ";")
			rep.Case("owned:"+line+"|"+strings.Join(acts, ","), used)
			rep.Count("owned-result")
			for j := range ops {
				if isByteKind(ops[j].kind) {
					rep.Count("owned-result:" + acts[j])
				}
			}
			pristine := append([]byte{}, data...)
			overConn := len(data) < 60000 && rng.Chance(12)
			var vals []string
			var avail int32
			var oc vh.Outcome
			if overConn {
				rep.Count("owned-result:connection")
				c1, c2 := net.Pipe()
				go func() {
					c1.Write(append([]byte{}, data...))
					c1.Close()
				}()
				oc = vh.GuardTimeout(60*time.Second, func() {
					var o2 vh.Outcome
					vals, avail, o2 = decode(gio.NewDataInputNet(c2), ops, acts, junk)
					if !o2.OK() {
						panic(o2.Panic)
					}
				})
				c2.Close()
			} else {
				vals, avail, oc = decode(gio.NewDataInputX(data), ops, acts, junk)
			}
			// what went wrong, and after the use of which kind of result
			class := ""
			d := len(vals)
			for j := range vals {
				if vals[j] != want[j] {
					d = j
					break
				}
			}
			switch {
			case d < len(vals):
				class = "later-read-differs"
			case !oc.OK():
				class = "later-read-panics"
			case avail != 0:
				class = "available"
			case !bytes.Equal(data, pristine):
				class, d = "input-changed", n
			}
			if class == "" && !overConn {
				// a second decode of the same input (nothing touched this time) sees the same values
				v2, _, oc2 := decode(gio.NewDataInputX(data), ops, nil, nil)
				if !oc2.OK() || strings.Join(v2, ";") != line {
					class, d = "second-decode-differs", n
				}
			}
			if class != "" {
				after := "none"
				for j := d - 1; j >= 0 && j < n; j-- {
					if isByteKind(ops[j].kind) && acts[j] != "keep" {
						after = ops[j].kind + ":" + acts[j]
						break
					}
				}
				key := "caller-owned-result:" + class + ":after-" + strings.SplitN(after, ":", 2)[0]
				if !bad[key] {
					bad[key] = true
					rep.Fail("property", key, "after the caller appended to / edited a byte string it had read ("+after+"), the following reads (or a second decode of the same input) do not give what was written: the result is not the caller's own",
						map[string]interface{}{"ops": vh.Clip(line, 3000), "caller_does_after_each_read": strings.Join(acts, ","), "input": vh.Clip(vh.Hex(pristine), 3000),
							"input_afterwards": vh.Clip(vh.Hex(data), 3000), "read": vh.Clip(strings.Join(vals, ";"), 3000), "first_wrong_field": d, "available": avail,
							"panic": oc.Panic, "connection_backed": overConn})
				}
			}
		}
	}

	// 9. independent encoders/decoders used at the same time.  The property is stated per encoder;
	// it must therefore hold for each of several encoders whatever the others are doing (an encoder
	// that stages bytes in package-level memory is correct alone and wrong in company).  A pool of
	// programs (every op kind; blobs and texts on both sides of 253/254 and 65535/65536) is encoded
	// sequentially first; then G goroutines encode and read back their own programs concurrently and
	// every result must equal the sequential one.
	{
		var pool [][]op
		for _, k := range []string{"blob", "text", "shortBytes", "intBytes", "textShort"} {
			for _, n := range []int{0, 1, 8, 253, 254, 255, 300, 4097, 20000, 65535, 65536, 70000} {
				if (k == "shortBytes" || k == "textShort") && n > 32767 {
					continue
				}
				b := make([]byte, n)
				for i := range b {
					b[i] = byte('a' + (i+n)%26)
				}
				pool = append(pool, []op{{kind: k, bs: b}})
			}
		}
		for i := 0; i < 40; i++ {
			ops := make([]op, 1+rng.Intn(12))
			for j := range ops {
				ops[j] = genOp(rng, false)
			}
			pool = append(pool, ops)
		}
		refs := make([]prog, len(pool))
		okRef := vh.Guard(func() {
			for i, ops := range pool {
				refs[i] = runWrite(ops)
			}
		})
		const G = 8
		iters := 400
		if env.Thorough {
			iters = 4000
		}
		type concBad struct{ what, ops, got string }
		badCh := make(chan concBad, G)
		var wg sync.WaitGroup
		var stop int32
		for g := 0; okRef.OK() && g < G; g++ {
			wg.Add(1)
			go func(g int) {
				defer wg.Done()
				for it := 0; it < iters && atomic.LoadInt32(&stop) == 0; it++ {
					k := (g*7 + it) % len(pool)
					var p prog
					var back string
					oc := vh.Guard(func() {
						p = runWrite(pool[k])
						back = readBack(pool[k], p.bytes)
					})
					want := fmt.Sprintf("ok %s 0", refs[k].line)
					switch {
					case !oc.OK():
						badCh <- concBad{"panic: " + oc.Panic, refs[k].line, ""}
					case !bytes.Equal(p.bytes, refs[k].bytes):
						badCh <- concBad{"encoding differs from the same encoder run alone", refs[k].line, vh.Hex(p.bytes)}
					case back != want:
						badCh <- concBad{"read back differs from what was written", refs[k].line, back}
					default:
						continue
					}
					atomic.StoreInt32(&stop, 1)
					return
				}
			}(g)
		}
		go func() { wg.Wait(); close(badCh) }()
		n := 0
		for b := range badCh {
			if n == 0 {
				rep.Fail("property", "concurrent-encoders", b.what+" while "+fmt.Sprint(G)+" independent encoders run at the same time",
					map[string]interface{}{"ops": vh.Clip(b.ops, 400), "got": vh.Clip(b.got, 400), "goroutines": G})
			}
			n++
		}
		rep.CountN("concurrent-encode", G*iters)
	}

	flush()
	rep.Extra["driver_lines"] = totalLines
	rep.Write(env.Out)
}

// convOf: the model's name (driver line G) of each conversion helper
var convOf = map[string]string{"ToBool": "bool", "ToShort": "s2", "ToUShort": "u2", "ToUshort": "u2", "ToShortLittle": "ls2",
	"ToUshortLittle": "lu2", "ToInt3": "s3", "ToInt": "s4", "ToUint": "u4", "ToIntLittle": "ls4", "ToUintLittle": "lu4",
	"ToLong5": "s5", "ToLong6": "u6", "ToLong": "s8", "ToLongLittle": "ls8", "ToUlongLittle": "lu8", "ToFloat": "u4",
	"ToDouble": "u8", "Get": "raw7"}

func kindsOf(ops []op) string {
	if len(ops) == 1 {
		return ops[0].kind
	}
	return "program"
}

// firstDiffKind names the op kind at which the read-back first differs.
func firstDiffKind(ops []op, back, want string) string {
	if back == "fail" {
		return "fail:" + kindsOf(ops)
	}
	a := strings.Split(strings.TrimPrefix(back, "ok "), ";")
	b := strings.Split(strings.TrimPrefix(want, "ok "), ";")
	for i := range ops {
		if i >= len(a) || i >= len(b) || a[i] != b[i] {
			return ops[i].kind
		}
	}
	return "rest"
}

// parseOp is the inverse of op.String (used to localise a failing program).
func parseOp(s string) op {
	i := strings.IndexByte(s, ':')
	o := op{kind: s[:i]}
	p := s[i+1:]
	list := func() []string {
		if p == "-" {
			return nil
		}
		return strings.Split(p, ",")
	}
	switch o.kind {
	case "bool":
		o.b = p == "1"
	case "byte", "ushort", "float", "double":
		o.u, _ = strconv.ParseUint(p, 10, 64)
	case "short", "int3", "int", "long5", "long", "decimal":
		o.i, _ = strconv.ParseInt(p, 10, 64)
	case "blob", "text", "shortBytes", "intBytes", "textShort":
		o.bs = vh.UnHex(p)
	case "shortArr", "intArr", "longArr":
		o.is = []int64{}
		for _, x := range list() {
			v, _ := strconv.ParseInt(x, 10, 64)
			o.is = append(o.is, v)
		}
	case "floatArr", "doubleArr":
		o.us = []uint64{}
		for _, x := range list() {
			v, _ := strconv.ParseUint(x, 10, 64)
			o.us = append(o.us, v)
		}
	case "textArr":
		o.bss = [][]byte{}
		for _, x := range list() {
			if x == "z" {
				o.bss = append(o.bss, []byte{})
			} else {
				o.bss = append(o.bss, vh.UnHex(x))
			}
		}
	}
	return o
}
