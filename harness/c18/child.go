package main

import (
	"bytes"
	"context"
	"fmt"
	"os"
	"os/exec"
	"path/filepath"
	"strings"
	"sync"
	"sync/atomic"
	"time"

	"github.com/whatap/golib/config/conffile"
	"verif/harness/vh"
)

// runChild re-executes this binary in a child mode; returns exit code, combined output, timed out.
func (h *harness) runChild(mode string, timeout time.Duration, extra ...string) (int, string, bool) {
	exe, err := os.Executable()
	if err != nil {
		vh.Die("executable: %v", err)
	}
	ctx, cancel := context.WithTimeout(context.Background(), timeout)
	defer cancel()
	cmd := exec.CommandContext(ctx, exe)
	dir, _ := h.newDir()
	cmd.Env = append(os.Environ(), "C18_CHILD="+mode, "C18_DIR="+dir)
	cmd.Env = append(cmd.Env, extra...)
	var out bytes.Buffer
	cmd.Stdout = &out
	cmd.Stderr = &out
	err = cmd.Run()
	code := 0
	if err != nil {
		code = -1
		if ee, ok := err.(*exec.ExitError); ok {
			code = ee.ExitCode()
		}
	}
	return code, out.String(), ctx.Err() != nil
}

// probeFatal: does a malformed / vanished file terminate the process?
func (h *harness) probeFatal() {
	cases := []struct{ mode, arg, what string }{
		{"fatal-reload", "k=1\nbad=\\u12\n", "a reload of a file with an invalid \\u escape"},
		{"fatal-reload", "=v\n", "a reload of a file whose line starts with '='"},
		{"fatal-setvalues", "", "SetValues when the configuration file does not exist"},
	}
	for _, c := range cases {
		code, out, to := h.runChild(c.mode, 30*time.Second, "C18_ARG="+c.arg)
		h.rep.Case("child "+c.mode+" "+c.arg, true)
		h.rep.Count("child:" + c.mode)
		if to {
			h.rep.Fail("property", "parser:child-timeout", "child process hung: "+c.what, map[string]interface{}{"mode": c.mode, "text": c.arg})
			continue
		}
		if code != 0 || !strings.Contains(out, "SURVIVED") {
			h.mustLoadFatal = true
			h.rep.Fail("property", "parser:malformed-file-exits-process",
				fmt.Sprintf("%s terminated the process (exit code %d): %s", c.what, code, vh.Clip(strings.TrimSpace(out), 200)),
				map[string]interface{}{"mode": c.mode, "file_text": c.arg, "exit_code": code, "output": vh.Clip(out, 500)})
		}
	}
}

// streamRace: getters hammered while reloads run, in a child process.
func (h *harness) streamRace() {
	dur := "1500"
	if h.env.Thorough {
		dur = "8000"
	}
	code, out, to := h.runChild("race", 120*time.Second, "C18_ARG="+dur)
	h.rep.Case("child race "+dur+"ms", true)
	h.rep.Count("child:race")
	for _, l := range strings.Split(out, "\n") {
		if strings.HasPrefix(l, "STATS ") {
			h.rep.Note("race child: %s", l)
		}
	}
	replay := map[string]interface{}{"mode": "race", "duration_ms": dur, "exit_code": code, "output": vh.Clip(out, 1200)}
	switch {
	case to:
		h.rep.Fail("property", "FileConfig.m:child-timeout", "getters/reload child hung (deadlock?)", replay)
	case strings.Contains(out, "concurrent map"):
		h.rep.Fail("property", "FileConfig.m:concurrent-map-access",
			"getters running while reload() merges the file: the Go runtime aborted the process: "+firstLineWith(out, "concurrent map"), replay)
	case strings.Contains(out, "DATA RACE"):
		h.rep.Fail("property", "FileConfig.m:concurrent-map-access", "race detector: the map is read by getters while reload() writes it", replay)
	case strings.Contains(out, "TORN"):
		h.rep.Fail("property", "FileConfig.m:torn-read", "a reader saw a mixture of two file versions: "+firstLineWith(out, "TORN"), replay)
	case code != 0 || !strings.Contains(out, "SURVIVED"):
		h.rep.Fail("property", "FileConfig.m:child-crash", fmt.Sprintf("getters/reload child died (exit code %d)", code), replay)
	}
}

func firstLineWith(out, sub string) string {
	for _, l := range strings.Split(out, "\n") {
		if strings.Contains(l, sub) {
			return strings.TrimSpace(l)
		}
	}
	return ""
}

// ---------------------------------------------------------------- the child side

func childMain(mode string) {
	dir := os.Getenv("C18_DIR")
	arg := os.Getenv("C18_ARG")
	path := filepath.Join(dir, "whatap.conf")
	os.Unsetenv("WHATAP_HOME")
	os.Unsetenv("WHATAP_CONFIG")
	os.Unsetenv("WHATAP_CONFIG_HOME")
	switch mode {
	case "fatal-reload":
		writeFile(path, "k=1\n")
		t := time.Unix(1_700_000_000, 0)
		os.Chtimes(path, t, t)
		c := conffile.NewForVerif(conffile.WithHomePath(dir))
		writeFile(path, arg)
		t = t.Add(5 * time.Second)
		os.Chtimes(path, t, t)
		c.ReloadNowForVerif()
		if c.GetValue("k") != "1" {
			fmt.Println("CHANGED")
		}
		fmt.Println("SURVIVED")
	case "fatal-setvalues":
		c := conffile.NewForVerif(conffile.WithHomePath(dir))
		m := map[string]string{"k": "1"}
		c.SetValues(&m)
		fmt.Println("SURVIVED")
	case "race":
		childRace(dir, path, arg)
	default:
		fmt.Println("unknown child mode")
		os.Exit(2)
	}
}

func childRace(dir, path, arg string) {
	ms := 1500
	fmt.Sscan(arg, &ms)
	const nkeys = 60
	content := func(tag string) string {
		var b strings.Builder
		for i := 0; i < nkeys; i++ {
			fmt.Fprintf(&b, "rk%02d=%s\n", i, tag)
		}
		return b.String()
	}
	writeFile(path, content("A"))
	c := conffile.NewForVerif(conffile.WithHomePath(dir))
	var stop atomic.Bool
	var wg sync.WaitGroup
	var reads, torn int64
	var tornMsg atomic.Value
	for r := 0; r < 6; r++ {
		wg.Add(1)
		go func(r int) {
			defer wg.Done()
			i := 0
			for !stop.Load() {
				i++
				switch (i + r) % 4 {
				case 0:
					c.GetValue(fmt.Sprintf("rk%02d", i%nkeys))
					c.GetInt("rk00", 1)
					c.GetBoolean("absent", true)
				case 1:
					c.GetKeys()
				case 2:
					// one call = one snapshot: all values of the rk keys must carry the same tag
					s := c.String()
					a := strings.Count(s, "=A\n")
					b := strings.Count(s, "=B\n")
					if a != 0 && b != 0 {
						atomic.AddInt64(&torn, 1)
						tornMsg.Store(fmt.Sprintf("String() showed %d keys of version A and %d of version B", a, b))
					}
				default:
					c.GetStringArray("rk01", "", ",")
					c.GetLong("rk02", 5)
				}
				atomic.AddInt64(&reads, 1)
			}
		}(r)
	}
	deadline := time.Now().Add(time.Duration(ms) * time.Millisecond)
	t := time.Unix(1_700_000_000, 0)
	reloads := 0
	for time.Now().Before(deadline) {
		tag := "A"
		if reloads%2 == 0 {
			tag = "B"
		}
		writeFile(path, content(tag))
		t = t.Add(1500 * time.Millisecond)
		os.Chtimes(path, t, t)
		c.ReloadNowForVerif()
		reloads++
	}
	stop.Store(true)
	wg.Wait()
	fmt.Printf("STATS reloads=%d reads=%d torn=%d\n", reloads, reads, torn)
	if torn > 0 {
		fmt.Println("TORN", tornMsg.Load())
	}
	fmt.Println("SURVIVED")
}
