package main

import (
	"bytes"
	"context"
	"fmt"
	"os"
	"os/exec"
	"os/signal"
	"path/filepath"
	"strings"
	"sync"
	"sync/atomic"
	"syscall"
	"time"

	"github.com/whatap/golib/config/conffile"
	"verif/harness/vh"
)

// runChild re-executes this binary in a child mode; returns exit code, combined output, timed out.
func (h *harness) runChild(mode string, timeout time.Duration, extra ...string) (int, string, bool) {
	exe, err := os.Executable()
	if err != nil {
		vh.Die("executable: %v", err)
	}
	ctx, cancel := context.WithTimeout(context.Background(), timeout)
	defer cancel()
	cmd := exec.CommandContext(ctx, exe)
	dir, _ := h.newDir()
	cmd.Env = append(os.Environ(), "C18_CHILD="+mode, "C18_DIR="+dir)
	cmd.Env = append(cmd.Env, extra...)
	var out bytes.Buffer
	cmd.Stdout = &out
	cmd.Stderr = &out
	err = cmd.Run()
	code := 0
	if err != nil {
		code = -1
		if ee, ok := err.(*exec.ExitError); ok {
			code = ee.ExitCode()
		}
	}
	return code, out.String(), ctx.Err() != nil
}

// probeFatal: does a malformed / vanished file terminate the process?
func (h *harness) probeFatal() {
	cases := []struct{ mode, arg, what string }{
		{"fatal-reload", "k=1\nbad=\\u12\n", "a reload of a file with an invalid \\u escape"},
		{"fatal-reload", "=v\n", "a reload of a file whose line starts with '='"},
		{"fatal-setvalues", "", "SetValues when the configuration file does not exist"},
	}
	for _, c := range cases {
		code, out, to := h.runChild(c.mode, 180*time.Second, "C18_ARG="+c.arg)
		h.rep.Case("child "+c.mode+" "+c.arg, true)
		h.rep.Count("child:" + c.mode)
		if to {
			h.rep.Fail("property", "parser:child-timeout", "child process hung: "+c.what, map[string]interface{}{"mode": c.mode, "text": c.arg})
			continue
		}
		if code != 0 || !strings.Contains(out, "SURVIVED") {
			h.mustLoadFatal = true
			h.rep.Fail("property", "parser:malformed-file-exits-process",
				fmt.Sprintf("%s terminated the process (exit code %d): %s", c.what, code, vh.Clip(strings.TrimSpace(out), 200)),
				map[string]interface{}{"mode": c.mode, "file_text": c.arg, "exit_code": code, "output": vh.Clip(out, 500)})
		}
	}
}

// streamRace: getters hammered while reloads run, in a child process.
func (h *harness) streamRace() {
	dur := "1500"
	if h.env.Thorough {
		dur = "8000"
	}
	code, out, to := h.runChild("race", 300*time.Second, "C18_ARG="+dur)
	h.rep.Case("child race "+dur+"ms", true)
	h.rep.Count("child:race")
	for _, l := range strings.Split(out, "\n") {
		if strings.HasPrefix(l, "STATS ") {
			h.rep.Note("race child: %s", l)
		}
	}
	replay := map[string]interface{}{"mode": "race", "duration_ms": dur, "exit_code": code, "output": vh.Clip(out, 1200)}
	switch {
	case to:
		h.rep.Fail("property", "FileConfig.m:child-timeout", "getters/reload child hung (deadlock?)", replay)
	case strings.Contains(out, "concurrent map"):
		h.rep.Fail("property", "FileConfig.m:concurrent-map-access",
			"getters running while reload() merges the file: the Go runtime aborted the process: "+firstLineWith(out, "concurrent map"), replay)
	case strings.Contains(out, "DATA RACE"):
		h.rep.Fail("property", "FileConfig.m:concurrent-map-access", "race detector: the map is read by getters while reload() writes it", replay)
	case strings.Contains(out, "TORN"):
		h.rep.Fail("property", "FileConfig.m:torn-read", "a reader saw a mixture of two file versions: "+firstLineWith(out, "TORN"), replay)
	case code != 0 || !strings.Contains(out, "SURVIVED"):
		h.rep.Fail("property", "FileConfig.m:child-crash", fmt.Sprintf("getters/reload child died (exit code %d)", code), replay)
	}
}

// streamReset: getters hammered while the file is deleted / re-created and reloads run.  A key that has
// the same value in the file and in the defaults must never read as the caller's default; a key that only
// the defaults have must not either once the first reset has completed.
func (h *harness) streamReset() {
	dur := "1200"
	if h.env.Thorough {
		dur = "6000"
	}
	code, out, to := h.runChild("reset", 300*time.Second, "C18_ARG="+dur)
	h.rep.Case("child reset "+dur+"ms", true)
	h.rep.Count("child:reset")
	for _, l := range strings.Split(out, "\n") {
		if strings.HasPrefix(l, "STATS ") {
			h.rep.Note("reset child: %s", l)
		}
	}
	replay := map[string]interface{}{"mode": "reset", "duration_ms": dur, "exit_code": code, "output": vh.Clip(out, 1200),
		"history": "file {enabled=true, transaction_enabled=true, other=x}; loop: delete file, reload (reset to defaults), re-create file, reload; 6 goroutines read enabled / transaction_enabled / net_udp_port"}
	switch {
	case to:
		h.rep.Fail("property", "FileConfig.m:child-timeout", "getters/reset child hung (deadlock?)", replay)
	case strings.Contains(out, "concurrent map") || strings.Contains(out, "DATA RACE"):
		h.rep.Fail("property", "FileConfig.m:concurrent-map-access", "getters running while reload() resets the map to the defaults: "+firstLineWith(out, "concurrent map")+firstLineWith(out, "DATA RACE"), replay)
	case strings.Contains(out, "EMPTY"):
		h.rep.Fail("property", "FileConfig.m:empty-map-visible-during-reset",
			"while reload() reset the configuration to the defaults (file disappeared) a getter saw neither the old nor the new map: "+firstLineWith(out, "EMPTY"), replay)
	case code != 0 || !strings.Contains(out, "SURVIVED"):
		h.rep.Fail("property", "FileConfig.m:child-crash", fmt.Sprintf("getters/reset child died (exit code %d)", code), replay)
	}
}

// streamWriteFault: DefaultFileParser.Write / SetValues under injected write faults (RLIMIT_FSIZE with
// SIGXFSZ ignored: write returns EFBIG after the limit; read-only directory when not root).
func (h *harness) streamWriteFault() {
	limits := []string{"0", "1", "64", "300", "1000000"}
	if h.env.Thorough {
		limits = append(limits, "7", "128", "1000", "1800", "1899")
	}
	for _, via := range []string{"write", "setvalues"} {
		for _, lim := range limits {
			h.oneWriteFault(via, "fsize:"+lim)
		}
		if os.Geteuid() != 0 {
			h.oneWriteFault(via, "rodir")
		} else {
			h.rep.Count("child:write-fault:rodir-skipped-root")
		}
	}
}

func (h *harness) oneWriteFault(via, fault string) {
	code, out, to := h.runChild("write-fault", 180*time.Second, "C18_ARG="+via+" "+fault)
	h.rep.Case("child write-fault "+via+" "+fault, true)
	h.rep.Count("child:write-fault")
	res := firstLineWith(out, "RESULT ")
	replay := map[string]interface{}{"mode": "write-fault", "via": via, "fault": fault, "exit_code": code, "output": vh.Clip(out, 800),
		"how": "file of 40 lines (about 1900 bytes); the child lowers RLIMIT_FSIZE (SIGXFSZ ignored) / makes the directory read-only, then calls " + via + " with one changed key"}
	switch {
	case to:
		h.rep.Fail("property", "write:fault-hangs", "write-back under a write fault hung", replay)
	case res == "":
		h.rep.Fail("property", "write:fault-crash", fmt.Sprintf("write-back under a write fault died (exit code %d)", code), replay)
	case strings.Contains(res, "content=other"):
		h.rep.Fail("property", "write:fault-leaves-partial-file",
			"a failing write ("+fault+") during the write-back left the configuration file with neither the old nor the new complete content: "+res, replay)
	case strings.Contains(res, "content=old") && strings.Contains(res, "err=false") && via == "write":
		h.rep.Fail("property", "write:fault-not-reported", "the write-back failed ("+fault+"), the file keeps the old content, but Write returned nil: "+res, replay)
	}
	if via == "write" && strings.HasPrefix(fault, "fsize:") && res != "" {
		// the fault model (Golib.Conf.FSFault.storeProtocol): a write that fails after n bytes
		n := strings.TrimPrefix(fault, "fsize:")
		wa := n
		if n == "1000000" {
			wa = "-"
		}
		f := strings.Fields(res)
		var ic, ie string
		for _, x := range f {
			if strings.HasPrefix(x, "content=") {
				ic = strings.SplitN(x, ":", 2)[0]
			}
			if strings.HasPrefix(x, "err=") {
				ie = x
			}
		}
		implView := ic + " " + ie
		h.add(check{line: fmt.Sprintf("WP 1 0 %s 0 0 0 %s %s", wa, encStr("old content\n"), encStr("the new content\n")), want: implView,
			canon: func(s string) string {
				g := strings.Fields(s)
				if len(g) < 2 {
					return s
				}
				return g[0] + " " + g[1]
			}, onDiff: func(got string) {
				h.rep.Fail("correspondence", "write:fault-model", "the fault model and the implementation disagree on the outcome of a failing write",
					map[string]interface{}{"fault": fault, "impl": res, "model": got})
			}})
		h.faultChecks++
	}
	if fault == "fsize:1000000" && !strings.Contains(res, "content=new") && res != "" {
		h.rep.Fail("correspondence", "write:fault-injection", "with a file-size limit far above the file the write-back should simply succeed: "+res, replay)
	}
	if strings.Contains(res, "content=new") {
		h.rep.Count("child:write-fault:new")
	}
	if strings.Contains(res, "content=old") {
		h.rep.Count("child:write-fault:old")
	}
}

func firstLineWith(out, sub string) string {
	for _, l := range strings.Split(out, "\n") {
		if strings.Contains(l, sub) {
			return strings.TrimSpace(l)
		}
	}
	return ""
}

// ---------------------------------------------------------------- the child side

func childMain(mode string) {
	dir := os.Getenv("C18_DIR")
	arg := os.Getenv("C18_ARG")
	path := filepath.Join(dir, "whatap.conf")
	os.Unsetenv("WHATAP_HOME")
	os.Unsetenv("WHATAP_CONFIG")
	os.Unsetenv("WHATAP_CONFIG_HOME")
	switch mode {
	case "fatal-reload":
		writeFile(path, "k=1\n")
		t := time.Unix(1_700_000_000, 0)
		os.Chtimes(path, t, t)
		c := conffile.NewForVerif(conffile.WithHomePath(dir))
		writeFile(path, arg)
		t = t.Add(5 * time.Second)
		os.Chtimes(path, t, t)
		c.ReloadNowForVerif()
		if c.GetValue("k") != "1" {
			fmt.Println("CHANGED")
		}
		fmt.Println("SURVIVED")
	case "fatal-setvalues":
		c := conffile.NewForVerif(conffile.WithHomePath(dir))
		m := map[string]string{"k": "1"}
		c.SetValues(&m)
		fmt.Println("SURVIVED")
	case "race":
		childRace(dir, path, arg)
	case "reset":
		childReset(dir, path, arg)
	case "history":
		childHistory(arg)
	case "create-fault":
		childCreateFault(dir, arg)
	case "write-fault":
		childWriteFault(dir, path, arg)
	default:
		fmt.Println("unknown child mode")
		os.Exit(2)
	}
}

func childRace(dir, path, arg string) {
	ms := 1500
	fmt.Sscan(arg, &ms)
	const nkeys = 60
	content := func(tag string) string {
		var b strings.Builder
		for i := 0; i < nkeys; i++ {
			fmt.Fprintf(&b, "rk%02d=%s\n", i, tag)
		}
		return b.String()
	}
	writeFile(path, content("A"))
	c := conffile.NewForVerif(conffile.WithHomePath(dir))
	var stop atomic.Bool
	var wg sync.WaitGroup
	var reads, torn int64
	var tornMsg atomic.Value
	for r := 0; r < 6; r++ {
		wg.Add(1)
		go func(r int) {
			defer wg.Done()
			i := 0
			for !stop.Load() {
				i++
				switch (i + r) % 4 {
				case 0:
					c.GetValue(fmt.Sprintf("rk%02d", i%nkeys))
					c.GetInt("rk00", 1)
					c.GetBoolean("absent", true)
				case 1:
					c.GetKeys()
				case 2:
					// one call = one snapshot: all values of the rk keys must carry the same tag
					s := c.String()
					a := strings.Count(s, "=A\n")
					b := strings.Count(s, "=B\n")
					if a != 0 && b != 0 {
						atomic.AddInt64(&torn, 1)
						tornMsg.Store(fmt.Sprintf("String() showed %d keys of version A and %d of version B", a, b))
					}
				default:
					c.GetStringArray("rk01", "", ",")
					c.GetLong("rk02", 5)
				}
				atomic.AddInt64(&reads, 1)
			}
		}(r)
	}
	deadline := time.Now().Add(time.Duration(ms) * time.Millisecond)
	t := time.Unix(1_700_000_000, 0)
	reloads := 0
	for time.Now().Before(deadline) {
		tag := "A"
		if reloads%2 == 0 {
			tag = "B"
		}
		writeFile(path, content(tag))
		t = t.Add(1500 * time.Millisecond)
		os.Chtimes(path, t, t)
		c.ReloadNowForVerif()
		reloads++
	}
	stop.Store(true)
	wg.Wait()
	fmt.Printf("STATS reloads=%d reads=%d torn=%d\n", reloads, reads, torn)
	if torn > 0 {
		fmt.Println("TORN", tornMsg.Load())
	}
	fmt.Println("SURVIVED")
}

func childReset(dir, path, arg string) {
	ms := 1200
	fmt.Sscan(arg, &ms)
	// "enabled" and "transaction_enabled" are true in the file and in ApplyDefault; "net_udp_port" only in the defaults
	text := "enabled=true\ntransaction_enabled=true\nother=x\n"
	writeFile(path, text)
	t := time.Unix(1_700_000_000, 0)
	os.Chtimes(path, t, t)
	c := conffile.NewForVerif(conffile.WithHomePath(dir))
	var stop, resetDone atomic.Bool
	var wg sync.WaitGroup
	var reads, empty int64
	var msg atomic.Value
	for r := 0; r < 6; r++ {
		wg.Add(1)
		go func(r int) {
			defer wg.Done()
			for !stop.Load() {
				after := resetDone.Load()
				if !c.GetBoolean("enabled", false) {
					atomic.AddInt64(&empty, 1)
					msg.Store("GetBoolean(\"enabled\", false) = false although the file and the defaults both say true")
				}
				if c.GetValue("transaction_enabled") != "true" {
					atomic.AddInt64(&empty, 1)
					msg.Store("GetValue(\"transaction_enabled\") is not \"true\" although the file and the defaults both say true")
				}
				if after && c.GetInt("net_udp_port", -1) != 6600 {
					atomic.AddInt64(&empty, 1)
					msg.Store("GetInt(\"net_udp_port\", -1) = -1 after the defaults had been applied")
				}
				atomic.AddInt64(&reads, 3)
			}
		}(r)
	}
	deadline := time.Now().Add(time.Duration(ms) * time.Millisecond)
	resets := 0
	for time.Now().Before(deadline) {
		os.Remove(path)
		c.ReloadNowForVerif() // file disappeared: reset to the defaults
		resetDone.Store(true)
		resets++
		writeFile(path, text)
		t = t.Add(1500 * time.Millisecond)
		os.Chtimes(path, t, t)
		c.ReloadNowForVerif()
	}
	stop.Store(true)
	wg.Wait()
	fmt.Printf("STATS resets=%d reads=%d empty=%d\n", resets, reads, empty)
	if empty > 0 {
		fmt.Println("EMPTY", msg.Load())
	}
	fmt.Println("SURVIVED")
}

func childWriteFault(dir, path, arg string) {
	f := strings.Fields(arg)
	if len(f) != 2 {
		fmt.Println("bad arg")
		os.Exit(2)
	}
	via, fault := f[0], f[1]
	var b strings.Builder
	for i := 0; i < 40; i++ {
		fmt.Fprintf(&b, "key_%02d=value number %d with padding padding padding\n", i, i)
	}
	old := b.String()
	writeFile(path, old)
	newText := strings.Replace(old, "key_07=value number 7 ", "key_07=changed value 7 ", 1)
	c := conffile.NewForVerif(conffile.WithHomePath(dir))
	parser := conffile.NewDefaultFileParser()
	// inject the fault
	switch {
	case strings.HasPrefix(fault, "fsize:"):
		var lim uint64
		fmt.Sscan(fault[6:], &lim)
		signal.Ignore(syscall.SIGXFSZ)
		if err := syscall.Setrlimit(syscall.RLIMIT_FSIZE, &syscall.Rlimit{Cur: lim, Max: lim}); err != nil {
			fmt.Println("RESULT setrlimit-failed", err)
			return
		}
	case fault == "rodir":
		os.Chmod(dir, 0o555)
		defer os.Chmod(dir, 0o755)
	}
	var err error
	kvs := map[string]string{"key_07": "changed value 7 with padding padding padding"}
	if via == "write" {
		m, _, _ := libRead(old)
		m["key_07"] = kvs["key_07"]
		err = parser.Write(path, &m)
	} else {
		c.SetValues(&kvs)
	}
	got, rerr := os.ReadFile(path)
	content := "other"
	switch {
	case rerr != nil:
		content = "other:missing"
	case string(got) == old:
		content = "old"
	case string(got) == newText:
		content = "new"
	default:
		content = fmt.Sprintf("other:%d-bytes(old %d, new %d)", len(got), len(old), len(newText))
	}
	ents, _ := os.ReadDir(dir)
	fmt.Printf("RESULT via=%s fault=%s err=%v content=%s entries=%d\n", via, fault, err != nil, content, len(ents))
}

// streamCreateFault: the temporary file cannot be created (file name so long that name+suffix exceeds
// NAME_MAX; directory not writable for an unprivileged process) while SetValues / Write run and readers poll
// the configuration file: the write-back must report the error and leave the file untouched — never a torn read.
func (h *harness) streamCreateFault() {
	variants := []string{"longname"}
	if os.Geteuid() == 0 {
		variants = append(variants, "setuid-rodir") // the child drops to an unprivileged user
	} else {
		variants = append(variants, "rodir")
	}
	for _, v := range variants {
		iters := "150"
		if h.env.Thorough {
			iters = "1500"
		}
		code, out, to := h.runChild("create-fault", 300*time.Second, "C18_ARG="+v+" "+iters)
		h.rep.Case("child create-fault "+v, true)
		h.rep.Count("child:create-fault")
		res := firstLineWith(out, "RESULT ")
		replay := map[string]interface{}{"mode": "create-fault", "variant": v, "exit_code": code, "output": vh.Clip(out, 800),
			"how": "configuration file of 300 lines; creating a temporary file next to it fails (" + v + "); SetValues(flip=A/B) and Write run " + iters + " times while 3 readers poll the file"}
		switch {
		case to:
			h.rep.Fail("property", "write:fault-hangs", "write-back with a failing CreateTemp hung", replay)
		case res == "":
			h.rep.Fail("property", "write:fault-crash", fmt.Sprintf("write-back with a failing CreateTemp died (exit code %d)", code), replay)
		case strings.Contains(res, "ineffective"):
			h.rep.Count("child:create-fault:ineffective")
		case !strings.Contains(res, "torn=0 "):
			h.rep.Fail("property", "write:create-fault-torn-read",
				"the temporary file could not be created ("+v+") and a reader polling the configuration file saw neither the old nor a complete new content: "+res, replay)
		case strings.Contains(res, "final=other"):
			h.rep.Fail("property", "write:fault-leaves-partial-file", "after write-backs with a failing CreateTemp the file holds neither the old nor a complete new content: "+res, replay)
		case strings.Contains(res, "final=old") && strings.Contains(res, "errors=0 "):
			h.rep.Fail("property", "write:fault-not-reported", "the temporary file could not be created, the file is untouched, but Write returned nil: "+res, replay)
		}
	}
}

func childCreateFault(dir, arg string) {
	f := strings.Fields(arg)
	variant, iters := f[0], 150
	if len(f) > 1 {
		fmt.Sscan(f[1], &iters)
	}
	var b strings.Builder
	b.WriteString("# polled file\n")
	for i := 0; i < 300; i++ {
		fmt.Fprintf(&b, "key_%03d=value number %d with some padding to make the write take longer\n", i, i)
	}
	b.WriteString("flip=A\n")
	old := b.String()
	// the complete contents a successful write-back would produce (normal directory, normal name)
	ref := filepath.Join(dir, "ref")
	os.MkdirAll(ref, 0o755)
	writeFile(filepath.Join(ref, "whatap.conf"), old)
	rc := conffile.NewForVerif(conffile.WithHomePath(ref))
	set := func(c *conffile.FileConfig, v string) {
		m := map[string]string{"flip": v}
		c.SetValues(&m)
	}
	set(rc, "B")
	cb, _ := os.ReadFile(filepath.Join(ref, "whatap.conf"))
	set(rc, "A")
	ca, _ := os.ReadFile(filepath.Join(ref, "whatap.conf"))
	contentA, contentB := string(ca), string(cb)

	work := filepath.Join(dir, "work")
	os.MkdirAll(work, 0o755)
	name := "whatap.conf"
	if variant == "longname" {
		name = strings.Repeat("c", 246) + ".conf" // 251 bytes: the file can exist, name + ".tmp…" cannot
	}
	path := filepath.Join(work, name)
	writeFile(path, old)
	os.Setenv("WHATAP_CONFIG", name)
	c := conffile.NewForVerif(conffile.WithHomePath(work))
	if variant == "rodir" || variant == "setuid-rodir" {
		os.Chmod(path, 0o666)
		os.Chmod(work, 0o555)
		defer os.Chmod(work, 0o755)
	}
	if variant == "setuid-rodir" {
		syscall.Setgroups([]int{})
		if err := syscall.Setgid(65534); err != nil {
			fmt.Println("RESULT ineffective setgid", err)
			return
		}
		if err := syscall.Setuid(65534); err != nil {
			fmt.Println("RESULT ineffective setuid", err)
			return
		}
	}
	// is the fault in effect?
	if tf, err := os.CreateTemp(work, name+".tmp*"); err == nil {
		tf.Close()
		os.Remove(tf.Name())
		fmt.Println("RESULT ineffective: a temporary file can be created")
		return
	}
	if _, err := os.ReadFile(path); err != nil {
		fmt.Println("RESULT ineffective: the configuration file is not readable:", err)
		return
	}
	var stop atomic.Bool
	var wg sync.WaitGroup
	var reads, torn int64
	var tornLen atomic.Int64
	for r := 0; r < 3; r++ {
		wg.Add(1)
		go func() {
			defer wg.Done()
			for !stop.Load() {
				got, err := os.ReadFile(path)
				atomic.AddInt64(&reads, 1)
				if err != nil {
					atomic.AddInt64(&torn, 1)
					tornLen.Store(-1)
					continue
				}
				if s := string(got); s != old && s != contentA && s != contentB {
					atomic.AddInt64(&torn, 1)
					tornLen.Store(int64(len(got)))
				}
			}
		}()
	}
	parser := conffile.NewDefaultFileParser()
	errors := 0
	writes := 0
	for i := 0; i < iters; i++ {
		v := "B"
		if i%2 == 1 {
			v = "A"
		}
		if i%5 == 4 {
			m, _, _ := libRead(old)
			m["flip"] = v
			if err := parser.Write(path, &m); err != nil {
				errors++
			}
			writes++
		} else {
			set(c, v)
		}
	}
	stop.Store(true)
	wg.Wait()
	got, _ := os.ReadFile(path)
	final := "other"
	switch string(got) {
	case old, contentA:
		final = "old"
	case contentB:
		final = "new"
	}
	if string(got) == contentA && contentA != old {
		final = "new"
	}
	fmt.Printf("RESULT variant=%s torn=%d (last torn length %d of %d) reads=%d direct_writes=%d errors=%d final=%s\n",
		variant, torn, tornLen.Load(), len(old), reads, writes, errors, final)
}
