// Correspondence harness for C18: config/conffile.FileConfig + DefaultFileParser against the
// Lean CodeModel Golib.Conf.* (driver drv_c18).
//
// Streams:
//
//	getters    one file holding every value text of the pools; every typed getter × defaults
//	parse      random properties texts → DefaultFileParser.Read vs the lexer model
//	write      random texts × key/value sets → DefaultFileParser.Write / FileConfig.SetValues vs the
//	           write-back model, and the property evaluated directly (other keys keep their values,
//	           comment lines and line order survive, written values read back)
//	history    edit histories (os.Chtimes-controlled and natural mtimes, several edits within one
//	           second, deletions) × reloads × observers × getters vs the reload state machine
//	crash      the file-system call sequence of DefaultFileParser.Write (extracted from the source)
//	           replayed prefix by prefix on a scratch file; a reader polling the file during SetValues
//	race       (child process) getters hammered while reloads run; a fatal "concurrent map" abort or a
//	           race-detector report is an outcome, not a harness crash
//	fatal      (child process) a malformed file / a vanished file must not terminate the process
//
// The model describes the behaviour with the proposed fixes applied; on the unchanged code the
// defects are reported under stable keys with a replay.
package main

import (
	"encoding/json"
	"fmt"
	"math"
	"os"
	"path/filepath"
	"sort"
	"strconv"
	"strings"
	"time"

	"github.com/magiconair/properties"
	"github.com/whatap/golib/config"
	"github.com/whatap/golib/config/conffile"
	"github.com/whatap/golib/util/hash"
	"github.com/whatap/golib/util/stringutil"
	"verif/harness/vh"
)

const envKey = "C18_ENV_FALLBACK_KEY"
const envVal = " from env "

// ---------------------------------------------------------------- checks against the driver

type check struct {
	line   string
	want   string                // canonical observation of the implementation
	canon  func(string) string   // canonicalisation of the driver answer (nil = identity)
	cmp    func(got string) bool // custom comparison (overrides want/canon)
	group  int                   // lines of one history share a group: after the first diff the rest is skipped
	onDiff func(got string)      // classify and report
}

type harness struct {
	env    *vh.Env
	rep    *vh.Report
	rng    *vh.Rng
	tmp    string
	checks []check
	groups int
	// probes
	mustLoadFatal bool // malformed file terminates the process (unfixed DefaultFileParser)
	faultChecks   int
	skipKinds     string            // observer kinds the history stream must not use (after a worker crash)
	curFile       string            // where the history in progress is mirrored (worker process)
	defaults      map[string]string // ApplyDefault's table, taken from the implementation
	defaultKeys   []string
	notifyReset   bool           // the implementation runs the observers after a reset to the defaults (fix-D46 applied)
	longLinesOK   bool           // lines longer than bufio's buffer survive a write-back (fix-D45 applied): generate them
	hangs         map[string]int // hangs seen per re-entrant observer kind (a kind that hung twice is not tried again)
}

func (h *harness) add(c check) { h.checks = append(h.checks, c) }

func (h *harness) newGroup() int { h.groups++; return h.groups }

func (h *harness) runDriver() {
	lines := make([]string, len(h.checks))
	for i, c := range h.checks {
		lines[i] = c.line
	}
	outs, err := vh.RunDriver(h.env.Driver, lines)
	if err != nil {
		vh.Die("%v", err)
	}
	dead := map[int]bool{}
	for i, c := range h.checks {
		if c.group != 0 && dead[c.group] {
			continue
		}
		got := outs[i]
		ok := false
		if c.cmp != nil {
			ok = c.cmp(got)
		} else {
			g := got
			if c.canon != nil {
				g = c.canon(got)
			}
			ok = g == c.want
		}
		if !ok {
			if c.group != 0 {
				dead[c.group] = true
			}
			if c.onDiff != nil {
				c.onDiff(got)
			} else {
				h.rep.Fail("correspondence", "model:"+strings.SplitN(c.line, " ", 2)[0], "model and implementation disagree",
					map[string]interface{}{"line": vh.Clip(c.line, 600), "impl": vh.Clip(c.want, 600), "model": vh.Clip(got, 600)})
			}
		}
	}
}

// ---------------------------------------------------------------- implementation helpers

type obsTarget struct {
	count int
	last  map[string]string // what the getters answered inside the most recent notification
	// bookkeeping of the history stream
	id         int
	name       string
	when       string // registered: before-construction | after-construction | between-reloads
	registered bool
	prev       int
	light      bool                  // count only
	hook       func(c config.Config) // re-entrant behaviour: runs inside the notification
}

func (o *obsTarget) ApplyConfig(c config.Config) {
	o.count++
	if o.hook != nil {
		o.hook(c)
	}
	if o.light {
		return
	}
	o.last = map[string]string{}
	for _, k := range c.GetKeys() {
		o.last[k] = c.GetValue(k)
	}
}

type cfgEnv struct {
	dir      string
	path     string
	c        *conffile.FileConfig
	obs      *obsTarget
	observer *config.ConfigObserver
}

var dirSeq int

func (h *harness) newDir() (string, string) {
	dirSeq++
	d := filepath.Join(h.tmp, fmt.Sprintf("d%d", dirSeq))
	if err := os.MkdirAll(d, 0o755); err != nil {
		vh.Die("mkdir: %v", err)
	}
	return d, filepath.Join(d, "whatap.conf")
}

func newCfg(dir string, opts ...conffile.FileConfigOption) *cfgEnv {
	return newCfgObs(dir, config.NewConfigObserver(), opts...)
}

// newCfgObs: o may already hold registrations; the reference target "verif" is added to it.
func newCfgObs(dir string, o *config.ConfigObserver, opts ...conffile.FileConfigOption) *cfgEnv {
	e := &cfgEnv{dir: dir, path: filepath.Join(dir, "whatap.conf"), obs: &obsTarget{name: "verif", when: "before-construction", registered: true}, observer: o}
	o.Add("verif", e.obs)
	all := append([]conffile.FileConfigOption{conffile.WithHomePath(dir), conffile.WithConfigObserver(o)}, opts...)
	e.c = conffile.NewForVerif(all...)
	return e
}

func writeFile(path, text string) {
	if err := os.WriteFile(path, []byte(text), 0o644); err != nil {
		vh.Die("write %s: %v", path, err)
	}
}

func statNs(path string) (int64, int64) {
	st, err := os.Stat(path)
	if err != nil {
		vh.Die("stat: %v", err)
	}
	return st.ModTime().UnixNano(), st.Size()
}

// rawHasExpansion: does some *value* of the text (not a comment) contain "${"?  Decided with the
// library itself, expansion switched off.
func rawHasExpansion(text string) bool {
	if !strings.Contains(text, "${") {
		return false
	}
	l := &properties.Loader{Encoding: properties.UTF8, DisableExpansion: true}
	p, err := l.LoadBytes([]byte(text))
	if err != nil {
		return true // cannot tell: treat as outside the model
	}
	for _, k := range p.Keys() {
		if v, _ := p.Get(k); strings.Contains(v, "${") {
			return true
		}
	}
	return false
}

// libParse: the third-party parser itself (trusted reference for "what the file says")
func libParse(text string) (*properties.Properties, error) {
	return properties.LoadString(text)
}

func libRead(text string) (map[string]string, []string, error) {
	p, err := libParse(text)
	if err != nil {
		return nil, nil, err
	}
	m := map[string]string{}
	for _, k := range p.Keys() {
		v, _ := p.Get(k)
		if v != "" {
			m[k] = v
		}
	}
	return m, p.Keys(), nil
}

// ---------------------------------------------------------------- direct specification of the getters (Go mirror)

func specValue(m map[string]string, k string) string {
	if v, ok := m[k]; ok {
		return strings.TrimSpace(v)
	}
	return os.Getenv(k)
}
func specIntSet(v, deli string) []int32 {
	out := []int32{}
	for _, x := range stringutil.Tokenizer(v, deli) {
		if n, err := strconv.Atoi(strings.TrimSpace(x)); err == nil {
			out = append(out, int32(n))
		}
	}
	return out
}

// ---------------------------------------------------------------- stream: getters

type getterCall struct {
	kind           string
	key, def, deli string
	defB           bool
	defI           int64
	defF           float32
}

func (g getterCall) line() string {
	switch g.kind {
	case "v":
		return "G v " + encStr(g.key)
	case "d":
		return "G d " + encStr(g.key) + " " + encStr(g.def)
	case "b":
		return "G b " + encStr(g.key) + " " + map[bool]string{true: "1", false: "0"}[g.defB]
	case "i":
		return fmt.Sprintf("G i %s %d", encStr(g.key), g.defI)
	case "l":
		return fmt.Sprintf("G l %s %d", encStr(g.key), g.defI)
	case "f":
		return "G f " + encStr(g.key)
	case "a":
		return "G a " + encStr(g.key) + " " + encStr(g.def) + " " + encStr(g.deli)
	case "s":
		return "G s " + encStr(g.key) + " " + encStr(g.def) + " " + encStr(g.deli)
	case "h":
		return "G h " + encStr(g.key) + " " + encStr(g.def) + " " + encStr(g.deli)
	}
	panic("kind")
}

// callGetter evaluates the getter on the implementation and renders it like the driver does.
func callGetter(c *conffile.FileConfig, g getterCall) (string, vh.Outcome) {
	var res string
	oc := vh.Guard(func() {
		switch g.kind {
		case "v":
			res = encStr(c.GetValue(g.key))
		case "d":
			res = encStr(c.GetValueDef(g.key, g.def))
		case "b":
			res = map[bool]string{true: "1", false: "0"}[c.GetBoolean(g.key, g.defB)]
		case "i":
			res = fmt.Sprint(c.GetInt(g.key, int(g.defI)))
		case "l":
			res = fmt.Sprint(c.GetLong(g.key, g.defI))
		case "f":
			res = fmt.Sprint(math.Float32bits(c.GetFloat(g.key, g.defF)))
		case "a":
			res = encList(c.GetStringArray(g.key, g.def, g.deli))
		case "s":
			res = encInts(c.GetIntSet(g.key, g.def, g.deli))
		case "h":
			res = encInts(c.GetStringHashSet(g.key, g.def, g.deli)) + "|" + encInts(c.GetStringHashCodeSet(g.key, g.def, g.deli))
		}
	})
	return res, oc
}

var intDefs = []int64{0, 7, -1, 2147483647, -2147483648, 2147483648, 4294967301, math.MaxInt64, math.MinInt64}
var strDefs = []string{"", "dflt", "1,2", " 5 ; 6 ", "x"}
var delis = []string{",", ";", ",;", "", " ", ", "}

func genGetter(r *vh.Rng, key string) getterCall {
	g := getterCall{key: key}
	g.kind = r.PickStr([]string{"v", "d", "b", "i", "l", "f", "a", "s", "s", "h"})
	g.def = r.PickStr(strDefs)
	g.deli = r.PickStr(delis)
	g.defB = r.Bool()
	g.defI = r.Pick64(intDefs)
	g.defF = []float32{0, 1.5, -2, float32(math.Inf(1))}[r.Intn(4)]
	return g
}

// addGetter calls the getter on the implementation and queues the model line.
// mapNow is the harness's own idea of the value (for the direct spec of GetIntSet / floats).
// specGetter is the property evaluated directly: parse-or-default over the (trimmed) value the
// configuration holds for the key ("" when there is none).
func specGetter(v string, g getterCall) string {
	vd := v
	if vd == "" {
		vd = g.def
	}
	switch g.kind {
	case "v":
		return encStr(v)
	case "d":
		return encStr(vd)
	case "b":
		r := g.defB
		if v != "" {
			if x, err := strconv.ParseBool(v); err == nil {
				r = x
			}
		}
		return map[bool]string{true: "1", false: "0"}[r]
	case "i":
		r := int32(g.defI)
		if v != "" {
			if x, err := strconv.ParseInt(v, 10, 32); err == nil {
				r = int32(x)
			}
		}
		return fmt.Sprint(r)
	case "l":
		r := g.defI
		if v != "" {
			if x, err := strconv.ParseInt(v, 10, 64); err == nil {
				r = x
			}
		}
		return fmt.Sprint(r)
	case "f":
		r := g.defF
		if v != "" {
			if x, err := strconv.ParseFloat(v, 32); err == nil {
				r = float32(x)
			}
		}
		return fmt.Sprint(math.Float32bits(r))
	case "a":
		if vd == "" {
			return encList(nil)
		}
		var out []string
		for _, t := range stringutil.Tokenizer(vd, g.deli) {
			out = append(out, strings.TrimSpace(t))
		}
		return encList(out)
	case "s":
		return encInts(specIntSet(vd, g.deli))
	case "h":
		var toks []string
		for _, t := range stringutil.Tokenizer(vd, g.deli) {
			toks = append(toks, strings.TrimSpace(t))
		}
		return hashBoth(toks)
	}
	return "?"
}

// hashBoth applies the two hash functions of the hash-set getters to the tokens the model names.
func hashBoth(toks []string) string {
	var a, b []int32
	for _, t := range toks {
		a = append(a, hash.HashStr(t))
		b = append(b, int32(stringutil.HashCode(t)))
	}
	return encInts(a) + "|" + encInts(b)
}

var getterName = map[string]string{"h": "GetStringHashSet/GetStringHashCodeSet", "v": "GetValue", "d": "GetValueDef", "b": "GetBoolean", "i": "GetInt", "l": "GetLong", "f": "GetFloat", "a": "GetStringArray", "s": "GetIntSet"}

// addGetter calls the getter on the implementation, evaluates the property directly and queues the
// model line.  valueOf gives what the configuration should hold for a key (nil: ask GetValue).
func (h *harness) addGetter(ce *cfgEnv, g getterCall, group int, ctx func() interface{}, valueOf ...func(string) string) {
	want, oc := callGetter(ce.c, g)
	h.rep.Count("getter:" + g.kind)
	if !oc.OK() {
		h.rep.Fail("property", "getter-panic:"+g.kind, "getter panicked: "+oc.Panic, map[string]interface{}{"getter": g.line(), "context": ctx()})
		return
	}
	if g.kind != "s" {
		var v string
		if len(valueOf) > 0 && valueOf[0] != nil {
			v = valueOf[0](g.key)
		} else {
			v = ce.c.GetValue(g.key)
		}
		if spec := specGetter(v, g); spec != want {
			h.rep.Fail("property", getterName[g.kind]+":not-parse-or-default",
				fmt.Sprintf("%s(%q) with value %q answered %s; parse-or-default gives %s", getterName[g.kind], g.key, v, want, spec),
				map[string]interface{}{"getter": g.line(), "value": v, "got": want, "expected": spec, "context": ctx()})
			return
		}
	}
	c := check{line: g.line(), want: want, group: group}
	if g.kind == "f" {
		// the model says "def" or "parse <trimmed text>"; float parsing itself is strconv's (tie B only)
		c.cmp = func(got string) bool {
			exp := g.defF
			if strings.HasPrefix(got, "parse ") {
				if v, err := strconv.ParseFloat(decStr(got[6:]), 32); err == nil {
					exp = float32(v)
				}
			} else if got != "def" {
				return false
			}
			return fmt.Sprint(math.Float32bits(exp)) == want
		}
	}
	if g.kind == "h" {
		// the model names the tokens that are hashed; the hash functions themselves are the library's
		c.cmp = func(got string) bool {
			if strings.HasPrefix(got, "bad") {
				return false
			}
			return hashBoth(decList(got)) == want
		}
	}
	if g.kind == "s" {
		// direct evaluation of the property on the implementation: the set is the parsed integers of the tokens
		v := ce.c.GetValueDef(g.key, g.def)
		spec := encInts(specIntSet(v, g.deli))
		if spec != want {
			h.rep.Fail("property", "GetIntSet:valid-integers-dropped",
				fmt.Sprintf("GetIntSet(%q) over value %q with delimiters %q returned %s, the integers among its tokens are %s", g.key, v, g.deli, want, spec),
				map[string]interface{}{"value": v, "delimiters": g.deli, "got": want, "expected": spec})
			return // the model describes the repaired behaviour; the defect is already reported
		}
	}
	c.onDiff = func(got string) {
		h.rep.Fail("correspondence", "getter:"+g.kind, "getter result differs from the model",
			map[string]interface{}{"getter": g.line(), "impl": want, "model": got, "context": ctx()})
	}
	h.add(c)
}

func (h *harness) streamGetters() {
	// one file with every value text of the pools
	var texts []string
	for _, p := range [][]string{intTexts, boolTexts, floatTexts, listTexts, miscTexts} {
		texts = append(texts, p...)
	}
	var b strings.Builder
	keys := []string{}
	for i, t := range texts {
		if strings.Contains(t, "${") {
			continue
		}
		k := fmt.Sprintf("g%d", i)
		keys = append(keys, k)
		b.WriteString(k + "=" + t + "\n")
	}
	text := b.String()
	if _, err := libParse(text); err != nil {
		vh.Die("getter table does not parse: %v", err)
	}
	dir, path := h.newDir()
	writeFile(path, text)
	ns, _ := statNs(path)
	ce := newCfg(dir)
	grp := h.newGroup()
	h.add(check{line: "N", want: "ok", group: grp})
	h.add(check{line: fmt.Sprintf("E %d %s", ns, encStr(text)), want: "ok", group: grp})
	h.add(check{line: "R", want: fmt.Sprint(ce.obs.count), canon: lastField, group: grp})
	keys = append(keys, "absent_key", envKey, "")
	ctx := func() interface{} { return map[string]interface{}{"file": vh.Clip(text, 400)} }
	fileMap, _, _ := libRead(text)
	valueOf := func(k string) string {
		if v, ok := fileMap[k]; ok {
			return strings.TrimSpace(v)
		}
		return os.Getenv(k)
	}
	for _, k := range keys {
		for _, kind := range []string{"v", "d", "b", "i", "l", "f", "a", "s", "h"} {
			n := 2
			if kind == "v" || kind == "f" {
				n = 1
			}
			for j := 0; j < n; j++ {
				g := genGetter(h.rng, k)
				g.kind = kind
				h.rep.Case(g.line(), true)
				h.addGetter(ce, g, 0, ctx, valueOf)
			}
		}
	}
	ce.c.Destroy()
}

func lastField(s string) string {
	f := strings.Fields(s)
	if len(f) == 0 {
		return s
	}
	return f[len(f)-1]
}

// ---------------------------------------------------------------- stream: parse

func (h *harness) streamParse(n int) {
	parser := conffile.NewDefaultFileParser()
	_, path := h.newDir()
	for i := 0; i < n; i++ {
		var text string
		switch {
		case h.rng.Chance(4):
			text = genText(h.rng, 4, 30) + h.rng.PickStr(malformedTexts)
		case h.rng.Chance(2):
			text = h.rng.PickStr(expansionTexts)
		default:
			text = genText(h.rng, 8, 45)
		}
		_, _, lerr := libRead(text)
		hasExp := rawHasExpansion(text)
		h.rep.Case("P "+text, text != "")
		var want string
		switch {
		case lerr != nil:
			h.rep.Count("parse:malformed")
			if hasExp {
				continue // malformed *because of* an expansion: outside the model
			}
			want = "malformed"
			if !h.mustLoadFatal {
				writeFile(path, text)
				var m map[string]string
				var err error
				oc := vh.Guard(func() { m, err = parser.Read(path) })
				if oc.OK() && err == nil {
					h.rep.Fail("correspondence", "parse:malformed-accepted", "Read accepted a text the properties library rejects",
						map[string]interface{}{"text": text, "read": fmt.Sprint(m)})
				}
			}
		case hasExp:
			h.rep.Count("parse:expansion")
			want = "expansion"
		default:
			h.rep.Count("parse:ok")
			writeFile(path, text)
			var m map[string]string
			oc := vh.Guard(func() { m, _ = parser.Read(path) })
			if !oc.OK() {
				h.rep.Fail("property", "parse:panic", "Read panicked: "+oc.Panic, map[string]interface{}{"text": text})
				continue
			}
			want = "ok " + encPairs(sortedPairs(m))
		}
		if i < 3 {
			h.rep.Sample(map[string]interface{}{"stream": "parse", "text": vh.Clip(text, 300), "read": vh.Clip(want, 300)})
		}
		text2 := text
		h.add(check{line: "P " + encStr(text), want: want, canon: canonParse, onDiff: func(got string) {
			h.rep.Fail("correspondence", "parse:model", "the lexer model and the properties library disagree (third-party parser: compared, not proved)",
				map[string]interface{}{"text": text2, "impl": want, "model": got})
		}})
	}
}

// ---------------------------------------------------------------- stream: write-back

func isCommentOrBlank(l string) bool {
	t := strings.TrimLeft(l, " \t\x0c")
	return t == "" || t[0] == '#' || t[0] == '!'
}

func physLines(text string) []string {
	ls := strings.Split(text, "\n")
	if len(ls) > 0 && ls[len(ls)-1] == "" {
		ls = ls[:len(ls)-1]
	}
	for i := range ls {
		ls[i] = strings.TrimSuffix(ls[i], "\r")
	}
	return ls
}

func commentSeq(text string) []string {
	var out []string
	for _, l := range physLines(text) {
		if isCommentOrBlank(l) {
			out = append(out, l)
		}
	}
	return out
}

// passSeq: the lines Write copies as they are — comment lines, blank lines and every line without '='
// (the property: each of them is byte-identical and in place after a write-back).
func passSeq(text string) []string {
	var out []string
	for _, l := range physLines(text) {
		if isCommentOrBlank(l) || !strings.Contains(l, "=") {
			out = append(out, l)
		}
	}
	return out
}

// hasContinuation: a physical line ending in an odd number of backslashes
func hasContinuation(text string) bool {
	for _, l := range physLines(text) {
		n := 0
		for i := len(l) - 1; i >= 0 && l[i] == '\\'; i-- {
			n++
		}
		if n%2 == 1 {
			return true
		}
	}
	return false
}

type writeCase struct {
	text         string
	kvs          map[string]string // as handed to SetValues
	pre, suf     string
	excl         []string
	viaSetValues bool
	noModel      bool // too large for the compiled model (deep recursion): judged by the direct clauses only
	foreignTemp  bool // files named like temporary files lie in the directory before the write
}

func finalKeyOf(w writeCase, k string) (string, bool) {
	for _, e := range w.excl {
		if e == k {
			return "", false
		}
	}
	if w.pre != "" && !strings.HasPrefix(k, w.pre) {
		k = w.pre + k
	}
	if w.suf != "" && !strings.HasSuffix(k, w.suf) {
		k = k + w.suf
	}
	return k, true
}

// evalWriteProperty evaluates the write-back part of the property directly on what the
// implementation did: old text → new text under the (final-key) assignments kvs.
// Returns a list of (class, message).
func evalWriteProperty(oldText, newText string, assigned map[string]string) [][2]string {
	var bad [][2]string
	before, keysBefore, err1 := libRead(oldText)
	after, keysAfter, err2 := libRead(newText)
	if err1 != nil {
		return nil
	}
	if err2 != nil {
		return [][2]string{{"merge", "the rewritten file no longer parses: " + err2.Error()}}
	}
	// expected merged map
	exp := map[string]string{}
	for k, v := range before {
		exp[k] = v
	}
	for k, v := range assigned {
		if k == "" {
			continue
		}
		if strings.TrimSpace(v) == "" {
			delete(exp, k)
		} else {
			exp[k] = v
		}
	}
	for k, v := range exp {
		if strings.TrimSpace(v) == "" {
			delete(exp, k)
		}
	}
	keys := map[string]bool{}
	for k := range exp {
		keys[k] = true
	}
	for k := range after {
		keys[k] = true
	}
	ks := make([]string, 0, len(keys))
	for k := range keys {
		ks = append(ks, k)
	}
	sort.Strings(ks)
	for _, k := range ks {
		e, eok := exp[k]
		a, aok := after[k]
		if eok != aok || e != a {
			_, was := assigned[k]
			what := "other key changed"
			if was {
				what = "written value does not read back"
			}
			bad = append(bad, [2]string{"merge", fmt.Sprintf("%s: key %q expected %q (present=%v) got %q (present=%v)", what, k, e, eok, a, aok)})
			break
		}
	}
	// every line that is not a key=value line (comments, blank lines, lines without '=') is byte-identical
	// and in order.  (Skipped when a value holds a line break: such a value spills into extra lines — the
	// value-escape finding.)
	spill := false
	for _, m := range []map[string]string{before, assigned} {
		for _, v := range m {
			if strings.ContainsAny(v, "\r\n") {
				spill = true
			}
		}
	}
	if !spill {
		cb, ca := passSeq(oldText), passSeq(newText)
		if strings.Join(cb, "\n") != strings.Join(ca, "\n") {
			i := 0
			for i < len(cb) && i < len(ca) && cb[i] == ca[i] {
				i++
			}
			was, now := "(none)", "(none)"
			if i < len(cb) {
				was = cb[i]
			}
			if i < len(ca) {
				now = ca[i]
			}
			bad = append(bad, [2]string{"comment", fmt.Sprintf("a line that is not one of the written keys was not copied byte for byte: %q became %q", was, now)})
		}
	}
	// order: surviving keys keep their relative order, new keys come after them
	var expOrder []string
	seen := map[string]bool{}
	for _, k := range keysBefore {
		if _, ok := after[k]; ok && !seen[k] {
			expOrder = append(expOrder, k)
			seen[k] = true
		}
	}
	var gotOld []string
	for _, k := range keysAfter {
		if seen[k] {
			gotOld = append(gotOld, k)
		}
	}
	if len(bad) == 0 && strings.Join(expOrder, "\x00") != strings.Join(gotOld[:min(len(gotOld), len(expOrder))], "\x00") {
		bad = append(bad, [2]string{"order", fmt.Sprintf("key order before %q after %q", expOrder, keysAfter)})
	}
	return bad
}

func (h *harness) streamWrite(n int) {
	parser := conffile.NewDefaultFileParser()
	for i := 0; i < n; i++ {
		w := writeCase{kvs: map[string]string{}}
		wfOnly := h.rng.Chance(55) // a case entirely inside the well-formedness class of the theorem
		exotic, odd := 35, 25
		if wfOnly {
			exotic, odd = 0, 0
		}
		w.text = genText(h.rng, 8, exotic)
		if h.longLinesOK && h.rng.Chance(4) {
			w.text += "big_value=" + strings.Repeat("abcdefghi ", 450+h.rng.Intn(200)) + "\n"
		}
		if strings.Contains(w.text, "${") {
			continue
		}
		if _, _, err := libRead(w.text); err != nil {
			continue
		}
		nk := h.rng.Intn(5)
		for j := 0; j < nk; j++ {
			k, v := genSetKV(h.rng, odd)
			w.kvs[k] = v
		}
		w.viaSetValues = h.rng.Chance(50)
		if w.viaSetValues && h.rng.Chance(40) {
			w.pre = h.rng.PickStr([]string{"", "whatap.", "k"})
			w.suf = h.rng.PickStr([]string{"", "_x", "1"})
			if h.rng.Chance(50) {
				w.excl = []string{h.rng.PickStr(simpleKeys)}
			}
		}
		w.foreignTemp = h.rng.Chance(25)
		h.oneWrite(parser, w, wfOnly, i)
	}
	h.streamLongLines(parser)
}

// streamLongLines: one line of a length around every buffer size a line reader may have (4096: bufio.Reader,
// 65536: bufio.Scanner's token limit, and beyond), as a value, a comment and a line without '=', followed by
// comments and keys: after the write-back everything after the long line must still be there, in place.
func (h *harness) streamLongLines(parser *conffile.DefaultFileParser) {
	if !h.longLinesOK {
		return // the long-line defect is present (reported by its own replay); nothing to add
	}
	lens := []int{4095, 4096, 4097, 8191, 8192, 8193, 65535, 65536, 65537, 100 << 10}
	kinds := []string{"value", "comment", "junk"}
	if h.env.Thorough {
		lens = append(lens, 1<<20, 1<<20+1)
	} else {
		lens = append(lens, 1<<20)
	}
	for li, n := range lens {
		for ki, kind := range kinds {
			if !h.env.Thorough && n >= 100<<10 && ki != li%3 {
				continue // quick: one kind per huge length
			}
			var long string
			switch kind {
			case "value":
				long = "big=" + strings.Repeat("v", n-4)
			case "comment":
				long = "# " + strings.Repeat("c%d ", n/4+1)[:n-2]
			default:
				long = strings.Repeat("w", n/2) + " " + strings.Repeat("x", n-n/2-1)
			}
			text := "first=1\n# head comment\n" + long + "\n# after = the long line\nmid=2\n! bang %s\nplain words after\nlast=3\n"
			w := writeCase{text: text, kvs: map[string]string{"mid": "changed", "added": "new"}, viaSetValues: li%2 == 0}
			w.noModel = false // the compiled model is tail-recursive where it matters (Write.lean, @[csimp])
			h.rep.Count(fmt.Sprintf("write:long-line:%s", kind))
			h.oneWrite(parser, w, false, 1000)
		}
	}
}

func (h *harness) oneWrite(parser *conffile.DefaultFileParser, w writeCase, wfOnly bool, idx int) {
	dir, path := h.newDir()
	writeFile(path, w.text)
	entriesBefore := 1
	if w.foreignTemp {
		// leftovers of somebody's interrupted write, longer than anything this write produces
		junk := strings.Repeat("zzz_leftover=from an interrupted write\n", 400+len(w.text)/30)
		for _, n := range []string{"whatap.conf.tmp", "whatap.conf.tmp123456789", ".whatap.conf.swp", "whatap.conf~"} {
			writeFile(filepath.Join(dir, n), junk)
			entriesBefore++
		}
		h.rep.Count("write:foreign-temp-files")
	}
	// final assignments (after exclusions / prefix / suffix); colliding final keys make the outcome depend on
	// map iteration order: skip those
	assigned := map[string]string{}
	collide := false
	for k, v := range w.kvs {
		fk := k
		if w.viaSetValues {
			var ok bool
			if fk, ok = finalKeyOf(w, k); !ok {
				continue
			}
		}
		if _, dup := assigned[fk]; dup {
			collide = true
		}
		assigned[fk] = v
	}
	if collide {
		return
	}
	var line string
	var oc vh.Outcome
	if w.viaSetValues {
		ce := newCfg(dir, conffile.WithPrefix(w.pre), conffile.WithSuffix(w.suf), conffile.WithExcludeKeys(w.excl))
		kvs := map[string]string{}
		for k, v := range w.kvs {
			kvs[k] = v
		}
		oc = vh.Guard(func() { ce.c.SetValues(&kvs) })
		ce.c.Destroy()
		line = fmt.Sprintf("S 1 %s %s %s %s %s", encStr(w.pre), encStr(w.suf), encList(w.excl), encStr(w.text), encPairs(sortedPairs(w.kvs)))
		h.rep.Count("write:SetValues")
	} else {
		// Write is handed Read(file) merged with the assignments, as SetValues does
		m, _, _ := libRead(w.text)
		for k, v := range w.kvs {
			m[k] = v
		}
		oc = vh.Guard(func() { parser.Write(path, &m) })
		line = fmt.Sprintf("W 1 %s %s", encStr(w.text), encPairs(sortedPairs(m)))
		h.rep.Count("write:Write")
	}
	replay := map[string]interface{}{"text": w.text, "kvs": w.kvs, "prefix": w.pre, "suffix": w.suf, "exclude": w.excl, "via_set_values": w.viaSetValues}
	if !oc.OK() {
		h.rep.Fail("property", "writeback:panic", "write-back panicked: "+oc.Panic, replay)
		return
	}
	nb, err := os.ReadFile(path)
	if err != nil {
		h.rep.Fail("property", "writeback:file-missing", "the configuration file is gone after the write-back", replay)
		return
	}
	newText := string(nb)
	replay["written"] = newText
	h.rep.Case(line, len(assigned) > 0)
	if idx < 3 {
		h.rep.Sample(map[string]interface{}{"stream": "write", "text": vh.Clip(w.text, 300), "kvs": w.kvs, "written": vh.Clip(newText, 300)})
	}
	// leftovers of the temp-file protocol
	if ents, _ := os.ReadDir(dir); len(ents) != entriesBefore {
		h.rep.Fail("property", "writeback:temp-file-left", fmt.Sprintf("%d entries in the directory after the write-back", len(ents)), replay)
	}

	// ---- the property, evaluated directly on the implementation
	allWF := !hasContinuation(w.text)
	keyWF, valWF := true, true
	before, _, _ := libRead(w.text)
	for k, v := range before {
		if !wfKey(k) {
			keyWF = false
		}
		if !wfVal(v) {
			valWF = false
		}
	}
	for k, v := range assigned {
		if k != "" && !wfKey(k) {
			keyWF = false
		}
		if !wfVal(v) {
			valWF = false
		}
	}
	// keys whose line uses ':' or blank as separator, or an escape in the key text, are outside WFprops
	for _, l := range physLines(w.text) {
		if isCommentOrBlank(l) {
			continue
		}
		i := strings.Index(l, "=")
		if i < 0 || !wfKey(strings.Trim(l[:i], " ")) {
			allWF = false
		}
	}
	if strings.Contains(w.text, "\r") {
		allWF = false
	}
	bad := evalWriteProperty(w.text, newText, assigned)
	for _, b := range bad {
		var key string
		switch {
		case b[0] == "comment":
			key = "write-back:pass-through-line"
		case !keyWF:
			key = "writeback:key-escape"
		case !valWF:
			key = "writeback:value-escape"
		case !allWF:
			key = "writeback:line-shape" // ':' / blank separators, continuation lines, CR line ends
		default:
			key = "writeback:" + b[0]
		}
		h.rep.Count("write:property-fail:" + key)
		if key == "writeback:line-shape" {
			// outside WFprops and not claimed by the theorem; counted, not reported
			continue
		}
		h.rep.Fail("property", key, b[1], replay)
	}
	if wfOnly && !(allWF && keyWF && valWF) {
		h.rep.Count("write:wfOnly-but-not-wf")
	}
	if allWF && keyWF && valWF {
		h.rep.Count("write:inside-WF")
	}

	// ---- the model
	if w.noModel {
		h.rep.Count("write:direct-clauses-only")
		return
	}
	h.add(check{line: line, cmp: func(got string) bool { return matchWrite(newText, got) }, onDiff: func(got string) {
		for _, b := range bad {
			if b[0] == "comment" {
				return // already reported with a failing input under write-back:pass-through-line
			}
		}
		h.rep.Fail("correspondence", "writeback:model", "write-back model and implementation disagree",
			map[string]interface{}{"case": replay, "model": vh.Clip(got, 1500)})
	}})
}

func matchWrite(implText, got string) bool {
	if !strings.HasPrefix(got, "ok ") {
		return false
	}
	f := strings.Split(got, " ")
	if len(f) != 3 {
		return false
	}
	body := decList(f[1])
	app := decList(f[2])
	prefix := ""
	for _, l := range body {
		prefix += l + "\n"
	}
	if !strings.HasPrefix(implText, prefix) {
		return false
	}
	rest := strings.Split(implText[len(prefix):], "\n")
	exp := ""
	for _, l := range app {
		exp += l + "\n"
	}
	want := strings.Split(exp, "\n")
	sort.Strings(rest)
	sort.Strings(want)
	return strings.Join(rest, "\n") == strings.Join(want, "\n")
}

// ---------------------------------------------------------------- stream: histories

// ---------------------------------------------------------------- main

func main() {
	if mode := os.Getenv("C18_CHILD"); mode != "" {
		childMain(mode)
		return
	}
	env, rep := vh.Parse("C18")
	os.Unsetenv("WHATAP_HOME")
	os.Unsetenv("WHATAP_CONFIG")
	os.Unsetenv("WHATAP_CONFIG_HOME")
	os.Setenv(envKey, envVal)
	if env.Replay != "" {
		// best effort: every case derives from (seed, tier); re-run the streams of the recorded run
		var rp struct {
			Seed uint64 `json:"seed"`
			Tier string `json:"tier"`
		}
		if b, err := os.ReadFile(env.Replay); err == nil && json.Unmarshal(b, &rp) == nil && rp.Seed != 0 {
			env.Seed = rp.Seed
			if rp.Tier != "" {
				env.Tier, env.Thorough = rp.Tier, rp.Tier == "thorough"
			}
			rep.Seed, rep.Tier = env.Seed, env.Tier
			rep.Note("replay of %s: streams re-run with seed %d tier %s", env.Replay, env.Seed, env.Tier)
		}
	}
	h := &harness{env: env, rep: rep, rng: vh.NewRng(env.Seed), hangs: map[string]int{}}
	rep.Rule = "getter table (every pool value × 8 getters × defaults) + random properties texts (grammar: comments with '=', blank lines, " +
		"escapes, ':' and blank separators, unicode, empty values, continuation, CRLF; 4% malformed) + write-back cases (text × assignments, 55% inside the " +
		"well-formedness class) + edit histories (controlled mtimes with several edits per second, natural mtimes, deletions, reloads) + crash-prefix replay + " +
		"child-process race and fatal probes; non-trivial = non-empty text / at least one assignment / history with ≥ 3 ops; distinct = distinct op lines"
	cwd, _ := os.Getwd()
	tmp, err := os.MkdirTemp(cwd, "c18tmp-")
	if err != nil {
		vh.Die("tmp: %v", err)
	}
	h.tmp = tmp
	os.Chmod(tmp, 0o755) // a child that drops its privileges must be able to reach its files
	defer os.RemoveAll(tmp)

	nParse, nWrite, nHist, steps, nOwn := 1500, 700, 250, 10, 120
	if env.Thorough {
		nParse, nWrite, nHist, steps, nOwn = 30000, 6000, 4000, 25, 1500
	}
	h.add(check{line: "V " + encStr(envKey) + " " + encStr(envVal), want: "ok"})

	t0 := time.Now()
	lap := func(what string) {
		rep.Note("%s: %.1fs", what, time.Since(t0).Seconds())
		t0 = time.Now()
	}
	h.probeFatal()
	h.knownReplays()
	lap("child probes + known-finding replays")
	h.streamGetters()
	lap("getter table")
	h.streamParse(nParse)
	h.streamFull(nParse / 3)
	lap("parse stream + full-grammar rendering")
	h.streamWrite(nWrite)
	lap("write-back stream")
	h.streamOwnWrite(nOwn)
	h.streamAPI(nOwn)
	lap("own-write stream (SetValues, reload, getters)")
	h.historyWorker(nHist, steps)
	lap("history stream (worker process)")
	h.streamWriteFault()
	h.streamCreateFault()
	lap("write-fault + create-fault children")
	h.runDriver()
	lap("driver + comparison")
	h.streamCrash()
	lap("crash-prefix replay + poller")
	h.streamRace()
	h.streamReset()
	lap("race + reset children")

	os.RemoveAll(tmp)
	rep.Write(env.Out)
}
