package main

import (
	"fmt"
	"os"
	"sort"
	"strings"
	"time"

	"github.com/whatap/golib/config/conffile"
	"verif/harness/vh"
)

// The witnesses of the known findings (the same inputs as the Lean theorems
// C18.finding_value_escape and C18.finding_key_escape), replayed on the implementation every run.
func (h *harness) knownReplays() {
	type wit struct {
		key, text      string
		kvs            map[string]string
		probeKey, want string
		what           string
	}
	wits := []wit{
		{"writeback:value-escape", "w=a\\\\\\\\b\n", map[string]string{"k": "1"}, "w", `a\\b`,
			`file "w=a\\\\b" (value a\\b), SetValues{k:1}: the untouched key w must still read a\\b`},
		{"writeback:key-escape", "d\\ e=5\n", map[string]string{"k": "1"}, "d e", "5",
			`file "d\ e=5" (key "d e"), SetValues{k:1}: the untouched key "d e" must still read 5`},
	}
	// long physical line (bufio.ReadLine hands it over in 4096-byte pieces, the pieces are treated as lines)
	{
		dir, path := h.newDir()
		long := strings.Repeat("abcdefghi ", 500)
		writeFile(path, "a=1\nbig="+long+"\nz=2\n")
		ce := newCfg(dir)
		kvs := map[string]string{"a": "3"}
		oc := vh.Guard(func() { ce.c.SetValues(&kvs) })
		ce.c.Destroy()
		nb, _ := os.ReadFile(path)
		after, keys, err := libRead(string(nb))
		still := !oc.OK() || err != nil || len(after) != 3 || after["big"] != long
		h.longLinesOK = !still
		h.rep.KnownReplay("writeback:long-line", still,
			fmt.Sprintf("file a=1 / big=<5000 characters without '='> / z=2, SetValues{a:3}: the keys afterwards are %q (expected a, big, z)", keys))
		h.rep.Count("known-replay")
	}
	// two contents of the same length written with the same modification time: no stat-based watcher can
	// tell them apart (file systems with coarse timestamps make this happen for edits within one tick)
	{
		dir, path := h.newDir()
		t := time.Unix(1_700_000_000, 0)
		writeFile(path, "k=2\n")
		os.Chtimes(path, t, t)
		ce := newCfg(dir)
		writeFile(path, "k=3\n")
		os.Chtimes(path, t, t)
		ce.c.ReloadNowForVerif()
		got := ce.c.GetValue("k")
		ce.c.Destroy()
		h.rep.KnownReplay("reload:same-stamp-edit", got != "3",
			fmt.Sprintf("file k=2 loaded, then rewritten as k=3 with the same mtime (1700000000.000000000) and the same size, reload: k reads %q", got))
		h.rep.Count("known-replay")
	}
	// key=value lines without '=' (':' or blank separator): the line is copied, the key appended again;
	// deleting such a key does not delete it
	{
		dir, path := h.newDir()
		writeFile(path, "k: v\n")
		ce := newCfg(dir)
		kvs := map[string]string{"k": ""}
		oc := vh.Guard(func() { ce.c.SetValues(&kvs) })
		ce.c.Destroy()
		nb, _ := os.ReadFile(path)
		after, _, err := libRead(string(nb))
		_, still := after["k"]
		h.rep.KnownReplay("writeback:line-shape", !oc.OK() || err != nil || still,
			fmt.Sprintf("file `k: v`, SetValues{k:\"\"} (delete): the file afterwards is %q, k reads %q", string(nb), after["k"]))
		h.rep.Count("known-replay")
	}
	h.computeDefaults()
	// the file disappears: the map goes back to the defaults — are the observers told?
	{
		dir, path := h.newDir()
		writeFile(path, "k=2\n")
		ce := newCfg(dir)
		before := ce.obs.count
		os.Remove(path)
		ce.c.ReloadNowForVerif()
		got := ce.c.GetValue("k")
		h.notifyReset = ce.obs.count > before
		ce.c.Destroy()
		h.rep.KnownReplay("reload:reset-not-notified", !h.notifyReset,
			fmt.Sprintf("file k=2 loaded (observer calls: %d), file deleted, reload: k now reads %q (defaults), observer calls: %d", before, got, ce.obs.count))
		h.rep.Count("known-replay")
		mode := "0"
		if h.notifyReset {
			mode = "1"
		}
		h.add(check{line: "M notifyreset " + mode, want: "ok"})
	}
	for _, w := range wits {
		dir, path := h.newDir()
		writeFile(path, w.text)
		ce := newCfg(dir)
		kvs := w.kvs
		oc := vh.Guard(func() { ce.c.SetValues(&kvs) })
		ce.c.Destroy()
		nb, _ := os.ReadFile(path)
		after, _, err := libRead(string(nb))
		still := !oc.OK() || err != nil || after[w.probeKey] != w.want
		h.rep.KnownReplay(w.key, still, fmt.Sprintf("%s; after the write-back it reads %q (file now %q)", w.what, after[w.probeKey], string(nb)))
		h.rep.Count("known-replay")
	}
}

var _ = conffile.NewDefaultFileParser

// computeDefaults takes ApplyDefault's table from the implementation (for the "file gone" clause).
func (h *harness) computeDefaults() {
	dir, _ := h.newDir()
	ce := newCfg(dir)
	ce.c.ApplyDefault()
	h.defaults = map[string]string{}
	h.defaultKeys = nil
	for _, k := range ce.c.GetKeys() {
		h.defaults[k] = ce.c.GetValue(k)
		h.defaultKeys = append(h.defaultKeys, k)
	}
	sort.Strings(h.defaultKeys)
	ce.c.Destroy()
}
