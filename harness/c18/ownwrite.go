package main

import (
	"fmt"
	"os"
	"path/filepath"
	"sort"
	"strings"
	"time"

	"github.com/whatap/golib/config"
	"github.com/whatap/golib/config/conffile"
	"verif/harness/vh"
)

// The object's own write-back followed by a reload: "written values read back" and "the object
// reflects the file" together.  The interesting class is the write whose NET effect keeps the size
// of the file (same-length replacement, two changes whose lengths cancel, swapped values, one line
// deleted and an equally long one appended): reload decides by (mtime, size), so such a write is
// visible only because the replacement file carries the time of the write.

// waitFsClockPast returns once a file created now in dir gets a modification time later than ns:
// every later write is then stamped later than ns as well (file-system timestamps do not go back).
// This is a logical synchronisation on the file system's clock (coarse: one tick, a few ms), not a
// timing assumption; false = the clock did not move within 5 s (the caller then does not judge).
func waitFsClockPast(dir string, ns int64) bool {
	probe := filepath.Join(dir, ".clockprobe")
	defer os.Remove(probe)
	deadline := time.Now().Add(5 * time.Second)
	for i := 0; ; i++ {
		if err := os.WriteFile(probe, []byte{byte(i)}, 0o644); err != nil {
			return false
		}
		st, err := os.Stat(probe)
		if err != nil {
			return false
		}
		if st.ModTime().UnixNano() > ns {
			return true
		}
		if time.Now().After(deadline) {
			return false
		}
		time.Sleep(200 * time.Microsecond)
	}
}

var owKeys = []string{"trace_rate", "name", "host", "flag", "x.y", "k", "tx_max_count", "debug", "mtrace_rate", "a_b", "port9"}
var owLetters = "abcdefghijklmnopqrstuvwxyz"

// sameKindValue: a value of exactly n bytes, of the same kind as old (digits stay digits, so that the
// typed getters have something to parse), different from old.
func sameKindValue(r *vh.Rng, old string, n int) string {
	if n <= 0 {
		return ""
	}
	digits := old != ""
	for i := 0; i < len(old); i++ {
		if old[i] < '0' || old[i] > '9' {
			digits = false
		}
	}
	for tries := 0; tries < 20; tries++ {
		b := make([]byte, n)
		for i := range b {
			if digits {
				b[i] = byte('0' + r.Intn(10))
				if i == 0 && n > 1 {
					b[i] = byte('1' + r.Intn(9))
				}
			} else {
				b[i] = owLetters[r.Intn(len(owLetters))]
			}
		}
		if string(b) != old {
			return string(b)
		}
	}
	return ""
}

func owValue(r *vh.Rng) string {
	switch r.Intn(4) {
	case 0:
		return sameKindValue(r, "1", 1+r.Intn(5))
	case 1:
		return r.PickStr([]string{"true", "false", "none"})
	default:
		return sameKindValue(r, "x", 1+r.Intn(8))
	}
}

type owStep struct {
	Kind       string            `json:"kind"`
	Kvs        map[string]string `json:"setvalues"`
	FileBefore string            `json:"file_before"`
	MtimeMode  string            `json:"mtime_of_file_before"`
	FileAfter  string            `json:"file_after,omitempty"`
	SizeKept   bool              `json:"size_kept"`
}

func (h *harness) streamOwnWrite(n int) {
	watchdog := 30 * time.Second
	for i := 0; i < n; i++ {
		grp := h.newGroup()
		dir, path := h.newDir()
		r := h.rng
		prefix := ""
		if r.Chance(20) {
			prefix = r.PickStr([]string{"whatap.", "p."})
		}
		// the file: canonical key=value lines (what a write-back produces), comments and blanks in between
		nk := 2 + r.Intn(4)
		perm := append([]string{}, owKeys...)
		for j := len(perm) - 1; j > 0; j-- {
			k := r.Intn(j + 1)
			perm[j], perm[k] = perm[k], perm[j]
		}
		var sb strings.Builder
		if r.Chance(60) {
			sb.WriteString(r.PickStr([]string{"# sampling", "! managed by the agent = yes", "#k=1", "# 100% of"}) + "\n")
		}
		for _, k := range perm[:nk] {
			if r.Chance(15) {
				sb.WriteString(r.PickStr([]string{"", "# c", "  ! 50%d = x", "word"}) + "\n")
			}
			sb.WriteString(prefix + k + "=" + owValue(r) + "\n")
		}
		text := sb.String()
		var steps []owStep
		replay := func() map[string]interface{} {
			return map[string]interface{}{"stream": "own-write", "prefix": prefix, "steps": steps}
		}
		base := time.Unix(1_700_000_000+int64(r.Intn(100000)), int64(r.Intn(1000))*1_000_000)
		// an external writer leaves the file with this content and a modification time of this kind
		stamp := func() string {
			mode := "past"
			switch x := r.Intn(100); {
			case x < 70:
				base = base.Add(time.Duration(1+r.Intn(5000)) * time.Millisecond)
				os.Chtimes(path, base, base)
			case x < 80:
				mode = "future"
				t := time.Now().Add(time.Duration(1+r.Intn(48)) * time.Hour)
				os.Chtimes(path, t, t)
			default:
				mode = "natural"
			}
			return mode
		}
		writeFile(path, text)
		mode := stamp()
		observer := config.NewConfigObserver()
		var ce *cfgEnv
		opts := []conffile.FileConfigOption{}
		if prefix != "" {
			opts = append(opts, conffile.WithPrefix(prefix))
		}
		if oc := vh.GuardTimeout(watchdog, func() { ce = newCfgObs(dir, observer, opts...) }); !oc.OK() || ce == nil {
			continue // the history stream judges constructors
		}
		h.add(check{line: "N", want: "ok", group: grp})
		h.add(check{line: fmt.Sprintf("O %s 0", encStr("verif")), want: "ok", group: grp})
		ns, _ := statNs(path)
		h.add(check{line: fmt.Sprintf("E %d %s", ns, encStr(text)), want: "ok", group: grp})
		h.add(check{line: "R", want: "loaded 1", group: grp})
		dead := false
		nSteps := 1 + r.Intn(4)
		for s := 0; s < nSteps && !dead; s++ {
			cur, _, err := libRead(text)
			if err != nil || len(cur) == 0 {
				break
			}
			keys := make([]string, 0, len(cur))
			for k := range cur {
				keys = append(keys, k)
			}
			sort.Strings(keys)
			bare := func(k string) string { // what the caller of SetValues passes: with or without the prefix
				if prefix != "" && r.Chance(70) {
					return strings.TrimPrefix(k, prefix)
				}
				return k
			}
			kvs := map[string]string{}
			kind := ""
			switch x := r.Intn(100); {
			case x < 40:
				kind = "same-length-replacement"
				k := keys[r.Intn(len(keys))]
				kvs[bare(k)] = sameKindValue(r, cur[k], len(cur[k]))
			case x < 55 && len(keys) >= 2:
				kind = "lengths-cancel"
				a, b := keys[0], keys[1+r.Intn(len(keys)-1)]
				d := 1 + r.Intn(3)
				if len(cur[b]) <= d {
					d = len(cur[b]) - 1
				}
				if d <= 0 {
					kind = "same-length-replacement"
					kvs[bare(a)] = sameKindValue(r, cur[a], len(cur[a]))
				} else {
					kvs[bare(a)] = sameKindValue(r, cur[a], len(cur[a])+d)
					kvs[bare(b)] = sameKindValue(r, cur[b], len(cur[b])-d)
				}
			case x < 65 && len(keys) >= 2 && cur[keys[0]] != cur[keys[len(keys)-1]]:
				kind = "values-swapped"
				a, b := keys[0], keys[len(keys)-1]
				kvs[bare(a)], kvs[bare(b)] = cur[b], cur[a]
			case x < 78:
				// one line goes (blank value = delete), an equally long line for a new key is appended
				kind = "line-deleted-equal-line-appended"
				k := keys[r.Intn(len(keys))]
				bk := strings.TrimPrefix(k, prefix)
				nkey := sameKindValue(r, "x", len(bk))
				if _, clash := cur[prefix+nkey]; clash || nkey == "" || nkey == bk {
					kind = "same-length-replacement"
					kvs[bare(k)] = sameKindValue(r, cur[k], len(cur[k]))
				} else {
					kvs[bare(k)] = ""
					kvs[nkey] = sameKindValue(r, cur[k], len(cur[k]))
				}
			default:
				kind = "size-changes"
				k := keys[r.Intn(len(keys))]
				kvs[bare(k)] = sameKindValue(r, cur[k], len(cur[k])+1+r.Intn(3))
			}
			for k, v := range kvs {
				if v == "" && !strings.HasPrefix(kind, "line-deleted") {
					delete(kvs, k)
				}
			}
			if len(kvs) == 0 {
				break
			}
			// the file system's clock is past the file's modification time (for a file just written by somebody
			// else in the same tick, a same-size replacement is the known finding reload:same-stamp-edit)
			oldNs, oldSize := statNs(path)
			if mode == "natural" && !waitFsClockPast(dir, oldNs) {
				h.rep.Count("own-write:fs-clock-did-not-advance")
				break
			}
			st := owStep{Kind: kind, Kvs: kvs, FileBefore: text, MtimeMode: mode}
			steps = append(steps, st)
			arg := map[string]string{}
			for k, v := range kvs {
				arg[k] = v
			}
			prevCount := ce.obs.count
			if oc := vh.GuardTimeout(watchdog, func() { ce.c.SetValues(&arg) }); !oc.OK() {
				h.rep.Fail("property", "setvalues:hangs-or-panics", "SetValues: "+oc.String(), replay())
				dead = true
				break
			}
			nb, err := os.ReadFile(path)
			if err != nil {
				h.rep.Fail("property", "writeback:file-missing", "the configuration file is gone after SetValues", replay())
				dead = true
				break
			}
			newText := string(nb)
			newNs, newSize := statNs(path)
			steps[len(steps)-1].FileAfter = newText
			steps[len(steps)-1].SizeKept = newSize == oldSize
			h.rep.Count("own-write:" + kind)
			h.rep.Count("own-write:mtime-before-" + mode)
			if newSize == oldSize && newText != text {
				h.rep.Count("own-write:size-kept-content-changed")
			}
			// the write itself, judged as everywhere: merge, pass-through lines, order
			final := map[string]string{}
			for k, v := range kvs {
				fk := k
				if prefix != "" && !strings.HasPrefix(k, prefix) {
					fk = prefix + k
				}
				final[fk] = v
			}
			for _, b := range evalWriteProperty(text, newText, final) {
				key := map[string]string{"merge": "writeback:merge", "comment": "write-back:pass-through-line", "order": "writeback:order"}[b[0]]
				h.rep.Fail("property", key, "SetValues ("+kind+"): "+b[1], replay())
				dead = true
			}
			if dead {
				break
			}
			after, _, err := libRead(newText)
			if err != nil {
				break
			}
			if oc := vh.GuardTimeout(watchdog, func() { ce.c.ReloadNowForVerif() }); !oc.OK() {
				h.rep.Fail("property", "reload:hangs", "reload after SetValues: "+oc.String(), replay())
				dead = true
				break
			}
			// the property, directly: the file has stopped changing, a reload ran — every key=value of the file
			// (the written ones in particular) is visible through the getters, and the observers were told
			what := fmt.Sprintf("file before the write: mtime %d ns (%s), %d bytes; after: mtime %d ns, %d bytes", oldNs, mode, oldSize, newNs, newSize)
			ks := make([]string, 0, len(after))
			for k := range after {
				ks = append(ks, k)
			}
			sort.Strings(ks)
			for _, k := range ks {
				v := strings.TrimSpace(after[k])
				if got := ce.c.GetValue(k); got != v {
					_, written := final[k]
					h.rep.Fail("property", "setvalues:written-file-not-loaded",
						fmt.Sprintf("SetValues (%s) left %s=%s in the file, a reload ran, GetValue(%q) = %q (written by this call: %v; %s)", kind, k, v, k, got, written, what),
						replay())
					dead = true
					break
				}
				if g := (getterCall{kind: "i", key: k, defI: -7}); specGetter(v, g) != "-7" {
					if got, _ := callGetter(ce.c, g); got != specGetter(v, g) {
						h.rep.Fail("property", "setvalues:written-file-not-loaded",
							fmt.Sprintf("SetValues (%s) left %s=%s in the file, a reload ran, GetInt(%q,-7) = %s (%s)", kind, k, v, k, got, what), replay())
						dead = true
						break
					}
				}
			}
			if !dead && newText != text && ce.obs.count != prevCount+1 {
				h.rep.Fail("property", "setvalues:observers-not-notified",
					fmt.Sprintf("SetValues (%s) changed the file, a reload ran, the observer was called %d times (%s)", kind, ce.obs.count-prevCount, what), replay())
				dead = true
			}
			if !dead && newText != text {
				for _, k := range ks {
					if got, v := ce.obs.last[k], strings.TrimSpace(after[k]); got != v {
						h.rep.Fail("property", "observer:notified-before-merge",
							fmt.Sprintf("inside the notification after SetValues key %q read %q, the file says %q", k, got, v), replay())
						dead = true
						break
					}
				}
			}
			if dead {
				break
			}
			// the model: SetValues at the clock time the file system stamped, then a reload
			rp := replay()
			nApp := 0
			for k := range final {
				if _, had := cur[k]; !had {
					nApp++
				}
			}
			pre := "-"
			if prefix != "" {
				pre = encStr(prefix)
			}
			wantSV := fmt.Sprintf("ok %d %d %s", newNs, newSize, encStr(newText))
			h.add(check{line: fmt.Sprintf("SV 0 %d %s - [] %s", newNs, pre, encPairs(sortedPairs(kvs))), want: wantSV, group: grp,
				canon: func(got string) string {
					if nApp > 1 { // the order of several appended keys is Go's map order: compare stamp and size only
						f := strings.Split(got, " ")
						w := strings.Split(wantSV, " ")
						if len(f) == 4 && f[0] == w[0] && f[1] == w[1] && f[2] == w[2] {
							return wantSV
						}
					}
					return got
				},
				onDiff: func(got string) {
					h.rep.Fail("correspondence", "setvalues:model", "the file after SetValues differs from the model's (Sys.setValues)",
						map[string]interface{}{"case": rp, "impl": vh.Clip(wantSV, 800), "model": vh.Clip(got, 800)})
				}})
			if nApp > 1 {
				h.add(check{line: fmt.Sprintf("E %d %s", newNs, encStr(newText)), want: "ok", group: grp})
			}
			h.add(check{line: "R", want: fmt.Sprint(ce.obs.count), canon: lastField, group: grp, onDiff: func(got string) {
				h.rep.Fail("correspondence", "reload:decision", "reload after SetValues: notification count differs from the model",
					map[string]interface{}{"case": rp, "impl_notified": ce.obs.count, "model": got})
			}})
			for _, k := range ks {
				h.addGetter(ce, getterCall{kind: "v", key: k}, grp, func() interface{} { return rp })
			}
			text = newText
			mode = "natural"
			// sometimes an external tool touches the file (its content stays) and a reload notices it
			if r.Chance(50) {
				mode = stamp()
				if mode != "natural" {
					ns, _ := statNs(path)
					h.add(check{line: fmt.Sprintf("E %d %s", ns, encStr(text)), want: "ok", group: grp})
					cnt := ce.obs.count
					ce.c.ReloadNowForVerif()
					if ce.obs.count != cnt+1 {
						break // judged by the history stream
					}
					h.add(check{line: "R", want: fmt.Sprint(ce.obs.count), canon: lastField, group: grp})
				}
			}
		}
		h.rep.Case(fmt.Sprint(steps), len(steps) > 0)
		if i < 2 {
			h.rep.Sample(replay())
		}
		if !dead {
			ce.c.Destroy()
		}
	}
}
