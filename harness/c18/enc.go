package main

import (
	"fmt"
	"sort"
	"strconv"
	"strings"
)

// Strings travel to the Lean driver as '.'-separated hexadecimal code points; "-" is the
// empty string, "[]" the empty list.

func encStr(s string) string {
	if s == "" {
		return "-"
	}
	var b strings.Builder
	first := true
	for _, r := range s {
		if !first {
			b.WriteByte('.')
		}
		first = false
		b.WriteString(strconv.FormatInt(int64(r), 16))
	}
	return b.String()
}

func decStr(s string) string {
	if s == "-" {
		return ""
	}
	var b strings.Builder
	for _, h := range strings.Split(s, ".") {
		n, err := strconv.ParseInt(h, 16, 32)
		if err != nil {
			panic("bad driver string: " + s)
		}
		b.WriteRune(rune(n))
	}
	return b.String()
}

func encList(xs []string) string {
	if len(xs) == 0 {
		return "[]"
	}
	ys := make([]string, len(xs))
	for i, x := range xs {
		ys[i] = encStr(x)
	}
	return strings.Join(ys, ",")
}

func decList(s string) []string {
	if s == "[]" {
		return []string{}
	}
	parts := strings.Split(s, ",")
	out := make([]string, len(parts))
	for i, p := range parts {
		out[i] = decStr(p)
	}
	return out
}

type kv struct{ k, v string }

func encPairs(xs []kv) string {
	if len(xs) == 0 {
		return "[]"
	}
	ys := make([]string, len(xs))
	for i, x := range xs {
		ys[i] = encStr(x.k) + ":" + encStr(x.v)
	}
	return strings.Join(ys, ",")
}

func decPairs(s string) []kv {
	if s == "[]" {
		return nil
	}
	parts := strings.Split(s, ",")
	out := make([]kv, len(parts))
	for i, p := range parts {
		q := strings.SplitN(p, ":", 2)
		out[i] = kv{decStr(q[0]), decStr(q[1])}
	}
	return out
}

func sortedPairs(m map[string]string) []kv {
	out := make([]kv, 0, len(m))
	for k, v := range m {
		out = append(out, kv{k, v})
	}
	sort.Slice(out, func(i, j int) bool { return out[i].k < out[j].k })
	return out
}

func pairsToMap(xs []kv) map[string]string {
	m := map[string]string{}
	for _, x := range xs {
		m[x.k] = x.v
	}
	return m
}

func encInts(xs []int32) string {
	if len(xs) == 0 {
		return "[]"
	}
	ys := make([]string, len(xs))
	for i, x := range xs {
		ys[i] = fmt.Sprint(x)
	}
	return strings.Join(ys, ",")
}

// canonical forms applied to driver answers before comparison

func canonSortedList(s string) string {
	if strings.HasPrefix(s, "bad") {
		return s
	}
	xs := decList(s)
	sort.Strings(xs)
	return encList(xs)
}

func canonParse(s string) string {
	if !strings.HasPrefix(s, "ok ") {
		return s
	}
	xs := decPairs(s[3:])
	sort.Slice(xs, func(i, j int) bool { return xs[i].k < xs[j].k })
	return "ok " + encPairs(xs)
}

// "ok <body> <appended>": the appended block is compared as a sorted multiset of lines
// (the implementation appends new keys in Go map iteration order).
func canonWrite(s string) string {
	if !strings.HasPrefix(s, "ok ") {
		return s
	}
	f := strings.Split(s, " ")
	if len(f) != 3 {
		return s
	}
	app := decList(f[2])
	sort.Strings(app)
	return "ok " + f[1] + " " + encList(app)
}
