package main

import (
	"encoding/json"
	"fmt"
	"os"
	"path/filepath"
	"strings"
	"time"

	"verif/harness/vh"
)

// The history stream runs callbacks of the harness inside the implementation (observers that panic,
// re-enter, write …).  If the implementation calls them on goroutines of its own, a panic there kills the
// process — so the stream runs in a worker process: the worker compares with the driver itself and writes a
// partial report; a crash of the worker is an outcome (kind property, the history in progress as replay),
// the remaining stages still run and the report is always written.

type workerReport struct {
	Evaluations  int            `json:"evaluations"`
	Distinct     int            `json:"distinct_nontrivial"`
	Samples      []interface{}  `json:"samples"`
	Distribution map[string]int `json:"distribution"`
	Failures     []vh.Failure   `json:"failures"`
	Notes        []string       `json:"notes"`
}

func (h *harness) historyWorker(n, steps int) {
	skip := ""
	for attempt := 0; attempt < 3; attempt++ {
		dir, _ := h.newDir()
		out := filepath.Join(dir, "worker-report.json")
		cur := filepath.Join(dir, "history-in-progress.json")
		flags := fmt.Sprintf("notifyReset=%v mustLoadFatal=%v", h.notifyReset, h.mustLoadFatal)
		code, output, to := h.runChild("history", 1800*time.Second,
			"C18_ARG="+fmt.Sprintf("%d %d", n, steps), "C18_DRIVER="+h.env.Driver, "C18_TIER="+h.env.Tier,
			fmt.Sprintf("C18_SEED=%d", h.env.Seed+uint64(attempt)*1000003), "C18_OUT="+out, "C18_REPO="+h.env.Repo,
			"C18_FLAGS="+flags, "C18_SKIP="+skip, "C18_CUR="+cur)
		h.rep.Count("child:history-worker")
		var wr workerReport
		b, err := os.ReadFile(out)
		if err == nil && json.Unmarshal(b, &wr) == nil {
			// merge
			for i := 0; i < wr.Distinct; i++ {
				h.rep.Case(fmt.Sprintf("history-worker-%d-%d", attempt, i), true)
			}
			if wr.Evaluations > wr.Distinct {
				h.rep.Evaluations += wr.Evaluations - wr.Distinct
			}
			for k, v := range wr.Distribution {
				h.rep.CountN(k, v)
			}
			for _, f := range wr.Failures {
				h.rep.Fail(f.Kind, f.Key, f.Summary, f.Replay)
			}
			for _, s := range wr.Samples {
				h.rep.Sample(s)
			}
			for _, nt := range wr.Notes {
				h.rep.Note("history worker: %s", nt)
			}
			return
		}
		// the worker died (or hung) before it could report
		var inProgress interface{}
		if cb, err := os.ReadFile(cur); err == nil {
			json.Unmarshal(cb, &inProgress)
		}
		replay := map[string]interface{}{"history": inProgress, "exit_code": code, "output": vh.Clip(tail(output, 2500), 2500), "skipped_observer_kinds": skip}
		switch {
		case to:
			h.rep.Fail("property", "history:worker-hangs", "the process running the edit/reload/observer histories did not finish", replay)
			return
		case strings.Contains(output, "fails in ApplyConfig") || (strings.Contains(output, "panic:") && strings.Contains(output, "ApplyConfig")):
			h.rep.Fail("property", "reload:observer-panic-kills-process",
				"an observer that panics in ApplyConfig terminated the whole process (reload is supposed to recover it): "+firstLineWith(output, "panic:"), replay)
			skip = "panics" // go on without panicking observers
		case (strings.Contains(output, "concurrent map") || strings.Contains(output, "DATA RACE")) && strings.Contains(output, "obsTarget).ApplyConfig"):
			h.rep.Fail("property", "reload:observers-called-concurrently",
				"one observer target was inside ApplyConfig on several goroutines at once (the runtime aborted the process): "+firstLineWith(output, "concurrent map")+firstLineWith(output, "DATA RACE"), replay)
			skip += " reentrant"
		case strings.Contains(output, "concurrent map") || strings.Contains(output, "DATA RACE"):
			h.rep.Fail("property", "FileConfig.m:concurrent-map-access", "the history worker was aborted by the runtime: "+firstLineWith(output, "concurrent map")+firstLineWith(output, "DATA RACE"), replay)
			skip += " reentrant"
		default:
			h.rep.Fail("property", "history:worker-crash", fmt.Sprintf("the process running the histories died (exit code %d): %s", code, firstLineWith(output, "panic:")+firstLineWith(output, "fatal error")), replay)
			skip += " reentrant"
		}
	}
}

func tail(s string, n int) string {
	if len(s) <= n {
		return s
	}
	return s[len(s)-n:]
}

// childHistory is the worker side.
func childHistory(arg string) {
	var n, steps int
	fmt.Sscan(arg, &n, &steps)
	out := os.Getenv("C18_OUT")
	os.Args = []string{os.Args[0], "-driver", os.Getenv("C18_DRIVER"), "-tier", os.Getenv("C18_TIER"), "-seed", os.Getenv("C18_SEED"),
		"-out", out, "-repo", os.Getenv("C18_REPO")}
	env, rep := vh.Parse("C18")
	os.Setenv(envKey, envVal)
	h := &harness{env: env, rep: rep, rng: vh.NewRng(env.Seed), hangs: map[string]int{}}
	h.tmp = os.Getenv("C18_DIR")
	flags := os.Getenv("C18_FLAGS")
	h.notifyReset = strings.Contains(flags, "notifyReset=true")
	h.mustLoadFatal = strings.Contains(flags, "mustLoadFatal=true")
	h.skipKinds = os.Getenv("C18_SKIP")
	h.curFile = os.Getenv("C18_CUR")
	h.computeDefaults()
	h.add(check{line: "V " + encStr(envKey) + " " + encStr(envVal), want: "ok"})
	mode := "0"
	if h.notifyReset {
		mode = "1"
	}
	h.add(check{line: "M notifyreset " + mode, want: "ok"})
	h.streamHistory(n, steps)
	h.runDriver()
	rep.Write(out)
}
