package main

import (
	"fmt"
	"strings"

	"verif/harness/vh"
)

// streamFull: the model's canonical renderer for the *whole* key/value grammar (Golib.Conf.FullGrammar:
// renderFileFull, theorem lex_render_full) against the properties library: random pairs with arbitrary
// characters in keys and values → the driver renders them → the library must read back exactly these pairs.
var fullChars = []string{"a", "b", "Z", "0", "9", "_", ".", "-", " ", "  ", "\t", "\n", "\r", "\x0c", "\x0b", ":", "=", "\\", "\\\\", "#", "!",
	"u", "n", "t", "f", "r", "\\u", "é", "中", "한", "😀", " ", " ", "　", "\x00", "\x7f", "$", "{", "}", "\"", "'", ","}

func genFullString(r *vh.Rng, minLen int) string {
	n := minLen + r.Intn(7)
	var b strings.Builder
	for i := 0; i < n; i++ {
		b.WriteString(r.PickStr(fullChars))
	}
	return b.String()
}

func (h *harness) streamFull(n int) {
	for i := 0; i < n; i++ {
		np := 1 + h.rng.Intn(5)
		var pairs []kv
		seen := map[string]bool{}
		for len(pairs) < np {
			k := genFullString(h.rng, 1)
			if k == "" || seen[k] {
				continue
			}
			v := genFullString(h.rng, 0)
			if strings.Contains(v, "${") {
				continue
			}
			seen[k] = true
			pairs = append(pairs, kv{k, v})
		}
		line := "F " + encPairs(pairs)
		h.rep.Case(line, true)
		h.rep.Count("full:render")
		ps := pairs
		h.add(check{line: line, cmp: func(got string) bool {
			if strings.HasPrefix(got, "bad") {
				return false
			}
			text := decStr(got)
			p, err := libParse(text)
			if err != nil {
				return false
			}
			keys := p.Keys()
			if len(keys) != len(ps) {
				return false
			}
			for j, k := range keys {
				v, _ := p.Get(k)
				if k != ps[j].k || v != ps[j].v {
					return false
				}
			}
			return true
		}, onDiff: func(got string) {
			h.rep.Fail("correspondence", "full-grammar:render", "the library does not read back the pairs from the model's canonical rendering (model of the grammar vs third-party parser)",
				map[string]interface{}{"pairs": fmt.Sprintf("%q", ps), "rendered": vh.Clip(got, 800)})
		}})
	}
}
