package main

import (
	"context"
	"fmt"
	"os"
	"path/filepath"
	"sort"
	"strings"

	"github.com/whatap/golib/config"
	"github.com/whatap/golib/config/conffile"
	"github.com/whatap/golib/logger"
	"verif/harness/vh"
)

// The rest of the exported API of the anchor files: where the configuration file is looked for
// (GetWhatapHome / GetConfFile under WithHomePath and the three environment variables), the two public
// stores into the map (ApplyDefault, ApplyConfig), the dump (String / ToString), InArray, the package
// singletons (GetConfig / Destroy, GetConfigObserver) and the remaining options (WithContext, WithLogger).

type countLog struct {
	logger.EmptyLogger
	errs int
}

func (l *countLog) Error(args ...interface{}) { l.errs++ }

var apiStrs = []string{"", " ", "a", " a", "a ", "\ta\n", "A", "a b", "a  b", "b", " a", "a ", "é", "x=y", "0", "-"}

func (h *harness) streamAPI(n int) {
	r := h.rng
	// ---- InArray
	d0, _ := h.newDir()
	ce := newCfg(d0)
	for i := 0; i < n; i++ {
		s := r.PickStr(apiStrs)
		var list []string
		for k := r.Intn(5); k > 0; k-- {
			list = append(list, r.PickStr(apiStrs))
		}
		got := ce.c.InArray(s, list)
		spec := false
		for _, it := range list {
			if strings.TrimSpace(it) == strings.TrimSpace(s) {
				spec = true
			}
		}
		h.rep.Case(fmt.Sprintf("InArray %q %q", s, list), true)
		h.rep.Count("api:InArray")
		if got != spec {
			h.rep.Fail("property", "InArray:not-trimmed-membership", fmt.Sprintf("InArray(%q, %q) = %v", s, list, got),
				map[string]interface{}{"str": s, "list": list})
			continue
		}
		want := "0"
		if got {
			want = "1"
		}
		h.add(check{line: fmt.Sprintf("IA %s %s", encStr(s), encList(list)), want: want})
	}
	ce.c.Destroy()

	// ---- where the file is: option × three environment variables; a file placed there is the one loaded
	restore := func() {
		os.Unsetenv("WHATAP_HOME")
		os.Unsetenv("WHATAP_CONFIG")
		os.Unsetenv("WHATAP_CONFIG_HOME")
	}
	defer restore()
	root, _ := h.newDir()
	cwd, _ := os.Getwd()
	for _, homeOpt := range []string{"", filepath.Join(root, "opt"), filepath.Join(root, "opt") + "/./sub/.."} {
		for _, envHome := range []string{"", filepath.Join(root, "envhome")} {
			for _, envConfHome := range []string{"", filepath.Join(root, "confhome")} {
				for _, envName := range []string{"", "my.conf", "sub/dir.conf"} {
					restore()
					if envHome != "" {
						os.Setenv("WHATAP_HOME", envHome)
					}
					if envConfHome != "" {
						os.Setenv("WHATAP_CONFIG_HOME", envConfHome)
					}
					if envName != "" {
						os.Setenv("WHATAP_CONFIG", envName)
					}
					// the clause, directly
					home := homeOpt
					if home == "" {
						home = envHome
					}
					if home == "" {
						home = "."
					}
					d := home
					if envConfHome != "" {
						d = envConfHome
					}
					name := envName
					if name == "" {
						name = "whatap.conf"
					}
					want := filepath.Join(d, name)
					marker := fmt.Sprintf("m%d", r.Intn(1_000_000))
					abs := want
					if !filepath.IsAbs(abs) {
						abs = filepath.Join(cwd, abs)
					}
					os.MkdirAll(filepath.Dir(abs), 0o755)
					writeFile(abs, "where="+marker+"\n")
					c := conffile.NewForVerif(conffile.WithHomePath(homeOpt))
					gotHome, gotFile, gotVal := c.GetWhatapHome(), c.GetConfFile(), c.GetValue("where")
					c.Destroy()
					if !filepath.IsAbs(want) {
						os.Remove(abs)
						if strings.Contains(name, "/") {
							os.Remove(filepath.Dir(abs))
						}
					}
					ctx := map[string]interface{}{"WithHomePath": homeOpt, "WHATAP_HOME": envHome, "WHATAP_CONFIG_HOME": envConfHome, "WHATAP_CONFIG": envName}
					h.rep.Case(fmt.Sprint("conf-file ", ctx), true)
					h.rep.Count("api:GetConfFile")
					if gotHome != home || gotFile != want || gotVal != marker {
						h.rep.Fail("property", "GetConfFile:wrong-file",
							fmt.Sprintf("GetWhatapHome=%q (expected %q) GetConfFile=%q (expected %q); the file placed there holds where=%s, GetValue answers %q", gotHome, home, gotFile, want, marker, gotVal), ctx)
						continue
					}
					enc := func(s string) string {
						if s == "" {
							return "-"
						}
						return encStr(s)
					}
					h.add(check{line: fmt.Sprintf("PF %s %s %s %s", enc(homeOpt), enc(envHome), enc(envConfHome), enc(envName)), want: gotHome + "\x00" + gotFile,
						canon: func(got string) string {
							f := strings.Split(got, " ")
							if len(f) != 3 {
								return got
							}
							return decStr(f[0]) + "\x00" + filepath.Join(decStr(f[1]), decStr(f[2]))
						}})
				}
			}
		}
	}
	restore()

	// ---- ApplyConfig / ApplyDefault / String / ToString / GetKeys between reloads
	pool := []string{"v", " padded ", "", "0", "true", "a=b", "x y", "é", "1,2", "\tt"}
	for i := 0; i < n/4+1; i++ {
		grp := h.newGroup()
		dir, path := h.newDir()
		text := genText(r, 4, 0)
		for strings.Contains(text, "${") {
			text = genText(r, 4, 0)
		}
		if _, _, err := libRead(text); err != nil {
			continue
		}
		writeFile(path, text)
		ce := newCfg(dir)
		ns, _ := statNs(path)
		h.add(check{line: "N", want: "ok", group: grp})
		h.add(check{line: fmt.Sprintf("O %s 0", encStr("verif")), want: "ok", group: grp})
		h.add(check{line: fmt.Sprintf("E %d %s", ns, encStr(text)), want: "ok", group: grp})
		h.add(check{line: "R", want: "1", canon: lastField, group: grp})
		var ops []interface{}
		ops = append(ops, map[string]interface{}{"file": text})
		snapshot := func() interface{} { return map[string]interface{}{"stream": "api", "ops": append([]interface{}{}, ops...)} }
		bad := false
		for s := 0; s < 1+r.Intn(4) && !bad; s++ {
			before := map[string]string{}
			for _, k := range ce.c.GetKeys() {
				before[k] = ce.c.GetValue(k)
			}
			cnt := ce.obs.count
			exp := map[string]string{}
			if r.Chance(35) {
				ops = append(ops, "ApplyDefault")
				h.rep.Count("api:ApplyDefault")
				ce.c.ApplyDefault()
				for k, v := range h.defaults {
					exp[k] = v
				}
				h.add(check{line: "AD", want: "ok", group: grp})
			} else {
				m := map[string]string{}
				for k := 1 + r.Intn(3); k > 0; k-- {
					key := r.PickStr(simpleKeys)
					if r.Chance(40) && len(before) > 0 {
						for bk := range before {
							key = bk
							break
						}
					}
					m[key] = r.PickStr(pool)
				}
				ops = append(ops, map[string]interface{}{"ApplyConfig": m})
				h.rep.Count("api:ApplyConfig")
				ce.c.ApplyConfig(m)
				for k, v := range m {
					exp[k] = v
				}
				h.add(check{line: "AC " + encPairs(sortedPairs(m)), want: "ok", group: grp})
			}
			// directly: every stored entry reads back (trimmed), every other key keeps its value, nobody is notified
			keys := ce.c.GetKeys()
			sort.Strings(keys)
			seen := map[string]bool{}
			for _, k := range keys {
				seen[k] = true
				want, stored := exp[k]
				if !stored {
					want = before[k]
				}
				if got := ce.c.GetValue(k); got != strings.TrimSpace(want) {
					h.rep.Fail("property", "ApplyConfig:store-not-visible", fmt.Sprintf("key %q reads %q, expected %q (stored by this call: %v)", k, got, strings.TrimSpace(want), stored), snapshot())
					bad = true
					break
				}
			}
			for k := range exp {
				if !seen[k] {
					h.rep.Fail("property", "ApplyConfig:store-not-visible", fmt.Sprintf("key %q was stored but GetKeys does not list it", k), snapshot())
					bad = true
				}
			}
			for k := range before {
				if !seen[k] {
					h.rep.Fail("property", "ApplyConfig:key-lost", fmt.Sprintf("key %q disappeared", k), snapshot())
					bad = true
				}
			}
			if ce.obs.count != cnt {
				h.rep.Fail("property", "observer:notified-too-often", "a direct store into the map ran the observers", snapshot())
				bad = true
			}
			if bad {
				break
			}
			ss := snapshot()
			h.add(check{line: "K", want: encList(keys), canon: canonSortedList, group: grp, onDiff: func(got string) {
				h.rep.Fail("correspondence", "api:keys", "GetKeys after ApplyConfig/ApplyDefault differs from the model", map[string]interface{}{"case": ss, "impl": keys, "model": decList(got)})
			}})
			for _, k := range keys {
				h.addGetter(ce, getterCall{kind: "v", key: k}, grp, func() interface{} { return ss })
			}
			// the dump: String() == ToString() as sets of lines == the model's lines (values as stored, not trimmed)
			s1, s2 := ce.c.String(), ce.c.ToString()
			l1, l2 := strings.Split(s1, "\n"), strings.Split(s2, "\n")
			sort.Strings(l1)
			sort.Strings(l2)
			h.rep.Count("api:String")
			if strings.Join(l1, "\n") != strings.Join(l2, "\n") {
				h.rep.Fail("property", "String:differs-from-ToString", "String() and ToString() list different entries", snapshot())
				break
			}
			wantLines := strings.Join(l1, "\n")
			h.add(check{line: "ST", want: wantLines, group: grp, canon: func(got string) string {
				// every entry contributes its text and one line end; the final split adds one empty piece in the dump
				var out []string
				for _, l := range decList(got) {
					out = append(out, strings.Split(l, "\n")...)
				}
				out = append(out, "")
				sort.Strings(out)
				return strings.Join(out, "\n")
			}, onDiff: func(got string) {
				h.rep.Fail("correspondence", "api:string", "String() differs from the model's dump", map[string]interface{}{"case": ss, "impl": s1, "model": decList(got)})
			}})
			// an external edit + reload on top: file values win again, stored keys stay
			if r.Chance(50) {
				nt := genText(r, 4, 0)
				if _, _, err := libRead(nt); err == nil && !strings.Contains(nt, "${") && nt != text {
					text = nt
					writeFile(path, text)
					if !waitFsClockPast(dir, ns) {
						break
					}
					writeFile(path, text)
					ns, _ = statNs(path)
					ops = append(ops, map[string]interface{}{"edit+reload": text})
					ce.c.ReloadNowForVerif()
					h.add(check{line: fmt.Sprintf("E %d %s", ns, encStr(text)), want: "ok", group: grp})
					h.add(check{line: "R", want: fmt.Sprint(ce.obs.count), canon: lastField, group: grp})
					keys := ce.c.GetKeys()
					sort.Strings(keys)
					ss := snapshot()
					h.add(check{line: "K", want: encList(keys), canon: canonSortedList, group: grp})
					for _, k := range keys {
						h.addGetter(ce, getterCall{kind: "v", key: k}, grp, func() interface{} { return ss })
					}
				}
			}
		}
		h.rep.Case(fmt.Sprint(ops), len(ops) > 1)
		ce.c.Destroy()
	}

	// ---- the package singletons and the remaining options (implementation only)
	o1, o2 := config.GetConfigObserver(), config.GetConfigObserver()
	t := &obsTarget{name: "default-registry", light: true}
	o1.Add("c18-api", t)
	dirA, pathA := h.newDir()
	dirB, pathB := h.newDir()
	writeFile(pathA, "which=A\n")
	writeFile(pathB, "which=B\n")
	c1 := conffile.GetConfig(conffile.WithHomePath(dirA))
	c2 := conffile.GetConfig(conffile.WithHomePath(dirB)) // the singleton exists: options are ignored
	o2.Run(c1)
	h.rep.Count("api:GetConfig")
	h.rep.Count("api:GetConfigObserver")
	if o1 != o2 || t.count != 1 {
		h.rep.Fail("property", "GetConfigObserver:not-shared", fmt.Sprintf("GetConfigObserver returned two registries (%v) or a target added through one was called %d times through the other", o1 != o2, t.count), nil)
	}
	if c1 != c2 || c1.GetValue("which") != "A" {
		h.rep.Fail("property", "GetConfig:not-a-singleton", fmt.Sprintf("two GetConfig calls: same object %v, which=%q", c1 == c2, c1.GetValue("which")), nil)
	}
	c1.Destroy()
	c3 := conffile.GetConfig(conffile.WithHomePath(dirB))
	if c3 == c1 || c3.GetValue("which") != "B" {
		h.rep.Fail("property", "GetConfig:not-renewed-after-destroy", fmt.Sprintf("GetConfig after Destroy: same object %v, which=%q", c3 == c1, c3.GetValue("which")), nil)
	}
	c3.Destroy()
	ctx, cancel := context.WithCancel(context.Background())
	lg := &countLog{}
	dirC, _ := h.newDir()
	c4 := conffile.NewForVerif(conffile.WithHomePath(dirC), conffile.WithContext(ctx, cancel), conffile.WithLogger(lg))
	h.rep.Count("api:WithContext+WithLogger")
	if lg.errs == 0 {
		h.rep.Fail("property", "WithLogger:missing-file-not-logged", "no configuration file: nothing reached the logger handed to WithLogger", nil)
	}
	c4.Destroy()
	if ctx.Err() == nil {
		h.rep.Fail("property", "WithContext:destroy-does-not-cancel", "Destroy did not cancel the context handed to WithContext", nil)
	}
	_ = vh.Clip
}
