package main

import (
	"strings"

	"verif/harness/vh"
)

// ---------------------------------------------------------------- keys

var simpleKeys = []string{"k", "a", "b", "debug", "net_udp_port", "x.y", "key1", "key2", "long_key_name_3", "_u", "9n", "Z", "pct%d"}

// raw (as written in a file) → parsed key
type rawKey struct{ raw, parsed string }

var escKeys = []rawKey{
	{`d\ e`, "d e"}, {`p\:q`, "p:q"}, {`e\=f`, "e=f"}, {`t\tk`, "t\tk"}, {`\u00e9t`, "ét"}, {`bs\\k`, `bs\k`},
	{"é", "é"}, {"한글", "한글"}, {"-dash", "-dash"}, {".dot", ".dot"}, {"a-b", "a-b"}, {"k#1", "k#1"}, {"q!", "q!"},
}

func genKey(r *vh.Rng, exotic int) rawKey {
	if r.Chance(exotic) {
		return escKeys[r.Intn(len(escKeys))]
	}
	k := r.PickStr(simpleKeys)
	return rawKey{k, k}
}

// ---------------------------------------------------------------- values (raw text as it stands in a file)

var intTexts = []string{"0", "1", "-1", "+7", "007", "2147483647", "2147483648", "-2147483648", "-2147483649",
	"9223372036854775807", "9223372036854775808", "-9223372036854775808", "-9223372036854775809", "12a", "1_000", "0x10", "١٢", "-", "+", "1 2", "1e3", " 42 ", "42\\t"}
var boolTexts = []string{"true", "false", "TRUE", "False", "t", "F", "1", "0", "yes", "tRUE", "on", " true"}
var floatTexts = []string{"1.5", "-0.0", "1e10", "1e39", "NaN", "inf", "-Inf", ".5", "5.", "0x1p-2", "1_0.5", "1.5f", "3.4028235e38", "1e-46"}
var listTexts = []string{"1,2,3", "1, 2 ,x,3", ",,1,,", "a,b;c", "1;2;3", "10,9223372036854775808,-5", "2147483648,4294967297,-2147483649", " , ", "7"}
var miscTexts = []string{"50%", "%s%d%%", "", " ", "plain", "two words", "trail  ", "a=b", "a:b", "x = y = z", "#notcomment", "!bang", `C:\\dir\\f`, `a\\\\b`, `tab\there`, `nl\nx`,
	`\u00e9\u4e2d`, "é中", "\u00a0", "\u00a0x\u3000", `q\"uote`, `\ lead`, `end\\`, "$", "$x", "{}", "a$b{c}", `bs\zq`, "emoji😀", "v\u2028w", `\:\=`, "\x0cff"}

func genRawValue(r *vh.Rng) string {
	switch r.Intn(10) {
	case 0, 1:
		return r.PickStr(intTexts)
	case 2:
		return r.PickStr(boolTexts)
	case 3:
		return r.PickStr(floatTexts)
	case 4:
		return r.PickStr(listTexts)
	case 5, 6, 7:
		return r.PickStr(miscTexts)
	case 8:
		// random printable soup with separators and backslashes
		n := 1 + r.Intn(8)
		alphabet := []string{"a", "b", "1", " ", "=", ":", "\\\\", "\\t", "#", "é", ",", ";", "\t", "\\u0041", "_"}
		var b strings.Builder
		for i := 0; i < n; i++ {
			b.WriteString(r.PickStr(alphabet))
		}
		return b.String()
	default:
		// continuation line
		return "first\\\n   second"
	}
}

var seps = []string{"=", "=", "=", "=", "=", " = ", "= ", " =", ":", " : ", " ", "\t", "\t=\t", "  =  "}

var commentTexts = []string{"# comment", "! bang comment", "#", "#x=1", "# c = a = b", "  # indented = yes", "#k=1=2=3", "!a=b", "# ünï=cödé", "#\ttab = t",
	"# 100% of the budget", "#%s %d %v %%", "! 50%% done = yes", "# back\\slash \\n \\t \\u0041", "#\ttab\tinside\t", "# trailing blanks   ", "# a=b # c ! d", "# ünï 中 😀 %q", "#%", "!%!(EXTRA)",
	"# " + strings.Repeat("long %d comment ", 180)}

// lines without '=' that are not comments: Write copies them as they are (they still yield an item for the
// parser: key, or key + value separated by a blank — outside the well-formed class)
var junkTexts = []string{"100% of", "%s", "%d items", "plain words", "back\\slash", "tab\there", "trailing   ", "mid#hash !bang", "中文 行", "k%v", "word",
	"x " + strings.Repeat("long%s ", 300)}
var blankTexts = []string{"", "", " ", "\t", "  \x0c"}

// a line of a generated file
type line struct {
	kind string // comment | blank | kv | junk
	text string
}

func genLine(r *vh.Rng, exotic int) line {
	switch {
	case r.Chance(18):
		return line{"comment", r.PickStr(commentTexts)}
	case r.Chance(8):
		return line{"blank", r.PickStr(blankTexts)}
	case exotic > 0 && r.Chance(7):
		return line{"junk", r.PickStr(junkTexts)}
	default:
		k := genKey(r, exotic)
		sep := "="
		if r.Chance(exotic) {
			sep = r.PickStr(seps)
		}
		lead := ""
		if r.Chance(exotic / 2) {
			lead = r.PickStr([]string{" ", "  ", "\t"})
		}
		var v string
		if exotic == 0 {
			v = r.PickStr([]string{"1", "true", "x", "hello world", "a,b,c", "1.5", "v=w", "é", `p\\q`, "100%", "%d%%s", "#x !y"})
		} else {
			v = genRawValue(r)
		}
		return line{"kv", lead + k.raw + sep + v}
	}
}

// genText builds a properties file. exotic = percentage of unusual keys / separators.
func genText(r *vh.Rng, maxLines, exotic int) string {
	n := r.Intn(maxLines + 1)
	var b strings.Builder
	for i := 0; i < n; i++ {
		l := genLine(r, exotic)
		b.WriteString(l.text)
		if i == n-1 && r.Chance(15) {
			break // no newline at the end of the file
		}
		if exotic > 0 && r.Chance(6) {
			b.WriteString("\r\n")
		} else {
			b.WriteString("\n")
		}
	}
	return b.String()
}

var malformedTexts = []string{"=v\n", "k=1\n:x\n", "k=\\u12\n", "k=\\uZZZZ\n", "k\\", "k=v\\", "a=${b\n", "a=${a}\n", "a=${b}\nb=${a}\n", "\\u00"}
var expansionTexts = []string{"a=${b}\nb=2\n", "a=x${HOME_NOT_SET_C18}y\n", "a=1\nb=${a}${a}\n"}

// ---------------------------------------------------------------- values handed to SetValues

var setValues = []string{"100%", "%s %d", "1", "10", "true", "v", "new value", "a,b", "x=y", "é中", "0", "3.5", "p:q", "#h", "{}", "end\\", `a\b`, "t\tb"}
var setValuesOdd = []string{"", " ", `a\\b`, `\\`, " lead", "\tlead", "two\nlines", "cr\rx", "\u00a0", `a\\\b`}

func genSetKV(r *vh.Rng, odd int) (string, string) {
	var k string
	if r.Chance(odd) {
		k = escKeys[r.Intn(len(escKeys))].parsed
	} else {
		k = r.PickStr(simpleKeys)
	}
	v := r.PickStr(setValues)
	if r.Chance(odd) {
		v = r.PickStr(setValuesOdd)
	}
	return k, v
}

// ---------------------------------------------------------------- well-formedness classes of the write-back theorem

func isWordByte(c byte) bool {
	return c >= '0' && c <= '9' || c >= 'A' && c <= 'Z' || c >= 'a' && c <= 'z' || c == '_'
}

// WFkey: starts with a word character, nothing that needs escaping in a key
func wfKey(k string) bool {
	if k == "" || !isWordByte(k[0]) {
		return false
	}
	return !strings.ContainsAny(k, " \t\x0c\r\n:=\\")
}

// WFval: reads back unchanged when written as key=esc(value): no line breaks, no adjacent
// backslashes, no leading blank, not blank, no "${"
func wfVal(v string) bool {
	if v == "" {
		return true // deletion request
	}
	if strings.TrimSpace(v) == "" {
		return false
	}
	if strings.ContainsAny(v, "\r\n") || strings.Contains(v, `\\`) || strings.Contains(v, "${") {
		return false
	}
	switch v[0] {
	case ' ', '\t', '\x0c':
		return false
	}
	return true
}
