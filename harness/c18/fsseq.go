package main

// Extraction of the file-system call sequence of DefaultFileParser.Write from the source
// (go/parser + go/ast).  The same file is used by the translator xlate/c18 (tie A) and by the
// harness (crash-prefix replay); keep the two copies identical.

import (
	"fmt"
	"go/ast"
	"go/parser"
	"go/token"
	"strings"
)

// FsCall is one call that can change what is stored: kind ∈ openRead | openTrunc | openOther |
// createTemp | chmod | write | sync | close | rename | remove ; File / Dst ∈ target | temp | ?
type FsCall struct {
	Kind string
	File string
	Dst  string
	Pos  string
}

func (c FsCall) String() string {
	if c.Kind == "rename" {
		return fmt.Sprintf("rename(%s,%s)", c.File, c.Dst)
	}
	if c.File == "" || c.Kind == "createTemp" {
		return c.Kind
	}
	return fmt.Sprintf("%s(%s)", c.Kind, c.File)
}

type fsWalker struct {
	fset     *token.FileSet
	pathArg  string            // name of the parameter holding the path of the configuration file
	origin   map[string]string // variable → target | temp (file handles and path variables)
	calls    []FsCall
	deferred []FsCall
	unknown  []string
}

func exprString(e ast.Expr) string {
	switch x := e.(type) {
	case *ast.Ident:
		return x.Name
	case *ast.SelectorExpr:
		return exprString(x.X) + "." + x.Sel.Name
	case *ast.BinaryExpr:
		return exprString(x.X) + x.Op.String() + exprString(x.Y)
	case *ast.CallExpr:
		return exprString(x.Fun) + "(…)"
	case *ast.BasicLit:
		return x.Value
	}
	return "?"
}

func (w *fsWalker) fileOf(e ast.Expr) string {
	switch x := e.(type) {
	case *ast.Ident:
		if x.Name == w.pathArg {
			return "target"
		}
		if o, ok := w.origin[x.Name]; ok {
			return o
		}
	case *ast.CallExpr:
		// f.Name()
		if s, ok := x.Fun.(*ast.SelectorExpr); ok && s.Sel.Name == "Name" {
			return w.fileOf(s.X)
		}
	}
	return "?"
}

// call classifies one call expression; lhs are the variables it is assigned to (if any).
func (w *fsWalker) call(c *ast.CallExpr, lhs []ast.Expr, deferred bool) {
	name := exprString(c.Fun)
	pos := w.fset.Position(c.Pos()).String()
	emit := func(fc FsCall) {
		fc.Pos = pos
		if deferred {
			w.deferred = append(w.deferred, fc)
		} else {
			w.calls = append(w.calls, fc)
		}
	}
	bind := func(o string) {
		if len(lhs) > 0 {
			if id, ok := lhs[0].(*ast.Ident); ok && id.Name != "_" {
				w.origin[id.Name] = o
			}
		}
	}
	switch {
	case name == "os.OpenFile" && len(c.Args) >= 2:
		file := w.fileOf(c.Args[0])
		flags := exprString(c.Args[1])
		kind := "openOther"
		switch {
		case strings.Contains(flags, "O_TRUNC"):
			kind = "openTrunc"
		case strings.Contains(flags, "O_CREATE") || strings.Contains(flags, "O_APPEND"):
			kind = "openOther"
		case strings.Contains(flags, "O_RDWR") || strings.Contains(flags, "O_RDONLY") || strings.Contains(flags, "O_WRONLY"):
			kind = "openRead" // opened without truncation; whether it is written is seen from the write calls
		}
		bind(file)
		emit(FsCall{Kind: kind, File: file})
	case name == "os.Create" && len(c.Args) >= 1:
		file := w.fileOf(c.Args[0])
		bind(file)
		emit(FsCall{Kind: "openTrunc", File: file})
	case name == "os.CreateTemp" || name == "ioutil.TempFile":
		bind("temp")
		emit(FsCall{Kind: "createTemp", File: "temp"})
	case name == "os.WriteFile" || name == "ioutil.WriteFile":
		file := w.fileOf(c.Args[0])
		emit(FsCall{Kind: "openTrunc", File: file})
		emit(FsCall{Kind: "write", File: file})
		emit(FsCall{Kind: "close", File: file})
	case name == "io.WriteString" || name == "fmt.Fprint" || name == "fmt.Fprintf" || name == "fmt.Fprintln":
		if len(c.Args) >= 1 {
			// only writes to a tracked file handle count (a strings.Builder / bytes.Buffer is not a file)
			if file := w.fileOf(c.Args[0]); file != "?" {
				emit(FsCall{Kind: "write", File: file})
			}
		}
	case name == "os.Rename" && len(c.Args) == 2:
		emit(FsCall{Kind: "rename", File: w.fileOf(c.Args[0]), Dst: w.fileOf(c.Args[1])})
	case name == "os.Remove" && len(c.Args) == 1:
		emit(FsCall{Kind: "remove", File: w.fileOf(c.Args[0])})
	case name == "os.Truncate" && len(c.Args) >= 1:
		emit(FsCall{Kind: "openTrunc", File: w.fileOf(c.Args[0])})
	case name == "os.Chmod" && len(c.Args) >= 1:
		emit(FsCall{Kind: "chmod", File: w.fileOf(c.Args[0])})
	default:
		// methods of a file handle
		if s, ok := c.Fun.(*ast.SelectorExpr); ok {
			if id, ok := s.X.(*ast.Ident); ok {
				if o, isFile := w.origin[id.Name]; isFile {
					switch s.Sel.Name {
					case "Write", "WriteString", "WriteAt":
						emit(FsCall{Kind: "write", File: o})
					case "Sync":
						emit(FsCall{Kind: "sync", File: o})
					case "Close":
						emit(FsCall{Kind: "close", File: o})
					case "Chmod":
						emit(FsCall{Kind: "chmod", File: o})
					case "Truncate":
						emit(FsCall{Kind: "openTrunc", File: o})
					case "Name":
						if len(lhs) > 0 {
							bind(o) // tmpPath := f.Name()
						}
					case "Seek", "Read", "Stat":
					default:
						w.unknown = append(w.unknown, name+" at "+pos)
					}
				}
			}
		}
	}
}

func isErrNotNil(e ast.Expr) bool {
	b, ok := e.(*ast.BinaryExpr)
	if !ok || b.Op != token.NEQ {
		return false
	}
	x, ok1 := b.X.(*ast.Ident)
	y, ok2 := b.Y.(*ast.Ident)
	return ok1 && ok2 && strings.Contains(strings.ToLower(x.Name), "err") && y.Name == "nil"
}

func (w *fsWalker) expr(e ast.Expr, lhs []ast.Expr, deferred bool) {
	ast.Inspect(e, func(n ast.Node) bool {
		if c, ok := n.(*ast.CallExpr); ok {
			for _, a := range c.Args {
				w.expr(a, nil, deferred)
			}
			w.call(c, lhs, deferred)
			return false
		}
		if _, ok := n.(*ast.FuncLit); ok {
			return false
		}
		return true
	})
}

func (w *fsWalker) stmt(s ast.Stmt) {
	switch x := s.(type) {
	case nil:
	case *ast.BlockStmt:
		for _, t := range x.List {
			w.stmt(t)
		}
	case *ast.ExprStmt:
		w.expr(x.X, nil, false)
	case *ast.AssignStmt:
		for _, r := range x.Rhs {
			w.expr(r, x.Lhs, false)
		}
	case *ast.DeclStmt:
	case *ast.DeferStmt:
		w.expr(x.Call, nil, true)
	case *ast.IfStmt:
		w.stmt(x.Init)
		if isErrNotNil(x.Cond) {
			// error path: not part of the normal sequence
		} else {
			w.stmt(x.Body)
		}
		w.stmt(x.Else)
	case *ast.ForStmt:
		w.stmt(x.Init)
		w.stmt(x.Body)
	case *ast.RangeStmt:
		w.stmt(x.Body)
	case *ast.SwitchStmt:
		w.stmt(x.Body)
	case *ast.CaseClause:
		for _, t := range x.Body {
			w.stmt(t)
		}
	case *ast.ReturnStmt:
		for _, r := range x.Results {
			w.expr(r, nil, false)
		}
	}
}

// ExtractWriteSeq returns the normal-path call sequence of (*DefaultFileParser).Write:
// the calls in statement order, then the deferred ones in reverse order of registration.
// Calls on the error paths (`if err != nil { … }`) are left out.
func ExtractWriteSeq(goFile string) ([]FsCall, []string, error) {
	fset := token.NewFileSet()
	f, err := parser.ParseFile(fset, goFile, nil, 0)
	if err != nil {
		return nil, nil, err
	}
	for _, d := range f.Decls {
		fd, ok := d.(*ast.FuncDecl)
		if !ok || fd.Name.Name != "Write" || fd.Recv == nil || fd.Body == nil {
			continue
		}
		w := &fsWalker{fset: fset, origin: map[string]string{}}
		if len(fd.Type.Params.List) > 0 && len(fd.Type.Params.List[0].Names) > 0 {
			w.pathArg = fd.Type.Params.List[0].Names[0].Name
		}
		w.stmt(fd.Body)
		seq := append([]FsCall{}, w.calls...)
		for i := len(w.deferred) - 1; i >= 0; i-- {
			seq = append(seq, w.deferred[i])
		}
		return seq, w.unknown, nil
	}
	return nil, nil, fmt.Errorf("method Write not found in %s", goFile)
}

// StoreSeq drops the read-only prefix (the handle used to read the old lines) and keeps the calls
// that store the new content.
func StoreSeq(seq []FsCall) []FsCall {
	written := map[string]bool{}
	for _, c := range seq {
		if c.Kind == "write" {
			written[c.File] = true
		}
	}
	var out []FsCall
	readOpen := 0
	for _, c := range seq {
		if c.Kind == "openRead" && readOpen == 0 {
			readOpen++ // the first non-truncating open is the reading handle
			continue
		}
		out = append(out, c)
	}
	// the reading handle's close: remove one close(target) that has no preceding write-side open of target
	// (kept simple: closes do not change content, so they are harmless in the replay)
	return out
}
