package main

import (
	"fmt"
	"os"
	"path/filepath"
	"sort"
	"strings"
	"sync"
	"sync/atomic"

	"github.com/whatap/golib/config/conffile"
	"verif/harness/vh"
)

func seqString(seq []FsCall) string {
	ss := make([]string, len(seq))
	for i, c := range seq {
		ss[i] = c.String()
	}
	return strings.Join(ss, " ")
}

const truncSeqText = "openTrunc(target) write(target) sync(target) close(target) close(target)"
const atomicSeqText = "close(target) createTemp chmod(temp) write(temp) sync(temp) close(temp) rename(temp,target)"

// a step of the replay: either a whole call or one chunk of a write
type step struct {
	call  FsCall
	chunk string
}

// replayPrefix runs the first n steps on a scratch directory whose configuration file holds old,
// then returns what a reader of the configuration file sees ("\x00missing" if it is not there).
func replayPrefix(dir string, steps []step, n int, old string) string {
	target := filepath.Join(dir, "whatap.conf")
	os.RemoveAll(dir)
	os.MkdirAll(dir, 0o755)
	writeFile(target, old)
	handles := map[string]*os.File{}
	paths := map[string]string{"target": target}
	defer func() {
		for _, f := range handles {
			f.Close()
		}
	}()
	for i := 0; i < n; i++ {
		s := steps[i]
		c := s.call
		switch c.Kind {
		case "openTrunc":
			f, err := os.OpenFile(paths[c.File], os.O_WRONLY|os.O_TRUNC, 0o644)
			if err == nil {
				handles[c.File] = f
			}
		case "createTemp":
			f, err := os.CreateTemp(dir, "whatap.conf.tmp*")
			if err == nil {
				handles["temp"] = f
				paths["temp"] = f.Name()
			}
		case "chmod":
			if f := handles[c.File]; f != nil {
				f.Chmod(0o644)
			}
		case "write":
			if f := handles[c.File]; f != nil {
				f.WriteString(s.chunk)
			}
		case "sync":
			if f := handles[c.File]; f != nil {
				f.Sync()
			}
		case "close":
			if f := handles[c.File]; f != nil {
				f.Close()
				delete(handles, c.File)
			}
		case "rename":
			os.Rename(paths[c.File], paths[c.Dst])
		case "remove":
			os.Remove(paths[c.File])
		}
	}
	b, err := os.ReadFile(target)
	if err != nil {
		return "\x00missing"
	}
	return string(b)
}

func (h *harness) streamCrash() {
	src := filepath.Join(h.env.Repo, "config", "conffile", "DefaultFileParser.go")
	full, unknown, err := ExtractWriteSeq(src)
	if err != nil {
		h.rep.Fail("correspondence", "fs-sequence:extract", "cannot extract the file-system call sequence of DefaultFileParser.Write: "+err.Error(), map[string]interface{}{"file": src})
		return
	}
	seq := StoreSeq(full)
	text := seqString(seq)
	h.rep.Note("file-system call sequence of DefaultFileParser.Write (normal path): %s", seqString(full))
	if len(unknown) > 0 {
		h.rep.Note("unclassified file calls: %v", unknown)
	}
	which := ""
	switch text {
	case truncSeqText:
		which = "trunc"
	case atomicSeqText:
		which = "atomic"
	}
	h.rep.Count("crash:sequence:" + map[string]string{"": "other", "trunc": "trunc", "atomic": "atomic"}[which])

	pairs := [][2]string{
		{"a=1\nb=2\n", "a=1\nb=3\nc=4\n"},
		{"# c\nk=old value\n", "# c\nk=v\n"},
		{strings.Repeat("key=value\n", 40), strings.Repeat("key=other\n", 41)},
		{"x=1\n", "x=1\n"},
	}
	if h.env.Thorough {
		for i := 0; i < 40; i++ {
			pairs = append(pairs, [2]string{genText(h.rng, 10, 0) + "z=1\n", genText(h.rng, 10, 0) + "z=2\n"})
		}
	}
	dir := filepath.Join(h.tmp, "crash")
	var lines []string
	var observed []map[string]bool
	for _, p := range pairs {
		old, new := p[0], p[1]
		// writes are split into three chunks: every chunk boundary is a stop point
		var steps []step
		for _, c := range seq {
			if c.Kind == "write" {
				n := len(new)
				a, b := n/3, 2*n/3
				for _, ch := range []string{new[:a], new[a:b], new[b:]} {
					steps = append(steps, step{c, ch})
				}
			} else {
				steps = append(steps, step{call: c})
			}
		}
		seen := map[string]bool{}
		for n := 0; n <= len(steps); n++ {
			vis := replayPrefix(dir, steps, n, old)
			seen[vis] = true
			h.rep.Case(fmt.Sprintf("crash %s prefix %d old %q new %q", text, n, vh.Clip(old, 40), vh.Clip(new, 40)), n > 0)
			h.rep.Count("crash:prefix")
			h.crashThenContinue(dir, vis, n, text)
			if vis != old && vis != new {
				at := "start"
				if n > 0 {
					at = steps[n-1].call.String()
				}
				h.rep.Fail("property", "write:file-not-old-or-new",
					fmt.Sprintf("stopping DefaultFileParser.Write after %d steps (last: %s) leaves the configuration file with %d bytes: neither the old (%d bytes) nor the new (%d bytes) content", n, at, len(strings.TrimPrefix(vis, "\x00")), len(old), len(new)),
					map[string]interface{}{"sequence": text, "prefix": n, "old": old, "new": new, "visible": vis})
			}
		}
		// after the whole sequence the new content is in place
		if fin := replayPrefix(dir, steps, len(steps), old); fin != new {
			h.rep.Fail("correspondence", "fs-sequence:final", "replaying the extracted sequence does not produce the new content",
				map[string]interface{}{"sequence": text, "old": old, "new": new, "final": fin})
		}
		if which != "" {
			lines = append(lines, fmt.Sprintf("C %s %s %s", which, encStr(old), encStr(new)))
			observed = append(observed, seen)
			// the durability model (power loss) must allow at least everything a mere process stop shows
			lines = append(lines, fmt.Sprintf("CD %s %s %s", which, encStr(old), encStr(new)))
			observed = append(observed, seen)
		}
	}
	os.RemoveAll(dir)
	if which == "" {
		h.rep.Fail("correspondence", "fs-sequence:unknown", "the call sequence of DefaultFileParser.Write is neither of the two modelled sequences",
			map[string]interface{}{"sequence": text})
	} else {
		// model validation: every content seen on the real file system is one the model predicts
		outs, err := vh.RunDriver(h.env.Driver, lines)
		if err != nil {
			vh.Die("%v", err)
		}
		for i, o := range outs {
			model := map[string]bool{}
			for _, c := range decList(o) {
				model[c] = true
			}
			for c := range observed[i] {
				if !model[c] {
					h.rep.Fail("correspondence", "fs-model", "the real file system showed a content the FS model does not predict",
						map[string]interface{}{"line": vh.Clip(lines[i], 300), "seen": c})
				}
			}
		}
	}
	h.pollDuringSetValues()
}

// crashThenContinue: the process stopped after n steps of a write-back; whatever files exist stay where
// they are (plus a fixed-name <conf>.tmp holding the leftover padded with more lines, so that it is longer
// than anything written next).  A second write-back must produce exactly what it produces in a clean
// directory holding the same configuration file.
func (h *harness) crashThenContinue(dir, vis string, n int, seqText string) {
	if strings.HasPrefix(vis, "\x00") {
		return
	}
	m, _, err := libRead(vis)
	if err != nil {
		return
	}
	target := filepath.Join(dir, "whatap.conf")
	leftovers, _ := filepath.Glob(filepath.Join(dir, "whatap.conf.tmp*"))
	pad := strings.Repeat("zzz_leftover=of the interrupted write\n", 20+len(vis)/20)
	left := ""
	if len(leftovers) > 0 {
		b, _ := os.ReadFile(leftovers[0])
		left = string(b)
	}
	writeFile(filepath.Join(dir, "whatap.conf.tmp"), left+pad)
	m["written_after_the_crash"] = "yes"
	parser := conffile.NewDefaultFileParser()
	var werr error
	oc := vh.Guard(func() { werr = parser.Write(target, &m) })
	got, _ := os.ReadFile(target)
	// reference: the same write-back in a clean directory
	ref := filepath.Join(h.tmp, "crash-ref")
	os.RemoveAll(ref)
	os.MkdirAll(ref, 0o755)
	rt := filepath.Join(ref, "whatap.conf")
	writeFile(rt, vis)
	m2, _, _ := libRead(vis)
	m2["written_after_the_crash"] = "yes"
	parser.Write(rt, &m2)
	want, _ := os.ReadFile(rt)
	os.RemoveAll(ref)
	h.rep.Count("crash:then-continue")
	h.rep.Case(fmt.Sprintf("crash-then-continue %s prefix %d leftover %d bytes", seqText, n, len(left)), true)
	if !oc.OK() || werr != nil || string(got) != string(want) {
		h.rep.Fail("property", "write:leftover-temp-bleeds",
			fmt.Sprintf("a write-back after an interrupted one (stopped after %d steps; leftover temporary files: %d, plus a longer %s) produced %d bytes, a clean directory gives %d bytes (error: %v %s)",
				n, len(leftovers), "whatap.conf.tmp", len(got), len(want), werr, oc.Panic),
			map[string]interface{}{"sequence": seqText, "stopped_after": n, "file_at_the_stop": vis, "leftover": vh.Clip(left, 200),
				"second_write_result": vh.Clip(string(got), 600), "expected": vh.Clip(string(want), 600)})
	}
}

// pollDuringSetValues: a reader polls the configuration file while SetValues rewrites it; it must only
// ever see one of the complete contents.
func (h *harness) pollDuringSetValues() {
	iters := 400
	if h.env.Thorough {
		iters = 5000
	}
	dir, path := h.newDir()
	var b strings.Builder
	b.WriteString("# polled file\n")
	for i := 0; i < 150; i++ {
		fmt.Fprintf(&b, "key_%03d=value number %d with some padding to make the write take longer\n", i, i)
	}
	b.WriteString("flip=A\n")
	writeFile(path, b.String())
	ce := newCfg(dir)
	defer ce.c.Destroy()
	set := func(v string) string {
		m := map[string]string{"flip": v}
		ce.c.SetValues(&m)
		c, _ := os.ReadFile(path)
		return string(c)
	}
	contentB := set("B")
	contentA := set("A")
	if contentA == contentB || !strings.Contains(contentA, "flip=A") {
		h.rep.Fail("correspondence", "poll:setup", "SetValues did not produce the two expected contents", map[string]interface{}{"a": vh.Clip(contentA, 200)})
		return
	}
	var stop atomic.Bool
	var wg sync.WaitGroup
	type bad struct {
		n   int
		err string
	}
	var mu sync.Mutex
	var bads []bad
	reads := int64(0)
	for r := 0; r < 3; r++ {
		wg.Add(1)
		go func() {
			defer wg.Done()
			for !stop.Load() {
				c, err := os.ReadFile(path)
				atomic.AddInt64(&reads, 1)
				if err != nil {
					mu.Lock()
					bads = append(bads, bad{-1, err.Error()})
					mu.Unlock()
					continue
				}
				if s := string(c); s != contentA && s != contentB {
					mu.Lock()
					if len(bads) < 5 {
						bads = append(bads, bad{len(c), ""})
					}
					mu.Unlock()
				}
			}
		}()
	}
	for i := 0; i < iters; i++ {
		if i%2 == 0 {
			set("B")
		} else {
			set("A")
		}
	}
	stop.Store(true)
	wg.Wait()
	h.rep.CountN("poll:setvalues", iters)
	h.rep.CountN("poll:reads", int(reads))
	h.rep.Case(fmt.Sprintf("poll %d SetValues", iters), true)
	if len(bads) > 0 {
		sort.Slice(bads, func(i, j int) bool { return bads[i].n < bads[j].n })
		h.rep.Fail("property", "write:reader-saw-partial-file",
			fmt.Sprintf("a reader polling the configuration file during SetValues saw %d bytes (complete contents have %d / %d bytes) %s", bads[0].n, len(contentA), len(contentB), bads[0].err),
			map[string]interface{}{"iterations": iters, "reads": reads, "seen_bytes": bads[0].n, "complete_bytes": []int{len(contentA), len(contentB)}})
	}
}

var _ = conffile.NewDefaultFileParser
