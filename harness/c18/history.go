package main

import (
	"encoding/json"
	"fmt"
	"os"
	"sort"
	"strings"
	"time"

	"github.com/whatap/golib/config"
	"github.com/whatap/golib/config/conffile"
	"verif/harness/vh"
)

// re-entrant observers: what the callback does besides counting
var reKinds = []string{"registers-observer", "reads-getters", "calls-setvalues", "triggers-reload",
	"panics-first-call", "panics-kth-call", "panics-on-value"}

type fileVerT struct {
	text     string
	ns, size int64
}

// raceParser wraps the real parser: right after a Read (i.e. after reload has taken the file's stamp and
// read its content) it runs a hook once — an external edit landing in the middle of the reload.
type raceParser struct {
	inner conffile.FileParser
	hook  func()
}

func (p *raceParser) Read(path string) (map[string]string, error) {
	m, err := p.inner.Read(path)
	if hk := p.hook; hk != nil {
		p.hook = nil
		hk()
	}
	return m, err
}
func (p *raceParser) Write(path string, m *map[string]string) error { return p.inner.Write(path, m) }

// dropLine removes one physical line of text (an external edit that removes a key or a comment).
func dropLine(r *vh.Rng, text string) (string, bool) {
	ls := strings.SplitAfter(text, "\n")
	if len(ls) > 0 && ls[len(ls)-1] == "" {
		ls = ls[:len(ls)-1]
	}
	if len(ls) < 2 {
		return text, false
	}
	i := r.Intn(len(ls))
	return strings.Join(append(append([]string{}, ls[:i]...), ls[i+1:]...), ""), true
}

// sameLenVariant changes one character of text without changing its byte length (and without
// creating a \u escape): the last ASCII letter or digit becomes '7' (or '8').
func sameLenVariant(text string) (string, bool) {
	b := []byte(text)
	for i := len(b) - 1; i >= 0; i-- {
		c := b[i]
		if c >= '0' && c <= '9' || c >= 'a' && c <= 'z' || c >= 'A' && c <= 'Z' {
			if c == '7' {
				b[i] = '8'
			} else {
				b[i] = '7'
			}
			return string(b), true
		}
	}
	return text, false
}

// streamHistory: histories of external edits (mtimes moving forward within a second, to a later
// second, BACKWARDS, or staying at the same instant; same-length and different-length contents;
// natural mtimes; deletion; deletion + re-creation), reloads, getters, and observers registered
// before the configuration is created, after it, between reloads, and replaced.
func (h *harness) streamHistory(n, maxSteps int) {
	base := int64(1_700_000_000)
	for i := 0; i < n; i++ {
		grp := h.newGroup()
		dir, path := h.newDir()
		var hist []map[string]interface{}
		logOp := func(op string, kv ...interface{}) {
			m := map[string]interface{}{"op": op}
			for j := 0; j+1 < len(kv); j += 2 {
				m[kv[j].(string)] = kv[j+1]
			}
			hist = append(hist, m)
			if h.curFile != "" {
				// mirrored for the parent: if this process is killed, this is the replay
				if b, err := json.Marshal(hist); err == nil {
					os.WriteFile(h.curFile, b, 0o644)
				}
			}
		}
		snapshot := func() []map[string]interface{} { return append([]map[string]interface{}{}, hist...) }
		h.add(check{line: "N", want: "ok", group: grp})
		exists := false
		var curText string
		var curNs, curSize int64
		prevText := ""      // the content the previous reload looked at
		ownPending := false // the latest change of the file is this object's own SetValues (nothing external since)
		ownWhat := ""
		sec := base + int64(h.rng.Intn(1000))*10
		nsInSec := int64(0)
		haveInstant := false
		dead := false
		// half of the histories keep the file inside the well-formed class of the write-back theorem, so
		// that SetValues can be interleaved with external edits and judged exactly
		wf := h.rng.Chance(50)
		exotic := 15
		if wf {
			exotic = 0
		}
		// the watchdog only bounds hangs: generous, so that a busy machine cannot turn a slow reload (fsync under
		// load) into a verdict; a kind that hung once is not tried again in this run
		watchdog := 30 * time.Second
		if h.env.Thorough {
			watchdog = 90 * time.Second
		}
		reKind := ""
		if h.rng.Chance(35) {
			reKind = h.rng.PickStr(reKinds)
			if h.hangs[reKind] >= 1 {
				reKind = ""
			}
			if strings.Contains(h.skipKinds, "panics") && strings.HasPrefix(reKind, "panics") {
				reKind = ""
			}
			if strings.Contains(h.skipKinds, "reentrant") {
				reKind = ""
			}
		}
		if reKind == "calls-setvalues" {
			wf, exotic = true, 0
		}
		add := func(c check) {
			if !dead {
				c.group = grp
				h.add(c)
			}
		}
		isDir := false     // a directory stands where the file should be
		var away *fileVerT // the file was deleted / renamed away: what it was (for a stamp-preserving restore)
		awayRenamed := false
		bak := path + ".bak"
		deferE := false // an edit made from inside a reload: its model line goes after that reload's line
		var pendingE []check
		type fileVer = fileVerT
		var racePre *fileVer // what the file was when the racing reload looked at it
		edit := func(recreate bool) {
			var text string
			sameLen := false
			if exists && h.rng.Chance(40) {
				if _, _, err := libRead(curText); err == nil {
					if v, ok := sameLenVariant(curText); ok {
						if _, _, err2 := libRead(v); err2 == nil {
							text, sameLen = v, true
						}
					}
				}
			}
			if !sameLen && wf && exists && h.rng.Chance(30) {
				// an external edit that removes one line (a key or a comment)
				if v, ok := dropLine(h.rng, curText); ok {
					text, sameLen = v, true
					h.rep.Count("history:edit-removes-line")
				}
			}
			for tries := 0; !sameLen; tries++ {
				if !wf && !h.mustLoadFatal && h.rng.Chance(4) {
					text = genText(h.rng, 3, 10) + "\n" + h.rng.PickStr(malformedTexts[:6])
				} else {
					text = genText(h.rng, 6, exotic)
				}
				if strings.Contains(text, "${") {
					continue
				}
				if _, _, err := libRead(text); err != nil && h.mustLoadFatal {
					continue
				}
				if text != curText || tries > 5 {
					break
				}
			}
			if recreate || isDir {
				os.RemoveAll(path)
				if recreate {
					h.rep.Count("history:recreate")
				}
				isDir = false
			}
			away = nil
			ownPending = false
			writeFile(path, text)
			mode := "natural"
			if !h.rng.Chance(15) {
				// controlled mtime
				switch x := h.rng.Intn(100); {
				case !haveInstant || x < 25:
					sec += int64(1 + h.rng.Intn(3))
					nsInSec = int64(h.rng.Intn(1000)) * 1_000_000
					mode = "later-second"
				case x < 60:
					nsInSec += int64(1+h.rng.Intn(300)) * 1_000_000
					if nsInSec >= 1_000_000_000 {
						sec++
						nsInSec = 0
					}
					mode = "same-second"
				case x < 85:
					// backwards: a restored backup, mv/cp -p of an older copy, a clock stepped back
					back := int64(1+h.rng.Intn(5000)) * 1_000_000
					if h.rng.Chance(40) {
						back = int64(1+h.rng.Intn(400)) * 1_000_000 // stays in the same second most of the time
					}
					tot := sec*1_000_000_000 + nsInSec - back
					sec, nsInSec = tot/1_000_000_000, tot%1_000_000_000
					mode = "older"
				default:
					mode = "same-instant"
				}
				t := time.Unix(sec, nsInSec)
				if err := os.Chtimes(path, t, t); err != nil {
					vh.Die("chtimes: %v", err)
				}
				haveInstant = true
			}
			h.rep.Count("history:edit-" + mode)
			if sameLen && len(text) == len(curText) {
				h.rep.Count("history:edit-same-length")
			}
			curNs, curSize = statNs(path)
			curText = text
			exists = true
			logOp("edit", "text", text, "mtime_ns", curNs, "mtime", mode, "same_length", sameLen, "recreated", recreate, "during_reload", deferE)
			if deferE {
				pendingE = append(pendingE, check{line: fmt.Sprintf("E %d %s", curNs, encStr(text)), want: "ok"})
			} else {
				add(check{line: fmt.Sprintf("E %d %s", curNs, encStr(text)), want: "ok"})
			}
		}

		// ---- observers
		observer := config.NewConfigObserver()
		var targets []*obsTarget
		nextID := 1
		register := func(name, when string) *obsTarget {
			for _, t := range targets {
				if t.name == name && t.registered {
					t.registered = false // replaced
				}
			}
			t := &obsTarget{id: nextID, name: name, when: when, registered: true, light: true}
			nextID++
			targets = append(targets, t)
			observer.Add(name, t)
			logOp("observer-add", "name", name, "target", t.id, "when", when)
			h.rep.Count("history:observer-" + when)
			add(check{line: fmt.Sprintf("O %s %d", encStr(name), t.id), want: "ok"})
			return t
		}
		for k := 1 + h.rng.Intn(3); k > 0; k-- { // with the reference observer: at least three targets once one more joins
			register(fmt.Sprintf("pre%d", k), "before-construction")
		}
		// a re-entrant observer: its callback registers another observer / reads getters / calls SetValues /
		// triggers another reload.  Targets registered from inside a callback ("children") are not part of
		// the model (whether a registry entry added during a round is visited in that round is unspecified);
		// they are judged directly: from the next round on they hear what everybody hears.
		var children []*obsTarget
		childSince := map[*obsTarget]int{} // the round (reload number) in which the child appeared
		round := 0
		nested := false
		panicFired, everPanicked := false, false
		panicK := 2 + h.rng.Intn(2)
		makeReentrant := func(t *obsTarget) {
			t.light = true
			kind := reKind
			t.hook = func(c config.Config) {
				switch kind {
				case "registers-observer":
					if len(children) == 0 {
						ch := &obsTarget{id: nextID, name: "child-of-" + t.name, when: "from-a-callback", registered: true, light: true}
						nextID++
						children = append(children, ch)
						childSince[ch] = round
						observer.Add(ch.name, ch)
					}
				case "reads-getters":
					for _, k := range c.GetKeys() {
						c.GetValue(k)
					}
					c.GetInt("k", 1)
					c.GetStringArray("a", "", ",")
					_ = c.String()
				case "calls-setvalues":
					if t.count <= 2 {
						m := map[string]string{"written_by_observer": fmt.Sprint(t.count)}
						c.SetValues(&m)
					}
				case "panics-first-call", "panics-kth-call", "panics-on-value":
					// a failing callback: reload recovers the panic; the observers not yet visited in this round
					// are not called for this change (map iteration order decides which)
					fire := false
					switch kind {
					case "panics-first-call":
						fire = t.count == 1
					case "panics-kth-call":
						fire = t.count == panicK
					default:
						fire = c.GetValue("k") == "true" || c.GetValue("a") == "1" || c.GetValue("key1") == "x"
					}
					if fire {
						panicFired, everPanicked = true, true
						panic("observer " + t.name + " fails in ApplyConfig")
					}
				case "triggers-reload":
					if fc, ok := c.(*conffile.FileConfig); ok && !nested {
						nested = true
						fc.ReloadNowForVerif()
						nested = false
					}
				}
			}
		}
		reLate := false
		if reKind != "" {
			h.rep.Count("history:reentrant-" + reKind)
			if h.rng.Chance(60) {
				makeReentrant(register("reentrant", "before-construction"))
			} else {
				reLate = true
			}
		}
		hung := false // after a hang nothing of this configuration / registry is touched again
		hang := func(what string) {
			hung = true
			h.hangs[reKind]++
			key := "reload:hangs"
			if reKind != "" {
				key = "reload:hangs-when-observer-" + reKind
			}
			h.rep.Fail("property", key,
				fmt.Sprintf("%s did not return within %v (re-entrant observer: %q): the reload goroutine is stuck, the file is never tracked again", what, watchdog, reKind),
				map[string]interface{}{"history": snapshot(), "reentrant_observer": reKind})
			dead = true
		}
		if h.rng.Chance(85) {
			edit(false)
		}
		var ce *cfgEnv
		logOp("construct")
		rp := &raceParser{inner: conffile.NewDefaultFileParser()}
		if oc := vh.GuardTimeout(watchdog, func() { ce = newCfgObs(dir, observer, conffile.WithParser(rp)) }); oc.Timeout || ce == nil {
			if oc.Timeout {
				hang("the constructor's reload")
			} else {
				h.rep.Fail("property", "construct:panic", "NewForVerif panicked: "+oc.Panic, map[string]interface{}{"history": snapshot()})
			}
			continue // this configuration object is abandoned (its goroutine is leaked on purpose)
		}
		add(check{line: fmt.Sprintf("O %s 0", encStr("verif")), want: "ok"}) // registered before the constructor's reload
		targets = append(targets, ce.obs)
		// the model registers "verif" after the pre-observers but before the first reload: same order of ids? ids are
		// only labels; counts are compared per id.
		var prevVer [2]int64 = [2]int64{-1, -1}
		prevRaced := false   // the previous reload had an edit landing in its middle
		prevMissing := false // the previous reload found no file
		expectReset := false // the configuration remembers a file: its disappearance must reset it to the defaults
		runs := 0            // notification rounds so far (reloads that called at least one observer)
		prevCount := 0
		afterReload := func() {
			// who was called by this reload
			roundHappened := false
			var visited []string
			for _, t := range append(append([]*obsTarget{}, targets...), children...) {
				if t.count > t.prev {
					roundHappened = true
					visited = append(visited, fmt.Sprint(t.id))
				}
			}
			if roundHappened {
				runs++
			}
			panicRound := panicFired
			panicFired = false
			refCalled := ce.obs.count > ce.obs.prev
			logOp("reload", "notification_rounds", runs, "observer_panicked", panicRound)
			h.rep.Count("history:reload")
			if panicRound {
				h.rep.Count("history:reload-with-observer-panic")
			}
			hs := snapshot()
			cnt := runs
			thisRound := round
			round++
			if dead {
				return
			}
			if exists {
				// the file as this reload saw it (an edit that landed during the reload comes after it)
				curText, curNs, curSize := curText, curNs, curSize
				if racePre != nil {
					curText, curNs, curSize = racePre.text, racePre.ns, racePre.size
				}
				ver := [2]int64{curNs, curSize}
				m, _, err := libRead(curText)
				if err == nil && ver != prevVer {
					// the property, directly: the file differs from what the previous reload saw, so every
					// key=value of it is visible now and the observers were told
					key := "reload:edit-not-loaded"
					switch {
					case prevRaced:
						key = "reload:edit-during-reload-lost"
					case prevMissing:
						key = "reload:restored-file-not-loaded"
					case prevVer[0] >= 0 && curNs <= prevVer[0]:
						key = "reload:not-newer-mtime-edit"
					case prevVer[0] >= 0 && prevVer[0]/1e9 == curNs/1e9:
						key = "reload:same-second-edit"
					}
					what := fmt.Sprintf("file now: mtime %d ns, %d bytes; at the previous reload: mtime %d ns, %d bytes", curNs, curSize, prevVer[0], prevVer[1])
					for k, v := range m {
						if got := ce.c.GetValue(k); got != strings.TrimSpace(v) {
							h.rep.Fail("property", key,
								fmt.Sprintf("after the reload key %q reads %q, the file says %q (%s)", k, got, strings.TrimSpace(v), what),
								map[string]interface{}{"history": hs})
							dead = true
							break
						}
					}
					if !dead && cnt == prevCount+1 && refCalled {
						// "notified after each change": inside the notification the getters already answer from the new file
						for k, v := range m {
							if got := ce.obs.last[k]; got != strings.TrimSpace(v) {
								h.rep.Fail("property", "observer:notified-before-merge",
									fmt.Sprintf("inside the observer notification key %q read %q, the file says %q", k, got, strings.TrimSpace(v)),
									map[string]interface{}{"history": hs})
								dead = true
								break
							}
						}
					}
					if !dead && cnt != prevCount+1 && everPanicked && !panicRound {
						h.rep.Fail("property", "reload:observers-silenced-after-observer-panic",
							fmt.Sprintf("an observer panicked in an earlier notification (reload recovered it); now the file changed (%s) and nobody was notified", what),
							map[string]interface{}{"history": hs})
						dead = true
					}
					if !dead && cnt != prevCount+1 {
						h.rep.Fail("property", key,
							fmt.Sprintf("the file changed but the observers were not notified by the reload (%s; notifications so far: %d)", what, cnt),
							map[string]interface{}{"history": hs})
						dead = true
					}
				}
				if err == nil && !dead && ver == prevVer && ownPending && curText != prevText {
					// the object's own write-back changed the content but left (mtime, size) as the previous reload
					// saw them (the file system's clock had moved on before the write: a replacement file created
					// by the write carries a later time): written values must read back after a reload
					for k, v := range m {
						if got := ce.c.GetValue(k); got != strings.TrimSpace(v) {
							h.rep.Fail("property", "setvalues:written-file-not-loaded",
								fmt.Sprintf("SetValues rewrote the file (%s), a reload ran, key %q reads %q, the file says %q: the rewritten file carries the stamp the previous reload saw (mtime %d ns, %d bytes)",
									ownWhat, k, got, strings.TrimSpace(v), curNs, curSize),
								map[string]interface{}{"history": hs})
							dead = true
							break
						}
					}
				}
				ownPending = false
				prevVer = ver
				prevText = curText
				prevMissing = false
				expectReset = true // a stamp of an existing file is remembered now
			} else {
				// the file is gone: if the configuration remembered a file, it must now show the defaults (and only
				// them) and, since the observers are told about a reset, a notification round must have run
				if expectReset {
					keys := ce.c.GetKeys()
					sort.Strings(keys)
					bad := ""
					if strings.Join(keys, "\x00") != strings.Join(h.defaultKeys, "\x00") {
						bad = fmt.Sprintf("the keys are %q, the defaults have %d keys", keys, len(h.defaultKeys))
					} else {
						for _, k := range keys {
							if got := ce.c.GetValue(k); got != strings.TrimSpace(h.defaults[k]) {
								bad = fmt.Sprintf("key %q reads %q, the default is %q", k, got, h.defaults[k])
								break
							}
						}
					}
					if bad != "" {
						h.rep.Fail("property", "reload:file-gone-defaults-not-applied",
							"the file disappeared and a reload ran, but the configuration does not show the defaults: "+bad,
							map[string]interface{}{"history": hs})
						dead = true
					} else if h.notifyReset && !roundHappened {
						h.rep.Fail("property", "reload:file-gone-not-notified",
							"the file disappeared, the configuration went back to the defaults, but no observer was notified",
							map[string]interface{}{"history": hs})
						dead = true
					}
					expectReset = false
				}
				// the file was absent at this reload: whatever appears later must be loaded, even with the
				// stamp (mtime, size) the configuration had seen before the file went away
				prevVer = [2]int64{-1, -1}
				prevMissing = true
				ownPending = false
			}
			prevRaced = racePre != nil
			// every registered observer hears exactly what the reference observer hears; a replaced one nothing
			refDelta := cnt - prevCount
			for _, t := range targets {
				d := t.count - t.prev
				t.prev = t.count
				if dead {
					continue
				}
				exp := 0
				if t.registered {
					exp = refDelta
				}
				if panicRound && t.registered && (d == 0 || d == 1) {
					continue // a round cut short by a panic: visited or not, map order decides
				}
				if d != exp {
					key := "observer:registered-" + t.when + "-not-notified"
					if !t.registered {
						key = "observer:replaced-still-notified"
					} else if d > exp {
						key = "observer:notified-too-often"
					}
					h.rep.Fail("property", key,
						fmt.Sprintf("observer %q (target %d, registered %s, still registered: %v) was called %d times by this reload, the observer registered before construction %d times",
							t.name, t.id, t.when, t.registered, d, refDelta),
						map[string]interface{}{"history": hs})
					dead = true
				}
			}
			for _, ch := range children {
				d := ch.count - ch.prev
				ch.prev = ch.count
				if dead {
					continue
				}
				if childSince[ch] == thisRound || panicRound {
					// the round in which it was registered (or a round cut short by a panic): 0 or 1 calls
					if d > 1 {
						h.rep.Fail("property", "observer:notified-too-often", fmt.Sprintf("observer %q registered from a callback was called %d times in one round", ch.name, d), map[string]interface{}{"history": hs})
						dead = true
					}
				} else if d != refDelta {
					h.rep.Fail("property", "observer:registered-from-a-callback-not-notified",
						fmt.Sprintf("observer %q (registered from inside another observer's callback) was called %d times by this reload, the observer registered before construction %d times", ch.name, d, refDelta),
						map[string]interface{}{"history": hs})
					dead = true
				}
			}
			prevCount = cnt
			if dead {
				return // the rest of this history is not compared with the model
			}
			rline := "R"
			if panicRound {
				rline = "RP " + vh.List(visited)
				if len(visited) == 0 {
					rline = "RP []"
				}
			} else if racePre != nil && len(pendingE) == 1 {
				// the model's racing reload: reload of the present file during which it becomes the edited one
				rline = "RR " + strings.TrimPrefix(pendingE[0].line, "E ")
				pendingE = nil
			}
			add(check{line: rline, want: fmt.Sprint(cnt), canon: lastField, onDiff: func(got string) {
				h.rep.Fail("correspondence", "reload:decision", "reload decision / notification count differs from the model",
					map[string]interface{}{"history": hs, "impl_notified": cnt, "model": got})
			}})
			for _, c := range pendingE {
				add(c)
			}
			pendingE = nil
			// a target registered from inside a callback during this round: the model is told how often it was
			// visited in this very round (0 or 1 — unspecified); from now on it is an ordinary target
			for _, ch := range children {
				if childSince[ch] == thisRound {
					add(check{line: fmt.Sprintf("OX %s %d %d", encStr(ch.name), ch.id, ch.count), want: "ok"})
				}
			}
			// per-target call counts as the model has them
			ts := append(append([]*obsTarget{}, targets...), children...)
			sort.Slice(ts, func(a, b int) bool { return ts[a].id < ts[b].id })
			var cs []string
			for _, t := range ts {
				cs = append(cs, fmt.Sprintf("%d:%d", t.id, t.count))
			}
			wantOC := strings.Join(cs, ",")
			add(check{line: "OC", want: wantOC, canon: canonCounts, onDiff: func(got string) {
				h.rep.Fail("correspondence", "observer:counts", "per-observer call counts differ from the model",
					map[string]interface{}{"history": hs, "impl": wantOC, "model": got})
			}})
			// state snapshot: keys and values
			keys := ce.c.GetKeys()
			sort.Strings(keys)
			add(check{line: "K", want: encList(keys), canon: canonSortedList, onDiff: func(got string) {
				h.rep.Fail("correspondence", "reload:keys", "key set after reload differs from the model",
					map[string]interface{}{"history": hs, "impl": keys, "model": decList(got)})
			}})
			for _, k := range keys {
				g := getterCall{kind: "v", key: k}
				h.addGetter(ce, g, grp, func() interface{} { return hs })
			}
			// an observer may have written the file from inside its callback: what the file holds now
			if exists {
				if nb, err := os.ReadFile(path); err == nil {
					ns, sz := statNs(path)
					if string(nb) != curText || ns != curNs {
						curText, curNs, curSize = string(nb), ns, sz
						logOp("file-written-by-observer", "text", curText, "mtime_ns", curNs)
						h.rep.Count("history:file-written-by-observer")
						add(check{line: fmt.Sprintf("E %d %s", curNs, encStr(curText)), want: "ok"})
					}
				}
			}
		}
		reload := func() {
			defer func() { rp.hook, deferE, racePre, pendingE = nil, false, nil, nil }()
			if dead {
				return
			}
			if oc := vh.GuardTimeout(watchdog, func() { ce.c.ReloadNowForVerif() }); oc.Timeout {
				logOp("reload-hangs")
				hang("reload()")
				return
			} else if !oc.OK() {
				h.rep.Fail("property", "reload:panic", "reload panicked: "+oc.Panic, map[string]interface{}{"history": snapshot()})
				dead = true
				return
			}
			afterReload()
		}
		goAway := func() {
			if !exists {
				return
			}
			away = &fileVerT{curText, curNs, curSize}
			ownPending = false
			awayRenamed = !isDir && h.rng.Chance(50)
			if isDir {
				away = nil
			}
			if awayRenamed {
				os.Remove(bak)
				os.Rename(path, bak)
				logOp("rename-away")
				h.rep.Count("history:rename-away")
			} else {
				os.RemoveAll(path)
				logOp("delete")
				h.rep.Count("history:delete")
			}
			exists, isDir = false, false
			add(check{line: "D", want: "ok"})
		}
		restore := func() {
			if exists || away == nil {
				return
			}
			// stamp-preserving restore: rename back, or the same bytes with the old mtime (cp -p, tar x, rsync -t)
			if awayRenamed {
				os.Rename(bak, path)
				logOp("rename-back")
				h.rep.Count("history:rename-back")
			} else {
				writeFile(path, away.text)
				t := time.Unix(0, away.ns)
				os.Chtimes(path, t, t)
				logOp("restore-same-bytes-same-mtime")
				h.rep.Count("history:restore-same-stamp")
			}
			curText = away.text
			curNs, curSize = statNs(path)
			exists = true
			away = nil
			logOp("file-restored", "text", curText, "mtime_ns", curNs)
			add(check{line: fmt.Sprintf("E %d %s", curNs, encStr(curText)), want: "ok"})
		}
		svN := 0
		doSetValues := func() {
			if dead || !exists || !wf {
				return
			}
			before, _, err := libRead(curText)
			if err != nil {
				return
			}
			kvs := map[string]string{}
			for n := 1 + h.rng.Intn(2); n > 0; n-- {
				var k string
				switch x := h.rng.Intn(100); {
				case x < 45:
					svN++
					k = fmt.Sprintf("set%d", svN) // unrelated new key
				case x < 75 && len(before) > 0:
					ks := make([]string, 0, len(before))
					for fk := range before {
						ks = append(ks, fk)
					}
					sort.Strings(ks)
					k = ks[h.rng.Intn(len(ks))]
				default:
					// a key the configuration still holds although the file no longer has it
					k = "set_removed"
					ks := ce.c.GetKeys()
					sort.Strings(ks)
					for _, mk := range ks {
						if _, inFile := before[mk]; !inFile && wfKey(mk) {
							k = mk
							break
						}
					}
				}
				if !wfKey(k) {
					continue
				}
				kvs[k] = h.rng.PickStr(setValues)
				if cv, ok := before[k]; ok && h.rng.Chance(55) {
					// the net effect keeps the size of the file: a value exactly as long as the one it replaces
					if nv := sameKindValue(h.rng, cv, len(cv)); nv != "" && wfVal(cv) {
						kvs[k] = nv
						h.rep.Count("history:setvalues-same-length-value")
					}
				}
			}
			if len(kvs) == 0 {
				return
			}
			// a file stamped "just now" by somebody else: wait until the file system's clock has moved past that
			// stamp (otherwise a same-size rewrite within one tick is the known finding reload:same-stamp-edit)
			if curNs > time.Now().Add(-10*time.Second).UnixNano() && curNs < time.Now().Add(10*time.Second).UnixNano() {
				if !waitFsClockPast(dir, curNs) {
					return
				}
			}
			old := curText
			arg := map[string]string{}
			for k, v := range kvs {
				arg[k] = v
			}
			logOp("setvalues", "kvs", kvs)
			h.rep.Count("history:setvalues")
			hs := snapshot()
			if oc := vh.GuardTimeout(watchdog, func() { ce.c.SetValues(&arg) }); oc.Timeout {
				h.rep.Fail("property", "setvalues:hangs", "SetValues did not return", map[string]interface{}{"history": hs})
				dead, hung = true, true
				return
			} else if !oc.OK() {
				h.rep.Fail("property", "writeback:panic", "SetValues panicked: "+oc.Panic, map[string]interface{}{"history": hs})
				dead = true
				return
			}
			nb, err := os.ReadFile(path)
			if err != nil {
				h.rep.Fail("property", "writeback:file-missing", "the configuration file is gone after SetValues", map[string]interface{}{"history": hs})
				dead = true
				return
			}
			newText := string(nb)
			// the property, directly: the write merges into what the FILE holds at the time of the write
			for _, b := range evalWriteProperty(old, newText, kvs) {
				key := map[string]string{"merge": "writeback:other-key-not-file-value", "comment": "write-back:pass-through-line", "order": "writeback:order"}[b[0]]
				h.rep.Fail("property", key,
					"SetValues in the middle of a history (external edits since the last reload): "+b[1],
					map[string]interface{}{"history": hs, "file_before": old, "kvs": kvs, "file_after": newText})
				dead = true
			}
			line := fmt.Sprintf("S 1 - - [] %s %s", encStr(old), encPairs(sortedPairs(kvs)))
			add(check{line: line, cmp: func(got string) bool { return matchWrite(newText, got) }, onDiff: func(got string) {
				h.rep.Fail("correspondence", "writeback:model", "write-back model and implementation disagree (SetValues inside a history)",
					map[string]interface{}{"history": hs, "file_before": old, "kvs": kvs, "file_after": newText, "model": vh.Clip(got, 1200)})
			}})
			preNs, preSize := curNs, curSize
			curText = newText
			curNs, curSize = statNs(path)
			ownPending = true
			ownWhat = fmt.Sprintf("before the write: mtime %d ns, %d bytes; after: mtime %d ns, %d bytes", preNs, preSize, curNs, curSize)
			if curSize == preSize && newText != old {
				h.rep.Count("history:setvalues-size-kept")
			}
			logOp("file-after-setvalues", "text", newText, "mtime_ns", curNs)
			add(check{line: fmt.Sprintf("E %d %s", curNs, encStr(newText)), want: "ok"})
		}
		afterReload()
		steps := 2 + h.rng.Intn(maxSteps)
		lateN := 0
		for s := 0; s < steps && !hung; s++ {
			switch x := h.rng.Intn(100); {
			case x < 26:
				edit(false)
			case x < 30 && exists:
				edit(true) // deleted and created again
			case x < 35 && exists:
				// the file goes away: deleted, or renamed away (a later restore keeps its stamp)
				goAway()
				if h.rng.Chance(60) {
					reload() // the configuration notices that the file is missing
					if h.rng.Chance(50) && !hung {
						restore() // … and the same file comes back with its old stamp
						reload()
					}
				}
			case x < 43 && exists && !wf && !h.mustLoadFatal:
				// an unparsable intermediate version (self-referential or unterminated ${…}, bad escape, a file caught
				// half-written), noticed by a reload; then, often, the file goes away / comes back
				text := h.rng.PickStr([]string{"a=${a}\n", "k=1\na=${b\n", "k=\\u12\n", "=v\n", "k=1\nnext=half\\", "a=${b}\nb=${a}\n"})
				if isDir {
					os.RemoveAll(path)
					isDir = false
				}
				ownPending = false
				writeFile(path, text)
				sec += int64(1 + h.rng.Intn(3))
				tm := time.Unix(sec, nsInSec)
				os.Chtimes(path, tm, tm)
				haveInstant = true
				curText = text
				curNs, curSize = statNs(path)
				logOp("edit-unparsable", "text", text, "mtime_ns", curNs)
				h.rep.Count("history:edit-unparsable")
				add(check{line: fmt.Sprintf("E %d %s", curNs, encStr(text)), want: "ok"})
				reload()
				if h.rng.Chance(70) && !hung {
					goAway()
					reload()
					if h.rng.Chance(50) && !hung {
						restore()
						reload()
					}
				}
			case x < 45 && !exists && away != nil:
				restore()
			case x < 38 && exists && !isDir:
				// truncated to nothing (and usually rewritten by a later edit)
				os.Truncate(path, 0)
				ownPending = false
				curText = ""
				curNs, curSize = statNs(path)
				logOp("truncate", "mtime_ns", curNs)
				h.rep.Count("history:truncate")
				add(check{line: fmt.Sprintf("E %d %s", curNs, encStr("")), want: "ok"})
			case x < 40 && !wf:
				// a directory in place of the file: Stat succeeds, reading fails
				os.RemoveAll(path)
				os.Mkdir(path, 0o755)
				ownPending = false
				isDir, exists, away = true, true, nil
				curNs, curSize = statNs(path)
				if curSize < 1 {
					curSize = 1
				}
				curText = "=" + strings.Repeat(" ", int(curSize)-1) // unreadable, with the directory's size
				logOp("directory-in-place-of-file", "mtime_ns", curNs, "size", curSize)
				h.rep.Count("history:directory")
				add(check{line: fmt.Sprintf("E %d %s", curNs, encStr(curText)), want: "ok"})
			case x < 62:
				reload()
			case x < 68:
				// an external edit lands in the middle of the reload: after reload took the stamp and read the file
				if exists && !dead && reKind != "triggers-reload" && !strings.HasPrefix(reKind, "panics") { // (a nested reload would legitimately load the racing edit)
					if _, _, err := libRead(curText); err == nil {
						h.rep.Count("history:edit-during-reload")
						rp.hook = func() {
							racePre = &fileVer{curText, curNs, curSize}
							deferE = true
							edit(false)
							deferE = false
						}
					}
				}
				reload()
			case x < 76:
				doSetValues()
				if h.rng.Chance(30) {
					doSetValues() // twice in a row
				}
			case x < 82:
				if reLate {
					reLate = false
					makeReentrant(register("reentrant", "between-reloads"))
					break
				}
				lateN++
				when := "between-reloads"
				if lateN == 1 && len(hist) <= 3 {
					when = "after-construction"
				}
				register(fmt.Sprintf("late%d", lateN), when)
			case x < 86 && len(targets) > 1:
				// replace the target registered under an existing name (never the reference)
				var names []string
				for _, t := range targets {
					if t.registered && t != ce.obs {
						names = append(names, t.name)
					}
				}
				if len(names) > 0 {
					register(names[h.rng.Intn(len(names))], "between-reloads")
					h.rep.Count("history:observer-replace")
				}
			default:
				keys := ce.c.GetKeys()
				k := "absent_key"
				if len(keys) > 0 && h.rng.Chance(80) {
					sort.Strings(keys)
					k = keys[h.rng.Intn(len(keys))]
				}
				g := genGetter(h.rng, k)
				hs := snapshot()
				if !dead {
					h.addGetter(ce, g, grp, func() interface{} { return hs })
				}
			}
		}
		// the file has stopped changing: one more reload must make it visible
		reload()
		if reKind == "calls-setvalues" && !hung {
			reload() // … and what the observer wrote during that reload as well
		}
		h.rep.Case(fmt.Sprint(hist), len(hist) > 2)
		if i < 2 {
			h.rep.Sample(map[string]interface{}{"stream": "history", "ops": hist})
		}
		if !dead {
			ce.c.Destroy()
		}
	}
}

// canonCounts sorts "id:count,…" by id.
func canonCounts(s string) string {
	if s == "[]" || strings.HasPrefix(s, "bad") {
		return s
	}
	parts := strings.Split(s, ",")
	sort.Slice(parts, func(a, b int) bool {
		var x, y, c int
		fmt.Sscanf(parts[a], "%d:%d", &x, &c)
		fmt.Sscanf(parts[b], "%d:%d", &y, &c)
		return x < y
	})
	return strings.Join(parts, ",")
}
