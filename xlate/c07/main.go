// xlate/c07 — tie A for property C07 (UDP tracer packs).
//
// Transcribes facts of /repo/lang/pack/udp/*.go into Lean data
// (lean/Golib/Gen/UdpLayouts.lean).  It never judges: the obligations over
// these data are in lean/Golib/Props/C07Gen.lean.  A statement it does not
// recognise becomes `.unknown "<source>"`, which makes the obligations that
// mention it fail (never silently skipped).
//
// Facts, per pack type T (every struct that has Write/Read methods):
//   T.w, T.r        the Write and Read bodies in the layout IR of Golib.Udp.Layout
//                   (calls of the embedded AbstractPack.Write/Read are spliced in)
//   structFields    fields with their Go types, embedded header first
//   clearAssigns    the assignments of Clear() in order (embedded Clear spliced in)
//   newAssigns      the assignments of NewT()
//   packTypeOf      GetPackType() constant
//   createTable / closeTable / poolNew / ctorType    the CreatePack / ClosePack switches and the pools
//   capsNamed       (type, field, constant name, value) of every stringutil.Truncate in a Write
//   procFacts       the statements of Process() of the SQL / DBC packs per agent-family branch
package main

import (
	"bytes"
	"flag"
	"fmt"
	"go/ast"
	"go/parser"
	"go/printer"
	"go/token"
	"os"
	"path/filepath"
	"sort"
	"strconv"
	"strings"
)

var fset = token.NewFileSet()

func src(n ast.Node) string {
	var b bytes.Buffer
	printer.Fprint(&b, fset, n)
	s := b.String()
	s = strings.Join(strings.Fields(s), " ")
	if len(s) > 120 {
		s = s[:120] + "..."
	}
	return s
}

func lstr(s string) string {
	var b strings.Builder
	b.WriteByte('"')
	for _, r := range s {
		switch {
		case r == '"':
			b.WriteString("\\\"")
		case r == '\\':
			b.WriteString("\\\\")
		case r < 32 || r > 126:
			b.WriteString("?")
		default:
			b.WriteRune(r)
		}
	}
	b.WriteByte('"')
	return b.String()
}

func lint(v int64) string {
	if v < 0 {
		return fmt.Sprintf("(%d)", v)
	}
	return fmt.Sprintf("%d", v)
}

// ---------------------------------------------------------------- source facts

type field struct{ name, typ string }

type structT struct {
	name     string
	fields   []field // own fields in order (embedded ones as name = type name, typ = "embedded")
	embedded []string
}

var (
	consts  = map[string]ast.Expr{}
	structs = map[string]*structT{}
	methods = map[string]map[string]*ast.FuncDecl{} // type → method → decl
	funcsT  = map[string]*ast.FuncDecl{}
	poolVar = map[string]string{} // pool var → constructor func name ("?" if unknown shape)
	order   []string              // struct names in file/decl order
)

func evalConst(e ast.Expr, depth int) (int64, bool) {
	if depth > 20 {
		return 0, false
	}
	switch x := e.(type) {
	case *ast.BasicLit:
		if x.Kind == token.INT {
			v, err := strconv.ParseInt(x.Value, 0, 64)
			return v, err == nil
		}
	case *ast.ParenExpr:
		return evalConst(x.X, depth+1)
	case *ast.Ident:
		if c, ok := consts[x.Name]; ok {
			return evalConst(c, depth+1)
		}
	case *ast.UnaryExpr:
		v, ok := evalConst(x.X, depth+1)
		if ok && x.Op == token.SUB {
			return -v, true
		}
		if ok && x.Op == token.ADD {
			return v, true
		}
	case *ast.BinaryExpr:
		a, ok1 := evalConst(x.X, depth+1)
		b, ok2 := evalConst(x.Y, depth+1)
		if ok1 && ok2 {
			switch x.Op {
			case token.MUL:
				return a * b, true
			case token.ADD:
				return a + b, true
			case token.SUB:
				return a - b, true
			case token.SHL:
				return a << uint(b), true
			}
		}
	case *ast.CallExpr: // conversions like uint8(1)
		if len(x.Args) == 1 {
			if id, ok := x.Fun.(*ast.Ident); ok && strings.Contains(id.Name, "int") {
				return evalConst(x.Args[0], depth+1)
			}
		}
	}
	return 0, false
}

func typeStr(e ast.Expr) string { return src(e) }

func load(dir string) {
	files, _ := filepath.Glob(filepath.Join(dir, "*.go"))
	sort.Strings(files)
	for _, p := range files {
		if strings.HasSuffix(p, "_test.go") || strings.HasSuffix(p, "_verif.go") {
			continue
		}
		f, err := parser.ParseFile(fset, p, nil, 0)
		if err != nil {
			fmt.Fprintln(os.Stderr, err)
			os.Exit(1)
		}
		for _, d := range f.Decls {
			switch x := d.(type) {
			case *ast.GenDecl:
				for _, sp := range x.Specs {
					switch s := sp.(type) {
					case *ast.ValueSpec:
						for i, n := range s.Names {
							if i < len(s.Values) {
								if x.Tok == token.CONST {
									consts[n.Name] = s.Values[i]
								} else if x.Tok == token.VAR {
									poolVarDecl(n.Name, s.Values[i])
								}
							}
						}
					case *ast.TypeSpec:
						if st, ok := s.Type.(*ast.StructType); ok {
							t := &structT{name: s.Name.Name}
							for _, fl := range st.Fields.List {
								if len(fl.Names) == 0 {
									en := typeStr(fl.Type)
									t.embedded = append(t.embedded, en)
									t.fields = append(t.fields, field{en, "embedded"})
								}
								for _, n := range fl.Names {
									t.fields = append(t.fields, field{n.Name, typeStr(fl.Type)})
								}
							}
							structs[t.name] = t
							order = append(order, t.name)
						}
					}
				}
			case *ast.FuncDecl:
				if x.Body == nil {
					continue
				}
				if x.Recv == nil {
					funcsT[x.Name.Name] = x
					continue
				}
				rt := ""
				if len(x.Recv.List) == 1 {
					switch r := x.Recv.List[0].Type.(type) {
					case *ast.StarExpr:
						rt = typeStr(r.X)
					default:
						rt = typeStr(r)
					}
				}
				if methods[rt] == nil {
					methods[rt] = map[string]*ast.FuncDecl{}
				}
				methods[rt][x.Name.Name] = x
			}
		}
	}
}

// var udpStartPool = sync.Pool{ New: func() interface{} { return NewUdpTxStartPack() } }
func poolVarDecl(name string, v ast.Expr) {
	cl, ok := v.(*ast.CompositeLit)
	if !ok || src(cl.Type) != "sync.Pool" {
		return
	}
	poolVar[name] = "?"
	for _, el := range cl.Elts {
		kv, ok := el.(*ast.KeyValueExpr)
		if !ok || src(kv.Key) != "New" {
			continue
		}
		fl, ok := kv.Value.(*ast.FuncLit)
		if !ok || len(fl.Body.List) != 1 {
			continue
		}
		rs, ok := fl.Body.List[0].(*ast.ReturnStmt)
		if !ok || len(rs.Results) != 1 {
			continue
		}
		if c, ok := rs.Results[0].(*ast.CallExpr); ok && len(c.Args) == 0 {
			if id, ok := c.Fun.(*ast.Ident); ok {
				poolVar[name] = id.Name
			}
		}
	}
}

// all fields of T, header first; a header field shadowed by an own field is qualified
func allFields(t *structT) []field {
	own := map[string]bool{}
	for _, f := range t.fields {
		if f.typ != "embedded" {
			own[f.name] = true
		}
	}
	var out []field
	for _, f := range t.fields {
		if f.typ == "embedded" {
			if e, ok := structs[f.name]; ok {
				for _, ef := range allFields(e) {
					n := ef.name
					if own[n] {
						n = f.name + "." + n
					}
					out = append(out, field{n, ef.typ})
				}
			} else {
				out = append(out, field{f.name, "embedded?"})
			}
		} else {
			out = append(out, f)
		}
	}
	return out
}

func fieldType(t *structT, name string) string {
	for _, f := range allFields(t) {
		if f.name == name {
			return f.typ
		}
	}
	return ""
}

// ---------------------------------------------------------------- layout IR

type item struct {
	kind string // fld ite setC setJoin rawLen unknown
	name string
	fmt  string
	conv string
	cond string
	a, b string // setJoin src / rawLen len / setC value / unknown why
	t, e []item
}

func printLayout(items []item, ind string) string {
	if len(items) == 0 {
		return ".nil"
	}
	it := items[0]
	rest := func() string { return printLayout(items[1:], ind) }
	switch it.kind {
	case "fld":
		return fmt.Sprintf(".fld %s %s %s <|\n%s%s", lstr(it.name), it.fmt, it.conv, ind, rest())
	case "ite":
		return fmt.Sprintf(".ite %s\n%s  (%s)\n%s  (%s) <|\n%s%s", it.cond, ind, printLayout(it.t, ind+"    "), ind, printLayout(it.e, ind+"    "), ind, rest())
	case "setC":
		return fmt.Sprintf(".setC %s %s <|\n%s%s", lstr(it.name), it.a, ind, rest())
	case "setJoin":
		return fmt.Sprintf(".setJoin %s %s <|\n%s%s", lstr(it.name), lstr(it.a), ind, rest())
	case "rawLen":
		return fmt.Sprintf(".rawLen %s %s <|\n%s%s", lstr(it.name), lstr(it.a), ind, rest())
	default:
		return fmt.Sprintf(".unknown %s", lstr(it.a))
	}
}

type ctx struct {
	t      *structT
	recv   string // receiver identifier
	stream string // stream parameter identifier
	write  bool
	caps   *[]capT
}

type capT struct {
	typ, field, cname string
	val              int64
}

func recvName(fd *ast.FuncDecl) string {
	if fd.Recv != nil && len(fd.Recv.List) == 1 && len(fd.Recv.List[0].Names) == 1 {
		return fd.Recv.List[0].Names[0].Name
	}
	return "?"
}
func paramName(fd *ast.FuncDecl) string {
	if fd.Type.Params != nil && len(fd.Type.Params.List) == 1 && len(fd.Type.Params.List[0].Names) == 1 {
		return fd.Type.Params.List[0].Names[0].Name
	}
	return "?"
}

// this.F → "F" ; this.AbstractPack.F → "F" (or "AbstractPack.F" when shadowed)
func (c *ctx) selField(e ast.Expr) (string, bool) {
	se, ok := e.(*ast.SelectorExpr)
	if !ok {
		return "", false
	}
	if id, ok := se.X.(*ast.Ident); ok && id.Name == c.recv {
		if _, isEmb := structs[se.Sel.Name]; isEmb {
			return "", false
		}
		return se.Sel.Name, true
	}
	if in, ok := se.X.(*ast.SelectorExpr); ok {
		if id, ok := in.X.(*ast.Ident); ok && id.Name == c.recv {
			if _, isEmb := structs[in.Sel.Name]; isEmb {
				for _, f := range c.t.fields {
					if f.typ != "embedded" && f.name == se.Sel.Name {
						return in.Sel.Name + "." + se.Sel.Name, true
					}
				}
				return se.Sel.Name, true
			}
		}
	}
	return "", false
}

func intWidth(typ string) int {
	switch typ {
	case "int32", "uint32":
		return 4
	case "int64", "uint64", "int":
		return 8
	case "int16", "uint16":
		return 2
	case "int8", "uint8", "byte":
		return 1
	}
	return 0
}

// stream.Method(args) ?
func (c *ctx) streamCall(e ast.Expr) (string, []ast.Expr, bool) {
	ce, ok := e.(*ast.CallExpr)
	if !ok {
		return "", nil, false
	}
	se, ok := ce.Fun.(*ast.SelectorExpr)
	if !ok {
		return "", nil, false
	}
	if id, ok := se.X.(*ast.Ident); ok && id.Name == c.stream {
		return se.Sel.Name, ce.Args, true
	}
	return "", nil, false
}

// pkg.Func(args) ?
func pkgCall(e ast.Expr) (string, []ast.Expr, bool) {
	ce, ok := e.(*ast.CallExpr)
	if !ok {
		return "", nil, false
	}
	switch f := ce.Fun.(type) {
	case *ast.SelectorExpr:
		if id, ok := f.X.(*ast.Ident); ok {
			return id.Name + "." + f.Sel.Name, ce.Args, true
		}
	case *ast.Ident:
		return f.Name, ce.Args, true
	}
	return "", nil, false
}

var wfmt = map[string]string{"WriteTextShortLength": ".text16", "WriteInt": ".i32", "WriteLong": ".i64"}
var rfmt = map[string]string{"ReadTextShortLength": ".text16", "ReadInt": ".i32", "ReadLong": ".i64"}

// writer argument → (field, conv)
func (c *ctx) wArg(e ast.Expr) (string, string, bool) {
	if f, ok := c.selField(e); ok {
		return f, ".id", true
	}
	fn, args, ok := pkgCall(e)
	if !ok {
		return "", "", false
	}
	switch fn {
	case "stringutil.Truncate":
		if len(args) == 2 {
			if f, ok := c.selField(args[0]); ok {
				if v, ok := evalConst(args[1], 0); ok && v >= 0 {
					nc := capT{c.t.name, f, src(args[1]), v}
					dup := false
					for _, o := range *c.caps {
						if o == nc {
							dup = true
						}
					}
					if !dup {
						*c.caps = append(*c.caps, nc)
					}
					return f, fmt.Sprintf("(.trunc %d)", v), true
				}
			}
		}
	case "stringutil.ParseStringZeroToEmpty":
		if len(args) == 1 {
			a := args[0]
			if fn2, args2, ok := pkgCall(a); ok && fn2 == "int64" && len(args2) == 1 {
				a = args2[0]
			}
			if f, ok := c.selField(a); ok {
				if w := intWidth(fieldType(c.t, f)); w == 4 || w == 8 {
					return f, fmt.Sprintf("(.numText %d)", w), true
				}
			}
		}
	case "string":
		if len(args) == 1 {
			if f, ok := c.selField(args[0]); ok {
				ft := fieldType(c.t, f)
				if ft == "string" {
					return f, ".id", true
				}
				if intWidth(ft) > 0 {
					return f, ".rune", true
				}
			}
		}
	}
	return "", "", false
}

func (c *ctx) cond(e ast.Expr) (string, bool) {
	be, ok := e.(*ast.BinaryExpr)
	if !ok {
		return "", false
	}
	f, ok := c.selField(be.X)
	if !ok || f != "Ver" {
		return "", false
	}
	v, ok := evalConst(be.Y, 0)
	if !ok {
		return "", false
	}
	op := map[token.Token]string{token.GTR: "verGt", token.GEQ: "verGe", token.LSS: "verLt", token.LEQ: "verLe", token.EQL: "verEq", token.NEQ: "verNe"}[be.Op]
	if op == "" {
		return "", false
	}
	return fmt.Sprintf("(.%s %s)", op, lint(v)), true
}

func unknown(n ast.Node) []item { return []item{{kind: "unknown", a: src(n)}} }

func (c *ctx) stmts(list []ast.Stmt) []item {
	var out []item
	for _, s := range list {
		its := c.stmt(s)
		out = append(out, its...)
		if len(its) > 0 && its[len(its)-1].kind == "unknown" {
			break // everything after an untranslated statement is untranslated
		}
	}
	return out
}

func (c *ctx) stmt(s ast.Stmt) []item {
	switch x := s.(type) {
	case *ast.EmptyStmt:
		return nil
	case *ast.BlockStmt:
		return c.stmts(x.List)
	case *ast.ExprStmt:
		// this.AbstractPack.Write(dout) / Read(din)
		if ce, ok := x.X.(*ast.CallExpr); ok {
			if se, ok := ce.Fun.(*ast.SelectorExpr); ok {
				if in, ok := se.X.(*ast.SelectorExpr); ok {
					if id, ok := in.X.(*ast.Ident); ok && id.Name == c.recv {
						if emb, ok := structs[in.Sel.Name]; ok && len(ce.Args) == 1 && src(ce.Args[0]) == c.stream {
							want := "Read"
							if c.write {
								want = "Write"
							}
							if se.Sel.Name == want {
								if md, ok := methods[emb.name][want]; ok {
									sub := &ctx{t: emb, recv: recvName(md), stream: paramName(md), write: c.write, caps: c.caps}
									return sub.stmts(md.Body.List)
								}
							}
						}
					}
				}
			}
		}
		if !c.write {
			return unknown(s)
		}
		m, args, ok := c.streamCall(x.X)
		if !ok || len(args) != 1 {
			return unknown(s)
		}
		if f, ok := wfmt[m]; ok {
			if fld, conv, ok := c.wArg(args[0]); ok {
				return []item{{kind: "fld", name: fld, fmt: f, conv: conv}}
			}
			return unknown(s)
		}
		if m == "WriteBytes" {
			if fld, ok := c.selField(args[0]); ok {
				return []item{{kind: "rawLen", name: fld, a: ""}}
			}
		}
		return unknown(s)
	case *ast.IfStmt:
		if x.Init != nil {
			return unknown(s)
		}
		cd, ok := c.cond(x.Cond)
		if !ok {
			return unknown(s)
		}
		it := item{kind: "ite", cond: cd, t: c.stmts(x.Body.List)}
		if x.Else != nil {
			it.e = c.stmt(x.Else)
		}
		return []item{it}
	case *ast.AssignStmt:
		if len(x.Lhs) != 1 || len(x.Rhs) != 1 || x.Tok != token.ASSIGN {
			return unknown(s)
		}
		f, ok := c.selField(x.Lhs[0])
		if !ok {
			return unknown(s)
		}
		rhs := x.Rhs[0]
		if c.write {
			if fn, args, ok := pkgCall(rhs); ok && fn == "stringutil.ArrayInt16ToString" && len(args) == 2 && src(args[1]) == `","` {
				if g, ok := c.selField(args[0]); ok {
					return []item{{kind: "setJoin", name: f, a: g}}
				}
			}
			return unknown(s)
		}
		// reader
		if v, ok := evalConst(rhs, 0); ok {
			if _, isCall := rhs.(*ast.CallExpr); !isCall {
				return []item{{kind: "setC", name: f, a: fmt.Sprintf("(.int %s)", lint(v))}}
			}
		}
		if m, args, ok := c.streamCall(rhs); ok {
			if fm, ok := rfmt[m]; ok && len(args) == 0 {
				return []item{{kind: "fld", name: f, fmt: fm, conv: ".id"}}
			}
			if m == "ReadBytes" && len(args) == 1 {
				if g, ok := c.selField(args[0]); ok {
					return []item{{kind: "rawLen", name: f, a: g}}
				}
			}
			return unknown(s)
		}
		if fn, args, ok := pkgCall(rhs); ok && len(args) == 1 {
			w := map[string]int{"stringutil.ParseInt32": 4, "stringutil.ParseInt64": 8}[fn]
			if m, a2, ok := c.streamCall(args[0]); ok && w > 0 && m == "ReadTextShortLength" && len(a2) == 0 {
				if intWidth(fieldType(c.t, f)) == w {
					return []item{{kind: "fld", name: f, fmt: ".text16", conv: fmt.Sprintf("(.numText %d)", w)}}
				}
			}
		}
		return unknown(s)
	}
	return unknown(s)
}

// ---------------------------------------------------------------- Clear / New

type assign struct{ name, val string }

func (c *ctx) constVal(e ast.Expr, ftyp string) (string, bool) {
	switch x := e.(type) {
	case *ast.BasicLit:
		if x.Kind == token.STRING {
			s, err := strconv.Unquote(x.Value)
			if err == nil {
				bs := []string{}
				for _, b := range []byte(s) {
					bs = append(bs, strconv.Itoa(int(b)))
				}
				return "(.str [" + strings.Join(bs, ", ") + "])", true
			}
		}
	case *ast.Ident:
		switch x.Name {
		case "nil":
			return ".null", true
		case "true":
			return "(.bool true)", true
		case "false":
			return "(.bool false)", true
		}
	case *ast.CallExpr:
		if id, ok := x.Fun.(*ast.Ident); ok && id.Name == "make" && len(x.Args) == 1 {
			if _, ok := x.Args[0].(*ast.MapType); ok {
				return "(.strs [])", true
			}
		}
		return "", false
	}
	if v, ok := evalConst(e, 0); ok {
		return fmt.Sprintf("(.int %s)", lint(v)), true
	}
	return "", false
}

// assignments of a Clear()-like body; `bad` collects statements that are not constant assignments
func (c *ctx) assigns(list []ast.Stmt, method string, bad *[]string) []assign {
	var out []assign
	for _, s := range list {
		switch x := s.(type) {
		case *ast.ExprStmt:
			// this.AbstractPack.Clear()
			if ce, ok := x.X.(*ast.CallExpr); ok && len(ce.Args) == 0 {
				if se, ok := ce.Fun.(*ast.SelectorExpr); ok && se.Sel.Name == method {
					if in, ok := se.X.(*ast.SelectorExpr); ok {
						if id, ok := in.X.(*ast.Ident); ok && id.Name == c.recv {
							if emb, ok := structs[in.Sel.Name]; ok {
								if md, ok := methods[emb.name][method]; ok {
									sub := &ctx{t: emb, recv: recvName(md)}
									for _, a := range sub.assigns(md.Body.List, method, bad) {
										n := a.name
										for _, f := range c.t.fields {
											if f.typ != "embedded" && f.name == n {
												n = emb.name + "." + n
											}
										}
										out = append(out, assign{n, a.val})
									}
									continue
								}
							}
						}
					}
				}
			}
			*bad = append(*bad, src(s))
		case *ast.AssignStmt:
			if len(x.Lhs) == 1 && len(x.Rhs) == 1 && x.Tok == token.ASSIGN {
				if f, ok := c.selField(x.Lhs[0]); ok {
					if v, ok := c.constVal(x.Rhs[0], fieldType(c.t, f)); ok {
						out = append(out, assign{f, v})
						continue
					}
				}
			}
			*bad = append(*bad, src(s))
		case *ast.EmptyStmt:
		default:
			*bad = append(*bad, src(s))
		}
	}
	return out
}

// func NewT() *T { p := new(T); p.F = c; ...; return p }
func newAssigns(t *structT, bad *[]string) ([]assign, bool) {
	fd, ok := funcsT["New"+t.name]
	if !ok || fd.Type.Params == nil || len(fd.Type.Params.List) != 0 {
		return nil, false
	}
	body := fd.Body.List
	if len(body) < 2 {
		return nil, false
	}
	as, ok := body[0].(*ast.AssignStmt)
	if !ok || as.Tok != token.DEFINE || len(as.Lhs) != 1 || src(as.Rhs[0]) != "new("+t.name+")" {
		return nil, false
	}
	v := src(as.Lhs[0])
	if rs, ok := body[len(body)-1].(*ast.ReturnStmt); !ok || len(rs.Results) != 1 || src(rs.Results[0]) != v {
		return nil, false
	}
	c := &ctx{t: t, recv: v}
	return c.assigns(body[1:len(body)-1], "-", bad), true
}

// ---------------------------------------------------------------- CreatePack / ClosePack

type createRow struct {
	code          int64
	pool, typ     string
	setsVer, retP bool
}
type closeRow struct {
	code int64
	pool string
}

func createTable(bad *[]string) []createRow {
	fd, ok := funcsT["CreatePack"]
	if !ok || len(fd.Type.Params.List) != 2 {
		*bad = append(*bad, "CreatePack: not found")
		return nil
	}
	tname := fd.Type.Params.List[0].Names[0].Name
	vname := fd.Type.Params.List[1].Names[0].Name
	var rows []createRow
	for _, s := range fd.Body.List {
		sw, ok := s.(*ast.SwitchStmt)
		if !ok {
			if rs, ok := s.(*ast.ReturnStmt); ok && len(rs.Results) == 1 && src(rs.Results[0]) == "nil" {
				continue
			}
			*bad = append(*bad, "CreatePack: "+src(s))
			continue
		}
		if src(sw.Tag) != tname {
			*bad = append(*bad, "CreatePack: switch tag "+src(sw.Tag))
		}
		for _, cc := range sw.Body.List {
			cl := cc.(*ast.CaseClause)
			for _, ce := range cl.List {
				code, ok := evalConst(ce, 0)
				row := createRow{code: code}
				if !ok {
					*bad = append(*bad, "CreatePack: case "+src(ce))
				}
				// p := POOL.Get().(*T); p.Ver = ver; return p
				for _, st := range cl.Body {
					switch y := st.(type) {
					case *ast.AssignStmt:
						if y.Tok == token.DEFINE && len(y.Rhs) == 1 {
							if ta, ok := y.Rhs[0].(*ast.TypeAssertExpr); ok {
								if c2, ok := ta.X.(*ast.CallExpr); ok {
									if se, ok := c2.Fun.(*ast.SelectorExpr); ok && se.Sel.Name == "Get" {
										row.pool = src(se.X)
										row.typ = strings.TrimPrefix(src(ta.Type), "*")
										continue
									}
								}
							}
						}
						if y.Tok == token.ASSIGN && len(y.Lhs) == 1 && src(y.Lhs[0]) == "p.Ver" && src(y.Rhs[0]) == vname {
							row.setsVer = true
							continue
						}
						*bad = append(*bad, "CreatePack: "+src(st))
					case *ast.ReturnStmt:
						if len(y.Results) == 1 && src(y.Results[0]) == "p" {
							row.retP = true
						} else {
							*bad = append(*bad, "CreatePack: "+src(st))
						}
					default:
						*bad = append(*bad, "CreatePack: "+src(st))
					}
				}
				rows = append(rows, row)
			}
		}
	}
	return rows
}

func closeTable(bad *[]string) ([]closeRow, bool) {
	fd, ok := funcsT["ClosePack"]
	if !ok || len(fd.Type.Params.List) != 1 {
		*bad = append(*bad, "ClosePack: not found")
		return nil, false
	}
	pn := fd.Type.Params.List[0].Names[0].Name
	var rows []closeRow
	clearFirst := false
	for i, s := range fd.Body.List {
		if i == 0 && src(s) == pn+".Clear()" {
			clearFirst = true
			continue
		}
		sw, ok := s.(*ast.SwitchStmt)
		if !ok || src(sw.Tag) != pn+".GetPackType()" {
			*bad = append(*bad, "ClosePack: "+src(s))
			continue
		}
		for _, cc := range sw.Body.List {
			cl := cc.(*ast.CaseClause)
			for _, ce := range cl.List {
				code, ok := evalConst(ce, 0)
				if !ok {
					*bad = append(*bad, "ClosePack: case "+src(ce))
				}
				row := closeRow{code: code}
				if len(cl.Body) == 1 {
					if es, ok := cl.Body[0].(*ast.ExprStmt); ok {
						if c2, ok := es.X.(*ast.CallExpr); ok && len(c2.Args) == 1 && src(c2.Args[0]) == pn {
							if se, ok := c2.Fun.(*ast.SelectorExpr); ok && se.Sel.Name == "Put" {
								row.pool = src(se.X)
							}
						}
					}
				}
				if row.pool == "" {
					*bad = append(*bad, "ClosePack: case body "+src(cl))
				}
				rows = append(rows, row)
			}
		}
	}
	return rows, clearFirst
}

// ---------------------------------------------------------------- Process() facts of the SQL / DBC packs

// a family branch is described by the list of its statements in a small normal form
func (c *ctx) procStmts(list []ast.Stmt) []string {
	var out []string
	for _, s := range list {
		switch x := s.(type) {
		case *ast.IfStmt:
			// if this.Dbc != "" { p := paramtext.NewParamKVSeperate(this.Dbc, " ", "="); this.Dbc = p.ToStringStr("password", "#"); ... }
			cs := src(x.Cond)
			if x.Else == nil && x.Init == nil {
				if be, ok := x.Cond.(*ast.BinaryExpr); ok {
					if f, ok := c.selField(be.X); ok && be.Op == token.NEQ && src(be.Y) == `""` {
						out = append(out, "ifNonEmpty "+f+" ["+strings.Join(c.procStmts(x.Body.List), "; ")+"]")
						continue
					}
					if be.Op == token.GEQ && strings.HasPrefix(src(be.X), "len(") {
						if v, ok := evalConst(be.Y, 0); ok {
							out = append(out, fmt.Sprintf("ifLenGe %s %d [%s]", strings.ReplaceAll(src(be.X), c.recv+".", "F."), v, strings.Join(c.procStmts(x.Body.List), "; ")))
							continue
						}
					}
				}
			}
			out = append(out, "if "+cs+" ...")
		case *ast.AssignStmt:
			if len(x.Lhs) == 1 && len(x.Rhs) == 1 {
				l := src(x.Lhs[0])
				if f, ok := c.selField(x.Lhs[0]); ok {
					l = "F." + f
				}
				r := src(x.Rhs[0])
				r = strings.ReplaceAll(r, c.recv+".", "F.")
				out = append(out, l+" = "+r)
				continue
			}
			out = append(out, src(s))
		default:
			out = append(out, src(s))
		}
	}
	return out
}

// Process(): if this.Ver > 50000 {A} else if > 40000 {B} ... else {E}  → [(cond, stmts)] ; anything else → ("?", src)
func procFacts(t *structT) [][2]string {
	md, ok := methods[t.name]["Process"]
	if !ok {
		return [][2]string{{"?", "no Process"}}
	}
	c := &ctx{t: t, recv: recvName(md)}
	var out [][2]string
	var walk func(s ast.Stmt)
	walk = func(s ast.Stmt) {
		switch x := s.(type) {
		case *ast.IfStmt:
			cd, ok := c.cond(x.Cond)
			if !ok || x.Init != nil {
				out = append(out, [2]string{"?", src(s)})
				return
			}
			out = append(out, [2]string{cd, strings.Join(c.procStmts(x.Body.List), "; ")})
			if x.Else != nil {
				walk(x.Else)
			}
		case *ast.BlockStmt:
			out = append(out, [2]string{"else", strings.Join(c.procStmts(x.List), "; ")})
		default:
			out = append(out, [2]string{"?", src(s)})
		}
	}
	for _, s := range md.Body.List {
		walk(s)
	}
	return out
}

// ---------------------------------------------------------------- main

func main() {
	repo := flag.String("repo", "/repo", "repository root")
	out := flag.String("out", "", "output Lean file")
	mode := flag.String("mode", "udp", "udp: layouts and tables of lang/pack/udp; goir: ParamKV / stringutil functions in the interpreted IR")
	flag.Parse()
	if *mode == "goir" {
		goirMain(*repo, *out)
		return
	}
	load(filepath.Join(*repo, "lang", "pack", "udp"))

	var b strings.Builder
	w := func(f string, a ...interface{}) { fmt.Fprintf(&b, f, a...) }
	w("-- GENERATED by xlate/c07 from lang/pack/udp/*.go — do not edit\n")
	w("import Golib.Udp.Layout\n\nnamespace Udp.Gen\nopen Udp\n\n")

	// pack types: structs with Write and Read; the embedded header first
	var types []string
	for _, n := range order {
		if methods[n]["Write"] != nil && methods[n]["Read"] != nil {
			types = append(types, n)
		}
	}
	sort.SliceStable(types, func(i, j int) bool {
		ei := len(structs[types[i]].embedded) == 0
		ej := len(structs[types[j]].embedded) == 0
		if ei != ej {
			return ei
		}
		return types[i] < types[j]
	})
	var caps []capT
	for _, n := range types {
		t := structs[n]
		for _, side := range []string{"Write", "Read"} {
			md := methods[n][side]
			var discard []capT
			cp := &caps
			if len(t.embedded) == 0 {
				cp = &discard // the header's own caps are reported through the types that splice it
			}
			c := &ctx{t: t, recv: recvName(md), stream: paramName(md), write: side == "Write", caps: cp}
			items := c.stmts(md.Body.List)
			w("def %s.%s : Layout :=\n  %s\n\n", n, strings.ToLower(side[:1]), printLayout(items, "  "))
		}
	}
	w("def layouts : List (String × Layout × Layout) := [\n")
	for i, n := range types {
		sep := ","
		if i == len(types)-1 {
			sep = ""
		}
		w("  (%s, %s.w, %s.r)%s\n", lstr(n), n, n, sep)
	}
	w("]\n\n")

	// struct fields
	w("def structFields : List (String × List (String × String)) := [\n")
	for i, n := range types {
		var fs []string
		for _, f := range allFields(structs[n]) {
			fs = append(fs, fmt.Sprintf("(%s, %s)", lstr(f.name), lstr(f.typ)))
		}
		sep := ","
		if i == len(types)-1 {
			sep = ""
		}
		w("  (%s, [%s])%s\n", lstr(n), strings.Join(fs, ", "), sep)
	}
	w("]\n\n")

	// Clear / New
	var bad []string
	pr := func(name string, get func(t *structT) ([]assign, bool)) {
		w("def %s : List (String × List (String × Val)) := [\n", name)
		first := true
		for _, n := range types {
			as, ok := get(structs[n])
			if !ok {
				continue
			}
			var xs []string
			for _, a := range as {
				xs = append(xs, fmt.Sprintf("(%s, %s)", lstr(a.name), a.val))
			}
			if !first {
				w(",\n")
			}
			first = false
			w("  (%s, [%s])", lstr(n), strings.Join(xs, ", "))
		}
		w("\n]\n\n")
	}
	pr("clearAssigns", func(t *structT) ([]assign, bool) {
		md, ok := methods[t.name]["Clear"]
		if !ok {
			return nil, false
		}
		var lb []string
		c := &ctx{t: t, recv: recvName(md)}
		as := c.assigns(md.Body.List, "Clear", &lb)
		for _, x := range lb {
			bad = append(bad, t.name+".Clear: "+x)
		}
		return as, true
	})
	pr("newAssigns", func(t *structT) ([]assign, bool) {
		var lb []string
		as, ok := newAssigns(t, &lb)
		for _, x := range lb {
			bad = append(bad, "New"+t.name+": "+x)
		}
		if !ok && len(t.embedded) > 0 {
			bad = append(bad, "New"+t.name+": constructor shape not recognised")
		}
		return as, ok
	})

	// GetPackType
	w("def packTypeOf : List (String × Nat) := [\n")
	first := true
	for _, n := range types {
		md, ok := methods[n]["GetPackType"]
		if !ok {
			continue
		}
		code := int64(-1)
		if len(md.Body.List) == 1 {
			if rs, ok := md.Body.List[0].(*ast.ReturnStmt); ok && len(rs.Results) == 1 {
				if v, ok := evalConst(rs.Results[0], 0); ok {
					code = v
				}
			}
		}
		if code < 0 {
			bad = append(bad, n+".GetPackType: "+src(md.Body))
			code = 999999
		}
		if !first {
			w(",\n")
		}
		first = false
		w("  (%s, %d)", lstr(n), code)
	}
	w("\n]\n\n")

	// pools
	rows := createTable(&bad)
	w("/-- CreatePack: (type code, pool variable, asserted type, sets Ver, returns it) -/\n")
	w("def createTable : List (Nat × String × String × Bool × Bool) := [\n")
	for i, r := range rows {
		sep := ","
		if i == len(rows)-1 {
			sep = ""
		}
		w("  (%d, %s, %s, %v, %v)%s\n", r.code, lstr(r.pool), lstr(r.typ), r.setsVer, r.retP, sep)
	}
	w("]\n\n")
	crows, clearFirst := closeTable(&bad)
	w("/-- ClosePack: (type code, pool variable) -/\ndef closeTable : List (Nat × String) := [\n")
	for i, r := range crows {
		sep := ","
		if i == len(crows)-1 {
			sep = ""
		}
		w("  (%d, %s)%s\n", r.code, lstr(r.pool), sep)
	}
	w("]\n\ndef closeClearsFirst : Bool := %v\n\n", clearFirst)
	w("/-- pool variable ↦ constructor called by its New function -/\ndef poolNew : List (String × String) := [\n")
	var pvs []string
	for k := range poolVar {
		pvs = append(pvs, k)
	}
	sort.Strings(pvs)
	for i, k := range pvs {
		sep := ","
		if i == len(pvs)-1 {
			sep = ""
		}
		w("  (%s, %s)%s\n", lstr(k), lstr(poolVar[k]), sep)
	}
	w("]\n\n")
	w("/-- constructor function ↦ type it returns -/\ndef ctorType : List (String × String) := [\n")
	var cts []string
	for k, fd := range funcsT {
		if strings.HasPrefix(k, "New") && fd.Type.Results != nil && len(fd.Type.Results.List) == 1 && (fd.Type.Params == nil || len(fd.Type.Params.List) == 0) {
			cts = append(cts, fmt.Sprintf("  (%s, %s)", lstr(k), lstr(strings.TrimPrefix(src(fd.Type.Results.List[0].Type), "*"))))
		}
	}
	sort.Strings(cts)
	w("%s\n]\n\n", strings.Join(cts, ",\n"))

	// caps
	w("/-- every stringutil.Truncate of a Write body: (type, field, constant, value) -/\n")
	w("def capsNamed : List (String × String × String × Nat) := [\n")
	for i, c := range caps {
		sep := ","
		if i == len(caps)-1 {
			sep = ""
		}
		w("  (%s, %s, %s, %d)%s\n", lstr(c.typ), lstr(c.field), lstr(c.cname), c.val, sep)
	}
	w("]\n\n")

	// Process facts
	w("/-- Process() of the packs that carry a connection string: (family condition, statements) -/\n")
	w("def procFacts : List (String × List (String × String)) := [\n")
	ptypes := []string{"UdpTxSqlPack", "UdpTxSqlParamPack", "UdpTxDbcPack"}
	for i, n := range ptypes {
		var xs []string
		if t, ok := structs[n]; ok {
			for _, p := range procFacts(t) {
				xs = append(xs, fmt.Sprintf("(%s, %s)", lstr(p[0]), lstr(p[1])))
			}
		} else {
			xs = append(xs, `("?", "type not found")`)
		}
		sep := ","
		if i == len(ptypes)-1 {
			sep = ""
		}
		w("  (%s, [\n    %s])%s\n", lstr(n), strings.Join(xs, ",\n    "), sep)
	}
	w("]\n\n")

	// package-level state
	w("/-- package-level `var`s of the packages Write / Read / Process of the UDP packs run through -/\n")
	w("def pkgVars : List (String × List String) := [\n")
	var allRefs []string
	for i, dir := range stateDirs {
		vars, refs := stateScan(*repo, dir)
		var vs []string
		for _, v := range vars {
			vs = append(vs, lstr(v))
		}
		sep := ","
		if i == len(stateDirs)-1 {
			sep = ""
		}
		w("  (%s, [%s])%s\n", lstr(dir), strings.Join(vs, ", "), sep)
		for _, r := range refs {
			allRefs = append(allRefs, fmt.Sprintf("  (%s, %s, %s, %s)", lstr(dir), lstr(r[0]), lstr(r[1]), lstr(r[2])))
		}
	}
	w("]\n\n/-- (package, function, kind, variable): how each function mentions package-level variables\n    (r read, m method called on it, a passed as argument, w written / sliced / address taken) -/\n")
	w("def stateRefs : List (String × String × String × String) := [\n%s\n]\n\n", strings.Join(allRefs, ",\n"))

	w("/-- statements of Clear / New / CreatePack / ClosePack the translator did not understand -/\n")
	w("def untranslated : List String := [")
	for i, x := range bad {
		if i > 0 {
			w(", ")
		}
		w("%s", lstr(x))
	}
	w("]\n\nend Udp.Gen\n")

	if *out == "" {
		fmt.Print(b.String())
		return
	}
	if err := os.WriteFile(*out, []byte(b.String()), 0o644); err != nil {
		fmt.Fprintln(os.Stderr, err)
		os.Exit(1)
	}
}
