module verif/xlate/c07

go 1.23
