// goir.go — syntactic transcription of the small string-handling functions tied by C07 into the
// interpreted IR of lean/Golib/Udp/GoIR.lean (mode "goir", output lean/Golib/Gen/UdpGoFns.lean):
//
//	util/paramtext/ParamKV.go      indexFold, ToPair, NewParamKVSeperate, ExistsKey, ToString, ToStringStr
//	util/stringutil/StringUtil.go  Truncate, ParseInt32, ParseInt64, ParseStringZeroToEmpty, ArrayInt16ToString
//
// The translator only renames (variables and receiver fields become numbers, in order of first
// appearance) and maps library calls to the IR's builtins; it recognises no idioms.  A construct it
// does not know becomes `.unknown`, on which the IR's semantics fails, so every obligation about the
// function fails.
package main

import (
	"fmt"
	"go/ast"
	"go/parser"
	"go/token"
	"os"
	"path/filepath"
	"strconv"
	"strings"
)

type gfn struct {
	name   string
	decl   *ast.FuncDecl
	vars   map[string]int
	order  []string
	recv   map[string]bool // identifiers that denote the receiver object
	fields map[string]int
	funcs  map[string]int // program functions by name
	strSl  map[string]bool // locals made by make([]string, n)
	intSl  map[string]bool // parameters of an integer slice type
}

func (g *gfn) v(name string) int {
	if i, ok := g.vars[name]; ok {
		return i
	}
	i := len(g.order)
	g.vars[name] = i
	g.order = append(g.order, name)
	return i
}

func bytesLit(s string) string {
	var xs []string
	for _, b := range []byte(s) {
		xs = append(xs, strconv.Itoa(int(b)))
	}
	return "[" + strings.Join(xs, ", ") + "]"
}

const unkE = "(.bi .len .nil)" // an ill-formed call: evaluates to none

func (g *gfn) es(args []ast.Expr) string {
	s := ".nil"
	for i := len(args) - 1; i >= 0; i-- {
		s = fmt.Sprintf("(.cons %s %s)", g.e(args[i]), s)
	}
	return s
}

func (g *gfn) fieldOf(e ast.Expr) (int, bool) {
	se, ok := e.(*ast.SelectorExpr)
	if !ok {
		return 0, false
	}
	id, ok := se.X.(*ast.Ident)
	if !ok || !g.recv[id.Name] {
		return 0, false
	}
	i, ok := g.fields[se.Sel.Name]
	return i, ok
}

func (g *gfn) e(x ast.Expr) string {
	switch n := x.(type) {
	case *ast.ParenExpr:
		return g.e(n.X)
	case *ast.Ident:
		if n.Name == "nil" {
			return ".nil"
		}
		if g.recv[n.Name] {
			return ".nil"
		}
		if _, known := g.vars[n.Name]; !known {
			if _, isConst := consts[n.Name]; isConst {
				if v, ok := evalConst(n, 0); ok {
					return fmt.Sprintf("(.int %d)", v)
				}
			}
		}
		return fmt.Sprintf("(.var %d)", g.v(n.Name))
	case *ast.BasicLit:
		switch n.Kind {
		case token.STRING:
			if s, err := strconv.Unquote(n.Value); err == nil {
				return fmt.Sprintf("(.str %s)", bytesLit(s))
			}
		case token.INT:
			if v, err := strconv.ParseInt(n.Value, 0, 64); err == nil {
				return fmt.Sprintf("(.int %d)", v)
			}
		}
	case *ast.UnaryExpr:
		if n.Op == token.SUB {
			if bl, ok := n.X.(*ast.BasicLit); ok && bl.Kind == token.INT {
				return fmt.Sprintf("(.int (-%s))", bl.Value)
			}
		}
	case *ast.SelectorExpr:
		if i, ok := g.fieldOf(n); ok {
			return fmt.Sprintf("(.fld %d)", i)
		}
	case *ast.IndexExpr:
		return fmt.Sprintf("(.bi .mapGet %s)", g.es([]ast.Expr{n.X, n.Index}))
	case *ast.SliceExpr:
		if n.Slice3 {
			break
		}
		switch {
		case n.Low != nil && n.High != nil:
			return fmt.Sprintf("(.slice %s %s %s)", g.e(n.X), g.e(n.Low), g.e(n.High))
		case n.Low != nil:
			return fmt.Sprintf("(.sliceFrom %s %s)", g.e(n.X), g.e(n.Low))
		case n.High != nil:
			return fmt.Sprintf("(.slice %s (.int 0) %s)", g.e(n.X), g.e(n.High))
		}
	case *ast.BinaryExpr:
		ops := map[token.Token]string{token.ADD: "add", token.SUB: "sub", token.EQL: "eq", token.NEQ: "ne", token.LSS: "lt", token.LEQ: "le", token.LAND: "and", token.LOR: "or"}
		if op, ok := ops[n.Op]; ok {
			return fmt.Sprintf("(.bin .%s %s %s)", op, g.e(n.X), g.e(n.Y))
		}
		if n.Op == token.GTR {
			return fmt.Sprintf("(.bin .lt %s %s)", g.e(n.Y), g.e(n.X))
		}
		if n.Op == token.GEQ {
			return fmt.Sprintf("(.bin .le %s %s)", g.e(n.Y), g.e(n.X))
		}
	case *ast.CallExpr:
		name := src(n.Fun)
		bi := map[string]string{"len": "len", "strings.Split": "split", "strings.TrimSpace": "trimSpace", "strings.EqualFold": "equalFold",
			"strings.ToLower": "toLower", "strings.Index": "index", "strconv.ParseInt": "parseInt", "int32": "toInt32", "int64": "toInt64",
			"strconv.Itoa": "itoa", "int": "toInt", "strings.Join": "join"}
		if b, ok := bi[name]; ok {
			return fmt.Sprintf("(.bi .%s %s)", b, g.es(n.Args))
		}
		if name == "make" && len(n.Args) == 1 {
			if _, ok := n.Args[0].(*ast.MapType); ok {
				return "(.bi .makeMap .nil)"
			}
		}
		if name == "make" && len(n.Args) == 2 && src(n.Args[0]) == "[]string" {
			return fmt.Sprintf("(.bi .makeStrs %s)", g.es(n.Args[1:]))
		}
		if name == "new" && len(n.Args) == 1 {
			return "(.bi .newObj .nil)"
		}
		if name == "paramtext.NewParamKVSeperate" && len(n.Args) == 3 {
			return fmt.Sprintf("(.bi .mkKV %s)", g.es(n.Args))
		}
		if name == "fmt.Sprintf" && len(n.Args) == 2 && src(n.Args[0]) == `"%d"` {
			return fmt.Sprintf("(.bi .sprintfD %s)", g.es(n.Args[1:]))
		}
		if se, ok := n.Fun.(*ast.SelectorExpr); ok {
			if id, ok := se.X.(*ast.Ident); ok {
				if g.recv[id.Name] { // method of the receiver
					if f, ok := g.funcs[se.Sel.Name]; ok {
						return fmt.Sprintf("(.call %d %s)", f, g.es(n.Args))
					}
				} else if f, ok := g.funcs["(*ParamKV)."+se.Sel.Name]; ok { // p.ToStringStr(k, v) on a ParamKV held in a local
					return fmt.Sprintf("(.call %d %s)", f, g.es(append([]ast.Expr{se.X}, n.Args...)))
				} else if se.Sel.Name == "String" && len(n.Args) == 0 { // buffer.String()
					return fmt.Sprintf("(.bi .bufString (.cons (.var %d) .nil))", g.v(id.Name))
				}
			}
		}
		if id, ok := n.Fun.(*ast.Ident); ok {
			if f, ok := g.funcs[id.Name]; ok {
				return fmt.Sprintf("(.call %d %s)", f, g.es(n.Args))
			}
		}
	}
	return unkE
}

func (g *gfn) l(x ast.Expr) (string, bool) {
	if id, ok := x.(*ast.Ident); ok {
		if id.Name == "_" {
			return ".blank", true
		}
		if g.recv[id.Name] {
			return "", false
		}
		return fmt.Sprintf("(.var %d)", g.v(id.Name)), true
	}
	if i, ok := g.fieldOf(x); ok {
		return fmt.Sprintf("(.fld %d)", i), true
	}
	return "", false
}

func (g *gfn) ss(list []ast.Stmt) string {
	var items []string
	for _, s := range list {
		items = append(items, g.s(s)...)
	}
	out := ".nil"
	for i := len(items) - 1; i >= 0; i-- {
		out = fmt.Sprintf("(.cons %s\n      %s)", items[i], out)
	}
	return out
}

func (g *gfn) s(st ast.Stmt) []string {
	unk := []string{".unknown"}
	switch n := st.(type) {
	case *ast.EmptyStmt:
		return nil
	case *ast.BlockStmt:
		var out []string
		for _, s := range n.List {
			out = append(out, g.s(s)...)
		}
		return out
	case *ast.DeclStmt: // var buffer bytes.Buffer
		gd, ok := n.Decl.(*ast.GenDecl)
		if !ok || gd.Tok != token.VAR || len(gd.Specs) != 1 {
			return unk
		}
		vs := gd.Specs[0].(*ast.ValueSpec)
		if len(vs.Names) != 1 || len(vs.Values) != 0 || src(vs.Type) != "bytes.Buffer" {
			return unk
		}
		return []string{fmt.Sprintf("(.assign (.var %d) (.str []))", g.v(vs.Names[0].Name))}
	case *ast.AssignStmt:
		if n.Tok != token.ASSIGN && n.Tok != token.DEFINE {
			return unk
		}
		if len(n.Lhs) == 1 && len(n.Rhs) == 1 {
			// p := new(T): p names the receiver from here on
			if id, ok := n.Lhs[0].(*ast.Ident); ok {
				if c, ok := n.Rhs[0].(*ast.CallExpr); ok && src(c.Fun) == "new" {
					g.recv[id.Name] = true
					return nil
				}
			}
			if id, ok := n.Lhs[0].(*ast.Ident); ok { // b := make([]string, n)
				if c, ok := n.Rhs[0].(*ast.CallExpr); ok && src(c.Fun) == "make" && len(c.Args) == 2 && src(c.Args[0]) == "[]string" {
					g.strSl[id.Name] = true
				}
			}
			if ix, ok := n.Lhs[0].(*ast.IndexExpr); ok { // m[k] = v   /   b[i] = v
				if id, ok := ix.X.(*ast.Ident); ok && g.strSl[id.Name] {
					return []string{fmt.Sprintf("(.idxSet (.var %d) %s %s)", g.v(id.Name), g.e(ix.Index), g.e(n.Rhs[0]))}
				}
				if m, ok := g.l(ix.X); ok {
					return []string{fmt.Sprintf("(.mapSet %s %s %s)", m, g.e(ix.Index), g.e(n.Rhs[0]))}
				}
				return unk
			}
			if l, ok := g.l(n.Lhs[0]); ok {
				return []string{fmt.Sprintf("(.assign %s %s)", l, g.e(n.Rhs[0]))}
			}
			return unk
		}
		if len(n.Lhs) == 2 && len(n.Rhs) == 1 {
			l1, ok1 := g.l(n.Lhs[0])
			l2, ok2 := g.l(n.Lhs[1])
			if !ok1 || !ok2 {
				return unk
			}
			rhs := g.e(n.Rhs[0])
			if ix, ok := n.Rhs[0].(*ast.IndexExpr); ok { // v, ok := m[k]
				rhs = fmt.Sprintf("(.bi .mapHas %s)", g.es([]ast.Expr{ix.X, ix.Index}))
			}
			return []string{fmt.Sprintf("(.assign2 %s %s %s)", l1, l2, rhs)}
		}
		if len(n.Lhs) == 2 && len(n.Rhs) == 2 { // a, b = x, y of independent expressions is not used here
			return unk
		}
		return unk
	case *ast.ExprStmt:
		if c, ok := n.X.(*ast.CallExpr); ok {
			if se, ok := c.Fun.(*ast.SelectorExpr); ok && se.Sel.Name == "WriteString" && len(c.Args) == 1 {
				if id, ok := se.X.(*ast.Ident); ok {
					return []string{fmt.Sprintf("(.bufWrite %d %s)", g.v(id.Name), g.e(c.Args[0]))}
				}
			}
		}
		return unk
	case *ast.IfStmt:
		var out []string
		if n.Init != nil {
			out = append(out, g.s(n.Init)...)
		}
		els := ".nil"
		if n.Else != nil {
			els = g.ss([]ast.Stmt{n.Else})
		}
		out = append(out, fmt.Sprintf("(.ifS %s\n      %s\n      %s)", g.e(n.Cond), g.ss(n.Body.List), els))
		return out
	case *ast.RangeStmt:
		if n.Tok != token.DEFINE {
			return unk
		}
		iv, vv := ".blank", ".blank"
		ok1, ok2 := true, true
		if n.Key != nil {
			iv, ok1 = g.l(n.Key)
		}
		if n.Value != nil {
			vv, ok2 = g.l(n.Value)
		}
		if !ok1 || !ok2 {
			return unk
		}
		kind := "forRange"
		if id, ok := n.X.(*ast.Ident); ok && g.intSl[id.Name] {
			kind = "forRangeI"
		}
		return []string{fmt.Sprintf("(.%s %s %s %s\n      %s)", kind, iv, vv, g.e(n.X), g.ss(n.Body.List))}
	case *ast.ForStmt:
		// for i := a; X <= B; i++   /   X < B
		as, ok := n.Init.(*ast.AssignStmt)
		if !ok || as.Tok != token.DEFINE || len(as.Lhs) != 1 || len(as.Rhs) != 1 {
			return unk
		}
		id, ok := as.Lhs[0].(*ast.Ident)
		if !ok {
			return unk
		}
		inc, ok := n.Post.(*ast.IncDecStmt)
		if !ok || inc.Tok != token.INC || src(inc.X) != id.Name {
			return unk
		}
		be, ok := n.Cond.(*ast.BinaryExpr)
		if !ok || (be.Op != token.LEQ && be.Op != token.LSS) {
			return unk
		}
		i := g.v(id.Name)
		return []string{fmt.Sprintf("(.forCount %d %s %s %s\n      %s)", i, g.e(as.Rhs[0]), g.e(n.Cond), g.e(be.Y), g.ss(n.Body.List))}
	case *ast.ReturnStmt:
		switch len(n.Results) {
		case 0:
			return []string{"(.ret .nil)"}
		case 1:
			return []string{fmt.Sprintf("(.ret %s)", g.e(n.Results[0]))}
		case 2:
			return []string{fmt.Sprintf("(.ret2 %s %s)", g.e(n.Results[0]), g.e(n.Results[1]))}
		}
	}
	return unk
}

type fnSpec struct {
	file, name string
}

func goirMain(repo, out string) {
	specs := []struct {
		group string
		file  string
		names []string // in call order: a function only calls functions listed before it
	}{
		{"paramKV", "util/paramtext/ParamKV.go", []string{"indexFold", "ToPair", "NewParamKVSeperate", "ExistsKey", "ToString", "ToStringStr"}},
		{"stringutil", "util/stringutil/StringUtil.go", []string{"Truncate", "ParseInt32", "ParseInt64", "ParseStringZeroToEmpty", "ArrayInt16ToString"}},
	}
	load(filepath.Join(repo, "lang", "pack", "udp")) // constants of the udp package
	var b strings.Builder
	w := func(f string, a ...interface{}) { fmt.Fprintf(&b, f, a...) }
	w("-- GENERATED by xlate/c07 (mode goir) from util/paramtext/ParamKV.go and util/stringutil/StringUtil.go — do not edit\n")
	w("import Golib.Udp.GoIR\n\nnamespace Udp.Gen.GoFns\nopen Udp.Go\n\n")
	for _, sp := range specs {
		f, err := parser.ParseFile(fset, filepath.Join(repo, sp.file), nil, 0)
		if err != nil {
			fmt.Fprintln(os.Stderr, err)
			os.Exit(1)
		}
		decls := map[string]*ast.FuncDecl{}
		fields := map[string]int{}
		for _, d := range f.Decls {
			switch x := d.(type) {
			case *ast.FuncDecl:
				if x.Body != nil {
					decls[x.Name.Name] = x
				}
			case *ast.GenDecl:
				for _, s := range x.Specs {
					if ts, ok := s.(*ast.TypeSpec); ok && ts.Name.Name == "ParamKV" {
						if st, ok := ts.Type.(*ast.StructType); ok {
							for _, fl := range st.Fields.List {
								for _, n := range fl.Names {
									fields[n.Name] = len(fields)
								}
							}
						}
					}
				}
			}
		}
		funcs := map[string]int{}
		for i, n := range sp.names {
			funcs[n] = i
		}
		if len(fields) > 0 {
			var fs []string
			for n, i := range fields {
				fs = append(fs, fmt.Sprintf("%d=%s", i, n))
			}
			sortStrings(fs)
			w("-- receiver fields of ParamKV: %s\n\n", strings.Join(fs, " "))
		}
		for _, n := range sp.names {
			fd, ok := decls[n]
			if !ok {
				w("/-- %s: not found in %s -/\ndef %s.%s : Fn := { params := 0, body := .cons .unknown .nil }\n\n", n, sp.file, sp.group, n)
				continue
			}
			g := &gfn{name: n, decl: fd, vars: map[string]int{}, recv: map[string]bool{}, fields: fields, funcs: map[string]int{},
				strSl: map[string]bool{}, intSl: map[string]bool{}}
			for k, v := range funcs { // only earlier functions may be called
				if v < funcs[n] {
					g.funcs[k] = v
				}
			}
			if fd.Recv != nil && len(fd.Recv.List) == 1 && len(fd.Recv.List[0].Names) == 1 {
				g.recv[fd.Recv.List[0].Names[0].Name] = true
			}
			np := 0
			for _, p := range fd.Type.Params.List {
				for _, nm := range p.Names {
					g.v(nm.Name)
					np++
					if t := src(p.Type); t == "[]int16" || t == "[]int32" || t == "[]int64" || t == "[]int" {
						g.intSl[nm.Name] = true
					}
				}
			}
			if fd.Type.Results != nil {
				for _, p := range fd.Type.Results.List {
					for _, nm := range p.Names {
						g.v(nm.Name)
					}
				}
			}
			body := g.ss(fd.Body.List)
			var vs []string
			for i, nm := range g.order {
				vs = append(vs, fmt.Sprintf("%d=%s", i, nm))
			}
			w("/-- %s (%s); variables: %s -/\ndef %s.%s : Fn := { params := %d, body :=\n      %s }\n\n", n, sp.file, strings.Join(vs, " "), sp.group, n, np, body)
		}
		// program list: later functions first, so that a function's index is its distance from the end
		var rev []string
		for i := len(sp.names) - 1; i >= 0; i-- {
			rev = append(rev, sp.group+"."+sp.names[i])
		}
		w("def %s.prog : List Fn := [%s]\n\n", sp.group, strings.Join(rev, ", "))
	}
	// Process() of the three packs that carry a connection string: receiver fields 0=Ver 1=Dbc 2=Sql;
	// function 0 of their environment is (*ParamKV).ToStringStr applied to a ParamKV built by NewParamKVSeperate
	w("-- Process() bodies; receiver fields: 0=Ver 1=Dbc 2=Sql; function 0 = (*ParamKV).ToStringStr on the object of NewParamKVSeperate\n\n")
	for _, tn := range []string{"UdpTxSqlPack", "UdpTxSqlParamPack", "UdpTxDbcPack"} {
		fd := methods[tn]["Process"]
		if fd == nil {
			w("def process.%s : Fn := { params := 0, body := .cons .unknown .nil }\n\n", tn)
			continue
		}
		g := &gfn{name: tn, decl: fd, vars: map[string]int{}, recv: map[string]bool{}, fields: map[string]int{"Ver": 0, "Dbc": 1, "Sql": 2},
			funcs: map[string]int{"(*ParamKV).ToStringStr": 0}, strSl: map[string]bool{}, intSl: map[string]bool{}}
		if fd.Recv != nil && len(fd.Recv.List) == 1 && len(fd.Recv.List[0].Names) == 1 {
			g.recv[fd.Recv.List[0].Names[0].Name] = true
		}
		body := g.ss(fd.Body.List)
		var vs []string
		for i, nm := range g.order {
			vs = append(vs, fmt.Sprintf("%d=%s", i, nm))
		}
		w("/-- %s.Process (lang/pack/udp); variables: %s -/\ndef process.%s : Fn := { params := 0, body :=\n      %s }\n\n", tn, strings.Join(vs, " "), tn, body)
	}
	w("end Udp.Gen.GoFns\n")
	if out == "" {
		fmt.Print(b.String())
		return
	}
	if err := os.WriteFile(out, []byte(b.String()), 0o644); err != nil {
		fmt.Fprintln(os.Stderr, err)
		os.Exit(1)
	}
}

func sortStrings(xs []string) {
	for i := 1; i < len(xs); i++ {
		for j := i; j > 0 && xs[j] < xs[j-1]; j-- {
			xs[j], xs[j-1] = xs[j-1], xs[j]
		}
	}
}
