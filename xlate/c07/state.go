// state.go — package-level state facts (copied from xlate/c02's stateScan, with two more reference
// kinds): for every package that Write / Read / Process of the UDP packs run through, the
// package-level `var`s and, per function, how its body mentions them:
//
//	r  read only
//	w  assigned, incremented, indexed on the left of an assignment, appended to / copied into /
//	   deleted from, address taken, or *sliced* (a slice of a package-level buffer is an alias)
//	m  a method is called on it (sync.Pool.Get / Put, regexp methods)
//	a  handed to a function as an argument (the callee may write through it)
//
// Identifiers are resolved syntactically: a local declaration shadows the package-level name.
package main

import (
	"go/ast"
	"go/parser"
	"go/token"
	"os"
	"path/filepath"
	"sort"
	"strings"
)

func recvTypeName(fd *ast.FuncDecl) string {
	if fd.Recv == nil || len(fd.Recv.List) == 0 {
		return ""
	}
	t := fd.Recv.List[0].Type
	if s, ok := t.(*ast.StarExpr); ok {
		t = s.X
	}
	if id, ok := t.(*ast.Ident); ok {
		return id.Name
	}
	return "?recv"
}

func stateScan(repo, dir string) (vars []string, refs [][3]string) {
	fs := token.NewFileSet()
	pkgs, err := parser.ParseDir(fs, filepath.Join(repo, dir), func(fi os.FileInfo) bool {
		return !strings.HasSuffix(fi.Name(), "_test.go") && !strings.HasSuffix(fi.Name(), "_verif.go")
	}, 0)
	if err != nil {
		return []string{"?parse"}, nil
	}
	isVar := map[string]bool{}
	var files []*ast.File
	for _, p := range pkgs {
		var names []string
		for n := range p.Files {
			names = append(names, n)
		}
		sort.Strings(names)
		for _, n := range names {
			files = append(files, p.Files[n])
		}
	}
	topSpecs := map[ast.Spec]bool{}
	for _, f := range files {
		for _, d := range f.Decls {
			if gd, ok := d.(*ast.GenDecl); ok && gd.Tok == token.VAR {
				for _, sp := range gd.Specs {
					topSpecs[sp] = true
					for _, n := range sp.(*ast.ValueSpec).Names {
						if n.Name != "_" {
							isVar[n.Name] = true
							vars = append(vars, n.Name)
						}
					}
				}
			}
		}
	}
	sort.Strings(vars)
	pkgLevel := func(id *ast.Ident) bool {
		if !isVar[id.Name] {
			return false
		}
		if id.Obj == nil {
			return true // declared in another file of the package
		}
		if vs, ok := id.Obj.Decl.(*ast.ValueSpec); ok {
			return topSpecs[vs]
		}
		return false
	}
	rootIdent := func(e ast.Expr) *ast.Ident {
		for {
			switch x := e.(type) {
			case *ast.Ident:
				return x
			case *ast.IndexExpr:
				e = x.X
			case *ast.SelectorExpr:
				e = x.X
			case *ast.StarExpr:
				e = x.X
			case *ast.ParenExpr:
				e = x.X
			case *ast.SliceExpr:
				e = x.X
			default:
				return nil
			}
		}
	}
	for _, f := range files {
		for _, d := range f.Decls {
			fd, ok := d.(*ast.FuncDecl)
			if !ok || fd.Body == nil {
				continue
			}
			name := fd.Name.Name
			if rt := recvTypeName(fd); rt != "" {
				name = rt + "." + name
			}
			kind := map[string]string{} // strongest kind seen: w > a > m > r
			rank := map[string]int{"r": 0, "m": 1, "a": 2, "w": 3}
			note := func(id *ast.Ident, k string) {
				if id != nil && pkgLevel(id) && rank[k] >= rank[kind[id.Name]] {
					kind[id.Name] = k
				}
			}
			selNames := map[*ast.Ident]bool{}
			ast.Inspect(fd.Body, func(n ast.Node) bool {
				switch x := n.(type) {
				case *ast.SelectorExpr:
					selNames[x.Sel] = true
				case *ast.KeyValueExpr:
					if id, ok := x.Key.(*ast.Ident); ok {
						selNames[id] = true
					}
				case *ast.AssignStmt:
					for _, l := range x.Lhs {
						note(rootIdent(l), "w")
					}
				case *ast.IncDecStmt:
					note(rootIdent(x.X), "w")
				case *ast.UnaryExpr:
					if x.Op == token.AND {
						note(rootIdent(x.X), "w")
					}
				case *ast.SliceExpr:
					note(rootIdent(x.X), "w")
				case *ast.CallExpr:
					if fn, ok := x.Fun.(*ast.Ident); ok && (fn.Name == "append" || fn.Name == "copy" || fn.Name == "delete") && len(x.Args) > 0 {
						note(rootIdent(x.Args[0]), "w")
					}
					if se, ok := x.Fun.(*ast.SelectorExpr); ok {
						note(rootIdent(se.X), "m")
					}
					for _, a := range x.Args {
						note(rootIdent(a), "a")
					}
				}
				return true
			})
			ast.Inspect(fd.Body, func(n ast.Node) bool {
				if id, ok := n.(*ast.Ident); ok && !selNames[id] && pkgLevel(id) {
					if _, seen := kind[id.Name]; !seen {
						kind[id.Name] = "r"
					}
				}
				return true
			})
			var names []string
			for v := range kind {
				names = append(names, v)
			}
			sort.Strings(names)
			for _, v := range names {
				refs = append(refs, [3]string{name, kind[v], v})
			}
		}
	}
	sort.Slice(refs, func(i, j int) bool {
		if refs[i][0] != refs[j][0] {
			return refs[i][0] < refs[j][0]
		}
		return refs[i][2] < refs[j][2]
	})
	return
}

var stateDirs = []string{"lang/pack/udp", "util/stringutil", "util/paramtext", "util/urlutil", "io"}
