module verif/xlate/c15

go 1.23
