// xlate/c15 — tie A of property C15: transcribes facts of the Go source into Lean data.
//
//   util/hash/HashUtil.go     the 256-entry table; the loop bodies of Hash, Hash64, Hash64v2, Hash64V2
//   util/hexa32/Hexa32.go     the digits alphabet, PLUS/MINUS, the special text of MinInt64, radix,
//                             limit and multmin of to_long
//   util/hll/MurmurHash.go    the multiplier / shift / seed constants
//   util/bitutil/BitUtil.go   every function body (straight-line integer code)
//
// It never judges: a shape it cannot transcribe becomes `.unknown "…"`, on which the evaluator
// of Golib/Hash/GoExpr.lean returns none, so the obligation that mentions it fails.
//
// usage: c15 -repo DIR -out FILE
package main

import (
	"flag"
	"fmt"
	"go/ast"
	"go/constant"
	"go/parser"
	"go/token"
	"math/big"
	"os"
	"path/filepath"
	"strconv"
	"strings"
)

var fset = token.NewFileSet()

func parse(repo, rel string) *ast.File {
	f, err := parser.ParseFile(fset, filepath.Join(repo, rel), nil, 0)
	if err != nil {
		fmt.Fprintln(os.Stderr, "xlate/c15:", err)
		os.Exit(1)
	}
	return f
}

func leanStr(s string) string { return strconv.Quote(s) }

// identifiers are numbered in order of first appearance (one table for the whole output)
var (
	symIDs   = map[string]int{}
	symNames []string
)

func sym(name string) string {
	id, ok := symIDs[name]
	if !ok {
		id = len(symNames)
		symIDs[name] = id
		symNames = append(symNames, name)
	}
	return strconv.Itoa(id)
}

var opNames = map[token.Token]string{token.SHL: ".shl", token.SHR: ".shr", token.AND: ".band", token.OR: ".bor", token.XOR: ".bxor",
	token.ADD: ".add", token.SUB: ".sub", token.MUL: ".mul", token.AND_NOT: ".andNot"}

func leanInt(v *big.Int) string {
	if v.Sign() < 0 {
		return "(" + v.String() + ")"
	}
	return v.String()
}

var tyNames = map[string]string{"int8": ".i8", "int16": ".i16", "int32": ".i32", "int64": ".i64",
	"uint8": ".u8", "byte": ".u8", "uint16": ".u16", "uint32": ".u32", "uint64": ".u64", "int": ".i64", "uint": ".u64"}

func tyOf(e ast.Expr) (string, bool) {
	if id, ok := e.(*ast.Ident); ok {
		t, ok := tyNames[id.Name]
		return t, ok
	}
	return "", false
}

func litValue(b *ast.BasicLit) (*big.Int, bool) {
	switch b.Kind {
	case token.INT, token.CHAR:
		c := constant.MakeFromLiteral(b.Value, b.Kind, 0)
		if c.Kind() == constant.Int {
			if v, ok := new(big.Int).SetString(c.ExactString(), 10); ok {
				return v, true
			}
		}
	}
	return nil, false
}

// consts: package-level / local named constants the expressions may mention (math.MaxInt64 …)
var mathConsts = map[string]string{"MaxInt64": "9223372036854775807", "MinInt64": "-9223372036854775808",
	"MaxInt32": "2147483647", "MinInt32": "-2147483648"}

func expr(e ast.Expr) string {
	switch x := e.(type) {
	case *ast.ParenExpr:
		return expr(x.X)
	case *ast.Ident:
		return "(.var " + sym(x.Name) + ")"
	case *ast.BasicLit:
		if v, ok := litValue(x); ok {
			return "(.lit " + leanInt(v) + ")"
		}
	case *ast.SelectorExpr:
		if p, ok := x.X.(*ast.Ident); ok && p.Name == "math" {
			if v, ok := mathConsts[x.Sel.Name]; ok {
				b, _ := new(big.Int).SetString(v, 10)
				return "(.lit " + leanInt(b) + ")"
			}
		}
	case *ast.BinaryExpr:
		if op, ok := opNames[x.Op]; ok {
			return "(.bin " + op + " " + expr(x.X) + " " + expr(x.Y) + ")"
		}
	case *ast.UnaryExpr:
		switch x.Op {
		case token.SUB:
			return "(.neg " + expr(x.X) + ")"
		case token.XOR:
			return "(.not " + expr(x.X) + ")"
		case token.ADD:
			return expr(x.X)
		}
	case *ast.CallExpr:
		if len(x.Args) == 1 {
			fun := x.Fun
			if p, ok := fun.(*ast.ParenExpr); ok {
				fun = p.X
			}
			if t, ok := tyOf(fun); ok {
				return "(.conv " + t + " " + expr(x.Args[0]) + ")"
			}
		}
	case *ast.IndexExpr:
		if a, ok := x.X.(*ast.Ident); ok {
			return "(.idx " + sym(a.Name) + " " + expr(x.Index) + ")"
		}
	}
	return "(.unknown " + leanStr(fmt.Sprintf("%T at %s", e, fset.Position(e.Pos()))) + ")"
}

func stmt(s ast.Stmt, skipIndexOf string) (string, bool) {
	unknown := func() (string, bool) {
		return ".unknown " + leanStr(fmt.Sprintf("%T at %s", s, fset.Position(s.Pos()))), true
	}
	switch x := s.(type) {
	case *ast.ReturnStmt:
		if len(x.Results) == 1 {
			return ".ret " + expr(x.Results[0]), true
		}
	case *ast.AssignStmt:
		if len(x.Lhs) == 1 && len(x.Rhs) == 1 {
			id, ok := x.Lhs[0].(*ast.Ident)
			if !ok {
				return unknown()
			}
			// `b := bytes[i]`: the loop input, supplied by the obligation
			if ix, ok := x.Rhs[0].(*ast.IndexExpr); ok && skipIndexOf != "" {
				if a, ok := ix.X.(*ast.Ident); ok && a.Name == skipIndexOf {
					return "", false
				}
			}
			switch x.Tok {
			case token.DEFINE:
				return ".decl " + sym(id.Name) + " .untyped " + expr(x.Rhs[0]), true
			case token.ASSIGN:
				return ".assign " + sym(id.Name) + " " + expr(x.Rhs[0]), true
			default:
				if op, ok := opNames[assignOps[x.Tok]]; ok {
					return ".assign " + sym(id.Name) + " (.bin " + op + " (.var " + sym(id.Name) + ") " + expr(x.Rhs[0]) + ")", true
				}
			}
		}
	case *ast.DeclStmt:
		if gd, ok := x.Decl.(*ast.GenDecl); ok && gd.Tok == token.VAR && len(gd.Specs) == 1 {
			vs := gd.Specs[0].(*ast.ValueSpec)
			if len(vs.Names) == 1 && len(vs.Values) == 1 {
				t := ".untyped"
				if vs.Type != nil {
					var ok bool
					if t, ok = tyOf(vs.Type); !ok {
						return unknown()
					}
				}
				return ".decl " + sym(vs.Names[0].Name) + " " + t + " " + expr(vs.Values[0]), true
			}
		}
	}
	return unknown()
}

var assignOps = map[token.Token]token.Token{token.XOR_ASSIGN: token.XOR, token.AND_ASSIGN: token.AND, token.OR_ASSIGN: token.OR,
	token.ADD_ASSIGN: token.ADD, token.MUL_ASSIGN: token.MUL, token.SUB_ASSIGN: token.SUB, token.SHL_ASSIGN: token.SHL,
	token.SHR_ASSIGN: token.SHR, token.AND_NOT_ASSIGN: token.AND_NOT}

func stmts(list []ast.Stmt, skipIndexOf string) string {
	var out []string
	for _, s := range list {
		if t, keep := stmt(s, skipIndexOf); keep {
			out = append(out, "    "+t)
		}
	}
	return "[\n" + strings.Join(out, ",\n") + "]"
}

func findFunc(f *ast.File, name string) *ast.FuncDecl {
	for _, d := range f.Decls {
		if fd, ok := d.(*ast.FuncDecl); ok && fd.Recv == nil && fd.Name.Name == name {
			return fd
		}
	}
	return nil
}

func emitFn(w *strings.Builder, f *ast.File, name string) {
	fd := findFunc(f, name)
	fmt.Fprintf(w, "def fn_%s : GoX.Fn :=\n", name)
	if fd == nil || fd.Type.Results == nil || len(fd.Type.Results.List) != 1 {
		fmt.Fprintf(w, "  { params := [], result := .untyped, body := [.unknown %s] }\n\n", leanStr("function "+name+" not found"))
		return
	}
	var ps []string
	for _, fl := range fd.Type.Params.List {
		t, ok := tyOf(fl.Type)
		if !ok {
			t = ".untyped"
		}
		for _, n := range fl.Names {
			ps = append(ps, "("+sym(n.Name)+", "+t+")")
		}
	}
	rt, ok := tyOf(fd.Type.Results.List[0].Type)
	if !ok {
		rt = ".untyped"
	}
	fmt.Fprintf(w, "  { params := [%s], result := %s, body := %s }\n\n", strings.Join(ps, ", "), rt, stmts(fd.Body.List, ""))
}

// loop body of the first `for` statement of a function; also reports the names of the slice
// parameter and of the per-iteration byte variable (`b := bytes[i]`)
func emitLoop(w *strings.Builder, f *ast.File, name string) {
	fd := findFunc(f, name)
	fmt.Fprintf(w, "def loop_%s : List GoX.Stmt := ", name)
	var loop *ast.ForStmt
	if fd != nil {
		ast.Inspect(fd.Body, func(n ast.Node) bool {
			if fs, ok := n.(*ast.ForStmt); ok && loop == nil {
				loop = fs
			}
			return loop == nil
		})
	}
	if loop == nil || len(fd.Type.Params.List) != 1 || len(fd.Type.Params.List[0].Names) != 1 {
		fmt.Fprintf(w, "[.unknown %s]\n\n", leanStr("loop of "+name+" not found"))
		return
	}
	slice := fd.Type.Params.List[0].Names[0].Name
	byteVar := ""
	for _, s := range loop.Body.List {
		if as, ok := s.(*ast.AssignStmt); ok && as.Tok == token.DEFINE && len(as.Lhs) == 1 && len(as.Rhs) == 1 {
			if ix, ok := as.Rhs[0].(*ast.IndexExpr); ok {
				if a, ok := ix.X.(*ast.Ident); ok && a.Name == slice {
					byteVar = as.Lhs[0].(*ast.Ident).Name
				}
			}
		}
	}
	fmt.Fprintf(w, "%s\n", stmts(loop.Body.List, slice))
	fmt.Fprintf(w, "def loop_%s_byteVar : Nat := %s\n", name, sym(byteVar))
	// the register: the variable declared just before the loop with an unsigned type conversion, i.e.
	// the one assigned in the loop and returned; we take the first assigned name that is not declared inside
	declared := map[string]bool{byteVar: true}
	reg := ""
	for _, s := range loop.Body.List {
		if as, ok := s.(*ast.AssignStmt); ok && len(as.Lhs) == 1 {
			id, _ := as.Lhs[0].(*ast.Ident)
			if id == nil {
				continue
			}
			if as.Tok == token.DEFINE {
				declared[id.Name] = true
			} else if !declared[id.Name] && reg == "" {
				reg = id.Name
			}
		}
	}
	fmt.Fprintf(w, "def loop_%s_register : Nat := %s\n\n", name, sym(reg))
}

func intList(vals []*big.Int, per int) string {
	var rows []string
	for i := 0; i < len(vals); i += per {
		var r []string
		for j := i; j < i+per && j < len(vals); j++ {
			r = append(r, vals[j].String())
		}
		rows = append(rows, "  "+strings.Join(r, ", "))
	}
	return "[\n" + strings.Join(rows, ",\n") + "]"
}

// composite literal of integer / char literals assigned to a package-level var
func pkgVarLits(f *ast.File, name string) ([]*big.Int, bool) {
	for _, d := range f.Decls {
		gd, ok := d.(*ast.GenDecl)
		if !ok || gd.Tok != token.VAR {
			continue
		}
		for _, sp := range gd.Specs {
			vs := sp.(*ast.ValueSpec)
			for i, n := range vs.Names {
				if n.Name != name || i >= len(vs.Values) {
					continue
				}
				cl, ok := vs.Values[i].(*ast.CompositeLit)
				if !ok {
					return nil, false
				}
				var out []*big.Int
				for _, el := range cl.Elts {
					bl, ok := el.(*ast.BasicLit)
					if !ok {
						return nil, false
					}
					v, ok := litValue(bl)
					if !ok {
						return nil, false
					}
					out = append(out, v)
				}
				return out, true
			}
		}
	}
	return nil, false
}

func pkgConst(f *ast.File, name string) (*big.Int, bool) {
	for _, d := range f.Decls {
		gd, ok := d.(*ast.GenDecl)
		if !ok || gd.Tok != token.CONST {
			continue
		}
		for _, sp := range gd.Specs {
			vs := sp.(*ast.ValueSpec)
			for i, n := range vs.Names {
				if n.Name == name && i < len(vs.Values) {
					if bl, ok := vs.Values[i].(*ast.BasicLit); ok {
						return litValue(bl)
					}
				}
			}
		}
	}
	return nil, false
}

// constant integer expression with + - * / (truncated) unary -, literals, math.MaxInt64, conversions, named locals
func constEval(e ast.Expr, env map[string]*big.Int) (*big.Int, bool) {
	switch x := e.(type) {
	case *ast.ParenExpr:
		return constEval(x.X, env)
	case *ast.BasicLit:
		return litValue(x)
	case *ast.Ident:
		v, ok := env[x.Name]
		return v, ok
	case *ast.SelectorExpr:
		if p, ok := x.X.(*ast.Ident); ok && p.Name == "math" {
			if v, ok := mathConsts[x.Sel.Name]; ok {
				b, _ := new(big.Int).SetString(v, 10)
				return b, true
			}
		}
	case *ast.UnaryExpr:
		if v, ok := constEval(x.X, env); ok && x.Op == token.SUB {
			return new(big.Int).Neg(v), true
		}
	case *ast.CallExpr:
		if len(x.Args) == 1 {
			if _, ok := tyOf(x.Fun); ok {
				return constEval(x.Args[0], env)
			}
		}
	case *ast.BinaryExpr:
		a, ok1 := constEval(x.X, env)
		b, ok2 := constEval(x.Y, env)
		if ok1 && ok2 {
			switch x.Op {
			case token.ADD:
				return new(big.Int).Add(a, b), true
			case token.SUB:
				return new(big.Int).Sub(a, b), true
			case token.MUL:
				return new(big.Int).Mul(a, b), true
			case token.QUO:
				if b.Sign() != 0 {
					return new(big.Int).Quo(a, b), true // truncated, like Go
				}
			}
		}
	}
	return nil, false
}

// local `name := expr` / `var name T = expr` inside a function, evaluated as constants in order
func localConsts(fd *ast.FuncDecl) map[string]*big.Int {
	env := map[string]*big.Int{}
	if fd == nil {
		return env
	}
	ast.Inspect(fd.Body, func(n ast.Node) bool {
		switch x := n.(type) {
		case *ast.FuncLit:
			return false
		case *ast.AssignStmt:
			if x.Tok == token.DEFINE && len(x.Lhs) == 1 && len(x.Rhs) == 1 {
				if id, ok := x.Lhs[0].(*ast.Ident); ok {
					if _, seen := env[id.Name]; !seen {
						if v, ok := constEval(x.Rhs[0], env); ok {
							env[id.Name] = v
						}
					}
				}
			}
		case *ast.ValueSpec:
			for i, nm := range x.Names {
				if i < len(x.Values) {
					if _, seen := env[nm.Name]; !seen {
						if v, ok := constEval(x.Values[i], env); ok {
							env[nm.Name] = v
						}
					}
				}
			}
		}
		return true
	})
	return env
}

// string literals returned / compared inside a function
func stringLits(fd *ast.FuncDecl) []string {
	var out []string
	if fd == nil {
		return out
	}
	ast.Inspect(fd.Body, func(n ast.Node) bool {
		if bl, ok := n.(*ast.BasicLit); ok && bl.Kind == token.STRING {
			if s, err := strconv.Unquote(bl.Value); err == nil {
				out = append(out, s)
			}
		}
		return true
	})
	return out
}

// the literal multiplier of `name *= <lit>` inside a function
func mulAssignLit(fd *ast.FuncDecl, name string) (*big.Int, bool) {
	var res *big.Int
	if fd == nil {
		return nil, false
	}
	ast.Inspect(fd.Body, func(n ast.Node) bool {
		if as, ok := n.(*ast.AssignStmt); ok && as.Tok == token.MUL_ASSIGN && len(as.Lhs) == 1 {
			if id, ok := as.Lhs[0].(*ast.Ident); ok && id.Name == name {
				if v, ok := constEval(as.Rhs[0], nil); ok && res == nil {
					res = v
				}
			}
		}
		return true
	})
	return res, res != nil
}

func emitConst(w *strings.Builder, name string, v *big.Int, ok bool, ty string) {
	if !ok {
		// an absent fact must break the obligation that mentions it
		fmt.Fprintf(w, "def %s : Option %s := none\n", name, ty)
		return
	}
	fmt.Fprintf(w, "def %s : Option %s := some %s\n", name, ty, leanInt(v))
}

func main() {
	repo := flag.String("repo", "/repo", "repository root")
	out := flag.String("out", "", "output Lean file")
	flag.Parse()
	var w strings.Builder
	w.WriteString("/- generated by xlate/c15 from the Go source (util/hash, util/hexa32, util/hll, util/bitutil) — do not edit -/\nimport Golib.Hash.GoExpr\n\nnamespace Gen.C15\n\n")

	// ---- util/hash
	hf := parse(*repo, "util/hash/HashUtil.go")
	tab, ok := pkgVarLits(hf, "table")
	if !ok {
		tab = nil
	}
	fmt.Fprintf(&w, "/-- `var table` of util/hash/HashUtil.go -/\ndef crcTable : List Nat := %s\n\n", intList(tab, 8))
	for _, fn := range []string{"Hash", "Hash64", "Hash64v2", "Hash64V2"} {
		emitLoop(&w, hf, fn)
	}
	for _, fn := range []string{"Hash", "Hash64", "Hash64v2", "Hash64V2"} {
		env := localConsts(findFunc(hf, fn))
		v, ok := env[regName(hf, fn)]
		emitConst(&w, "init_"+fn, v, ok, "Int")
	}
	w.WriteString("\n")

	// ---- util/hexa32
	xf := parse(*repo, "util/hexa32/Hexa32.go")
	dg, _ := pkgVarLits(xf, "digits")
	fmt.Fprintf(&w, "/-- `var digits` of util/hexa32/Hexa32.go (byte values) -/\ndef digits : List Nat := %s\n\n", intList(dg, 12))
	p, ok := pkgConst(xf, "PLUS")
	emitConst(&w, "plusChar", p, ok, "Nat")
	m, ok := pkgConst(xf, "MINUS")
	emitConst(&w, "minusChar", m, ok, "Nat")
	tl := localConsts(findFunc(xf, "to_long"))
	emitConst(&w, "toLongLimit", tl["limit"], tl["limit"] != nil, "Int")
	emitConst(&w, "toLongMultmin", tl["multmin"], tl["multmin"] != nil, "Int")
	mul, ok := mulAssignLit(findFunc(xf, "to_long"), "result")
	emitConst(&w, "toLongRadix", mul, ok, "Int")
	ts := localConsts(findFunc(xf, "to_str"))
	emitConst(&w, "toStrRadix", ts["radix"], ts["radix"] != nil, "Int")
	fmt.Fprintf(&w, "def toString32Texts : List String := [%s]\n", quoteAll(stringLits(findFunc(xf, "ToString32"))))
	fmt.Fprintf(&w, "def toLong32Texts : List String := [%s]\n\n", quoteAll(stringLits(findFunc(xf, "ToLong32"))))

	// ---- util/hll murmur constants
	mf := parse(*repo, "util/hll/MurmurHash.go")
	for _, fn := range []string{"murmurHash", "MurmurHashLong", "murmurHashLong"} {
		env := localConsts(findFunc(mf, fn))
		emitConst(&w, "murmur_"+fn+"_m", env["m"], env["m"] != nil, "Nat")
		emitConst(&w, "murmur_"+fn+"_r", env["r"], env["r"] != nil, "Nat")
	}
	for _, fn := range []string{"MurmurHashByte", "MurmurHashLongByte"} {
		var seed *big.Int
		if fd := findFunc(mf, fn); fd != nil {
			ast.Inspect(fd.Body, func(n ast.Node) bool {
				if c, ok := n.(*ast.CallExpr); ok && len(c.Args) == 3 && seed == nil {
					if v, ok := constEval(c.Args[2], nil); ok {
						seed = v
					}
				}
				return true
			})
		}
		emitConst(&w, "murmur_"+fn+"_seed", seed, seed != nil, "Nat")
	}
	w.WriteString("\n")

	// ---- util/bitutil
	bf := parse(*repo, "util/bitutil/BitUtil.go")
	for _, fn := range []string{"Composite64", "Composite32", "Composite16", "SetHigh64", "SetLow64",
		"GetHigh64", "GetLow64", "GetHigh32", "GetLow32", "GetHigh16", "GetLow16"} {
		emitFn(&w, bf, fn)
	}
	fmt.Fprintf(&w, "/-- number of the identifier `table` -/\ndef sym_table : Nat := %s\n\n", sym("table"))
	w.WriteString("-- identifier numbers:")
	for i, n := range symNames {
		fmt.Fprintf(&w, " %d=%s", i, n)
	}
	w.WriteString("\nend Gen.C15\n")
	if err := os.WriteFile(*out, []byte(w.String()), 0o644); err != nil {
		fmt.Fprintln(os.Stderr, "xlate/c15:", err)
		os.Exit(1)
	}
}

func quoteAll(xs []string) string {
	q := make([]string, len(xs))
	for i, s := range xs {
		q[i] = leanStr(s)
	}
	return strings.Join(q, ", ")
}

// regName: the loop register of a hash function (same rule as emitLoop)
func regName(f *ast.File, name string) string {
	fd := findFunc(f, name)
	if fd == nil {
		return ""
	}
	var loop *ast.ForStmt
	ast.Inspect(fd.Body, func(n ast.Node) bool {
		if fs, ok := n.(*ast.ForStmt); ok && loop == nil {
			loop = fs
		}
		return loop == nil
	})
	if loop == nil {
		return ""
	}
	declared := map[string]bool{}
	for _, s := range loop.Body.List {
		if as, ok := s.(*ast.AssignStmt); ok && len(as.Lhs) == 1 {
			id, _ := as.Lhs[0].(*ast.Ident)
			if id == nil {
				continue
			}
			if as.Tok == token.DEFINE {
				declared[id.Name] = true
			} else if !declared[id.Name] {
				return id.Name
			}
		}
	}
	return ""
}
