// xlate/c15 — tie A of property C15: transcribes facts of the Go source into Lean data.
//
// The selected declarations are type-checked with go/types (standard library importer "source",
// nothing to fetch), so every operator node is emitted with the operand type Go assigned to it and
// every constant expression with the value Go computed for it.  Output (Golib/Gen/C15.lean):
//
//   util/hash/HashUtil.go      the 256-entry table; loop body and after-loop block of Hash, Hash64,
//                              Hash64v2, Hash64V2; initial register values; ToInt, ToLong;
//                              which function the string wrappers call
//   util/stringutil            the loop body of HashCode
//   util/hexa32/Hexa32.go      digits, PLUS/MINUS, the MinInt64 text; to_str (init, condition, post,
//                              stored digit inside and after the loop); to_long (prelude, loop body,
//                              final return) and its findc closure
//   util/hll/MurmurHash.go     murmurHash / murmurHashLong: prelude, loop body, after-loop block;
//                              MurmurHashLong whole; the default seeds
//   util/bitutil/BitUtil.go    every function body
//   util/iputil/IPUtil.go      the shape of ToString / ToBytes (indices, separators, counts, mask)
//
// It never judges: a construct it cannot transcribe becomes `.unknown k`, which no hand-written
// model contains, so the obligation that mentions it fails.
//
// usage: c15 -repo DIR -out FILE [-ns NAMESPACE]
package main

import (
	"flag"
	"fmt"
	"go/ast"
	"go/constant"
	"go/importer"
	"go/parser"
	"go/printer"
	"go/token"
	"go/types"
	"math/big"
	"os"
	"path/filepath"
	"regexp"
	"sort"
	"strconv"
	"strings"
)

var fset = token.NewFileSet()

func die(f string, a ...interface{}) {
	fmt.Fprintf(os.Stderr, "xlate/c15: "+f+"\n", a...)
	os.Exit(1)
}

// ---------------------------------------------------------------- parsing + type checking

type unit struct {
	file *ast.File
	info *types.Info
}

// load parses a file and type-checks the named top-level declarations (all if names is nil)
// together with the standard-library imports they use.
func load(repo, rel string, names []string) *unit {
	f, err := parser.ParseFile(fset, filepath.Join(repo, rel), nil, 0)
	if err != nil {
		die("%v", err)
	}
	sub := f
	want := map[string]bool{}
	for _, n := range names {
		want[n] = true
	}
	var keep []ast.Decl
	for _, d := range f.Decls {
		switch x := d.(type) {
		case *ast.FuncDecl:
			if names == nil || (x.Recv == nil && want[x.Name.Name]) {
				keep = append(keep, d)
			}
		case *ast.GenDecl:
			if x.Tok == token.IMPORT {
				continue
			}
			if names == nil {
				keep = append(keep, d)
				continue
			}
			for _, sp := range x.Specs {
				if vs, ok := sp.(*ast.ValueSpec); ok {
					for _, n := range vs.Names {
						if want[n.Name] {
							keep = append(keep, d)
						}
					}
				}
			}
		}
	}
	// imports actually used by the kept declarations (standard library only)
	used := map[string]bool{}
	for _, d := range keep {
		ast.Inspect(d, func(n ast.Node) bool {
			if se, ok := n.(*ast.SelectorExpr); ok {
				if id, ok := se.X.(*ast.Ident); ok {
					used[id.Name] = true
				}
			}
			return true
		})
	}
	var imps []ast.Spec
	for _, is := range f.Imports {
		path, _ := strconv.Unquote(is.Path.Value)
		base := path[strings.LastIndex(path, "/")+1:]
		if is.Name != nil {
			base = is.Name.Name
		}
		if used[base] && !strings.Contains(strings.SplitN(path, "/", 2)[0], ".") {
			imps = append(imps, is)
		}
	}
	var decls []ast.Decl
	if len(imps) > 0 {
		decls = append(decls, &ast.GenDecl{Tok: token.IMPORT, TokPos: f.Package, Lparen: f.Package, Rparen: f.Package, Specs: imps})
	}
	sub.Decls = append(decls, keep...)
	var keptImports []*ast.ImportSpec
	for _, is := range imps {
		keptImports = append(keptImports, is.(*ast.ImportSpec))
	}
	sub.Imports = keptImports
	info := &types.Info{Types: map[ast.Expr]types.TypeAndValue{}, Uses: map[*ast.Ident]types.Object{}, Defs: map[*ast.Ident]types.Object{}}
	conf := types.Config{Importer: importer.ForCompiler(fset, "source", nil), Error: func(error) {}}
	conf.Check(f.Name.Name, fset, []*ast.File{sub}, info) // errors leave gaps in info → .unknown
	return &unit{file: sub, info: info}
}

func (u *unit) fn(name string) *ast.FuncDecl {
	for _, d := range u.file.Decls {
		if fd, ok := d.(*ast.FuncDecl); ok && fd.Recv == nil && fd.Name.Name == name {
			return fd
		}
	}
	return nil
}

// ---------------------------------------------------------------- Lean text helpers

func leanStr(s string) string { return strconv.Quote(s) }

func leanInt(v *big.Int) string {
	if v.Sign() < 0 {
		return "(" + v.String() + ")"
	}
	return v.String()
}

func tyOf(t types.Type) (string, bool) {
	if t == nil {
		return "", false
	}
	b, ok := t.Underlying().(*types.Basic)
	if !ok {
		return "", false
	}
	switch b.Kind() {
	case types.Int8:
		return ".i8", true
	case types.Int16:
		return ".i16", true
	case types.Int32:
		return ".i32", true
	case types.Int64, types.Int:
		return ".i64", true
	case types.Uint8:
		return ".u8", true
	case types.Uint16:
		return ".u16", true
	case types.Uint32:
		return ".u32", true
	case types.Uint64, types.Uint:
		return ".u64", true
	}
	return "", false
}

// ---------------------------------------------------------------- symbols

// identifiers of one function are numbered: parameters first, then in order of first appearance;
// package-level arrays have fixed numbers ≥ 1000.
type symtab struct {
	ids   map[string]int
	names []string
}

var globalArrays = map[string]int{"table": 1000, "digits": 1001}

func newSymtab() *symtab { return &symtab{ids: map[string]int{}} }
func (s *symtab) id(name string) int {
	if g, ok := globalArrays[name]; ok {
		return g
	}
	if i, ok := s.ids[name]; ok {
		return i
	}
	i := len(s.names)
	s.ids[name] = i
	s.names = append(s.names, name)
	return i
}

var unknownCount = 0

func unknown(kind string, n ast.Node) string {
	unknownCount++
	fmt.Fprintf(os.Stderr, "xlate/c15: cannot transcribe %T at %s\n", n, fset.Position(n.Pos()))
	return fmt.Sprintf("(%s.unknown %d)", kind, unknownCount)
}

// ---------------------------------------------------------------- expressions

type tr struct {
	u  *unit
	st *symtab
}

var opNames = map[token.Token]string{token.SHL: ".shl", token.SHR: ".shr", token.AND: ".band", token.OR: ".bor", token.XOR: ".bxor",
	token.ADD: ".add", token.SUB: ".sub", token.MUL: ".mul", token.QUO: ".quo", token.REM: ".rem", token.AND_NOT: ".andNot"}

var assignOps = map[token.Token]token.Token{token.XOR_ASSIGN: token.XOR, token.AND_ASSIGN: token.AND, token.OR_ASSIGN: token.OR,
	token.ADD_ASSIGN: token.ADD, token.MUL_ASSIGN: token.MUL, token.SUB_ASSIGN: token.SUB, token.SHL_ASSIGN: token.SHL,
	token.SHR_ASSIGN: token.SHR, token.AND_NOT_ASSIGN: token.AND_NOT, token.QUO_ASSIGN: token.QUO, token.REM_ASSIGN: token.REM}

func constInt(tv types.TypeAndValue) (*big.Int, bool) {
	if tv.Value == nil {
		return nil, false
	}
	v := constant.ToInt(tv.Value)
	if v.Kind() != constant.Int {
		return nil, false
	}
	b, ok := new(big.Int).SetString(v.ExactString(), 10)
	return b, ok
}

func (t *tr) expr(e ast.Expr) string {
	if tv, ok := t.u.info.Types[e]; ok {
		if v, ok := constInt(tv); ok {
			return "(.lit " + leanInt(v) + ")"
		}
	}
	switch x := e.(type) {
	case *ast.ParenExpr:
		return t.expr(x.X)
	case *ast.Ident:
		if _, ok := tyOf(t.u.info.TypeOf(x)); ok {
			return fmt.Sprintf("(.var %d)", t.st.id(x.Name))
		}
	case *ast.BinaryExpr:
		if op, ok := opNames[x.Op]; ok {
			if ty, ok := tyOf(t.u.info.TypeOf(x)); ok {
				return "(.bin " + op + " " + ty + " " + t.expr(x.X) + " " + t.expr(x.Y) + ")"
			}
		}
	case *ast.UnaryExpr:
		if ty, ok := tyOf(t.u.info.TypeOf(x)); ok {
			switch x.Op {
			case token.SUB:
				return "(.neg " + ty + " " + t.expr(x.X) + ")"
			case token.XOR:
				return "(.not " + ty + " " + t.expr(x.X) + ")"
			case token.ADD:
				return t.expr(x.X)
			}
		}
	case *ast.CallExpr:
		if id, ok := x.Fun.(*ast.Ident); ok && id.Name == "len" && len(x.Args) == 1 {
			if a, ok := x.Args[0].(*ast.Ident); ok {
				return fmt.Sprintf("(.len %d)", t.st.id(a.Name))
			}
		}
		// a call `F(a, b)` of a named function on plain identifiers with an integer result: the
		// pseudo-variable "F(a,b)" (its value is supplied by the obligation from F's own theorem)
		if id, ok := x.Fun.(*ast.Ident); ok {
			if tv, ok := t.u.info.Types[x.Fun]; ok && !tv.IsType() && !tv.IsBuiltin() {
				if _, ok := tyOf(t.u.info.TypeOf(x)); ok {
					var args []string
					plain := true
					for _, a := range x.Args {
						ai, ok := a.(*ast.Ident)
						if !ok {
							plain = false
							break
						}
						args = append(args, fmt.Sprintf("#%d", t.st.id(ai.Name)))
					}
					if plain {
						return fmt.Sprintf("(.var %d)", t.st.id(id.Name+"("+strings.Join(args, ",")+")"))
					}
				}
			}
		}
		if len(x.Args) == 1 {
			if tv, ok := t.u.info.Types[x.Fun]; ok && tv.IsType() {
				if ty, ok := tyOf(tv.Type); ok {
					if _, ok := tyOf(t.u.info.TypeOf(x.Args[0])); ok {
						return "(.conv " + ty + " " + t.expr(x.Args[0]) + ")"
					}
				}
			}
		}
	case *ast.IndexExpr:
		if a, ok := x.X.(*ast.Ident); ok {
			if _, ok := tyOf(t.u.info.TypeOf(x)); ok { // element is an integer
				return fmt.Sprintf("(.idx %d %s)", t.st.id(a.Name), t.expr(x.Index))
			}
		}
	}
	return unknown("GoSem.Expr", e)
}

func (t *tr) cond(e ast.Expr) string {
	switch x := e.(type) {
	case *ast.ParenExpr:
		return t.cond(x.X)
	case *ast.BinaryExpr:
		intOperands := func() bool {
			_, ok1 := tyOf(t.u.info.TypeOf(x.X))
			_, ok2 := tyOf(t.u.info.TypeOf(x.Y))
			return ok1 && ok2
		}
		switch x.Op {
		case token.LAND:
			return "(.and " + t.cond(x.X) + " " + t.cond(x.Y) + ")"
		case token.LOR:
			return "(.or " + t.cond(x.X) + " " + t.cond(x.Y) + ")"
		case token.LSS, token.LEQ, token.GTR, token.GEQ, token.EQL, token.NEQ:
			if x.Op == token.EQL {
				if a, ok := x.X.(*ast.Ident); ok {
					if n, ok := x.Y.(*ast.Ident); ok && n.Name == "nil" {
						if _, isSlice := t.u.info.TypeOf(a).Underlying().(*types.Slice); isSlice {
							return fmt.Sprintf("(.isNil %d)", t.st.id(a.Name))
						}
					}
				}
			}
			if !intOperands() {
				break
			}
			a, b := t.expr(x.X), t.expr(x.Y)
			switch x.Op {
			case token.LSS:
				return "(.lt " + a + " " + b + ")"
			case token.LEQ:
				return "(.le " + a + " " + b + ")"
			case token.GTR:
				return "(.lt " + b + " " + a + ")"
			case token.GEQ:
				return "(.le " + b + " " + a + ")"
			case token.EQL:
				return "(.eq " + a + " " + b + ")"
			case token.NEQ:
				return "(.ne " + a + " " + b + ")"
			}
		}
	}
	return unknown("GoSem.Cond", e)
}

// ---------------------------------------------------------------- statements

func isLenCall(e ast.Expr) bool {
	if c, ok := e.(*ast.CallExpr); ok {
		if id, ok := c.Fun.(*ast.Ident); ok && id.Name == "len" {
			return true
		}
	}
	return false
}

func assignedNames(list []ast.Stmt) map[string]bool {
	out := map[string]bool{}
	for _, s := range list {
		ast.Inspect(s, func(n ast.Node) bool {
			switch x := n.(type) {
			case *ast.AssignStmt:
				for _, l := range x.Lhs {
					if id, ok := l.(*ast.Ident); ok {
						out[id.Name] = true
					}
				}
			case *ast.IncDecStmt:
				if id, ok := x.X.(*ast.Ident); ok {
					out[id.Name] = true
				}
			}
			return true
		})
	}
	return out
}

func mentions(e ast.Node, names map[string]bool) bool {
	hit := false
	ast.Inspect(e, func(n ast.Node) bool {
		if id, ok := n.(*ast.Ident); ok && names[id.Name] {
			hit = true
		}
		return true
	})
	return hit
}

// stmts transcribes a statement list; guard is the (Lean text of the) condition of the enclosing
// `if`s / `case`s, "" at top level.  skip decides statements left out (documented at the call sites).
func (t *tr) stmts(list []ast.Stmt, guard string, skip func(ast.Stmt) bool) []string {
	var out []string
	set := func(name string, rhs string) {
		if guard == "" {
			out = append(out, fmt.Sprintf(".set %d %s", t.st.id(name), rhs))
		} else {
			out = append(out, fmt.Sprintf(".setIf %s %d %s", guard, t.st.id(name), rhs))
		}
	}
	and := func(c string) string {
		if guard == "" {
			return c
		}
		return "(.and " + guard + " " + c + ")"
	}
	for _, s := range list {
		if skip != nil && skip(s) {
			continue
		}
		switch x := s.(type) {
		case *ast.ReturnStmt:
			if len(x.Results) == 1 {
				if guard == "" {
					out = append(out, ".ret "+t.expr(x.Results[0]))
				} else {
					out = append(out, ".retIf "+guard+" "+t.expr(x.Results[0]))
				}
				continue
			}
		case *ast.IncDecStmt:
			if id, ok := x.X.(*ast.Ident); ok {
				if ty, ok := tyOf(t.u.info.TypeOf(id)); ok {
					op := ".add"
					if x.Tok == token.DEC {
						op = ".sub"
					}
					set(id.Name, fmt.Sprintf("(.bin %s %s (.var %d) (.lit 1))", op, ty, t.st.id(id.Name)))
					continue
				}
			}
		case *ast.AssignStmt:
			if len(x.Lhs) == 1 && len(x.Rhs) == 1 {
				switch l := x.Lhs[0].(type) {
				case *ast.Ident:
					switch x.Tok {
					case token.DEFINE, token.ASSIGN:
						set(l.Name, t.expr(x.Rhs[0]))
						continue
					default:
						if op, ok := opNames[assignOps[x.Tok]]; ok {
							if ty, ok := tyOf(t.u.info.TypeOf(l)); ok {
								set(l.Name, fmt.Sprintf("(.bin %s %s (.var %d) %s)", op, ty, t.st.id(l.Name), t.expr(x.Rhs[0])))
								continue
							}
						}
					}
				case *ast.IndexExpr:
					// `buf[pos] = e`: the pseudo-variable "<array>@" holds the element just stored
					if a, ok := l.X.(*ast.Ident); ok && x.Tok == token.ASSIGN {
						set(a.Name+"@", t.expr(x.Rhs[0]))
						continue
					}
				}
			}
		case *ast.DeclStmt:
			if gd, ok := x.Decl.(*ast.GenDecl); ok && gd.Tok == token.VAR && len(gd.Specs) == 1 {
				vs := gd.Specs[0].(*ast.ValueSpec)
				if len(vs.Names) == 1 && len(vs.Values) == 1 {
					if _, ok := tyOf(t.u.info.TypeOf(vs.Names[0])); ok {
						rhs := t.expr(vs.Values[0])
						// `var x T = e` converts e to T; constants arrive already converted
						if ty, ok := tyOf(t.u.info.TypeOf(vs.Names[0])); ok && !strings.HasPrefix(rhs, "(.lit ") {
							if ety, _ := tyOf(t.u.info.TypeOf(vs.Values[0])); ety != ty {
								rhs = "(.conv " + ty + " " + rhs + ")"
							}
						}
						set(vs.Names[0].Name, rhs)
						continue
					}
				}
			}
		case *ast.IfStmt:
			if x.Init == nil && x.Else == nil && !mentions(x.Cond, assignedNames(x.Body.List)) {
				out = append(out, (&tr{t.u, t.st}).withGuard(x.Body.List, and(t.cond(x.Cond)), skip)...)
				continue
			}
		case *ast.SwitchStmt:
			if r, ok := t.switchStmt(x, guard, skip); ok {
				out = append(out, r...)
				continue
			}
		}
		out = append(out, unknown("GoSem.Stmt", s))
	}
	return out
}

func (t *tr) withGuard(list []ast.Stmt, guard string, skip func(ast.Stmt) bool) []string {
	return t.stmts(list, guard, skip)
}

// switchStmt handles the two shapes that occur:
//   switch tag { case c1: …; fallthrough  case c2: …; fallthrough … case cn: … }   (every case but the last
//       ends in fallthrough, constant labels, tag not assigned inside): the statements of case k run
//       iff tag ∈ {c1..ck}  →  .setIf (.oneOf tag [c1..ck]) …
//   switch { case cond1: return e1 … default: return e0 }   →  .retIf cond1 e1 … .ret e0
func (t *tr) switchStmt(x *ast.SwitchStmt, guard string, skip func(ast.Stmt) bool) ([]string, bool) {
	if x.Init != nil {
		return nil, false
	}
	var out []string
	and := func(c string) string {
		if guard == "" {
			return c
		}
		return "(.and " + guard + " " + c + ")"
	}
	if x.Tag == nil {
		var deflt *ast.CaseClause
		for _, c := range x.Body.List {
			cc := c.(*ast.CaseClause)
			if cc.List == nil {
				deflt = cc
				continue
			}
			if len(cc.List) != 1 || len(cc.Body) != 1 {
				return nil, false
			}
			rs, ok := cc.Body[0].(*ast.ReturnStmt)
			if !ok || len(rs.Results) != 1 {
				return nil, false
			}
			out = append(out, ".retIf "+and(t.cond(cc.List[0]))+" "+t.expr(rs.Results[0]))
		}
		if deflt != nil {
			out = append(out, t.stmts(deflt.Body, guard, skip)...)
		}
		return out, true
	}
	var all []ast.Stmt
	for _, c := range x.Body.List {
		all = append(all, c.(*ast.CaseClause).Body...)
	}
	if mentions(x.Tag, assignedNames(all)) {
		return nil, false
	}
	// shape 3: `switch tag { case c1: …; return e1  case c2: …; return e2  default: …; return e0 }`
	// (no fallthrough, every clause ends in a return): the statements of case k are guarded by tag == ck,
	// the default clause comes last unguarded (every matching case has returned before it)
	{
		allRet, anyFall := true, false
		for _, c := range x.Body.List {
			body := c.(*ast.CaseClause).Body
			if len(body) == 0 {
				allRet = false
				break
			}
			switch l := body[len(body)-1].(type) {
			case *ast.ReturnStmt:
			case *ast.BranchStmt:
				if l.Tok == token.FALLTHROUGH {
					anyFall = true
				}
				allRet = false
			default:
				allRet = false
			}
		}
		if allRet && !anyFall {
			var deflt *ast.CaseClause
			for _, c := range x.Body.List {
				cc := c.(*ast.CaseClause)
				if cc.List == nil {
					deflt = cc
					continue
				}
				if len(cc.List) != 1 {
					return nil, false
				}
				v, ok := constInt(t.u.info.Types[cc.List[0]])
				if !ok {
					return nil, false
				}
				g := and("(.oneOf " + t.expr(x.Tag) + " [" + leanInt(v) + "])")
				out = append(out, t.stmts(cc.Body, g, skip)...)
			}
			if deflt != nil {
				out = append(out, t.stmts(deflt.Body, guard, skip)...)
			}
			return out, true
		}
	}
	var labels []string
	n := len(x.Body.List)
	for i, c := range x.Body.List {
		cc := c.(*ast.CaseClause)
		if len(cc.List) != 1 {
			return nil, false
		}
		v, ok := constInt(t.u.info.Types[cc.List[0]])
		if !ok {
			return nil, false
		}
		labels = append(labels, leanInt(v))
		body := cc.Body
		if i < n-1 {
			if len(body) == 0 {
				return nil, false
			}
			bs, ok := body[len(body)-1].(*ast.BranchStmt)
			if !ok || bs.Tok != token.FALLTHROUGH {
				return nil, false
			}
			body = body[:len(body)-1]
		}
		g := and("(.oneOf " + t.expr(x.Tag) + " [" + strings.Join(labels, ", ") + "])")
		out = append(out, t.stmts(body, g, skip)...)
	}
	return out, true
}

func block(lines []string) string {
	if len(lines) == 0 {
		return "[]"
	}
	return "[\n    " + strings.Join(lines, ",\n    ") + "]"
}

// ---------------------------------------------------------------- emitters

type emitter struct{ w strings.Builder }

// the identifier numbers, for the reader (the obligations use `loopVar` / `carried`, not names)
func (e *emitter) syms(prefix string, st *symtab) {
	var xs []string
	for i, n := range st.names {
		xs = append(xs, fmt.Sprintf("(%s, %d)", leanStr(n), i))
	}
	fmt.Fprintf(&e.w, "def %s.names : List (String × Nat) := [%s]\n\n", prefix, strings.Join(xs, ", "))
}

func paramSyms(fd *ast.FuncDecl, st *symtab, u *unit) []string {
	var ps []string
	for _, fl := range fd.Type.Params.List {
		for _, n := range fl.Names {
			id := st.id(n.Name) // slices / strings get a number too (used as array names)
			if ty, ok := tyOf(u.info.TypeOf(n)); ok {
				ps = append(ps, fmt.Sprintf("(%d, %s)", id, ty))
			}
		}
	}
	return ps
}

// whole function as GoSem.Fn
func (e *emitter) fn(u *unit, name, leanName string) {
	fd := u.fn(name)
	if fd == nil || fd.Type.Results == nil || len(fd.Type.Results.List) != 1 {
		fmt.Fprintf(&e.w, "def %s : GoSem.Fn := { params := [], result := .i64, body := [.unknown 0] }\n\n", leanName)
		return
	}
	st := newSymtab()
	ps := paramSyms(fd, st, u)
	rt, ok := tyOf(u.info.TypeOf(fd.Type.Results.List[0].Type))
	if !ok {
		rt = ".i64"
	}
	t := &tr{u, st}
	fmt.Fprintf(&e.w, "def %s : GoSem.Fn :=\n  { params := [%s], result := %s, body := %s }\n", leanName, strings.Join(ps, ", "), rt, block(t.stmts(fd.Body.List, "", nil)))
	e.syms(leanName, st)
}

func firstFor(fd *ast.FuncDecl) (*ast.ForStmt, int, []ast.Stmt) {
	list := fd.Body.List
	// Hash64V2 wraps everything in `if sz := len(bytes); sz == 0 { return 0 } else { … }`
	// `if init; c { return v } else { rest }`  is  `init; if c { return v }; rest`
	if len(list) == 1 {
		if is, ok := list[0].(*ast.IfStmt); ok && is.Else != nil && len(is.Body.List) == 1 {
			if _, isRet := is.Body.List[0].(*ast.ReturnStmt); isRet {
				if eb, ok := is.Else.(*ast.BlockStmt); ok {
					var nl []ast.Stmt
					if is.Init != nil {
						nl = append(nl, is.Init)
					}
					nl = append(nl, &ast.IfStmt{If: is.If, Cond: is.Cond, Body: is.Body})
					list = append(nl, eb.List...)
				}
			}
		}
	}
	for i, s := range list {
		if fs, ok := s.(*ast.ForStmt); ok {
			return fs, i, list
		}
	}
	return nil, -1, list
}

// numberLoopFn fixes the identifier numbers of a loop function independently of the order of its
// statements: parameters, the loop variable, the variables carried around the loop (assigned in the
// body, declared outside it) in order of their first assignment in the body, then all others in source order.
func numberLoopFn(fd *ast.FuncDecl, loop *ast.ForStmt, st *symtab) (loopVar int, carried []int, carriedNames []string) {
	loopVar = -1
	if loop == nil {
		return
	}
	if as, ok := loop.Init.(*ast.AssignStmt); ok && len(as.Lhs) == 1 {
		if id, ok := as.Lhs[0].(*ast.Ident); ok {
			loopVar = st.id(id.Name)
		}
	}
	seen := map[string]bool{}
	note := func(name string) {
		k := st.id(name)
		if !seen[name] && k != loopVar {
			seen[name] = true
			carried = append(carried, k)
			carriedNames = append(carriedNames, name)
		}
	}
	declaredInside := map[string]bool{}
	for _, s := range loop.Body.List {
		ast.Inspect(s, func(n ast.Node) bool {
			if as, ok := n.(*ast.AssignStmt); ok && as.Tok == token.DEFINE {
				for _, l := range as.Lhs {
					if id, ok := l.(*ast.Ident); ok {
						declaredInside[id.Name] = true
					}
				}
			}
			return true
		})
	}
	for _, s := range loop.Body.List {
		ast.Inspect(s, func(n ast.Node) bool {
			switch x := n.(type) {
			case *ast.AssignStmt:
				for _, l := range x.Lhs {
					if id, ok := l.(*ast.Ident); ok && !declaredInside[id.Name] {
						note(id.Name)
					}
				}
			case *ast.IncDecStmt:
				if id, ok := x.X.(*ast.Ident); ok && !declaredInside[id.Name] {
					note(id.Name)
				}
			}
			return true
		})
	}
	// then the variables declared before the loop, in order of their first use in the loop body and
	// in the statements after the loop (so that reordering the declarations does not renumber them)
	declaredBefore := map[string]bool{}
	_, at, list := firstFor(fd)
	for _, s := range list[:at] {
		ast.Inspect(s, func(n ast.Node) bool {
			switch x := n.(type) {
			case *ast.AssignStmt:
				if x.Tok == token.DEFINE {
					for _, l := range x.Lhs {
						if id, ok := l.(*ast.Ident); ok {
							declaredBefore[id.Name] = true
						}
					}
				}
			case *ast.ValueSpec:
				for _, nm := range x.Names {
					declaredBefore[nm.Name] = true
				}
			}
			return true
		})
	}
	use := func(n ast.Node) {
		ast.Inspect(n, func(n ast.Node) bool {
			if id, ok := n.(*ast.Ident); ok && declaredBefore[id.Name] {
				st.id(id.Name)
			}
			return true
		})
	}
	use(loop.Body)
	for _, s := range list[at+1:] {
		use(s)
	}
	return
}

// headerText renders parts of a loop header with identifiers replaced by their numbers
// (`sz` declared as `len(x)` is replaced by `len(#x)`).
func headerText(fd *ast.FuncDecl, st *symtab) func(n ast.Node) string {
	lenAlias := map[string]string{} // `sz := len(bytes)` ↦ sz is len(#0)
	ast.Inspect(fd.Body, func(n ast.Node) bool {
		if as, ok := n.(*ast.AssignStmt); ok && as.Tok == token.DEFINE && len(as.Lhs) == 1 && len(as.Rhs) == 1 && isLenCall(as.Rhs[0]) {
			if id, ok := as.Lhs[0].(*ast.Ident); ok {
				var b strings.Builder
				printer.Fprint(&b, fset, as.Rhs[0])
				lenAlias[id.Name] = b.String()
			}
		}
		return true
	})
	identRe := regexp.MustCompile(`[A-Za-z_][A-Za-z_0-9]*`)
	var subst func(txt string, depth int) string
	subst = func(txt string, depth int) string {
		return identRe.ReplaceAllStringFunc(txt, func(w string) string {
			if a, ok := lenAlias[w]; ok && depth == 0 {
				return subst(a, 1)
			}
			if _, ok := st.ids[w]; ok {
				return fmt.Sprintf("#%d", st.ids[w])
			}
			return w // builtins and type names
		})
	}
	hdr := func(n ast.Node) string {
		if n == nil {
			return ""
		}
		var b strings.Builder
		printer.Fprint(&b, fset, n)
		return subst(b.String(), 0)
	}

	return hdr
}

// a function of the shape  prelude; for …{ body }; after  → three blocks sharing one symbol table
func (e *emitter) loopFn(u *unit, name, leanName string, wantPre bool) {
	fd := u.fn(name)
	if fd == nil {
		fmt.Fprintf(&e.w, "def %s.body : List GoSem.Stmt := [.unknown 0]\ndef %s.after : List GoSem.Stmt := [.unknown 0]\n\n", leanName, leanName)
		return
	}
	st := newSymtab()
	paramSyms(fd, st, u)
	loop, at, list := firstFor(fd)
	loopVar, carried, carriedNames := numberLoopFn(fd, loop, st)
	t := &tr{u, st}
	if loop == nil {
		fmt.Fprintf(&e.w, "def %s.body : List GoSem.Stmt := [.unknown 0]\ndef %s.after : List GoSem.Stmt := [.unknown 0]\n\n", leanName, leanName)
		return
	}
	{
		var cs []string
		for _, c := range carried {
			cs = append(cs, strconv.Itoa(c))
		}
		fmt.Fprintf(&e.w, "def %s.loopVar : Int := %d\ndef %s.carried : List Nat := [%s]\n", leanName, loopVar, leanName, strings.Join(cs, ", "))
		// constant initial value of the first carried variable (the register), if it has one
		if len(carriedNames) > 0 {
			v, ok := u.localConst(fd, carriedNames[0])
			e.optConst(leanName+".regInit", v, ok, "Int")
		}
	}
	hdr := headerText(fd, st)

	_ = wantPre
	fmt.Fprintf(&e.w, "def %s.pre : List GoSem.Stmt := %s\n", leanName, block(t.stmts(list[:at], "", nil)))
	if loop.Init != nil && loop.Cond != nil && loop.Post != nil {
		fmt.Fprintf(&e.w, "def %s.init : List GoSem.Stmt := %s\n", leanName, block(t.stmts([]ast.Stmt{loop.Init}, "", nil)))
		fmt.Fprintf(&e.w, "def %s.cond : GoSem.Cond := %s\n", leanName, t.cond(loop.Cond))
		fmt.Fprintf(&e.w, "def %s.post : List GoSem.Stmt := %s\n", leanName, block(t.stmts([]ast.Stmt{loop.Post}, "", nil)))
	} else {
		fmt.Fprintf(&e.w, "def %s.init : List GoSem.Stmt := [.unknown 0]\ndef %s.cond : GoSem.Cond := .unknown 0\ndef %s.post : List GoSem.Stmt := [.unknown 0]\n", leanName, leanName, leanName)
	}
	fmt.Fprintf(&e.w, "def %s.body : List GoSem.Stmt := %s\n", leanName, block(t.stmts(loop.Body.List, "", nil)))
	fmt.Fprintf(&e.w, "def %s.after : List GoSem.Stmt := %s\n", leanName, block(t.stmts(list[at+1:], "", nil)))
	fmt.Fprintf(&e.w, "def %s.header : List String := [%s, %s, %s]\n", leanName, leanStr(hdr(loop.Init)), leanStr(hdr(loop.Cond)), leanStr(hdr(loop.Post)))
	e.syms(leanName, st)
}

// ---------------------------------------------------------------- constants and tables

func intList(vals []*big.Int, per int) string {
	var rows []string
	for i := 0; i < len(vals); i += per {
		var r []string
		for j := i; j < i+per && j < len(vals); j++ {
			r = append(r, vals[j].String())
		}
		rows = append(rows, "  "+strings.Join(r, ", "))
	}
	return "[\n" + strings.Join(rows, ",\n") + "]"
}

func (u *unit) pkgVarLits(name string) []*big.Int {
	var out []*big.Int
	for _, d := range u.file.Decls {
		gd, ok := d.(*ast.GenDecl)
		if !ok || gd.Tok != token.VAR {
			continue
		}
		for _, sp := range gd.Specs {
			vs := sp.(*ast.ValueSpec)
			for i, n := range vs.Names {
				if n.Name != name || i >= len(vs.Values) {
					continue
				}
				cl, ok := vs.Values[i].(*ast.CompositeLit)
				if !ok {
					return nil
				}
				for _, el := range cl.Elts {
					v, ok := constInt(u.info.Types[el])
					if !ok {
						return nil
					}
					out = append(out, v)
				}
				return out
			}
		}
	}
	return nil
}

func (u *unit) pkgConst(name string) (*big.Int, bool) {
	for id, obj := range u.info.Defs {
		if id.Name == name {
			if c, ok := obj.(*types.Const); ok {
				v := constant.ToInt(c.Val())
				if v.Kind() == constant.Int {
					b, ok := new(big.Int).SetString(v.ExactString(), 10)
					return b, ok
				}
			}
		}
	}
	return nil, false
}

func (e *emitter) optConst(name string, v *big.Int, ok bool, ty string) {
	if !ok || v == nil {
		fmt.Fprintf(&e.w, "def %s : Option %s := none\n", name, ty)
		return
	}
	fmt.Fprintf(&e.w, "def %s : Option %s := some %s\n", name, ty, leanInt(v))
}

func stringLits(fd *ast.FuncDecl) []string {
	var out []string
	if fd == nil {
		return out
	}
	ast.Inspect(fd.Body, func(n ast.Node) bool {
		if bl, ok := n.(*ast.BasicLit); ok && bl.Kind == token.STRING {
			if s, err := strconv.Unquote(bl.Value); err == nil {
				out = append(out, s)
			}
		}
		return true
	})
	return out
}

func quoteAll(xs []string) string {
	q := make([]string, len(xs))
	for i, s := range xs {
		q[i] = leanStr(s)
	}
	return strings.Join(q, ", ")
}

// value of the first declaration `name := <const>` / `var name T = <const>` in a function
func (u *unit) localConst(fd *ast.FuncDecl, name string) (*big.Int, bool) {
	var res *big.Int
	if fd == nil {
		return nil, false
	}
	ast.Inspect(fd.Body, func(n ast.Node) bool {
		if res != nil {
			return false
		}
		switch x := n.(type) {
		case *ast.AssignStmt:
			if x.Tok == token.DEFINE && len(x.Lhs) == 1 && len(x.Rhs) == 1 {
				if id, ok := x.Lhs[0].(*ast.Ident); ok && id.Name == name {
					if v, ok := constInt(u.info.Types[x.Rhs[0]]); ok {
						res = v
					}
				}
			}
		case *ast.ValueSpec:
			for i, nm := range x.Names {
				if nm.Name == name && i < len(x.Values) {
					if v, ok := constInt(u.info.Types[x.Values[i]]); ok {
						res = v
					}
				}
			}
		}
		return true
	})
	return res, res != nil
}

// `return F([]byte(s))`-style wrappers: the callee and, if present, the guard `if s == "" { return c }`
func (e *emitter) wrapper(u *unit, name string) {
	fd := u.fn(name)
	callee, guard := "", (*big.Int)(nil)
	if fd != nil {
		for _, s := range fd.Body.List {
			switch x := s.(type) {
			case *ast.ReturnStmt:
				if len(x.Results) == 1 {
					if c, ok := x.Results[0].(*ast.CallExpr); ok && len(c.Args) == 1 {
						if id, ok := c.Fun.(*ast.Ident); ok {
							// the argument must be []byte(<the parameter>)
							if conv, ok := c.Args[0].(*ast.CallExpr); ok && len(conv.Args) == 1 {
								if at, ok := conv.Fun.(*ast.ArrayType); ok && at.Len == nil {
									if el, ok := at.Elt.(*ast.Ident); ok && el.Name == "byte" {
										if p, ok := conv.Args[0].(*ast.Ident); ok && len(fd.Type.Params.List) == 1 && p.Name == fd.Type.Params.List[0].Names[0].Name {
											callee = id.Name
										}
									}
								}
							}
						}
					}
				}
			case *ast.IfStmt:
				if be, ok := x.Cond.(*ast.BinaryExpr); ok && be.Op == token.EQL && x.Else == nil && len(x.Body.List) == 1 {
					if bl, ok := be.Y.(*ast.BasicLit); ok && bl.Value == `""` {
						if rs, ok := x.Body.List[0].(*ast.ReturnStmt); ok && len(rs.Results) == 1 {
							if v, ok := constInt(u.info.Types[rs.Results[0]]); ok {
								guard = v
							}
						}
					}
				}
			}
		}
	}
	fmt.Fprintf(&e.w, "def wrapper_%s : String × Option Int := (%s, ", name, leanStr(callee))
	if guard != nil {
		fmt.Fprintf(&e.w, "some %s)\n", leanInt(guard))
	} else {
		e.w.WriteString("none)\n")
	}
}

// ---------------------------------------------------------------- string-level trees (hexa32 top level)

func (t *tr) sexpr(e ast.Expr) string {
	switch x := e.(type) {
	case *ast.ParenExpr:
		return t.sexpr(x.X)
	case *ast.BasicLit:
		if x.Kind == token.STRING {
			if v, err := strconv.Unquote(x.Value); err == nil {
				return "(.lit " + leanStr(v) + ")"
			}
		}
	case *ast.BinaryExpr:
		if x.Op == token.ADD {
			return "(.cat " + t.sexpr(x.X) + " " + t.sexpr(x.Y) + ")"
		}
	case *ast.CallExpr:
		if len(x.Args) == 1 {
			if id, ok := x.Fun.(*ast.Ident); ok && id.Name == "to_str" {
				return "(.toStr " + t.expr(x.Args[0]) + ")"
			}
			if sel, ok := x.Fun.(*ast.SelectorExpr); ok && sel.Sel.Name == "Itoa" {
				if p, ok := sel.X.(*ast.Ident); ok && p.Name == "strconv" {
					return "(.itoa " + t.expr(x.Args[0]) + ")"
				}
			}
		}
	}
	return unknown("GoSem.SExpr", e)
}

// a function body made of bool aliases, if/else and returns of strings, as a decision tree
func (t *tr) stree(list []ast.Stmt, alias map[string]ast.Expr) string {
	if len(list) == 0 {
		unknownCount++
		return fmt.Sprintf("(GoSem.STree.unknown %d)", unknownCount)
	}
	switch x := list[0].(type) {
	case *ast.AssignStmt:
		if x.Tok == token.DEFINE && len(x.Lhs) == 1 && len(x.Rhs) == 1 {
			if id, ok := x.Lhs[0].(*ast.Ident); ok {
				if b, ok := t.u.info.TypeOf(x.Rhs[0]).Underlying().(*types.Basic); ok && b.Kind() == types.Bool {
					alias[id.Name] = x.Rhs[0]
					return t.stree(list[1:], alias)
				}
			}
		}
	case *ast.ReturnStmt:
		if len(x.Results) == 1 {
			return "(.ret " + t.sexpr(x.Results[0]) + ")"
		}
	case *ast.IfStmt:
		if x.Init == nil {
			c := x.Cond
			if id, ok := c.(*ast.Ident); ok {
				if a, ok := alias[id.Name]; ok {
					c = a
				}
			}
			thenT := t.stree(x.Body.List, alias)
			var elseT string
			switch el := x.Else.(type) {
			case nil:
				elseT = t.stree(list[1:], alias)
			case *ast.BlockStmt:
				elseT = t.stree(el.List, alias)
			default:
				elseT = unknown("GoSem.STree", x)
			}
			return "(.ite " + t.cond(c) + " " + thenT + " " + elseT + ")"
		}
	}
	return unknown("GoSem.STree", list[0])
}

func (e *emitter) encTree(u *unit, name, leanName string) {
	fd := u.fn(name)
	if fd == nil {
		fmt.Fprintf(&e.w, "def %s : GoSem.STree := .unknown 0\n\n", leanName)
		return
	}
	st := newSymtab()
	paramSyms(fd, st, u)
	t := &tr{u, st}
	fmt.Fprintf(&e.w, "def %s : GoSem.STree :=\n  %s\n", leanName, t.stree(fd.Body.List, map[string]ast.Expr{}))
	e.syms(leanName, st)
}

// ToLong32: decisions on the text (empty, first byte, equal to a literal) and what is returned
func (e *emitter) decTree(u *unit, name, leanName string) {
	fd := u.fn(name)
	bad := func(n ast.Node) string { return unknown("GoSem.DTree", n) }
	if fd == nil || len(fd.Type.Params.List) != 1 || len(fd.Type.Params.List[0].Names) != 1 {
		fmt.Fprintf(&e.w, "def %s : GoSem.DTree := .unknown 0\n\n", leanName)
		return
	}
	str := fd.Type.Params.List[0].Names[0].Name
	isStr := func(x ast.Expr) bool { id, ok := x.(*ast.Ident); return ok && id.Name == str }
	strLit := func(x ast.Expr) (string, bool) {
		if bl, ok := x.(*ast.BasicLit); ok && bl.Kind == token.STRING {
			v, err := strconv.Unquote(bl.Value)
			return v, err == nil
		}
		return "", false
	}
	// to_long(str[1:len(str)]) / to_long(str[1:])
	isToLongTail := func(x ast.Expr) bool {
		c, ok := x.(*ast.CallExpr)
		if !ok || len(c.Args) != 1 {
			return false
		}
		if id, ok := c.Fun.(*ast.Ident); !ok || id.Name != "to_long" {
			return false
		}
		sl, ok := c.Args[0].(*ast.SliceExpr)
		if !ok || !isStr(sl.X) || sl.Slice3 {
			return false
		}
		if v, ok := constInt(u.info.Types[sl.Low]); !ok || v.Int64() != 1 {
			return false
		}
		if sl.High != nil {
			hc, ok := sl.High.(*ast.CallExpr)
			if !ok || !isLenCall(hc) || len(hc.Args) != 1 || !isStr(hc.Args[0]) {
				return false
			}
		}
		return true
	}
	ret := func(x ast.Expr) string {
		if v, ok := constInt(u.info.Types[x]); ok {
			return "(.ret (.const " + leanInt(v) + "))"
		}
		if isToLongTail(x) {
			return "(.ret (.mulToLongTail 1))"
		}
		if be, ok := x.(*ast.BinaryExpr); ok && be.Op == token.MUL {
			if v, ok := constInt(u.info.Types[be.X]); ok && isToLongTail(be.Y) {
				return "(.ret (.mulToLongTail " + leanInt(v) + "))"
			}
			if v, ok := constInt(u.info.Types[be.Y]); ok && isToLongTail(be.X) {
				return "(.ret (.mulToLongTail " + leanInt(v) + "))"
			}
		}
		return bad(x)
	}
	var tree func(list []ast.Stmt) string
	tree = func(list []ast.Stmt) string {
		if len(list) == 0 {
			unknownCount++
			return fmt.Sprintf("(GoSem.DTree.unknown %d)", unknownCount)
		}
		switch x := list[0].(type) {
		case *ast.ReturnStmt:
			if len(x.Results) == 1 {
				return ret(x.Results[0])
			}
		case *ast.IfStmt:
			if x.Init == nil {
				c := ""
				if be, ok := x.Cond.(*ast.BinaryExpr); ok && be.Op == token.EQL {
					a, b := be.X, be.Y
					if isStr(b) {
						a, b = b, a
					}
					if isStr(a) {
						if v, ok := strLit(b); ok {
							if v == "" {
								c = ".isEmpty"
							} else {
								c = "(.eqLit " + leanStr(v) + ")"
							}
						}
					}
				}
				if c == "" {
					return bad(x)
				}
				thenT := tree(x.Body.List)
				var elseT string
				switch el := x.Else.(type) {
				case nil:
					elseT = tree(list[1:])
				case *ast.BlockStmt:
					elseT = tree(el.List)
				default:
					elseT = bad(x)
				}
				return "(.ite " + c + " " + thenT + " " + elseT + ")"
			}
		case *ast.SwitchStmt:
			// switch str[0] { case C1: …  case C2: …  default: … }  (no fallthrough; must be the last statement)
			ie, ok := x.Tag.(*ast.IndexExpr)
			if !ok || x.Init != nil || !isStr(ie.X) || len(list) != 1 {
				return bad(x)
			}
			if v, ok := constInt(u.info.Types[ie.Index]); !ok || v.Sign() != 0 {
				return bad(x)
			}
			deflt := ""
			type arm struct{ lab, body string }
			var arms []arm
			for _, c := range x.Body.List {
				cc := c.(*ast.CaseClause)
				for _, s := range cc.Body {
					if bs, ok := s.(*ast.BranchStmt); ok && bs.Tok == token.FALLTHROUGH {
						return bad(x)
					}
				}
				if cc.List == nil {
					deflt = tree(cc.Body)
					continue
				}
				if len(cc.List) != 1 {
					return bad(x)
				}
				v, ok := constInt(u.info.Types[cc.List[0]])
				if !ok {
					return bad(x)
				}
				arms = append(arms, arm{leanInt(v), tree(cc.Body)})
			}
			if deflt == "" {
				return bad(x)
			}
			out := deflt
			for i := len(arms) - 1; i >= 0; i-- {
				out = "(.ite (.firstIs " + arms[i].lab + ") " + arms[i].body + " " + out + ")"
			}
			return out
		case *ast.AssignStmt:
			// i, err := strconv.Atoi(str); if err != nil { return D }; return int64(i)
			if x.Tok == token.DEFINE && len(x.Lhs) == 2 && len(x.Rhs) == 1 && len(list) == 3 {
				iv, ok1 := x.Lhs[0].(*ast.Ident)
				ev, ok2 := x.Lhs[1].(*ast.Ident)
				c, ok3 := x.Rhs[0].(*ast.CallExpr)
				if ok1 && ok2 && ok3 && len(c.Args) == 1 && isStr(c.Args[0]) {
					if sel, ok := c.Fun.(*ast.SelectorExpr); ok && sel.Sel.Name == "Atoi" {
						is, okA := list[1].(*ast.IfStmt)
						rs, okB := list[2].(*ast.ReturnStmt)
						if okA && okB && is.Else == nil && is.Init == nil && len(is.Body.List) == 1 && len(rs.Results) == 1 {
							be, okC := is.Cond.(*ast.BinaryExpr)
							r1, okD := is.Body.List[0].(*ast.ReturnStmt)
							if okC && okD && be.Op == token.NEQ && len(r1.Results) == 1 {
								l, okE := be.X.(*ast.Ident)
								n, okF := be.Y.(*ast.Ident)
								d, okG := constInt(u.info.Types[r1.Results[0]])
								// return int64(i)
								good := false
								if cv, ok := rs.Results[0].(*ast.CallExpr); ok && len(cv.Args) == 1 {
									if ty, ok := cv.Fun.(*ast.Ident); ok && ty.Name == "int64" {
										if a, ok := cv.Args[0].(*ast.Ident); ok && a.Name == iv.Name {
											good = true
										}
									}
								}
								if okE && okF && okG && l.Name == ev.Name && n.Name == "nil" && good {
									return "(.ret (.atoiOr " + leanInt(d) + "))"
								}
							}
						}
					}
				}
			}
		}
		return bad(list[0])
	}
	fmt.Fprintf(&e.w, "def %s : GoSem.DTree :=\n  %s\n\n", leanName, tree(fd.Body.List))
}

// ---------------------------------------------------------------- iputil shape

func (e *emitter) ipShape(repo string) {
	f, err := parser.ParseFile(fset, filepath.Join(repo, "util/iputil/IPUtil.go"), nil, 0)
	if err != nil {
		die("%v", err)
	}
	find := func(name string) *ast.FuncDecl {
		for _, d := range f.Decls {
			if fd, ok := d.(*ast.FuncDecl); ok && fd.Name.Name == name {
				return fd
			}
		}
		return nil
	}
	// ToString: the sequence of buffer writes: `strconv.Itoa(int(uint(ip[K])))` ↦ K, a string literal ↦ its text;
	// and the text returned for an empty slice
	var pieces []string
	empty := ""
	if fd := find("ToString"); fd != nil {
		for _, s := range fd.Body.List {
			switch x := s.(type) {
			case *ast.IfStmt:
				if len(x.Body.List) == 1 {
					if rs, ok := x.Body.List[0].(*ast.ReturnStmt); ok && len(rs.Results) == 1 {
						if bl, ok := rs.Results[0].(*ast.BasicLit); ok {
							empty, _ = strconv.Unquote(bl.Value)
						}
					}
				}
			case *ast.ExprStmt:
				c, ok := x.X.(*ast.CallExpr)
				if !ok || len(c.Args) != 1 {
					pieces = append(pieces, ".other")
					continue
				}
				sel, ok := c.Fun.(*ast.SelectorExpr)
				if !ok || sel.Sel.Name != "WriteString" {
					pieces = append(pieces, ".other")
					continue
				}
				if bl, ok := c.Args[0].(*ast.BasicLit); ok && bl.Kind == token.STRING {
					t, _ := strconv.Unquote(bl.Value)
					pieces = append(pieces, ".text "+leanStr(t))
					continue
				}
				// strconv.Itoa(int(uint(ip[K])))
				idx := -1
				if ic, ok := c.Args[0].(*ast.CallExpr); ok {
					if s2, ok := ic.Fun.(*ast.SelectorExpr); ok && s2.Sel.Name == "Itoa" && len(ic.Args) == 1 {
						inner := ic.Args[0]
						for {
							if cc, ok := inner.(*ast.CallExpr); ok && len(cc.Args) == 1 {
								if id, ok := cc.Fun.(*ast.Ident); ok && (id.Name == "int" || id.Name == "uint") {
									inner = cc.Args[0]
									continue
								}
							}
							break
						}
						if ie, ok := inner.(*ast.IndexExpr); ok {
							if bl, ok := ie.Index.(*ast.BasicLit); ok {
								idx, _ = strconv.Atoi(bl.Value)
							}
						}
					}
				}
				if idx >= 0 {
					pieces = append(pieces, fmt.Sprintf(".octet %d", idx))
				} else {
					pieces = append(pieces, ".other")
				}
			}
		}
	}
	fmt.Fprintf(&e.w, "def ipToString_pieces : List GoSem.IpPiece := [%s]\n", strings.Join(pieces, ", "))
	fmt.Fprintf(&e.w, "def ipToString_empty : String := %s\n", leanStr(empty))
	// ToBytes: separator of strings.Split, the required count, the loop bound, the mask, the default bytes
	sep, count, bound, mask := "", -1, -1, int64(-1)
	var dflt []string
	if fd := find("ToBytes"); fd != nil {
		ast.Inspect(fd.Body, func(n ast.Node) bool {
			switch x := n.(type) {
			case *ast.CallExpr:
				if sel, ok := x.Fun.(*ast.SelectorExpr); ok && sel.Sel.Name == "Split" && len(x.Args) == 2 {
					if bl, ok := x.Args[1].(*ast.BasicLit); ok {
						sep, _ = strconv.Unquote(bl.Value)
					}
				}
			case *ast.BinaryExpr:
				if bl, ok := x.Y.(*ast.BasicLit); ok && bl.Kind == token.INT {
					v, _ := strconv.ParseInt(bl.Value, 0, 64)
					switch x.Op {
					case token.NEQ:
						if isLenCall(x.X) {
							count = int(v)
						}
					case token.LSS:
						bound = int(v)
					case token.AND:
						mask = v
					}
				}
			case *ast.AssignStmt:
				if len(x.Lhs) == 1 && len(x.Rhs) == 1 {
					if id, ok := x.Lhs[0].(*ast.Ident); ok && id.Name == "result" {
						if cl, ok := x.Rhs[0].(*ast.CompositeLit); ok {
							dflt = nil
							for _, el := range cl.Elts {
								if bl, ok := el.(*ast.BasicLit); ok {
									dflt = append(dflt, bl.Value)
								}
							}
						}
					}
				}
			}
			return true
		})
	}
	fmt.Fprintf(&e.w, "def ipToBytes_sep : String := %s\ndef ipToBytes_count : Int := %d\ndef ipToBytes_bound : Int := %d\ndef ipToBytes_mask : Int := %d\ndef ipToBytes_default : List Nat := [%s]\n\n",
		leanStr(sep), count, bound, mask, strings.Join(dflt, ", "))
}

// wrapCall: a function whose body is the single statement `return G(a1, …, an)`.  Emits
// `def wrapcall_F : String × List String := (G, [text of a1, …])` where parameters are written #0, #1, … (positional, so a
// rename is invisible), constant expressions are written as the decimal value Go's type checker computed, and everything
// else is the source text.  Any other body gives ("?", []).
func (e *emitter) wrapCall(u *unit, name string) {
	callee, args := "?", []string{}
	if fd := u.fn(name); fd != nil && fd.Body != nil && len(fd.Body.List) == 1 {
		if rs, ok := fd.Body.List[0].(*ast.ReturnStmt); ok && len(rs.Results) == 1 {
			if c, ok := rs.Results[0].(*ast.CallExpr); ok {
				if id, ok := c.Fun.(*ast.Ident); ok {
					callee = id.Name
					pos := map[string]int{}
					k := 0
					if fd.Type.Params != nil {
						for _, fl := range fd.Type.Params.List {
							for _, n := range fl.Names {
								pos[n.Name] = k
								k++
							}
						}
					}
					for _, a := range c.Args {
						if v, ok := constInt(u.info.Types[a]); ok {
							args = append(args, v.String())
							continue
						}
						var renamed []*ast.Ident
						var olds []string
						ast.Inspect(a, func(n ast.Node) bool {
							if id, ok := n.(*ast.Ident); ok {
								if p, ok := pos[id.Name]; ok && id.Obj != nil && id.Obj.Kind == ast.Var {
									renamed = append(renamed, id)
									olds = append(olds, id.Name)
									id.Name = fmt.Sprintf("#%d", p)
								}
							}
							return true
						})
						args = append(args, types.ExprString(a))
						for i, id := range renamed {
							id.Name = olds[i]
						}
					}
				}
			}
		}
	}
	fmt.Fprintf(&e.w, "def wrapcall_%s : String × List String := (%s, [%s])\n", name, leanStr(callee), quoteAll(args))
}

// ---------------------------------------------------------------- hidden state

// name of the receiver type of a method
func recvType(fd *ast.FuncDecl) string {
	if fd.Recv == nil || len(fd.Recv.List) == 0 {
		return ""
	}
	t := fd.Recv.List[0].Type
	if s, ok := t.(*ast.StarExpr); ok {
		t = s.X
	}
	if id, ok := t.(*ast.Ident); ok {
		return id.Name
	}
	return "?recv"
}


// stateScan (same scan as xlate/c02): the package-level `var`s of a package and, per function, which of them
// its body mentions and whether it writes them (assignment, ++/--, &x, append/copy/delete, method call on it)
func stateScan(repo, dir string, only string) (vars []string, refs [][2]string) {
	fset := token.NewFileSet()
	pkgs, err := parser.ParseDir(fset, filepath.Join(repo, dir), func(fi os.FileInfo) bool {
		return !strings.HasSuffix(fi.Name(), "_test.go") && (only == "" || fi.Name() == only)
	}, 0)
	if err != nil {
		return []string{"?parse"}, nil
	}
	isVar := map[string]bool{}
	var files []*ast.File
	for _, p := range pkgs {
		var names []string
		for n := range p.Files {
			names = append(names, n)
		}
		sort.Strings(names)
		for _, n := range names {
			files = append(files, p.Files[n])
		}
	}
	for _, f := range files {
		for _, d := range f.Decls {
			if gd, ok := d.(*ast.GenDecl); ok && gd.Tok == token.VAR {
				for _, sp := range gd.Specs {
					for _, n := range sp.(*ast.ValueSpec).Names {
						if n.Name != "_" {
							isVar[n.Name] = true
							vars = append(vars, n.Name)
						}
					}
				}
			}
		}
	}
	sort.Strings(vars)
	pkgLevel := func(id *ast.Ident) bool {
		if !isVar[id.Name] {
			return false
		}
		if id.Obj == nil {
			return true // declared in another file of the package
		}
		if vs, ok := id.Obj.Decl.(*ast.ValueSpec); ok {
			for _, f := range files {
				for _, d := range f.Decls {
					if gd, ok := d.(*ast.GenDecl); ok {
						for _, sp := range gd.Specs {
							if sp == ast.Spec(vs) {
								return true
							}
						}
					}
				}
			}
		}
		return false
	}
	rootIdent := func(e ast.Expr) *ast.Ident {
		for {
			switch x := e.(type) {
			case *ast.Ident:
				return x
			case *ast.IndexExpr:
				e = x.X
			case *ast.SelectorExpr:
				e = x.X
			case *ast.StarExpr:
				e = x.X
			case *ast.ParenExpr:
				e = x.X
			case *ast.SliceExpr:
				e = x.X
			default:
				return nil
			}
		}
	}
	for _, f := range files {
		for _, d := range f.Decls {
			fd, ok := d.(*ast.FuncDecl)
			if !ok || fd.Body == nil {
				continue
			}
			name := fd.Name.Name
			if rt := recvType(fd); rt != "" {
				name = rt + "." + name
			}
			written := map[string]bool{}
			read := map[string]bool{}
			selNames := map[*ast.Ident]bool{}
			ast.Inspect(fd.Body, func(n ast.Node) bool {
				switch x := n.(type) {
				case *ast.SelectorExpr:
					selNames[x.Sel] = true
				case *ast.KeyValueExpr:
					if id, ok := x.Key.(*ast.Ident); ok {
						selNames[id] = true // struct literal field name
					}
				case *ast.AssignStmt:
					for _, l := range x.Lhs {
						if id := rootIdent(l); id != nil && pkgLevel(id) {
							written[id.Name] = true
						}
					}
				case *ast.IncDecStmt:
					if id := rootIdent(x.X); id != nil && pkgLevel(id) {
						written[id.Name] = true
					}
				case *ast.UnaryExpr:
					if x.Op == token.AND {
						if id := rootIdent(x.X); id != nil && pkgLevel(id) {
							written[id.Name] = true
						}
					}
				case *ast.CallExpr:
					if fn, ok := x.Fun.(*ast.Ident); ok && (fn.Name == "append" || fn.Name == "copy" || fn.Name == "delete") && len(x.Args) > 0 {
						if id := rootIdent(x.Args[0]); id != nil && pkgLevel(id) {
							written[id.Name] = true
						}
					}
					// a method called on a package-level variable (mutex, map wrapper, buffer) may change it
					if sel, ok := x.Fun.(*ast.SelectorExpr); ok {
						if id := rootIdent(sel.X); id != nil && pkgLevel(id) {
							written[id.Name] = true
						}
					}
				}
				return true
			})
			ast.Inspect(fd.Body, func(n ast.Node) bool {
				if id, ok := n.(*ast.Ident); ok && !selNames[id] && pkgLevel(id) {
					read[id.Name] = true
				}
				return true
			})
			var names []string
			for v := range read {
				names = append(names, v)
			}
			sort.Strings(names)
			for _, v := range names {
				k := "r"
				if written[v] {
					k = "w"
				}
				refs = append(refs, [2]string{name, k + ":" + v})
			}
		}
	}
	sort.Slice(refs, func(i, j int) bool {
		if refs[i][0] != refs[j][0] {
			return refs[i][0] < refs[j][0]
		}
		return refs[i][1] < refs[j][1]
	})
	return
}


// argScan: what a function does with the memory behind its slice parameters.  Per function of the given
// files: the set D of names that may alias a slice parameter (the parameters of type []T / ...T themselves, and
// every local assigned from a name in D, from a slice expression of one, or from append(<D>, …) — fixpoint);
// then
//   writes: "store" d[i] = … / d[i] op= … / d[i]++ ; "append" append(d…, …) (writes into spare capacity of the
//           caller's array); "copy" copy(d…, …); "addr" &d[i]; "range-store" is covered by "store"
//   passes: a call (other than len/cap/string/conversions/append/copy) that receives a name in D or a slice
//           expression of one: (function, "local", F) when F is a function declared in the scanned files,
//           else (function, "extern", text of the callee)
func argScan(repo, dir string, only string) (writes [][3]string, passes [][3]string) {
	fset := token.NewFileSet()
	pkgs, err := parser.ParseDir(fset, filepath.Join(repo, dir), func(fi os.FileInfo) bool {
		return !strings.HasSuffix(fi.Name(), "_test.go") && (only == "" || fi.Name() == only)
	}, 0)
	if err != nil {
		return [][3]string{{"?parse", "?", "?"}}, nil
	}
	var files []*ast.File
	for _, p := range pkgs {
		var names []string
		for n := range p.Files {
			names = append(names, n)
		}
		sort.Strings(names)
		for _, n := range names {
			files = append(files, p.Files[n])
		}
	}
	localFn := map[string]bool{}
	for _, f := range files {
		for _, d := range f.Decls {
			if fd, ok := d.(*ast.FuncDecl); ok && fd.Recv == nil {
				localFn[fd.Name.Name] = true
			}
		}
	}
	strip := func(e ast.Expr) ast.Expr {
		for {
			p, ok := e.(*ast.ParenExpr)
			if !ok {
				return e
			}
			e = p.X
		}
	}
	// root of d, d[a:b], (d)[a:b][c:d]
	var sliceRoot func(e ast.Expr) *ast.Ident
	sliceRoot = func(e ast.Expr) *ast.Ident {
		switch x := strip(e).(type) {
		case *ast.Ident:
			return x
		case *ast.SliceExpr:
			return sliceRoot(x.X)
		}
		return nil
	}
	exprText := func(e ast.Expr) string {
		var parts []string
		for {
			switch x := e.(type) {
			case *ast.Ident:
				parts = append([]string{x.Name}, parts...)
				return strings.Join(parts, ".")
			case *ast.SelectorExpr:
				parts = append([]string{x.Sel.Name}, parts...)
				e = x.X
			default:
				return "?" + strings.Join(parts, ".")
			}
		}
	}
	for _, f := range files {
		for _, d := range f.Decls {
			fd, ok := d.(*ast.FuncDecl)
			if !ok || fd.Body == nil {
				continue
			}
			name := fd.Name.Name
			if rt := recvType(fd); rt != "" {
				name = rt + "." + name
			}
			D := map[string]bool{}
			if fd.Type.Params != nil {
				for _, fl := range fd.Type.Params.List {
					isSlice := false
					switch t := fl.Type.(type) {
					case *ast.ArrayType:
						isSlice = t.Len == nil
					case *ast.Ellipsis:
						isSlice = true
					}
					if isSlice {
						for _, n := range fl.Names {
							D[n.Name] = true
						}
					}
				}
			}
			if len(D) == 0 {
				continue
			}
			derives := func(e ast.Expr) bool {
				if id := sliceRoot(e); id != nil && D[id.Name] {
					return true
				}
				if c, ok := strip(e).(*ast.CallExpr); ok {
					if fn, ok := c.Fun.(*ast.Ident); ok && fn.Name == "append" && len(c.Args) > 0 {
						if id := sliceRoot(c.Args[0]); id != nil && D[id.Name] {
							return true
						}
					}
				}
				return false
			}
			for changed := true; changed; {
				changed = false
				ast.Inspect(fd.Body, func(n ast.Node) bool {
					switch x := n.(type) {
					case *ast.AssignStmt:
						if len(x.Lhs) == len(x.Rhs) {
							for i := range x.Lhs {
								if id, ok := x.Lhs[i].(*ast.Ident); ok && id.Name != "_" && !D[id.Name] && derives(x.Rhs[i]) {
									D[id.Name] = true
									changed = true
								}
							}
						}
					case *ast.ValueSpec:
						if len(x.Names) == len(x.Values) {
							for i := range x.Names {
								if !D[x.Names[i].Name] && derives(x.Values[i]) {
									D[x.Names[i].Name] = true
									changed = true
								}
							}
						}
					}
					return true
				})
			}
			elemOf := func(e ast.Expr) *ast.Ident { // d[i] / d[a:b][i]
				if ix, ok := strip(e).(*ast.IndexExpr); ok {
					if id := sliceRoot(ix.X); id != nil && D[id.Name] {
						return id
					}
				}
				return nil
			}
			ast.Inspect(fd.Body, func(n ast.Node) bool {
				switch x := n.(type) {
				case *ast.AssignStmt:
					for _, l := range x.Lhs {
						if id := elemOf(l); id != nil {
							writes = append(writes, [3]string{name, "store", id.Name})
						}
					}
				case *ast.IncDecStmt:
					if id := elemOf(x.X); id != nil {
						writes = append(writes, [3]string{name, "store", id.Name})
					}
				case *ast.RangeStmt:
					for _, kv := range []ast.Expr{x.Key, x.Value} {
						if kv != nil {
							if id := elemOf(kv); id != nil {
								writes = append(writes, [3]string{name, "store", id.Name})
							}
						}
					}
				case *ast.UnaryExpr:
					if x.Op == token.AND {
						if id := elemOf(x.X); id != nil {
							writes = append(writes, [3]string{name, "addr", id.Name})
						}
					}
				case *ast.CallExpr:
					if fn, ok := x.Fun.(*ast.Ident); ok {
						switch fn.Name {
						case "append", "copy":
							if len(x.Args) > 0 {
								if id := sliceRoot(x.Args[0]); id != nil && D[id.Name] {
									writes = append(writes, [3]string{name, fn.Name, id.Name})
								}
							}
							return true
						case "len", "cap", "string":
							return true
						}
					}
					if _, ok := x.Fun.(*ast.ArrayType); ok { // conversion []T(x)
						return true
					}
					for _, a := range x.Args {
						if id := sliceRoot(a); id != nil && D[id.Name] {
							kind := "extern"
							if fn, ok := x.Fun.(*ast.Ident); ok && localFn[fn.Name] {
								kind = "local"
							}
							passes = append(passes, [3]string{name, kind, exprText(x.Fun)})
						}
					}
				}
				return true
			})
		}
	}
	less := func(a, b [3]string) bool {
		for k := 0; k < 3; k++ {
			if a[k] != b[k] {
				return a[k] < b[k]
			}
		}
		return false
	}
	sort.Slice(writes, func(i, j int) bool { return less(writes[i], writes[j]) })
	sort.Slice(passes, func(i, j int) bool { return less(passes[i], passes[j]) })
	return
}

// ---------------------------------------------------------------- main

func main() {
	repo := flag.String("repo", "/repo", "repository root")
	out := flag.String("out", "", "output Lean file")
	ns := flag.String("ns", "Gen.C15", "Lean namespace of the output")
	flag.Parse()
	e := &emitter{}
	e.w.WriteString("/- generated by xlate/c15 from the Go source (util/hash, util/hexa32, util/hll, util/bitutil, util/iputil, util/stringutil) — do not edit -/\nimport Golib.Hash.GoSem\n\nnamespace " + *ns + "\n\n")

	// ---- util/hash
	hu := load(*repo, "util/hash/HashUtil.go", nil)
	fmt.Fprintf(&e.w, "/-- `var table` of util/hash/HashUtil.go -/\ndef crcTable : List Nat := %s\n\n", intList(hu.pkgVarLits("table"), 8))
	for _, fn := range []string{"Hash", "Hash64", "Hash64v2", "Hash64V2"} {
		e.loopFn(hu, fn, "loop_"+fn, false)
	}
	e.fn(hu, "HashAddr", "fn_HashAddr")
	e.fn(hu, "ToInt", "fn_ToInt")
	e.fn(hu, "ToLong", "fn_ToLong")
	for _, fn := range []string{"HashStr", "Hash64Str", "Hash64StrV2", "GetLongHash"} {
		e.wrapper(hu, fn)
	}
	e.w.WriteString("\n")

	// ---- stringutil.HashCode
	su := load(*repo, "util/stringutil/StringUtil.go", []string{"HashCode"})
	e.loopFn(su, "HashCode", "loop_HashCode", true)

	// ---- util/hexa32
	xu := load(*repo, "util/hexa32/Hexa32.go", nil)
	fmt.Fprintf(&e.w, "/-- `var digits` of util/hexa32/Hexa32.go (byte values) -/\ndef digits : List Nat := %s\n\n", intList(xu.pkgVarLits("digits"), 12))
	p, ok := xu.pkgConst("PLUS")
	e.optConst("plusChar", p, ok, "Nat")
	m, ok := xu.pkgConst("MINUS")
	e.optConst("minusChar", m, ok, "Nat")
	fmt.Fprintf(&e.w, "def toString32Texts : List String := [%s]\n", quoteAll(stringLits(xu.fn("ToString32"))))
	fmt.Fprintf(&e.w, "def toLong32Texts : List String := [%s]\n\n", quoteAll(stringLits(xu.fn("ToLong32"))))
	e.toStr(xu)
	e.toLong(xu)
	e.encTree(xu, "ToString32", "tree_ToString32")
	e.decTree(xu, "ToLong32", "tree_ToLong32")

	// ---- util/hll
	mu := load(*repo, "util/hll/MurmurHash.go", nil)
	e.loopFn(mu, "murmurHash", "loop_murmurHash", true)
	e.loopFn(mu, "murmurHashLong", "loop_murmurHashLong", true)
	e.fn(mu, "MurmurHashLong", "fn_MurmurHashLong")
	// the exported one-line wrappers `return G(args)`: callee and arguments (parameters as #k, constants by value)
	for _, fn := range []string{"MurmurHash", "MurmurHashByte", "MurmurHashByteSeed", "MurmurHashLongByte"} {
		e.wrapCall(mu, fn)
	}
	for _, fn := range []string{"MurmurHashByte", "MurmurHashLongByte"} {
		var seed *big.Int
		if fd := mu.fn(fn); fd != nil {
			ast.Inspect(fd.Body, func(n ast.Node) bool {
				if c, ok := n.(*ast.CallExpr); ok && len(c.Args) == 3 && seed == nil {
					if v, ok := constInt(mu.info.Types[c.Args[2]]); ok {
						seed = v
					}
				}
				return true
			})
		}
		e.optConst("murmur_"+fn+"_seed", seed, seed != nil, "Nat")
	}
	e.w.WriteString("\n")

	// ---- util/bitutil
	bu := load(*repo, "util/bitutil/BitUtil.go", nil)
	for _, fn := range []string{"Composite64", "Composite32", "Composite16", "SetHigh64", "SetLow64",
		"GetHigh64", "GetLow64", "GetHigh32", "GetLow32", "GetHigh16", "GetLow16"} {
		e.fn(bu, fn, "fn_"+fn)
	}

	// ---- util/iputil
	e.ipShape(*repo)

	// ---- hidden state: package-level variables and who touches them
	{
		var pvs, rws []string
		for _, d := range [][2]string{{"util/hash", ""}, {"util/hexa32", ""}, {"util/bitutil", ""}, {"util/iputil", ""},
			{"util/stringutil", "StringUtil.go"}, {"util/hll", "MurmurHash.go"}} {
			vars, refs := stateScan(*repo, d[0], d[1])
			var qs []string
			for _, v := range vars {
				qs = append(qs, leanStr(v))
			}
			pvs = append(pvs, fmt.Sprintf("(%s, [%s])", leanStr(d[0]), strings.Join(qs, ", ")))
			for _, r := range refs {
				rws = append(rws, fmt.Sprintf("(%s, %s, %s, %s)", leanStr(d[0]), leanStr(r[0]), leanStr(r[1][:1]), leanStr(r[1][2:])))
			}
		}
		fmt.Fprintf(&e.w, "/-- package-level `var`s per package, and per function the package-level vars its body mentions\n    (r: read only, w: assigned / incremented / address taken / appended to / method called on it) -/\n")
		fmt.Fprintf(&e.w, "def pkgVars : List (String × List String) :=\n  [%s]\n\n", strings.Join(pvs, ",\n   "))
		fmt.Fprintf(&e.w, "def stateRefs : List (String × String × String × String) :=\n  [%s]\n\n", strings.Join(rws, ",\n   "))
	}
	// ---- the caller's memory: what each function does with the arrays behind its slice parameters
	{
		var ws, ps []string
		for _, d := range [][2]string{{"util/hash", ""}, {"util/hexa32", ""}, {"util/bitutil", ""}, {"util/iputil", ""},
			{"util/stringutil", "StringUtil.go"}, {"util/hll", "MurmurHash.go"}} {
			writes, passes := argScan(*repo, d[0], d[1])
			for _, r := range writes {
				ws = append(ws, fmt.Sprintf("(%s, %s, %s, %s)", leanStr(d[0]), leanStr(r[0]), leanStr(r[1]), leanStr(r[2])))
			}
			for _, r := range passes {
				ps = append(ps, fmt.Sprintf("(%s, %s, %s, %s)", leanStr(d[0]), leanStr(r[0]), leanStr(r[1]), leanStr(r[2])))
			}
		}
		fmt.Fprintf(&e.w, "/-- (package, function, kind, name): the function writes through a name that may alias one of its slice parameters\n    (store d[i] = …, append(d…, …) into the caller's spare capacity, copy(d…, …), &d[i]) -/\n")
		fmt.Fprintf(&e.w, "def argWrites : List (String × String × String × String) :=\n  [%s]\n\n", strings.Join(ws, ",\n   "))
		fmt.Fprintf(&e.w, "/-- (package, function, kind, callee): the function hands (a slice of) a slice parameter to `callee`\n    (kind `local` = declared in the scanned files of the same package, `extern` = anything else) -/\n")
		fmt.Fprintf(&e.w, "def argPasses : List (String × String × String × String) :=\n  [%s]\n\n", strings.Join(ps, ",\n   "))
	}
	fmt.Fprintf(&e.w, "def unknownCount : Nat := %d\n\nend %s\n", unknownCount, *ns)
	if err := os.WriteFile(*out, []byte(e.w.String()), 0o644); err != nil {
		die("%v", err)
	}
	_ = sort.Strings
}

// to_str: `for i = -i; i <= (-radix); i = i / radix { buf[charPos] = digits[…]; charPos-- }  buf[charPos] = digits[int(-i)]`
func (e *emitter) toStr(u *unit) {
	fd := u.fn("to_str")
	name := "loop_to_str"
	if fd == nil {
		fmt.Fprintf(&e.w, "def %s.body : List GoSem.Stmt := [.unknown 0]\n\n", name)
		return
	}
	st := newSymtab()
	paramSyms(fd, st, u)
	t := &tr{u, st}
	loop, at, list := firstFor(fd)
	_, _, _ = numberLoopFn(fd, loop, st)
	if loop == nil || loop.Init == nil || loop.Post == nil || loop.Cond == nil {
		fmt.Fprintf(&e.w, "def %s.body : List GoSem.Stmt := [.unknown 0]\n\n", name)
		return
	}
	skipMake := func(s ast.Stmt) bool { // `buf := make([]byte, 65)`: the buffer itself is not arithmetic
		if as, ok := s.(*ast.AssignStmt); ok && len(as.Rhs) == 1 {
			if c, ok := as.Rhs[0].(*ast.CallExpr); ok {
				if id, ok := c.Fun.(*ast.Ident); ok && id.Name == "make" {
					return true
				}
			}
		}
		_, isRet := s.(*ast.ReturnStmt) // `return string(buf[charPos:65])`
		return isRet
	}
	fmt.Fprintf(&e.w, "def %s.pre : List GoSem.Stmt := %s\n", name, block(t.stmts(list[:at], "", skipMake)))
	fmt.Fprintf(&e.w, "def %s.init : List GoSem.Stmt := %s\n", name, block(t.stmts([]ast.Stmt{loop.Init}, "", nil)))
	fmt.Fprintf(&e.w, "def %s.cond : GoSem.Cond := %s\n", name, t.cond(loop.Cond))
	fmt.Fprintf(&e.w, "def %s.post : List GoSem.Stmt := %s\n", name, block(t.stmts([]ast.Stmt{loop.Post}, "", nil)))
	fmt.Fprintf(&e.w, "def %s.body : List GoSem.Stmt := %s\n", name, block(t.stmts(loop.Body.List, "", nil)))
	fmt.Fprintf(&e.w, "def %s.after : List GoSem.Stmt := %s\n", name, block(t.stmts(list[at+1:], "", skipMake)))
	e.syms(name, st)
}

// to_long: prelude (result, limit, multmin), findc closure, loop body (digit := findc(…) left out: digit is an input),
// final `return -result`
func (e *emitter) toLong(u *unit) {
	fd := u.fn("to_long")
	name := "loop_to_long"
	if fd == nil {
		fmt.Fprintf(&e.w, "def %s.body : List GoSem.Stmt := [.unknown 0]\n\n", name)
		return
	}
	st := newSymtab()
	paramSyms(fd, st, u)
	t := &tr{u, st}
	loop, at, list := firstFor(fd)
	_, _, _ = numberLoopFn(fd, loop, st)
	if loop == nil {
		fmt.Fprintf(&e.w, "def %s.body : List GoSem.Stmt := [.unknown 0]\n\n", name)
		return
	}
	var findc *ast.FuncLit
	findcName := ""
	skipPre := func(s ast.Stmt) bool {
		if as, ok := s.(*ast.AssignStmt); ok && len(as.Rhs) == 1 && isLenCall(as.Rhs[0]) {
			return true // `sz := len(s)`: the loop over the characters is `GoBridge.goToLong`
		}
		if as, ok := s.(*ast.AssignStmt); ok && len(as.Rhs) == 1 {
			if fl, ok := as.Rhs[0].(*ast.FuncLit); ok {
				findc = fl
				if id, ok := as.Lhs[0].(*ast.Ident); ok {
					findcName = id.Name
				}
				return true
			}
		}
		return false
	}
	fmt.Fprintf(&e.w, "def %s.pre : List GoSem.Stmt := %s\n", name, block(t.stmts(list[:at], "", skipPre)))
	skipDigit := func(s ast.Stmt) bool { // `digit := findc(int(s[i]))`
		if as, ok := s.(*ast.AssignStmt); ok && len(as.Rhs) == 1 {
			if c, ok := as.Rhs[0].(*ast.CallExpr); ok {
				if id, ok := c.Fun.(*ast.Ident); ok && id.Name == findcName && findcName != "" {
					st.id(as.Lhs[0].(*ast.Ident).Name)
					return true
				}
			}
		}
		return false
	}
	fmt.Fprintf(&e.w, "def %s.body : List GoSem.Stmt := %s\n", name, block(t.stmts(loop.Body.List, "", skipDigit)))
	fmt.Fprintf(&e.w, "def %s.after : List GoSem.Stmt := %s\n", name, block(t.stmts(list[at+1:], "", nil)))
	{
		hdr := headerText(fd, st)
		fmt.Fprintf(&e.w, "def %s.header : List String := [%s, %s, %s]\n", name, leanStr(hdr(loop.Init)), leanStr(hdr(loop.Cond)), leanStr(hdr(loop.Post)))
	}
	e.syms(name, st)
	// the closure
	if findc != nil && findc.Type.Results != nil && len(findc.Type.Params.List) == 1 {
		fst := newSymtab()
		var ps []string
		for _, n := range findc.Type.Params.List[0].Names {
			if ty, ok := tyOf(u.info.TypeOf(n)); ok {
				ps = append(ps, fmt.Sprintf("(%d, %s)", fst.id(n.Name), ty))
			}
		}
		ft := &tr{u, fst}
		fmt.Fprintf(&e.w, "def fn_findc : GoSem.Fn :=\n  { params := [%s], result := .i64, body := %s }\n\n", strings.Join(ps, ", "), block(ft.stmts(findc.Body.List, "", nil)))
	} else {
		fmt.Fprintf(&e.w, "def fn_findc : GoSem.Fn := { params := [], result := .i64, body := [.unknown 0] }\n\n")
	}
}
