module verif/xlate/c01

go 1.23
