// xlate/c01 — tie A for property C01.
//
// Transcribes facts of /repo/io/DataOutputX.go and DataInputX.go into Lean data
// (lean/Golib/Gen/C01.lean).  It never judges: the obligations over these data are
// in lean/Golib/Props/C01Gen.lean.  A shape it does not recognise is emitted as an
// `unknown` entry, which makes the obligations fail (never silently skipped).
//
// Facts:
//
//	putShifts   for ToBytesX / SetBytesX : the list of (byte index, right shift) of `buf[i] = byte(v >> s)`
//	getTerms    for ToX (readers)        : after symbolic evaluation of the straight-line body, the list of
//	                                       (byte index, left shift, signExtendedByte) summands and a final
//	                                       arithmetic right shift (ToInt3)
//	decimalW    WriteDecimal switch      : (lo, hi, length byte, payload width) per case, in order
//	decimalR    ReadDecimal switch       : (length byte, payload width) per case, default width
//	blobW/blobR thresholds and markers of WriteBlob / ReadBlob
//	arrays      per WriteXArray/ReadXArray: count writer/reader and element writer/reader names
//	written     how WriteBytes / WriteByte / Write update the `written` counter
//	primReaders per ReadX of one fixed-width field: (bytes asked of ReadBytes, the expression returned)
//	primWriters per WriteX of one fixed-width field: the expression handed to WriteBytes
//	readBytes   the statements of ReadBytes (buffer guard, connection loop) as normalised source text
package main

import (
	"bytes"
	"flag"
	"fmt"
	"go/ast"
	"go/parser"
	"go/printer"
	"go/token"
	"os"
	"path/filepath"
	"sort"
	"strconv"
	"strings"
)

var fset = token.NewFileSet()

func parse(path string) *ast.File {
	f, err := parser.ParseFile(fset, path, nil, 0)
	if err != nil {
		fmt.Fprintln(os.Stderr, err)
		os.Exit(1)
	}
	return f
}

func funcs(f *ast.File) map[string]*ast.FuncDecl {
	m := map[string]*ast.FuncDecl{}
	for _, d := range f.Decls {
		if fd, ok := d.(*ast.FuncDecl); ok && fd.Body != nil {
			name := fd.Name.Name
			if fd.Recv != nil {
				name = "m." + name
			}
			m[name] = fd
		}
	}
	return m
}

func consts(f *ast.File, into map[string]string) {
	for _, d := range f.Decls {
		gd, ok := d.(*ast.GenDecl)
		if !ok || gd.Tok != token.CONST {
			continue
		}
		for _, s := range gd.Specs {
			vs := s.(*ast.ValueSpec)
			for i, n := range vs.Names {
				if i < len(vs.Values) {
					if v, ok := intOf(vs.Values[i], into); ok {
						into[n.Name] = v
					}
				}
			}
		}
	}
}

var mathConsts = map[string]string{
	"math.MinInt8": "-128", "math.MaxInt8": "127", "math.MinInt16": "-32768", "math.MaxInt16": "32767",
	"math.MinInt32": "-2147483648", "math.MaxInt32": "2147483647",
	"math.MinInt64": "-9223372036854775808", "math.MaxInt64": "9223372036854775807",
}

// intOf evaluates an integer constant expression to its decimal text.
func intOf(e ast.Expr, env map[string]string) (string, bool) {
	switch x := e.(type) {
	case *ast.BasicLit:
		if x.Kind == token.INT {
			v, err := strconv.ParseInt(x.Value, 0, 64)
			if err != nil {
				u, err2 := strconv.ParseUint(x.Value, 0, 64)
				if err2 != nil {
					return "", false
				}
				return strconv.FormatUint(u, 10), true
			}
			return strconv.FormatInt(v, 10), true
		}
	case *ast.ParenExpr:
		return intOf(x.X, env)
	case *ast.UnaryExpr:
		if x.Op == token.SUB {
			if v, ok := intOf(x.X, env); ok {
				if strings.HasPrefix(v, "-") {
					return v[1:], true
				}
				return "-" + v, true
			}
		}
	case *ast.Ident:
		if v, ok := env[x.Name]; ok {
			return v, true
		}
	case *ast.SelectorExpr:
		if id, ok := x.X.(*ast.Ident); ok {
			if v, ok := mathConsts[id.Name+"."+x.Sel.Name]; ok {
				return v, true
			}
		}
	}
	return "", false
}

// ---- buf[off+k] index → k
func idxOf(e ast.Expr) (int, bool) {
	switch x := e.(type) {
	case *ast.BasicLit:
		n, err := strconv.Atoi(x.Value)
		return n, err == nil
	case *ast.Ident: // off / pos
		return 0, true
	case *ast.BinaryExpr:
		if x.Op == token.ADD {
			if _, ok := x.X.(*ast.Ident); ok {
				if l, ok := x.Y.(*ast.BasicLit); ok {
					n, err := strconv.Atoi(l.Value)
					return n, err == nil
				}
			}
		}
	}
	return 0, false
}

// putShifts: statements `buf[i] = byte(v >> s)`
func putShifts(fd *ast.FuncDecl) (string, bool) {
	var out []string
	for _, st := range fd.Body.List {
		as, ok := st.(*ast.AssignStmt)
		if !ok || len(as.Lhs) != 1 {
			continue
		}
		ix, ok := as.Lhs[0].(*ast.IndexExpr)
		if !ok {
			continue
		}
		if as.Tok != token.ASSIGN {
			return "", false
		}
		i, ok := idxOf(ix.Index)
		if !ok {
			return "", false
		}
		call, ok := as.Rhs[0].(*ast.CallExpr)
		if !ok || len(call.Args) != 1 {
			return "", false
		}
		if id, ok := call.Fun.(*ast.Ident); !ok || id.Name != "byte" {
			return "", false
		}
		be, ok := call.Args[0].(*ast.BinaryExpr)
		if !ok || be.Op != token.SHR {
			return "", false
		}
		if id, ok := be.X.(*ast.Ident); !ok || id.Name != "v" {
			return "", false
		}
		s, ok := intOf(be.Y, nil)
		if !ok {
			return "", false
		}
		out = append(out, fmt.Sprintf("(%d, %s)", i, s))
	}
	if len(out) == 0 {
		return "", false
	}
	return "[" + strings.Join(out, ", ") + "]", true
}

// ---- symbolic evaluation of the readers
type summand struct {
	idx, shl int
	sext     bool // byte went through int8 (sign extended)
}
type term struct {
	sum []summand
	shr int // final arithmetic right shift
	ok  bool
}

func evalTerm(e ast.Expr, env map[string]term) term {
	switch x := e.(type) {
	case *ast.ParenExpr:
		return evalTerm(x.X, env)
	case *ast.Ident:
		if t, ok := env[x.Name]; ok {
			return t
		}
	case *ast.IndexExpr:
		if i, ok := idxOf(x.Index); ok {
			return term{sum: []summand{{idx: i}}, ok: true}
		}
	case *ast.CallExpr: // conversions
		if len(x.Args) == 1 {
			name := ""
			switch f := x.Fun.(type) {
			case *ast.Ident:
				name = f.Name
			case *ast.ParenExpr:
				if id, ok := f.X.(*ast.Ident); ok {
					name = id.Name
				}
			}
			t := evalTerm(x.Args[0], env)
			if !t.ok {
				return term{}
			}
			switch name {
			case "int8":
				if len(t.sum) == 1 && t.sum[0].shl == 0 && t.shr == 0 {
					t.sum[0].sext = true
					return t
				}
				return term{}
			case "int16", "int32", "int64", "uint16", "uint32", "uint64", "int":
				return t
			}
		}
	case *ast.BinaryExpr:
		switch x.Op {
		case token.SHL:
			t := evalTerm(x.X, env)
			s, ok := intOf(x.Y, nil)
			if !t.ok || !ok || t.shr != 0 {
				return term{}
			}
			n, _ := strconv.Atoi(s)
			r := term{ok: true}
			for _, m := range t.sum {
				m.shl += n
				r.sum = append(r.sum, m)
			}
			return r
		case token.SHR:
			t := evalTerm(x.X, env)
			s, ok := intOf(x.Y, nil)
			if !t.ok || !ok || t.shr != 0 {
				return term{}
			}
			n, _ := strconv.Atoi(s)
			t.shr = n
			return t
		case token.ADD, token.OR:
			a, b := evalTerm(x.X, env), evalTerm(x.Y, env)
			if !a.ok || !b.ok || a.shr != 0 || b.shr != 0 {
				return term{}
			}
			return term{sum: append(append([]summand{}, a.sum...), b.sum...), ok: true}
		}
	}
	return term{}
}

func getTerms(fd *ast.FuncDecl) (string, bool) {
	env := map[string]term{}
	var res term
	for _, st := range fd.Body.List {
		switch s := st.(type) {
		case *ast.AssignStmt:
			if len(s.Lhs) != 1 || len(s.Rhs) != 1 {
				return "", false
			}
			id, ok := s.Lhs[0].(*ast.Ident)
			if !ok {
				return "", false
			}
			t := evalTerm(s.Rhs[0], env)
			if !t.ok {
				return "", false
			}
			switch s.Tok {
			case token.DEFINE, token.ASSIGN:
				env[id.Name] = t
			case token.ADD_ASSIGN:
				old := env[id.Name]
				if !old.ok || old.shr != 0 || t.shr != 0 {
					return "", false
				}
				env[id.Name] = term{sum: append(append([]summand{}, old.sum...), t.sum...), ok: true}
			default:
				return "", false
			}
		case *ast.ReturnStmt:
			if len(s.Results) != 1 {
				return "", false
			}
			res = evalTerm(s.Results[0], env)
			if !res.ok {
				return "", false
			}
		default:
			return "", false
		}
	}
	if !res.ok {
		return "", false
	}
	sort.SliceStable(res.sum, func(i, j int) bool { return res.sum[i].idx < res.sum[j].idx })
	var parts []string
	for _, m := range res.sum {
		parts = append(parts, fmt.Sprintf("(%d, %d, %v)", m.idx, m.shl, m.sext))
	}
	return fmt.Sprintf("([%s], %d)", strings.Join(parts, ", "), res.shr), true
}

// ---- WriteDecimal / ReadDecimal / WriteBlob / ReadBlob
func widthOfSetter(name string) int {
	switch {
	case strings.Contains(name, "Long5"):
		return 5
	case strings.Contains(name, "Long"):
		return 8
	case strings.Contains(name, "Int3"):
		return 3
	case strings.Contains(name, "Int"):
		return 4
	case strings.Contains(name, "Short"):
		return 2
	case strings.Contains(name, "Byte"):
		return 1
	}
	return -1
}

func calledNames(n ast.Node) []string {
	var out []string
	ast.Inspect(n, func(x ast.Node) bool {
		if c, ok := x.(*ast.CallExpr); ok {
			switch f := c.Fun.(type) {
			case *ast.Ident:
				out = append(out, f.Name)
			case *ast.SelectorExpr:
				out = append(out, f.Sel.Name)
			}
		}
		return true
	})
	return out
}

func decimalW(fd *ast.FuncDecl, env map[string]string) string {
	var out []string
	ast.Inspect(fd.Body, func(n ast.Node) bool {
		sw, ok := n.(*ast.SwitchStmt)
		if !ok {
			return true
		}
		for _, c := range sw.Body.List {
			cc := c.(*ast.CaseClause)
			lo, hi := "0", "0"
			okc := false
			if len(cc.List) == 1 {
				if be, ok := cc.List[0].(*ast.BinaryExpr); ok {
					if be.Op == token.EQL { // v == 0
						if v, ok := intOf(be.Y, env); ok {
							lo, hi, okc = v, v, true
						}
					} else if be.Op == token.LAND { // lo <= v && v <= hi
						l, lok := be.X.(*ast.BinaryExpr)
						r, rok := be.Y.(*ast.BinaryExpr)
						if lok && rok && l.Op == token.LEQ && r.Op == token.LEQ {
							a, ok1 := intOf(l.X, env)
							b, ok2 := intOf(r.Y, env)
							if ok1 && ok2 {
								lo, hi, okc = a, b, true
							}
						}
					}
				}
			}
			// length byte: `b[0] = k` or WriteByte(0); payload width from the setter called
			lenByte, width := "-1", -1
			for _, st := range cc.Body {
				if as, ok := st.(*ast.AssignStmt); ok && len(as.Lhs) == 1 {
					if ix, ok := as.Lhs[0].(*ast.IndexExpr); ok {
						if i, ok := idxOf(ix.Index); ok && i == 0 {
							if v, ok := intOf(as.Rhs[0], env); ok {
								lenByte = v
							}
						}
						if i, ok := idxOf(ix.Index); ok && i == 1 { // b[1] = byte(v)
							width = 1
						}
					}
				}
			}
			for _, nm := range calledNames(&ast.BlockStmt{List: cc.Body}) {
				if strings.HasPrefix(nm, "SetBytes") {
					width = widthOfSetter(nm)
				}
				if nm == "WriteByte" && lenByte == "-1" {
					lenByte, width = "0", 0
				}
			}
			if !okc {
				out = append(out, "(0, 0, 999, 999)")
			} else {
				out = append(out, fmt.Sprintf("(%s, %s, %s, %d)", lo, hi, lenByte, width))
			}
		}
		return false
	})
	return "[" + strings.Join(out, ", ") + "]"
}

func readerWidth(names []string) int {
	for _, nm := range names {
		switch nm {
		case "ReadByte":
			return 1
		case "ReadShort":
			return 2
		case "ReadInt3":
			return 3
		case "ReadInt":
			return 4
		case "ReadLong5":
			return 5
		case "ReadLong":
			return 8
		}
	}
	return -1
}

func decimalR(fd *ast.FuncDecl) string {
	var cases []string
	def := -1
	ast.Inspect(fd.Body, func(n ast.Node) bool {
		sw, ok := n.(*ast.SwitchStmt)
		if !ok {
			return true
		}
		for _, c := range sw.Body.List {
			cc := c.(*ast.CaseClause)
			w := readerWidth(calledNames(&ast.BlockStmt{List: cc.Body}))
			if w == -1 {
				// `return 0`
				for _, st := range cc.Body {
					if r, ok := st.(*ast.ReturnStmt); ok && len(r.Results) == 1 {
						if v, ok := intOf(r.Results[0], nil); ok && v == "0" {
							w = 0
						}
					}
				}
			}
			if cc.List == nil {
				def = w
				continue
			}
			for _, e := range cc.List {
				v, _ := intOf(e, nil)
				cases = append(cases, fmt.Sprintf("(%s, %d)", v, w))
			}
		}
		return false
	})
	return fmt.Sprintf("([%s], %d)", strings.Join(cases, ", "), def)
}

// blobW: thresholds of the if-chain `sz <= a` … and the marker literals []byte{m, 0, 0…}
func blobW(fd *ast.FuncDecl) string {
	var thr, mark []string
	ast.Inspect(fd.Body, func(n ast.Node) bool {
		switch x := n.(type) {
		case *ast.BinaryExpr:
			if x.Op == token.LEQ {
				if id, ok := x.X.(*ast.Ident); ok && id.Name == "sz" {
					if v, ok := intOf(x.Y, nil); ok {
						thr = append(thr, v)
					}
				}
			}
		case *ast.CompositeLit:
			if len(x.Elts) > 1 {
				if v, ok := intOf(x.Elts[0], nil); ok {
					mark = append(mark, fmt.Sprintf("(%s, %d)", v, len(x.Elts)-1))
				}
			}
		}
		return true
	})
	return fmt.Sprintf("([%s], [%s])", strings.Join(thr, ", "), strings.Join(mark, ", "))
}

func blobR(fd *ast.FuncDecl) string {
	var cases []string
	def := "none"
	ast.Inspect(fd.Body, func(n ast.Node) bool {
		sw, ok := n.(*ast.SwitchStmt)
		if !ok {
			return true
		}
		for _, c := range sw.Body.List {
			cc := c.(*ast.CaseClause)
			names := calledNames(&ast.BlockStmt{List: cc.Body})
			kind := "empty"
			for _, nm := range names {
				switch nm {
				case "ReadUnsignedShort":
					kind = "u16"
				case "ReadInt":
					kind = "i32"
				}
			}
			if kind == "empty" {
				for _, nm := range names {
					if nm == "ReadBytes" {
						kind = "self"
					}
				}
			}
			if cc.List == nil {
				def = kind
				continue
			}
			for _, e := range cc.List {
				v, _ := intOf(e, nil)
				cases = append(cases, fmt.Sprintf("(%s, \"%s\")", v, kind))
			}
		}
		return false
	})
	return fmt.Sprintf("([%s], \"%s\")", strings.Join(cases, ", "), def)
}

// arrays: (count fn, element fn)
func arrayFacts(fd *ast.FuncDecl, prefix string) string {
	names := calledNames(fd.Body)
	var rel []string
	for _, n := range names {
		if strings.HasPrefix(n, prefix) {
			rel = append(rel, n)
		}
	}
	return "[" + strings.Join(quoteAll(rel), ", ") + "]"
}
func quoteAll(xs []string) []string {
	o := make([]string, len(xs))
	for i, x := range xs {
		o[i] = strconv.Quote(x)
	}
	return o
}

// written: textual form of the statements that touch out.written
func writtenFacts(fd *ast.FuncDecl) string {
	var out []string
	ast.Inspect(fd.Body, func(n ast.Node) bool {
		switch s := n.(type) {
		case *ast.AssignStmt:
			if sel, ok := s.Lhs[0].(*ast.SelectorExpr); ok && sel.Sel.Name == "written" {
				rhs := ""
				switch r := s.Rhs[0].(type) {
				case *ast.CallExpr:
					if id, ok := r.Fun.(*ast.Ident); ok && id.Name == "len" {
						if a, ok := r.Args[0].(*ast.Ident); ok {
							rhs = "len(" + a.Name + ")"
						}
					}
				case *ast.Ident:
					rhs = r.Name
				}
				out = append(out, s.Tok.String()+rhs)
			}
		case *ast.IncDecStmt:
			if sel, ok := s.X.(*ast.SelectorExpr); ok && sel.Sel.Name == "written" {
				out = append(out, s.Tok.String())
			}
		}
		return true
	})
	return "[" + strings.Join(quoteAll(out), ", ") + "]"
}

// callSeq lists, in source order, the method calls made on the receiver (out.X / in.X) and the
// assignments to its counters, e.g. ["buffer.Reset", "written=0", "WriteByte", …].
func callSeq(fd *ast.FuncDecl) string {
	var out []string
	ast.Inspect(fd.Body, func(n ast.Node) bool {
		switch x := n.(type) {
		case *ast.AssignStmt:
			if len(x.Lhs) == 1 {
				if sel, ok := x.Lhs[0].(*ast.SelectorExpr); ok && sel.Sel.Name == "written" {
					if v, ok := intOf(x.Rhs[0], nil); ok && x.Tok == token.ASSIGN {
						out = append(out, "written="+v)
					}
				}
			}
		case *ast.CallExpr:
			if sel, ok := x.Fun.(*ast.SelectorExpr); ok {
				switch r := sel.X.(type) {
				case *ast.Ident:
					if r.Name == "out" || r.Name == "in" {
						out = append(out, sel.Sel.Name)
					}
				case *ast.SelectorExpr: // out.buffer.Reset()
					if id, ok := r.X.(*ast.Ident); ok && (id.Name == "out" || id.Name == "in") {
						out = append(out, r.Sel.Name+"."+sel.Sel.Name)
					}
				}
			}
		}
		return true
	})
	return "[" + strings.Join(quoteAll(out), ", ") + "]"
}

// src prints a node as one line of normalised source text.
func src(n ast.Node) string {
	var b bytes.Buffer
	printer.Fprint(&b, fset, n)
	return strings.Join(strings.Fields(b.String()), " ")
}

// primReader recognises `if b := in.ReadBytes(K); b != nil { return E }; return Z` and yields (K, E).
func primReader(fd *ast.FuncDecl) (string, bool) {
	if fd.Body == nil || len(fd.Body.List) != 2 {
		return "", false
	}
	ifs, ok := fd.Body.List[0].(*ast.IfStmt)
	if !ok || ifs.Init == nil || ifs.Else != nil || len(ifs.Body.List) != 1 {
		return "", false
	}
	as, ok := ifs.Init.(*ast.AssignStmt)
	if !ok || len(as.Rhs) != 1 || len(as.Lhs) != 1 {
		return "", false
	}
	call, ok := as.Rhs[0].(*ast.CallExpr)
	if !ok || len(call.Args) != 1 || src(call.Fun) != "in.ReadBytes" {
		return "", false
	}
	k, ok := intOf(call.Args[0], nil)
	if !ok || src(ifs.Cond) != src(as.Lhs[0])+" != nil" {
		return "", false
	}
	ret, ok := ifs.Body.List[0].(*ast.ReturnStmt)
	if !ok || len(ret.Results) != 1 {
		return "", false
	}
	if _, ok := fd.Body.List[1].(*ast.ReturnStmt); !ok {
		return "", false
	}
	return fmt.Sprintf("(%s, %q)", k, src(ret.Results[0])), true
}

// primWriter recognises `out.WriteBytes(E); return out` and yields E.
func primWriter(fd *ast.FuncDecl) (string, bool) {
	if fd.Body == nil || len(fd.Body.List) != 2 {
		return "", false
	}
	es, ok := fd.Body.List[0].(*ast.ExprStmt)
	if !ok {
		return "", false
	}
	call, ok := es.X.(*ast.CallExpr)
	if !ok || len(call.Args) != 1 || src(call.Fun) != "out.WriteBytes" {
		return "", false
	}
	if src(fd.Body.List[1]) != "return out" {
		return "", false
	}
	return fmt.Sprintf("%q", src(call.Args[0])), true
}

// stmts lists the statements of a body, nested ones included, as normalised text: a compound
// statement contributes its header (`if c`, `for c`, `else`) followed by its parts.
func stmts(b *ast.BlockStmt) []string {
	var out []string
	var walk func(s ast.Stmt)
	walk = func(s ast.Stmt) {
		switch x := s.(type) {
		case *ast.BlockStmt:
			for _, y := range x.List {
				walk(y)
			}
		case *ast.IfStmt:
			h := "if "
			if x.Init != nil {
				h += src(x.Init) + "; "
			}
			out = append(out, h+src(x.Cond)+" {")
			walk(x.Body)
			if x.Else != nil {
				out = append(out, "} else {")
				walk(x.Else)
			}
			out = append(out, "}")
		case *ast.ForStmt:
			h := "for "
			if x.Init != nil || x.Post != nil {
				h += src(x.Init) + "; " + src(x.Cond) + "; " + src(x.Post)
			} else if x.Cond != nil {
				h += src(x.Cond)
			}
			out = append(out, h+" {")
			walk(x.Body)
			out = append(out, "}")
		default:
			t := src(s)
			if strings.HasPrefix(t, "panic(") {
				t = "panic"
			}
			out = append(out, t)
		}
	}
	walk(b)
	return out
}

// arrayReader recognises the body of a Read*Array method
//
//	sz := int(in.<Count>())
//	[if sz == 0 { return []T{} }]
//	[in.CheckCount(sz, K)]
//	v := make([]T, sz)
//	for i := 0; i < sz; i++ { v[i] = [T(]in.<Elem>()[)] }
//	return v
//
// and returns (count reader, zero shortcut, K (0 = no guard), element reader, element conversion).
func arrayReader(fd *ast.FuncDecl) (string, bool) {
	if fd.Body == nil {
		return "", false
	}
	b := fd.Body.List
	recvCall := func(e ast.Expr) (string, bool) { // in.X() with no arguments
		c, ok := e.(*ast.CallExpr)
		if !ok || len(c.Args) != 0 {
			return "", false
		}
		sel, ok := c.Fun.(*ast.SelectorExpr)
		if !ok {
			return "", false
		}
		if id, ok := sel.X.(*ast.Ident); !ok || id.Name != "in" {
			return "", false
		}
		return sel.Sel.Name, true
	}
	i := 0
	if len(b) < 4 {
		return "", false
	}
	as, ok := b[i].(*ast.AssignStmt)
	if !ok || as.Tok != token.DEFINE || len(as.Lhs) != 1 || len(as.Rhs) != 1 {
		return "", false
	}
	szId, ok := as.Lhs[0].(*ast.Ident)
	if !ok {
		return "", false
	}
	sz := szId.Name
	conv, ok := as.Rhs[0].(*ast.CallExpr)
	if !ok || len(conv.Args) != 1 {
		return "", false
	}
	if id, ok := conv.Fun.(*ast.Ident); !ok || id.Name != "int" {
		return "", false
	}
	cnt, ok := recvCall(conv.Args[0])
	if !ok {
		return "", false
	}
	i++
	zero := false
	if ifs, ok := b[i].(*ast.IfStmt); ok {
		if ifs.Init != nil || ifs.Else != nil || src(ifs.Cond) != sz+" == 0" || len(ifs.Body.List) != 1 {
			return "", false
		}
		ret, ok := ifs.Body.List[0].(*ast.ReturnStmt)
		if !ok || len(ret.Results) != 1 {
			return "", false
		}
		cl, ok := ret.Results[0].(*ast.CompositeLit)
		if !ok || len(cl.Elts) != 0 {
			return "", false
		}
		zero = true
		i++
	}
	mb := "0"
	if es, ok := b[i].(*ast.ExprStmt); ok {
		c, ok := es.X.(*ast.CallExpr)
		if !ok || len(c.Args) != 2 || src(c.Fun) != "in.CheckCount" || src(c.Args[0]) != sz {
			return "", false
		}
		k, ok := intOf(c.Args[1], nil)
		if !ok || strings.HasPrefix(k, "-") {
			return "", false
		}
		mb = k
		i++
	}
	if i+3 != len(b) {
		return "", false
	}
	mk, ok := b[i].(*ast.AssignStmt)
	if !ok || mk.Tok != token.DEFINE || len(mk.Lhs) != 1 || len(mk.Rhs) != 1 {
		return "", false
	}
	v := src(mk.Lhs[0])
	mc, ok := mk.Rhs[0].(*ast.CallExpr)
	if !ok || src(mc.Fun) != "make" || len(mc.Args) != 2 || src(mc.Args[1]) != sz {
		return "", false
	}
	i++
	fs, ok := b[i].(*ast.ForStmt)
	if !ok || fs.Init == nil || fs.Cond == nil || fs.Post == nil || src(fs.Init) != "i := 0" || src(fs.Cond) != "i < "+sz || src(fs.Post) != "i++" || len(fs.Body.List) != 1 {
		return "", false
	}
	el, ok := fs.Body.List[0].(*ast.AssignStmt)
	if !ok || el.Tok != token.ASSIGN || len(el.Lhs) != 1 || len(el.Rhs) != 1 || src(el.Lhs[0]) != v+"[i]" {
		return "", false
	}
	elem, econv := "", ""
	if n, ok := recvCall(el.Rhs[0]); ok {
		elem = n
	} else if c, ok := el.Rhs[0].(*ast.CallExpr); ok && len(c.Args) == 1 {
		id, ok1 := c.Fun.(*ast.Ident)
		n, ok2 := recvCall(c.Args[0])
		if !ok1 || !ok2 {
			return "", false
		}
		elem, econv = n, id.Name
	} else {
		return "", false
	}
	i++
	if ret, ok := b[i].(*ast.ReturnStmt); !ok || len(ret.Results) != 1 || src(ret.Results[0]) != v {
		return "", false
	}
	z := "false"
	if zero {
		z = "true"
	}
	return fmt.Sprintf("(%q, %s, %s, %q, %q)", cnt, z, mb, elem, econv), true
}

// arrayWriter recognises the body of a Write*Array method
//
//	if v == nil { out.<W0>(<lit>) } else { sz := len(v); out.<W1>(<conv>(sz)); for i := 0; i < sz; i++ { out.<W2>(v[i]) } }
//
// and returns (W0, lit, W1, conv, W2).
func arrayWriter(fd *ast.FuncDecl) (string, bool) {
	if fd.Body == nil || len(fd.Body.List) != 1 || fd.Type.Params == nil || len(fd.Type.Params.List) != 1 || len(fd.Type.Params.List[0].Names) != 1 {
		return "", false
	}
	v := fd.Type.Params.List[0].Names[0].Name
	outCall := func(st ast.Stmt) (string, ast.Expr, bool) { // out.X(arg)
		es, ok := st.(*ast.ExprStmt)
		if !ok {
			return "", nil, false
		}
		c, ok := es.X.(*ast.CallExpr)
		if !ok || len(c.Args) != 1 {
			return "", nil, false
		}
		sel, ok := c.Fun.(*ast.SelectorExpr)
		if !ok {
			return "", nil, false
		}
		if id, ok := sel.X.(*ast.Ident); !ok || id.Name != "out" {
			return "", nil, false
		}
		return sel.Sel.Name, c.Args[0], true
	}
	ifs, ok := fd.Body.List[0].(*ast.IfStmt)
	if !ok || ifs.Init != nil || src(ifs.Cond) != v+" == nil" || len(ifs.Body.List) != 1 {
		return "", false
	}
	w0, a0, ok := outCall(ifs.Body.List[0])
	if !ok {
		return "", false
	}
	lit, ok := intOf(a0, nil)
	if !ok || strings.HasPrefix(lit, "-") {
		return "", false
	}
	els, ok := ifs.Else.(*ast.BlockStmt)
	if !ok || len(els.List) != 3 || src(els.List[0]) != "sz := len("+v+")" {
		return "", false
	}
	w1, a1, ok := outCall(els.List[1])
	if !ok {
		return "", false
	}
	cc, ok := a1.(*ast.CallExpr)
	if !ok || len(cc.Args) != 1 || src(cc.Args[0]) != "sz" {
		return "", false
	}
	conv := src(cc.Fun)
	fs, ok := els.List[2].(*ast.ForStmt)
	if !ok || fs.Init == nil || fs.Cond == nil || fs.Post == nil || src(fs.Init) != "i := 0" || src(fs.Cond) != "i < sz" || src(fs.Post) != "i++" || len(fs.Body.List) != 1 {
		return "", false
	}
	w2, a2, ok := outCall(fs.Body.List[0])
	if !ok || src(a2) != v+"[i]" {
		return "", false
	}
	return fmt.Sprintf("(%q, %s, %q, %q, %q)", w0, lit, w1, conv, w2), true
}

// lenPrefixedWriter recognises the bodies of WriteIntBytes / WriteShortBytes / WriteTextShortLength
//
//	if b == nil || len(b) == 0 { out.<W0>(<lit>) } else { out.<W1>(<conv>(len(b))); out.WriteBytes(b) }
//	if v == "" { out.<W0>(<lit>) } else { b := []byte(v); out.<W1>(<conv>(len(b))); out.WriteBytes(b) }
//
// (a trailing `return out` is allowed) and returns (W0, lit, W1, conv).
func lenPrefixedWriter(fd *ast.FuncDecl) (string, bool) {
	if fd.Body == nil || fd.Type.Params == nil || len(fd.Type.Params.List) != 1 || len(fd.Type.Params.List[0].Names) != 1 {
		return "", false
	}
	v := fd.Type.Params.List[0].Names[0].Name
	body := fd.Body.List
	if len(body) == 2 && src(body[1]) == "return out" {
		body = body[:1]
	}
	if len(body) != 1 {
		return "", false
	}
	outCall := func(st ast.Stmt) (string, ast.Expr, bool) {
		es, ok := st.(*ast.ExprStmt)
		if !ok {
			return "", nil, false
		}
		c, ok := es.X.(*ast.CallExpr)
		if !ok || len(c.Args) != 1 {
			return "", nil, false
		}
		sel, ok := c.Fun.(*ast.SelectorExpr)
		if !ok {
			return "", nil, false
		}
		if id, ok := sel.X.(*ast.Ident); !ok || id.Name != "out" {
			return "", nil, false
		}
		return sel.Sel.Name, c.Args[0], true
	}
	ifs, ok := body[0].(*ast.IfStmt)
	if !ok || ifs.Init != nil || len(ifs.Body.List) != 1 {
		return "", false
	}
	cond := src(ifs.Cond)
	els, ok := ifs.Else.(*ast.BlockStmt)
	if !ok {
		return "", false
	}
	rest := els.List
	bytesVar := v
	switch {
	case cond == v+" == nil || len("+v+") == 0" && len(rest) == 2:
	case cond == v+` == ""` && len(rest) == 3 && src(rest[0]) == "b := []byte("+v+")":
		bytesVar = "b"
		rest = rest[1:]
	default:
		return "", false
	}
	w0, a0, ok := outCall(ifs.Body.List[0])
	if !ok {
		return "", false
	}
	lit, ok := intOf(a0, nil)
	if !ok || strings.HasPrefix(lit, "-") {
		return "", false
	}
	w1, a1, ok := outCall(rest[0])
	if !ok {
		return "", false
	}
	cc, ok := a1.(*ast.CallExpr)
	if !ok || len(cc.Args) != 1 || src(cc.Args[0]) != "len("+bytesVar+")" {
		return "", false
	}
	w2, a2, ok := outCall(rest[1])
	if !ok || w2 != "WriteBytes" || src(a2) != bytesVar {
		return "", false
	}
	return fmt.Sprintf("(%q, %s, %q, %q)", w0, lit, w1, src(cc.Fun)), true
}

func main() {
	repo := flag.String("repo", "/repo", "")
	outp := flag.String("out", "", "")
	flag.Parse()
	fo := parse(filepath.Join(*repo, "io", "DataOutputX.go"))
	fi := parse(filepath.Join(*repo, "io", "DataInputX.go"))
	env := map[string]string{}
	consts(fo, env)
	fso, fsi := funcs(fo), funcs(fi)

	var b strings.Builder
	b.WriteString("-- GENERATED by xlate/c01 from io/DataOutputX.go and io/DataInputX.go — do not edit\n")
	b.WriteString("namespace Gen.C01\n\n")
	b.WriteString("/-- `buf[i] = byte(v >> s)` pairs (i, s); `none` = shape not recognised -/\n")
	b.WriteString("def putShifts : List (String × Option (List (Nat × Nat))) := [\n")
	var names []string
	for n := range fso {
		if (strings.HasPrefix(n, "ToBytes") || strings.HasPrefix(n, "SetBytes")) &&
			!strings.HasSuffix(n, "Bool") && !strings.HasSuffix(n, "Float") && !strings.HasSuffix(n, "Double") && n != "SetBytes" {
			names = append(names, n)
		}
	}
	sort.Strings(names)
	for i, n := range names {
		v, ok := putShifts(fso[n])
		s := "none"
		if ok {
			s = "some " + v
		}
		sep := ","
		if i == len(names)-1 {
			sep = ""
		}
		fmt.Fprintf(&b, "  (%q, %s)%s\n", n, s, sep)
	}
	b.WriteString("]\n\n")
	b.WriteString("/-- readers: summands (byte index, left shift, sign-extended byte) and final arithmetic right shift -/\n")
	b.WriteString("def getTerms : List (String × Option (List (Nat × Nat × Bool) × Nat)) := [\n")
	names = nil
	for n := range fsi {
		if strings.HasPrefix(n, "To") && n != "ToBool" && n != "ToFloat" && n != "ToDouble" {
			names = append(names, n)
		}
	}
	sort.Strings(names)
	for i, n := range names {
		v, ok := getTerms(fsi[n])
		s := "none"
		if ok {
			s = "some " + v
		}
		sep := ","
		if i == len(names)-1 {
			sep = ""
		}
		fmt.Fprintf(&b, "  (%q, %s)%s\n", n, s, sep)
	}
	b.WriteString("]\n\n")
	fmt.Fprintf(&b, "/-- WriteDecimal cases in order: (lo, hi, length byte, payload width) -/\ndef decimalW : List (Int × Int × Nat × Nat) := %s\n\n", decimalW(fso["m.WriteDecimal"], env))
	fmt.Fprintf(&b, "/-- ReadDecimal: (length byte, payload width) per case, and the default arm's width -/\ndef decimalR : List (Nat × Nat) × Nat := %s\n\n", decimalR(fsi["m.ReadDecimal"]))
	fmt.Fprintf(&b, "/-- WriteBlob: thresholds of the `sz <=` chain, and (marker, header length field width) literals -/\ndef blobW : List Nat × List (Nat × Nat) := %s\n\n", blobW(fso["m.WriteBlob"]))
	fmt.Fprintf(&b, "/-- ReadBlob: (case value, how the length is read), default arm -/\ndef blobR : List (Nat × String) × String := %s\n\n", blobR(fsi["m.ReadBlob"]))
	b.WriteString("/-- array writers / readers: the Write*/Read* calls they make, in source order -/\ndef arrays : List (String × List String) := [\n")
	var arr []string
	for n, fd := range fso {
		if strings.HasPrefix(n, "m.Write") && strings.HasSuffix(n, "Array") {
			arr = append(arr, fmt.Sprintf("  (%q, %s)", n[2:], arrayFacts(fd, "Write")))
		}
	}
	for n, fd := range fsi {
		if strings.HasPrefix(n, "m.Read") && strings.HasSuffix(n, "Array") && !strings.Contains(n, "Decimal") {
			arr = append(arr, fmt.Sprintf("  (%q, %s)", n[2:], arrayFacts(fd, "Read")))
		}
	}
	sort.Strings(arr)
	b.WriteString(strings.Join(arr, ",\n"))
	b.WriteString("\n]\n\n")
	fmt.Fprintf(&b, "/-- ReadDecimalLen: (length, payload width) per case, and the default arm's width -/\ndef decimalLenR : List (Nat × Nat) × Nat := %s\n\n", decimalR(fsi["m.ReadDecimalLen"]))
	b.WriteString("/-- the frame-header writers and a few composite readers: calls on the stream, in source order -/\ndef callSeqs : List (String × List String) := [\n")
	var cs []string
	for _, n := range []string{"m.WriteHeader", "m.WriteOneWayHeader", "m.WriteSecureHeader", "m.WriteIntBytes", "m.WriteShortBytes"} {
		if fd, ok := fso[n]; ok {
			cs = append(cs, fmt.Sprintf("  (%q, %s)", n[2:], callSeq(fd)))
		}
	}
	for _, n := range []string{"m.ReadIntBytes", "m.ReadIntBytesLimit", "m.ReadShortBytes", "m.ReadDecimalArray", "m.ReadDecimalArrayInt", "m.ReadUnsignedInt", "m.ReadUnsignedShort", "m.ReadTextShortLength"} {
		if fd, ok := fsi[n]; ok {
			cs = append(cs, fmt.Sprintf("  (%q, %s)", n[2:], callSeq(fd)))
		}
	}
	b.WriteString(strings.Join(cs, ",\n"))
	b.WriteString("\n]\n\n")
	b.WriteString("/-- fixed-width readers: bytes asked of ReadBytes and the expression returned; `none` = another shape -/\ndef primReaders : List (String × Option (Nat × String)) := [\n")
	var pr []string
	for n, fd := range fsi {
		switch n {
		case "m.ReadBool", "m.ReadByte", "m.ReadShort", "m.ReadUShort", "m.ReadShortLittle", "m.ReadUnsignedShort", "m.ReadUnsignedShortLittle",
			"m.ReadInt3", "m.ReadInt", "m.ReadUnsignedInt", "m.ReadIntLittle", "m.ReadUintLittle", "m.ReadLong5", "m.ReadLong", "m.ReadFloat", "m.ReadDouble":
			v, ok := primReader(fd)
			if ok {
				v = "some " + v
			} else {
				v = "none"
			}
			pr = append(pr, fmt.Sprintf("  (%q, %s)", n[2:], v))
		}
	}
	sort.Strings(pr)
	b.WriteString(strings.Join(pr, ",\n"))
	b.WriteString("\n]\n\n")
	b.WriteString("/-- fixed-width writers: the expression handed to WriteBytes; `none` = another shape -/\ndef primWriters : List (String × Option String) := [\n")
	var pw []string
	for n, fd := range fso {
		switch n {
		case "m.WriteBool", "m.WriteShort", "m.WriteUShort", "m.WriteInt3", "m.WriteInt", "m.WriteLong5", "m.WriteLong", "m.WriteFloat", "m.WriteDouble":
			v, ok := primWriter(fd)
			if ok {
				v = "some " + v
			} else {
				v = "none"
			}
			pw = append(pw, fmt.Sprintf("  (%q, %s)", n[2:], v))
		}
	}
	sort.Strings(pw)
	b.WriteString(strings.Join(pw, ",\n"))
	b.WriteString("\n]\n\n")
	b.WriteString("/-- array readers, structured: (count reader, `if sz == 0` shortcut, CheckCount's minBytes (0 = no guard), element reader, element conversion); `none` = another shape -/\ndef arrayReaders : List (String × Option (String × Bool × Nat × String × String)) := [\n")
	var ar []string
	for n, fd := range fsi {
		if strings.HasPrefix(n, "m.Read") && strings.HasSuffix(n, "Array") || n == "m.ReadDecimalArrayInt" {
			v, ok := arrayReader(fd)
			if ok {
				v = "some " + v
			} else {
				v = "none"
			}
			ar = append(ar, fmt.Sprintf("  (%q, %s)", n[2:], v))
		}
	}
	sort.Strings(ar)
	b.WriteString(strings.Join(ar, ",\n"))
	b.WriteString("\n]\n\n")
	b.WriteString("/-- array writers, structured: (count writer of the nil branch, its literal, count writer, conversion of the count, element writer); `none` = another shape -/\ndef arrayWriters : List (String × Option (String × Nat × String × String × String)) := [\n")
	var aw []string
	for n, fd := range fso {
		if strings.HasPrefix(n, "m.Write") && strings.HasSuffix(n, "Array") {
			v, ok := arrayWriter(fd)
			if ok {
				v = "some " + v
			} else {
				v = "none"
			}
			aw = append(aw, fmt.Sprintf("  (%q, %s)", n[2:], v))
		}
	}
	sort.Strings(aw)
	b.WriteString(strings.Join(aw, ",\n"))
	b.WriteString("\n]\n\n")
	b.WriteString("/-- length-prefixed byte-string writers, structured: (length writer of the nil/empty branch, its literal, length writer, conversion of the length); the payload goes to WriteBytes; `none` = another shape -/\ndef lenPrefixed : List (String × Option (String × Nat × String × String)) := [\n")
	var lp []string
	for _, n := range []string{"m.WriteIntBytes", "m.WriteShortBytes", "m.WriteTextShortLength"} {
		v := "none"
		if fd, ok := fso[n]; ok {
			if x, ok := lenPrefixedWriter(fd); ok {
				v = "some " + x
			}
		}
		lp = append(lp, fmt.Sprintf("  (%q, %s)", n[2:], v))
	}
	b.WriteString(strings.Join(lp, ",\n"))
	b.WriteString("\n]\n\n")
	rb := []string{"<missing>"}
	if fd, ok := fsi["m.ReadBytes"]; ok && fd.Body != nil {
		rb = stmts(fd.Body)
	}
	fmt.Fprintf(&b, "/-- the statements of ReadBytes, nested ones included, as normalised source text -/\ndef readBytes : List String := [\n  %s\n]\n\n", strings.Join(quoteAll(rb), ",\n  "))
	b.WriteString("/-- how the primitive writers update `written` -/\ndef written : List (String × List String) := [\n")
	var wr []string
	for _, n := range []string{"m.WriteBytes", "m.WriteByte", "m.Write"} {
		if fd, ok := fso[n]; ok {
			wr = append(wr, fmt.Sprintf("  (%q, %s)", n[2:], writtenFacts(fd)))
		}
	}
	b.WriteString(strings.Join(wr, ",\n"))
	b.WriteString("\n]\n\nend Gen.C01\n")
	if err := os.WriteFile(*outp, []byte(b.String()), 0o644); err != nil {
		fmt.Fprintln(os.Stderr, err)
		os.Exit(1)
	}
}
