module verif/xlate/c08

go 1.23
