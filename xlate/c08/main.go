// xlate/c08 — tie A for property C08.
//
// Transcribes facts of /repo/lang/step/*.go, /repo/lang/service/*.go and the three
// profile-carrying packs into Lean data (lean/Golib/Gen/C08.lean).  It never judges: the
// obligations over these data are in lean/Golib/Props/C08Gen.lean.
//
// Facts:
//   consts        the STEP_* / SERVICE_* type codes and the error-level constants
//   createStep    the `CreateStep` switch: (type code, constructed Go type), in source order
//   createService the `CreateService` switch
//   typeCodes     what GetStepType / GetServiceType of each type answers
//   wskel, rskel  per type: the ordered skeleton of its Write / Read — every call on a
//                 DataOutputX / DataInputX with the field (and declared Go type) it carries,
//                 constants written, conversions applied on reading, and the control structure
//                 (if / else / switch / case / for) around them.  Embedded Write/Read calls and
//                 calls of own helper methods are inlined.  Local variable and stream variable
//                 names are normalised (local1, local2, …; $), so renaming them changes nothing.
package main

import (
	"bytes"
	"regexp"
	"flag"
	"fmt"
	"go/ast"
	"go/parser"
	"go/printer"
	"go/token"
	"os"
	"path/filepath"
	"sort"
	"strconv"
	"strings"
)

var fset = token.NewFileSet()

type structInfo struct {
	fields   map[string]string // field name → declared type (printed)
	embedded []string
}

var structs = map[string]*structInfo{}
var methods = map[string]*ast.FuncDecl{} // "Type.Method"
var funcsTop = map[string]*ast.FuncDecl{}
var constVals = map[string]int64{}
var constOrder []string
var pkgVars []string
var unexported = map[string][][2]string{} // struct → unexported (name, type), in source order

func die(f string, a ...interface{}) {
	fmt.Fprintf(os.Stderr, "xlate/c08: "+f+"\n", a...)
	os.Exit(1)
}

func show(n ast.Node) string {
	var b bytes.Buffer
	printer.Fprint(&b, fset, n)
	return b.String()
}

func recvType(fd *ast.FuncDecl) string {
	if fd.Recv == nil || len(fd.Recv.List) == 0 {
		return ""
	}
	t := fd.Recv.List[0].Type
	if s, ok := t.(*ast.StarExpr); ok {
		t = s.X
	}
	if id, ok := t.(*ast.Ident); ok {
		return id.Name
	}
	return ""
}

func load(file string) {
	f, err := parser.ParseFile(fset, file, nil, 0)
	if err != nil {
		die("%v", err)
	}
	for _, d := range f.Decls {
		switch d := d.(type) {
		case *ast.FuncDecl:
			if d.Body == nil {
				continue
			}
			if rt := recvType(d); rt != "" {
				methods[rt+"."+d.Name.Name] = d
			} else {
				funcsTop[d.Name.Name] = d
			}
		case *ast.GenDecl:
			if d.Tok == token.TYPE {
				for _, sp := range d.Specs {
					ts := sp.(*ast.TypeSpec)
					st, ok := ts.Type.(*ast.StructType)
					if !ok {
						continue
					}
					si := &structInfo{fields: map[string]string{}}
					for _, fl := range st.Fields.List {
						ty := show(fl.Type)
						if len(fl.Names) == 0 {
							si.embedded = append(si.embedded, strings.TrimPrefix(ty, "*"))
							continue
						}
						for _, n := range fl.Names {
							si.fields[n.Name] = ty
							if !ast.IsExported(n.Name) {
								unexported[ts.Name.Name] = append(unexported[ts.Name.Name], [2]string{n.Name, ty})
							}
						}
					}
					structs[ts.Name.Name] = si
				}
			}
			if d.Tok == token.VAR {
				for _, sp := range d.Specs {
					for _, n := range sp.(*ast.ValueSpec).Names {
						pkgVars = append(pkgVars, filepath.Base(filepath.Dir(file))+"."+n.Name)
					}
				}
			}
			if d.Tok == token.CONST {
				for _, sp := range d.Specs {
					vs := sp.(*ast.ValueSpec)
					for i, n := range vs.Names {
						if i >= len(vs.Values) {
							continue
						}
						if lit, ok := vs.Values[i].(*ast.BasicLit); ok && lit.Kind == token.INT {
							v, err := strconv.ParseInt(lit.Value, 0, 64)
							if err == nil {
								if _, dup := constVals[n.Name]; !dup {
									constOrder = append(constOrder, n.Name)
								}
								constVals[n.Name] = v
							}
						}
					}
				}
			}
		}
	}
}

// fieldType resolves a (possibly promoted) field of a struct type.
func fieldType(typ, field string) (string, bool) {
	si := structs[typ]
	if si == nil {
		return "", false
	}
	if t, ok := si.fields[field]; ok {
		return t, true
	}
	for _, e := range si.embedded {
		if t, ok := fieldType(e, field); ok {
			return t, true
		}
	}
	return "", false
}

func normType(t string) string {
	if t == "int" {
		return "int64"
	}
	return t
}

// ---------------------------------------------------------------- skeleton walker

type walker struct {
	typ     string            // receiver type whose fields `recv.` refers to
	recv    string            // receiver identifier
	streams map[string]bool   // identifiers holding a DataOutputX / DataInputX
	locals  map[string]string // local identifier → normalised name
	pending map[string]int    // local bound to a read → index of its token
	binds   map[string]string // local → field it was assigned to
	toks    *[]string
	nlocal  *int
	subOpen *int
	depth   int
	args    []string // normalised texts of the arguments when inlined
	lazy    map[string]bool // sub-streams created but not used yet: `sub{` is emitted at first use
}

func (w *walker) emit(s string) int {
	*w.toks = append(*w.toks, s)
	return len(*w.toks) - 1
}

func (w *walker) local(name string) string {
	if f, ok := w.binds[name]; ok {
		return f
	}
	if n, ok := w.locals[name]; ok {
		return n
	}
	*w.nlocal++
	n := fmt.Sprintf("local%d", *w.nlocal)
	w.locals[name] = n
	return n
}

// text prints an expression with the receiver stripped and stream / local identifiers normalised.
func (w *walker) text(e ast.Expr) string {
	switch x := e.(type) {
	case *ast.Ident:
		if w.streams[x.Name] {
			return "$"
		}
		if _, ok := w.locals[x.Name]; ok {
			return w.local(x.Name)
		}
		if _, ok := w.binds[x.Name]; ok {
			return w.local(x.Name)
		}
		if v, ok := constVals[x.Name]; ok {
			return strconv.FormatInt(v, 10)
		}
		return x.Name
	case *ast.SelectorExpr:
		if id, ok := x.X.(*ast.Ident); ok && id.Name == w.recv {
			return x.Sel.Name
		}
		return w.text(x.X) + "." + x.Sel.Name
	case *ast.CallExpr:
		var args []string
		for _, a := range x.Args {
			args = append(args, w.text(a))
		}
		return w.text(x.Fun) + "(" + strings.Join(args, ", ") + ")"
	case *ast.BinaryExpr:
		return w.text(x.X) + " " + x.Op.String() + " " + w.text(x.Y)
	case *ast.UnaryExpr:
		return x.Op.String() + w.text(x.X)
	case *ast.ParenExpr:
		return "(" + w.text(x.X) + ")"
	case *ast.StarExpr:
		return "*" + w.text(x.X)
	case *ast.TypeAssertExpr:
		return w.text(x.X) + ".(" + show(x.Type) + ")"
	case *ast.BasicLit:
		return x.Value
	}
	return show(e)
}

var convs = map[string]bool{"int64": true, "int32": true, "int": true, "byte": true, "uint8": true, "int16": true}

// stripConv removes Go conversions around an expression and returns the outermost one.
func stripConv(e ast.Expr) (ast.Expr, string) {
	outer := ""
	for {
		switch x := e.(type) {
		case *ast.ParenExpr:
			e = x.X
			continue
		case *ast.CallExpr:
			if id, ok := x.Fun.(*ast.Ident); ok && convs[id.Name] && len(x.Args) == 1 {
				if outer == "" {
					outer = id.Name
				}
				e = x.Args[0]
				continue
			}
		}
		return e, outer
	}
}

// streamCall recognises  <stream>.<Method>(args).
// touch emits the pending `sub{` of a sub-stream at its first use, so that the place where the
// buffer was created (an independent statement) does not matter.
func (w *walker) touch(name string) {
	if w.lazy != nil && w.lazy[name] {
		delete(w.lazy, name)
		w.emit("sub{")
	}
}

func (w *walker) streamName(e ast.Expr) string {
	inner, _ := stripConv(e)
	if c, ok := inner.(*ast.CallExpr); ok {
		if sel, ok := c.Fun.(*ast.SelectorExpr); ok {
			if id, ok := sel.X.(*ast.Ident); ok && w.streams[id.Name] {
				return id.Name
			}
		}
	}
	return ""
}

func (w *walker) streamCall(e ast.Expr) (*ast.CallExpr, string, bool) {
	c, ok := e.(*ast.CallExpr)
	if !ok {
		return nil, "", false
	}
	sel, ok := c.Fun.(*ast.SelectorExpr)
	if !ok {
		return nil, "", false
	}
	id, ok := sel.X.(*ast.Ident)
	if !ok || !w.streams[id.Name] {
		return nil, "", false
	}
	return c, sel.Sel.Name, true
}

func (w *walker) recvField(e ast.Expr) (string, bool) {
	sel, ok := e.(*ast.SelectorExpr)
	if !ok {
		return "", false
	}
	id, ok := sel.X.(*ast.Ident)
	if !ok || id.Name != w.recv {
		return "", false
	}
	return sel.Sel.Name, true
}

func (w *walker) fieldTok(f string) string {
	t, ok := fieldType(w.typ, f)
	if !ok {
		t = "?"
	}
	return f + ":" + normType(t)
}

func isNew(e ast.Expr, name string) (*ast.CallExpr, bool) {
	c, ok := e.(*ast.CallExpr)
	if !ok {
		return nil, false
	}
	sel, ok := c.Fun.(*ast.SelectorExpr)
	if !ok || sel.Sel.Name != name {
		return nil, false
	}
	return c, true
}

// arg renders the argument of a write call.
func (w *walker) writeArg(a ast.Expr) string {
	inner, _ := stripConv(a)
	if f, ok := w.recvField(inner); ok {
		return w.fieldTok(f)
	}
	if lit, ok := inner.(*ast.BasicLit); ok {
		return "#" + lit.Value
	}
	if c, ok := inner.(*ast.CallExpr); ok {
		if sel, ok := c.Fun.(*ast.SelectorExpr); ok {
			if id, ok := sel.X.(*ast.Ident); ok {
				if w.streams[id.Name] && sel.Sel.Name == "ToByteArray" {
					w.touch(id.Name)
					w.emit("}sub")
					*w.subOpen--
					return "sub"
				}
				if id.Name == w.recv { // own helper producing the bytes
					if w.inline(w.typ, sel.Sel.Name) {
						return "sub"
					}
				}
			}
		}
	}
	return w.text(inner)
}

// inline walks the body of Type.Method in place (embedded Write/Read, own helpers).
func (w *walker) inline(typ, method string, args ...string) bool {
	fd := methods[typ+"."+method]
	if fd == nil {
		// promoted method of an embedded type
		if si := structs[typ]; si != nil {
			for _, e := range si.embedded {
				if w.inline(e, method, args...) {
					return true
				}
			}
		}
		return false
	}
	if w.depth > 6 {
		w.emit("unknown:recursion")
		return true
	}
	sub := &walker{typ: typ, streams: map[string]bool{}, locals: map[string]string{}, pending: map[string]int{},
		binds: map[string]string{}, toks: w.toks, nlocal: w.nlocal, subOpen: w.subOpen, depth: w.depth + 1}
	sub.args = args
	sub.enter(fd)
	return true
}

func (w *walker) enter(fd *ast.FuncDecl) {
	if fd.Recv != nil && len(fd.Recv.List) > 0 && len(fd.Recv.List[0].Names) > 0 {
		w.recv = fd.Recv.List[0].Names[0].Name
	}
	k := 0
	for _, p := range fd.Type.Params.List {
		ty := show(p.Type)
		for _, n := range p.Names {
			if strings.Contains(ty, "DataOutputX") || strings.Contains(ty, "DataInputX") {
				w.streams[n.Name] = true
			} else if k < len(w.args) && w.args[k] != "" {
				w.locals[n.Name] = w.args[k]
			} else {
				w.local(n.Name)
			}
			k++
		}
	}
	open0 := *w.subOpen
	w.block(fd.Body.List)
	for *w.subOpen > open0 { // a sub-stream reader lives to the end of the function
		for n := range w.lazy {
			w.touch(n)
		}
		w.emit("}sub")
		*w.subOpen--
	}
}

func (w *walker) block(list []ast.Stmt) {
	for _, s := range list {
		w.stmt(s)
	}
}

// readExpr: does e (after conversions) read from a stream?  Returns method and conversion.
func (w *walker) readExpr(e ast.Expr) (string, string, bool) {
	inner, conv := stripConv(e)
	if _, m, ok := w.streamCall(inner); ok && strings.HasPrefix(m, "Read") {
		if conv == "int" || conv == "int64" {
			conv = ""
		}
		return m, conv, true
	}
	return "", "", false
}

func (w *walker) stmt(s ast.Stmt) {
	switch x := s.(type) {
	case *ast.ExprStmt:
		w.callStmt(x.X)
	case *ast.AssignStmt:
		w.assign(x)
	case *ast.IfStmt:
		if x.Init != nil {
			w.stmt(x.Init)
		}
		w.emit("if " + w.condText(x.Cond))
		w.block(x.Body.List)
		if x.Else != nil {
			w.emit("else")
			switch e := x.Else.(type) {
			case *ast.BlockStmt:
				w.block(e.List)
			default:
				w.stmt(e)
			}
		}
		w.emit("end")
	case *ast.SwitchStmt:
		if x.Init != nil {
			w.stmt(x.Init)
		}
		tag := ""
		if x.Tag != nil {
			tag = w.condText(x.Tag)
		}
		w.emit("switch " + tag)
		for _, c := range x.Body.List {
			cc := c.(*ast.CaseClause)
			if cc.List == nil {
				w.emit("default")
			} else {
				var vs []string
				for _, v := range cc.List {
					vs = append(vs, w.text(v))
				}
				w.emit("case " + strings.Join(vs, ","))
			}
			w.block(cc.Body)
		}
		w.emit("end")
	case *ast.ForStmt:
		if x.Init != nil {
			w.stmt(x.Init)
		}
		c := ""
		if x.Cond != nil {
			c = w.condText(x.Cond)
		}
		w.emit("for " + c)
		w.block(x.Body.List)
		w.emit("end")
	case *ast.RangeStmt:
		w.emit("for range " + w.text(x.X))
		w.block(x.Body.List)
		w.emit("end")
	case *ast.ReturnStmt:
		if len(x.Results) == 0 {
			w.emit("return")
		}
		for _, r := range x.Results {
			if c, ok := r.(*ast.CallExpr); ok {
				if sel, ok := c.Fun.(*ast.SelectorExpr); ok {
					if id, ok := sel.X.(*ast.Ident); ok && w.streams[id.Name] && sel.Sel.Name == "ToByteArray" {
						w.touch(id.Name)
						w.emit("}sub")
						*w.subOpen--
					}
				}
			}
		}
	case *ast.BranchStmt, *ast.IncDecStmt, *ast.DeclStmt, *ast.EmptyStmt:
	case *ast.BlockStmt:
		w.block(x.List)
	default:
		w.emit("unknown:" + fmt.Sprintf("%T", s))
	}
}

// condText renders a condition; a read inside it is rendered as the read method.
func (w *walker) condText(e ast.Expr) string {
	// this.P(k) where P is a one-line predicate `return (this.F & param) != 0`: the condition is the bit test itself
	if c, ok := e.(*ast.CallExpr); ok && len(c.Args) == 1 {
		if sel, ok := c.Fun.(*ast.SelectorExpr); ok {
			if id, ok := sel.X.(*ast.Ident); ok && id.Name == w.recv {
				if f, ok := bitPredicate(w.typ, sel.Sel.Name); ok {
					return f + " & " + w.text(c.Args[0]) + " != 0"
				}
			}
		}
	}
	return w.text(e)
}

// bitPredicate: does Type.Method have the body `return (recv.F & param) != 0`?  Returns F.
func bitPredicate(typ, method string) (string, bool) {
	fd := methods[typ+"."+method]
	if fd == nil || len(fd.Body.List) != 1 || fd.Type.Params == nil || len(fd.Type.Params.List) != 1 || len(fd.Type.Params.List[0].Names) != 1 {
		return "", false
	}
	param := fd.Type.Params.List[0].Names[0].Name
	recv := ""
	if fd.Recv != nil && len(fd.Recv.List) > 0 && len(fd.Recv.List[0].Names) > 0 {
		recv = fd.Recv.List[0].Names[0].Name
	}
	ret, ok := fd.Body.List[0].(*ast.ReturnStmt)
	if !ok || len(ret.Results) != 1 {
		return "", false
	}
	be, ok := ret.Results[0].(*ast.BinaryExpr)
	if !ok || be.Op != token.NEQ {
		return "", false
	}
	if lit, ok := be.Y.(*ast.BasicLit); !ok || lit.Value != "0" {
		return "", false
	}
	x := be.X
	if p, ok := x.(*ast.ParenExpr); ok {
		x = p.X
	}
	and, ok := x.(*ast.BinaryExpr)
	if !ok || and.Op != token.AND {
		return "", false
	}
	sel, ok := and.X.(*ast.SelectorExpr)
	if !ok {
		return "", false
	}
	if id, ok := sel.X.(*ast.Ident); !ok || id.Name != recv {
		return "", false
	}
	if id, ok := and.Y.(*ast.Ident); !ok || id.Name != param {
		return "", false
	}
	return sel.Sel.Name, true
}

func (w *walker) callStmt(e ast.Expr) {
	c, ok := e.(*ast.CallExpr)
	if !ok {
		return
	}
	if id, ok := c.Fun.(*ast.Ident); ok && id.Name == "panic" {
		w.emit("panic")
		return
	}
	if _, m, ok := w.streamCall(e); ok {
		w.touch(w.streamName(e))
		switch {
		case strings.HasPrefix(m, "Write"):
			arg := ""
			if len(c.Args) > 0 {
				arg = w.writeArg(c.Args[0])
			}
			w.emit(m + " " + arg)
		case strings.HasPrefix(m, "Read"):
			w.emit(m + " _")
		default:
			w.emit("call " + w.text(e))
		}
		return
	}
	sel, ok := c.Fun.(*ast.SelectorExpr)
	if !ok {
		w.emit("call " + w.text(e))
		return
	}
	// this.Embedded.Write(out) / this.Embedded.Read(in)
	if inner, ok := sel.X.(*ast.SelectorExpr); ok {
		if id, ok := inner.X.(*ast.Ident); ok && id.Name == w.recv {
			if inner.Sel.Name == "AbstractPack" { // the pack header belongs to C03
				w.emit("call AbstractPack." + sel.Sel.Name)
				return
			}
			if _, isStruct := structs[inner.Sel.Name]; isStruct && (sel.Sel.Name == "Write" || sel.Sel.Name == "Read") {
				if w.inline(inner.Sel.Name, sel.Sel.Name) {
					return
				}
			}
			// this.Field.Write(out): a field holding another record (ProfilePack.Transaction)
			if ft, ok := fieldType(w.typ, inner.Sel.Name); ok && (sel.Sel.Name == "Write" || sel.Sel.Name == "Read") {
				tn := ft[strings.LastIndexAny(ft, "*.")+1:]
				if _, isStruct := structs[tn]; isStruct && w.inline(tn, sel.Sel.Name) {
					return
				}
			}
		}
	}
	// this.helper(args)
	if id, ok := sel.X.(*ast.Ident); ok && id.Name == w.recv {
		var as []string
		for _, a := range c.Args {
			if aid, ok := a.(*ast.Ident); ok && w.streams[aid.Name] {
				as = append(as, "")
			} else {
				as = append(as, w.text(a))
			}
		}
		if w.inline(w.typ, sel.Sel.Name, as...) {
			return
		}
	}
	// value.WriteMapValue(o, this.Attr), value.WriteValue(o, v)
	if id, ok := sel.X.(*ast.Ident); ok && id.Name == "value" && strings.HasPrefix(sel.Sel.Name, "Write") && len(c.Args) == 2 {
		if sid, ok := c.Args[0].(*ast.Ident); ok {
			w.touch(sid.Name)
		}
		w.emit(sel.Sel.Name + " " + w.writeArg(c.Args[1]))
		return
	}
	w.emit("call " + w.text(e))
}

func (w *walker) assign(x *ast.AssignStmt) {
	if len(x.Lhs) != 1 || len(x.Rhs) != 1 {
		// e.g.  mv, ok := val.(*value.MapValue): pure locals, named after the expression they hold
		rt := w.text(x.Rhs[0])
		for i, l := range x.Lhs {
			if id, ok := l.(*ast.Ident); ok {
				w.locals[id.Name] = fmt.Sprintf("%s#%d", rt, i)
			}
		}
		return
	}
	lhs, rhs := x.Lhs[0], x.Rhs[0]
	// stream constructors
	if c, ok := isNew(rhs, "NewDataOutputX"); ok && len(c.Args) == 0 {
		if id, ok := lhs.(*ast.Ident); ok {
			w.streams[id.Name] = true
			if w.lazy == nil {
				w.lazy = map[string]bool{}
			}
			w.lazy[id.Name] = true
			*w.subOpen++
			return
		}
	}
	if c, ok := isNew(rhs, "NewDataInputX"); ok && len(c.Args) == 1 {
		if id, ok := lhs.(*ast.Ident); ok {
			if m, _, isRead := w.readExpr(c.Args[0]); isRead {
				w.touch(w.streamName(c.Args[0]))
				w.emit(m + " sub")
			} else {
				w.emit("from " + w.text(c.Args[0]))
			}
			w.streams[id.Name] = true
			if w.lazy == nil {
				w.lazy = map[string]bool{}
			}
			w.lazy[id.Name] = true
			*w.subOpen++
			return
		}
	}
	// this.F = pkg.NewT().Read(in): the field is read by T's reader
	if _, ok := w.recvField(lhs); ok {
		if c, ok := rhs.(*ast.CallExpr); ok && len(c.Args) == 1 {
			if sel, ok := c.Fun.(*ast.SelectorExpr); ok && sel.Sel.Name == "Read" {
				if aid, ok := c.Args[0].(*ast.Ident); ok && w.streams[aid.Name] {
					if ctor, ok := sel.X.(*ast.CallExpr); ok {
						name := ""
						switch f := ctor.Fun.(type) {
						case *ast.SelectorExpr:
							name = f.Sel.Name
						case *ast.Ident:
							name = f.Name
						}
						tn := constructed(name)
						if _, isStruct := structs[tn]; isStruct && w.inline(tn, "Read") {
							return
						}
					}
				}
			}
		}
	}
	// reads
	if m, conv, ok := w.readExpr(rhs); ok {
		w.touch(w.streamName(rhs))
		suffix := ""
		if conv != "" {
			suffix = " " + conv
		}
		if f, ok := w.recvField(lhs); ok {
			w.emit(m + " " + w.fieldTok(f) + suffix)
			return
		}
		if id, ok := lhs.(*ast.Ident); ok {
			n := w.local(id.Name)
			w.pending[id.Name] = w.emit(m + " " + n + suffix)
			return
		}
	}
	// value.ReadValue(in)
	if c, ok := rhs.(*ast.CallExpr); ok {
		if sel, ok := c.Fun.(*ast.SelectorExpr); ok {
			if id, ok := sel.X.(*ast.Ident); ok && id.Name == "value" && strings.HasPrefix(sel.Sel.Name, "Read") {
				if len(c.Args) == 1 {
					if sid, ok := c.Args[0].(*ast.Ident); ok {
						w.touch(sid.Name)
					}
				}
				target := w.text(lhs)
				if lid, ok := lhs.(*ast.Ident); ok {
					target = w.local(lid.Name)
				} else if f, ok := w.recvField(lhs); ok {
					target = w.fieldTok(f)
				}
				w.emit(sel.Sel.Name + " " + target)
				return
			}
		}
	}
	// this.F = local   (a local that holds a read: name the read after the field)
	if f, ok := w.recvField(lhs); ok {
		if id, ok := rhs.(*ast.Ident); ok {
			if idx, ok := w.pending[id.Name]; ok {
				old := (*w.toks)[idx]
				parts := strings.SplitN(old, " ", 3)
				nt := parts[0] + " " + w.fieldTok(f)
				if len(parts) == 3 {
					nt += " " + parts[2]
				}
				(*w.toks)[idx] = nt
				w.binds[id.Name] = f
				delete(w.pending, id.Name)
				return
			}
		}
		if x.Tok != token.ASSIGN && x.Tok != token.DEFINE { // this.f |= e, this.f += e, …
			w.emit("assign " + w.fieldTok(f) + " " + x.Tok.String() + " " + w.text(rhs))
			return
		}
		w.emit("assign " + w.fieldTok(f) + " = " + w.text(rhs))
		return
	}
	// other locals carry no wire-relevant effect: they stand for the expression they were defined by
	if id, ok := lhs.(*ast.Ident); ok {
		if x.Tok == token.DEFINE {
			w.locals[id.Name] = w.text(rhs)
		}
		return
	}
	w.emit("assign " + w.text(lhs) + " = " + w.text(rhs))
}

func skeleton(typ, method string) []string {
	fd := methods[typ+"."+method]
	if fd == nil {
		return []string{"unknown:no-method"}
	}
	var toks []string
	n, so := 0, 0
	w := &walker{typ: typ, streams: map[string]bool{}, locals: map[string]string{}, pending: map[string]int{},
		binds: map[string]string{}, toks: &toks, nlocal: &n, subOpen: &so}
	w.enter(fd)
	return toks
}

// ---------------------------------------------------------------- registries

func constOf(e ast.Expr) (string, int64, bool) {
	switch x := e.(type) {
	case *ast.Ident:
		v, ok := constVals[x.Name]
		return x.Name, v, ok
	case *ast.BasicLit:
		v, err := strconv.ParseInt(x.Value, 0, 64)
		return x.Value, v, err == nil
	}
	return "", 0, false
}

func registry(fn string) [][2]string {
	fd := funcsTop[fn]
	if fd == nil {
		return [][2]string{{"-1", "unknown:no-" + fn}}
	}
	var out [][2]string
	ast.Inspect(fd.Body, func(n ast.Node) bool {
		sw, ok := n.(*ast.SwitchStmt)
		if !ok {
			return true
		}
		for _, c := range sw.Body.List {
			cc := c.(*ast.CaseClause)
			ctor := "unknown"
			for _, s := range cc.Body {
				if r, ok := s.(*ast.ReturnStmt); ok && len(r.Results) == 1 {
					if call, ok := r.Results[0].(*ast.CallExpr); ok {
						if id, ok := call.Fun.(*ast.Ident); ok {
							ctor = constructed(id.Name)
						}
					}
				}
			}
			for _, v := range cc.List {
				_, val, ok := constOf(v)
				if !ok {
					val = -1
				}
				out = append(out, [2]string{strconv.FormatInt(val, 10), ctor})
			}
		}
		return false
	})
	return out
}

// constructed: the type a constructor function allocates (`p := new(T)`).
func constructed(ctor string) string {
	fd := funcsTop[ctor]
	if fd == nil {
		return "unknown:" + ctor
	}
	res := "unknown:" + ctor
	ast.Inspect(fd.Body, func(n ast.Node) bool {
		if c, ok := n.(*ast.CallExpr); ok {
			if id, ok := c.Fun.(*ast.Ident); ok && id.Name == "new" && len(c.Args) == 1 {
				res = show(c.Args[0])
				return false
			}
		}
		return true
	})
	return res
}

func typeCode(typ, getter string) string {
	fd := methods[typ+"."+getter]
	if fd == nil {
		return "-1"
	}
	res := "-1"
	ast.Inspect(fd.Body, func(n ast.Node) bool {
		if r, ok := n.(*ast.ReturnStmt); ok && len(r.Results) == 1 {
			if _, v, ok := constOf(r.Results[0]); ok {
				res = strconv.FormatInt(v, 10)
			}
		}
		return true
	})
	return res
}

// ---------------------------------------------------------------- accessors and constructors

// recvFieldOf: e is <recv>.<F>
func recvFieldOf(e ast.Expr, recv string) (string, bool) {
	if p, ok := e.(*ast.ParenExpr); ok {
		return recvFieldOf(p.X, recv)
	}
	if sel, ok := e.(*ast.SelectorExpr); ok {
		if id, ok := sel.X.(*ast.Ident); ok && id.Name == recv {
			return sel.Sel.Name, true
		}
	}
	return "", false
}

// paramOrByte: e is the parameter, or byte(parameter)
func paramOrByte(e ast.Expr, param string) bool {
	if p, ok := e.(*ast.ParenExpr); ok {
		return paramOrByte(p.X, param)
	}
	if id, ok := e.(*ast.Ident); ok {
		return param != "" && id.Name == param
	}
	if c, ok := e.(*ast.CallExpr); ok && len(c.Args) == 1 {
		if id, ok := c.Fun.(*ast.Ident); ok && id.Name == "byte" {
			return paramOrByte(c.Args[0], param)
		}
	}
	return false
}

// accessorSem reads what a one-statement method does: get F | const v | set F | or F | bit F | unknown
func accessorSem(fd *ast.FuncDecl) (string, string) {
	recv, param := "", ""
	if fd.Recv != nil && len(fd.Recv.List) > 0 && len(fd.Recv.List[0].Names) > 0 {
		recv = fd.Recv.List[0].Names[0].Name
	}
	np := 0
	for _, p := range fd.Type.Params.List {
		for _, n := range p.Names {
			param = n.Name
			np++
		}
	}
	if np > 1 || len(fd.Body.List) != 1 {
		return "unknown", strings.Join(strings.Fields(show(fd.Body)), " ")
	}
	unknown := func() (string, string) { return "unknown", strings.Join(strings.Fields(show(fd.Body.List[0])), " ") }
	switch st := fd.Body.List[0].(type) {
	case *ast.ReturnStmt:
		if len(st.Results) != 1 {
			return unknown()
		}
		r := st.Results[0]
		if f, ok := recvFieldOf(r, recv); ok {
			return "get", f
		}
		if _, v, ok := constOf(r); ok {
			return "const", strconv.FormatInt(v, 10)
		}
		if b, ok := r.(*ast.BinaryExpr); ok && b.Op == token.NEQ {
			if _, z, ok := constOf(b.Y); ok && z == 0 {
				x := b.X
				if p, ok := x.(*ast.ParenExpr); ok {
					x = p.X
				}
				if a, ok := x.(*ast.BinaryExpr); ok && a.Op == token.AND {
					if f, ok := recvFieldOf(a.X, recv); ok && paramOrByte(a.Y, param) {
						return "bit", f
					}
				}
			}
		}
	case *ast.AssignStmt:
		if len(st.Lhs) == 1 && len(st.Rhs) == 1 {
			if f, ok := recvFieldOf(st.Lhs[0], recv); ok {
				if st.Tok == token.ASSIGN {
					if id, ok := st.Rhs[0].(*ast.Ident); ok && param != "" && id.Name == param {
						return "set", f
					}
				}
				if st.Tok == token.OR_ASSIGN && paramOrByte(st.Rhs[0], param) {
					return "or", f
				}
			}
		}
	}
	return unknown()
}

// notAccessor: the methods that are covered elsewhere (wire skeletons, type codes, builders) or are not accessors
var notAccessor = map[string]bool{"Write": true, "Read": true, "GetStepType": true, "GetServiceType": true, "GetPackType": true,
	"SetProfile": true, "SetStack": true, "SetCtr": true, "WriteVer0": true, "ReadVer0": true, "CtrToJson": true,
	"ToString": true, "ToBytes": true, "ToObject": true}

// ctorSem: what a constructor does: the type it allocates and the fields it sets (kind int|arg|empty|unknown)
func ctorSem(name string, depth int) (string, [][3]string, bool) {
	fd := funcsTop[name]
	if fd == nil || depth > 3 {
		return "", nil, false
	}
	param := ""
	for _, p := range fd.Type.Params.List {
		for _, n := range p.Names {
			param = n.Name
		}
	}
	typ, obj := "", ""
	var inits [][3]string
	okAll := true
	for _, st := range fd.Body.List {
		switch x := st.(type) {
		case *ast.AssignStmt:
			if len(x.Lhs) != 1 || len(x.Rhs) != 1 {
				okAll = false
				continue
			}
			if id, ok := x.Lhs[0].(*ast.Ident); ok && x.Tok == token.DEFINE {
				if c, ok := x.Rhs[0].(*ast.CallExpr); ok {
					if fid, ok := c.Fun.(*ast.Ident); ok {
						if fid.Name == "new" && len(c.Args) == 1 {
							typ, obj = show(c.Args[0]), id.Name
							continue
						}
						if t, in, ok := ctorSem(fid.Name, depth+1); ok && len(c.Args) == 0 {
							typ, obj = t, id.Name
							inits = append(inits, in...)
							continue
						}
					}
				}
				okAll = false
				continue
			}
			if f, ok := recvFieldOf(x.Lhs[0], obj); ok && obj != "" && x.Tok == token.ASSIGN {
				r := x.Rhs[0]
				if id, ok := r.(*ast.Ident); ok && param != "" && id.Name == param {
					inits = append(inits, [3]string{f, "arg", "0"})
				} else if _, v, ok := constOf(r); ok {
					inits = append(inits, [3]string{f, "int", strconv.FormatInt(v, 10)})
				} else if strings.Join(strings.Fields(show(r)), "") == "make([]byte,0)" {
					inits = append(inits, [3]string{f, "empty", "0"})
				} else {
					inits = append(inits, [3]string{f, "unknown:" + strings.Join(strings.Fields(show(r)), " "), "0"})
				}
				continue
			}
			okAll = false
		case *ast.ReturnStmt:
			if len(x.Results) != 1 {
				okAll = false
			} else if id, ok := x.Results[0].(*ast.Ident); !ok || id.Name != obj {
				okAll = false
			}
		default:
			okAll = false
		}
	}
	if !okAll {
		inits = append(inits, [3]string{"?", "unknown:statement", "0"})
	}
	return typ, inits, typ != ""
}

func q(s string) string { return strconv.Quote(s) }

var (
	reWL   = regexp.MustCompile(`^(Write\w+) #(-?\d+)$`)
	reW    = regexp.MustCompile(`^(Write\w+) (\w+):(\S+)$`)
	reWX   = regexp.MustCompile(`^(Write\w+) (.+)$`)
	reRD   = regexp.MustCompile(`^(Read\w+) _$`)
	reRSub = regexp.MustCompile(`^(Read\w+) sub$`)
	reRL   = regexp.MustCompile(`^(Read\w+) (local\d+)(?: (\w+))?$`)
	reR    = regexp.MustCompile(`^(Read\w+) (\w+):(\S+?)(?: (\w+))?$`)
	reIfNZ = regexp.MustCompile(`^if (\w+) != 0$`)
	reIfZ  = regexp.MustCompile(`^if (\w+) == 0$`)
	reIfNil = regexp.MustCompile(`^if (\w+) == nil$`)
	reIfNN = regexp.MustCompile(`^if (\w+) != nil$`)
	reIfBit = regexp.MustCompile(`^if (\w+) & (\d+) != 0$`)
	reIfType = regexp.MustCompile(`^if (\w+)\.\((\S+)\)#1$`)
	reAsgCast = regexp.MustCompile(`^assign (\w+):(\S+) = (\w+)\.\((\S+)\)#0$`)
	reIfLt = regexp.MustCompile(`^if (local\d+) < (\d+)$`)
	reIfEq = regexp.MustCompile(`^if (local\d+) == (\d+)$`)
	reIfPos = regexp.MustCompile(`^if (local\d+) > 0$`)
	reCase = regexp.MustCompile(`^case (\d+)$`)
	reAsg  = regexp.MustCompile(`^assign (\w+):(\S+) = (.+)$`)
	reAsgOp = regexp.MustCompile(`^assign (\w+):(\S+) ([-+|&^*/%<>]+=) (.+)$`)
	reAsgN = regexp.MustCompile(`^assign (\w+):(\S+) = (\d+)$`)
)

// leanTok renders one skeleton token as a term of `Step.Tok` (the lexing is done here, so that the
// Lean interpreter only compares and never has to split strings).
func leanTok(t string) string {
	switch t {
	case "WriteBlob sub":
		return ".wsub"
	case "else":
		return ".el"
	case "end":
		return ".en"
	case "sub{":
		return ".so"
	case "}sub":
		return ".sc"
	case "panic":
		return ".pn"
	case "return":
		return ".ret"
	case "if $.ReadByte() > 0":
		return ".ifrdpos"
	case "switch $.ReadByte()":
		return ".swrd"
	case "if $.Available() > 0":
		return ".ifavail"
	}
	if m := reWL.FindStringSubmatch(t); m != nil {
		v := m[2]
		if strings.HasPrefix(v, "-") {
			v = "(" + v + ")"
		}
		return fmt.Sprintf(".wl %s %s", q(m[1]), v)
	}
	if m := reW.FindStringSubmatch(t); m != nil {
		return fmt.Sprintf(".w %s %s %s", q(m[1]), q(m[2]), q(m[3]))
	}
	if m := reWX.FindStringSubmatch(t); m != nil {
		return fmt.Sprintf(".wx %s %s", q(m[1]), q(m[2]))
	}
	if m := reRD.FindStringSubmatch(t); m != nil {
		return fmt.Sprintf(".rd %s", q(m[1]))
	}
	if m := reRSub.FindStringSubmatch(t); m != nil {
		return fmt.Sprintf(".rsub %s", q(m[1]))
	}
	if m := reRL.FindStringSubmatch(t); m != nil {
		return fmt.Sprintf(".rl %s %s %s", q(m[1]), q(m[2]), q(m[3]))
	}
	if m := reR.FindStringSubmatch(t); m != nil {
		return fmt.Sprintf(".r %s %s %s %s", q(m[1]), q(m[2]), q(m[3]), q(m[4]))
	}
	if m := reIfNZ.FindStringSubmatch(t); m != nil {
		return ".ifnz " + q(m[1])
	}
	if m := reIfZ.FindStringSubmatch(t); m != nil {
		return ".ifz " + q(m[1])
	}
	if m := reIfNil.FindStringSubmatch(t); m != nil {
		return ".ifnil " + q(m[1])
	}
	if m := reIfNN.FindStringSubmatch(t); m != nil {
		return ".ifnn " + q(m[1])
	}
	if m := reIfBit.FindStringSubmatch(t); m != nil {
		return fmt.Sprintf(".ifbit %s %s", q(m[1]), m[2])
	}
	if m := reIfType.FindStringSubmatch(t); m != nil {
		return fmt.Sprintf(".iftype %s %s", q(m[1]), q(m[2]))
	}
	if m := reIfLt.FindStringSubmatch(t); m != nil {
		return fmt.Sprintf(".iflt %s %s", q(m[1]), m[2])
	}
	if m := reIfEq.FindStringSubmatch(t); m != nil {
		return fmt.Sprintf(".ifeq %s %s", q(m[1]), m[2])
	}
	if m := reIfPos.FindStringSubmatch(t); m != nil {
		return ".ifpos " + q(m[1])
	}
	if m := reCase.FindStringSubmatch(t); m != nil {
		return ".cs " + m[1]
	}
	if m := reAsgCast.FindStringSubmatch(t); m != nil {
		return fmt.Sprintf(".asgcast %s %s %s %s", q(m[1]), q(m[2]), q(m[3]), q(m[4]))
	}
	if m := reAsgOp.FindStringSubmatch(t); m != nil {
		return fmt.Sprintf(".asgop %s %s %s %s", q(m[1]), q(m[2]), q(m[3]), q(m[4]))
	}
	if m := reAsgN.FindStringSubmatch(t); m != nil {
		return fmt.Sprintf(".asgn %s %s %s", q(m[1]), q(m[2]), m[3])
	}
	if m := reAsg.FindStringSubmatch(t); m != nil {
		return fmt.Sprintf(".asg %s %s %s", q(m[1]), q(m[2]), q(m[3]))
	}
	for _, p := range []struct{ pre, ctor string }{{"switch ", ".sw"}, {"if ", ".iff"}, {"for ", ".lp"}, {"from ", ".fr"}, {"call ", ".call"}} {
		if strings.HasPrefix(t, p.pre) {
			return p.ctor + " " + q(t[len(p.pre):])
		}
	}
	return ".raw " + q(t)
}

func leanTokList(xs []string) string {
	ts := make([]string, len(xs))
	for i, x := range xs {
		ts[i] = leanTok(x)
	}
	return "[" + strings.Join(ts, ", ") + "]"
}

func leanStrList(xs []string) string {
	qs := make([]string, len(xs))
	for i, x := range xs {
		qs[i] = q(x)
	}
	return "[" + strings.Join(qs, ", ") + "]"
}

func main() {
	repo := flag.String("repo", "/repo", "repository root")
	out := flag.String("out", "", "output Lean file")
	flag.Parse()
	if *out == "" {
		die("-out required")
	}
	var files []string
	for _, dir := range []string{"lang/step", "lang/service"} {
		m, _ := filepath.Glob(filepath.Join(*repo, dir, "*.go"))
		for _, f := range m {
			if !strings.HasSuffix(f, "_test.go") {
				files = append(files, f)
			}
		}
	}
	for _, f := range []string{"ProfilePack.go", "ProfileStepSplitPack.go", "ErrorSnapPack1.go", "AbstractPack.go"} {
		files = append(files, filepath.Join(*repo, "lang/pack", f))
	}
	sort.Strings(files)
	for _, f := range files {
		load(f)
	}

	var b strings.Builder
	b.WriteString("-- generated by xlate/c08 from lang/step, lang/service, lang/pack — do not edit\n")
	b.WriteString("import Golib.Step.Tok\n\nnamespace Gen.C08\n\n")

	b.WriteString("def consts : List (String × Int) := [\n")
	var cs []string
	for _, n := range constOrder {
		if strings.HasPrefix(n, "STEP_") || strings.HasPrefix(n, "SERVICE_") || n == "FATAL" || n == "WARNING" || n == "INFO" || n == "NONE" || n == "HTTPC_STEP_DEFAULT_VERSION" {
			cs = append(cs, fmt.Sprintf("  (%s, %d)", q(n), constVals[n]))
		}
	}
	b.WriteString(strings.Join(cs, ",\n") + "]\n\n")

	for _, r := range []struct{ def, fn string }{{"createStep", "CreateStep"}, {"createService", "CreateService"}} {
		b.WriteString("def " + r.def + " : List (Int × String) := [")
		var es []string
		for _, e := range registry(r.fn) {
			es = append(es, fmt.Sprintf("(%s, %s)", e[0], q(e[1])))
		}
		b.WriteString(strings.Join(es, ", ") + "]\n\n")
	}

	stepTypes := []string{"MethodStepX", "SqlStepX", "ResultSetStep", "SocketStep", "HttpcStepX", "ActiveStackStep",
		"MessageStep", "SecureMsgStep", "DBCStep", "MessageStepX", "SqlStep_3"}
	svcTypes := []string{"WasService", "AppService", "WasService2"}
	b.WriteString("def typeCodes : List (String × Int) := [")
	var tcs []string
	for _, t := range stepTypes {
		tcs = append(tcs, fmt.Sprintf("(%s, %s)", q(t), typeCode(t, "GetStepType")))
	}
	for _, t := range svcTypes {
		tcs = append(tcs, fmt.Sprintf("(%s, %s)", q(t), typeCode(t, "GetServiceType")))
	}
	b.WriteString(strings.Join(tcs, ", ") + "]\n\n")

	all := append(append([]string{}, stepTypes...), svcTypes...)
	all = append(all, "TxRecord", "ProfilePack", "ProfileStepSplitPack", "ErrorSnapPack1")
	for _, side := range []struct{ def, method string }{{"wskel", "Write"}, {"rskel", "Read"}} {
		for _, t := range all {
			sk := skeleton(t, side.method)
			b.WriteString(fmt.Sprintf("def %s_%s : List String :=\n  %s\n\n", side.def, t, leanStrList(sk)))
			b.WriteString(fmt.Sprintf("def %stok_%s : List Step.Tok :=\n  %s\n\n", side.def[:1], t, leanTokList(sk)))
		}
	}
	// state an object could carry from one Write to the next: unexported fields, fields assigned inside
	// Write (embedded writers and own helpers inlined), package-level variables of the three packages
	stateTypes := append([]string{"AbstractStep", "AbstractService", "AbstractPack"}, all...)
	b.WriteString("def unexportedFields : List (String × List (String × String)) := [\n")
	var us []string
	for _, t := range stateTypes {
		var fs []string
		for _, f := range unexported[t] {
			fs = append(fs, fmt.Sprintf("(%s, %s)", q(f[0]), q(f[1])))
		}
		us = append(us, fmt.Sprintf("  (%s, [%s])", q(t), strings.Join(fs, ", ")))
	}
	b.WriteString(strings.Join(us, ",\n") + "]\n\n")
	b.WriteString("def assignedInWrite : List (String × List String) := [\n")
	var aw []string
	for _, t := range all {
		var as []string
		for _, tok := range skeleton(t, "Write") {
			if strings.HasPrefix(tok, "assign ") {
				as = append(as, q(tok))
			}
		}
		aw = append(aw, fmt.Sprintf("  (%s, [%s])", q(t), strings.Join(as, ", ")))
	}
	b.WriteString(strings.Join(aw, ",\n") + "]\n\n")
	b.WriteString("def packageVars : List String := " + leanStrList(pkgVars) + "\n\n")

	// the builders that may be called more than once on one object
	b.WriteString("def setters : List (String × List Step.Tok) := [\n")
	var ss []string
	for _, st := range [][2]string{{"ProfilePack", "SetProfile"}, {"ProfileStepSplitPack", "SetProfile"}, {"ErrorSnapPack1", "SetProfile"},
		{"ErrorSnapPack1", "SetStack"}, {"MessageStepX", "SetCtr"}, {"SqlStep_3", "SetTrue"}} {
		ss = append(ss, fmt.Sprintf("  (%s, %s)", q(st[0]+"."+st[1]), leanTokList(skeleton(st[0], st[1]))))
	}
	b.WriteString(strings.Join(ss, ",\n") + "]\n\n")

	// the one-line accessors of the step types (every exported method that is not covered elsewhere)
	covered := map[string]bool{"AbstractStep": true}
	for _, t := range stepTypes {
		covered[t] = true
	}
	var akeys []string
	for k := range methods {
		parts := strings.SplitN(k, ".", 2)
		if covered[parts[0]] && ast.IsExported(parts[1]) && !notAccessor[parts[1]] {
			akeys = append(akeys, k)
		}
	}
	sort.Strings(akeys)
	b.WriteString("def accessors : List (String × String × String × String) := [\n")
	var as []string
	for _, k := range akeys {
		parts := strings.SplitN(k, ".", 2)
		kind, f := accessorSem(methods[k])
		as = append(as, fmt.Sprintf("  (%s, %s, %s, %s)", q(parts[0]), q(parts[1]), q(kind), q(f)))
	}
	b.WriteString(strings.Join(as, ",\n") + "]\n\n")

	// the constructors of the covered types
	isCovered := map[string]bool{}
	for _, t := range all {
		isCovered[t] = true
	}
	var cnames []string
	for n := range funcsTop {
		if strings.HasPrefix(n, "New") {
			if t, _, ok := ctorSem(n, 0); ok && isCovered[t] {
				cnames = append(cnames, n)
			}
		}
	}
	sort.Strings(cnames)
	b.WriteString("def ctors : List (String × String × List (String × String × Int)) := [\n")
	var cs2 []string
	for _, n := range cnames {
		t, inits, _ := ctorSem(n, 0)
		var is []string
		for _, in := range inits {
			is = append(is, fmt.Sprintf("(%s, %s, %s)", q(in[0]), q(in[1]), in[2]))
		}
		cs2 = append(cs2, fmt.Sprintf("  (%s, %s, [%s])", q(n), q(t), strings.Join(is, ", ")))
	}
	b.WriteString(strings.Join(cs2, ",\n") + "]\n\n")
	b.WriteString("end Gen.C08\n")
	if err := os.WriteFile(*out, []byte(b.String()), 0o644); err != nil {
		die("%v", err)
	}
}
