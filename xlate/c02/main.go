// xlate/c02 — tie A for C02: transcribes the facts of lang/value that fix the tagged value
// format into Lean data (lean/Golib/Gen/C02.lean).  It never judges; the obligations about the
// data are in lean/Golib/Props/C02Gen.lean.
//
//	consts      the const block of Value.go (name, value), sorted by name
//	factory     CreateValue: case label → type of the value the arm returns, sorted by label
//	types       per type with a GetValueType method: the constant it returns, the stream calls of
//	            Write and the stream / table calls of Read, in source order
//	writeValue  the calls of WriteValue, readValue the calls of ReadValue
//	pkgVars     the package-level vars of lang/value, io, util/hmap, util/hash; stateRefs: which function
//	            bodies mention them and whether they write them (hidden cross-call state)
//	guards      availability guards (CheckCount: consumes nothing, rejects only counts the remaining
//	            bytes cannot satisfy) are kept out of the skeletons and listed per method
//
// A shape it cannot transcribe is written as the string "?<what>", which no table of the model
// contains, so the obligation fails instead of being skipped.
package main

import (
	"flag"
	"fmt"
	"go/ast"
	"go/parser"
	"go/token"
	"os"
	"path/filepath"
	"sort"
	"strconv"
	"strings"
)

func q(s string) string { return strconv.Quote(s) }

// stream methods that read nothing: availability guards placed before an allocation or a loop
var guardCalls = map[string]bool{"CheckCount": true}
var guardsSeen = map[string][]string{}

func strList(xs []string) string {
	var qs []string
	for _, x := range xs {
		qs = append(qs, q(x))
	}
	return "[" + strings.Join(qs, ", ") + "]"
}

// name of the receiver type of a method
func recvType(fd *ast.FuncDecl) string {
	if fd.Recv == nil || len(fd.Recv.List) == 0 {
		return ""
	}
	t := fd.Recv.List[0].Type
	if s, ok := t.(*ast.StarExpr); ok {
		t = s.X
	}
	if id, ok := t.(*ast.Ident); ok {
		return id.Name
	}
	return "?recv"
}

// calls on the stream parameter (first parameter of the method), on this.table, and package-level
// WriteValue / ReadValue / CreateValue calls, in source order
func streamCalls(fd *ast.FuncDecl) []string {
	calls := []string{}
	if fd.Body == nil {
		return []string{"?nobody"}
	}
	param := ""
	if fd.Type.Params != nil && len(fd.Type.Params.List) > 0 && len(fd.Type.Params.List[0].Names) > 0 {
		param = fd.Type.Params.List[0].Names[0].Name
	}
	ast.Inspect(fd.Body, func(n ast.Node) bool {
		ce, ok := n.(*ast.CallExpr)
		if !ok {
			return true
		}
		switch f := ce.Fun.(type) {
		case *ast.SelectorExpr:
			switch x := f.X.(type) {
			case *ast.Ident:
				if x.Name == param || (param != "" && x.Name == "val") || x.Name == "v" {
					if guardCalls[f.Sel.Name] {
						// a guard consumes nothing and only rejects input on which decoding fails anyway:
						// it is not part of the layout skeleton, but it is reported (table `guards`)
						guardsSeen[recvType(fd)+"."+fd.Name.Name] = append(guardsSeen[recvType(fd)+"."+fd.Name.Name], f.Sel.Name)
					} else {
						calls = append(calls, f.Sel.Name)
					}
				}
			case *ast.SelectorExpr: // this.table.Put
				if x.Sel.Name == "table" && f.Sel.Name == "Put" {
					calls = append(calls, f.Sel.Name)
				}
			}
		case *ast.Ident:
			if f.Name == "WriteValue" || f.Name == "ReadValue" || f.Name == "CreateValue" {
				calls = append(calls, f.Name)
			}
		}
		return true
	})
	// the arguments of a call are visited after the call itself; restore evaluation order for
	// the one nested shape that occurs: out.WriteByte(val.GetValueType())
	for i := 0; i+1 < len(calls); i++ {
		if calls[i] == "GetValueType" && calls[i+1] == "WriteByte" {
			calls[i], calls[i+1] = calls[i+1], calls[i]
		}
	}
	return calls
}


// apiSkeleton: for the exported wrappers of the containers and the map-only entry points of Value.go
// (the calls Golib/Value/Api.lean models): every call of the body by name, in source order, plus
// every comparison against an upper-case constant ("==VALUE_TEXT").  It says WHICH constructor a
// wrapper stores (PutLong stores a DecimalValue, not a LongValue), WHICH type code a typed look-up
// tests, and that WriteMapValue / ReadMapValue / IntMapValue.WriteValue are tag byte + body.
var apiMethods = map[string]bool{
	"WriteMapValue": true, "ReadMapValue": true, "IntMapValue.WriteValue": true,
	"MapValue.Put": true, "MapValue.PutString": true, "MapValue.PutLong": true, "MapValue.NewList": true, "MapValue.PutAll": true, "MapValue.Clear": true,
	"MapValue.Get": true, "MapValue.GetString": true, "MapValue.GetBool": true, "MapValue.GetLong": true, "MapValue.GetFloat": true,
	"MapValue.ContainsKey": true, "MapValue.Size": true, "MapValue.IsEmpty": true,
	"IntMapValue.Put": true, "IntMapValue.PutString": true, "IntMapValue.PutLong": true, "IntMapValue.NewList": true, "IntMapValue.Clear": true,
	"IntMapValue.Get": true, "IntMapValue.GetString": true, "IntMapValue.GetBool": true, "IntMapValue.Size": true,
	"ListValue.Add": true, "ListValue.AddString": true, "ListValue.AddLong": true, "ListValue.Set": true, "ListValue.Clear": true,
	"ListValue.Get": true, "ListValue.GetString": true, "ListValue.GetBool": true, "ListValue.Size": true,
}

func apiSkeleton(fd *ast.FuncDecl) []string {
	out := []string{}
	if fd.Body == nil {
		return []string{"?nobody"}
	}
	isConst := func(e ast.Expr) (string, bool) {
		id, ok := e.(*ast.Ident)
		if !ok || id.Name == "" || id.Name != strings.ToUpper(id.Name) || !strings.ContainsAny(id.Name, "ABCDEFGHIJKLMNOPQRSTUVWXYZ") {
			return "", false
		}
		return id.Name, true
	}
	ast.Inspect(fd.Body, func(n ast.Node) bool {
		switch x := n.(type) {
		case *ast.CallExpr:
			switch f := x.Fun.(type) {
			case *ast.SelectorExpr:
				out = append(out, f.Sel.Name)
			case *ast.Ident:
				out = append(out, f.Name)
			default:
				out = append(out, "?call")
			}
		case *ast.BinaryExpr:
			if x.Op == token.EQL || x.Op == token.NEQ {
				for _, e := range []ast.Expr{x.X, x.Y} {
					if c, ok := isConst(e); ok {
						out = append(out, x.Op.String()+c)
					}
				}
			}
		case *ast.AssignStmt:
			// this.table = append(…) / this.table[idx] = … / this.table = []interface{}{}: what the list mutators do
			for _, l := range x.Lhs {
				switch t := l.(type) {
				case *ast.SelectorExpr:
					if t.Sel.Name == "table" {
						out = append(out, "table=")
					}
				case *ast.IndexExpr:
					if se, ok := t.X.(*ast.SelectorExpr); ok && se.Sel.Name == "table" {
						out = append(out, "table[]=")
					}
				}
			}
		}
		return true
	})
	return out
}

// ---------------------------------------------------------------- package-level state

// stateScan lists, for one package directory, its package-level `var` names and, per function or
// method, the package-level vars its body mentions: "r:NAME" when it is only read, "w:NAME" when it
// is assigned, incremented, indexed on the left of an assignment, appended to or has its address
// taken.  Identifiers are resolved syntactically: a name that is declared locally (parameter,
// := , var in the body) shadows the package-level one.
func stateScan(repo, dir string) (vars []string, refs [][2]string) {
	fset := token.NewFileSet()
	pkgs, err := parser.ParseDir(fset, filepath.Join(repo, dir), func(fi os.FileInfo) bool { return !strings.HasSuffix(fi.Name(), "_test.go") }, 0)
	if err != nil {
		return []string{"?parse"}, nil
	}
	isVar := map[string]bool{}
	var files []*ast.File
	for _, p := range pkgs {
		var names []string
		for n := range p.Files {
			names = append(names, n)
		}
		sort.Strings(names)
		for _, n := range names {
			files = append(files, p.Files[n])
		}
	}
	for _, f := range files {
		for _, d := range f.Decls {
			if gd, ok := d.(*ast.GenDecl); ok && gd.Tok == token.VAR {
				for _, sp := range gd.Specs {
					for _, n := range sp.(*ast.ValueSpec).Names {
						if n.Name != "_" {
							isVar[n.Name] = true
							vars = append(vars, n.Name)
						}
					}
				}
			}
		}
	}
	sort.Strings(vars)
	pkgLevel := func(id *ast.Ident) bool {
		if !isVar[id.Name] {
			return false
		}
		if id.Obj == nil {
			return true // declared in another file of the package
		}
		if vs, ok := id.Obj.Decl.(*ast.ValueSpec); ok {
			for _, f := range files {
				for _, d := range f.Decls {
					if gd, ok := d.(*ast.GenDecl); ok {
						for _, sp := range gd.Specs {
							if sp == ast.Spec(vs) {
								return true
							}
						}
					}
				}
			}
		}
		return false
	}
	rootIdent := func(e ast.Expr) *ast.Ident {
		for {
			switch x := e.(type) {
			case *ast.Ident:
				return x
			case *ast.IndexExpr:
				e = x.X
			case *ast.SelectorExpr:
				e = x.X
			case *ast.StarExpr:
				e = x.X
			case *ast.ParenExpr:
				e = x.X
			case *ast.SliceExpr:
				e = x.X
			default:
				return nil
			}
		}
	}
	for _, f := range files {
		for _, d := range f.Decls {
			fd, ok := d.(*ast.FuncDecl)
			if !ok || fd.Body == nil {
				continue
			}
			name := fd.Name.Name
			if rt := recvType(fd); rt != "" {
				name = rt + "." + name
			}
			written := map[string]bool{}
			read := map[string]bool{}
			selNames := map[*ast.Ident]bool{}
			ast.Inspect(fd.Body, func(n ast.Node) bool {
				switch x := n.(type) {
				case *ast.SelectorExpr:
					selNames[x.Sel] = true
				case *ast.KeyValueExpr:
					if id, ok := x.Key.(*ast.Ident); ok {
						selNames[id] = true // struct literal field name
					}
				case *ast.AssignStmt:
					for _, l := range x.Lhs {
						if id := rootIdent(l); id != nil && pkgLevel(id) {
							written[id.Name] = true
						}
					}
				case *ast.IncDecStmt:
					if id := rootIdent(x.X); id != nil && pkgLevel(id) {
						written[id.Name] = true
					}
				case *ast.UnaryExpr:
					if x.Op == token.AND {
						if id := rootIdent(x.X); id != nil && pkgLevel(id) {
							written[id.Name] = true
						}
					}
				case *ast.CallExpr:
					if fn, ok := x.Fun.(*ast.Ident); ok && (fn.Name == "append" || fn.Name == "copy" || fn.Name == "delete") && len(x.Args) > 0 {
						if id := rootIdent(x.Args[0]); id != nil && pkgLevel(id) {
							written[id.Name] = true
						}
					}
				}
				return true
			})
			ast.Inspect(fd.Body, func(n ast.Node) bool {
				if id, ok := n.(*ast.Ident); ok && !selNames[id] && pkgLevel(id) {
					read[id.Name] = true
				}
				return true
			})
			var names []string
			for v := range read {
				names = append(names, v)
			}
			sort.Strings(names)
			for _, v := range names {
				k := "r"
				if written[v] {
					k = "w"
				}
				refs = append(refs, [2]string{name, k + ":" + v})
			}
		}
	}
	sort.Slice(refs, func(i, j int) bool {
		if refs[i][0] != refs[j][0] {
			return refs[i][0] < refs[j][0]
		}
		return refs[i][1] < refs[j][1]
	})
	return
}

// type a constructor expression returns: NewXxx(...) → result type of func NewXxx
func main() {
	repo := flag.String("repo", "/repo", "repository root")
	out := flag.String("out", "", "output Lean file")
	flag.Parse()
	dir := filepath.Join(*repo, "lang", "value")
	fset := token.NewFileSet()
	pkgs, err := parser.ParseDir(fset, dir, func(fi os.FileInfo) bool { return !strings.HasSuffix(fi.Name(), "_test.go") }, 0)
	if err != nil {
		fmt.Fprintln(os.Stderr, err)
		os.Exit(1)
	}
	pkg := pkgs["value"]
	if pkg == nil {
		fmt.Fprintln(os.Stderr, "package value not found")
		os.Exit(1)
	}

	type tinfo struct {
		code  string
		write []string
		read  []string
	}
	types := map[string]*tinfo{}
	get := func(t string) *tinfo {
		if types[t] == nil {
			types[t] = &tinfo{code: "?none", write: []string{"?none"}, read: []string{"?none"}}
		}
		return types[t]
	}
	ctorResult := map[string]string{} // NewXxx → Xxx
	var consts [][2]string
	var factory [][2]string
	writeValue, readValue := []string{"?none"}, []string{"?none"}
	apiCalls := map[string][]string{}

	var files []string
	for name := range pkg.Files {
		files = append(files, name)
	}
	sort.Strings(files)
	for _, name := range files {
		f := pkg.Files[name]
		for _, d := range f.Decls {
			switch d := d.(type) {
			case *ast.GenDecl:
				if d.Tok != token.CONST || filepath.Base(name) != "Value.go" {
					continue
				}
				for _, s := range d.Specs {
					vs := s.(*ast.ValueSpec)
					for i, n := range vs.Names {
						val := "?expr"
						if i < len(vs.Values) {
							if bl, ok := vs.Values[i].(*ast.BasicLit); ok && bl.Kind == token.INT {
								val = bl.Value
							}
						}
						consts = append(consts, [2]string{n.Name, val})
					}
				}
			case *ast.FuncDecl:
				rt := recvType(d)
				if full := strings.TrimPrefix(rt+"."+d.Name.Name, "."); apiMethods[full] {
					apiCalls[full] = apiSkeleton(d)
				}
				switch {
				case rt == "" && strings.HasPrefix(d.Name.Name, "New"):
					if d.Type.Results != nil && len(d.Type.Results.List) == 1 {
						t := d.Type.Results.List[0].Type
						if s, ok := t.(*ast.StarExpr); ok {
							t = s.X
						}
						if id, ok := t.(*ast.Ident); ok {
							ctorResult[d.Name.Name] = id.Name
						}
					}
				case rt == "" && d.Name.Name == "WriteValue":
					writeValue = streamCalls(d)
				case rt == "" && d.Name.Name == "ReadValue":
					readValue = streamCalls(d)
				case rt != "" && d.Name.Name == "GetValueType":
					ti := get(rt)
					ti.code = "?shape"
					if d.Body != nil && len(d.Body.List) == 1 {
						if r, ok := d.Body.List[0].(*ast.ReturnStmt); ok && len(r.Results) == 1 {
							if id, ok := r.Results[0].(*ast.Ident); ok {
								ti.code = id.Name
							}
						}
					}
				case rt != "" && d.Name.Name == "Write":
					get(rt).write = streamCalls(d)
				case rt != "" && d.Name.Name == "Read":
					get(rt).read = streamCalls(d)
				}
			}
		}
	}
	// CreateValue (needs ctorResult complete)
	for _, name := range files {
		for _, d := range pkg.Files[name].Decls {
			fd, ok := d.(*ast.FuncDecl)
			if !ok || fd.Recv != nil || fd.Name.Name != "CreateValue" || fd.Body == nil {
				continue
			}
			for _, st := range fd.Body.List {
				sw, ok := st.(*ast.SwitchStmt)
				if !ok {
					continue
				}
				for _, c := range sw.Body.List {
					cc := c.(*ast.CaseClause)
					ty := "?arm"
					if len(cc.Body) >= 1 {
						if r, ok := cc.Body[0].(*ast.ReturnStmt); ok && len(r.Results) == 1 {
							if ce, ok := r.Results[0].(*ast.CallExpr); ok {
								if id, ok := ce.Fun.(*ast.Ident); ok {
									if t, ok := ctorResult[id.Name]; ok {
										ty = t
									} else {
										ty = "?ctor:" + id.Name
									}
								}
							}
						}
					}
					if len(cc.List) == 0 {
						factory = append(factory, [2]string{"?default", ty})
					}
					for _, l := range cc.List {
						lab := "?label"
						if id, ok := l.(*ast.Ident); ok {
							lab = id.Name
						} else if bl, ok := l.(*ast.BasicLit); ok {
							lab = "?lit:" + bl.Value
						}
						factory = append(factory, [2]string{lab, ty})
					}
				}
			}
		}
	}

	// declaration order and arm order carry no meaning: sort, so that a reordering stays quiet
	sort.SliceStable(consts, func(i, j int) bool { return consts[i][0] < consts[j][0] })
	sort.SliceStable(factory, func(i, j int) bool { return factory[i][0] < factory[j][0] })

	var b strings.Builder
	b.WriteString("-- generated by xlate/c02 from lang/value — do not edit\nnamespace Gen.C02\n\n")
	b.WriteString("def consts : List (String × Nat) :=\n  [")
	for i, c := range consts {
		if i > 0 {
			b.WriteString(",\n   ")
		}
		v := c[1]
		if strings.HasPrefix(v, "?") {
			v = "999999"
		}
		fmt.Fprintf(&b, "(%s, %s)", q(c[0]), v)
	}
	b.WriteString("]\n\ndef factory : List (String × String) :=\n  [")
	for i, c := range factory {
		if i > 0 {
			b.WriteString(",\n   ")
		}
		fmt.Fprintf(&b, "(%s, %s)", q(c[0]), q(c[1]))
	}
	b.WriteString("]\n\ndef types : List (String × String × List String × List String) :=\n  [")
	var tn []string
	for t, ti := range types {
		if ti.code == "?none" { // not a value type (no GetValueType)
			continue
		}
		tn = append(tn, t)
	}
	sort.Strings(tn)
	for i, t := range tn {
		if i > 0 {
			b.WriteString(",\n   ")
		}
		ti := types[t]
		fmt.Fprintf(&b, "(%s, %s, %s, %s)", q(t), q(ti.code), strList(ti.write), strList(ti.read))
	}
	b.WriteString("]\n\n")
	fmt.Fprintf(&b, "def writeValue : List String := %s\ndef readValue : List String := %s\n\n", strList(writeValue), strList(readValue))
	b.WriteString("/-- guard calls (no bytes consumed) left out of the skeletons above: (type, method, guards) -/\ndef guards : List (String × String × List String) :=\n  [")
	var gk []string
	for k := range guardsSeen {
		gk = append(gk, k)
	}
	sort.Strings(gk)
	for i, k := range gk {
		if i > 0 {
			b.WriteString(",\n   ")
		}
		parts := strings.SplitN(k, ".", 2)
		fmt.Fprintf(&b, "(%s, %s, %s)", q(parts[0]), q(parts[1]), strList(guardsSeen[k]))
	}
	b.WriteString("]\n\n")
	b.WriteString("/-- the exported wrappers / look-ups of the containers and the map-only entry points: calls and constant comparisons of the body, in source order -/\ndef apiCalls : List (String × List String) :=\n  [")
	var ak []string
	for k := range apiMethods {
		ak = append(ak, k)
	}
	sort.Strings(ak)
	for i, k := range ak {
		if i > 0 {
			b.WriteString(",\n   ")
		}
		c, ok := apiCalls[k]
		if !ok {
			c = []string{"?missing"}
		}
		fmt.Fprintf(&b, "(%s, %s)", q(k), strList(c))
	}
	b.WriteString("]\n\n")
	b.WriteString("/-- package-level `var`s per package, and per function the package-level vars its body mentions\n    (r: read only, w: assigned / incremented / appended to / address taken) -/\n")
	var pvs, rws []string
	for _, dir := range []string{"lang/value", "io", "util/hmap", "util/hash"} {
		vars, refs := stateScan(*repo, dir)
		pvs = append(pvs, fmt.Sprintf("(%s, %s)", q(dir), strList(vars)))
		for _, r := range refs {
			rws = append(rws, fmt.Sprintf("(%s, %s, %s, %s)", q(dir), q(r[0]), q(r[1][:1]), q(r[1][2:])))
		}
	}
	b.WriteString("def pkgVars : List (String × List String) :=\n  [" + strings.Join(pvs, ",\n   ") + "]\n\n")
	b.WriteString("def stateRefs : List (String × String × String × String) :=\n  [" + strings.Join(rws, ",\n   ") + "]\n\nend Gen.C02\n")
	if *out == "" {
		fmt.Print(b.String())
		return
	}
	if err := os.WriteFile(*out, []byte(b.String()), 0o644); err != nil {
		fmt.Fprintln(os.Stderr, err)
		os.Exit(1)
	}
}
