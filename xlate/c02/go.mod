module verif/xlate/c02

go 1.23
