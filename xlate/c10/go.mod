module verif/xlate/c10

go 1.23
