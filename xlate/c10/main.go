// xlate/c10 — tie A for properties C10 and C11.
//
// Transcribes the lock discipline of every collection type (a struct with a field of type
// sync.Mutex / *sync.Mutex / *sync.Cond) in util/hmap, util/list and util/queue into Lean
// data (lean/Golib/Gen/Locks.lean, vocabulary in lean/Golib/Conc/LockFacts.lean):
// per type, per method: does it acquire the instance lock, is the acquisition the
// `Lock(); defer Unlock()` pattern, which own methods it calls while holding / not holding the
// lock, which receiver fields it touches while holding / not holding it, calls on sub-objects,
// callbacks under the lock, and (queue types) the execution paths through the body with their
// branch conditions, Wait / Broadcast sites and calls.
//
// The tool never judges: `no_self_deadlock_T`, `point_ops_atomic_T`, `queue_locks`, the
// wait/broadcast obligations are Lean functions evaluated by `decide` over this data
// (lean/Golib/Props/C10Gen.lean, C11Gen.lean).  A construct it cannot follow sets `irregular`,
// which the obligations reject.
package main

import (
	"bytes"
	"encoding/json"
	"flag"
	"fmt"
	"go/ast"
	"go/parser"
	"go/printer"
	"go/token"
	"os"
	"path/filepath"
	"regexp"
	"sort"
	"strconv"
	"strings"
)

var fset = token.NewFileSet()

type access struct {
	root, path string
	write      bool
}

type method struct {
	name        string
	exported    bool
	acquires    bool
	lockFirst   bool
	deferUnlock bool
	irregular   bool
	callsHeld   []string
	callsFree   []string
	accHeld     []access
	accFree     []access
	fcHeld      [][2]string
	fcFree      [][2]string
	cbHeld      []string
	paths       [][]string // Lean Tok terms
	valueRecv   bool       // declared on T, not *T: every call copies the struct and its lock
	rlock       bool       // takes the read side of an RWMutex
	ptrWrites   bool       // assigns through a selector / index / pointer other than a receiver field
	otherLocks  []string   // identifiers (≠ receiver) whose instance lock this method takes
	underOther  []string   // own methods called (or "#own-lock") while another instance's lock is held
	retSlice    bool       // the method's single result is a slice
	sliceRets   []string   // per return statement: fresh | nil | call:<own method> | stored:<expr>
	extCalls    []string   // calls `X.F(…)` on identifiers other than the receiver (package functions, locals), in order of first occurrence
}

type typ struct {
	name, file string
	lockField  string
	lockKind   string
	fields     []string
	fieldSet   map[string]bool
	methodSet  map[string]bool
	methods    []*method
	decls      []*ast.FuncDecl
}

func exprString(e ast.Expr) string {
	var b bytes.Buffer
	printer.Fprint(&b, fset, e)
	return strings.Join(strings.Fields(b.String()), " ")
}

// recvRe matches the receiver identifier of the method being transcribed; conditions and return
// expressions are printed with the receiver renamed to `this`, so that a renamed receiver is not
// a different fact.
var recvRe *regexp.Regexp

func normString(e ast.Expr) string {
	s := exprString(e)
	if recvRe != nil {
		s = recvRe.ReplaceAllString(s, "this.")
	}
	return s
}

func lockKindOf(t ast.Expr) string {
	s := exprString(t)
	switch s {
	case "sync.Mutex", "*sync.Mutex", "sync.RWMutex", "*sync.RWMutex":
		return "mutex"
	case "*sync.Cond", "sync.Cond":
		return "cond"
	}
	return ""
}

// ---------------------------------------------------------------- per-method walker

type walker struct {
	t         *typ
	m         *method
	recv      string
	held      bool
	otherHeld int
}

// otherLockOp recognises X.lock.Lock() / X.lock.L.Lock() … for an identifier X that is not the receiver
func (w *walker) otherLockOp(call *ast.CallExpr) (string, string) {
	sel, ok := call.Fun.(*ast.SelectorExpr)
	if !ok {
		return "", ""
	}
	base := sel.X
	if s2, ok := base.(*ast.SelectorExpr); ok && s2.Sel.Name == "L" {
		base = s2.X
	}
	s3, ok := base.(*ast.SelectorExpr)
	if !ok {
		return "", ""
	}
	id, ok := s3.X.(*ast.Ident)
	if !ok || id.Name == w.recv || s3.Sel.Name != w.t.lockField {
		return "", ""
	}
	switch sel.Sel.Name {
	case "Lock", "Unlock", "RLock", "RUnlock":
		return sel.Sel.Name, id.Name
	}
	return "", ""
}

func addStr(xs *[]string, s string) {
	for _, x := range *xs {
		if x == s {
			return
		}
	}
	*xs = append(*xs, s)
}
func addAcc(xs *[]access, a access) {
	for _, x := range *xs {
		if x == a {
			return
		}
	}
	*xs = append(*xs, a)
}
func addPair(xs *[][2]string, p [2]string) {
	for _, x := range *xs {
		if x == p {
			return
		}
	}
	*xs = append(*xs, p)
}

// chain unwinds recv.f.g[i].h down to the receiver identifier.
// Returns root field, printable path and the index expressions met on the way.
func (w *walker) chain(e ast.Expr) (root, path string, idx []ast.Expr, ok bool) {
	switch x := e.(type) {
	case *ast.ParenExpr:
		return w.chain(x.X)
	case *ast.StarExpr:
		return w.chain(x.X)
	case *ast.SelectorExpr:
		if id, isId := x.X.(*ast.Ident); isId && id.Name == w.recv {
			return x.Sel.Name, x.Sel.Name, nil, true
		}
		r, p, ix, ok := w.chain(x.X)
		if ok {
			return r, p + "." + x.Sel.Name, ix, true
		}
	case *ast.IndexExpr:
		r, p, ix, ok := w.chain(x.X)
		if ok {
			return r, p + "[]", append(ix, x.Index), true
		}
	case *ast.SliceExpr:
		r, p, ix, ok := w.chain(x.X)
		if ok {
			for _, s := range []ast.Expr{x.Low, x.High, x.Max} {
				if s != nil {
					ix = append(ix, s)
				}
			}
			return r, p + "[:]", ix, true
		}
	}
	return "", "", nil, false
}

func (w *walker) recordAccess(root, path string, write bool) {
	if root == w.t.lockField {
		return
	}
	if !w.t.fieldSet[root] {
		return // a method value or unknown selector
	}
	a := access{root, path, write}
	if w.held {
		addAcc(&w.m.accHeld, a)
	} else {
		addAcc(&w.m.accFree, a)
	}
}

// lockOp recognises recv.lock.Lock / recv.lock.L.Lock / Unlock / Wait / Broadcast / Signal
func (w *walker) lockOp(call *ast.CallExpr) string {
	sel, ok := call.Fun.(*ast.SelectorExpr)
	if !ok {
		return ""
	}
	base := sel.X
	if s2, ok := base.(*ast.SelectorExpr); ok && s2.Sel.Name == "L" {
		base = s2.X
	}
	s3, ok := base.(*ast.SelectorExpr)
	if !ok {
		return ""
	}
	id, ok := s3.X.(*ast.Ident)
	if !ok || id.Name != w.recv || s3.Sel.Name != w.t.lockField {
		return ""
	}
	switch sel.Sel.Name {
	case "Lock", "Unlock", "Wait", "Broadcast", "Signal", "RLock", "RUnlock":
		return sel.Sel.Name
	}
	return "?" + sel.Sel.Name
}

func (w *walker) expr(e ast.Expr) {
	if e == nil {
		return
	}
	switch x := e.(type) {
	case *ast.CallExpr:
		if op := w.lockOp(x); op != "" {
			// a lock operation inside an expression (not a statement of its own): not the pattern
			w.m.irregular = true
			return
		}
		w.call(x)
	case *ast.SelectorExpr, *ast.IndexExpr, *ast.SliceExpr, *ast.StarExpr, *ast.ParenExpr:
		if root, path, idx, ok := w.chain(e); ok {
			w.recordAccess(root, path, false)
			for _, i := range idx {
				w.expr(i)
			}
			return
		}
		switch y := e.(type) {
		case *ast.SelectorExpr:
			w.expr(y.X)
		case *ast.IndexExpr:
			w.expr(y.X)
			w.expr(y.Index)
		case *ast.SliceExpr:
			w.expr(y.X)
			w.expr(y.Low)
			w.expr(y.High)
			w.expr(y.Max)
		case *ast.StarExpr:
			w.expr(y.X)
		case *ast.ParenExpr:
			w.expr(y.X)
		}
	case *ast.BinaryExpr:
		w.expr(x.X)
		w.expr(x.Y)
	case *ast.UnaryExpr:
		w.expr(x.X)
	case *ast.TypeAssertExpr:
		w.expr(x.X)
	case *ast.KeyValueExpr:
		w.expr(x.Value)
	case *ast.CompositeLit:
		for _, el := range x.Elts {
			w.expr(el)
		}
	case *ast.FuncLit:
		w.block(x.Body.List)
	case *ast.Ident, *ast.BasicLit:
	default:
	}
}

func (w *walker) call(x *ast.CallExpr) {
	for _, a := range x.Args {
		w.expr(a)
	}
	sel, ok := x.Fun.(*ast.SelectorExpr)
	if !ok {
		w.expr(x.Fun)
		return
	}
	if id, ok := sel.X.(*ast.Ident); ok && id.Name != w.recv {
		addStr(&w.m.extCalls, id.Name+"."+sel.Sel.Name)
	}
	// recv.M(...)
	if id, ok := sel.X.(*ast.Ident); ok && id.Name == w.recv {
		name := sel.Sel.Name
		if w.t.methodSet[name] {
			if w.held {
				addStr(&w.m.callsHeld, name)
			} else {
				addStr(&w.m.callsFree, name)
			}
			if w.otherHeld > 0 {
				addStr(&w.m.underOther, name)
			}
			return
		}
		if w.t.fieldSet[name] { // function-valued field
			w.recordAccess(name, name, false)
			if w.held {
				addStr(&w.m.cbHeld, name)
			}
			return
		}
		return
	}
	// recv.f.M(...)  — call on a sub-object
	if s2, ok := sel.X.(*ast.SelectorExpr); ok {
		if id, ok := s2.X.(*ast.Ident); ok && id.Name == w.recv && w.t.fieldSet[s2.Sel.Name] && s2.Sel.Name != w.t.lockField {
			p := [2]string{s2.Sel.Name, sel.Sel.Name}
			if w.held {
				addPair(&w.m.fcHeld, p)
			} else {
				addPair(&w.m.fcFree, p)
			}
			w.recordAccess(s2.Sel.Name, s2.Sel.Name, false)
			return
		}
	}
	w.expr(sel.X)
}

func (w *walker) lhs(e ast.Expr) {
	if root, path, idx, ok := w.chain(e); ok {
		w.recordAccess(root, path, true)
		for _, i := range idx {
			w.expr(i)
		}
		return
	}
	switch e.(type) {
	case *ast.SelectorExpr, *ast.IndexExpr, *ast.StarExpr:
		w.m.ptrWrites = true // e.link_next = …, tab[i] = …: mutation of the structure through an alias
	}
	w.expr(e)
}

func (w *walker) block(list []ast.Stmt) {
	for _, s := range list {
		w.stmt(s, false, 0)
	}
}

func (w *walker) stmt(s ast.Stmt, top bool, pos int) {
	switch x := s.(type) {
	case *ast.ExprStmt:
		if call, ok := x.X.(*ast.CallExpr); ok {
			if op, who := w.otherLockOp(call); op != "" {
				if op == "Lock" || op == "RLock" {
					addStr(&w.m.otherLocks, who)
					w.otherHeld++
				} else if w.otherHeld > 0 {
					w.otherHeld--
				}
				return
			}
			switch w.lockOp(call) {
			case "RLock":
				w.m.rlock = true
				w.m.acquires = true
				w.m.irregular = true // not the Lock(); defer Unlock() pattern the machine models
				w.held = true
				if w.otherHeld > 0 {
					addStr(&w.m.underOther, "#own-lock")
				}
				return
			case "Lock":
				if w.otherHeld > 0 {
					addStr(&w.m.underOther, "#own-lock")
				}
				if w.held || !top {
					w.m.irregular = true
				}
				if !w.m.acquires && top && pos == 0 {
					w.m.lockFirst = true
				}
				w.m.acquires = true
				w.held = true
				return
			case "Unlock":
				w.m.irregular = true
				w.held = false
				return
			case "Wait", "Broadcast", "Signal":
				if !w.held {
					w.m.irregular = true
				}
				return
			case "":
			default:
				w.m.irregular = true
				return
			}
		}
		w.expr(x.X)
	case *ast.DeferStmt:
		if op, _ := w.otherLockOp(x.Call); op != "" {
			return // deferred release of the other instance's lock: held until the method returns
		}
		if op := w.lockOp(x.Call); op != "" {
			if op == "Unlock" && top && w.held {
				w.m.deferUnlock = true
				if pos != 1 {
					w.m.lockFirst = false
				}
			} else {
				w.m.irregular = true
			}
			return
		}
		w.call(x.Call)
	case *ast.GoStmt:
		w.call(x.Call)
	case *ast.AssignStmt:
		for _, r := range x.Rhs {
			w.expr(r)
		}
		for _, l := range x.Lhs {
			if x.Tok == token.DEFINE {
				continue
			}
			w.lhs(l)
			if x.Tok != token.ASSIGN { // op-assign also reads
				w.expr(l)
			}
		}
	case *ast.IncDecStmt:
		w.lhs(x.X)
		w.expr(x.X)
	case *ast.ReturnStmt:
		for _, r := range x.Results {
			w.expr(r)
		}
	case *ast.BlockStmt:
		w.block(x.List)
	case *ast.IfStmt:
		if x.Init != nil {
			w.stmt(x.Init, false, 0)
		}
		w.expr(x.Cond)
		w.block(x.Body.List)
		if x.Else != nil {
			w.stmt(x.Else, false, 0)
		}
	case *ast.ForStmt:
		if x.Init != nil {
			w.stmt(x.Init, false, 0)
		}
		w.expr(x.Cond)
		if x.Post != nil {
			w.stmt(x.Post, false, 0)
		}
		w.block(x.Body.List)
	case *ast.RangeStmt:
		w.expr(x.X)
		w.block(x.Body.List)
	case *ast.SwitchStmt:
		if x.Init != nil {
			w.stmt(x.Init, false, 0)
		}
		w.expr(x.Tag)
		for _, c := range x.Body.List {
			cc := c.(*ast.CaseClause)
			for _, e := range cc.List {
				w.expr(e)
			}
			w.block(cc.Body)
		}
	case *ast.TypeSwitchStmt:
		if x.Init != nil {
			w.stmt(x.Init, false, 0)
		}
		w.stmt(x.Assign, false, 0)
		for _, c := range x.Body.List {
			w.block(c.(*ast.CaseClause).Body)
		}
	case *ast.SelectStmt:
		for _, c := range x.Body.List {
			cc := c.(*ast.CommClause)
			if cc.Comm != nil {
				w.stmt(cc.Comm, false, 0)
			}
			w.block(cc.Body)
		}
	case *ast.SendStmt:
		w.expr(x.Chan)
		w.expr(x.Value)
	case *ast.DeclStmt:
		if gd, ok := x.Decl.(*ast.GenDecl); ok {
			for _, sp := range gd.Specs {
				if vs, ok := sp.(*ast.ValueSpec); ok {
					for _, v := range vs.Values {
						w.expr(v)
					}
				}
			}
		}
	case *ast.LabeledStmt:
		w.stmt(x.Stmt, false, 0)
	case *ast.BranchStmt, *ast.EmptyStmt:
	default:
		w.m.irregular = true
	}
}

// ---------------------------------------------------------------- execution paths (queue types)

const maxPaths = 64

type pathgen struct {
	w     *walker
	over  bool
	depth int
}

func q(s string) string { return strconv.Quote(s) }

// callTokens lists the lock operations and calls of an expression, in evaluation order.
func (p *pathgen) exprToks(e ast.Expr) []string {
	var out []string
	ast.Inspect(e, func(n ast.Node) bool {
		call, ok := n.(*ast.CallExpr)
		if !ok {
			return true
		}
		for _, a := range call.Args {
			out = append(out, p.exprToks(a)...)
		}
		switch p.w.lockOp(call) {
		case "Lock":
			out = append(out, ".lock")
		case "Unlock":
			out = append(out, ".unlock")
		case "Wait":
			out = append(out, ".wait")
		case "Broadcast":
			out = append(out, ".broadcast")
		case "Signal":
			out = append(out, ".signal")
		case "":
			if sel, ok := call.Fun.(*ast.SelectorExpr); ok {
				if root, path, _, ok := p.w.chain(sel); ok {
					_ = root
					out = append(out, ".call "+q(path))
				} else {
					out = append(out, ".call "+q(normString(call.Fun)))
				}
			} else {
				out = append(out, ".call "+q(normString(call.Fun)))
			}
		default:
			out = append(out, ".other")
		}
		return false
	})
	return out
}

// a path set: each path is a token list plus a flag whether it has terminated (return)
type ppath struct {
	toks []string
	done bool
}

func cp(p ppath, extra ...string) ppath {
	t := make([]string, 0, len(p.toks)+len(extra))
	t = append(t, p.toks...)
	t = append(t, extra...)
	return ppath{t, p.done}
}

func (p *pathgen) seq(paths []ppath, list []ast.Stmt) []ppath {
	for _, s := range list {
		paths = p.stmt(paths, s)
		if len(paths) > maxPaths {
			p.over = true
			paths = paths[:maxPaths]
		}
	}
	return paths
}

func (p *pathgen) each(paths []ppath, f func(ppath) []ppath) []ppath {
	var out []ppath
	for _, x := range paths {
		if x.done {
			out = append(out, x)
		} else {
			out = append(out, f(x)...)
		}
	}
	return out
}

func (p *pathgen) stmt(paths []ppath, s ast.Stmt) []ppath {
	switch x := s.(type) {
	case *ast.ExprStmt:
		t := p.exprToks(x.X)
		return p.each(paths, func(a ppath) []ppath { return []ppath{cp(a, t...)} })
	case *ast.DeferStmt:
		if p.w.lockOp(x.Call) == "Unlock" {
			return p.each(paths, func(a ppath) []ppath { return []ppath{cp(a, ".deferUnlock")} })
		}
		return p.each(paths, func(a ppath) []ppath { return []ppath{cp(a, ".other")} })
	case *ast.AssignStmt:
		var t []string
		for _, r := range x.Rhs {
			t = append(t, p.exprToks(r)...)
		}
		if x.Tok != token.DEFINE {
			for _, l := range x.Lhs {
				if _, path, _, ok := p.w.chain(l); ok {
					t = append(t, ".assign "+q(path))
				}
			}
		}
		return p.each(paths, func(a ppath) []ppath { return []ppath{cp(a, t...)} })
	case *ast.IncDecStmt:
		var t []string
		if _, path, _, ok := p.w.chain(x.X); ok {
			t = append(t, ".assign "+q(path))
		}
		return p.each(paths, func(a ppath) []ppath { return []ppath{cp(a, t...)} })
	case *ast.ReturnStmt:
		var t []string
		var rs []string
		for _, r := range x.Results {
			t = append(t, p.exprToks(r)...)
			rs = append(rs, normString(r))
		}
		t = append(t, ".ret "+q(strings.Join(rs, ", ")))
		return p.each(paths, func(a ppath) []ppath { b := cp(a, t...); b.done = true; return []ppath{b} })
	case *ast.BlockStmt:
		return p.seq(paths, x.List)
	case *ast.IfStmt:
		if x.Init != nil {
			paths = p.stmt(paths, x.Init)
		}
		c := normString(x.Cond)
		ct := p.exprToks(x.Cond)
		return p.each(paths, func(a ppath) []ppath {
			yes := p.seq([]ppath{cp(a, append(append([]string{}, ct...), ".assume "+q(c))...)}, x.Body.List)
			no := []ppath{cp(a, append(append([]string{}, ct...), ".assumeNot "+q(c))...)}
			if x.Else != nil {
				no = p.stmt(no, x.Else)
			}
			return append(yes, no...)
		})
	case *ast.ForStmt:
		if x.Init != nil {
			paths = p.stmt(paths, x.Init)
		}
		if x.Cond == nil {
			p.over = true
			return paths
		}
		c := normString(x.Cond)
		ct := p.exprToks(x.Cond)
		// unroll 0, 1 and 2 iterations
		return p.each(paths, func(a ppath) []ppath {
			var out []ppath
			cur := []ppath{a}
			for it := 0; it <= 2; it++ {
				for _, b := range cur {
					if !b.done {
						out = append(out, cp(b, append(append([]string{}, ct...), ".assumeNot "+q(c))...))
					} else {
						out = append(out, b)
					}
				}
				if it == 2 {
					break
				}
				var nxt []ppath
				for _, b := range cur {
					if b.done {
						continue
					}
					body := p.seq([]ppath{cp(b, append(append([]string{}, ct...), ".assume "+q(c))...)}, x.Body.List)
					if x.Post != nil {
						body = p.stmt(body, x.Post)
					}
					nxt = append(nxt, body...)
				}
				cur = nxt
			}
			return out
		})
	case *ast.DeclStmt, *ast.EmptyStmt:
		return paths
	default:
		p.over = true
		return p.each(paths, func(a ppath) []ppath { return []ppath{cp(a, ".other")} })
	}
}

// ---------------------------------------------------------------- driver

func collect(dir string, only map[string]bool, types map[string]*typ, order *[]string) {
	ents, err := os.ReadDir(dir)
	if err != nil {
		fmt.Fprintln(os.Stderr, err)
		os.Exit(1)
	}
	var files []*ast.File
	var names []string
	for _, e := range ents {
		n := e.Name()
		if !strings.HasSuffix(n, ".go") || strings.HasSuffix(n, "_test.go") {
			continue
		}
		if only != nil && !only[n] {
			continue
		}
		f, err := parser.ParseFile(fset, filepath.Join(dir, n), nil, 0)
		if err != nil {
			fmt.Fprintln(os.Stderr, err)
			os.Exit(1)
		}
		files = append(files, f)
		names = append(names, n)
	}
	local := map[string]*typ{}
	for i, f := range files {
		for _, d := range f.Decls {
			gd, ok := d.(*ast.GenDecl)
			if !ok || gd.Tok != token.TYPE {
				continue
			}
			for _, sp := range gd.Specs {
				ts := sp.(*ast.TypeSpec)
				st, ok := ts.Type.(*ast.StructType)
				if !ok {
					continue
				}
				t := &typ{name: ts.Name.Name, file: filepath.Base(dir) + "/" + names[i], fieldSet: map[string]bool{}, methodSet: map[string]bool{}}
				for _, fl := range st.Fields.List {
					k := lockKindOf(fl.Type)
					for _, nm := range fl.Names {
						t.fields = append(t.fields, nm.Name)
						t.fieldSet[nm.Name] = true
						if k != "" && t.lockField == "" {
							t.lockField = nm.Name
							t.lockKind = k
						}
					}
				}
				if t.lockField != "" {
					local[t.name] = t
					types[t.name] = t
					*order = append(*order, t.name)
				}
			}
		}
	}
	for _, f := range files {
		for _, d := range f.Decls {
			fd, ok := d.(*ast.FuncDecl)
			if !ok || fd.Recv == nil || fd.Body == nil || len(fd.Recv.List) == 0 {
				continue
			}
			rt := fd.Recv.List[0].Type
			if st, ok := rt.(*ast.StarExpr); ok {
				rt = st.X
			}
			id, ok := rt.(*ast.Ident)
			if !ok {
				continue
			}
			if t := local[id.Name]; t != nil {
				t.methodSet[fd.Name.Name] = true
				t.decls = append(t.decls, fd)
			}
		}
	}
}

// sliceResults classifies what a slice-returning method returns: a slice allocated in this call
// (`make`, a composite literal, a declared-and-appended local), nil, the result of another own method,
// or something stored (a field, a slice of a field, a local that was ever assigned anything else).
func sliceResults(fd *ast.FuncDecl, recv string, methodSet map[string]bool) (bool, []string) {
	if fd.Type.Results == nil || len(fd.Type.Results.List) != 1 {
		return false, nil
	}
	at, ok := fd.Type.Results.List[0].Type.(*ast.ArrayType)
	if !ok || at.Len != nil {
		return false, nil
	}
	isAlloc := func(e ast.Expr) bool {
		switch x := e.(type) {
		case *ast.CompositeLit:
			_, ok := x.Type.(*ast.ArrayType)
			return ok
		case *ast.CallExpr:
			if id, ok := x.Fun.(*ast.Ident); ok && id.Name == "make" {
				return true
			}
		}
		return false
	}
	fresh := map[string]bool{}
	tainted := map[string]bool{}
	var isFreshExpr func(e ast.Expr) bool
	isFreshExpr = func(e ast.Expr) bool {
		if isAlloc(e) {
			return true
		}
		switch x := e.(type) {
		case *ast.Ident:
			return x.Name == "nil" || (fresh[x.Name] && !tainted[x.Name])
		case *ast.CallExpr: // append(fresh, …) stays fresh
			if id, ok := x.Fun.(*ast.Ident); ok && id.Name == "append" && len(x.Args) > 0 {
				return isFreshExpr(x.Args[0])
			}
		case *ast.ParenExpr:
			return isFreshExpr(x.X)
		}
		return false
	}
	var rets []string
	ast.Inspect(fd.Body, func(n ast.Node) bool {
		switch x := n.(type) {
		case *ast.FuncLit:
			return false
		case *ast.DeclStmt:
			if gd, ok := x.Decl.(*ast.GenDecl); ok {
				for _, sp := range gd.Specs {
					if vs, ok := sp.(*ast.ValueSpec); ok {
						if _, isSlice := vs.Type.(*ast.ArrayType); isSlice && len(vs.Values) == 0 {
							for _, nm := range vs.Names {
								fresh[nm.Name] = true
							}
						}
						for i, v := range vs.Values {
							if i < len(vs.Names) {
								if isFreshExpr(v) {
									fresh[vs.Names[i].Name] = true
								} else {
									tainted[vs.Names[i].Name] = true
								}
							}
						}
					}
				}
			}
		case *ast.AssignStmt:
			if len(x.Lhs) == len(x.Rhs) {
				for i, l := range x.Lhs {
					if id, ok := l.(*ast.Ident); ok {
						if isFreshExpr(x.Rhs[i]) {
							fresh[id.Name] = true
						} else {
							tainted[id.Name] = true
						}
					}
				}
			}
		case *ast.ReturnStmt:
			if len(x.Results) != 1 {
				rets = append(rets, "stored:?")
				return true
			}
			r := x.Results[0]
			switch {
			case isFreshExpr(r):
				if id, ok := r.(*ast.Ident); ok && id.Name == "nil" {
					rets = append(rets, "nil")
				} else {
					rets = append(rets, "fresh")
				}
			default:
				if call, ok := r.(*ast.CallExpr); ok {
					if sel, ok := call.Fun.(*ast.SelectorExpr); ok {
						if id, ok := sel.X.(*ast.Ident); ok && id.Name == recv && methodSet[sel.Sel.Name] {
							rets = append(rets, "call:"+sel.Sel.Name)
							return true
						}
					}
				}
				rets = append(rets, "stored:"+exprString(r))
			}
		}
		return true
	})
	return true, rets
}

func analyse(t *typ) {
	for _, fd := range t.decls {
		m := &method{name: fd.Name.Name, exported: ast.IsExported(fd.Name.Name)}
		if _, isPtr := fd.Recv.List[0].Type.(*ast.StarExpr); !isPtr {
			m.valueRecv = true
		}
		recv := "_"
		if len(fd.Recv.List[0].Names) > 0 {
			recv = fd.Recv.List[0].Names[0].Name
		}
		m.retSlice, m.sliceRets = sliceResults(fd, recv, t.methodSet)
		w := &walker{t: t, m: m, recv: recv}
		for i, s := range fd.Body.List {
			w.stmt(s, true, i)
		}
		if m.acquires && !m.deferUnlock {
			m.lockFirst = false
		}
		if t.lockKind == "cond" {
			recvRe = regexp.MustCompile(`\b` + regexp.QuoteMeta(recv) + `\.`)
			pg := &pathgen{w: w}
			ps := pg.seq([]ppath{{}}, fd.Body.List)
			if pg.over {
				m.paths = [][]string{{".other"}}
			} else {
				for _, p := range ps {
					m.paths = append(m.paths, p.toks)
				}
			}
		}
		t.methods = append(t.methods, m)
	}
	sort.SliceStable(t.methods, func(i, j int) bool { return t.methods[i].name < t.methods[j].name })
}

func leanStrs(xs []string) string {
	var b []string
	for _, x := range xs {
		b = append(b, q(x))
	}
	return "[" + strings.Join(b, ", ") + "]"
}
func leanAcc(xs []access) string {
	var b []string
	for _, x := range xs {
		b = append(b, fmt.Sprintf("⟨%s, %s, %v⟩", q(x.root), q(x.path), x.write))
	}
	return "[" + strings.Join(b, ", ") + "]"
}
func leanPairs(xs [][2]string) string {
	var b []string
	for _, x := range xs {
		b = append(b, fmt.Sprintf("(%s, %s)", q(x[0]), q(x[1])))
	}
	return "[" + strings.Join(b, ", ") + "]"
}
func leanPaths(xs [][]string) string {
	if len(xs) == 0 {
		return "[]"
	}
	var b []string
	for _, p := range xs {
		b = append(b, "[" + strings.Join(p, ", ") + "]")
	}
	return "[\n        " + strings.Join(b, ",\n        ") + "]"
}

func ident(s string) string {
	return strings.Map(func(r rune) rune {
		if r == '_' || r >= '0' && r <= '9' || r >= 'a' && r <= 'z' || r >= 'A' && r <= 'Z' {
			return r
		}
		return '_'
	}, s)
}

func main() {
	repo := flag.String("repo", "/repo", "repository root")
	out := flag.String("out", "", "output .lean file")
	jsonOut := flag.String("json", "", "also write the facts as JSON (read by harness/c10 to direct its probes)")
	flag.Parse()
	types := map[string]*typ{}
	var order []string
	collect(filepath.Join(*repo, "util", "hmap"), nil, types, &order)
	collect(filepath.Join(*repo, "util", "list"), map[string]bool{"LinkedList.go": true, "LinkedEntity.go": true}, types, &order)
	collect(filepath.Join(*repo, "util", "queue"), nil, types, &order)
	sort.Strings(order)

	var b strings.Builder
	b.WriteString("-- GENERATED by xlate/c10 from util/hmap, util/list/LinkedList.go, util/queue — do not edit\n")
	b.WriteString("import Golib.Conc.LockFacts\n\nnamespace Gen.Locks\nopen LockFacts\n\n")
	for _, n := range order {
		t := types[n]
		analyse(t)
		for _, m := range t.methods {
			fmt.Fprintf(&b, "def %s.%s : Method :=\n  { name := %s, exported := %v, acquires := %v, lockFirst := %v, deferUnlock := %v, irregular := %v,\n",
				ident(t.name), "m_"+ident(m.name), q(m.name), m.exported, m.acquires, m.lockFirst, m.deferUnlock, m.irregular)
			fmt.Fprintf(&b, "    callsHeld := %s, callsFree := %s,\n", leanStrs(m.callsHeld), leanStrs(m.callsFree))
			fmt.Fprintf(&b, "    accHeld := %s,\n    accFree := %s,\n", leanAcc(m.accHeld), leanAcc(m.accFree))
			fmt.Fprintf(&b, "    fieldCallsHeld := %s, fieldCallsFree := %s, callbacksHeld := %s,\n", leanPairs(m.fcHeld), leanPairs(m.fcFree), leanStrs(m.cbHeld))
			fmt.Fprintf(&b, "    valueRecv := %v, rlock := %v, ptrWrites := %v, otherLocks := %s, underOther := %s,\n", m.valueRecv, m.rlock, m.ptrWrites, leanStrs(m.otherLocks), leanStrs(m.underOther))
			fmt.Fprintf(&b, "    extCalls := %s, retSlice := %v, sliceRets := %s,\n", leanStrs(m.extCalls), m.retSlice, leanStrs(m.sliceRets))
			fmt.Fprintf(&b, "    paths := %s }\n", leanPaths(m.paths))
		}
		var ms []string
		for _, m := range t.methods {
			ms = append(ms, ident(t.name)+".m_"+ident(m.name))
		}
		fmt.Fprintf(&b, "def %s : TypeFacts :=\n  { name := %s, file := %s, lockField := %s, lockKind := %s,\n    fields := %s,\n    methods := [%s] }\n\n",
			ident(t.name)+".facts", q(t.name), q(t.file), q(t.lockField), q(t.lockKind), leanStrs(t.fields), strings.Join(ms, ", "))
	}
	var all []string
	for _, n := range order {
		all = append(all, ident(n)+".facts")
	}
	fmt.Fprintf(&b, "def all : List TypeFacts := [%s]\n\n", strings.Join(all, ", "))
	fmt.Fprintf(&b, "def typeNames : List String := %s\n\nend Gen.Locks\n", leanStrs(order))

	if *jsonOut != "" {
		type jm struct {
			Name      string   `json:"name"`
			Exported  bool     `json:"exported"`
			Acquires  bool     `json:"acquires"`
			LockFirst bool     `json:"lockFirst"`
			Irregular bool     `json:"irregular"`
			CallsHeld []string `json:"callsHeld"`
			CallsFree []string `json:"callsFree"`
			AccFree   []string `json:"accFree"`
			RLock     bool     `json:"rlock"`
			Mutates   bool     `json:"mutates"`
			ValueRecv bool     `json:"valueRecv"`
		}
		js := map[string][]jm{}
		for _, n := range order {
			for _, m := range types[n].methods {
				var af []string
				for _, a := range m.accFree {
					af = append(af, a.path)
				}
				mut := m.ptrWrites
				for _, a := range append(append([]access{}, m.accHeld...), m.accFree...) {
					mut = mut || a.write
				}
				js[n] = append(js[n], jm{m.name, m.exported, m.acquires, m.lockFirst && m.deferUnlock, m.irregular, m.callsHeld, m.callsFree, af, m.rlock, mut, m.valueRecv})
			}
		}
		jb, _ := json.MarshalIndent(js, "", " ")
		if err := os.WriteFile(*jsonOut, jb, 0o644); err != nil {
			fmt.Fprintln(os.Stderr, err)
			os.Exit(1)
		}
	}
	if *out == "" {
		if *jsonOut == "" {
			fmt.Print(b.String())
		}
		return
	}
	if err := os.WriteFile(*out, []byte(b.String()), 0o644); err != nil {
		fmt.Fprintln(os.Stderr, err)
		os.Exit(1)
	}
}
