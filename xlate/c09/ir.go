// ir.go — statement-level transcription of put / add / remove / rehash into the IR of
// lean/Golib/HMap/IR.lean (interpreted tie A).  Every top-level statement of a method becomes one TSt
// (or is a pure binding: `tab := this.table`, `var prev … = nil`), every statement of the
// `if e.key == key { … }` body one FSt.  Anything not recognised becomes `.unknown`.
package main

import (
	"fmt"
	"go/ast"
	"go/token"
	"sort"
	"strings"
)

var modeNames = map[string]string{"PUT_FORCE_FIRST": ".forceFirst", "PUT_FORCE_LAST": ".forceLast", "PUT_FIRST": ".first", "PUT_LAST": ".last"}

// cachedHash: the rehash() of the type being transcribed reads `e.keyHash` (set per type by irFile)
var cachedHash bool

func readsKeyHash(fd *ast.FuncDecl) bool {
	found := false
	if fd != nil {
		ast.Inspect(fd.Body, func(n ast.Node) bool {
			if se, ok := n.(*ast.SelectorExpr); ok && se.Sel.Name == "keyHash" {
				found = true
			}
			return true
		})
	}
	return found
}

type irCtx struct {
	keyName, valName string // parameter names
	hashVars         map[string]bool
}

func retTok(c *irCtx, r *ast.ReturnStmt) string {
	if len(r.Results) == 0 {
		return ".nothing"
	}
	if len(r.Results) != 1 {
		return ".unknown"
	}
	e := exprStr(r.Results[0])
	switch {
	case e == "old" || e == "oldValue":
		return ".old"
	case e == "nil" || e == "this.NONE":
		return ".absent"
	case e == `""`:
		return ".emptyStr"
	case e == c.keyName:
		return ".key"
	case e == "e.key":
		return ".cellKey"
	case e == "true":
		return ".boolT"
	case e == "false":
		return ".boolF"
	case c.valName != "" && e == c.valName:
		return ".value"
	case e == "e.value" || e == "e.Value":
		return ".cur"
	case e == "0":
		return ".zero"
	}
	return ".unknown"
}

// relinkEnd recognises `if this.header.link_X != e { this.unchain(e); this.chain(A, B, e) }`.
func relinkEnd(s ast.Stmt) string {
	is, ok := s.(*ast.IfStmt)
	if !ok || is.Else != nil || len(is.Body.List) != 2 {
		return ""
	}
	c0, c1 := stmtCalls(is.Body.List[0]), stmtCalls(is.Body.List[1])
	if c0 != "this.unchain(e)" {
		return ""
	}
	switch {
	case exprStr(is.Cond) == "(this.header.link_next!=e)" && c1 == "this.chain(this.header,this.header.link_next,e)":
		return ".front"
	case exprStr(is.Cond) == "(this.header.link_prev!=e)" && c1 == "this.chain(this.header.link_prev,this.header,e)":
		return ".back"
	}
	return ""
}

func caseModes(cc *ast.CaseClause) (string, bool) {
	var ms []string
	for _, e := range cc.List {
		m, ok := modeNames[exprStr(e)]
		if !ok {
			return "", false
		}
		ms = append(ms, m)
	}
	return "[" + strings.Join(ms, ", ") + "]", true
}

// switchOf transcribes `switch m { case …: <one statement> }` with `one` reading each case body.
func switchOf(sw *ast.SwitchStmt, one func([]ast.Stmt) string) (string, bool) {
	if exprStr(sw.Tag) != "m" || sw.Init != nil {
		return "", false
	}
	var cs []string
	for _, c := range sw.Body.List {
		cc := c.(*ast.CaseClause)
		ms, ok := caseModes(cc)
		if !ok {
			return "", false
		}
		body := cc.Body
		// a trailing `break` is a no-op in Go
		if n := len(body); n > 0 {
			if b, ok := body[n-1].(*ast.BranchStmt); ok && b.Tok == token.BREAK {
				body = body[:n-1]
			}
		}
		end := one(body)
		if end == "" {
			return "", false
		}
		cs = append(cs, "("+ms+", "+end+")")
	}
	return "[" + strings.Join(cs, ", ") + "]", true
}

func isCommentOnly(s ast.Stmt) bool { _, ok := s.(*ast.EmptyStmt); return ok }

// foundBody transcribes the statements of `if e.key == key { … }`.
func foundBody(c *irCtx, stmts []ast.Stmt, inRemove bool) []string {
	var out []string
	for _, s := range stmts {
		switch t := s.(type) {
		case *ast.AssignStmt:
			l, r := exprStr(t.Lhs[0]), exprStr(t.Rhs[0])
			switch {
			case (l == "old" || l == "oldValue") && (r == "e.value" || r == "e.Value") && t.Tok == token.DEFINE:
				out = append(out, ".saveOld")
			case (l == "e.value" || l == "e.Value") && r == c.valName && t.Tok == token.ASSIGN:
				out = append(out, ".assign")
			case (l == "e.value" || l == "e.Value") && r == c.valName && t.Tok == token.ADD_ASSIGN:
				out = append(out, ".accumulate")
			case inRemove && (l == "e.value" || l == "e.Value") && (r == "nil" || r == "this.NONE"):
				out = append(out, ".clearValue")
			default:
				out = append(out, ".unknown")
			}
		case *ast.IncDecStmt:
			if inRemove && exprStr(t.X) == "this.count" && t.Tok == token.DEC {
				out = append(out, ".countDec")
			} else {
				out = append(out, ".unknown")
			}
		case *ast.ExprStmt:
			if inRemove && stmtCalls(t) == "this.unchain(e)" {
				out = append(out, ".unchain")
			} else {
				out = append(out, ".unknown")
			}
		case *ast.SwitchStmt:
			cs, ok := switchOf(t, func(b []ast.Stmt) string {
				if len(b) != 1 {
					return ""
				}
				return relinkEnd(b[0])
			})
			if ok {
				out = append(out, ".switchRelink "+cs)
			} else {
				out = append(out, ".unknown")
			}
		case *ast.ReturnStmt:
			out = append(out, ".ret "+retTok(c, t))
		case *ast.IfStmt:
			if end := relinkEnd(t); end != "" && !inRemove {
				out = append(out, ".relink "+end)
				continue
			}
			// remove: `if prev != nil { prev.next = e.next } else { tab[index] = e.next }` is the unlink itself
			if inRemove && strings.HasPrefix(exprStr(t.Cond), "(prev!=nil)") && t.Else != nil {
				a := stmtAssign(t.Body.List)
				b := ""
				if eb, ok := t.Else.(*ast.BlockStmt); ok {
					b = stmtAssign(eb.List)
				}
				okA := a == "prev.next=e.next" || a == "prev.hash_next=e.hash_next" || a == "prev.Next=e.Next"
				okB := b == "tab[index]=e.next" || b == "tab[index]=e.hash_next" || b == "tab[index]=e.Next"
				if okA && okB {
					continue // part of scanUnlink
				}
			}
			out = append(out, ".unknown")
		default:
			out = append(out, ".unknown")
		}
	}
	return out
}

func stmtAssign(ss []ast.Stmt) string {
	if len(ss) != 1 {
		return ""
	}
	if a, ok := ss[0].(*ast.AssignStmt); ok && len(a.Lhs) == 1 && a.Tok == token.ASSIGN {
		return exprStr(a.Lhs[0]) + "=" + exprStr(a.Rhs[0])
	}
	return ""
}

// chainLoop recognises the chain loop (for-clause form or the `e := tab[index]; for e != nil { …; e = e.next }` form)
// and returns the body statements of `if e.key == key`.
func keyTest(c *irCtx, cond ast.Expr) bool {
	s := exprStr(cond)
	k := c.keyName
	return s == "(e.key=="+k+")" || s == "(e.Key=="+k+")" || s == "e.key.Equals("+k+")"
}

func chainLoop(c *irCtx, f *ast.ForStmt) ([]ast.Stmt, bool) {
	if exprStr(f.Cond) != "(e!=nil)" {
		return nil, false
	}
	var found []ast.Stmt
	n := 0
	for _, s := range f.Body.List {
		if is, ok := s.(*ast.IfStmt); ok && keyTest(c, is.Cond) && is.Else == nil {
			found = is.Body.List
			n++
			continue
		}
		// remove: `prev = e` and `e = e.next` bookkeeping
		if a := stmtAssign([]ast.Stmt{s}); a == "prev=e" || a == "e=e.next" || a == "e=e.hash_next" || a == "e=e.Next" {
			continue
		}
		return nil, false
	}
	return found, n == 1
}

func lst(xs []string) string { return "[" + strings.Join(xs, ", ") + "]" }

// methodIR transcribes a put-like or remove method.
func methodIR(fd *ast.FuncDecl, isRemove bool) string {
	if fd == nil {
		return "[]"
	}
	names, types := params(fd)
	c := &irCtx{hashVars: map[string]bool{}}
	var ps []string
	for i, n := range names {
		if types[i] != "PUT_MODE" {
			ps = append(ps, n)
		}
	}
	if len(ps) > 0 {
		c.keyName = ps[0]
	}
	if len(ps) > 1 {
		c.valName = ps[1]
	}
	var out []string
	body := fd.Body.List
	// lock / unlock prologue of the public methods that contain the algorithm themselves (IntKeyMap.Put/Remove, _add)
	for len(body) > 0 {
		s := stmtCalls(body[0])
		if s == "this.lock.Lock()" || s == "this.lock.Unlock()" {
			body = body[1:]
			continue
		}
		break
	}
	for i := 0; i < len(body); i++ {
		s := body[i]
		switch t := s.(type) {
		case *ast.IfStmt:
			cond := exprStr(t.Cond)
			switch {
			case isEmptyKeyGuard(t, c.keyName):
				out = append(out, ".guardEmpty "+retTok(c, t.Body.List[0].(*ast.ReturnStmt)))
			case cond == "(this.max>0)" && len(t.Body.List) == 1:
				sw, ok := t.Body.List[0].(*ast.SwitchStmt)
				if !ok {
					out = append(out, ".unknown")
					break
				}
				cs, ok := switchOf(sw, func(b []ast.Stmt) string {
					if len(b) != 1 {
						return ""
					}
					fs, ok := b[0].(*ast.ForStmt)
					if !ok || exprStr(fs.Cond) != "(this.count>=this.max)" || fs.Init != nil || fs.Post != nil {
						return ""
					}
					end, removes := "", false
					for _, st := range fs.Body.List {
						if as, ok := st.(*ast.AssignStmt); ok && len(as.Lhs) == 1 && exprStr(as.Lhs[0]) == "k" {
							switch exprStr(as.Rhs[0]) {
							case "this.header.link_next.key":
								end = ".front"
							case "this.header.link_prev.key":
								end = ".back"
							default:
								return ""
							}
							continue
						}
						calls := stmtCalls(st)
						if calls == "this.remove(k)" {
							removes = true
							continue
						}
						if calls == "this.overflowed(k,v)" { // an empty hook method
							continue
						}
						return ""
					}
					if !removes {
						return ""
					}
					return end
				})
				if ok {
					out = append(out, ".ifMaxSwitchEvict "+cs)
				} else {
					out = append(out, ".unknown")
				}
			case cond == "((this.max>0)&&(this.count>=this.max))" && len(t.Body.List) == 1:
				if r, ok := t.Body.List[0].(*ast.ReturnStmt); ok {
					out = append(out, ".noOverGuard "+retTok(c, r))
				} else {
					out = append(out, ".unknown")
				}
			case cond == "(this.count==0)" && len(t.Body.List) == 1 && t.Else == nil:
				if r, ok := t.Body.List[0].(*ast.ReturnStmt); ok {
					out = append(out, ".retIfEmpty "+retTok(c, r))
				} else {
					out = append(out, ".unknown")
				}
			case cond == "(this.count>=this.threshold)":
				// rehash(); tab = this.table; index = <hash> % uint(len(tab))
				ok := len(t.Body.List) == 3 && stmtCalls(t.Body.List[0]) == "this.rehash()" &&
					stmtAssign(t.Body.List[1:2]) == "tab=this.table" && strings.HasPrefix(stmtAssign(t.Body.List[2:3]), "index=") &&
					indexExpr(c, strings.TrimPrefix(stmtAssign(t.Body.List[2:3]), "index="))
				if ok {
					out = append(out, ".growIfFull")
				} else {
					out = append(out, ".unknown")
				}
			default:
				out = append(out, ".unknown")
			}
		case *ast.AssignStmt:
			l, r := exprStr(t.Lhs[0]), exprStr(t.Rhs[0])
			switch {
			case l == "tab" && r == "this.table":
				// binding
			case (l == "keyHash" || l == "hash" || l == "_hash") && r == "this.hash("+c.keyName+")":
				c.hashVars[l] = true
				out = append(out, ".hashKey")
			case l == "index" && t.Tok == token.DEFINE && indexExpr(c, r):
				out = append(out, ".index")
			case l == "e" && t.Tok == token.DEFINE && r == "tab[index]":
				// `e := tab[index]` before a `for e != nil` loop: part of the loop
			case l == "e" && (strings.HasPrefix(r, "&") || strings.HasPrefix(r, "New")):
				// new cell: must be followed by `tab[index] = e`
				if i+1 < len(body) && stmtAssign(body[i+1:i+2]) == "tab[index]=e" && newCellOK(c, t.Rhs[0]) {
					out = append(out, ".newCell")
					i++
				} else {
					out = append(out, ".unknown")
				}
			case l == "prev" && r == "nil":
				// binding
			case l == "this.count" && r == "0" && t.Tok == token.ASSIGN:
				out = append(out, ".countZero")
			case (l == "this.header.link_next" || l == "this.header.link_prev") && t.Tok == token.ASSIGN:
				// `header.link_next = header; header.link_prev = header` (either order; the second may read the first)
				other := "this.header.link_prev"
				if l == other {
					other = "this.header.link_next"
				}
				ok := (r == "this.header") && i+1 < len(body)
				if ok {
					n := stmtAssign(body[i+1 : i+2])
					ok = n == other+"=this.header" || n == other+"="+l
				}
				if ok {
					out = append(out, ".headerReset")
					i++
				} else {
					out = append(out, ".unknown")
				}
			default:
				out = append(out, ".unknown")
			}
		case *ast.DeclStmt:
			// `var prev *Entry` / `var prev *Entry = nil`
		case *ast.ForStmt:
			if ia, ok := t.Init.(*ast.AssignStmt); ok && exprStr(ia.Lhs[0]) == "index" {
				okc := exprStr(ia.Rhs[0]) == "(len(tab)-1)" && exprStr(t.Cond) == "(index>=0)" && len(t.Body.List) == 1 &&
					stmtAssign(t.Body.List) == "tab[index]=nil"
				if p, ok := t.Post.(*ast.IncDecStmt); !ok || p.Tok != token.DEC || exprStr(p.X) != "index" {
					okc = false
				}
				if okc {
					out = append(out, ".clearBuckets")
				} else {
					out = append(out, ".unknown")
				}
				break
			}
			loopOK := false
			if t.Init == nil && t.Post == nil {
				loopOK = true
			} else if ia, ok := t.Init.(*ast.AssignStmt); ok && exprStr(ia.Lhs[0]) == "e" && exprStr(ia.Rhs[0]) == "tab[index]" {
				post := ""
				if t.Post != nil {
					post = stmtAssign([]ast.Stmt{t.Post})
				}
				loopOK = post == "" || post == "e=e.next" || post == "e=e.hash_next" || post == "e=e.Next"
			}
			found, ok := chainLoop(c, t)
			if !loopOK || !ok {
				out = append(out, ".unknown")
				break
			}
			fb := foundBody(c, found, isRemove)
			if isRemove {
				out = append(out, ".scanUnlink "+lst(fb))
			} else {
				out = append(out, ".scan "+lst(fb))
			}
		case *ast.SwitchStmt:
			cs, ok := switchOf(t, func(b []ast.Stmt) string {
				if len(b) != 1 {
					return ""
				}
				switch stmtCalls(b[0]) {
				case "this.chain(this.header,this.header.link_next,e)":
					return ".front"
				case "this.chain(this.header.link_prev,this.header,e)":
					return ".back"
				}
				return ""
			})
			if ok {
				out = append(out, ".switchLink "+cs)
			} else {
				out = append(out, ".unknown")
			}
		case *ast.IncDecStmt:
			if exprStr(t.X) == "this.count" && t.Tok == token.INC {
				out = append(out, ".countInc")
			} else {
				out = append(out, ".unknown")
			}
		case *ast.ReturnStmt:
			if len(t.Results) == 1 {
				switch exprStr(t.Results[0]) {
				case "this.remove(this.header.link_next.key)":
					out = append(out, ".retRemoveEnd .front")
					continue
				case "this.remove(this.header.link_prev.key)":
					out = append(out, ".retRemoveEnd .back")
					continue
				}
			}
			out = append(out, ".ret "+retTok(c, t))
		case *ast.DeferStmt:
			if stmtCalls(t) != "this.lock.Unlock()" {
				out = append(out, ".unknown")
			}
		case *ast.ExprStmt:
			if stmtCalls(t) != "this.lock.Lock()" {
				out = append(out, ".unknown")
			}
		default:
			out = append(out, ".unknown")
		}
	}
	return lst(out)
}

// indexExpr: `<hash of key> % uint(len(tab))` in one of the spellings used in the package
func indexExpr(c *irCtx, r string) bool {
	k := c.keyName
	for h := range c.hashVars {
		if r == "("+h+"%uint(len(tab)))" {
			return true
		}
	}
	switch r {
	case "(this.hash(" + k + ")%uint(len(tab)))", "(uint(" + k + ")%uint(len(tab)))", "(int(this.hash(" + k + "))%len(tab))":
		return true
	}
	return false
}

// newCellOK: the new cell carries the key (and value) parameters and is linked in front of tab[index]
func newCellOK(c *irCtx, e ast.Expr) bool {
	s := exprStr(e)
	if u, ok := e.(*ast.UnaryExpr); ok {
		if cl, ok := u.X.(*ast.CompositeLit); ok {
			got := map[string]string{}
			for _, el := range cl.Elts {
				if kv, ok := el.(*ast.KeyValueExpr); ok {
					got[exprStr(kv.Key)] = exprStr(kv.Value)
				}
			}
			next := got["next"] + got["hash_next"]
			if got["key"] != c.keyName || next != "tab[index]" {
				return false
			}
			if c.valName != "" && got["value"] != c.valName {
				return false
			}
			// rehash() of this type re-buckets by the hash cached in the cell: the new cell must carry this.hash(key)
			if cachedHash && !c.hashVars[got["keyHash"]] {
				return false
			}
			return true
		}
	}
	// NewIntKeyEntry(key, value, tab[index])
	return strings.HasPrefix(s, "New") && strings.HasSuffix(s, "("+c.keyName+","+c.valName+",tab[index])")
}

// rehashFacts reads the loop nest of rehash().
func rehashFacts(fd *ast.FuncDecl) string {
	unknown := "⟨0, 0, 0, 0, false, false, false, false⟩"
	if fd == nil {
		return unknown
	}
	mul, add := growth(fd)
	lo, off := -1, -1
	byNew, head, installs, thr := false, false, false, false
	for _, s := range fd.Body.List {
		switch t := s.(type) {
		case *ast.AssignStmt:
			a := exprStr(t.Lhs[0]) + "=" + exprStr(t.Rhs[0])
			if a == "this.table=newMap" {
				installs = true
			}
			if a == "this.threshold=int((float32(newCapacity)*this.loadFactor))" {
				thr = true
			}
		case *ast.ForStmt:
			ia, ok := t.Init.(*ast.AssignStmt)
			if !ok || exprStr(ia.Lhs[0]) != "i" || exprStr(ia.Rhs[0]) != "oldCapacity" {
				return unknown
			}
			p, ok := t.Post.(*ast.IncDecStmt)
			if !ok || p.Tok != token.DEC || exprStr(p.X) != "i" {
				return unknown
			}
			if n, err := fmt.Sscanf(exprStr(t.Cond), "(i>%d)", &lo); n != 1 || err != nil {
				return unknown
			}
			// inner: `for old := oldMap[i-1]; old != nil; { e := old; old = old.next; index := …; e.next = newMap[index]; newMap[index] = e }`
			// or `old := oldMap[i-1]; for old != nil { … }`
			var inner *ast.ForStmt
			src := ""
			for _, b := range t.Body.List {
				switch u := b.(type) {
				case *ast.AssignStmt:
					if exprStr(u.Lhs[0]) == "old" {
						src = exprStr(u.Rhs[0])
					}
				case *ast.ForStmt:
					inner = u
					if ia, ok := u.Init.(*ast.AssignStmt); ok && exprStr(ia.Lhs[0]) == "old" {
						src = exprStr(ia.Rhs[0])
					}
				}
			}
			if inner == nil || exprStr(inner.Cond) != "(old!=nil)" {
				return unknown
			}
			switch src {
			case "oldMap[(i-1)]":
				off = 1
			case "oldMap[i]":
				off = 0
			default:
				return unknown
			}
			var seq []string
			for _, b := range inner.Body.List {
				if a, ok := b.(*ast.AssignStmt); ok {
					seq = append(seq, exprStr(a.Lhs[0])+"="+exprStr(a.Rhs[0]))
				} else {
					return unknown
				}
			}
			j := strings.Join(seq, ";")
			j = strings.ReplaceAll(j, "hash_next", "next")
			j = strings.ReplaceAll(j, ".Next", ".next")
			// optional `key := e.key`
			j = strings.ReplaceAll(j, "key=e.key;", "")
			j = strings.ReplaceAll(j, "this.hash(key)", "H")
			j = strings.ReplaceAll(j, "this.hash(e.key)", "H")
			j = strings.ReplaceAll(j, "this.hash(e.Key)", "H")
			j = strings.ReplaceAll(j, "e.keyHash", "H")
			j = strings.ReplaceAll(j, "uint(e.key)", "H")
			for _, pat := range []string{"index=(H%uint(newCapacity))", "index=uint((H%uint(newCapacity)))", "index=int((H%uint(newCapacity)))", "index=(int(H)%newCapacity)"} {
				if strings.Contains(j, pat) {
					byNew = true
					j = strings.Replace(j, pat, "index=I", 1)
				}
			}
			if j == "e=old;old=old.next;index=I;e.next=newMap[index];newMap[index]=e" {
				head = true
			}
		}
	}
	if lo < 0 || off < 0 {
		return unknown
	}
	b := func(x bool) string {
		if x {
			return "true"
		}
		return "false"
	}
	return fmt.Sprintf("⟨%d, %d, %d, %d, %s, %s, %s, %s⟩", mul, add, lo, off, b(byNew), b(head), b(installs), b(thr))
}

// cvFacts reads the bucket loop of ContainsValue.
func cvFacts(fd *ast.FuncDecl) string {
	unknown := "⟨false, false, 0, 0, false⟩"
	if fd == nil {
		return unknown
	}
	names, _ := params(fd)
	res := unknown
	ast.Inspect(fd.Body, func(n ast.Node) bool {
		fs, ok := n.(*ast.ForStmt)
		if !ok {
			return true
		}
		as, ok := fs.Init.(*ast.AssignStmt)
		if !ok || len(as.Lhs) != 1 {
			return true
		}
		iv := exprStr(as.Lhs[0])
		init := exprStr(as.Rhs[0])
		fromLen := init == "len(tab)"
		if !fromLen && init != "(len(tab)-1)" {
			return true
		}
		if p, ok := fs.Post.(*ast.IncDecStmt); !ok || p.Tok != token.DEC || exprStr(p.X) != iv {
			return false
		}
		var lo int
		strict := true
		if n, _ := fmt.Sscanf(exprStr(fs.Cond), "("+iv+">%d)", &lo); n != 1 {
			if n, _ := fmt.Sscanf(exprStr(fs.Cond), "("+iv+">=%d)", &lo); n != 1 {
				return false
			}
			strict = false
		}
		off, cmp := -1, false
		for _, st := range fs.Body.List {
			in, ok := st.(*ast.ForStmt)
			if !ok {
				continue
			}
			if ia, ok := in.Init.(*ast.AssignStmt); ok {
				switch exprStr(ia.Rhs[0]) {
				case "tab[" + iv + "]":
					off = 0
				case "tab[(" + iv + "-1)]":
					off = 1
				}
			}
			ast.Inspect(in.Body, func(m ast.Node) bool {
				if is, ok := m.(*ast.IfStmt); ok {
					c := exprStr(is.Cond)
					if (c == "(e.value=="+names[0]+")" || c == "(e.Value=="+names[0]+")") && len(is.Body.List) == 1 {
						if r, ok := is.Body.List[0].(*ast.ReturnStmt); ok && exprStr(r.Results[0]) == "true" {
							cmp = true
						}
					}
				}
				return true
			})
		}
		if off < 0 {
			return false
		}
		b := func(x bool) string {
			if x {
				return "true"
			}
			return "false"
		}
		res = fmt.Sprintf("⟨%s, %s, %d, %d, %s⟩", b(fromLen), b(strict), lo, off, b(cmp))
		return false
	})
	return res
}

// sortFacts reads Sort: collect count entries, sort.Sort by key, clear(), re-put with a mode.
func sortFacts(fd *ast.FuncDecl, typ string) string {
	if fd == nil {
		return "⟨false, false, false, none⟩"
	}
	collects, sorts, clears := false, false, false
	mode := "none"
	listVar := ""
	for _, s := range fd.Body.List {
		switch t := s.(type) {
		case *ast.AssignStmt:
			if r := exprStr(t.Rhs[0]); strings.HasPrefix(r, "make(") {
				listVar = exprStr(t.Lhs[0])
			}
		case *ast.ForStmt:
			if exprStr(t.Cond) != "(i<sz)" || len(t.Body.List) == 0 {
				continue
			}
			a := stmtAssign(t.Body.List[:1])
			a = strings.ReplaceAll(a, " ", "")
			switch {
			case listVar != "" && strings.HasPrefix(a, listVar+"[i]=en.NextElement()"), listVar != "" && strings.HasPrefix(a, listVar+"[i]=en.Next"):
				collects = len(t.Body.List) == 1
			case listVar != "" && a == listVar+"[i]=e" && len(t.Body.List) == 2 && stmtAssign(t.Body.List[1:2]) == "e=e.link_next":
				collects = true // walk of the order list (LinkedSet)
			default:
				c := strings.SplitN(stmtCalls(t.Body.List[0]), ";", 2)[0]
				for m, lean := range modeNames {
					if strings.HasPrefix(c, "this.put(") && strings.HasSuffix(c, ","+m+")") && strings.Contains(c, listVar+"[i]") {
						mode = "(some " + lean + ")"
					}
				}
				if mode == "none" && strings.HasPrefix(c, "this.put("+listVar+"[i].GetKey(),"+listVar+"[i].GetValue())") {
					mode = "(some .last)" // plain map: put has no mode
				}
			}
		case *ast.ExprStmt:
			c := stmtCalls(t)
			if strings.HasPrefix(c, "sort.Sort(") && strings.Contains(c, "compare") == false {
				// composite literal argument: {compare: c, data: list}
			}
			if strings.HasPrefix(c, "sort.Sort(") {
				if call, ok := t.X.(*ast.CallExpr); ok && len(call.Args) == 1 {
					if cl, ok := call.Args[0].(*ast.CompositeLit); ok {
						got := map[string]string{}
						for _, el := range cl.Elts {
							if kv, ok := el.(*ast.KeyValueExpr); ok {
								got[exprStr(kv.Key)] = exprStr(kv.Value)
							}
						}
						names, _ := params(fd)
						sorts = got["compare"] == names[0] && got["data"] == listVar
					}
				}
			}
			if c == "this.clear()" {
				clears = true
			}
		}
	}
	b := func(x bool) string {
		if x {
			return "true"
		}
		return "false"
	}
	return fmt.Sprintf("⟨%s, %s, %s, %s⟩", b(collects), b(sorts), b(clears), mode)
}

// wireFacts reads ToBytes (write calls on the DataOutputX parameter) or ToObject (read calls on the DataInputX parameter).
func wireFacts(fd *ast.FuncDecl, reading bool) string {
	if fd == nil {
		return "⟨[], [], false⟩"
	}
	names, _ := params(fd)
	stream := names[0]
	call := func(e ast.Expr) string { // the stream call inside an expression, classified
		res := ""
		ast.Inspect(e, func(n ast.Node) bool {
			c, ok := n.(*ast.CallExpr)
			if !ok {
				return true
			}
			f := exprStr(c.Fun)
			if !strings.HasPrefix(f, stream+".") {
				return true
			}
			m := strings.TrimPrefix(f, stream+".")
			arg := ""
			if len(c.Args) == 1 {
				arg = exprStr(c.Args[0])
			}
			switch {
			case !reading && m == "WriteDecimal" && strings.Contains(arg, "this.Size()"):
				res = ".decCount"
			case !reading && m == "WriteDecimal" && strings.Contains(arg, "e.GetKey()"):
				res = ".decKey"
			case !reading && m == "WriteDecimal" && strings.Contains(arg, "e.GetValue()"):
				res = ".decVal"
			case !reading && m == "WriteFloat" && arg == "e.GetValue()":
				res = ".floatVal"
			case reading && m == "ReadDecimal":
				res = "dec"
			case reading && m == "ReadFloat":
				res = "float"
			default:
				res = ".unknown"
			}
			return false
		})
		return res
	}
	var head, per []string
	puts := false
	for _, s := range fd.Body.List {
		switch t := s.(type) {
		case *ast.ExprStmt:
			if c := call(t.X); c != "" {
				head = append(head, c)
			}
		case *ast.AssignStmt:
			if c := call(t.Rhs[0]); c != "" {
				if reading && exprStr(t.Lhs[0]) == "cnt" && c == "dec" {
					head = append(head, ".decCount")
				} else if !reading {
					head = append(head, c)
				} else {
					head = append(head, ".unknown")
				}
			}
		case *ast.ForStmt:
			if reading && exprStr(t.Cond) != "(i<cnt)" {
				per = append(per, ".unknown")
			}
			if !reading && exprStr(t.Cond) != "en.HasMoreElements()" {
				per = append(per, ".unknown")
			}
			for _, b := range t.Body.List {
				switch u := b.(type) {
				case *ast.ExprStmt:
					if c := call(u.X); c != "" {
						per = append(per, c)
					} else if reading && (stmtCalls(u) == "this.Put(key,value)") {
						puts = true
					}
				case *ast.AssignStmt:
					c := call(u.Rhs[0])
					l := exprStr(u.Lhs[0])
					switch {
					case c == "":
					case reading && l == "key" && c == "dec":
						per = append(per, ".decKey")
					case reading && l == "value" && c == "dec":
						per = append(per, ".decVal")
					case reading && l == "value" && c == "float":
						per = append(per, ".floatVal")
					default:
						per = append(per, ".unknown")
					}
				}
			}
		}
	}
	if !reading {
		puts = true // not applicable to ToBytes; the canonical record has `true`
	}
	b := "false"
	if puts {
		b = "true"
	}
	return fmt.Sprintf("⟨%s, %s, %s⟩", lst(head), lst(per), b)
}

// setterIR transcribes a configuration setter (SetMax, SetNullValue) statement by statement: the lock prologue,
// `this.<field> = <the parameter>` and `return this` are recognised; anything else is `.unknown`.
func setterIR(fd *ast.FuncDecl) string {
	if fd == nil {
		return "[]"
	}
	names, _ := params(fd)
	var out []string
	for _, st := range fd.Body.List {
		switch t := st.(type) {
		case *ast.ExprStmt:
			if stmtCalls(t) != "this.lock.Lock()" {
				out = append(out, ".unknown")
			}
		case *ast.DeferStmt:
			if stmtCalls(t) != "this.lock.Unlock()" {
				out = append(out, ".unknown")
			}
		case *ast.AssignStmt:
			tok := ".unknown"
			if len(t.Lhs) == 1 && len(t.Rhs) == 1 && t.Tok == token.ASSIGN && len(names) == 1 && exprStr(t.Rhs[0]) == names[0] {
				switch exprStr(t.Lhs[0]) {
				case "this.max":
					tok = ".assignMax"
				case "this.NONE":
					tok = ".assignNone"
				}
			}
			out = append(out, tok)
		case *ast.ReturnStmt:
			if len(t.Results) == 1 && exprStr(t.Results[0]) == "this" {
				out = append(out, ".retThis")
			} else {
				out = append(out, ".unknown")
			}
		default:
			out = append(out, ".unknown")
		}
	}
	return lst(out)
}

// accessorIR transcribes a one-line accessor (Size, IsEmpty, IsFull, GetFirstKey … GetLastValue) statement by
// statement; the lock prologue is skipped, anything not recognised is `.unknown`.
func accessorIR(fd *ast.FuncDecl) string {
	if fd == nil {
		return "[]"
	}
	retTok := func(r *ast.ReturnStmt) string {
		if len(r.Results) != 1 {
			return ".unknown"
		}
		switch exprStr(r.Results[0]) {
		case "this.count":
			return ".retCount"
		case "(this.count==0)":
			return ".retCountZero"
		case "((this.max>0)&&(this.max<=this.count))":
			return ".retIsFull"
		case "this.header.link_next.key":
			return ".retEndKey .front"
		case "this.header.link_prev.key":
			return ".retEndKey .back"
		case "this.header.link_next.value":
			return ".retEndValue .front"
		case "this.header.link_prev.value":
			return ".retEndValue .back"
		}
		return ".unknown"
	}
	var out []string
	for _, st := range fd.Body.List {
		switch t := st.(type) {
		case *ast.ExprStmt:
			if stmtCalls(t) != "this.lock.Lock()" {
				out = append(out, ".unknown")
			}
		case *ast.DeferStmt:
			if stmtCalls(t) != "this.lock.Unlock()" {
				out = append(out, ".unknown")
			}
		case *ast.IfStmt:
			tok := ".unknown"
			if t.Init == nil && t.Else == nil && exprStr(t.Cond) == "(this.count==0)" && len(t.Body.List) == 1 {
				if r, ok := t.Body.List[0].(*ast.ReturnStmt); ok && len(r.Results) == 1 {
					switch exprStr(r.Results[0]) {
					case "this.NONE", "nil", "\"\"", "0":
						tok = ".retAbsentIfEmpty"
					}
				}
			}
			out = append(out, tok)
		case *ast.ReturnStmt:
			out = append(out, retTok(t))
		default:
			out = append(out, ".unknown")
		}
	}
	return lst(out)
}

// ---------------------------------------------------------------- enumerator objects

// recvTypes lists the receiver types of the file that have a HasMoreElements method, with their methods.
func enumTypes(f *ast.File) (names []string, ms map[string]map[string]*ast.FuncDecl) {
	ms = map[string]map[string]*ast.FuncDecl{}
	for _, d := range f.Decls {
		fd, ok := d.(*ast.FuncDecl)
		if !ok || fd.Body == nil || fd.Recv == nil || len(fd.Recv.List) != 1 {
			continue
		}
		t := fd.Recv.List[0].Type
		if s, ok := t.(*ast.StarExpr); ok {
			t = s.X
		}
		id, ok := t.(*ast.Ident)
		if !ok {
			continue
		}
		if ms[id.Name] == nil {
			ms[id.Name] = map[string]*ast.FuncDecl{}
		}
		ms[id.Name][fd.Name.Name] = fd
	}
	for n, m := range ms {
		if m["HasMoreElements"] != nil {
			names = append(names, n)
		}
	}
	sort.Strings(names)
	return
}

// isSkipLoop: `for this.entry == nil && this.index > 0 { this.index--; this.entry = this.table[this.index] }`
func isSkipLoop(st ast.Stmt) bool {
	f, ok := st.(*ast.ForStmt)
	if !ok || f.Init != nil || f.Post != nil || f.Cond == nil || exprStr(f.Cond) != "((this.entry==nil)&&(this.index>0))" || len(f.Body.List) != 2 {
		return false
	}
	d, ok := f.Body.List[0].(*ast.IncDecStmt)
	if !ok || d.Tok != token.DEC || exprStr(d.X) != "this.index" {
		return false
	}
	return stmtAssign(f.Body.List[1:2]) == "this.entry=this.table[this.index]"
}

// takeBody: `[this.lastReturned = this.entry;] e := this.entry|this.lastReturned; this.entry = e.<next>; <returns of projections of e>`
func takeBody(body []ast.Stmt, next string) bool {
	i := 0
	src := "this.entry"
	if i < len(body) && stmtAssign(body[i:i+1]) == "this.lastReturned=this.entry" {
		src = "this.lastReturned"
		i++
	}
	if i >= len(body) {
		return false
	}
	a, ok := body[i].(*ast.AssignStmt)
	if !ok || a.Tok != token.DEFINE || len(a.Lhs) != 1 || exprStr(a.Lhs[0]) != "e" || (exprStr(a.Rhs[0]) != src && exprStr(a.Rhs[0]) != "this.entry") {
		return false
	}
	i++
	if i >= len(body) || (stmtAssign(body[i:i+1]) != "this.entry=e."+next && stmtAssign(body[i:i+1]) != "this.entry=e."+strings.Title(next)) {
		return false
	}
	i++
	if i != len(body)-1 {
		return false
	}
	return projReturn(body[i])
}

// projReturn: `return e.key|e.value|e|e.GetKey()|e.GetValue()` or a switch on the enumerator's kind whose KEYS case
// returns the key and whose VALUES case returns the value
func projReturn(st ast.Stmt) bool {
	isKey := func(s string) bool { return s == "e.key" || s == "e.GetKey()" || s == "e.Key" || s == "e.Get()" }
	isVal := func(s string) bool { return s == "e.value" || s == "e.GetValue()" || s == "e.Value" }
	one := func(ss []ast.Stmt) string {
		if len(ss) == 1 {
			if r, ok := ss[0].(*ast.ReturnStmt); ok && len(r.Results) == 1 {
				return exprStr(r.Results[0])
			}
		}
		return "?"
	}
	switch t := st.(type) {
	case *ast.ReturnStmt:
		if len(t.Results) != 1 {
			return false
		}
		s := exprStr(t.Results[0])
		return isKey(s) || isVal(s) || s == "e"
	case *ast.IfStmt: // `if this.isKey { return e.key } else { return e.value }` / `if this.isEntry { return e } else { return e.GetValue() }`
		el, ok := t.Else.(*ast.BlockStmt)
		if !ok || t.Init != nil {
			return false
		}
		a, b := one(t.Body.List), one(el.List)
		switch exprStr(t.Cond) {
		case "this.isKey":
			return isKey(a) && isVal(b)
		case "this.isEntry":
			return a == "e" && isVal(b)
		}
		return false
	case *ast.SwitchStmt:
		tag := exprStr(t.Tag)
		if tag != "this.Type" && tag != "this.rtype" && tag != "this.Rtype" {
			return false
		}
		for _, c := range t.Body.List {
			cc := c.(*ast.CaseClause)
			r := one(cc.Body)
			if len(cc.List) == 0 { // default: the entry itself (or the zero of a typed Next on an entry enumerator)
				if r != "e" && r != "0" && r != "\"\"" && r != "nil" {
					return false
				}
				continue
			}
			for _, l := range cc.List {
				switch exprStr(l) {
				case "ELEMENT_TYPE_KEYS", "1":
					if !isKey(r) {
						return false
					}
				case "ELEMENT_TYPE_VALUES", "2":
					if !isVal(r) {
						return false
					}
				case "ELEMENT_TYPE_ENTRIES", "3":
					if r != "e" && r != "0" && r != "\"\"" && r != "nil" {
						return false
					}
				default:
					return false
				}
			}
		}
		return true
	}
	return false
}

// enumIR transcribes HasMoreElements / Next* of an enumerator object.
func enumIR(fd *ast.FuncDecl) string {
	var out []string
	body := fd.Body.List
	for i, st := range body {
		switch t := st.(type) {
		case *ast.ForStmt:
			if isSkipLoop(t) {
				out = append(out, ".skipLoop")
			} else {
				out = append(out, ".unknown")
			}
		case *ast.IfStmt:
			tok := ".unknown"
			if t.Init == nil && t.Else == nil {
				switch exprStr(t.Cond) {
				case "(this.entry!=nil)":
					if takeBody(t.Body.List, "next") {
						tok = ".ifEntryTake"
					}
				case "this.HasMoreElements()", "((this.entry!=nil)&&(this.parent.header!=this.entry))":
					if takeBody(t.Body.List, "link_next") {
						tok = ".ifHasMoreTake"
					}
				}
			}
			out = append(out, tok)
		case *ast.ReturnStmt:
			if len(t.Results) != 1 {
				out = append(out, ".unknown")
				continue
			}
			switch s := exprStr(t.Results[0]); {
			case s == "(this.entry!=nil)":
				out = append(out, ".retHasEntry")
			case s == "((this.entry!=nil)&&(this.parent.header!=this.entry))" || s == "((this.parent.header!=this.entry)&&(this.entry!=nil))":
				out = append(out, ".retNotHeader")
			case s == "this.NextElement()" && len(body) == 1:
				out = append(out, ".retNextElement")
			case i == len(body)-1 && s == "this.parent.NONE":
				out = append(out, ".exhausted")
			case i == len(body)-1 && (s == "0" || s == "\"\"" || s == "nil"):
				out = append(out, ".exhausted")
			default:
				out = append(out, ".unknown")
			}
		case *ast.ExprStmt:
			if c, ok := t.X.(*ast.CallExpr); ok && exprStr(c.Fun) == "panic" && i == len(body)-1 {
				out = append(out, ".exhausted")
			} else {
				out = append(out, ".unknown")
			}
		default:
			out = append(out, ".unknown")
		}
	}
	return lst(out)
}
