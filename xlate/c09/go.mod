module verif/xlate/c09

go 1.23
