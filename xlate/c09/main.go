// xlate/c09 — tie A for properties C09 (default) and C12 (-set plain).
//
// Transcribes, from each <Type>.go of /repo/util/hmap, the facts the CodeModel depends on into a
// Lean table of `HMap.TypeDesc` values (lean/Golib/Gen/C09.lean, lean/Golib/Gen/C12.lean).  It never
// judges: the obligations (`Gen.… = HMap.linkedTypes`-style equalities proved by `decide`) are in
// lean/Golib/Props/C09Gen.lean and C12Gen.lean.  A shape it does not recognise is emitted as an
// `unknown` constructor, which no table of the model contains (the obligation fails, never skipped).
//
// Facts per type:
//
//	key / val     parameter types of the put method
//	addOp         in add/_add, the statement that updates `e.value` of a present key:  `+=` accumulate, `=` assign
//	growMul/Add   rehash():  newCapacity := oldCapacity*M + A
//	evictLast/First   inside `if this.max > 0 { switch m { case …: for this.count >= this.max { k := this.header.<end>.key`
//	              link_next = front, link_prev = back, per case list (PUT_FIRST/PUT_FORCE_FIRST vs PUT_LAST/PUT_FORCE_LAST);
//	              put and add must agree
//	capGuard      New<Type>(initCapacity int, loadFactor float32): absent / contains `if initCapacity == 0 { initCapacity = 1 }` / not
//	cvScan        ContainsValue: the bucket loop `for i := <init>; i <cond> 0; i-- { for e := tab[<index>]; …`
//	refuseEmpty   put (or unipoint / _add) starts with `if key == "" { return … }`
//	blindEmpty    Contains / ContainsKey contains `if key == "" { return false }`
//	addFreshNew   plain add(): the final return statement returns the value parameter instead of this.NONE
package main

import (
	"flag"
	"fmt"
	"go/ast"
	"go/parser"
	"go/token"
	"os"
	"path/filepath"
	"sort"
	"strings"
)

var fset = token.NewFileSet()

var linked = []string{"LinkedMap", "IntKeyLinkedMap", "LongKeyLinkedMap", "StringKeyLinkedMap", "IntIntLinkedMap",
	"IntFloatLinkedMap", "LongFloatLinkedMap", "LongLongLinkedMap", "StringIntLinkedMap", "StringLongLinkedMap",
	"LinkedSet", "IntLinkedSet", "StringLinkedSet"}
var plain = []string{"IntIntMap", "IntKeyMap", "IntSet", "StringSet"}

type desc struct {
	name, key, val, addOp                string
	growMul, growAdd                     int
	evictLast, evictFirst                string
	capGuard, cvScan                     string
	refuseEmpty, blindEmpty, addFreshNew bool
}

func methods(f *ast.File, typ string) (map[string]*ast.FuncDecl, map[string]*ast.FuncDecl) {
	ms, fs := map[string]*ast.FuncDecl{}, map[string]*ast.FuncDecl{}
	for _, d := range f.Decls {
		fd, ok := d.(*ast.FuncDecl)
		if !ok || fd.Body == nil {
			continue
		}
		if fd.Recv == nil {
			fs[fd.Name.Name] = fd
			continue
		}
		if len(fd.Recv.List) == 1 {
			t := fd.Recv.List[0].Type
			if s, ok := t.(*ast.StarExpr); ok {
				t = s.X
			}
			if id, ok := t.(*ast.Ident); ok && id.Name == typ {
				ms[fd.Name.Name] = fd
			}
		}
	}
	return ms, fs
}

func typeName(e ast.Expr) string {
	switch t := e.(type) {
	case *ast.Ident:
		return t.Name
	case *ast.InterfaceType:
		return "interface{}"
	case *ast.SelectorExpr:
		return typeName(t.X) + "." + t.Sel.Name
	case *ast.StarExpr:
		return "*" + typeName(t.X)
	}
	return "?"
}

func params(fd *ast.FuncDecl) (names []string, types []string) {
	for _, p := range fd.Type.Params.List {
		tn := typeName(p.Type)
		if len(p.Names) == 0 {
			names = append(names, "_")
			types = append(types, tn)
		}
		for _, n := range p.Names {
			names = append(names, n.Name)
			types = append(types, tn)
		}
	}
	return
}

func exprStr(e ast.Expr) string {
	switch t := e.(type) {
	case nil:
		return ""
	case *ast.Ident:
		return t.Name
	case *ast.BasicLit:
		return t.Value
	case *ast.SelectorExpr:
		return exprStr(t.X) + "." + t.Sel.Name
	case *ast.BinaryExpr:
		return "(" + exprStr(t.X) + t.Op.String() + exprStr(t.Y) + ")"
	case *ast.CallExpr:
		var as []string
		for _, a := range t.Args {
			as = append(as, exprStr(a))
		}
		return exprStr(t.Fun) + "(" + strings.Join(as, ",") + ")"
	case *ast.IndexExpr:
		return exprStr(t.X) + "[" + exprStr(t.Index) + "]"
	case *ast.ParenExpr:
		return exprStr(t.X)
	case *ast.UnaryExpr:
		return t.Op.String() + exprStr(t.X)
	case *ast.TypeAssertExpr:
		return exprStr(t.X) + ".(T)"
	}
	return "?"
}

// isEmptyKeyGuard recognises `if <param> == "" { return … }`.
func isEmptyKeyGuard(s ast.Stmt, param string) bool {
	is, ok := s.(*ast.IfStmt)
	if !ok || is.Init != nil || is.Else != nil {
		return false
	}
	be, ok := is.Cond.(*ast.BinaryExpr)
	if !ok || be.Op != token.EQL {
		return false
	}
	if exprStr(be.X) != param || exprStr(be.Y) != `""` {
		return false
	}
	if len(is.Body.List) != 1 {
		return false
	}
	_, ok = is.Body.List[0].(*ast.ReturnStmt)
	return ok
}

func hasEmptyKeyGuard(fd *ast.FuncDecl) bool {
	if fd == nil {
		return false
	}
	names, types := params(fd)
	if len(names) == 0 || types[0] != "string" {
		return false
	}
	for _, s := range fd.Body.List {
		if isEmptyKeyGuard(s, names[0]) {
			return true
		}
	}
	return false
}

// valueUpdate finds, inside a method, the assignment to `<x>.value` that is not preceded by `old :=` on
// the same object … simply: the first assignment statement whose LHS is a selector ending in `.value`
// (or `.Value`) inside an `if <e>.key == key` block.
func valueUpdate(fd *ast.FuncDecl) string {
	res := ""
	ast.Inspect(fd.Body, func(n ast.Node) bool {
		if res != "" {
			return false
		}
		is, ok := n.(*ast.IfStmt)
		if !ok {
			return true
		}
		c := exprStr(is.Cond)
		if !strings.Contains(c, ".key==") && !strings.Contains(c, ".Key==") && !strings.Contains(c, ".key.Equals(") {
			return true
		}
		for _, s := range is.Body.List {
			as, ok := s.(*ast.AssignStmt)
			if !ok || len(as.Lhs) != 1 {
				continue
			}
			l := exprStr(as.Lhs[0])
			if strings.HasSuffix(l, ".value") || strings.HasSuffix(l, ".Value") {
				switch as.Tok {
				case token.ADD_ASSIGN:
					res = "accumulate"
				case token.ASSIGN:
					res = "assign"
				default:
					res = "unknown"
				}
				return false
			}
		}
		return true
	})
	if res == "" {
		return "unknown"
	}
	return res
}

func growth(fd *ast.FuncDecl) (int, int) {
	mul, add := 0, 0
	ast.Inspect(fd.Body, func(n ast.Node) bool {
		as, ok := n.(*ast.AssignStmt)
		if !ok || len(as.Lhs) != 1 || len(as.Rhs) != 1 || exprStr(as.Lhs[0]) != "newCapacity" {
			return true
		}
		if be, ok := as.Rhs[0].(*ast.BinaryExpr); ok && be.Op == token.ADD {
			if in, ok := be.X.(*ast.BinaryExpr); ok && in.Op == token.MUL && exprStr(in.X) == "oldCapacity" {
				fmt.Sscanf(exprStr(in.Y), "%d", &mul)
				fmt.Sscanf(exprStr(be.Y), "%d", &add)
			}
		}
		return false
	})
	// oldCapacity must be len(this.table)
	ok := false
	ast.Inspect(fd.Body, func(n ast.Node) bool {
		if as, y := n.(*ast.AssignStmt); y && len(as.Lhs) == 1 && exprStr(as.Lhs[0]) == "oldCapacity" && exprStr(as.Rhs[0]) == "len(this.table)" {
			ok = true
		}
		return true
	})
	if !ok {
		return 0, 0
	}
	return mul, add
}

// evictEnds returns the end evicted for the FIRST modes and for the LAST modes.
func evictEnds(fd *ast.FuncDecl) (first, last string) {
	first, last = "unknown", "unknown"
	ast.Inspect(fd.Body, func(n ast.Node) bool {
		is, ok := n.(*ast.IfStmt)
		if !ok || exprStr(is.Cond) != "(this.max>0)" {
			return true
		}
		for _, s := range is.Body.List {
			sw, ok := s.(*ast.SwitchStmt)
			if !ok || exprStr(sw.Tag) != "m" {
				continue
			}
			for _, c := range sw.Body.List {
				cc := c.(*ast.CaseClause)
				var labels []string
				for _, e := range cc.List {
					labels = append(labels, exprStr(e))
				}
				lab := strings.Join(labels, ",")
				end := "unknown"
				for _, b := range cc.Body {
					fs, ok := b.(*ast.ForStmt)
					if !ok || exprStr(fs.Cond) != "(this.count>=this.max)" || fs.Init != nil || fs.Post != nil {
						continue
					}
					// k := this.header.<link>.key ; … this.remove(k)
					var link string
					removes := false
					for _, st := range fs.Body.List {
						if as, ok := st.(*ast.AssignStmt); ok && len(as.Lhs) == 1 && exprStr(as.Lhs[0]) == "k" {
							switch exprStr(as.Rhs[0]) {
							case "this.header.link_next.key":
								link = "front"
							case "this.header.link_prev.key":
								link = "back"
							}
						}
						if strings.Contains(stmtCalls(st), "this.remove(k)") {
							removes = true
						}
					}
					if link != "" && removes {
						end = link
					}
				}
				switch lab {
				case "PUT_FORCE_FIRST,PUT_FIRST", "PUT_FIRST,PUT_FORCE_FIRST":
					first = end
				case "PUT_FORCE_LAST,PUT_LAST", "PUT_LAST,PUT_FORCE_LAST":
					last = end
				}
			}
		}
		return false
	})
	return
}

func stmtCalls(s ast.Stmt) string {
	var out []string
	ast.Inspect(s, func(n ast.Node) bool {
		if c, ok := n.(*ast.CallExpr); ok {
			out = append(out, exprStr(c))
		}
		return true
	})
	return strings.Join(out, ";")
}

func capGuard(fd *ast.FuncDecl) string {
	if fd == nil {
		return "noCtor"
	}
	names, types := params(fd)
	if len(names) != 2 || types[0] != "int" {
		return "noCtor"
	}
	g := "unguarded"
	ast.Inspect(fd.Body, func(n ast.Node) bool {
		is, ok := n.(*ast.IfStmt)
		if !ok {
			return true
		}
		if exprStr(is.Cond) == "("+names[0]+"==0)" && len(is.Body.List) == 1 {
			if as, ok := is.Body.List[0].(*ast.AssignStmt); ok && exprStr(as.Lhs[0]) == names[0] && exprStr(as.Rhs[0]) == "1" {
				g = "guarded"
			}
		}
		return true
	})
	return g
}

func cvScan(fd *ast.FuncDecl) string {
	if fd == nil {
		return "none"
	}
	res := "stub"
	ast.Inspect(fd.Body, func(n ast.Node) bool {
		fs, ok := n.(*ast.ForStmt)
		if !ok {
			return true
		}
		as, ok := fs.Init.(*ast.AssignStmt)
		if !ok || len(as.Lhs) != 1 {
			return true
		}
		iv := exprStr(as.Lhs[0])
		init := exprStr(as.Rhs[0])
		cond := exprStr(fs.Cond)
		post := ""
		if p, ok := fs.Post.(*ast.IncDecStmt); ok && p.Tok == token.DEC && exprStr(p.X) == iv {
			post = "dec"
		}
		if !strings.HasPrefix(init, "len(") && !strings.HasPrefix(init, "(len(") {
			return true
		}
		// the inner chain loop
		index := ""
		for _, st := range fs.Body.List {
			if in, ok := st.(*ast.ForStmt); ok {
				if ia, ok := in.Init.(*ast.AssignStmt); ok && len(ia.Rhs) == 1 {
					if ix, ok := ia.Rhs[0].(*ast.IndexExpr); ok {
						index = exprStr(ix.Index)
					}
				}
			}
		}
		full := strings.HasPrefix(init, "len(")                                      // i := len(tab)
		fullM1 := strings.HasPrefix(init, "(len(") && strings.HasSuffix(init, "-1)") // i := len(tab) - 1
		switch {
		case post != "dec" || index == "":
			res = "unknown"
		case full && cond == "("+iv+">0)" && index == "("+iv+"-1)":
			res = "all"
		case fullM1 && cond == "("+iv+">=0)" && index == iv:
			res = "all"
		case full && cond == "("+iv+">0)" && index == iv:
			res = "outOfRange"
		case fullM1 && cond == "("+iv+">0)" && index == iv:
			res = "skipsFirst"
		default:
			res = "unknown"
		}
		return false
	})
	return res
}

func blindEmpty(fd *ast.FuncDecl) bool {
	if fd == nil {
		return false
	}
	names, types := params(fd)
	if len(names) == 0 || types[0] != "string" {
		return false
	}
	found := false
	ast.Inspect(fd.Body, func(n ast.Node) bool {
		if is, ok := n.(*ast.IfStmt); ok && isEmptyKeyGuard(is, names[0]) {
			if r := is.Body.List[0].(*ast.ReturnStmt); len(r.Results) == 1 && exprStr(r.Results[0]) == "false" {
				found = true
			}
		}
		return true
	})
	return found
}

func lastReturn(fd *ast.FuncDecl) string {
	if n := len(fd.Body.List); n > 0 {
		if r, ok := fd.Body.List[n-1].(*ast.ReturnStmt); ok && len(r.Results) == 1 {
			return exprStr(r.Results[0])
		}
	}
	return "?"
}

func kindOf(t string, isKey bool) string {
	switch t {
	case "int32":
		return "int32"
	case "int64":
		return "int64"
	case "string":
		return "str"
	case "float32":
		if !isKey {
			return "float32"
		}
	case "LinkedKey", "interface{}":
		return "obj"
	}
	return "unknown"
}

func extract(dir, typ string, isPlain bool) desc {
	d := desc{name: typ, key: "unknown", val: "unknown", addOp: "none", evictLast: "unknown", evictFirst: "unknown", capGuard: "noCtor", cvScan: "none"}
	f, err := parser.ParseFile(fset, filepath.Join(dir, typ+".go"), nil, 0)
	if err != nil {
		fmt.Fprintln(os.Stderr, "xlate/c09:", err)
		return d
	}
	ms, fs := methods(f, typ)
	// the put method
	var put *ast.FuncDecl
	for _, n := range []string{"put", "unipoint", "Put"} {
		if ms[n] != nil {
			put = ms[n]
			break
		}
	}
	if put != nil {
		_, types := params(put)
		var ts []string
		for _, t := range types {
			if t != "PUT_MODE" {
				ts = append(ts, t)
			}
		}
		if len(ts) >= 1 {
			d.key = kindOf(ts[0], true)
		}
		switch len(ts) {
		case 1:
			d.val = "unit"
		case 2:
			d.val = kindOf(ts[1], false)
		}
		d.refuseEmpty = hasEmptyKeyGuard(put)
		if !isPlain {
			d.evictFirst, d.evictLast = evictEnds(put)
		}
	}
	// add
	var add *ast.FuncDecl
	for _, n := range []string{"add", "_add"} {
		if ms[n] != nil {
			add = ms[n]
		}
	}
	if add != nil {
		d.addOp = valueUpdate(add)
		if !isPlain {
			f1, l1 := evictEnds(add)
			if f1 != d.evictFirst {
				d.evictFirst = "unknown"
			}
			if l1 != d.evictLast {
				d.evictLast = "unknown"
			}
		}
		if hasEmptyKeyGuard(add) != d.refuseEmpty {
			d.addOp = "unknown" // put and add disagree about the empty key
		}
		if isPlain {
			names, _ := params(add)
			if len(names) >= 2 && lastReturn(add) == names[1] {
				d.addFreshNew = true
			}
		}
	}
	if isPlain {
		// no bound: the eviction ends are not applicable; keep the table's conventional values
		d.evictLast, d.evictFirst = "front", "back"
	}
	if ms["rehash"] != nil {
		d.growMul, d.growAdd = growth(ms["rehash"])
	}
	d.capGuard = capGuard(fs["New"+typ])
	if d.capGuard == "noCtor" {
		// a New<Type>(initCapacity, loadFactor) may exist under the plain name only; nothing else to do
	}
	d.cvScan = cvScan(ms["ContainsValue"])
	c := ms["Contains"]
	if c == nil {
		c = ms["ContainsKey"]
	}
	d.blindEmpty = blindEmpty(c)
	return d
}

func lean(d desc) string {
	b := func(x bool) string {
		if x {
			return "true"
		}
		return "false"
	}
	return fmt.Sprintf("{ name := %q, key := .%s, val := .%s, addOp := .%s, growMul := %d, growAdd := %d, evictLast := .%s, evictFirst := .%s, capGuard := .%s, cvScan := .%s, refuseEmpty := %s, blindEmpty := %s, addFreshNew := %s }",
		d.name, d.key, d.val, d.addOp, d.growMul, d.growAdd, d.evictLast, d.evictFirst, d.capGuard, d.cvScan, b(d.refuseEmpty), b(d.blindEmpty), b(d.addFreshNew))
}

func irFile(dir string, names []string, ns string) string {
	var sb strings.Builder
	sb.WriteString("-- GENERATED by xlate/c09 (-ir) from util/hmap/*.go — do not edit\n")
	sb.WriteString("import Golib.HMap.IR\n\nnamespace " + ns + "\nopen HMap HMap.IR\n\n")
	for _, n := range names {
		f, err := parser.ParseFile(fset, filepath.Join(dir, n+".go"), nil, 0)
		if err != nil {
			fmt.Fprintln(os.Stderr, "xlate/c09:", err)
			continue
		}
		ms, _ := methods(f, n)
		cachedHash = readsKeyHash(ms["rehash"])
		pick := func(cands ...string) *ast.FuncDecl {
			for _, c := range cands {
				if ms[c] != nil {
					return ms[c]
				}
			}
			return nil
		}
		emit := func(suffix string, fd *ast.FuncDecl, isRemove bool) {
			if fd == nil {
				return
			}
			sb.WriteString(fmt.Sprintf("/-- %s.%s -/\ndef %s_%s : List TSt :=\n  %s\n\n", n, fd.Name.Name, n, suffix, methodIR(fd, isRemove)))
		}
		emit("put", pick("put", "unipoint", "Put"), false)
		emit("add", pick("add", "_add"), false)
		emit("addNoOver", pick("addNoOver"), false)
		emit("addIfExist", pick("addIfExist"), false)
		emit("remove", pick("remove", "Remove"), true)
		emit("get", pick("Get"), false)
		emit("contains", pick("ContainsKey", "Contains"), false)
		emit("getLRU", pick("GetLRU"), false)
		emit("removeFirst", pick("RemoveFirst"), false)
		emit("removeLast", pick("RemoveLast"), false)
		emit("clear", pick("clear", "Clear"), false)
		for _, acc := range [][2]string{{"Size", "size"}, {"IsEmpty", "isEmpty"}, {"IsFull", "isFull"}, {"GetFirstKey", "firstKey"}, {"GetLastKey", "lastKey"},
			{"GetFirstValue", "firstValue"}, {"GetLastValue", "lastValue"}} {
			fd := ms[acc[0]]
			if fd == nil && strings.HasSuffix(acc[0], "Key") { // the sets call them GetFirst / GetLast
				fd = ms[strings.TrimSuffix(acc[0], "Key")]
			}
			if fd != nil {
				sb.WriteString(fmt.Sprintf("/-- %s.%s -/\ndef %s_%s : List ASt :=\n  %s\n\n", n, fd.Name.Name, n, acc[1], accessorIR(fd)))
			}
		}
		if ms["SetMax"] != nil {
			sb.WriteString(fmt.Sprintf("/-- %s.SetMax -/\ndef %s_setMax : List CSt :=\n  %s\n\n", n, n, setterIR(ms["SetMax"])))
		}
		if ms["SetNullValue"] != nil {
			sb.WriteString(fmt.Sprintf("/-- %s.SetNullValue -/\ndef %s_setNull : List CSt :=\n  %s\n\n", n, n, setterIR(ms["SetNullValue"])))
		}
		if ms["ContainsValue"] != nil {
			sb.WriteString(fmt.Sprintf("/-- %s.ContainsValue -/\ndef %s_cv : CVFacts :=\n  %s\n\n", n, n, cvFacts(ms["ContainsValue"])))
		}
		if ms["ToBytes"] != nil && ms["ToObject"] != nil {
			sb.WriteString(fmt.Sprintf("/-- %s.ToBytes -/\ndef %s_toBytes : WireFacts :=\n  %s\n\n", n, n, wireFacts(ms["ToBytes"], false)))
			sb.WriteString(fmt.Sprintf("/-- %s.ToObject -/\ndef %s_toObject : WireFacts :=\n  %s\n\n", n, n, wireFacts(ms["ToObject"], true)))
		}
		if ms["Sort"] != nil {
			sb.WriteString(fmt.Sprintf("/-- %s.Sort -/\ndef %s_sort : SortFacts :=\n  %s\n\n", n, n, sortFacts(ms["Sort"], n)))
		}
		ens, ems := enumTypes(f)
		var hasMores, nexts []string
		for _, en := range ens {
			var mns []string
			for mn := range ems[en] {
				if mn == "HasMoreElements" || strings.HasPrefix(mn, "Next") {
					mns = append(mns, mn)
				}
			}
			sort.Strings(mns)
			for _, mn := range mns {
				sb.WriteString(fmt.Sprintf("/-- %s.%s (enumerator object of %s) -/\ndef %s_%s_%s : List ESt :=\n  %s\n\n", en, mn, n, n, en, mn, enumIR(ems[en][mn])))
				if mn == "HasMoreElements" {
					hasMores = append(hasMores, fmt.Sprintf("%s_%s_%s", n, en, mn))
				} else {
					nexts = append(nexts, fmt.Sprintf("%s_%s_%s", n, en, mn))
				}
			}
		}
		sb.WriteString(fmt.Sprintf("/-- every HasMoreElements method of the enumerator objects of %s -/\ndef %s_enumHasMore : List (List ESt) :=\n  [%s]\n\n", n, n, strings.Join(hasMores, ", ")))
		sb.WriteString(fmt.Sprintf("/-- every Next* method of the enumerator objects of %s -/\ndef %s_enumNext : List (List ESt) :=\n  [%s]\n\n", n, n, strings.Join(nexts, ", ")))
		sb.WriteString(fmt.Sprintf("/-- %s.rehash -/\ndef %s_rehash : RehashFacts :=\n  %s\n\n", n, n, rehashFacts(ms["rehash"])))
	}
	sb.WriteString("end " + ns + "\n")
	return sb.String()
}

func main() {
	repo := flag.String("repo", "/repo", "repository root")
	out := flag.String("out", "", "output Lean file")
	set := flag.String("set", "linked", "linked | plain")
	ir := flag.Bool("ir", false, "emit the statement-level IR of put/add/remove/rehash instead of the descriptors")
	entry := flag.Bool("entry", false, "emit the facts about the entry objects (<Type>LinkedEntry.go) and the sets' ToString")
	flag.Parse()
	dir := filepath.Join(*repo, "util", "hmap")
	names, ns, isPlain := linked, "Gen.C09", false
	if *set == "plain" {
		names, ns, isPlain = plain, "Gen.C12", true
	}
	var sb strings.Builder
	if *entry {
		sb.WriteString(entryFile(dir, names))
	} else if *ir {
		sb.WriteString(irFile(dir, names, ns+"IR"))
	} else {
		sb.WriteString("-- GENERATED by xlate/c09 (-set " + *set + ") from util/hmap/*.go — do not edit\n")
		sb.WriteString("import Golib.HMap.Types\n\nnamespace " + ns + "\nopen HMap\n\n")
		var defs []string
		for _, n := range names {
			d := extract(dir, n, isPlain)
			sb.WriteString("def " + n + " : TypeDesc :=\n  " + lean(d) + "\n\n")
			defs = append(defs, n)
		}
		sb.WriteString("def types : List TypeDesc := [" + strings.Join(defs, ", ") + "]\n\nend " + ns + "\n")
	}
	if *out == "" {
		fmt.Print(sb.String())
		return
	}
	if err := os.WriteFile(*out, []byte(sb.String()), 0o644); err != nil {
		fmt.Fprintln(os.Stderr, err)
		os.Exit(1)
	}
}
