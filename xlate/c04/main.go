// xlate/c04 — tie A for property C04.
//
// Lists every `make(T, n)` (and every constructor call `New…(n)` / `Create…(n)` that sizes a table)
// of the decoding packages whose size expression flows, inside the same
// function, from the result of a `Read*` call on the input stream, and whether a guard
// (`CheckCount(n, …)` or an `if` comparing n with Available()/buffer.Len() that panics) precedes
// it in an enclosing block.  Also extracts whether `DataInputX.ReadBytes` compares its size with
// the buffered bytes before it allocates.  The result is Lean *data*
// (lean/Golib/Gen/AllocSites.lean); the obligations about it are in Golib/Props/C04Gen.lean.
package main

import (
	"flag"
	"fmt"
	"go/ast"
	"go/parser"
	"go/token"
	"os"
	"path/filepath"
	"sort"
	"strings"
)

type site struct {
	file, fn, elem, source string
	guarded                bool
}

var sites []site
var readBytesChecked, readBytesSeen bool

func exprString(e ast.Expr) string {
	switch x := e.(type) {
	case *ast.Ident:
		return x.Name
	case *ast.StarExpr:
		return "*" + exprString(x.X)
	case *ast.ArrayType:
		return "[]" + exprString(x.Elt)
	case *ast.SelectorExpr:
		return exprString(x.X) + "." + x.Sel.Name
	case *ast.InterfaceType:
		return "interface{}"
	case *ast.MapType:
		return "map[" + exprString(x.Key) + "]" + exprString(x.Value)
	}
	return "?"
}

// readSource: the name of a Read* method called anywhere inside e ("" if none)
func readSource(e ast.Node) string {
	src := ""
	ast.Inspect(e, func(n ast.Node) bool {
		if c, ok := n.(*ast.CallExpr); ok {
			if s, ok := c.Fun.(*ast.SelectorExpr); ok && strings.HasPrefix(s.Sel.Name, "Read") && src == "" {
				src = s.Sel.Name
			}
		}
		return true
	})
	return src
}

func idents(e ast.Node) []string {
	var out []string
	ast.Inspect(e, func(n ast.Node) bool {
		if id, ok := n.(*ast.Ident); ok {
			out = append(out, id.Name)
		}
		return true
	})
	return out
}

func mentionsCall(e ast.Node, names ...string) bool {
	found := false
	ast.Inspect(e, func(n ast.Node) bool {
		if c, ok := n.(*ast.CallExpr); ok {
			if s, ok := c.Fun.(*ast.SelectorExpr); ok {
				for _, nm := range names {
					if s.Sel.Name == nm {
						found = true
					}
				}
			}
		}
		return true
	})
	return found
}

func endsInPanic(b *ast.BlockStmt) bool {
	if b == nil || len(b.List) == 0 {
		return false
	}
	switch s := b.List[len(b.List)-1].(type) {
	case *ast.ExprStmt:
		if c, ok := s.X.(*ast.CallExpr); ok {
			if id, ok := c.Fun.(*ast.Ident); ok && id.Name == "panic" {
				return true
			}
		}
	case *ast.ReturnStmt:
		return true
	}
	// `panic(...)` followed by an unreachable return
	for _, st := range b.List {
		if es, ok := st.(*ast.ExprStmt); ok {
			if c, ok := es.X.(*ast.CallExpr); ok {
				if id, ok := c.Fun.(*ast.Ident); ok && id.Name == "panic" {
					return true
				}
			}
		}
	}
	return false
}

type fnState struct {
	file, fn string
	source   map[string]string // variable -> Read* method its value comes from
	root     map[string]string // variable -> the variable first assigned from the Read* call
}

func (st *fnState) taintOf(e ast.Node) (string, string) { // (root variable, source)
	for _, id := range idents(e) {
		if s, ok := st.source[id]; ok {
			return st.root[id], s
		}
	}
	return "", ""
}

func (st *fnState) assign(lhs []ast.Expr, rhs []ast.Expr) {
	if len(lhs) != len(rhs) {
		return
	}
	for i := range lhs {
		id, ok := lhs[i].(*ast.Ident)
		if !ok {
			if sel, ok := lhs[i].(*ast.SelectorExpr); ok { // this.dataBytesSize = int(din.ReadInt3())
				id = sel.Sel
			} else {
				continue
			}
		}
		if c, ok := rhs[i].(*ast.CallExpr); ok {
			if f, ok := c.Fun.(*ast.Ident); ok && f.Name == "make" {
				continue
			}
		}
		if src := readSource(rhs[i]); src != "" {
			st.source[id.Name] = src
			st.root[id.Name] = id.Name
			continue
		}
		if r, s := st.taintOf(rhs[i]); s != "" {
			st.source[id.Name] = s
			st.root[id.Name] = r
		}
	}
}

func copySet(m map[string]bool) map[string]bool {
	c := map[string]bool{}
	for k, v := range m {
		c[k] = v
	}
	return c
}

// visitExprs records the makes inside one statement's own expressions (not nested blocks)
func (st *fnState) makesIn(n ast.Node, guarded map[string]bool) {
	ast.Inspect(n, func(x ast.Node) bool {
		switch x.(type) {
		case *ast.BlockStmt, *ast.FuncLit:
			return false
		}
		c, ok := x.(*ast.CallExpr)
		if !ok {
			return true
		}
		// constructors that size a table from their argument: New…(n, …) / Create…(n)
		if name := calleeName(c); (strings.HasPrefix(name, "New") || strings.HasPrefix(name, "Create")) && collectionName(name) && len(c.Args) >= 1 {
			for _, a := range c.Args {
				if _, isCall := a.(*ast.CallExpr); isCall && readSource(a) == "" {
					continue
				}
				src := ""
				root := ""
				if id, ok := a.(*ast.Ident); ok {
					if s, ok := st.source[id.Name]; ok {
						src, root = s, st.root[id.Name]
					}
				}
				if src == "" || src == "parameter" {
					continue
				}
				sites = append(sites, site{st.file, st.fn, "call:" + name, src, root != "" && guarded[root]})
				break
			}
			return true
		}
		f, ok := c.Fun.(*ast.Ident)
		if !ok || f.Name != "make" || len(c.Args) < 2 {
			return true
		}
		if _, isMap := c.Args[0].(*ast.MapType); isMap {
			return true
		}
		for _, sz := range c.Args[1:] {
			src := readSource(sz)
			root := ""
			if src == "" {
				root, src = st.taintOf(sz)
			}
			if src == "" {
				continue
			}
			sites = append(sites, site{st.file, st.fn, exprString(c.Args[0]), src, root != "" && guarded[root]})
			break
		}
		return true
	})
}

func (st *fnState) block(list []ast.Stmt, guarded map[string]bool) {
	for _, s := range list {
		switch x := s.(type) {
		case *ast.AssignStmt:
			st.makesIn(x, guarded)
			st.assign(x.Lhs, x.Rhs)
		case *ast.DeclStmt:
			st.makesIn(x, guarded)
			if gd, ok := x.Decl.(*ast.GenDecl); ok {
				for _, sp := range gd.Specs {
					if vs, ok := sp.(*ast.ValueSpec); ok && len(vs.Values) == len(vs.Names) {
						var l []ast.Expr
						for _, n := range vs.Names {
							l = append(l, n)
						}
						st.assign(l, vs.Values)
					}
				}
			}
		case *ast.ExprStmt:
			st.makesIn(x, guarded)
			if c, ok := x.X.(*ast.CallExpr); ok {
				if sel, ok := c.Fun.(*ast.SelectorExpr); ok && sel.Sel.Name == "CheckCount" && len(c.Args) >= 1 {
					if r, _ := st.taintOf(c.Args[0]); r != "" {
						guarded[r] = true
					}
				}
			}
		case *ast.IfStmt:
			if x.Init != nil {
				st.block([]ast.Stmt{x.Init}, guarded)
			}
			st.makesIn(x.Cond, guarded)
			st.block(x.Body.List, copySet(guarded))
			if x.Else != nil {
				st.block([]ast.Stmt{x.Else}, copySet(guarded))
			}
			// `if n > Available() { panic }` guards what follows
			if endsInPanic(x.Body) && mentionsCall(x.Cond, "Available", "Len") {
				if r, _ := st.taintOf(x.Cond); r != "" {
					guarded[r] = true
				}
			}
		case *ast.BlockStmt:
			st.block(x.List, copySet(guarded))
		case *ast.ForStmt:
			if x.Init != nil {
				st.block([]ast.Stmt{x.Init}, guarded)
			}
			st.block(x.Body.List, copySet(guarded))
		case *ast.RangeStmt:
			st.block(x.Body.List, copySet(guarded))
		case *ast.SwitchStmt:
			if x.Init != nil {
				st.block([]ast.Stmt{x.Init}, guarded)
			}
			for _, cc := range x.Body.List {
				st.block(cc.(*ast.CaseClause).Body, copySet(guarded))
			}
		case *ast.TypeSwitchStmt:
			for _, cc := range x.Body.List {
				st.block(cc.(*ast.CaseClause).Body, copySet(guarded))
			}
		case *ast.ReturnStmt, *ast.GoStmt, *ast.DeferStmt, *ast.IncDecStmt, *ast.SendStmt:
			st.makesIn(x, guarded)
		}
	}
}

func funcName(pkg string, fd *ast.FuncDecl) string {
	if fd.Recv != nil && len(fd.Recv.List) == 1 {
		return pkg + ".(" + exprString(fd.Recv.List[0].Type) + ")." + fd.Name.Name
	}
	return pkg + "." + fd.Name.Name
}

// readBytesFact: in DataInputX.ReadBytes, is `make([]byte, sz)` preceded by an if that compares sz
// with the bytes buffered and panics?
func readBytesFact(fd *ast.FuncDecl) {
	readBytesSeen = true
	if len(fd.Type.Params.List) == 0 || len(fd.Type.Params.List[0].Names) == 0 {
		return
	}
	p := fd.Type.Params.List[0].Names[0].Name
	checked := false
	for _, s := range fd.Body.List {
		if ifs, ok := s.(*ast.IfStmt); ok && endsInPanic(ifs.Body) && mentionsCall(ifs.Cond, "Len", "Available") {
			for _, id := range idents(ifs.Cond) {
				if id == p {
					checked = true
				}
			}
		}
		hasMake := false
		ast.Inspect(s, func(n ast.Node) bool {
			if c, ok := n.(*ast.CallExpr); ok {
				if f, ok := c.Fun.(*ast.Ident); ok && f.Name == "make" {
					hasMake = true
				}
			}
			return true
		})
		if hasMake {
			readBytesChecked = checked
			return
		}
	}
}

// readsStream: the function has a *DataInputX receiver or parameter
func readsStream(fd *ast.FuncDecl) bool {
	is := func(e ast.Expr) bool { return strings.HasSuffix(exprString(e), "DataInputX") }
	if fd.Recv != nil {
		for _, f := range fd.Recv.List {
			if is(f.Type) {
				return true
			}
		}
	}
	for _, f := range fd.Type.Params.List {
		if is(f.Type) {
			return true
		}
	}
	return false
}

// collectionName: constructors of containers (their integer argument is a capacity)
func collectionName(name string) bool {
	for _, w := range []string{"Map", "List", "Set", "Table", "Array", "Queue"} {
		if strings.Contains(name, w) {
			return true
		}
	}
	return false
}

func calleeName(c *ast.CallExpr) string {
	switch f := c.Fun.(type) {
	case *ast.Ident:
		return f.Name
	case *ast.SelectorExpr:
		return f.Sel.Name
	}
	return ""
}

// ---------------------------------------------------------------- statement programs (interpreted tie)

type pstmt struct {
	kind        string // read copy havoc check make block
	x, y        string
	k           int
	body        []pstmt
}

// convOf: the variable behind a chain of conversions T(T'(y)), or ""
func convOf(e ast.Expr) string {
	for {
		switch x := e.(type) {
		case *ast.ParenExpr:
			e = x.X
		case *ast.Ident:
			return x.Name
		case *ast.SelectorExpr:
			return x.Sel.Name
		case *ast.CallExpr:
			id, ok := x.Fun.(*ast.Ident)
			if !ok || len(x.Args) != 1 {
				return ""
			}
			switch id.Name {
			case "int", "int8", "int16", "int32", "int64", "uint", "uint8", "uint16", "uint32", "uint64":
				// a narrowing or sign-changing conversion does not keep an upper bound in general, a
				// widening one does; the decoders only convert counts that were checked as int
				e = x.Args[0]
			default:
				return ""
			}
		default:
			return ""
		}
	}
}

func lhsName(e ast.Expr) string {
	switch x := e.(type) {
	case *ast.Ident:
		return x.Name
	case *ast.SelectorExpr:
		return x.Sel.Name
	}
	return ""
}

func firstIdent(e ast.Node) string {
	if v := convOf0(e); v != "" {
		return v
	}
	ids := idents(e)
	if len(ids) > 0 {
		return ids[0]
	}
	return ""
}

func convOf0(e ast.Node) string {
	if x, ok := e.(ast.Expr); ok {
		return convOf(x)
	}
	return ""
}

func (st *fnState) progAssign(lhs, rhs []ast.Expr, out *[]pstmt) {
	if len(lhs) != len(rhs) {
		for _, l := range lhs {
			if n := lhsName(l); n != "" {
				*out = append(*out, pstmt{kind: "havoc", x: n})
			}
		}
		return
	}
	for i := range lhs {
		n := lhsName(lhs[i])
		if n == "" || n == "_" {
			continue
		}
		if c, ok := rhs[i].(*ast.CallExpr); ok {
			if f, ok := c.Fun.(*ast.Ident); ok && f.Name == "make" {
				continue
			}
		}
		if src := readSource(rhs[i]); src != "" {
			*out = append(*out, pstmt{kind: "read", x: n, y: src})
		} else if y := convOf(rhs[i]); y != "" {
			*out = append(*out, pstmt{kind: "copy", x: n, y: y})
		} else {
			*out = append(*out, pstmt{kind: "havoc", x: n})
		}
	}
}

// progMakes: the allocations inside one statement's own expressions, in the same sense as makesIn
func (st *fnState) progMakes(n ast.Node, out *[]pstmt) {
	ast.Inspect(n, func(x ast.Node) bool {
		switch x.(type) {
		case *ast.BlockStmt, *ast.FuncLit:
			return false
		}
		c, ok := x.(*ast.CallExpr)
		if !ok {
			return true
		}
		if name := calleeName(c); (strings.HasPrefix(name, "New") || strings.HasPrefix(name, "Create")) && collectionName(name) && len(c.Args) >= 1 {
			for _, a := range c.Args {
				if id, ok := a.(*ast.Ident); ok {
					if s, ok := st.source[id.Name]; ok && s != "parameter" {
						*out = append(*out, pstmt{kind: "make", x: id.Name, y: "call:" + name})
						break
					}
				}
			}
			return true
		}
		f, ok := c.Fun.(*ast.Ident)
		if !ok || f.Name != "make" || len(c.Args) < 2 {
			return true
		}
		if _, isMap := c.Args[0].(*ast.MapType); isMap {
			return true
		}
		for _, sz := range c.Args[1:] {
			if readSource(sz) != "" {
				// sized directly by a Read call: an unnamed, unchecked value
				*out = append(*out, pstmt{kind: "read", x: "$direct", y: readSource(sz)}, pstmt{kind: "make", x: "$direct", y: exprString(c.Args[0])})
				break
			}
			if _, src := st.taintOf(sz); src != "" {
				v := firstIdent(sz)
				for _, id := range idents(sz) {
					if _, ok := st.source[id]; ok {
						v = id
						break
					}
				}
				*out = append(*out, pstmt{kind: "make", x: v, y: exprString(c.Args[0])})
				break
			}
		}
		return true
	})
}

// prog transcribes a statement list (run after the taint pass of the whole function, so that
// st.source knows every variable that carries a decoded value)
func (st *fnState) prog(list []ast.Stmt) []pstmt {
	var out []pstmt
	for _, s := range list {
		switch x := s.(type) {
		case *ast.AssignStmt:
			st.progMakes(x, &out)
			st.progAssign(x.Lhs, x.Rhs, &out)
		case *ast.DeclStmt:
			st.progMakes(x, &out)
			if gd, ok := x.Decl.(*ast.GenDecl); ok {
				for _, sp := range gd.Specs {
					if vs, ok := sp.(*ast.ValueSpec); ok && len(vs.Values) == len(vs.Names) {
						var l []ast.Expr
						for _, n := range vs.Names {
							l = append(l, n)
						}
						st.progAssign(l, vs.Values, &out)
					}
				}
			}
		case *ast.ExprStmt:
			st.progMakes(x, &out)
			if c, ok := x.X.(*ast.CallExpr); ok {
				if sel, ok := c.Fun.(*ast.SelectorExpr); ok && sel.Sel.Name == "CheckCount" && len(c.Args) == 2 {
					k := 0
					if bl, ok := c.Args[1].(*ast.BasicLit); ok {
						fmt.Sscanf(bl.Value, "%d", &k)
					}
					if v := convOf(c.Args[0]); v != "" {
						out = append(out, pstmt{kind: "check", x: v, k: k})
					}
				}
			}
		case *ast.IfStmt:
			if x.Init != nil {
				out = append(out, st.prog([]ast.Stmt{x.Init})...)
			}
			st.progMakes(x.Cond, &out)
			out = append(out, pstmt{kind: "block", body: st.prog(x.Body.List)})
			if x.Else != nil {
				out = append(out, pstmt{kind: "block", body: st.prog([]ast.Stmt{x.Else})})
			}
			if endsInPanic(x.Body) && mentionsCall(x.Cond, "Available", "Len") {
				// `if n > Available() { panic }`: what follows runs only when n ≤ Available()
				if be, ok := x.Cond.(*ast.BinaryExpr); ok && (be.Op == token.GTR || be.Op == token.GEQ) {
					if v := convOf(be.X); v != "" {
						out = append(out, pstmt{kind: "check", x: v, k: 1})
					}
				}
			}
		case *ast.BlockStmt:
			out = append(out, pstmt{kind: "block", body: st.prog(x.List)})
		case *ast.ForStmt:
			if x.Init != nil {
				out = append(out, st.prog([]ast.Stmt{x.Init})...)
			}
			body := st.prog(x.Body.List)
			if x.Post != nil {
				body = append(body, st.prog([]ast.Stmt{x.Post})...)
			}
			out = append(out, pstmt{kind: "block", body: body})
		case *ast.RangeStmt:
			out = append(out, pstmt{kind: "block", body: st.prog(x.Body.List)})
		case *ast.SwitchStmt:
			if x.Init != nil {
				out = append(out, st.prog([]ast.Stmt{x.Init})...)
			}
			for _, cc := range x.Body.List {
				out = append(out, pstmt{kind: "block", body: st.prog(cc.(*ast.CaseClause).Body)})
			}
		case *ast.TypeSwitchStmt:
			for _, cc := range x.Body.List {
				out = append(out, pstmt{kind: "block", body: st.prog(cc.(*ast.CaseClause).Body)})
			}
		case *ast.IncDecStmt:
			if n := lhsName(x.X); n != "" {
				out = append(out, pstmt{kind: "havoc", x: n})
			}
		case *ast.ReturnStmt, *ast.GoStmt, *ast.DeferStmt, *ast.SendStmt:
			st.progMakes(x, &out)
		}
	}
	return out
}

// relevant: variables that (transitively) reach an allocation size or a check
func relevant(ps []pstmt, rel map[string]bool) {
	for changed := true; changed; {
		changed = false
		var walk func(ps []pstmt)
		walk = func(ps []pstmt) {
			for _, p := range ps {
				switch p.kind {
				case "make", "check":
					if !rel[p.x] {
						rel[p.x], changed = true, true
					}
				case "copy":
					if rel[p.x] && !rel[p.y] {
						rel[p.y], changed = true, true
					}
				case "block":
					walk(p.body)
				}
			}
		}
		walk(ps)
	}
}

func hasMake(ps []pstmt) bool {
	for _, p := range ps {
		if p.kind == "make" || (p.kind == "block" && hasMake(p.body)) {
			return true
		}
	}
	return false
}

func leanProg(ps []pstmt, rel map[string]bool) string {
	if len(ps) == 0 {
		return ".done"
	}
	p, rest := ps[0], leanProg(ps[1:], rel)
	switch p.kind {
	case "read":
		if !rel[p.x] {
			return rest
		}
		return fmt.Sprintf("(.read %s %s %s)", lit(p.x), lit(p.y), rest)
	case "copy":
		if !rel[p.x] {
			return rest
		}
		return fmt.Sprintf("(.copy %s %s %s)", lit(p.x), lit(p.y), rest)
	case "havoc":
		if !rel[p.x] {
			return rest
		}
		return fmt.Sprintf("(.havoc %s %s)", lit(p.x), rest)
	case "check":
		return fmt.Sprintf("(.check %s %d %s)", lit(p.x), p.k, rest)
	case "make":
		return fmt.Sprintf("(.make %s %s %s)", lit(p.y), lit(p.x), rest)
	case "block":
		b := leanProg(p.body, rel)
		if b == ".done" {
			return rest
		}
		return fmt.Sprintf("(.block %s %s)", b, rest)
	}
	return rest
}

// ---------------------------------------------------------------- count-driven loops and additive readers

type cloop struct {
	fn, bound, source string
	reads             bool // the loop body reads from the stream (consumes input per iteration)
}

var cloops []cloop
var additive []string // Read methods that Put / append into a table of the receiver they never reset

// loopsIn lists the `for i := 0; i < n; i++` loops whose bound carries a decoded value
func (st *fnState) loopsIn(body *ast.BlockStmt) {
	ast.Inspect(body, func(n ast.Node) bool {
		f, ok := n.(*ast.ForStmt)
		if !ok || f.Cond == nil {
			return true
		}
		be, ok := f.Cond.(*ast.BinaryExpr)
		if !ok || (be.Op != token.LSS && be.Op != token.LEQ) {
			return true
		}
		v := convOf(be.Y)
		src, ok2 := st.source[v]
		if v == "" || !ok2 || src == "parameter" {
			return true
		}
		reads := readSource(f.Body) != ""
		if !reads { // a helper that is handed the stream reads from it
			ast.Inspect(f.Body, func(m ast.Node) bool {
				if c, ok := m.(*ast.CallExpr); ok {
					for _, a := range c.Args {
						if id, ok := a.(*ast.Ident); ok && (id.Name == "in" || id.Name == "din" || id.Name == "dinx") {
							reads = true
						}
					}
				}
				return true
			})
		}
		cloops = append(cloops, cloop{st.fn, v, src, reads})
		return true
	})
}

// additiveReader: a `Read` method that, inside a loop, calls this.<f>.Put/Add… or appends to this.<f>
// without assigning this.<f> a fresh value anywhere in the method
func additiveReader(fd *ast.FuncDecl) (string, bool) {
	if fd.Name.Name != "Read" || fd.Recv == nil || len(fd.Recv.List) != 1 || len(fd.Recv.List[0].Names) != 1 {
		return "", false
	}
	recv := fd.Recv.List[0].Names[0].Name
	fieldOf := func(e ast.Expr) string {
		if s, ok := e.(*ast.SelectorExpr); ok {
			if id, ok := s.X.(*ast.Ident); ok && id.Name == recv {
				return s.Sel.Name
			}
		}
		return ""
	}
	reset := map[string]bool{}
	ast.Inspect(fd.Body, func(n ast.Node) bool {
		if a, ok := n.(*ast.AssignStmt); ok {
			for i, l := range a.Lhs {
				f := fieldOf(l)
				if f == "" {
					continue
				}
				isAppend := false
				if i < len(a.Rhs) {
					if c, ok := a.Rhs[i].(*ast.CallExpr); ok {
						if id, ok := c.Fun.(*ast.Ident); ok && id.Name == "append" && len(c.Args) > 0 && fieldOf(c.Args[0]) == f {
							isAppend = true
						}
					}
				}
				if !isAppend {
					reset[f] = true
				}
			}
		}
		return true
	})
	found := ""
	ast.Inspect(fd.Body, func(n ast.Node) bool {
		loop, ok := n.(*ast.ForStmt)
		if !ok {
			return true
		}
		ast.Inspect(loop.Body, func(m ast.Node) bool {
			switch x := m.(type) {
			case *ast.CallExpr:
				if s, ok := x.Fun.(*ast.SelectorExpr); ok && (s.Sel.Name == "Put" || strings.HasPrefix(s.Sel.Name, "Add")) {
					if f := fieldOf(s.X); f != "" && !reset[f] && found == "" {
						found = f
					}
				}
			case *ast.AssignStmt:
				for i, l := range x.Lhs {
					if f := fieldOf(l); f != "" && i < len(x.Rhs) && !reset[f] {
						if c, ok := x.Rhs[i].(*ast.CallExpr); ok {
							if id, ok := c.Fun.(*ast.Ident); ok && id.Name == "append" && found == "" {
								found = f
							}
						}
					}
				}
			}
			return true
		})
		return true
	})
	return found, found != ""
}

type fprog struct{ fn, term string }

// ---- readers that are kept / re-pointed (a decode may only see its own input)

// bufferWriters: functions of package io (methods of DataInputX, functions returning *DataInputX) that
// store into a reader's `buffer` field or call a method of it that puts bytes in / moves its read position
// back; keptReaders: struct fields, package-level variables and type assertions of type DataInputX
// outside the type's own declaration (a reader that outlives one decode: pooled, cached)
var bufferWriters, keptReaders []string

var bufferMutators = map[string]bool{"Write": true, "WriteByte": true, "WriteString": true, "WriteRune": true, "ReadFrom": true,
	"Reset": true, "Truncate": true, "Grow": true, "UnreadByte": true, "UnreadRune": true}

func isDataInputX(e ast.Expr) bool {
	switch x := e.(type) {
	case *ast.StarExpr:
		return isDataInputX(x.X)
	case *ast.Ident:
		return x.Name == "DataInputX"
	case *ast.SelectorExpr:
		return x.Sel.Name == "DataInputX"
	case *ast.ArrayType:
		return isDataInputX(x.Elt)
	case *ast.MapType:
		return isDataInputX(x.Value)
	}
	return false
}

func isBufferSel(e ast.Expr) bool {
	s, ok := e.(*ast.SelectorExpr)
	return ok && s.Sel.Name == "buffer"
}

func readerFunc(pkg string, fd *ast.FuncDecl) bool {
	if pkg != "io" {
		return false
	}
	if fd.Recv != nil && len(fd.Recv.List) == 1 && isDataInputX(fd.Recv.List[0].Type) {
		return true
	}
	if fd.Type.Results != nil {
		for _, r := range fd.Type.Results.List {
			if isDataInputX(r.Type) {
				return true
			}
		}
	}
	return false
}

func writesBuffer(fd *ast.FuncDecl) bool {
	found := false
	ast.Inspect(fd.Body, func(n ast.Node) bool {
		switch x := n.(type) {
		case *ast.AssignStmt:
			for _, l := range x.Lhs {
				if isBufferSel(l) {
					found = true
				}
			}
		case *ast.CallExpr:
			if s, ok := x.Fun.(*ast.SelectorExpr); ok && isBufferSel(s.X) && bufferMutators[s.Sel.Name] {
				found = true
			}
		case *ast.UnaryExpr: // &in.buffer handed out
			if x.Op == token.AND && isBufferSel(x.X) {
				found = true
			}
		}
		return true
	})
	return found
}

func keptIn(rel string, f *ast.File) {
	for _, decl := range f.Decls {
		if gd, ok := decl.(*ast.GenDecl); ok {
			for _, sp := range gd.Specs {
				switch x := sp.(type) {
				case *ast.ValueSpec:
					if x.Type != nil && isDataInputX(x.Type) {
						for _, n := range x.Names {
							keptReaders = append(keptReaders, rel+":var "+n.Name)
						}
					}
				case *ast.TypeSpec:
					if st, ok := x.Type.(*ast.StructType); ok {
						for _, fl := range st.Fields.List {
							if isDataInputX(fl.Type) {
								keptReaders = append(keptReaders, rel+":field "+x.Name.Name)
							}
						}
					}
				}
			}
		}
	}
	ast.Inspect(f, func(n ast.Node) bool {
		if ta, ok := n.(*ast.TypeAssertExpr); ok && ta.Type != nil && isDataInputX(ta.Type) {
			keptReaders = append(keptReaders, rel+":assert")
		}
		return true
	})
}

var progs []fprog

func lit(s string) string { return "\"" + strings.ReplaceAll(s, "\"", "\\\"") + "\"" }

func main() {
	repo := flag.String("repo", "/repo", "repository root")
	out := flag.String("out", "", "output Lean file")
	flag.Parse()
	dirs := []string{"io", "lang", "util/hll"}
	fset := token.NewFileSet()
	for _, d := range dirs {
		root := filepath.Join(*repo, d)
		err := filepath.Walk(root, func(path string, info os.FileInfo, err error) error {
			if err != nil {
				return err
			}
			if info.IsDir() || !strings.HasSuffix(path, ".go") || strings.HasSuffix(path, "_test.go") {
				return nil
			}
			f, err := parser.ParseFile(fset, path, nil, 0)
			if err != nil {
				return err
			}
			rel, _ := filepath.Rel(*repo, path)
			keptIn(rel, f)
			for _, decl := range f.Decls {
				fd, ok := decl.(*ast.FuncDecl)
				if !ok || fd.Body == nil {
					continue
				}
				name := funcName(f.Name.Name, fd)
				if readerFunc(f.Name.Name, fd) && writesBuffer(fd) {
					bufferWriters = append(bufferWriters, name)
				}
				if name == "io.(*DataInputX).ReadBytes" {
					readBytesFact(fd)
				}
				st := &fnState{file: rel, fn: name, source: map[string]string{}, root: map[string]string{}}
				// a size handed in by the caller of a function that reads the stream (the caller
				// decoded it): listed with source "parameter"
				if name != "io.(*DataInputX).ReadBytes" && readsStream(fd) {
					for _, fl := range fd.Type.Params.List {
						if t, ok := fl.Type.(*ast.Ident); ok && strings.HasPrefix(t.Name, "int") {
							for _, n := range fl.Names {
								st.source[n.Name] = "parameter"
								st.root[n.Name] = n.Name
							}
						}
					}
				}
				st.block(fd.Body.List, map[string]bool{})
				st.loopsIn(fd.Body)
				if f, ok := additiveReader(fd); ok {
					additive = append(additive, name+":"+f)
				}
				if ps := st.prog(fd.Body.List); hasMake(ps) {
					rel := map[string]bool{}
					relevant(ps, rel)
					progs = append(progs, fprog{name, leanProg(ps, rel)})
				}
			}
			return nil
		})
		if err != nil {
			fmt.Fprintln(os.Stderr, "xlate/c04:", err)
			os.Exit(1)
		}
	}
	if !readBytesSeen {
		fmt.Fprintln(os.Stderr, "xlate/c04: io.(*DataInputX).ReadBytes not found")
		os.Exit(1)
	}
	sort.Slice(sites, func(i, j int) bool {
		if sites[i].fn != sites[j].fn {
			return sites[i].fn < sites[j].fn
		}
		return sites[i].elem < sites[j].elem
	})
	var b strings.Builder
	b.WriteString("/- generated by xlate/c04 from the Go sources: do not edit -/\nimport Golib.FailClosed.SiteCheck\nnamespace Gen.AllocSites\nopen FailClosed.Sites\n\n")
	b.WriteString("structure Site where\n  file : String\n  func : String\n  elem : String\n  source : String\n  guarded : Bool\nderiving DecidableEq, Repr\n\n")
	b.WriteString("/-- every `make(T, n)` whose size flows from a `Read*` result of the same function -/\ndef sites : List Site := [\n")
	for i, s := range sites {
		sep := ","
		if i == len(sites)-1 {
			sep = ""
		}
		fmt.Fprintf(&b, "  ⟨%s, %s, %s, %s, %v⟩%s\n", lit(s.file), lit(s.fn), lit(s.elem), lit(s.source), s.guarded, sep)
	}
	b.WriteString("]\n\n")
	sort.Slice(progs, func(i, j int) bool { return progs[i].fn < progs[j].fn })
	b.WriteString("/-- the body of every function that sizes an allocation from a decoded value, in the statement\n    language of Golib.FailClosed.SiteCheck -/\ndef progs : List (String × Prog) := [\n")
	for i, p := range progs {
		sep := ","
		if i == len(progs)-1 {
			sep = ""
		}
		fmt.Fprintf(&b, "  (%s, %s)%s\n", lit(p.fn), p.term, sep)
	}
	b.WriteString("]\n\n")
	sort.Slice(cloops, func(i, j int) bool {
		if cloops[i].fn != cloops[j].fn {
			return cloops[i].fn < cloops[j].fn
		}
		return cloops[i].bound < cloops[j].bound
	})
	b.WriteString("structure CountLoop where\n  func : String\n  bound : String\n  source : String\n  bodyReads : Bool\nderiving DecidableEq, Repr\n\n")
	b.WriteString("/-- every `for i < n` loop whose bound `n` carries a decoded value, and whether its body reads from the stream -/\ndef countLoops : List CountLoop := [\n")
	for i, l := range cloops {
		sep := ","
		if i == len(cloops)-1 {
			sep = ""
		}
		fmt.Fprintf(&b, "  ⟨%s, %s, %s, %v⟩%s\n", lit(l.fn), lit(l.bound), lit(l.source), l.reads, sep)
	}
	b.WriteString("]\n\n")
	sort.Strings(additive)
	b.WriteString("/-- `Read` methods that, in a loop, Put / Add / append into a table of the receiver which the method never\n    assigns afresh (function:field) -/\ndef additiveReaders : List String := [")
	for i, a := range additive {
		if i > 0 {
			b.WriteString(", ")
		}
		b.WriteString(lit(a))
	}
	b.WriteString("]\n\n")
	strList := func(doc, name string, xs []string) {
		sort.Strings(xs)
		b.WriteString(doc + "\ndef " + name + " : List String := [")
		for i, a := range xs {
			if i > 0 {
				b.WriteString(", ")
			}
			b.WriteString(lit(a))
		}
		b.WriteString("]\n\n")
	}
	strList("/-- functions of package io (methods of DataInputX, functions returning one) that store into a reader's\n    `buffer` or call a method of it that adds bytes / moves the read position back -/", "bufferWriters", bufferWriters)
	strList("/-- struct fields, package-level variables and type assertions of type DataInputX (a reader kept beyond\n    one decode) in io, lang/**, util/hll -/", "keptReaders", keptReaders)
	fmt.Fprintf(&b, "/-- `DataInputX.ReadBytes` compares its size with the buffered bytes (and panics) before `make` -/\ndef readBytesChecksBeforeMake : Bool := %v\n\nend Gen.AllocSites\n", readBytesChecked)
	if *out == "" {
		fmt.Print(b.String())
		return
	}
	if err := os.WriteFile(*out, []byte(b.String()), 0o644); err != nil {
		fmt.Fprintln(os.Stderr, "xlate/c04:", err)
		os.Exit(1)
	}
}
