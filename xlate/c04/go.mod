module verif/xlate/c04

go 1.23
