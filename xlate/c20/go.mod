module verif/xlate/c20

go 1.23
