// xlate/c20 — tie A for C20: transcribes the bodies of Equals / CompareTo of every value type of
// lang/value and of the slice helpers of util/compare into Lean data (lean/Golib/Gen/C20.lean).
//
//	cmpBodies   per flat type: has the same-type guard, the guarded statements as a small IR
//	            (ifRet / ifElse / ret / retHelper over conditions eq / lt / isTrue / and on fields),
//	            the value returned for a nil argument, the type fallback (intSub | byteSub)
//	eqBodies    per flat type: the guarded result (a condition, or a compare.EqualX call), or sameType
//	containers  per container type and method: a token skeleton (nil / type fallback / size
//	            difference / loop / type assertions plain or comma-ok / missing / recursion / end)
//	helpers     per util/compare slice helper: a token skeleton of its loop
//
// The IR is given a semantics in Lean (Golib/Value/CmpIR.lean) and proved equal to the model's
// cmpV / eqV for all inputs (Golib/Props/C20Gen.lean).  Unknown shapes become `.unknown "…"`.
package main

import (
	"flag"
	"fmt"
	"go/ast"
	"go/parser"
	"go/printer"
	"go/token"
	"os"
	"path/filepath"
	"regexp"
	"sort"
	"strconv"
	"strings"
)

func q(s string) string { return strconv.Quote(s) }
func strList(xs []string) string {
	var qs []string
	for _, x := range xs {
		qs = append(qs, q(x))
	}
	return "[" + strings.Join(qs, ", ") + "]"
}

func recvType(fd *ast.FuncDecl) string {
	if fd.Recv == nil || len(fd.Recv.List) == 0 {
		return ""
	}
	t := fd.Recv.List[0].Type
	if s, ok := t.(*ast.StarExpr); ok {
		t = s.X
	}
	if id, ok := t.(*ast.Ident); ok {
		return id.Name
	}
	return "?"
}

func isIdent(e ast.Expr, name string) bool {
	id, ok := e.(*ast.Ident)
	return ok && id.Name == name
}

// this.F  or  o.(*T).F  →  field name
func fieldOf(e ast.Expr) (string, string, bool) { // side ("this"|"that"), field
	se, ok := e.(*ast.SelectorExpr)
	if !ok {
		return "", "", false
	}
	switch x := se.X.(type) {
	case *ast.Ident:
		if x.Name == "this" {
			return "this", se.Sel.Name, true
		}
	case *ast.TypeAssertExpr:
		if isIdent(x.X, "o") {
			return "that", se.Sel.Name, true
		}
	}
	return "", "", false
}

func cond(e ast.Expr) string {
	switch x := e.(type) {
	case *ast.ParenExpr:
		return cond(x.X)
	case *ast.BinaryExpr:
		switch x.Op {
		case token.LAND:
			return "(.and " + cond(x.X) + " " + cond(x.Y) + ")"
		case token.EQL, token.LSS:
			s1, f1, ok1 := fieldOf(x.X)
			s2, f2, ok2 := fieldOf(x.Y)
			if ok1 && ok2 && s1 == "this" && s2 == "that" && f1 == f2 {
				if x.Op == token.EQL {
					return "(.eq " + q(f1) + ")"
				}
				return "(.lt " + q(f1) + ")"
			}
		}
	case *ast.SelectorExpr:
		if s, f, ok := fieldOf(x); ok && s == "this" {
			return "(.isTrue " + q(f) + ")"
		}
	}
	return "(.unknownC " + q(fmt.Sprintf("%T", e)) + ")"
}

func intLit(e ast.Expr) (string, bool) {
	switch x := e.(type) {
	case *ast.BasicLit:
		if x.Kind == token.INT {
			return x.Value, true
		}
	case *ast.UnaryExpr:
		if x.Op == token.SUB {
			if v, ok := intLit(x.X); ok {
				return "(-" + v + ")", true
			}
		}
	}
	return "", false
}

func singleReturn(b *ast.BlockStmt) (ast.Expr, bool) {
	if b == nil || len(b.List) != 1 {
		return nil, false
	}
	r, ok := b.List[0].(*ast.ReturnStmt)
	if !ok || len(r.Results) != 1 {
		return nil, false
	}
	return r.Results[0], true
}

// compare.H(this.F, o.(*T).F)
func helperCall(e ast.Expr) (string, string, bool) {
	ce, ok := e.(*ast.CallExpr)
	if !ok || len(ce.Args) != 2 {
		return "", "", false
	}
	se, ok := ce.Fun.(*ast.SelectorExpr)
	if !ok || !isIdent(se.X, "compare") {
		return "", "", false
	}
	s1, f1, ok1 := fieldOf(ce.Args[0])
	s2, f2, ok2 := fieldOf(ce.Args[1])
	if ok1 && ok2 && s1 == "this" && s2 == "that" && f1 == f2 {
		return se.Sel.Name, f1, true
	}
	return "", "", false
}

func stmts(list []ast.Stmt) string {
	var out []string
	for _, st := range list {
		switch s := st.(type) {
		case *ast.ReturnStmt:
			if len(s.Results) == 1 {
				if v, ok := intLit(s.Results[0]); ok {
					out = append(out, ".ret "+v)
					continue
				}
				if h, f, ok := helperCall(s.Results[0]); ok {
					out = append(out, ".retHelper "+q(h)+" "+q(f))
					continue
				}
			}
			out = append(out, ".unknownS \"return\"")
		case *ast.IfStmt:
			r1, ok1 := singleReturn(s.Body)
			if s.Init != nil || !ok1 {
				out = append(out, ".unknownS \"if\"")
				continue
			}
			k1, okk := intLit(r1)
			if !okk {
				out = append(out, ".unknownS \"if-return\"")
				continue
			}
			if s.Else == nil {
				out = append(out, ".ifRet "+cond(s.Cond)+" "+k1)
				continue
			}
			if eb, ok := s.Else.(*ast.BlockStmt); ok {
				if r2, ok2 := singleReturn(eb); ok2 {
					if k2, ok := intLit(r2); ok {
						out = append(out, ".ifElse "+cond(s.Cond)+" "+k1+" "+k2)
						continue
					}
				}
			}
			out = append(out, ".unknownS \"if-else\"")
		default:
			out = append(out, ".unknownS "+q(fmt.Sprintf("%T", st)))
		}
	}
	return "[" + strings.Join(out, ", ") + "]"
}

// o != nil && o.GetValueType() == this.GetValueType()
func isSameTypeGuard(e ast.Expr) bool {
	b, ok := e.(*ast.BinaryExpr)
	if !ok || b.Op != token.LAND {
		return false
	}
	l, ok := b.X.(*ast.BinaryExpr)
	if !ok || l.Op != token.NEQ || !isIdent(l.X, "o") || !isIdent(l.Y, "nil") {
		return false
	}
	r, ok := b.Y.(*ast.BinaryExpr)
	return ok && r.Op == token.EQL && isTypeCall(r.X, "o") && isTypeCall(r.Y, "this")
}

func isTypeCall(e ast.Expr, who string) bool {
	ce, ok := e.(*ast.CallExpr)
	if !ok {
		return false
	}
	se, ok := ce.Fun.(*ast.SelectorExpr)
	return ok && se.Sel.Name == "GetValueType" && isIdent(se.X, who)
}

// int(this.GetValueType()) - int(o.GetValueType())  |  int(this.GetValueType() - o.GetValueType())
func fallbackKind(e ast.Expr) string {
	if b, ok := e.(*ast.BinaryExpr); ok && b.Op == token.SUB {
		l, ok1 := b.X.(*ast.CallExpr)
		r, ok2 := b.Y.(*ast.CallExpr)
		if ok1 && ok2 && isIdent(l.Fun, "int") && isIdent(r.Fun, "int") && len(l.Args) == 1 && len(r.Args) == 1 &&
			isTypeCall(l.Args[0], "this") && isTypeCall(r.Args[0], "o") {
			return "intSub"
		}
	}
	if c, ok := e.(*ast.CallExpr); ok && isIdent(c.Fun, "int") && len(c.Args) == 1 {
		if b, ok := c.Args[0].(*ast.BinaryExpr); ok && b.Op == token.SUB && isTypeCall(b.X, "this") && isTypeCall(b.Y, "o") {
			return "byteSub"
		}
	}
	return "?"
}

func isNilTest(e ast.Expr) bool {
	b, ok := e.(*ast.BinaryExpr)
	return ok && b.Op == token.EQL && isIdent(b.X, "o") && isIdent(b.Y, "nil")
}

type flatCmp struct {
	guard    bool
	body     string
	nilRet   string
	fallback string
}

// flat CompareTo:  [if guard { body }]  (if o == nil { return K } else { return FB }  |  if o == nil { return K }; return FB)
func flatCompareTo(fd *ast.FuncDecl) (flatCmp, bool) {
	fc := flatCmp{body: "[]", nilRet: "?", fallback: "?"}
	list := fd.Body.List
	if len(list) > 0 {
		if is, ok := list[0].(*ast.IfStmt); ok && isSameTypeGuard(is.Cond) && is.Else == nil {
			fc.guard = true
			fc.body = stmts(is.Body.List)
			list = list[1:]
		}
	}
	if len(list) == 0 {
		return fc, false
	}
	is, ok := list[0].(*ast.IfStmt)
	if !ok || !isNilTest(is.Cond) {
		return fc, false
	}
	r, ok := singleReturn(is.Body)
	if !ok {
		return fc, false
	}
	if k, ok := intLit(r); ok {
		fc.nilRet = k
	}
	if is.Else != nil {
		if eb, ok := is.Else.(*ast.BlockStmt); ok && len(list) == 1 {
			if r2, ok := singleReturn(eb); ok {
				fc.fallback = fallbackKind(r2)
				return fc, true
			}
		}
		return fc, false
	}
	if len(list) == 2 {
		if rs, ok := list[1].(*ast.ReturnStmt); ok && len(rs.Results) == 1 {
			fc.fallback = fallbackKind(rs.Results[0])
			return fc, true
		}
	}
	return fc, false
}

// flat Equals:  if guard { return E }; return false   |   return o != nil && o.GetValueType() == this.GetValueType()
func flatEquals(fd *ast.FuncDecl) (string, bool) {
	list := fd.Body.List
	if len(list) == 1 {
		if rs, ok := list[0].(*ast.ReturnStmt); ok && len(rs.Results) == 1 && isSameTypeGuard(rs.Results[0]) {
			return ".sameType", true
		}
	}
	if len(list) == 2 {
		is, ok := list[0].(*ast.IfStmt)
		rs, ok2 := list[1].(*ast.ReturnStmt)
		if ok && ok2 && isSameTypeGuard(is.Cond) && is.Else == nil && len(rs.Results) == 1 && isIdent(rs.Results[0], "false") {
			if r, ok := singleReturn(is.Body); ok {
				if h, f, ok := helperCall(r); ok {
					return ".helper " + q(h) + " " + q(f), true
				}
				return ".cond " + cond(r), true
			}
		}
	}
	return ".unknownE \"shape\"", false
}

// token skeleton of a container method / a util/compare helper
func skeleton(fd *ast.FuncDecl) []string {
	var out []string
	root := func(e ast.Expr) string {
		for {
			switch x := e.(type) {
			case *ast.SelectorExpr:
				e = x.X
			case *ast.CallExpr:
				e = x.Fun
			case *ast.IndexExpr:
				e = x.X
			case *ast.Ident:
				return x.Name
			default:
				return "?"
			}
		}
	}
	retTok := func(b *ast.BlockStmt) string {
		if r, ok := singleReturn(b); ok {
			if k, ok := intLit(r); ok {
				return strings.Trim(k, "()")
			}
			if id, ok := r.(*ast.Ident); ok {
				return id.Name
			}
			if fk := fallbackKind(r); fk != "?" {
				return fk
			}
			if be, ok := r.(*ast.BinaryExpr); ok && be.Op == token.SUB {
				return "diff"
			}
		}
		return "?"
	}
	commaOk := map[*ast.TypeAssertExpr]bool{}
	ast.Inspect(fd.Body, func(n ast.Node) bool {
		if as, ok := n.(*ast.AssignStmt); ok && len(as.Lhs) == 2 && len(as.Rhs) == 1 {
			if ta, ok := as.Rhs[0].(*ast.TypeAssertExpr); ok {
				commaOk[ta] = true
			}
		}
		return true
	})
	ast.Inspect(fd.Body, func(n ast.Node) bool {
		switch x := n.(type) {
		case *ast.SwitchStmt:
			out = append(out, "switch")
		case *ast.ForStmt:
			out = append(out, "loop")
		case *ast.IfStmt:
			c := x.Cond
			switch {
			case isNilTest(c):
				out = append(out, "nil→"+retTok(x.Body))
			default:
				if be, ok := c.(*ast.BinaryExpr); ok {
					l, r := be.X, be.Y
					switch {
					case be.Op == token.LOR: // o == nil || type mismatch
						out = append(out, "nil-or-type≠→"+retTok(x.Body))
					case be.Op == token.NEQ && (isTypeCall(l, "o") || isTypeCall(r, "o")):
						out = append(out, "type≠→"+retTok(x.Body))
					case be.Op == token.NEQ && (strings.Contains(fmt.Sprint(exprStr(l)), "Size") || strings.Contains(exprStr(l), "len")):
						out = append(out, "size≠→"+retTok(x.Body))
					case be.Op == token.EQL && isIdent(r, "nil"):
						out = append(out, "missing→"+retTok(x.Body))
					case be.Op == token.NEQ && isIdent(l, "c") && exprStr(r) == "0":
						out = append(out, "nonzero→"+retTok(x.Body))
					case be.Op == token.NEQ && exprStr(r) == "0":
						out = append(out, "nonzero→"+retTok(x.Body))
					case be.Op == token.EQL && isIdent(r, "false"):
						out = append(out, "unequal→"+retTok(x.Body))
					case be.Op == token.GTR:
						out = append(out, "gt→"+retTok(x.Body))
					case be.Op == token.LSS:
						out = append(out, "lt→"+retTok(x.Body))
					default:
						out = append(out, "if?"+be.Op.String())
					}
				} else {
					out = append(out, "if?")
				}
			}
		case *ast.TypeAssertExpr:
			if id, ok := x.Type.(*ast.Ident); ok && id.Name == "Value" {
				k := "plain"
				if commaOk[x] {
					k = "commaok"
				}
				out = append(out, "assert:"+k+":"+root(x.X))
			}
		case *ast.CallExpr:
			if se, ok := x.Fun.(*ast.SelectorExpr); ok {
				switch se.Sel.Name {
				case "CompareTo", "Equals":
					out = append(out, "recurse:"+se.Sel.Name)
				case "Compare":
					if isIdent(se.X, "strings") {
						out = append(out, "strings.Compare")
					}
				}
				if isIdent(se.X, "compare") || (fd.Recv == nil && strings.HasPrefix(se.Sel.Name, "CompareTo")) {
					out = append(out, "call:"+se.Sel.Name)
				}
			} else if id, ok := x.Fun.(*ast.Ident); ok && strings.HasPrefix(id.Name, "CompareTo") {
				out = append(out, "call:"+id.Name)
			}
		}
		return true
	})
	// the last statement
	if n := len(fd.Body.List); n > 0 {
		if rs, ok := fd.Body.List[n-1].(*ast.ReturnStmt); ok && len(rs.Results) == 1 {
			r := rs.Results[0]
			switch {
			case exprStr(r) == "0" || exprStr(r) == "true" || exprStr(r) == "false":
				out = append(out, "end→"+exprStr(r))
			default:
				if be, ok := r.(*ast.BinaryExpr); ok && be.Op == token.SUB {
					out = append(out, "end→len-diff")
				} else if be, ok := r.(*ast.BinaryExpr); ok && be.Op == token.EQL {
					out = append(out, "end→==0")
				} else {
					out = append(out, "end→?")
				}
			}
		}
	}
	return out
}

func exprStr(e ast.Expr) string {
	switch x := e.(type) {
	case *ast.BasicLit:
		return x.Value
	case *ast.Ident:
		return x.Name
	case *ast.SelectorExpr:
		return exprStr(x.X) + "." + x.Sel.Name
	case *ast.CallExpr:
		return exprStr(x.Fun) + "()"
	}
	return "?"
}

// ---------------------------------------------------------------- interpreted containers / helpers

var fsetG = token.NewFileSet()

// src renders a node as canonical Go source (go/printer), for strict shape matching
func src(n ast.Node) string {
	if n == nil {
		return ""
	}
	var b strings.Builder
	if err := printer.Fprint(&b, fsetG, n); err != nil {
		return "?"
	}
	return strings.Join(strings.Fields(b.String()), " ")
}

func retOf(b *ast.BlockStmt) string {
	if r, ok := singleReturn(b); ok {
		return src(r)
	}
	return "?"
}

func leanInt(s string) (string, bool) {
	if m := regexp.MustCompile(`^-?\d+$`).FindString(s); m != "" {
		if strings.HasPrefix(m, "-") {
			return "(" + m + ")", true
		}
		return m, true
	}
	return "", false
}

// helperBody transcribes a slice helper of util/compare
func helperBody(fd *ast.FuncDecl) string {
	var ps []string
	for _, f := range fd.Type.Params.List {
		for _, n := range f.Names {
			ps = append(ps, n.Name)
		}
	}
	if len(ps) != 2 {
		return `.unknownB "params"`
	}
	l, r := ps[0], ps[1]
	list := fd.Body.List
	if len(list) == 1 {
		if m := regexp.MustCompile(`^return (\w+)\(` + l + `, ` + r + `\) == 0$`).FindStringSubmatch(src(list[0])); m != nil {
			return ".eqZero " + q(m[1])
		}
		return `.unknownB "shape"`
	}
	if len(list) != 4 {
		return `.unknownB "statements"`
	}
	m0 := regexp.MustCompile(`^(\w+) := len\(` + l + `\)$`).FindStringSubmatch(src(list[0]))
	m1 := regexp.MustCompile(`^(\w+) := len\(` + r + `\)$`).FindStringSubmatch(src(list[1]))
	fs, ok := list[2].(*ast.ForStmt)
	if m0 == nil || m1 == nil || !ok {
		return `.unknownB "prologue"`
	}
	A, B := m0[1], m1[1]
	header := "?"
	if src(fs.Init) == "i := 0" && src(fs.Cond) == "i < "+A+" && i < "+B && src(fs.Post) == "i++" {
		header = "both"
	}
	endRet := "?"
	if src(list[3]) == "return "+A+" - "+B {
		endRet = "lenDiff"
	}
	li, ri := l+"[i]", r+"[i]"
	var steps []string
	body := fs.Body.List
	for k := 0; k < len(body); k++ {
		st := body[k]
		if is, ok := st.(*ast.IfStmt); ok && is.Init == nil && is.Else == nil {
			if kk, ok := leanInt(retOf(is.Body)); ok {
				switch src(is.Cond) {
				case li + " > " + ri:
					steps = append(steps, ".ifGt "+kk)
					continue
				case li + " < " + ri:
					steps = append(steps, ".ifLt "+kk)
					continue
				}
			}
		}
		if src(st) == "rt := strings.Compare("+li+", "+ri+")" && k+1 < len(body) {
			if is, ok := body[k+1].(*ast.IfStmt); ok && is.Init == nil && is.Else == nil && src(is.Cond) == "rt != 0" && retOf(is.Body) == "rt" {
				steps = append(steps, ".cmp3Nonzero")
				k++
				continue
			}
		}
		steps = append(steps, ".unknownH "+q(fmt.Sprintf("%T", st)))
	}
	return ".loop " + q(header) + " [" + strings.Join(steps, ", ") + "] " + q(endRet)
}

type contLoop struct {
	iter    string
	commaOk bool
	body    []ast.Stmt // the statements after v1, v2 are bound
	rest    []ast.Stmt // what follows the loop
}

// containerLoop reads  [keys := this.Keys()] for … { [key := keys.NextX()] v1 := … ; v2[, _] := … ; body }
func containerLoop(list []ast.Stmt) (cl contLoop, ok bool) {
	cl.iter = "?"
	if len(list) == 0 {
		return cl, false
	}
	var fs *ast.ForStmt
	var elemThis, elemThat string
	if f, isFor := list[0].(*ast.ForStmt); isFor {
		if src(f.Init) != "i := 0" || src(f.Cond) != "i < len(this.table)" || src(f.Post) != "i++" {
			return cl, false
		}
		fs, cl.iter, cl.rest = f, "index", list[1:]
		elemThis, elemThat = "this.table[i]", "that.table[i]"
	} else if src(list[0]) == "keys := this.Keys()" && len(list) > 1 {
		f, isFor := list[1].(*ast.ForStmt)
		if !isFor || f.Init != nil || f.Post != nil || src(f.Cond) != "keys.HasMoreElements()" {
			return cl, false
		}
		fs, cl.iter, cl.rest = f, "keys", list[2:]
		elemThis, elemThat = "this.table.Get(key)", "that.table.Get(key)"
	} else {
		return cl, false
	}
	body := fs.Body.List
	if cl.iter == "keys" {
		if len(body) == 0 || !(src(body[0]) == "key := keys.NextString()" || src(body[0]) == "key := keys.NextInt()") {
			cl.iter = "?"
			return cl, false
		}
		body = body[1:]
	}
	if len(body) < 2 {
		cl.iter = "?"
		return cl, false
	}
	s1, s2 := src(body[0]), src(body[1])
	if !(s1 == "v1 := "+elemThis+".(Value)" || s1 == "v1, _ := "+elemThis+".(Value)") {
		cl.iter = "?"
		return cl, false
	}
	switch s2 {
	case "v2 := " + elemThat + ".(Value)":
	case "v2, _ := " + elemThat + ".(Value)":
		cl.commaOk = true
	default:
		cl.iter = "?"
		return cl, false
	}
	cl.body = body[2:]
	return cl, true
}

func sizeCheck(st ast.Stmt, want string) bool {
	is, ok := st.(*ast.IfStmt)
	if !ok || is.Init != nil || is.Else != nil {
		return false
	}
	for _, sz := range [][2]string{{"len(this.table)", "len(that.table)"}, {"this.table.Size()", "that.table.Size()"}} {
		w := want
		if w == "diff" {
			w = sz[0] + " - " + sz[1]
		}
		if src(is.Cond) == sz[0]+" != "+sz[1] && retOf(is.Body) == w {
			return true
		}
	}
	return false
}

func containerCmp(t string, fd *ast.FuncDecl) string {
	nilRet, fallback, size, endRet := "999", "?", false, "999"
	iter, commaOk := "?", false
	var steps []string
	list := fd.Body.List
	bad := func(why string) string {
		return fmt.Sprintf("{ nilRet := %s, fallback := %s, sizeCheck := %v, iter := \"?\", thatCommaOk := false, body := [.unknownK %s], endRet := %s }", nilRet, q(fallback), size, q(why), endRet)
	}
	if len(list) < 4 {
		return bad("statements")
	}
	if is, ok := list[0].(*ast.IfStmt); ok && isNilTest(is.Cond) && is.Else == nil && is.Init == nil {
		if k, ok := leanInt(retOf(is.Body)); ok {
			nilRet = k
		}
	} else {
		return bad("nil test")
	}
	if is, ok := list[1].(*ast.IfStmt); ok && is.Else == nil && is.Init == nil && src(is.Cond) == "o.GetValueType() != this.GetValueType()" {
		if r, ok := singleReturn(is.Body); ok {
			fallback = fallbackKind(r)
		}
	} else {
		return bad("type test")
	}
	if src(list[2]) != "that := o.(*"+t+")" {
		return bad("that")
	}
	list = list[3:]
	if sizeCheck(list[0], "diff") {
		size = true
		list = list[1:]
	}
	cl, ok := containerLoop(list)
	if !ok {
		return bad("loop")
	}
	iter, commaOk = cl.iter, cl.commaOk
	for k := 0; k < len(cl.body); k++ {
		st := cl.body[k]
		if is, ok := st.(*ast.IfStmt); ok && is.Init == nil && is.Else == nil && src(is.Cond) == "v2 == nil" {
			if kk, ok := leanInt(retOf(is.Body)); ok {
				steps = append(steps, ".missingRet "+kk)
				continue
			}
		}
		if src(st) == "c := v1.CompareTo(v2)" && k+1 < len(cl.body) {
			if is, ok := cl.body[k+1].(*ast.IfStmt); ok && is.Init == nil && is.Else == nil && src(is.Cond) == "c != 0" && retOf(is.Body) == "c" {
				steps = append(steps, ".recNonzero")
				k++
				continue
			}
		}
		steps = append(steps, ".unknownK "+q(fmt.Sprintf("%T", st)))
	}
	if len(cl.rest) == 1 {
		if rs, ok := cl.rest[0].(*ast.ReturnStmt); ok && len(rs.Results) == 1 {
			if k, ok := leanInt(src(rs.Results[0])); ok {
				endRet = k
			}
		}
	} else {
		steps = append(steps, `.unknownK "after the loop"`)
	}
	return fmt.Sprintf("{ nilRet := %s, fallback := %s, sizeCheck := %v, iter := %s, thatCommaOk := %v, body := [%s], endRet := %s }",
		nilRet, q(fallback), size, q(iter), commaOk, strings.Join(steps, ", "), endRet)
}

func containerEq(t string, fd *ast.FuncDecl) string {
	guard, size, endRet := false, false, "false"
	var steps []string
	list := fd.Body.List
	bad := func(why string) string {
		return fmt.Sprintf("{ guard := %v, sizeCheck := %v, iter := \"?\", thatCommaOk := false, body := [.unknownQ %s], endRet := false }", guard, size, q(why))
	}
	if len(list) < 3 {
		return bad("statements")
	}
	if is, ok := list[0].(*ast.IfStmt); ok && is.Else == nil && is.Init == nil &&
		src(is.Cond) == "o == nil || o.GetValueType() != this.GetValueType()" && retOf(is.Body) == "false" {
		guard = true
	} else {
		return bad("guard")
	}
	if src(list[1]) != "that := o.(*"+t+")" {
		return bad("that")
	}
	list = list[2:]
	if sizeCheck(list[0], "false") {
		size = true
		list = list[1:]
	}
	cl, ok := containerLoop(list)
	if !ok {
		return bad("loop")
	}
	for _, st := range cl.body {
		if is, ok := st.(*ast.IfStmt); ok && is.Init == nil && is.Else == nil {
			r := retOf(is.Body)
			if r == "true" || r == "false" {
				switch src(is.Cond) {
				case "v2 == nil":
					steps = append(steps, ".missingRetE "+r)
					continue
				case "v1.Equals(v2) == false", "!v1.Equals(v2)":
					steps = append(steps, ".recUnequal "+r)
					continue
				}
			}
		}
		steps = append(steps, ".unknownQ "+q(fmt.Sprintf("%T", st)))
	}
	okEnd := false
	if len(cl.rest) == 1 {
		if rs, ok := cl.rest[0].(*ast.ReturnStmt); ok && len(rs.Results) == 1 {
			if r := src(rs.Results[0]); r == "true" || r == "false" {
				endRet, okEnd = r, true
			}
		}
	}
	if !okEnd {
		steps = append(steps, `.unknownQ "after the loop"`)
	}
	return fmt.Sprintf("{ guard := %v, sizeCheck := %v, iter := %s, thatCommaOk := %v, body := [%s], endRet := %s }",
		guard, size, q(cl.iter), cl.commaOk, strings.Join(steps, ", "), endRet)
}

func main() {
	repo := flag.String("repo", "/repo", "repository root")
	out := flag.String("out", "", "output Lean file")
	flag.Parse()
	fset := token.NewFileSet()
	parse := func(dir string) map[string]*ast.File {
		pkgs, err := parser.ParseDir(fset, filepath.Join(*repo, dir), func(fi os.FileInfo) bool { return !strings.HasSuffix(fi.Name(), "_test.go") }, 0)
		if err != nil {
			fmt.Fprintln(os.Stderr, err)
			os.Exit(1)
		}
		files := map[string]*ast.File{}
		for _, p := range pkgs {
			for n, f := range p.Files {
				files[n] = f
			}
		}
		return files
	}
	containers := map[string]bool{"ListValue": true, "MapValue": true, "IntMapValue": true}
	cmp := map[string]flatCmp{}
	cmpOK := map[string]bool{}
	eq := map[string]string{}
	cont := map[string][]string{}
	contC := map[string]string{}
	contE := map[string]string{}
	helperB := map[string]string{}
	valueTypes := map[string]bool{}
	vfiles := parse("lang/value")
	var names []string
	for n := range vfiles {
		names = append(names, n)
	}
	sort.Strings(names)
	for _, n := range names {
		for _, d := range vfiles[n].Decls {
			fd, ok := d.(*ast.FuncDecl)
			if !ok || fd.Body == nil {
				continue
			}
			t := recvType(fd)
			if t == "" {
				continue
			}
			switch fd.Name.Name {
			case "GetValueType":
				valueTypes[t] = true
			case "CompareTo":
				if containers[t] {
					cont[t+".CompareTo"] = skeleton(fd)
					contC[t] = containerCmp(t, fd)
				} else {
					c, ok := flatCompareTo(fd)
					cmp[t], cmpOK[t] = c, ok
				}
			case "Equals":
				if containers[t] {
					cont[t+".Equals"] = skeleton(fd)
					contE[t] = containerEq(t, fd)
				} else {
					e, _ := flatEquals(fd)
					eq[t] = e
				}
			}
		}
	}
	helpers := map[string][]string{}
	for _, f := range parse("util/compare") {
		for _, d := range f.Decls {
			fd, ok := d.(*ast.FuncDecl)
			if !ok || fd.Body == nil || fd.Recv != nil {
				continue
			}
			if len(fd.Type.Params.List) > 0 {
				if _, isSlice := fd.Type.Params.List[0].Type.(*ast.ArrayType); isSlice {
					helpers[fd.Name.Name] = skeleton(fd)
					helperB[fd.Name.Name] = helperBody(fd)
				}
			}
		}
	}

	var b strings.Builder
	b.WriteString("-- generated by xlate/c20 from lang/value and util/compare — do not edit\nimport Golib.Value.CmpIRC\nnamespace Gen.C20\nopen Value.IR\n\n")
	var ts []string
	for t := range valueTypes {
		if !containers[t] {
			ts = append(ts, t)
		}
	}
	sort.Strings(ts)
	b.WriteString("def cmpBodies : List (String × FlatCmp) :=\n  [")
	for i, t := range ts {
		if i > 0 {
			b.WriteString(",\n   ")
		}
		c := cmp[t]
		body := c.body
		if !cmpOK[t] {
			body = "[.unknownS \"shape\"]"
		}
		nr := c.nilRet
		if nr == "?" {
			nr = "999"
		}
		fmt.Fprintf(&b, "(%s, { guard := %v, body := %s, nilRet := %s, fallback := %s })", q(t), c.guard, body, nr, q(c.fallback))
	}
	b.WriteString("]\n\ndef eqBodies : List (String × EqBody) :=\n  [")
	for i, t := range ts {
		if i > 0 {
			b.WriteString(",\n   ")
		}
		e := eq[t]
		if e == "" {
			e = ".unknownE \"missing\""
		}
		fmt.Fprintf(&b, "(%s, %s)", q(t), e)
	}
	b.WriteString("]\n\ndef containers : List (String × List String) :=\n  [")
	var cs []string
	for k := range cont {
		cs = append(cs, k)
	}
	sort.Strings(cs)
	for i, k := range cs {
		if i > 0 {
			b.WriteString(",\n   ")
		}
		fmt.Fprintf(&b, "(%s, %s)", q(k), strList(cont[k]))
	}
	b.WriteString("]\n\ndef helpers : List (String × List String) :=\n  [")
	var hs []string
	for k := range helpers {
		hs = append(hs, k)
	}
	sort.Strings(hs)
	for i, k := range hs {
		if i > 0 {
			b.WriteString(",\n   ")
		}
		fmt.Fprintf(&b, "(%s, %s)", q(k), strList(helpers[k]))
	}
	b.WriteString("]\n\ndef contCmp : List (String × ContCmp) :=\n  [")
	for i, t := range []string{"IntMapValue", "ListValue", "MapValue"} {
		if i > 0 {
			b.WriteString(",\n   ")
		}
		c := contC[t]
		if c == "" {
			c = `{ nilRet := 999, fallback := "?", sizeCheck := false, iter := "?", thatCommaOk := false, body := [.unknownK "missing"], endRet := 999 }`
		}
		fmt.Fprintf(&b, "(%s, %s)", q(t), c)
	}
	b.WriteString("]\n\ndef contEq : List (String × ContEq) :=\n  [")
	for i, t := range []string{"IntMapValue", "ListValue", "MapValue"} {
		if i > 0 {
			b.WriteString(",\n   ")
		}
		c := contE[t]
		if c == "" {
			c = `{ guard := false, sizeCheck := false, iter := "?", thatCommaOk := false, body := [.unknownQ "missing"], endRet := false }`
		}
		fmt.Fprintf(&b, "(%s, %s)", q(t), c)
	}
	b.WriteString("]\n\ndef helperBodies : List (String × HelperBody) :=\n  [")
	for i, k := range hs {
		if i > 0 {
			b.WriteString(",\n   ")
		}
		fmt.Fprintf(&b, "(%s, %s)", q(k), helperB[k])
	}
	b.WriteString("]\n\nend Gen.C20\n")
	if *out == "" {
		fmt.Print(b.String())
		return
	}
	if err := os.WriteFile(*out, []byte(b.String()), 0o644); err != nil {
		fmt.Fprintln(os.Stderr, err)
		os.Exit(1)
	}
}
