module verif/xlate/c16

go 1.23
