// xlate/c16 — regenerates, from logsink/zip/ZipSendProxyThread.go, the facts the ZipSender
// model was written against (tie A of property C16):
//
//   - the default constants,
//   - the sequence of assignments to the four settings in GetInstance (constant / option
//     field, guarded by `if o.<field> > 0` or not), in source order,
//   - the keys and fall-back values read by ApplyConfig,
//   - the flush-condition expressions of Append, sendAndClear, doZip and SendDirect,
//   - for every client.SendFlush hand-over: where p.Records came from, whether doZip runs
//     in between and whether the buffer is reset (reused) afterwards; whether doZip detaches
//     an uncompressed payload from the buffer and whether the compressed one is fresh,
//   - whether the Done branch of run drains the queue before the last flush,
//   - from lang/pack/ZipPack.go the statements of SetRecords and GetRecords (the counted ReadPack loop
//     with its bound, its stamps and its append), and the statements of SetTcpClient.
//
// It transcribes syntax only and writes `unknown` (which no obligation accepts) for any
// shape it does not recognise.  Output: Lean data in namespace Gen.C16.
package main

import (
	"bytes"
	"flag"
	"fmt"
	"go/ast"
	"go/constant"
	"go/parser"
	"go/printer"
	"go/token"
	"os"
	"path/filepath"
	"sort"
	"strconv"
	"strings"
)

var fset = token.NewFileSet()

func src(n ast.Node) string {
	var b bytes.Buffer
	printer.Fprint(&b, fset, n)
	return strings.Join(strings.Fields(b.String()), " ")
}

func lq(s string) string { return strconv.Quote(s) }

var fieldOf = map[string]string{
	"logsinkMaxWaitTime": ".maxWait", "logsinkQueueSize": ".queueCap",
	"logsinkMaxBufferSize": ".maxBuf", "logsinkZipMinSize": ".zipMin",
}

// ---------------------------------------------------------------- constants

func evalConst(e ast.Expr, env map[string]constant.Value) (constant.Value, bool) {
	switch x := e.(type) {
	case *ast.BasicLit:
		if x.Kind == token.INT {
			return constant.MakeFromLiteral(x.Value, token.INT, 0), true
		}
	case *ast.Ident:
		v, ok := env[x.Name]
		return v, ok
	case *ast.ParenExpr:
		return evalConst(x.X, env)
	case *ast.BinaryExpr:
		a, ok1 := evalConst(x.X, env)
		b, ok2 := evalConst(x.Y, env)
		if ok1 && ok2 {
			switch x.Op {
			case token.MUL, token.ADD, token.SUB:
				return constant.BinaryOp(a, x.Op, b), true
			}
		}
	}
	return nil, false
}

// ---------------------------------------------------------------- terms and conditions

func isSel(e ast.Expr, recv, name string) bool {
	s, ok := e.(*ast.SelectorExpr)
	if !ok || s.Sel.Name != name {
		return false
	}
	id, ok := s.X.(*ast.Ident)
	return ok && id.Name == recv
}

func term(e ast.Expr) string {
	switch x := e.(type) {
	case *ast.ParenExpr:
		return term(x.X)
	case *ast.BasicLit:
		if x.Kind == token.INT {
			return "(.lit " + x.Value + ")"
		}
	case *ast.SelectorExpr:
		if id, ok := x.X.(*ast.Ident); ok {
			switch id.Name + "." + x.Sel.Name {
			case "this.logsinkMaxBufferSize":
				return ".maxBuf"
			case "this.logsinkMaxWaitTime":
				return ".maxWait"
			case "this.logsinkZipMinSize":
				return ".zipMin"
			case "this.firstTime":
				return ".firstTime"
			case "p.Time":
				return ".recTime"
			case "p.Status":
				return ".status"
			}
		}
	case *ast.CallExpr:
		s := src(x)
		switch s {
		case "this.buffer.Len()", "buffer.Len()":
			return ".bufLen"
		case "this.maxBufferSize()":
			return ".maxBuf"
		case "this.maxWaitTime()":
			return ".maxWait"
		case "this.zipMinSize()":
			return ".zipMin"
		case "len(p.Records)":
			return ".recordsLen"
		}
	case *ast.BinaryExpr:
		if x.Op == token.SUB {
			return "(.sub " + term(x.X) + " " + term(x.Y) + ")"
		}
	}
	return "(.unknown " + lq(src(e)) + ")"
}

func cond(e ast.Expr) string {
	switch x := e.(type) {
	case *ast.ParenExpr:
		return cond(x.X)
	case *ast.BinaryExpr:
		op := ""
		switch x.Op {
		case token.GEQ:
			op = ".ge"
		case token.GTR:
			op = ".gt"
		case token.LSS:
			op = ".lt"
		case token.LEQ:
			op = ".le"
		case token.EQL:
			op = ".eq"
		case token.NEQ:
			op = ".ne"
		case token.LOR:
			return "(.or " + cond(x.X) + " " + cond(x.Y) + ")"
		case token.LAND:
			return "(.and " + cond(x.X) + " " + cond(x.Y) + ")"
		}
		if op != "" {
			return "(" + op + " " + term(x.X) + " " + term(x.Y) + ")"
		}
	}
	return "(.unknown " + lq(src(e)) + ")"
}

// is the statement list exactly one call `this.sendAndClear()` ?
func onlyFlush(b *ast.BlockStmt) bool {
	return b != nil && len(b.List) == 1 && src(b.List[0]) == "this.sendAndClear()"
}

func funcs(f *ast.File) map[string]*ast.FuncDecl {
	m := map[string]*ast.FuncDecl{}
	for _, d := range f.Decls {
		if fd, ok := d.(*ast.FuncDecl); ok && fd.Body != nil {
			m[fd.Name.Name] = fd
		}
	}
	return m
}

func main() {
	repo := flag.String("repo", "/repo", "repository root")
	out := flag.String("out", "", "output Lean file")
	flag.Parse()
	path := filepath.Join(*repo, "logsink/zip/ZipSendProxyThread.go")
	f, err := parser.ParseFile(fset, path, nil, 0)
	if err != nil {
		fmt.Fprintln(os.Stderr, err)
		os.Exit(1)
	}
	fn := funcs(f)
	var w bytes.Buffer
	fmt.Fprintf(&w, "-- generated by xlate/c16 from %s — do not edit\nimport Golib.ZipSender.FactsLoop\nimport Golib.ZipSender.FactsWire\n\nnamespace Gen.C16\nopen ZipSender\n\n", "logsink/zip/ZipSendProxyThread.go")

	// ---- constants
	consts := map[string]constant.Value{}
	for _, d := range f.Decls {
		gd, ok := d.(*ast.GenDecl)
		if !ok || gd.Tok != token.CONST {
			continue
		}
		for _, sp := range gd.Specs {
			vs := sp.(*ast.ValueSpec)
			for i, n := range vs.Names {
				if i < len(vs.Values) {
					if v, ok := evalConst(vs.Values[i], consts); ok {
						consts[n.Name] = v
					}
				}
			}
		}
	}
	cv := func(name string) string {
		if v, ok := consts[name]; ok {
			return v.ExactString()
		}
		return "(-1)"
	}
	fmt.Fprintf(&w, "/-- defaultLogsinkMaxWaitTime, defaultLogsinkQueueSize, defaultLogsinkMaxBufferSize, defaultLogsinkZipMinSize -/\n")
	fmt.Fprintf(&w, "def constants : Settings := ⟨%s, %s, %s, %s⟩\n\n", cv("defaultLogsinkMaxWaitTime"), cv("defaultLogsinkQueueSize"), cv("defaultLogsinkMaxBufferSize"), cv("defaultLogsinkZipMinSize"))

	// ---- GetInstance: assignments to p.<setting>, in order
	var assigns, unrec []string
	if gi := fn["GetInstance"]; gi != nil {
		var walk func(list []ast.Stmt, guard string, depth int)
		walk = func(list []ast.Stmt, guard string, depth int) {
			for _, st := range list {
				switch x := st.(type) {
				case *ast.AssignStmt:
					if len(x.Lhs) != 1 || len(x.Rhs) != 1 {
						continue
					}
					l, ok := x.Lhs[0].(*ast.SelectorExpr)
					if !ok {
						continue
					}
					id, ok := l.X.(*ast.Ident)
					if !ok || id.Name != "p" {
						continue
					}
					fld, ok := fieldOf[l.Sel.Name]
					if !ok {
						continue
					}
					if depth > 0 && guard != l.Sel.Name {
						unrec = append(unrec, src(x)+" under an unrecognised condition")
						continue
					}
					g := "false"
					if depth > 0 {
						g = "true"
					}
					if isSel(x.Rhs[0], "o", l.Sel.Name) {
						assigns = append(assigns, fmt.Sprintf("⟨%s, .opt, %s⟩", fld, g))
					} else if v, ok := evalConst(x.Rhs[0], consts); ok && depth == 0 {
						assigns = append(assigns, fmt.Sprintf("⟨%s, .const %s, false⟩", fld, v.ExactString()))
					} else {
						unrec = append(unrec, src(x))
					}
				case *ast.IfStmt:
					// recognised guard: `if o.<f> > 0 { … }` without else
					g := ""
					if be, ok := x.Cond.(*ast.BinaryExpr); ok && be.Op == token.GTR && x.Else == nil && x.Init == nil {
						if s, ok := be.X.(*ast.SelectorExpr); ok {
							if id, ok := s.X.(*ast.Ident); ok && id.Name == "o" {
								if lit, ok := be.Y.(*ast.BasicLit); ok && lit.Value == "0" {
									g = s.Sel.Name
								}
							}
						}
					}
					if g != "" && depth == 0 {
						walk(x.Body.List, g, depth+1)
					} else {
						// any other branching: assignments to settings inside are not understood
						walk(x.Body.List, "?", depth+1)
						if eb, ok := x.Else.(*ast.BlockStmt); ok {
							walk(eb.List, "?", depth+1)
						}
					}
				case *ast.RangeStmt:
					walk(x.Body.List, "?", depth+1)
				case *ast.ForStmt:
					walk(x.Body.List, "?", depth+1)
				case *ast.BlockStmt:
					walk(x.List, guard, depth)
				}
			}
		}
		walk(gi.Body.List, "", 0)
	} else {
		unrec = append(unrec, "func GetInstance not found")
	}
	fmt.Fprintf(&w, "/-- assignments to the four settings in GetInstance, in source order -/\ndef getInstanceAssigns : List Assign :=\n  [%s]\n\n", strings.Join(assigns, ",\n   "))
	qs := make([]string, len(unrec))
	for i, u := range unrec {
		qs[i] = lq(u)
	}
	fmt.Fprintf(&w, "def getInstanceUnrecognised : List String := [%s]\n\n", strings.Join(qs, ", "))

	// ---- ApplyConfig: conf.GetInt(key, def) feeding each setting
	var keys []string
	if ac := fn["ApplyConfig"]; ac != nil {
		locals := map[string][2]string{} // local var -> key, default
		getInt := func(e ast.Expr) (string, string, bool) {
			var found *ast.CallExpr
			ast.Inspect(e, func(n ast.Node) bool {
				if c, ok := n.(*ast.CallExpr); ok {
					if s, ok := c.Fun.(*ast.SelectorExpr); ok && s.Sel.Name == "GetInt" && len(c.Args) == 2 {
						found = c
						return false
					}
				}
				return true
			})
			if found == nil {
				return "", "", false
			}
			k, ok := found.Args[0].(*ast.BasicLit)
			if !ok || k.Kind != token.STRING {
				return "", "", false
			}
			d, ok := evalConst(found.Args[1], consts)
			if !ok {
				return "", "", false
			}
			return k.Value, d.ExactString(), true
		}
		// the body is read statement by statement, in order: only the straight-line shape below is given
		// a row; any other statement (a branch that leaves early, a loop, …) is recorded as unrecognised —
		// the rows are interpreted as unconditional assignments in sequence (`applyKeys`), so control flow
		// must not hide in between
		bad := func(st ast.Stmt) {
			keys = append(keys, fmt.Sprintf("(.queueCap, %s, -1)", lq("?unrecognised: "+src(st))))
		}
		const queueIf = "if this.logsinkQueueSize != queueSize { this.logsinkQueueSize = queueSize if this.Queue != nil { this.Queue.SetCapacity(queueSize) } }"
		for _, st := range ac.Body.List {
			sc := src(st)
			switch x := st.(type) {
			case *ast.ExprStmt:
				if sc != "this.settingsMutex.Lock()" {
					bad(st)
				}
			case *ast.DeferStmt:
				if sc != "defer this.settingsMutex.Unlock()" {
					bad(st)
				}
			case *ast.AssignStmt:
				if len(x.Lhs) != 1 || len(x.Rhs) != 1 {
					bad(st)
					continue
				}
				if id, ok := x.Lhs[0].(*ast.Ident); ok && x.Tok == token.DEFINE {
					if k, d, ok := getInt(x.Rhs[0]); ok {
						locals[id.Name] = [2]string{k, d}
					} else {
						bad(st)
					}
					continue
				}
				l, ok := x.Lhs[0].(*ast.SelectorExpr)
				if !ok {
					bad(st)
					continue
				}
				fld, ok := fieldOf[l.Sel.Name]
				if !ok {
					bad(st)
					continue
				}
				if k, d, ok := getInt(x.Rhs[0]); ok {
					keys = append(keys, fmt.Sprintf("(%s, %s, %s)", fld, k, d))
				} else {
					bad(st)
				}
			case *ast.IfStmt:
				if kd, ok := locals["queueSize"]; ok && sc == queueIf {
					// `if changed { set; resize the queue if there is one }` = the unconditional assignment
					keys = append(keys, fmt.Sprintf("(.queueCap, %s, %s)", kd[0], kd[1]))
				} else {
					bad(st)
				}
			default:
				bad(st)
			}
		}
	}
	nRet := 0
	if ac := fn["ApplyConfig"]; ac != nil {
		ast.Inspect(ac.Body, func(n ast.Node) bool {
			if _, ok := n.(*ast.ReturnStmt); ok {
				nRet++
			}
			return true
		})
	}
	fmt.Fprintf(&w, "/-- `return` statements inside ApplyConfig (an early exit would skip the settings that follow) -/\ndef applyConfigReturns : Nat := %d\n\n", nRet)
	fmt.Fprintf(&w, "/-- ApplyConfig: setting, configuration key, fall-back value — in source order -/\ndef applyConfigKeys : List (Field × String × Int) :=\n  [%s]\n\n", strings.Join(keys, ", "))

	// ---- Append shape
	shape := "{ split := .unknown \"Append not recognised\", setsFirstTime := false, first := .unknown \"\", other := .unknown \"\" }"
	if ap := fn["Append"]; ap != nil {
		for _, st := range ap.Body.List {
			ifs, ok := st.(*ast.IfStmt)
			if !ok || ifs.Else == nil {
				continue
			}
			eb, ok := ifs.Else.(*ast.BlockStmt)
			if !ok {
				continue
			}
			sets := false
			first, other := "(.unknown \"no flush condition\")", "(.unknown \"no flush condition\")"
			okShape := true
			for _, s2 := range ifs.Body.List {
				switch y := s2.(type) {
				case *ast.AssignStmt:
					if src(y) == "this.firstTime = p.Time" {
						sets = true
					} else {
						okShape = false
					}
				case *ast.IfStmt:
					if onlyFlush(y.Body) && y.Else == nil {
						first = cond(y.Cond)
					} else {
						okShape = false
					}
				default:
					okShape = false
				}
			}
			if len(eb.List) == 1 {
				if y, ok := eb.List[0].(*ast.IfStmt); ok && onlyFlush(y.Body) && y.Else == nil {
					other = cond(y.Cond)
				} else {
					okShape = false
				}
			} else {
				okShape = false
			}
			if okShape {
				shape = fmt.Sprintf("{ split := %s, setsFirstTime := %v,\n    first := %s,\n    other := %s }", cond(ifs.Cond), sets, first, other)
			}
		}
	}
	fmt.Fprintf(&w, "def appendShape : AppendShape :=\n  %s\n\n", shape)

	// ---- guards: conditions of `if … { …; return }` statements at the top level of a function
	guards := func(name string) []string {
		var g []string
		if fd := fn[name]; fd != nil {
			for _, st := range fd.Body.List {
				if ifs, ok := st.(*ast.IfStmt); ok && ifs.Else == nil && len(ifs.Body.List) > 0 {
					if _, ok := ifs.Body.List[len(ifs.Body.List)-1].(*ast.ReturnStmt); ok {
						g = append(g, cond(ifs.Cond))
					}
				}
			}
		}
		return g
	}
	sg := guards("sendAndClear")
	sgs := "(.unknown \"sendAndClear guard not found\")"
	if len(sg) == 1 {
		sgs = sg[0]
	}
	fmt.Fprintf(&w, "def sendAndClearGuard : Cnd := %s\n\n", sgs)
	fmt.Fprintf(&w, "def doZipGuards : List Cnd := [%s]\n\n", strings.Join(guards("doZip"), ", "))

	// ---- doZip: does the small-payload return path detach Records; is the compressed one fresh
	smallCopies, zippedFresh := false, false
	if dz := fn["doZip"]; dz != nil {
		for _, st := range dz.Body.List {
			switch x := st.(type) {
			case *ast.IfStmt:
				if strings.Contains(src(x.Cond), "len(p.Records) <") {
					for _, s2 := range x.Body.List {
						if s := src(s2); s == "p.Records = append([]byte(nil), p.Records...)" || s == "p.Records = append([]byte{}, p.Records...)" || s == "p.Records = bytes.Clone(p.Records)" {
							smallCopies = true
						}
					}
				}
				if strings.Contains(src(x), "compressutil.DoZip(p.Records)") && strings.HasPrefix(src(x), "if p.Records, err = compressutil.DoZip(p.Records)") {
					zippedFresh = true
				}
			case *ast.AssignStmt:
				if strings.HasPrefix(src(x), "p.Records, err = compressutil.DoZip(p.Records)") {
					zippedFresh = true
				}
			}
		}
	}
	fmt.Fprintf(&w, "/-- doZip, payload below the threshold: `p.Records` is replaced by a copy before returning -/\ndef doZipSmallCopies : Bool := %v\n", smallCopies)
	fmt.Fprintf(&w, "/-- doZip, payload at the threshold: `p.Records` is replaced by the output of compressutil.DoZip -/\ndef doZipZippedFresh : Bool := %v\n\n", zippedFresh)

	// ---- hand-over sites
	var hos []string
	var dloop, dtail string = "(.unknown \"SendDirect loop condition not found\")", "(.unknown \"SendDirect tail condition not found\")"
	for _, name := range []string{"sendAndClear", "SendDirect"} {
		fd := fn[name]
		if fd == nil {
			continue
		}
		var scan func(list []ast.Stmt)
		scan = func(list []ast.Stmt) {
			from, zipped := "?", false
			for i, st := range list {
				s := src(st)
				isHandOver := false
				switch x := st.(type) {
				case *ast.IfStmt:
					isHandOver = x.Init != nil && strings.Contains(src(x.Init), "this.client.SendFlush(p,")
				case *ast.ExprStmt:
					isHandOver = strings.HasPrefix(s, "this.client.SendFlush(p,")
				case *ast.AssignStmt:
					isHandOver = strings.Contains(s, "this.client.SendFlush(p,")
				}
				switch {
				case strings.HasPrefix(s, "p.Records = "):
					from = strings.TrimPrefix(s, "p.Records = ")
					if from == "this.buffer.Bytes()" || from == "buffer.Bytes()" {
						from = "buffer.Bytes"
					}
					zipped = false
				case s == "this.doZip(p)":
					zipped = true
				case isHandOver:
					reset := false
					for _, later := range list[i+1:] {
						if ls := src(later); ls == "this.buffer.Reset()" || ls == "buffer.Reset()" {
							reset = true
						}
					}
					hos = append(hos, fmt.Sprintf("⟨%s, %s, %v, %v⟩", lq(name), lq(from), zipped, reset))
				}
				if isHandOver {
					continue
				}
				switch x := st.(type) {
				case *ast.RangeStmt:
					scan(x.Body.List)
				case *ast.ForStmt:
					scan(x.Body.List)
				case *ast.IfStmt:
					if name == "SendDirect" && strings.Contains(src(x.Body), "SendFlush") {
						if fd.Body.List[len(fd.Body.List)-1] == st {
							dtail = cond(x.Cond)
						} else {
							dloop = cond(x.Cond)
						}
					}
					scan(x.Body.List)
					if eb, ok := x.Else.(*ast.BlockStmt); ok {
						scan(eb.List)
					}
				}
			}
		}
		scan(fd.Body.List)
	}
	fmt.Fprintf(&w, "/-- every `this.client.SendFlush(p, …)` in source order -/\ndef handOvers : List HandOver :=\n  [%s]\n\n", strings.Join(hos, ",\n   "))
	fmt.Fprintf(&w, "def directLoopCond : Cnd := %s\ndef directTailCond : Cnd := %s\n\n", dloop, dtail)

	// ---- run: does the Done branch drain the queue (GetNoWait loop calling Append) before sendAndClear
	drains, doneFlushes, idleFlushes := false, false, false
	if rn := fn["run"]; rn != nil {
		ast.Inspect(rn.Body, func(n ast.Node) bool {
			cc, ok := n.(*ast.CommClause)
			if !ok {
				return true
			}
			if cc.Comm != nil && strings.Contains(src(cc.Comm), "this.ctx.Done()") {
				sawLoop := false
				for _, st := range cc.Body {
					if fs, ok := st.(*ast.ForStmt); ok && strings.Contains(src(fs), "this.Queue.GetNoWait()") && strings.Contains(src(fs.Body), "this.Append(") {
						sawLoop = true
					}
					if src(st) == "this.sendAndClear()" {
						doneFlushes = true
						if sawLoop {
							drains = true
						}
					}
				}
			}
			if cc.Comm == nil { // default:
				for _, st := range cc.Body {
					if ifs, ok := st.(*ast.IfStmt); ok && (strings.Contains(src(ifs.Init), "this.Queue.GetTimeout(int(this.logsinkMaxWaitTime))") || strings.Contains(src(ifs.Init), "this.Queue.GetTimeout(int(this.maxWaitTime()))")) {
						if eb, ok := ifs.Else.(*ast.BlockStmt); ok && onlyFlush(eb) {
							idleFlushes = true
						}
					}
				}
			}
			return true
		})
	}
	fmt.Fprintf(&w, "/-- run, `case <-this.ctx.Done()`: a loop `for … this.Queue.GetNoWait() … this.Append(…)` precedes the final sendAndClear -/\ndef runDoneDrains : Bool := %v\n", drains)
	fmt.Fprintf(&w, "def runDoneFlushes : Bool := %v\n", doneFlushes)
	fmt.Fprintf(&w, "/-- run, `default`: `GetTimeout(int(this.logsinkMaxWaitTime))` returning nil leads to exactly sendAndClear -/\ndef runIdleFlushes : Bool := %v\n\n", idleFlushes)

	// ---- run(): the loop body as an IR (interpreted by ZipSender.execR)
	rstmt := func(st ast.Stmt) string {
		s := src(st)
		switch x := st.(type) {
		case *ast.ForStmt:
			if strings.Contains(src(x.Init), "this.Queue.GetNoWait()") && strings.Contains(src(x.Cond), "!= nil") &&
				strings.Contains(src(x.Post), "this.Queue.GetNoWait()") && len(x.Body.List) == 1 {
				if in, ok := x.Body.List[0].(*ast.IfStmt); ok && strings.Contains(src(in.Init), ".(*pack.LogSinkPack)") && in.Else == nil &&
					len(in.Body.List) == 1 && src(in.Body.List[0]) == "this.Append(data)" {
					return ".drain"
				}
			}
		case *ast.ExprStmt:
			if s == "this.sendAndClear()" {
				return ".flush"
			}
		case *ast.ReturnStmt:
			return ".ret"
		case *ast.IfStmt:
			if strings.Contains(src(x.Init), ".(*pack.LogSinkPack)") && x.Else == nil && len(x.Body.List) == 1 && src(x.Body.List[0]) == "this.Append(data)" {
				return ".appendData"
			}
		}
		return ".unknown " + lq(s)
	}
	rlist := func(list []ast.Stmt) string {
		var xs []string
		for _, st := range list {
			xs = append(xs, rstmt(st))
		}
		return "[" + strings.Join(xs, ", ") + "]"
	}
	rDone, rGot, rIdle, rTimeout := "[.unknown \"Done branch not found\"]", "[.unknown \"default branch not found\"]", "[.unknown \"else branch not found\"]", "(.unknown \"GetTimeout argument not found\")"
	if rn := fn["run"]; rn != nil {
		ast.Inspect(rn.Body, func(n ast.Node) bool {
			cc, ok := n.(*ast.CommClause)
			if !ok {
				return true
			}
			if cc.Comm != nil && strings.Contains(src(cc.Comm), "this.ctx.Done()") {
				rDone = rlist(cc.Body)
			}
			if cc.Comm == nil && len(cc.Body) == 1 {
				if ifs, ok := cc.Body[0].(*ast.IfStmt); ok && ifs.Init != nil && src(ifs.Cond) == "tmp != nil" {
					if as, ok := ifs.Init.(*ast.AssignStmt); ok && len(as.Rhs) == 1 {
						if call, ok := as.Rhs[0].(*ast.CallExpr); ok && strings.HasPrefix(src(call), "this.Queue.GetTimeout(") && len(call.Args) == 1 {
							arg := call.Args[0]
							if conv, ok := arg.(*ast.CallExpr); ok && src(conv.Fun) == "int" && len(conv.Args) == 1 {
								arg = conv.Args[0]
							}
							rTimeout = term(arg)
						}
					}
					rGot = rlist(ifs.Body.List)
					if eb, ok := ifs.Else.(*ast.BlockStmt); ok {
						rIdle = rlist(eb.List)
					}
				}
			}
			return true
		})
	}
	fmt.Fprintf(&w, "/-- the body of run(): Done branch, GetTimeout-returned-a-record branch, its else branch, the GetTimeout argument -/\ndef runIR : RunIR :=\n  { done := %s,\n    got := %s,\n    idle := %s,\n    timeout := %s }\n\n", rDone, rGot, rIdle, rTimeout)

	// ---- sendAndClear from the hand-over on (interpreted by ZipSender.execS)
	var tail []string
	if sc := fn["sendAndClear"]; sc != nil {
		seen := false
		for _, st := range sc.Body.List {
			s := src(st)
			if ifs, ok := st.(*ast.IfStmt); ok && ifs.Init != nil && strings.Contains(src(ifs.Init), "this.client.SendFlush(p,") && src(ifs.Cond) == "err != nil" && ifs.Else == nil {
				seen = true
				var es []string
				for _, e := range ifs.Body.List {
					switch {
					case strings.HasPrefix(src(e), "this.Log."):
						es = append(es, ".log")
					case src(e) == "return":
						es = append(es, ".ret")
					default:
						es = append(es, ".unknown "+lq(src(e)))
					}
				}
				tail = append(tail, ".handOver ["+strings.Join(es, ", ")+"]")
				continue
			}
			if !seen {
				continue
			}
			switch s {
			case "this.buffer.Reset()":
				tail = append(tail, ".resetBuf")
			case "this.firstTime = 0":
				tail = append(tail, ".clearFirst")
			case "this.packCount = 0":
				tail = append(tail, ".clearCount")
			default:
				tail = append(tail, ".unknown "+lq(s))
			}
		}
	}
	fmt.Fprintf(&w, "/-- sendAndClear from `client.SendFlush` on -/\ndef sendTail : List SStmt :=\n  [%s]\n\n", strings.Join(tail, ", "))

	// ---- D69: are the settings read under the lock that ApplyConfig takes?
	isSetting := map[string]bool{"logsinkMaxWaitTime": true, "logsinkMaxBufferSize": true, "logsinkZipMinSize": true}
	getter := func(fd *ast.FuncDecl) bool { // RLock; defer RUnlock; return this.<setting>
		b := fd.Body.List
		return len(b) == 3 && src(b[0]) == "this.settingsMutex.RLock()" && src(b[1]) == "defer this.settingsMutex.RUnlock()" &&
			strings.HasPrefix(src(b[2]), "return this.logsink")
	}
	applyLocks := false
	if ac := fn["ApplyConfig"]; ac != nil && len(ac.Body.List) >= 2 {
		applyLocks = src(ac.Body.List[0]) == "this.settingsMutex.Lock()" && src(ac.Body.List[1]) == "defer this.settingsMutex.Unlock()"
	}
	var bare []string
	for name, fd := range fn {
		if name == "GetInstance" || name == "ApplyConfig" || getter(fd) {
			continue
		}
		ast.Inspect(fd.Body, func(n ast.Node) bool {
			if se, ok := n.(*ast.SelectorExpr); ok && isSetting[se.Sel.Name] {
				if id, ok := se.X.(*ast.Ident); ok && id.Name == "this" {
					bare = append(bare, name+": this."+se.Sel.Name)
				}
			}
			return true
		})
	}
	sort.Strings(bare)
	bq := make([]string, len(bare))
	for i, b := range bare {
		bq[i] = lq(b)
	}
	fmt.Fprintf(&w, "/-- ApplyConfig starts with `this.settingsMutex.Lock(); defer …Unlock()` -/\ndef applyConfigLocks : Bool := %v\n", applyLocks)
	fmt.Fprintf(&w, "/-- reads of a setting field outside GetInstance, ApplyConfig and the RLock-ing getters -/\ndef unguardedSettingReads : List String := [%s]\n\n", strings.Join(bq, ", "))

	// ---- lang/pack/ZipPack.go: SetRecords / GetRecords, and SetTcpClient (interpreted by ZipSender.execSet / execGet / execClient)
	zstmts := func(fd *ast.FuncDecl) string {
		if fd == nil {
			return "[.unknown \"function not found\"]"
		}
		var out []string
		for _, st := range fd.Body.List {
			s := src(st)
			switch s {
			case "this.RecordCount = len(items)":
				out = append(out, ".setCountLen")
			case "o := io.NewDataOutputX()":
				out = append(out, ".newOut")
			case "this.Records = o.ToByteArray()":
				out = append(out, ".setRecordsOut")
			case "return this":
				out = append(out, ".retThis")
			case "items := make([]Pack, 0)":
				out = append(out, ".newItems")
			case "if this.Records == nil { return nil }":
				out = append(out, ".nilGuard")
			case "in := io.NewDataInputX(this.Records)":
				out = append(out, ".newIn")
			case "return items":
				out = append(out, ".retItems")
			case "this.client = c":
				out = append(out, ".setClient")
			default:
				switch x := st.(type) {
				case *ast.RangeStmt:
					if src(x.X) == "items" && x.Value != nil && src(x.Value) == "it" && len(x.Body.List) == 1 && src(x.Body.List[0]) == "o = WritePack(o, it)" {
						out = append(out, ".writeEach")
						continue
					}
				case *ast.ForStmt:
					// for i := 0; i < this.<bound>; i++ { p := ReadPack(in); p.<setter>(this.<field>) …; items = append(items, p) }
					ok := x.Init != nil && src(x.Init) == "i := 0" && x.Post != nil && src(x.Post) == "i++" && x.Cond != nil && len(x.Body.List) >= 1 && src(x.Body.List[0]) == "p := ReadPack(in)"
					bound := ""
					if be, isB := x.Cond.(*ast.BinaryExpr); ok && isB && be.Op == token.LSS && src(be.X) == "i" {
						if se, isS := be.Y.(*ast.SelectorExpr); isS && src(se.X) == "this" {
							bound = se.Sel.Name
						}
					}
					if ok && bound != "" {
						var stamps []string
						appends := false
						good := true
						for _, b := range x.Body.List[1:] {
							if src(b) == "items = append(items, p)" && !appends {
								appends = true
								continue
							}
							es, isE := b.(*ast.ExprStmt)
							if !isE || appends {
								good = false
								break
							}
							call, isC := es.X.(*ast.CallExpr)
							if !isC || len(call.Args) != 1 {
								good = false
								break
							}
							fn, isF := call.Fun.(*ast.SelectorExpr)
							arg, isA := call.Args[0].(*ast.SelectorExpr)
							if !isF || !isA || src(fn.X) != "p" || src(arg.X) != "this" {
								good = false
								break
							}
							stamps = append(stamps, "("+lq(fn.Sel.Name)+", "+lq(arg.Sel.Name)+")")
						}
						if good {
							out = append(out, fmt.Sprintf(".readLoop %s [%s] %v", lq(bound), strings.Join(stamps, ", "), appends))
							continue
						}
					}
				}
				out = append(out, ".unknown "+lq(s))
			}
		}
		return "[" + strings.Join(out, ", ") + "]"
	}
	var zfn map[string]*ast.FuncDecl
	if zf, err := parser.ParseFile(fset, filepath.Join(*repo, "lang/pack/ZipPack.go"), nil, 0); err == nil {
		zfn = funcs(zf)
	} else {
		zfn = map[string]*ast.FuncDecl{}
	}
	fmt.Fprintf(&w, "/-- lang/pack/ZipPack.go, `SetRecords`, statement by statement -/\ndef zipSetRecords : List ZStmt :=\n  %s\n\n", zstmts(zfn["SetRecords"]))
	fmt.Fprintf(&w, "/-- lang/pack/ZipPack.go, `GetRecords`, statement by statement -/\ndef zipGetRecords : List ZStmt :=\n  %s\n\n", zstmts(zfn["GetRecords"]))
	fmt.Fprintf(&w, "/-- `SetTcpClient`, statement by statement -/\ndef setTcpClient : List ZStmt :=\n  %s\n\n", zstmts(fn["SetTcpClient"]))

	fmt.Fprintf(&w, "end Gen.C16\n")
	if *out == "" {
		os.Stdout.Write(w.Bytes())
		return
	}
	if err := os.WriteFile(*out, w.Bytes(), 0o644); err != nil {
		fmt.Fprintln(os.Stderr, err)
		os.Exit(1)
	}
}
