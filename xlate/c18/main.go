// xlate/c18 — tie A for property C18: transcribes facts of config/conffile into Lean data
// (lean/Golib/Gen/C18.lean).  Standard library only (go/parser, go/ast).  It never judges:
// the obligations over the generated data live in lean/Golib/Props/C18Gen.lean.
//
// Facts:
//
//	writeSeq          the file-system calls DefaultFileParser.Write makes to store the new content
//	usesMustLoad      does DefaultFileParser call properties.MustLoad* (log.Fatal on error)?
//	lockFacts         per method of FileConfig: accesses to the map `m` with the lock held at that
//	                  point, calls of own methods and callbacks with the lock held at the call
//	mtimeMethod       the method applied to stat.ModTime() in reload; sizeCompared
//	intSetKeepsValid  polarity of the err test in GetIntSet
//	defaults          the table assigned by ApplyDefault
package main

import (
	"flag"
	"fmt"
	"go/ast"
	"go/parser"
	"go/token"
	"os"
	"path/filepath"
	"sort"
	"strconv"
	"strings"
)

func leanStr(s string) string { return strconv.Quote(s) }

// ---------------------------------------------------------------- lock facts

type access struct {
	kind string // read | write
	held string // none | r | w
}
type callFact struct {
	callee string
	held   string
}
type methodFacts struct {
	name      string
	exported  bool
	acquires  bool
	accesses  []access
	calls     []callFact // calls of methods of the same receiver
	callbacks []string   // lock held at calls that leave the type with `this` as an argument (observers)
}

type lockWalker struct {
	recv    string
	field   string // the guarded field ("m")
	mutex   string // the mutex field ("mu"), "" if none
	held    string
	facts   *methodFacts
	methods map[string]bool
	// optional: lock held at every call of a method with this name (whatever the receiver)
	watchCall string
	watchHeld []string
}

func (w *lockWalker) isRecvField(e ast.Expr, field string) bool {
	s, ok := e.(*ast.SelectorExpr)
	if !ok {
		return false
	}
	id, ok := s.X.(*ast.Ident)
	return ok && id.Name == w.recv && s.Sel.Name == field
}

// mutexCall recognises this.mu.Lock() etc.; returns the method name or "".
func (w *lockWalker) mutexCall(c *ast.CallExpr) string {
	s, ok := c.Fun.(*ast.SelectorExpr)
	if !ok {
		return ""
	}
	inner, ok := s.X.(*ast.SelectorExpr)
	if !ok {
		return ""
	}
	id, ok := inner.X.(*ast.Ident)
	if !ok || id.Name != w.recv {
		return ""
	}
	switch s.Sel.Name {
	case "Lock", "Unlock", "RLock", "RUnlock":
		return s.Sel.Name
	}
	return ""
}

func (w *lockWalker) reads(e ast.Node) {
	if e == nil {
		return
	}
	ast.Inspect(e, func(n ast.Node) bool {
		switch x := n.(type) {
		case *ast.FuncLit:
			w.stmts(x.Body.List)
			return false
		case *ast.CallExpr:
			if m := w.mutexCall(x); m != "" {
				switch m {
				case "Lock":
					w.held = "w"
					w.facts.acquires = true
				case "RLock":
					w.held = "r"
					w.facts.acquires = true
				case "Unlock", "RUnlock":
					w.held = "none"
				}
				return false
			}
			if id, ok := x.Fun.(*ast.Ident); ok && id.Name == "delete" && len(x.Args) > 0 && w.isRecvField(x.Args[0], w.field) {
				w.facts.accesses = append(w.facts.accesses, access{"write", w.held})
				for _, a := range x.Args[1:] {
					w.reads(a)
				}
				return false
			}
			if s, ok := x.Fun.(*ast.SelectorExpr); ok {
				if w.watchCall != "" && s.Sel.Name == w.watchCall {
					w.watchHeld = append(w.watchHeld, w.held)
				}
				if id, ok := s.X.(*ast.Ident); ok && id.Name == w.recv && w.methods[s.Sel.Name] {
					w.facts.calls = append(w.facts.calls, callFact{s.Sel.Name, w.held})
				} else {
					for _, a := range x.Args {
						if id, ok := a.(*ast.Ident); ok && id.Name == w.recv {
							w.facts.callbacks = append(w.facts.callbacks, w.held)
						}
					}
				}
			}
		case *ast.SelectorExpr:
			if w.isRecvField(x, w.field) {
				w.facts.accesses = append(w.facts.accesses, access{"read", w.held})
				return false
			}
		}
		return true
	})
}

func (w *lockWalker) lhs(e ast.Expr) {
	switch x := e.(type) {
	case *ast.IndexExpr:
		if w.isRecvField(x.X, w.field) {
			w.facts.accesses = append(w.facts.accesses, access{"write", w.held})
			w.reads(x.Index)
			return
		}
	case *ast.SelectorExpr:
		if w.isRecvField(x, w.field) {
			w.facts.accesses = append(w.facts.accesses, access{"write", w.held})
			return
		}
	}
	w.reads(e)
}

func (w *lockWalker) stmts(list []ast.Stmt) {
	for _, s := range list {
		w.stmt(s)
	}
}

func (w *lockWalker) stmt(s ast.Stmt) {
	switch x := s.(type) {
	case nil:
	case *ast.AssignStmt:
		for _, r := range x.Rhs {
			w.reads(r)
		}
		for _, l := range x.Lhs {
			w.lhs(l)
		}
	case *ast.DeferStmt:
		// defer this.mu.Unlock(): the lock stays held to the end of the method
		if m := w.mutexCall(x.Call); m == "Unlock" || m == "RUnlock" {
			return
		}
		if fl, ok := x.Call.Fun.(*ast.FuncLit); ok {
			held := w.held
			w.stmts(fl.Body.List)
			w.held = held
			return
		}
		w.reads(x.Call)
	case *ast.BlockStmt:
		w.stmts(x.List)
	case *ast.IfStmt:
		w.stmt(x.Init)
		w.reads(x.Cond)
		held := w.held
		w.stmt(x.Body)
		after := w.held
		w.held = held
		w.stmt(x.Else)
		if after != w.held {
			// branches disagree: keep the weaker knowledge
			w.held = "none"
		}
	case *ast.ForStmt:
		w.stmt(x.Init)
		w.reads(x.Cond)
		w.stmt(x.Body)
		w.stmt(x.Post)
	case *ast.RangeStmt:
		w.reads(x.X)
		w.stmt(x.Body)
	case *ast.ExprStmt:
		w.reads(x.X)
	case *ast.ReturnStmt:
		for _, r := range x.Results {
			w.reads(r)
		}
	case *ast.GoStmt:
		w.reads(x.Call)
	case *ast.SwitchStmt:
		w.stmt(x.Init)
		w.reads(x.Tag)
		w.stmt(x.Body)
	case *ast.CaseClause:
		for _, e := range x.List {
			w.reads(e)
		}
		w.stmts(x.Body)
	case *ast.SelectStmt:
		w.stmt(x.Body)
	case *ast.CommClause:
		w.stmt(x.Comm)
		w.stmts(x.Body)
	case *ast.IncDecStmt:
		w.lhs(x.X)
	case *ast.DeclStmt, *ast.BranchStmt, *ast.EmptyStmt, *ast.LabeledStmt:
	default:
		w.reads(s)
	}
}

func recvOf(fd *ast.FuncDecl, typ string) (string, bool) {
	if fd.Recv == nil || len(fd.Recv.List) != 1 {
		return "", false
	}
	t := fd.Recv.List[0].Type
	if st, ok := t.(*ast.StarExpr); ok {
		t = st.X
	}
	id, ok := t.(*ast.Ident)
	if !ok || id.Name != typ || len(fd.Recv.List[0].Names) == 0 {
		return "", false
	}
	return fd.Recv.List[0].Names[0].Name, true
}

// ---------------------------------------------------------------- small facts of FileConfig.go

type small struct {
	mtimeMethod      string
	sizeCompared     bool
	cmpText          string
	cmpOps           []string
	intSetErrOp      string
	defaults         [][2]string
	defaultsComplete bool
}

func strLit(e ast.Expr) (string, bool) {
	b, ok := e.(*ast.BasicLit)
	if !ok || b.Kind != token.STRING {
		return "", false
	}
	s, err := strconv.Unquote(b.Value)
	return s, err == nil
}

func main() {
	repo := flag.String("repo", "/repo", "repository root")
	out := flag.String("out", "", "output Lean file")
	flag.Parse()
	dir := filepath.Join(*repo, "config", "conffile")
	fset := token.NewFileSet()

	// ---- DefaultFileParser.go
	seqAll, unknown, err := ExtractWriteSeq(filepath.Join(dir, "DefaultFileParser.go"))
	if err != nil {
		fmt.Fprintln(os.Stderr, err)
		os.Exit(1)
	}
	seq := StoreSeq(seqAll)
	pf, err := parser.ParseFile(fset, filepath.Join(dir, "DefaultFileParser.go"), nil, 0)
	if err != nil {
		fmt.Fprintln(os.Stderr, err)
		os.Exit(1)
	}
	var mustLoad []string
	ast.Inspect(pf, func(n ast.Node) bool {
		if c, ok := n.(*ast.CallExpr); ok {
			if s, ok := c.Fun.(*ast.SelectorExpr); ok {
				if id, ok := s.X.(*ast.Ident); ok && id.Name == "properties" && strings.HasPrefix(s.Sel.Name, "Must") {
					mustLoad = append(mustLoad, s.Sel.Name)
				}
			}
		}
		return true
	})

	// calls that set a file's times (the replacement written by Write must carry the time of the write: reload
	// decides by (mtime, size), a carried-over mtime hides a size-preserving write-back)
	var setsTimes []string
	ast.Inspect(pf, func(n ast.Node) bool {
		if c, ok := n.(*ast.CallExpr); ok {
			if s, ok := c.Fun.(*ast.SelectorExpr); ok {
				switch s.Sel.Name {
				case "Chtimes", "Lchtimes", "Utimes", "UtimesNano", "UtimesNanoAt", "Futimes", "Futimesat", "Utime", "Lutimes":
					setsTimes = append(setsTimes, exprString(c.Fun)+" at "+fset.Position(c.Pos()).String())
				}
			}
		}
		return true
	})

	// ---- FileConfig.go (+ any other non-test file of the package that declares methods of FileConfig)
	files, _ := filepath.Glob(filepath.Join(dir, "*.go"))
	sort.Strings(files)
	var decls []*ast.FuncDecl
	for _, f := range files {
		if strings.HasSuffix(f, "_test.go") {
			continue
		}
		af, err := parser.ParseFile(fset, f, nil, 0)
		if err != nil {
			fmt.Fprintln(os.Stderr, err)
			os.Exit(1)
		}
		for _, d := range af.Decls {
			if fd, ok := d.(*ast.FuncDecl); ok && fd.Body != nil {
				if _, ok := recvOf(fd, "FileConfig"); ok {
					decls = append(decls, fd)
				}
			}
		}
	}
	methods := map[string]bool{}
	for _, fd := range decls {
		methods[fd.Name.Name] = true
	}
	var facts []methodFacts
	var sm small
	sm.defaultsComplete = true
	for _, fd := range decls {
		recv, _ := recvOf(fd, "FileConfig")
		mf := methodFacts{name: fd.Name.Name, exported: ast.IsExported(fd.Name.Name)}
		w := &lockWalker{recv: recv, field: "m", held: "none", facts: &mf, methods: methods}
		w.stmts(fd.Body.List)
		if len(mf.accesses) > 0 || len(mf.calls) > 0 || len(mf.callbacks) > 0 || mf.acquires {
			facts = append(facts, mf)
		}
		switch fd.Name.Name {
		case "reload":
			ast.Inspect(fd.Body, func(n ast.Node) bool {
				switch x := n.(type) {
				case *ast.AssignStmt:
					if len(x.Rhs) == 1 {
						// <anything> := stat.ModTime().<M>()
						if c, ok := x.Rhs[0].(*ast.CallExpr); ok {
							if s, ok := c.Fun.(*ast.SelectorExpr); ok {
								if ic, ok := s.X.(*ast.CallExpr); ok {
									if is, ok := ic.Fun.(*ast.SelectorExpr); ok && is.Sel.Name == "ModTime" {
										sm.mtimeMethod = s.Sel.Name
									}
								}
							}
						}
					}
				case *ast.IfStmt:
					// the "is change?" test: mentions last_file_time; does it also mention Size()?
					txt := exprText(x.Cond)
					if strings.Contains(txt, "last_file_time") && strings.Contains(txt, "==") && !strings.Contains(txt, "-1") && !strings.Contains(txt, " 0") {
						sm.sizeCompared = strings.Contains(txt, "Size()") || strings.Contains(txt, "last_file_size")
						sm.cmpText = txt
						sm.cmpOps = nil
						ast.Inspect(x.Cond, func(m ast.Node) bool {
							if be, ok := m.(*ast.BinaryExpr); ok {
								switch be.Op {
								case token.EQL, token.NEQ, token.LSS, token.LEQ, token.GTR, token.GEQ:
									sm.cmpOps = append(sm.cmpOps, be.Op.String())
								}
							}
							return true
						})
					}
				}
				return true
			})
		case "GetIntSet":
			ast.Inspect(fd.Body, func(n ast.Node) bool {
				if is, ok := n.(*ast.IfStmt); ok && is.Init != nil {
					if as, ok := is.Init.(*ast.AssignStmt); ok && len(as.Rhs) == 1 && strings.Contains(exprText(as.Rhs[0]), "strconv.Atoi") {
						if b, ok := is.Cond.(*ast.BinaryExpr); ok && exprText(b.X) == "err" && exprText(b.Y) == "nil" {
							// the body must append
							if strings.Contains(stmtText(is.Body), "append") {
								sm.intSetErrOp = b.Op.String()
							}
						}
					}
				}
				return true
			})
		case "ApplyDefault", "applyDefault":
			for _, s := range fd.Body.List {
				as, ok := s.(*ast.AssignStmt)
				if !ok {
					continue
				}
				if len(as.Lhs) != 1 || len(as.Rhs) != 1 {
					sm.defaultsComplete = false
					continue
				}
				ix, ok := as.Lhs[0].(*ast.IndexExpr)
				if !ok {
					sm.defaultsComplete = false
					continue
				}
				k, ok1 := strLit(ix.Index)
				v, ok2 := strLit(as.Rhs[0])
				if !ok1 || !ok2 {
					sm.defaultsComplete = false
					continue
				}
				sm.defaults = append(sm.defaults, [2]string{k, v})
			}
		}
	}

	// ---- emit
	var b strings.Builder
	b.WriteString("-- generated by xlate/c18 from config/conffile — do not edit\n")
	b.WriteString("import Golib.Conf.FS\n\nnamespace Gen.C18\nopen Conf\n\n")
	kindOf := func(c FsCall) (string, bool) {
		fn := func(s string) string { return ".temp" }
		_ = fn
		name := func(s string) (string, bool) {
			switch s {
			case "target":
				return ".target", true
			case "temp":
				return ".temp", true
			}
			return "", false
		}
		switch c.Kind {
		case "createTemp":
			return ".createTemp", true
		case "rename":
			a, ok1 := name(c.File)
			d, ok2 := name(c.Dst)
			return fmt.Sprintf(".rename %s %s", a, d), ok1 && ok2
		case "openTrunc", "chmod", "write", "sync", "close", "remove":
			a, ok := name(c.File)
			return fmt.Sprintf(".%s %s", c.Kind, a), ok
		}
		return "", false
	}
	var ks, bad []string
	for _, c := range seq {
		if k, ok := kindOf(c); ok {
			ks = append(ks, k)
		} else {
			bad = append(bad, c.String()+" at "+c.Pos)
		}
	}
	bad = append(bad, unknown...)
	fmt.Fprintf(&b, "/-- file-system calls of DefaultFileParser.Write after the reading handle was opened (normal path) -/\n")
	fmt.Fprintf(&b, "def writeSeq : List FsKind := [%s]\n\n", strings.Join(ks, ", "))
	fmt.Fprintf(&b, "/-- calls the translator could not classify (must be empty) -/\ndef writeSeqUnknown : List String := [%s]\n\n", joinQuoted(bad))
	fmt.Fprintf(&b, "/-- properties.Must* calls in DefaultFileParser.go (their error handler is log.Fatal) -/\ndef mustLoadCalls : List String := [%s]\n\n", joinQuoted(mustLoad))

	fmt.Fprintf(&b, "/-- calls in DefaultFileParser.go that set a file's access/modification times (Chtimes, Utimes, …) -/\ndef writeSetsTimes : List String := [%s]\n\n", joinQuoted(setsTimes))

	b.WriteString("inductive Acc where\n  | read | write\n  deriving Repr, DecidableEq\n\n")
	b.WriteString("inductive Held where\n  | none | r | w\n  deriving Repr, DecidableEq\n\n")
	b.WriteString("structure MethodFacts where\n  name : String\n  exported : Bool\n  acquires : Bool\n  accesses : List (Acc × Held)\n  calls : List (String × Held)\n  callbacks : List Held\n  deriving Repr, DecidableEq\n\n")
	b.WriteString("/-- accesses to FileConfig.m per method, with the lock of FileConfig.mu held at that point -/\ndef lockFacts : List MethodFacts := [\n")
	for i, mf := range facts {
		var as, cs, cbs []string
		for _, a := range mf.accesses {
			as = append(as, fmt.Sprintf("(.%s, .%s)", a.kind, a.held))
		}
		for _, c := range mf.calls {
			cs = append(cs, fmt.Sprintf("(%s, .%s)", leanStr(c.callee), c.held))
		}
		for _, c := range mf.callbacks {
			cbs = append(cbs, "."+c)
		}
		sep := ","
		if i == len(facts)-1 {
			sep = ""
		}
		fmt.Fprintf(&b, "  { name := %s, exported := %v, acquires := %v, accesses := [%s], calls := [%s], callbacks := [%s] }%s\n",
			leanStr(mf.name), mf.exported, mf.acquires, strings.Join(as, ", "), strings.Join(cs, ", "), strings.Join(cbs, ", "), sep)
	}
	b.WriteString("]\n\n")
	fmt.Fprintf(&b, "/-- reload: new_time := stat.ModTime().<this>() -/\ndef mtimeMethod : String := %s\n\n", leanStr(sm.mtimeMethod))
	fmt.Fprintf(&b, "/-- reload: the \"is change?\" test also compares stat.Size() -/\ndef sizeCompared : Bool := %v\n\n", sm.sizeCompared)
	fmt.Fprintf(&b, "/-- reload: the \"is change?\" test as written (\"no change\" when it holds) -/\ndef sameVersionTest : String := %s\n\n", leanStr(sm.cmpText))
	fmt.Fprintf(&b, "/-- GetIntSet: operator of the err test guarding the append (\"==\" keeps the valid integers) -/\ndef intSetErrOp : String := %s\n\n", leanStr(sm.intSetErrOp))
	fmt.Fprintf(&b, "/-- reload: the comparison operators of that test -/\ndef sameVersionOps : List String := [%s]\n\n", joinQuoted(sm.cmpOps))
	fmt.Fprintf(&b, "/-- options.go WithConfigObserver: the field is assigned the caller's registry itself (the parameter), not something derived from it -/\ndef observerStoredDirectly : Bool := %v\n\n", observerDirect(filepath.Join(dir, "options.go")))
	fmt.Fprintf(&b, "/-- config/ConfigObserver.go: lock of the registry held at each call of a target's ApplyConfig -/\ndef observerCallbackHeld : List Held := [%s]\n\n", strings.Join(observerCallbackHeld(filepath.Join(*repo, "config", "ConfigObserver.go")), ", "))
	fmt.Fprintf(&b, "/-- DefaultFileParser.Write: how the error of each call of the store part is bound (assign = to the function's err; define-in-if / define = to a new variable; dropped) -/\ndef storeErrBindings : List (String × String) := [%s]\n\n", strings.Join(storeErrBindings(filepath.Join(dir, "DefaultFileParser.go")), ", "))
	rf := reloadFacts(filepath.Join(dir, "FileConfig.go"))
	fmt.Fprintf(&b, "/-- reload: os.Stat calls; is every assignment of the file stamp (last_file_time from the file) placed before the call of Parser.Read? -/\ndef statCallsInReload : Nat := %d\ndef stampRecordedBeforeRead : Bool := %v\n\n", rf.stats, rf.stampBeforeRead)
	fmt.Fprintf(&b, "/-- replacements of the whole map (`this.m = make(…)`) in methods of FileConfig: (method, lock held, refilled before the lock is released) -/\ndef mapReplacements : List (String × Held × Bool) := [%s]\n\n", strings.Join(rf.replacements, ", "))
	cf := commentFacts(filepath.Join(dir, "DefaultFileParser.go"))
	fmt.Fprintf(&b, "/-- DefaultFileParser.Write, the test that copies a line unchanged: `strings.Index(line, \"=\") == -1 || HasPrefix(text, p) …` with text := strings.TrimLeft(line, cutset): does it have the no-'=' disjunct, the cutset, the prefixes -/\ndef passThroughNoEq : Bool := %v\ndef commentTrimChars : List Char := [%s]\ndef commentPrefixes : List (List Char) := [%s]\n\n",
		cf.noEq, charList(cf.cutset), func() string {
			var ps []string
			for _, p := range cf.prefixes {
				ps = append(ps, "["+charList(p)+"]")
			}
			return strings.Join(ps, ", ")
		}())
	b.WriteString("/-- the table assigned by ApplyDefault -/\ndef defaults : List (String × String) := [\n")
	for i, d := range sm.defaults {
		sep := ","
		if i == len(sm.defaults)-1 {
			sep = ""
		}
		fmt.Fprintf(&b, "  (%s, %s)%s\n", leanStr(d[0]), leanStr(d[1]), sep)
	}
	b.WriteString("]\n\n")
	fmt.Fprintf(&b, "def defaultsComplete : Bool := %v\n\n", sm.defaultsComplete)
	b.WriteString("end Gen.C18\n")
	if *out == "" {
		fmt.Print(b.String())
		return
	}
	if err := os.WriteFile(*out, []byte(b.String()), 0o644); err != nil {
		fmt.Fprintln(os.Stderr, err)
		os.Exit(1)
	}
}

func joinQuoted(xs []string) string {
	ys := make([]string, len(xs))
	for i, x := range xs {
		ys[i] = leanStr(x)
	}
	return strings.Join(ys, ", ")
}

func exprText(e ast.Node) string {
	var b strings.Builder
	ast.Inspect(e, func(n ast.Node) bool {
		switch x := n.(type) {
		case *ast.Ident:
			b.WriteString(x.Name)
		case *ast.BasicLit:
			b.WriteString(x.Value)
		case *ast.CallExpr:
			ast.Inspect(x.Fun, func(m ast.Node) bool {
				switch y := m.(type) {
				case *ast.Ident:
					b.WriteString(y.Name)
				case *ast.SelectorExpr:
					b.WriteString(exprText(y.X) + "." + y.Sel.Name)
					return false
				case *ast.CallExpr:
					b.WriteString(exprText(y))
					return false
				}
				return true
			})
			b.WriteString("(")
			for _, a := range x.Args {
				b.WriteString(exprText(a) + ",")
			}
			b.WriteString(")")
			return false
		case *ast.SelectorExpr:
			b.WriteString(exprText(x.X) + "." + x.Sel.Name)
			return false
		case *ast.BinaryExpr:
			b.WriteString(exprText(x.X) + " " + x.Op.String() + " " + exprText(x.Y))
			return false
		}
		return true
	})
	return b.String()
}

func stmtText(s ast.Node) string { return exprText(s) }

// observerDirect: inside WithConfigObserver(obj …) every assignment to a field named configObserver has
// the bare parameter as its right-hand side (and there is at least one).
func observerDirect(goFile string) bool {
	fset := token.NewFileSet()
	f, err := parser.ParseFile(fset, goFile, nil, 0)
	if err != nil {
		return false
	}
	found, ok := false, true
	for _, d := range f.Decls {
		fd, isFn := d.(*ast.FuncDecl)
		if !isFn || fd.Name.Name != "WithConfigObserver" || fd.Body == nil || len(fd.Type.Params.List) == 0 || len(fd.Type.Params.List[0].Names) == 0 {
			continue
		}
		param := fd.Type.Params.List[0].Names[0].Name
		ast.Inspect(fd.Body, func(n ast.Node) bool {
			as, isAs := n.(*ast.AssignStmt)
			if !isAs || len(as.Lhs) != 1 || len(as.Rhs) != 1 {
				return true
			}
			if sel, isSel := as.Lhs[0].(*ast.SelectorExpr); isSel && sel.Sel.Name == "configObserver" {
				found = true
				if id, isId := as.Rhs[0].(*ast.Ident); !isId || id.Name != param {
					ok = false
				}
			}
			return true
		})
	}
	return found && ok
}

// observerCallbackHeld: for every call `….ApplyConfig(…)` in a method of ConfigObserver, the lock of the
// receiver held at that point (none | r | w).
func observerCallbackHeld(goFile string) []string {
	fset := token.NewFileSet()
	f, err := parser.ParseFile(fset, goFile, nil, 0)
	if err != nil {
		return []string{".w"} // unreadable: must not pass silently
	}
	var out []string
	for _, d := range f.Decls {
		fd, ok := d.(*ast.FuncDecl)
		if !ok || fd.Body == nil {
			continue
		}
		recv, ok := recvOf(fd, "ConfigObserver")
		if !ok {
			continue
		}
		mf := methodFacts{name: fd.Name.Name}
		w := &lockWalker{recv: recv, field: "observer", held: "none", facts: &mf, methods: map[string]bool{}, watchCall: "ApplyConfig"}
		w.stmts(fd.Body.List)
		for _, h := range w.watchHeld {
			out = append(out, "."+h)
		}
	}
	return out
}

// storeErrBindings: for the calls io.WriteString, <file>.Sync, <file>.Close, os.Rename of Write's store part.
func storeErrBindings(goFile string) []string {
	fset := token.NewFileSet()
	f, err := parser.ParseFile(fset, goFile, nil, 0)
	if err != nil {
		return []string{`("unreadable", "dropped")`}
	}
	var out []string
	name := func(c *ast.CallExpr) string {
		n := exprString(c.Fun)
		switch {
		case n == "io.WriteString":
			return "WriteString"
		case n == "os.Rename":
			return "Rename"
		case strings.HasSuffix(n, ".Sync"):
			return "Sync"
		case strings.HasSuffix(n, ".Close"):
			return "Close"
		}
		return ""
	}
	for _, d := range f.Decls {
		fd, ok := d.(*ast.FuncDecl)
		if !ok || fd.Name.Name != "Write" || fd.Recv == nil || fd.Body == nil {
			continue
		}
		seenTemp := false
		var walk func(n ast.Node, inIfInit bool)
		walk = func(n ast.Node, inIfInit bool) {
			ast.Inspect(n, func(m ast.Node) bool {
				switch x := m.(type) {
				case *ast.IfStmt:
					if x.Init != nil {
						walk(x.Init, true)
					}
					walk(x.Cond, false)
					walk(x.Body, false)
					if x.Else != nil {
						walk(x.Else, false)
					}
					return false
				case *ast.AssignStmt:
					for _, r := range x.Rhs {
						if c, ok := r.(*ast.CallExpr); ok {
							if strings.Contains(exprString(c.Fun), "CreateTemp") {
								seenTemp = true
							}
							if nm := name(c); nm != "" && seenTemp {
								kind := "assign"
								if x.Tok == token.DEFINE {
									kind = "define"
									if inIfInit {
										kind = "define-in-if"
									}
								}
								// assigned to a variable called err?
								hasErr := false
								for _, l := range x.Lhs {
									if id, ok := l.(*ast.Ident); ok && id.Name == "err" {
										hasErr = true
									}
								}
								if kind == "assign" && !hasErr {
									kind = "assign-other"
								}
								out = append(out, fmt.Sprintf("(%s, %s)", leanStr(nm), leanStr(kind)))
							}
						}
					}
					return false
				case *ast.ExprStmt:
					if c, ok := x.X.(*ast.CallExpr); ok {
						if nm := name(c); nm != "" && seenTemp {
							out = append(out, fmt.Sprintf("(%s, %s)", leanStr(nm), leanStr("dropped")))
						}
					}
					return false
				case *ast.DeferStmt:
					return false
				}
				return true
			})
		}
		walk(fd.Body, false)
	}
	return out
}

type reloadFactsT struct {
	stats           int
	stampBeforeRead bool
	replacements    []string
}

func reloadFacts(goFile string) reloadFactsT {
	var rf reloadFactsT
	fset := token.NewFileSet()
	f, err := parser.ParseFile(fset, goFile, nil, 0)
	if err != nil {
		return rf
	}
	for _, d := range f.Decls {
		fd, ok := d.(*ast.FuncDecl)
		if !ok || fd.Body == nil {
			continue
		}
		recv, isM := recvOf(fd, "FileConfig")
		if !isM {
			continue
		}
		// whole-map replacements with the lock held and "refilled before the lock is released"
		w := &lockWalker{recv: recv, field: "m", held: "none", facts: &methodFacts{}, methods: map[string]bool{}}
		var scan func(list []ast.Stmt)
		scan = func(list []ast.Stmt) {
			for i, st := range list {
				// nested blocks first (with the lock state at their start)
				switch x := st.(type) {
				case *ast.IfStmt:
					held := w.held
					w.stmt(x.Init)
					scan(x.Body.List)
					w.held = held
					if eb, ok := x.Else.(*ast.BlockStmt); ok {
						scan(eb.List)
					} else if ei, ok := x.Else.(*ast.IfStmt); ok {
						scan([]ast.Stmt{ei})
					}
					w.held = held
					continue
				case *ast.ForStmt:
					scan(x.Body.List)
					continue
				case *ast.RangeStmt:
					scan(x.Body.List)
					continue
				case *ast.BlockStmt:
					scan(x.List)
					continue
				}
				if as, ok := st.(*ast.AssignStmt); ok && len(as.Lhs) == 1 && w.isRecvField(as.Lhs[0], "m") {
					refilled := false
					for _, nx := range list[i+1:] {
						if es, ok := nx.(*ast.ExprStmt); ok {
							if c, ok := es.X.(*ast.CallExpr); ok {
								if m := w.mutexCall(c); m == "Unlock" || m == "RUnlock" {
									break
								}
								if sel, ok := c.Fun.(*ast.SelectorExpr); ok {
									if id, ok := sel.X.(*ast.Ident); ok && id.Name == recv {
										refilled = true // a method of the same object fills the map
									}
								}
							}
						}
						if a2, ok := nx.(*ast.AssignStmt); ok {
							for _, l := range a2.Lhs {
								if ix, ok := l.(*ast.IndexExpr); ok && w.isRecvField(ix.X, "m") {
									refilled = true
								}
							}
						}
						if _, ok := nx.(*ast.RangeStmt); ok {
							refilled = true
						}
					}
					rf.replacements = append(rf.replacements, fmt.Sprintf("(%s, .%s, %v)", leanStr(fd.Name.Name), w.held, refilled))
				}
				w.stmt(st)
			}
		}
		scan(fd.Body.List)
		if fd.Name.Name != "reload" {
			continue
		}
		readPos, lastStamp := token.NoPos, token.NoPos
		ast.Inspect(fd.Body, func(n ast.Node) bool {
			switch x := n.(type) {
			case *ast.CallExpr:
				nm := exprString(x.Fun)
				if nm == "os.Stat" || nm == "os.Lstat" {
					rf.stats++
				}
				if strings.HasSuffix(nm, "Parser.Read") && readPos == token.NoPos {
					readPos = x.Pos()
				}
			case *ast.AssignStmt:
				for i, l := range x.Lhs {
					if sel, ok := l.(*ast.SelectorExpr); ok && (sel.Sel.Name == "last_file_time" || sel.Sel.Name == "last_file_size") {
						// the sentinel assignments (literal 0 / -1) are not stamps of a file
						if i < len(x.Rhs) {
							if _, lit := x.Rhs[i].(*ast.BasicLit); lit {
								continue
							}
							if u, ok := x.Rhs[i].(*ast.UnaryExpr); ok {
								if _, lit := u.X.(*ast.BasicLit); lit {
									continue
								}
							}
						}
						if x.Pos() > lastStamp {
							lastStamp = x.Pos()
						}
					}
				}
			}
			return true
		})
		rf.stampBeforeRead = readPos != token.NoPos && lastStamp != token.NoPos && lastStamp < readPos
	}
	return rf
}

func charList(s string) string {
	var cs []string
	for _, r := range s {
		cs = append(cs, fmt.Sprintf("Char.ofNat %d", r))
	}
	return strings.Join(cs, ", ")
}

type commentFactsT struct {
	noEq     bool
	cutset   string
	prefixes []string
}

// commentFacts: in Write, the `if` whose condition mentions strings.Index(…, "=") == -1 decides which lines
// are copied unchanged; `text` is the line with a cutset trimmed from the left.
func commentFacts(goFile string) commentFactsT {
	var cf commentFactsT
	fset := token.NewFileSet()
	f, err := parser.ParseFile(fset, goFile, nil, 0)
	if err != nil {
		return cf
	}
	for _, d := range f.Decls {
		fd, ok := d.(*ast.FuncDecl)
		if !ok || fd.Name.Name != "Write" || fd.Recv == nil || fd.Body == nil {
			continue
		}
		trimOf := map[string]string{} // variable → cutset of strings.TrimLeft
		ast.Inspect(fd.Body, func(n ast.Node) bool {
			switch x := n.(type) {
			case *ast.AssignStmt:
				if len(x.Lhs) == 1 && len(x.Rhs) == 1 {
					if c, ok := x.Rhs[0].(*ast.CallExpr); ok && exprString(c.Fun) == "strings.TrimLeft" && len(c.Args) == 2 {
						if id, ok := x.Lhs[0].(*ast.Ident); ok {
							if cs, ok := strLit(c.Args[1]); ok {
								trimOf[id.Name] = cs
							}
						}
					}
				}
			case *ast.IfStmt:
				txt := exprText(x.Cond)
				if !strings.Contains(txt, "strings.Index(") {
					return true
				}
				// disjuncts
				var walk func(e ast.Expr)
				walk = func(e ast.Expr) {
					if be, ok := e.(*ast.BinaryExpr); ok && be.Op == token.LOR {
						walk(be.X)
						walk(be.Y)
						return
					}
					if be, ok := e.(*ast.BinaryExpr); ok && be.Op == token.EQL {
						if c, ok := be.X.(*ast.CallExpr); ok && exprString(c.Fun) == "strings.Index" && len(c.Args) == 2 {
							if lit, ok := strLit(c.Args[1]); ok && lit == "=" {
								if u, ok := be.Y.(*ast.UnaryExpr); ok && u.Op == token.SUB && exprText(u.X) == "1" {
									cf.noEq = true
								}
							}
						}
						return
					}
					if c, ok := e.(*ast.CallExpr); ok && exprString(c.Fun) == "strings.HasPrefix" && len(c.Args) == 2 {
						if id, ok := c.Args[0].(*ast.Ident); ok {
							if lit, ok := strLit(c.Args[1]); ok {
								cf.prefixes = append(cf.prefixes, lit)
								if cs, ok := trimOf[id.Name]; ok {
									cf.cutset = cs
								}
							}
						}
						return
					}
					cf.prefixes = append(cf.prefixes, "?"+exprText(e)) // an unknown disjunct must not pass silently
				}
				walk(x.Cond)
			}
			return true
		})
	}
	return cf
}
