module verif/xlate/c18

go 1.23
