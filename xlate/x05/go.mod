module verif/xlate/x05

go 1.23
