module verif/xlate/c03

go 1.23
