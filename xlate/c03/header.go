package main

// AbstractPack.Write / AbstractPack.Read statement by statement, as Lean data with a semantics
// (Golib.Layout.HeaderProg: WS / RS).  Every statement shape that is not one of the few known ones
// becomes `.unknown "<source text>"`: the program then writes nothing / fails, and the obligations
// `header_writer_interpreted` / `header_reader_interpreted` of Props/C03Gen fail.

import (
	"fmt"
	"go/ast"
	"go/token"
	"strconv"
)

// thisField: `this.F` (receiver name recv) -> F
func thisField(e ast.Expr, recv string) (string, bool) {
	sel, ok := e.(*ast.SelectorExpr)
	if !ok {
		return "", false
	}
	id, ok := sel.X.(*ast.Ident)
	if !ok || id.Name != recv {
		return "", false
	}
	return sel.Sel.Name, true
}

func unparen(e ast.Expr) ast.Expr {
	for {
		p, ok := e.(*ast.ParenExpr)
		if !ok {
			return e
		}
		e = p.X
	}
}

// streamCall: `<stream>.<Method>(args)` -> method, args
func streamCall(e ast.Expr, stream string) (string, []ast.Expr, bool) {
	call, ok := e.(*ast.CallExpr)
	if !ok {
		return "", nil, false
	}
	sel, ok := call.Fun.(*ast.SelectorExpr)
	if !ok {
		return "", nil, false
	}
	id, ok := sel.X.(*ast.Ident)
	if !ok || id.Name != stream {
		return "", nil, false
	}
	return sel.Sel.Name, call.Args, true
}

func recvAndStream(fd *ast.FuncDecl) (string, string, bool) {
	if fd.Recv == nil || len(fd.Recv.List) != 1 || len(fd.Recv.List[0].Names) != 1 {
		return "", "", false
	}
	if len(fd.Type.Params.List) != 1 || len(fd.Type.Params.List[0].Names) != 1 {
		return "", "", false
	}
	return fd.Recv.List[0].Names[0].Name, fd.Type.Params.List[0].Names[0].Name, true
}

func wsUnknown(n ast.Node) string { return "(.unknown " + q(exprStr(n)) + ")" }

// headerWS transcribes a statement list of the header writer; k is the continuation already rendered.
func headerWS(stmts []ast.Stmt, recv, stream, k string) string {
	if len(stmts) == 0 {
		return k
	}
	rest := func() string { return headerWS(stmts[1:], recv, stream, k) }
	switch s := stmts[0].(type) {
	case *ast.ExprStmt:
		m, args, ok := streamCall(s.X, stream)
		if !ok || len(args) != 1 {
			return wsUnknown(s)
		}
		switch m {
		case "WriteDecimal", "WriteInt", "WriteLong":
			f, ok := thisField(args[0], recv)
			if !ok {
				return wsUnknown(s)
			}
			c := map[string]string{"WriteDecimal": "dec", "WriteInt": "int", "WriteLong": "long"}[m]
			return fmt.Sprintf("(.%s %s %s)", c, q(f), rest())
		case "WriteByte":
			lit, ok := args[0].(*ast.BasicLit)
			if !ok || lit.Kind != token.INT {
				return wsUnknown(s)
			}
			n, err := strconv.ParseUint(lit.Value, 0, 8)
			if err != nil {
				return wsUnknown(s)
			}
			return fmt.Sprintf("(.byte %d %s)", n, rest())
		}
		return wsUnknown(s)
	case *ast.IfStmt:
		// if (this.A | this.B) == 0 { … } else { … }
		if s.Init != nil {
			return wsUnknown(s)
		}
		cmp, ok := unparen(s.Cond).(*ast.BinaryExpr)
		if !ok || cmp.Op != token.EQL {
			return wsUnknown(s)
		}
		if lit, ok := cmp.Y.(*ast.BasicLit); !ok || lit.Value != "0" {
			return wsUnknown(s)
		}
		or, ok := unparen(cmp.X).(*ast.BinaryExpr)
		if !ok || or.Op != token.OR {
			return wsUnknown(s)
		}
		a, ok1 := thisField(or.X, recv)
		b, ok2 := thisField(or.Y, recv)
		if !ok1 || !ok2 {
			return wsUnknown(s)
		}
		els := ".done"
		if s.Else != nil {
			eb, ok := s.Else.(*ast.BlockStmt)
			if !ok {
				return wsUnknown(s)
			}
			els = headerWS(eb.List, recv, stream, ".done")
		}
		return fmt.Sprintf("(.ifOrZero %s %s %s %s %s)", q(a), q(b), headerWS(s.Body.List, recv, stream, ".done"), els, rest())
	}
	return wsUnknown(stmts[0])
}

// headerRS transcribes a statement list of the header reader.
func headerRS(stmts []ast.Stmt, recv, stream string) string {
	if len(stmts) == 0 {
		return ".done"
	}
	rest := func() string { return headerRS(stmts[1:], recv, stream) }
	unknown := func() string { return "(.unknown " + q(exprStr(stmts[0])) + ")" }
	switch s := stmts[0].(type) {
	case *ast.ReturnStmt:
		if len(s.Results) == 0 {
			return ".done" // whatever follows in this block is unreachable
		}
		return unknown()
	case *ast.AssignStmt:
		if len(s.Lhs) != 1 || len(s.Rhs) != 1 {
			return unknown()
		}
		m, args, ok := streamCall(s.Rhs[0], stream)
		if !ok {
			return unknown()
		}
		if id, ok := s.Lhs[0].(*ast.Ident); ok && s.Tok == token.DEFINE {
			if m == "ReadByte" && len(args) == 0 {
				return fmt.Sprintf("(.byteVar %s %s)", q(id.Name), rest())
			}
			return unknown()
		}
		f, ok := thisField(s.Lhs[0], recv)
		if !ok || s.Tok != token.ASSIGN {
			return unknown()
		}
		switch {
		case m == "ReadDecimal" && len(args) == 0:
			return fmt.Sprintf("(.dec %s %s)", q(f), rest())
		case m == "ReadInt" && len(args) == 0:
			return fmt.Sprintf("(.int %s %s)", q(f), rest())
		case m == "ReadLong" && len(args) == 0:
			return fmt.Sprintf("(.long %s %s)", q(f), rest())
		case m == "ReadDecimalLen" && len(args) == 1:
			// din.ReadDecimalLen(int(v))
			a := args[0]
			if conv, ok := a.(*ast.CallExpr); ok && len(conv.Args) == 1 {
				if fn, ok := conv.Fun.(*ast.Ident); ok && fn.Name == "int" {
					a = conv.Args[0]
				}
			}
			v, ok := a.(*ast.Ident)
			if !ok {
				return unknown()
			}
			return fmt.Sprintf("(.decLen %s %s %s)", q(f), q(v.Name), rest())
		}
		return unknown()
	case *ast.IfStmt:
		// if v <= N { …; return }   followed by the other form
		if s.Init != nil || s.Else != nil || !endsWithReturn(s.Body) {
			return unknown()
		}
		cmp, ok := unparen(s.Cond).(*ast.BinaryExpr)
		if !ok || cmp.Op != token.LEQ {
			return unknown()
		}
		v, ok := cmp.X.(*ast.Ident)
		lit, ok2 := cmp.Y.(*ast.BasicLit)
		if !ok || !ok2 || lit.Kind != token.INT {
			return unknown()
		}
		n, err := strconv.ParseUint(lit.Value, 0, 16)
		if err != nil {
			return unknown()
		}
		return fmt.Sprintf("(.ifLe %s %d %s %s)", q(v.Name), n, headerRS(s.Body.List, recv, stream), rest())
	}
	return unknown()
}

// headerProgs renders the two definitions (inside namespace Gen.Packs).
func headerProgs(w, r *ast.FuncDecl) string {
	ws, rs := "(.unknown \"AbstractPack.Write not found\")", "(.unknown \"AbstractPack.Read not found\")"
	if w != nil && w.Body != nil {
		if recv, stream, ok := recvAndStream(w); ok {
			ws = headerWS(w.Body.List, recv, stream, ".done")
		} else {
			ws = "(.unknown \"AbstractPack.Write: unexpected signature\")"
		}
	}
	if r != nil && r.Body != nil {
		if recv, stream, ok := recvAndStream(r); ok {
			rs = headerRS(r.Body.List, recv, stream)
		} else {
			rs = "(.unknown \"AbstractPack.Read: unexpected signature\")"
		}
	}
	return "/-! AbstractPack.Write / AbstractPack.Read statement by statement (meaning: Golib.Layout.HeaderProg) -/\n" +
		"def AbstractPack.wProg : WS :=\n  " + ws + "\n" +
		"def AbstractPack.rProg : RS :=\n  " + rs + "\n\n"
}
