// xlate/c03 — tie A for property C03.
//
// Transcribes, from the Go source of lang/pack (go/parser + go/ast only, no judgement):
//
//   - for every type with a Write(*io.DataOutputX) / Read(*io.DataInputX) pair, and for the
//     record codec function pairs (WriteTransactionRec/ReadTransactionRec, WriteRec/ReadRec), the two
//     bodies SEPARATELY into the layout IR of Golib.Layout.IR  (T.w, T.r);
//     a shape it does not know becomes `.unknown "why"` — it never guesses;
//   - the CreatePack switch (type code → constructor's type) and every GetPackType constant;
//   - a statement skeleton (every statement that touches a stream or a field of the receiver, as
//     normalised source text) of every Write/Read-like function, for the hand-modelled irregular packs.
//
// Output: Lean data (Golib/Gen/PackLayouts.lean).  The obligations over it are in
// Golib/Props/C03Gen.lean.
package main

import (
	"bytes"
	"flag"
	"fmt"
	"go/ast"
	"go/parser"
	"go/printer"
	"go/token"
	"os"
	"path/filepath"
	"sort"
	"strconv"
	"strings"
)

// ---------------------------------------------------------------- IR

type Cond struct {
	Op  string // le lt ge gt eq ne
	Var string
	N   string
}

type Item struct {
	Kind string // fld lit skip var ite guard opt rep wrap hdr ref
	Name string
	Prim string
	Rng  string
	Val  string
	Cond *Cond
	A, B []*Item // ite: then/else; opt/rep/wrap: body in A
	Ref  string  // ref: Lean name of another layout
}

type unknownErr struct{ why string }

func (u unknownErr) Error() string { return u.why }

func unk(f string, a ...interface{}) error { return unknownErr{fmt.Sprintf(f, a...)} }

func q(s string) string { return strconv.Quote(s) }

func emit(items []*Item) string {
	if len(items) == 0 {
		return ".nil"
	}
	it, rest := items[0], items[1:]
	switch it.Kind {
	case "fld":
		return fmt.Sprintf("(.fld %s .%s .%s %s)", q(it.Name), it.Prim, it.Rng, emit(rest))
	case "lit":
		return fmt.Sprintf("(.lit .%s (%s) %s)", it.Prim, it.Val, emit(rest))
	case "skip":
		return fmt.Sprintf("(.skip .%s %s)", it.Prim, emit(rest))
	case "var":
		return fmt.Sprintf("(.var %s .%s %s)", q(it.Name), it.Prim, emit(rest))
	case "ite":
		return fmt.Sprintf("(.ite %s %s %s %s)", emitCond(it.Cond), emit(it.A), emit(it.B), emit(rest))
	case "guard":
		return fmt.Sprintf("(.guard %s %s)", emitCond(it.Cond), emit(rest))
	case "opt":
		return fmt.Sprintf("(.opt %s %s %s)", q(it.Name), emit(it.A), emit(rest))
	case "rep":
		return fmt.Sprintf("(.rep .%s %s %s %s)", it.Prim, q(it.Name), emit(it.A), emit(rest))
	case "times":
		return fmt.Sprintf("(.times %s %s %s %s)", it.Val, q(it.Name), emit(it.A), emit(rest))
	case "sub":
		return fmt.Sprintf("(.sub %s %s %s)", q(it.Name), emit(it.A), emit(rest))
	case "key":
		return fmt.Sprintf("(.key %s .%s %s %s)", q(it.Name), it.Prim, q(it.Val), emit(rest))
	case "avail":
		return fmt.Sprintf("(.avail %s)", emit(it.A))
	case "gap":
		return fmt.Sprintf("(g%s %s)", it.Val, emit(rest))
	case "mopt":
		return fmt.Sprintf("(.mopt %s %s %s %s)", it.Val, q(it.Name), emit(it.A), emit(rest))
	case "wrap":
		return fmt.Sprintf("(.wrap %s %s)", emit(it.A), emit(rest))
	case "hdr":
		return fmt.Sprintf("(.hdr %s)", emit(rest))
	case "ref":
		if len(rest) == 0 {
			return it.Ref
		}
		return fmt.Sprintf("(L.append %s %s)", it.Ref, emit(rest))
	}
	return fmt.Sprintf("(.unknown %s)", q("emit: "+it.Kind))
}

func emitCond(c *Cond) string {
	return fmt.Sprintf("⟨.%s, %s, %s⟩", c.Op, q(c.Var), c.N)
}

func refsOf(items []*Item, acc map[string]bool) {
	for _, it := range items {
		if it.Kind == "ref" {
			acc[it.Ref] = true
		}
		refsOf(it.A, acc)
		refsOf(it.B, acc)
	}
}

// ---------------------------------------------------------------- source tables

var fset = token.NewFileSet()

type structInfo struct {
	fields map[string]ast.Expr // field name -> type
	order  []string
	embeds []string
}

var structs = map[string]*structInfo{}
var consts = map[string]int64{}

type fnInfo struct {
	decl *ast.FuncDecl
	recv string // receiver type name ("" for plain functions)
	name string
}

var funcs []*fnInfo

func exprStr(e ast.Node) string {
	var b bytes.Buffer
	printer.Fprint(&b, fset, e)
	return strings.Join(strings.Fields(b.String()), " ")
}

func typeName(e ast.Expr) string { // *T, T, pkg.T -> "T" / "pkg.T"
	switch t := e.(type) {
	case *ast.StarExpr:
		return typeName(t.X)
	case *ast.Ident:
		return t.Name
	case *ast.SelectorExpr:
		return exprStr(t)
	case *ast.ArrayType:
		return "[]" + typeName(t.Elt)
	}
	return exprStr(e)
}

func rngOfType(t string) string {
	switch t {
	case "int32":
		return "i32"
	case "int64", "int":
		return "i64"
	case "int16":
		return "i16"
	case "int8":
		return "i8"
	case "byte", "uint8":
		return "u8"
	case "bool":
		return "bool"
	}
	return "any"
}

var wprim = map[string]string{"WriteBool": "bool", "WriteByte": "u8", "WriteShort": "i16", "WriteInt3": "i24",
	"WriteInt": "i32", "WriteLong": "i64", "WriteFloat": "f32", "WriteDouble": "f64", "WriteDecimal": "dec",
	"WriteBlob": "blob", "WriteText": "blob", "WriteShortArray": "aI16", "WriteIntArray": "aI32",
	"WriteLongArray": "aI64", "WriteFloatArray": "aF32", "WriteDoubleArray": "aF64", "WriteTextArray": "aText"}
var rprim = map[string]string{"ReadBool": "bool", "ReadByte": "u8", "ReadShort": "i16", "ReadInt3": "i24",
	"ReadInt": "i32", "ReadLong": "i64", "ReadFloat": "f32", "ReadDouble": "f64", "ReadDecimal": "dec",
	"ReadBlob": "blob", "ReadText": "blob", "ReadShortArray": "aI16", "ReadIntArray": "aI32",
	"ReadLongArray": "aI64", "ReadFloatArray": "aF32", "ReadDoubleArray": "aF64", "ReadTextArray": "aText"}

// natural Go range of what a primitive carries
func natRng(p string) string {
	switch p {
	case "bool":
		return "bool"
	case "u8":
		return "u8"
	case "i16":
		return "i16"
	case "i24", "i32":
		return "i32"
	case "i64", "dec":
		return "i64"
	}
	return "any"
}

var convNames = map[string]bool{"int": true, "int8": true, "int16": true, "int32": true, "int64": true,
	"byte": true, "uint8": true, "uint16": true, "uint32": true, "uint64": true, "uint": true,
	"float32": true, "float64": true, "string": true}

var convWidth = map[string]int{"int8": 1, "byte": 1, "uint8": 1, "int16": 2, "uint16": 2, "int32": 4, "uint32": 4,
	"int": 8, "int64": 8, "uint": 8, "uint64": 8}

// stripConv peels T(x) conversions; returns the inner expression and the NARROWEST integer
// conversion of the chain (int32(int16(x)) carries 16 bits), else the outermost conversion
func stripConv(e ast.Expr) (ast.Expr, string) {
	outer, narrow := "", ""
	for {
		switch t := e.(type) {
		case *ast.ParenExpr:
			e = t.X
			continue
		case *ast.CallExpr:
			if id, ok := t.Fun.(*ast.Ident); ok && convNames[id.Name] && len(t.Args) == 1 {
				if outer == "" {
					outer = id.Name
				}
				if w, ok := convWidth[id.Name]; ok && (narrow == "" || w < convWidth[narrow]) {
					narrow = id.Name
				}
				e = t.Args[0]
				continue
			}
		}
		if narrow != "" {
			return e, narrow
		}
		return e, outer
	}
}

// ---------------------------------------------------------------- function context

type ctx struct {
	owner      string            // struct type the subject denotes
	subj       map[string]string // identifiers denoting an object: name -> struct type (receiver, record param, m := NewX())
	streams    map[string]*[]*Item
	params     map[string]bool   // other parameters (version)
	counts     map[string]string // local -> table it counts   (cnt := len(this.F))
	enums      map[string]string // en -> table
	ents       map[string]string // e (entry var) -> table
	elems      map[string]string // r -> table (r := this.F[i]; for _, r := range this.F)
	elemType   map[string]string // table -> element struct type
	pending    *pendingCount     // a count has been written/read; the loop must follow
	roles      map[string]string // reader locals: "fld:<name>" | "count" | "var" | "key" | "val"
	locPrim    map[string]string // reader local -> prim it was read with
	reader     bool
	wraps      []wrapFix         // reader sub-streams, filled in at the end
	loopTable  string            // reader: table the current loop fills (this.F[i].Read / this.F.Put)
	loopElem   string            // reader: struct type of the current loop's elements
	madeTable  string            // reader: this.F = make(...) seen just before the loop
	subStream  string            // stream used by the sub-blocks of the item being built
	inTimes    int               // inside a constant-bound loop: this.F[i] denotes cell i of F
	depth      int               // nesting of wBlock/rBlock: 1 = the function's own statements
	failAt     int               // index (in the slice given to the depth-1 block) of the statement that failed
	snap       snapshot          // state before the current depth-1 statement
	lastStream string            // stream of the item added last
	gaps       []string          // statements that could not be transcribed (lenient mode): they become parameters
	lparams    map[string]bool   // writer: interface types that became layout parameters
	keyFields  map[string]bool   // reader: fields the body switches on
	dynType    map[string]string // reader: this.F = &T{}
	dynElem    map[string]string // reader: this.F[i] = &T{}
}

type pendingCount struct {
	prim  string
	table string // writer: table name; reader: "" until the loop names it
	local string // reader: the local holding the count
}

func (c *ctx) fieldType(owner, f string) ast.Expr {
	if i := strings.IndexByte(f, '.'); i >= 0 { // "A.B": field B of the struct that A is / points to
		t := c.fieldType(owner, f[:i])
		if t == nil {
			return nil
		}
		return c.fieldType(typeName(t), f[i+1:])
	}
	si := structs[owner]
	if si == nil {
		return nil
	}
	if t, ok := si.fields[f]; ok {
		return t
	}
	for _, e := range si.embeds {
		if t := c.fieldType(e, f); t != nil {
			return t
		}
	}
	return nil
}

// fieldOf: this.F / m.F / r.F (element alias) / *this.F  ->  (field name, owner struct)
func (c *ctx) fieldOf(e ast.Expr) (string, string, bool) {
	if p, ok := e.(*ast.ParenExpr); ok {
		return c.fieldOf(p.X)
	}
	if s, ok := e.(*ast.StarExpr); ok {
		return c.fieldOf(s.X)
	}
	sel, ok := e.(*ast.SelectorExpr)
	if !ok {
		return "", "", false
	}
	if inner, isSel := sel.X.(*ast.SelectorExpr); isSel {
		// this.A.B : a field of the struct the field A points to — path "A.B"
		if f, owner, ok := c.fieldOf(inner); ok {
			if t := c.fieldType(owner, f); t != nil && structs[typeName(t)] != nil {
				return f + "." + sel.Sel.Name, owner, true
			}
		}
		return "", "", false
	}
	id, ok := sel.X.(*ast.Ident)
	if !ok {
		return "", "", false
	}
	if ty, ok := c.subj[id.Name]; ok {
		return sel.Sel.Name, ty, true
	}
	if tab, ok := c.elems[id.Name]; ok {
		return sel.Sel.Name, c.elemType[tab], true
	}
	return "", "", false
}

func (c *ctx) streamOf(e ast.Expr) (string, bool) {
	id, ok := e.(*ast.Ident)
	if !ok {
		return "", false
	}
	_, ok = c.streams[id.Name]
	return id.Name, ok
}

// tableOf: len(this.F) / this.F.Size() / cnt (counts)  -> table name
func (c *ctx) tableOf(e ast.Expr) (string, bool) {
	e, _ = stripConv(e)
	switch t := e.(type) {
	case *ast.Ident:
		tab, ok := c.counts[t.Name]
		return tab, ok
	case *ast.CallExpr:
		if id, ok := t.Fun.(*ast.Ident); ok && id.Name == "len" && len(t.Args) == 1 {
			if f, _, ok := c.fieldOf(t.Args[0]); ok {
				return f, true
			}
		}
		if sel, ok := t.Fun.(*ast.SelectorExpr); ok && sel.Sel.Name == "Size" && len(t.Args) == 0 {
			if f, _, ok := c.fieldOf(sel.X); ok {
				return f, true
			}
		}
	}
	return "", false
}

func intLit(e ast.Expr) (string, bool) {
	switch t := e.(type) {
	case *ast.BasicLit:
		if t.Kind == token.INT {
			v, err := strconv.ParseInt(t.Value, 0, 64)
			if err == nil {
				return strconv.FormatInt(v, 10), true
			}
		}
	case *ast.UnaryExpr:
		if t.Op == token.SUB {
			if s, ok := intLit(t.X); ok {
				return "-" + s, true
			}
		}
	case *ast.Ident:
		if v, ok := consts[t.Name]; ok {
			return strconv.FormatInt(v, 10), true
		}
	case *ast.ParenExpr:
		return intLit(t.X)
	}
	return "", false
}

func isValuePkgCall(call *ast.CallExpr, names ...string) bool {
	sel, ok := call.Fun.(*ast.SelectorExpr)
	if !ok {
		return false
	}
	id, ok := sel.X.(*ast.Ident)
	if !ok || (id.Name != "value" && id.Name != "val") {
		return false
	}
	for _, n := range names {
		if sel.Sel.Name == n {
			return true
		}
	}
	return false
}

func elemTypeOf(t ast.Expr) string { // []T -> T ; *hmap.X -> hmap.X
	if a, ok := t.(*ast.ArrayType); ok {
		return typeName(a.Elt)
	}
	return typeName(t)
}

// ---------------------------------------------------------------- conditions

var relOps = map[token.Token]string{token.LEQ: "le", token.LSS: "lt", token.GEQ: "ge", token.GTR: "gt", token.EQL: "eq", token.NEQ: "ne"}

// condOver: `<local or param> op <int>`; the local may be wrapped in conversions
func (c *ctx) condOver(e ast.Expr) (*Cond, bool) {
	b, ok := e.(*ast.BinaryExpr)
	if !ok {
		return nil, false
	}
	op, ok := relOps[b.Op]
	if !ok {
		return nil, false
	}
	x, _ := stripConv(b.X)
	id, ok := x.(*ast.Ident)
	if !ok {
		return nil, false
	}
	n, ok := intLit(b.Y)
	if !ok {
		return nil, false
	}
	if c.params[id.Name] || c.roles[id.Name] == "var" || c.roles[id.Name] == "count" {
		return &Cond{op, id.Name, n}, true
	}
	return nil, false
}

func endsWithReturn(b *ast.BlockStmt) bool {
	if len(b.List) == 0 {
		return false
	}
	_, ok := b.List[len(b.List)-1].(*ast.ReturnStmt)
	return ok
}

func isPanicBlock(b *ast.BlockStmt) bool {
	if len(b.List) == 0 {
		return false
	}
	es, ok := b.List[0].(*ast.ExprStmt)
	if !ok {
		return false
	}
	call, ok := es.X.(*ast.CallExpr)
	if !ok {
		return false
	}
	id, ok := call.Fun.(*ast.Ident)
	return ok && id.Name == "panic"
}

// ---------------------------------------------------------------- writer

func (c *ctx) wBlock(stmts []ast.Stmt, cur string) error {
	c.depth++
	defer func() { c.depth-- }()
	for k := range stmts {
		if c.depth == 1 {
			c.takeSnap()
		}
		done, err := c.wStmt(k, stmts, cur)
		if err != nil {
			if c.depth == 1 {
				c.restoreSnap()
				c.failAt = k
			}
			return err
		}
		if done {
			return nil
		}
	}
	return nil
}

func (c *ctx) wStmt(k int, stmts []ast.Stmt, cur string) (bool, error) {
	st := stmts[k]
	switch s := st.(type) {
	case *ast.ExprStmt:
		call, ok := s.X.(*ast.CallExpr)
		if !ok {
			return false, unk("writer: expression statement %s", exprStr(s))
		}
		if err := c.wCall(call, cur); err != nil {
			return false, err
		}
	case *ast.AssignStmt:
		if err := c.wAssign(s); err != nil {
			return false, err
		}
	case *ast.IncDecStmt:
		if _, ok := s.X.(*ast.Ident); !ok {
			return false, unk("writer: %s", exprStr(s))
		}
	case *ast.ReturnStmt:
		return true, nil
	case *ast.ForStmt:
		if err := c.wFor(s.Cond, s.Body, cur); err != nil {
			return false, err
		}
	case *ast.RangeStmt:
		tab, owner, ok := c.fieldOf(s.X)
		if !ok {
			return false, unk("writer: range over %s", exprStr(s.X))
		}
		if v, ok := s.Value.(*ast.Ident); ok {
			c.elems[v.Name] = tab
			c.elemType[tab] = elemTypeOf(c.fieldType(owner, tab))
		}
		if err := c.wLoop(tab, s.Body, cur); err != nil {
			return false, err
		}
	case *ast.IfStmt:
		done, err := c.wIf(s, stmts[k+1:], cur)
		if err != nil {
			return false, err
		}
		if done {
			return true, nil
		}
	case *ast.DeclStmt, *ast.EmptyStmt:
	default:
		return false, unk("writer: statement %T", st)
	}
	return false, nil
}

func (c *ctx) add(cur string, it *Item) {
	l := c.streams[cur]
	*l = append(*l, it)
	c.lastStream = cur
}

type snapshot struct {
	lens      map[string]int
	pending   *pendingCount
	subStream string
	nwraps    int
}

func (c *ctx) takeSnap() {
	sn := snapshot{lens: map[string]int{}, pending: c.pending, subStream: c.subStream, nwraps: len(c.wraps)}
	for n, l := range c.streams {
		sn.lens[n] = len(*l)
	}
	c.snap = sn
}

func (c *ctx) restoreSnap() {
	for n, l := range c.streams {
		if k, ok := c.snap.lens[n]; ok {
			*l = (*l)[:k]
		} else {
			delete(c.streams, n)
		}
	}
	c.pending, c.subStream = c.snap.pending, c.snap.subStream
	c.wraps = c.wraps[:c.snap.nwraps]
	c.inTimes = 0
}

// top runs the function's statements; a statement whose shape is not known becomes a gap: a parameter of
// the layout (a continuation transformer), filled in by hand in Golib/Packs and pinned by its text
func (c *ctx) top(stmts []ast.Stmt, cur string, reader bool) error {
	pos := 0
	for pos < len(stmts) {
		c.failAt = -1
		var err error
		if reader {
			err = c.rBlock(stmts[pos:], cur)
		} else {
			err = c.wBlock(stmts[pos:], cur)
		}
		if err == nil {
			return nil
		}
		if _, isUnk := err.(unknownErr); !isUnk || c.failAt < 0 {
			return err
		}
		st := stmts[pos+c.failAt]
		target := ""
		ast.Inspect(st, func(n ast.Node) bool {
			if id, ok := n.(*ast.Ident); ok && target == "" {
				if _, ok := c.streams[id.Name]; ok {
					target = id.Name
				}
			}
			return true
		})
		if target == "" {
			target = c.lastStream
		}
		if target == "" {
			target = cur
		}
		text := exprStr(st)
		if c.pending != nil {
			// a count was written/read just before and this statement was to be its loop: both are the gap
			text = fmt.Sprintf("count(%s %s%s); %s", c.pending.prim, c.pending.table, c.pending.local, text)
			c.pending = nil
		}
		l := c.streams[target]
		if n := len(*l); n > 0 && (*l)[n-1].Kind == "gap" && (*l)[n-1].Val == strconv.Itoa(len(c.gaps)-1) {
			c.gaps[len(c.gaps)-1] += " ; " + text // consecutive statements: one gap
		} else {
			c.add(target, &Item{Kind: "gap", Val: strconv.Itoa(len(c.gaps))})
			c.gaps = append(c.gaps, text)
		}
		pos += c.failAt + 1
	}
	return nil
}

func (c *ctx) wAssign(s *ast.AssignStmt) error {
	if len(s.Lhs) != 1 || len(s.Rhs) != 1 {
		return unk("writer: assignment %s", exprStr(s))
	}
	id, ok := s.Lhs[0].(*ast.Ident)
	if !ok {
		return unk("writer: assignment to %s", exprStr(s.Lhs[0]))
	}
	rhs := s.Rhs[0]
	if call, ok := rhs.(*ast.CallExpr); ok {
		if exprStr(call.Fun) == "io.NewDataOutputX" {
			l := []*Item{}
			c.streams[id.Name] = &l
			return nil
		}
		if sel, ok := call.Fun.(*ast.SelectorExpr); ok && (sel.Sel.Name == "Entries" || sel.Sel.Name == "Keys") {
			if f, _, ok := c.fieldOf(sel.X); ok {
				c.enums[id.Name] = f
				return nil
			}
		}
	}
	if tab, ok := c.tableOf(rhs); ok {
		c.counts[id.Name] = tab
		return nil
	}
	// r := this.F[i]
	if ix, ok := rhs.(*ast.IndexExpr); ok {
		if f, owner, ok := c.fieldOf(ix.X); ok {
			c.elems[id.Name] = f
			c.elemType[f] = elemTypeOf(c.fieldType(owner, f))
			return nil
		}
	}
	// e := en.NextElement().(*hmap.T)
	if ta, ok := rhs.(*ast.TypeAssertExpr); ok {
		if call, ok := ta.X.(*ast.CallExpr); ok {
			if sel, ok := call.Fun.(*ast.SelectorExpr); ok && sel.Sel.Name == "NextElement" {
				if en, ok := sel.X.(*ast.Ident); ok {
					if tab, ok := c.enums[en.Name]; ok {
						c.ents[id.Name] = tab
						return nil
					}
				}
			}
		}
	}
	if _, ok := intLit(rhs); ok { // index := 0
		return nil
	}
	return unk("writer: assignment %s", exprStr(s))
}

// classify the argument of out.WriteP(arg)
func (c *ctx) wArg(prim string, arg ast.Expr, cur string) error {
	if v, ok := intLit(arg); ok {
		if _, isConst := arg.(*ast.Ident); !isConst {
			c.add(cur, &Item{Kind: "lit", Prim: prim, Val: v})
			return nil
		}
	}
	if bl, ok := arg.(*ast.BasicLit); ok && bl.Kind == token.STRING && bl.Value == `""` {
		return unk("writer: constant empty text")
	}
	if tab, ok := c.tableOf(arg); ok {
		if c.pending != nil {
			return unk("writer: count of %s written while the count of %s is pending", tab, c.pending.table)
		}
		c.pending = &pendingCount{prim: prim, table: tab}
		return nil
	}
	inner, _ := stripConv(arg)
	if f, owner, ok := c.fieldOf(inner); ok {
		t := c.fieldType(owner, f)
		if t == nil {
			return unk("writer: unknown field %s.%s", owner, f)
		}
		rng := rngOfType(typeName(t))
		if natRng(prim) == "any" {
			rng = "any"
		}
		c.add(cur, &Item{Kind: "fld", Name: f, Prim: prim, Rng: rng})
		return nil
	}
	if id, ok := inner.(*ast.Ident); ok && c.params[id.Name] {
		c.add(cur, &Item{Kind: "var", Name: id.Name, Prim: prim})
		return nil
	}
	// this.F[i] inside a constant-bound loop: cell i of the array F
	if ix, ok := inner.(*ast.IndexExpr); ok && c.inTimes > 0 {
		if f, owner, ok := c.fieldOf(ix.X); ok {
			et := elemTypeOf(c.fieldType(owner, f))
			_, conv := stripConv(arg)
			p := prim
			rng := rngOfType(et)
			// WriteShort(int16(x)) of a wider cell: the low 16 bits travel
			if prim == "i16" && conv == "int16" && convWidth[et] > 2 {
				p, rng = "u16", "any"
			}
			c.add(cur, &Item{Kind: "fld", Name: f, Prim: p, Rng: rng})
			return nil
		}
	}
	// ent.GetValue().(*T).F : a field of the entry's value
	if fs, ok := inner.(*ast.SelectorExpr); ok {
		if ta, ok := fs.X.(*ast.TypeAssertExpr); ok {
			if gc, ok := ta.X.(*ast.CallExpr); ok {
				if gs, ok := gc.Fun.(*ast.SelectorExpr); ok && gs.Sel.Name == "GetValue" {
					if id, ok := gs.X.(*ast.Ident); ok {
						if _, ok := c.ents[id.Name]; ok {
							if t := c.fieldType(typeName(ta.Type), fs.Sel.Name); t != nil {
								rng := rngOfType(typeName(t))
								if natRng(prim) == "any" {
									rng = "any"
								}
								c.add(cur, &Item{Kind: "fld", Name: fs.Sel.Name, Prim: prim, Rng: rng})
								return nil
							}
						}
					}
				}
			}
		}
	}
	// e.GetKey() / e.GetValue()
	if call, ok := inner.(*ast.CallExpr); ok {
		if sel, ok := call.Fun.(*ast.SelectorExpr); ok {
			if id, ok := sel.X.(*ast.Ident); ok {
				if _, ok := c.ents[id.Name]; ok {
					switch sel.Sel.Name {
					case "GetKey":
						c.add(cur, &Item{Kind: "fld", Name: "key", Prim: prim, Rng: natRng(prim)})
						return nil
					case "GetValue":
						c.add(cur, &Item{Kind: "fld", Name: "val", Prim: prim, Rng: natRng(prim)})
						return nil
					}
				}
			}
		}
	}
	return unk("writer: argument %s", exprStr(arg))
}

func (c *ctx) wCall(call *ast.CallExpr, cur string) error {
	// value.WriteValue(out, this.F) / value.WriteMapValue(out, this.F)
	if isValuePkgCall(call, "WriteValue", "WriteMapValue") && len(call.Args) == 2 {
		st, ok := c.streamOf(call.Args[0])
		if !ok {
			return unk("writer: %s", exprStr(call))
		}
		f, owner, ok := c.fieldOf(call.Args[1])
		if !ok {
			return unk("writer: %s", exprStr(call))
		}
		prim := "value"
		switch typeName(c.fieldType(owner, f)) { // the static type of the field fixes the tag
		case "value.MapValue":
			prim = "mapV"
		case "value.IntMapValue":
			prim = "imapV"
		}
		c.add(st, &Item{Kind: "fld", Name: f, Prim: prim, Rng: "any"})
		return nil
	}
	sel, ok := call.Fun.(*ast.SelectorExpr)
	if !ok {
		return unk("writer: call %s", exprStr(call))
	}
	// out.WriteP(arg)
	if st, ok := c.streamOf(sel.X); ok {
		if c.pending != nil {
			return unk("writer: the count of %s is not followed by its loop", c.pending.table)
		}
		m := sel.Sel.Name
		if len(call.Args) == 1 {
			// out.WriteBlob(sub.ToByteArray()) / out.WriteBytes(sub.ToByteArray())
			if ac, ok := call.Args[0].(*ast.CallExpr); ok {
				if as, ok := ac.Fun.(*ast.SelectorExpr); ok && as.Sel.Name == "ToByteArray" {
					if sub, ok := c.streamOf(as.X); ok {
						body := *c.streams[sub]
						switch m {
						case "WriteBlob":
							c.add(st, &Item{Kind: "wrap", A: body})
							return nil
						case "WriteBytes":
							for _, it := range body {
								c.add(st, it)
							}
							return nil
						}
					}
				}
			}
			if p, ok := wprim[m]; ok {
				return c.wArg(p, call.Args[0], st)
			}
		}
		return unk("writer: %s", exprStr(call))
	}
	// this.AbstractPack.Write(out)
	if len(call.Args) == 1 {
		if st, ok := c.streamOf(call.Args[0]); ok {
			if c.pending != nil {
				return unk("writer: the count of %s is not followed by its loop", c.pending.table)
			}
			recv := sel.X
			switch sel.Sel.Name {
			case "Write":
				if f, owner, ok := c.fieldOf(recv); ok {
					if f == "AbstractPack" {
						c.add(st, &Item{Kind: "hdr"})
						return nil
					}
					t := c.fieldType(owner, f)
					if ifaces[typeName(t)] {
						// dynamic dispatch on the concrete type: the layout takes that type's layout as a parameter
						c.lparams[typeName(t)] = true
						c.add(st, &Item{Kind: "sub", Name: f, A: []*Item{{Kind: "ref", Ref: typeName(t)}}})
						return nil
					}
					switch typeName(t) {
					case "value.MapValue":
						c.add(st, &Item{Kind: "fld", Name: f, Prim: "mapBody", Rng: "any"})
						return nil
					case "value.IntMapValue":
						c.add(st, &Item{Kind: "fld", Name: f, Prim: "imapBody", Rng: "any"})
						return nil
					}
					return unk("writer: %s.Write of type %s", f, typeName(t))
				}
				// this.F[i].Write(out)
				if ix, ok := recv.(*ast.IndexExpr); ok {
					if f, owner, ok := c.fieldOf(ix.X); ok {
						et := elemTypeOf(c.fieldType(owner, f))
						if ifaces[et] {
							c.lparams[et] = true
							c.add(st, &Item{Kind: "ref", Ref: et})
							return nil
						}
						c.add(st, &Item{Kind: "ref", Ref: et + ".w"})
						return nil
					}
				}
				// e.Write(out) for a range variable
				if id, ok := recv.(*ast.Ident); ok {
					if tab, ok := c.elems[id.Name]; ok {
						c.add(st, &Item{Kind: "ref", Ref: c.elemType[tab] + ".w"})
						return nil
					}
				}
				// ent.GetValue().(*T).Write(out)
				if ta, ok := recv.(*ast.TypeAssertExpr); ok {
					if gc, ok := ta.X.(*ast.CallExpr); ok {
						if gs, ok := gc.Fun.(*ast.SelectorExpr); ok && gs.Sel.Name == "GetValue" {
							if id, ok := gs.X.(*ast.Ident); ok {
								if _, ok := c.ents[id.Name]; ok {
									c.add(st, &Item{Kind: "ref", Ref: typeName(ta.Type) + ".w"})
									return nil
								}
							}
						}
					}
				}
			case "WriteValue":
				if f, owner, ok := c.fieldOf(recv); ok {
					switch typeName(c.fieldType(owner, f)) {
					case "value.MapValue":
						c.add(st, &Item{Kind: "fld", Name: f, Prim: "mapV", Rng: "any"})
						return nil
					case "value.IntMapValue":
						c.add(st, &Item{Kind: "fld", Name: f, Prim: "imapV", Rng: "any"})
						return nil
					}
				}
			}
		}
	}
	return unk("writer: call %s", exprStr(call))
}

func (c *ctx) wFor(cond ast.Expr, body *ast.BlockStmt, cur string) error {
	// for i := 0; i < cnt; i++  |  for i := 0; i < len(this.F); i++  |  for en.HasMoreElements()
	if b, ok := cond.(*ast.BinaryExpr); ok && b.Op == token.LSS {
		if tab, ok := c.tableOf(b.Y); ok {
			return c.wLoop(tab, body, cur)
		}
		// for i := 0; i < CONST; i++ : a fixed number of cells (parallel arrays this.A[i], this.B[i])
		if id, isConst := b.Y.(*ast.Ident); isConst {
			if n, ok := consts[id.Name]; ok && c.pending == nil {
				outer := c.subStream
				c.subStream = ""
				c.inTimes++
				l, err := c.sub(cur, func() error { return c.wBlock(body.List, cur) })
				c.inTimes--
				if err != nil {
					return err
				}
				c.addSub(cur, &Item{Kind: "times", Val: strconv.FormatInt(n, 10), Name: "", A: l})
				c.subStream = outer
				return nil
			}
		}
	}
	if call, ok := cond.(*ast.CallExpr); ok {
		if sel, ok := call.Fun.(*ast.SelectorExpr); ok && sel.Sel.Name == "HasMoreElements" {
			if id, ok := sel.X.(*ast.Ident); ok {
				if tab, ok := c.enums[id.Name]; ok {
					return c.wLoop(tab, body, cur)
				}
			}
		}
	}
	return unk("writer: loop %s", exprStr(cond))
}

func (c *ctx) wLoop(tab string, body *ast.BlockStmt, cur string) error {
	if c.pending == nil || c.pending.table != tab {
		return unk("writer: loop over %s without its count written just before", tab)
	}
	prim := c.pending.prim
	c.pending = nil
	outer := c.subStream
	c.subStream = ""
	l, err := c.sub(cur, func() error { return c.wBlock(body.List, cur) })
	if err != nil {
		return err
	}
	c.addSub(cur, &Item{Kind: "rep", Prim: prim, Name: tab, A: l})
	c.subStream = outer
	return nil
}

// sub runs f and cuts out the items it appended; they must all have gone to one stream,
// which becomes the stream the enclosing item is added to (returned in c.subStream)
func (c *ctx) sub(cur string, f func() error) ([]*Item, error) {
	before := map[string]int{}
	for n, l := range c.streams {
		before[n] = len(*l)
	}
	err := f()
	if err != nil {
		return nil, err
	}
	var got []*Item
	target := ""
	for n, l := range c.streams {
		b, ok := before[n]
		if !ok {
			continue // a stream created inside the block
		}
		if len(*l) > b {
			if target != "" {
				return nil, unk("a block writes to/reads from two streams (%s, %s)", target, n)
			}
			target = n
			got = append([]*Item{}, (*l)[b:]...)
			*l = (*l)[:b]
		}
	}
	if target != "" {
		if c.subStream != "" && c.subStream != target {
			return nil, unk("branches use different streams (%s, %s)", c.subStream, target)
		}
		c.subStream = target
	}
	return got, nil
}

// addSub adds an item built from sub-blocks to the stream those blocks used
func (c *ctx) addSub(cur string, it *Item) {
	t := c.subStream
	c.subStream = ""
	if t == "" {
		t = cur
	}
	c.add(t, it)
}

func (c *ctx) wIf(s *ast.IfStmt, rest []ast.Stmt, cur string) (bool, error) {
	if s.Init != nil {
		return false, unk("writer: if with init")
	}
	// if <param> op N { return }  — the remainder is the else branch
	if cd, ok := c.condOver(s.Cond); ok {
		if s.Else == nil && endsWithReturn(s.Body) {
			th, err := c.sub(cur, func() error { return c.wBlock(s.Body.List, cur) })
			if err != nil {
				return false, err
			}
			el, err := c.sub(cur, func() error { return c.wBlock(rest, cur) })
			if err != nil {
				return false, err
			}
			c.addSub(cur, &Item{Kind: "ite", Cond: cd, A: th, B: el})
			return true, nil
		}
		th, err := c.sub(cur, func() error { return c.wBlock(s.Body.List, cur) })
		if err != nil {
			return false, err
		}
		var el []*Item
		if s.Else != nil {
			eb, ok := s.Else.(*ast.BlockStmt)
			if !ok {
				return false, unk("writer: else-if")
			}
			el, err = c.sub(cur, func() error { return c.wBlock(eb.List, cur) })
			if err != nil {
				return false, err
			}
		}
		c.addSub(cur, &Item{Kind: "ite", Cond: cd, A: th, B: el})
		return false, nil
	}
	// optional section: if X != nil [&& X.Size() > 0] { flag 1; … } else { flag 0 }   (or the mirrored form)
	if name, nonNilFirst, ok := c.presenceCond(s.Cond); ok && s.Else != nil {
		if eb, isBlock := s.Else.(*ast.BlockStmt); isBlock {
			pres, abs := s.Body, eb
			if !nonNilFirst {
				pres, abs = eb, s.Body
			}
			if isFlagWrite(c, abs.List, "0") && len(abs.List) == 1 && len(pres.List) >= 1 {
				flag := ""
				for _, v := range []string{"1", "2", "3", "4", "5", "6", "7", "8", "9"} {
					if isFlagWrite(c, pres.List[:1], v) {
						flag = v
					}
				}
				if flag != "" {
					body, err := c.sub(cur, func() error { return c.wBlock(pres.List[1:], cur) })
					if err != nil {
						return false, err
					}
					if flag == "1" {
						c.addSub(cur, &Item{Kind: "opt", Name: name, A: body})
					} else {
						c.addSub(cur, &Item{Kind: "mopt", Val: flag, Name: name, A: body})
					}
					return false, nil
				}
			}
		}
	}
	// nil tests on a field
	b, ok := s.Cond.(*ast.BinaryExpr)
	if ok && (b.Op == token.EQL || b.Op == token.NEQ) {
		if id, ok := b.Y.(*ast.Ident); ok && id.Name == "nil" && s.Else != nil {
			if f, _, ok := c.fieldOf(b.X); ok {
				eb, ok := s.Else.(*ast.BlockStmt)
				if !ok {
					return false, unk("writer: else-if")
				}
				nilB, nonB := s.Body, eb
				if b.Op == token.NEQ {
					nilB, nonB = eb, s.Body
				}
				non, err := c.sub(cur, func() error { return c.wBlock(nonB.List, cur) })
				if err != nil {
					return false, err
				}
				// the nil branch is inspected as raw syntax: out.WriteP(0) | out.WriteP("")
				if len(nilB.List) == 1 {
					if es, ok := nilB.List[0].(*ast.ExprStmt); ok {
						if call, ok := es.X.(*ast.CallExpr); ok && len(call.Args) == 1 {
							if sel, ok := call.Fun.(*ast.SelectorExpr); ok {
								if _, ok := c.streamOf(sel.X); ok {
									p := wprim[sel.Sel.Name]
									// if F != nil { out.WriteText(*F) } else { out.WriteText("") }   — nil travels as ""
									if bl, ok := call.Args[0].(*ast.BasicLit); ok && bl.Value == `""` && len(non) == 1 &&
										non[0].Kind == "fld" && non[0].Name == f && non[0].Prim == p {
										c.addSub(cur, non[0])
										return false, nil
									}
									// if F == nil { out.WriteDecimal(0) } else { out.WriteDecimal(size); loop }  — nil travels as empty
									if v, ok := intLit(call.Args[0]); ok && v == "0" && len(non) == 1 &&
										non[0].Kind == "rep" && non[0].Name == f && non[0].Prim == p {
										c.addSub(cur, non[0])
										return false, nil
									}
								}
							}
						}
					}
				}
				return false, unk("writer: nil test on %s with an unrecognised pair of branches", f)
			}
		}
	}
	return false, unk("writer: if %s", exprStr(s.Cond))
}

// presenceCond: `this.X != nil`, `this.X != nil && this.X.Size() > 0`, `this.X == nil`
func (c *ctx) presenceCond(e ast.Expr) (string, bool, bool) {
	if b, ok := e.(*ast.BinaryExpr); ok && b.Op == token.LAND {
		n1, nn, ok1 := c.presenceCond(b.X)
		if ok1 && nn {
			if r, ok := b.Y.(*ast.BinaryExpr); ok && r.Op == token.GTR {
				if z, ok := intLit(r.Y); ok && z == "0" {
					if call, ok := r.X.(*ast.CallExpr); ok {
						if sel, ok := call.Fun.(*ast.SelectorExpr); ok && sel.Sel.Name == "Size" {
							if f, _, ok := c.fieldOf(sel.X); ok && f == n1 {
								return n1, true, true
							}
						}
					}
				}
			}
		}
		return "", false, false
	}
	b, ok := e.(*ast.BinaryExpr)
	if !ok || (b.Op != token.NEQ && b.Op != token.EQL) {
		return "", false, false
	}
	if id, ok := b.Y.(*ast.Ident); !ok || id.Name != "nil" {
		return "", false, false
	}
	f, _, ok := c.fieldOf(b.X)
	if !ok {
		return "", false, false
	}
	return f, b.Op == token.NEQ, true
}

// isFlagWrite: the single statement out.WriteByte(v) / out.WriteBool(v != 0)
func isFlagWrite(c *ctx, stmts []ast.Stmt, v string) bool {
	if len(stmts) != 1 {
		return false
	}
	es, ok := stmts[0].(*ast.ExprStmt)
	if !ok {
		return false
	}
	call, ok := es.X.(*ast.CallExpr)
	if !ok || len(call.Args) != 1 {
		return false
	}
	sel, ok := call.Fun.(*ast.SelectorExpr)
	if !ok {
		return false
	}
	if _, ok := c.streamOf(sel.X); !ok {
		return false
	}
	switch sel.Sel.Name {
	case "WriteByte":
		n, ok := intLit(call.Args[0])
		return ok && n == v
	case "WriteBool":
		id, ok := call.Args[0].(*ast.Ident)
		return ok && ((v == "1" && id.Name == "true") || (v == "0" && id.Name == "false"))
	}
	return false
}

// ---------------------------------------------------------------- reader

// readCall: in.ReadP()  (possibly under conversions)  ->  (stream, prim, outer conversion)
func (c *ctx) readCall(e ast.Expr) (string, string, string, bool) {
	inner, conv := stripConv(e)
	call, ok := inner.(*ast.CallExpr)
	if !ok || len(call.Args) != 0 {
		return "", "", "", false
	}
	sel, ok := call.Fun.(*ast.SelectorExpr)
	if !ok {
		return "", "", "", false
	}
	st, ok := c.streamOf(sel.X)
	if !ok {
		return "", "", "", false
	}
	p, ok := rprim[sel.Sel.Name]
	if !ok {
		return "", "", "", false
	}
	return st, p, conv, true
}

// scanRoles looks at how the locals bound from reads are used later
func (c *ctx) scanRoles(body *ast.BlockStmt) {
	ast.Inspect(body, func(n ast.Node) bool {
		switch s := n.(type) {
		case *ast.SwitchStmt:
			if s.Tag != nil {
				if f, _, ok := c.fieldOf(s.Tag); ok {
					c.keyFields[f] = true
				}
			}
		case *ast.AssignStmt:
			if len(s.Lhs) == 1 && len(s.Rhs) == 1 {
				// this.F = x | this.F = &x | this.F = T(x)
				rhs := s.Rhs[0]
				if u, ok := rhs.(*ast.UnaryExpr); ok && u.Op == token.AND {
					rhs = u.X
				}
				rhs, _ = stripConv(rhs)
				if id, ok := rhs.(*ast.Ident); ok {
					if sel, ok := s.Lhs[0].(*ast.SelectorExpr); ok {
						if x, ok := sel.X.(*ast.Ident); ok {
							if _, ok := c.subj[x.Name]; ok || c.fieldType(c.owner, sel.Sel.Name) != nil {
								c.setRole(id.Name, "fld:"+sel.Sel.Name)
							}
						}
					}
				}
				// this.F[i] = T{a, b, c}
				if cl, ok := s.Rhs[0].(*ast.CompositeLit); ok {
					if si := structs[typeName(cl.Type)]; si != nil {
						for i, el := range cl.Elts {
							if id, ok := el.(*ast.Ident); ok && i < len(si.order) {
								c.setRole(id.Name, "fld:"+si.order[i])
							}
							if kv, ok := el.(*ast.KeyValueExpr); ok {
								if id, ok := kv.Value.(*ast.Ident); ok {
									c.setRole(id.Name, "fld:"+exprStr(kv.Key))
								}
							}
						}
					}
				}
			}
		case *ast.CallExpr:
			if sel, ok := s.Fun.(*ast.SelectorExpr); ok && sel.Sel.Name == "Put" && len(s.Args) == 2 {
				if id, ok := s.Args[0].(*ast.Ident); ok {
					c.setRole(id.Name, "fld:key")
				}
				if id, ok := s.Args[1].(*ast.Ident); ok {
					c.setRole(id.Name, "fld:val")
				}
				if call, ok := s.Args[1].(*ast.CallExpr); ok {
					if id, ok := call.Fun.(*ast.Ident); ok {
						if fields, ok := ctorParams[id.Name]; ok && len(fields) == len(call.Args) {
							for i, a := range call.Args {
								if ai, ok := a.(*ast.Ident); ok {
									c.setRole(ai.Name, "fld:"+fields[i])
								}
							}
						}
					}
				}
			}
			if id, ok := s.Fun.(*ast.Ident); ok && id.Name == "make" && len(s.Args) >= 2 {
				if x, ok := s.Args[1].(*ast.Ident); ok {
					c.setRole(x.Name, "count")
				}
			}
		case *ast.ForStmt:
			if b, ok := s.Cond.(*ast.BinaryExpr); ok && b.Op == token.LSS {
				if x, ok := b.Y.(*ast.Ident); ok {
					c.setRole(x.Name, "count")
				}
			}
		case *ast.IfStmt:
			if b, ok := s.Cond.(*ast.BinaryExpr); ok {
				x, _ := stripConv(b.X)
				if id, ok := x.(*ast.Ident); ok {
					if _, ok := intLit(b.Y); ok {
						c.setRole(id.Name, "var")
					}
				}
			}
		}
		return true
	})
}

func (c *ctx) isSubjLocal(body *ast.BlockStmt, name string) bool { return false }

func (c *ctx) setRole(name, role string) {
	old := c.roles[name]
	if old == "" || old == "var" || (old == "count" && strings.HasPrefix(role, "fld:")) {
		if !(old == "count" && role == "var") {
			c.roles[name] = role
		}
	}
	if old == "var" && role == "count" {
		c.roles[name] = "count"
	}
}

func (c *ctx) rBlock(stmts []ast.Stmt, cur string) error {
	c.depth++
	defer func() { c.depth-- }()
	for k := range stmts {
		if c.depth == 1 {
			c.takeSnap()
		}
		done, err := c.rStmt(k, stmts, cur)
		if err != nil {
			if c.depth == 1 {
				c.restoreSnap()
				c.failAt = k
			}
			return err
		}
		if done {
			return nil
		}
	}
	return nil
}

func (c *ctx) rStmt(k int, stmts []ast.Stmt, cur string) (bool, error) {
	st := stmts[k]
	switch s := st.(type) {
	case *ast.ExprStmt:
		call, ok := s.X.(*ast.CallExpr)
		if !ok {
			return false, unk("reader: expression statement %s", exprStr(s))
		}
		if err := c.rCall(call, cur); err != nil {
			return false, err
		}
	case *ast.AssignStmt:
		if err := c.rAssign(s, cur); err != nil {
			return false, err
		}
	case *ast.DeclStmt: // var ver = din.ReadByte()
		gd, ok := s.Decl.(*ast.GenDecl)
		if !ok || gd.Tok != token.VAR {
			return false, unk("reader: declaration %s", exprStr(s))
		}
		for _, sp := range gd.Specs {
			vs := sp.(*ast.ValueSpec)
			if len(vs.Names) != 1 || len(vs.Values) != 1 {
				return false, unk("reader: declaration %s", exprStr(s))
			}
			if err := c.rLocal(vs.Names[0].Name, vs.Values[0], cur); err != nil {
				return false, err
			}
		}
	case *ast.ReturnStmt:
		return true, nil
	case *ast.ForStmt:
		if err := c.rFor(s, cur); err != nil {
			return false, err
		}
	case *ast.IfStmt:
		done, err := c.rIf(s, stmts[k+1:], cur)
		if err != nil {
			return false, err
		}
		if done {
			return true, nil
		}
	case *ast.SwitchStmt:
		if err := c.rSwitch(s, cur); err != nil {
			return false, err
		}
	case *ast.EmptyStmt:
	default:
		return false, unk("reader: statement %T", st)
	}
	return false, nil
}

func (c *ctx) rLocal(name string, rhs ast.Expr, cur string) error {
	if st, p, conv, ok := c.readCall(rhs); ok {
		if c.pending != nil {
			return unk("reader: the count in %s is not followed by its loop", c.pending.local)
		}
		role := c.roles[name]
		switch {
		case strings.HasPrefix(role, "fld:"):
			f := role[4:]
			rng := natRng(p)
			if conv != "" && rngOfType(conv) != "any" {
				rng = rngOfType(conv)
			}
			if natRng(p) == "any" {
				rng = "any"
			}
			// a local forwarded to a field of the subject takes the declared type's range
			if f != "key" && f != "val" {
				if t := c.fieldType(c.elemOwner(), f); t != nil && conv == "" && natRng(p) != "any" {
					rng = rngOfType(typeName(t))
				}
			}
			c.add(st, &Item{Kind: "fld", Name: f, Prim: p, Rng: rng})
		case role == "count":
			c.pending = &pendingCount{prim: p, local: name}
			c.locPrim[name] = p
		case role == "var":
			c.add(st, &Item{Kind: "var", Name: name, Prim: p})
		default:
			return unk("reader: local %s is read but its use is not recognised", name)
		}
		return nil
	}
	// din := io.NewDataInputX(in.ReadBlob())
	if call, ok := rhs.(*ast.CallExpr); ok {
		if exprStr(call.Fun) == "io.NewDataInputX" && len(call.Args) == 1 {
			if st, p, _, ok := c.readCall(call.Args[0]); ok && p == "blob" {
				l := []*Item{}
				w := &Item{Kind: "wrap"}
				c.add(st, w)
				c.streams[name] = &l
				c.wraps = append(c.wraps, wrapFix{w, &l})
				return nil
			}
		}
		// m := NewT() | m := new(T)
		if id, ok := call.Fun.(*ast.Ident); ok {
			if id.Name == "new" && len(call.Args) == 1 {
				c.subj[name] = typeName(call.Args[0])
				return nil
			}
			if strings.HasPrefix(id.Name, "New") && len(call.Args) == 0 {
				if t, ok := ctorType[id.Name]; ok {
					c.subj[name] = t
					return nil
				}
			}
		}
	}
	return unk("reader: local %s := %s", name, exprStr(rhs))
}

type wrapFix struct {
	w *Item
	l *[]*Item
}

var ctorType = map[string]string{}

// interface types of the package (Cpu, Memory): a field of such a type is written by dynamic dispatch
var ifaces = map[string]bool{}

// ctorParams: constructor NewT(a, b, c) whose body is `p.F = a; p.G = b; …` -> the field each parameter fills
var ctorParams = map[string][]string{}

// ctorOnly: plain functions that only allocate (body: a New…/make call and a return)
var ctorOnly = map[string]bool{}

func (c *ctx) elemOwner() string {
	if c.loopElem != "" {
		return c.loopElem
	}
	return c.owner
}

func (c *ctx) rAssign(s *ast.AssignStmt, cur string) error {
	if len(s.Lhs) != 1 || len(s.Rhs) != 1 {
		return unk("reader: assignment %s", exprStr(s))
	}
	lhs, rhs := s.Lhs[0], s.Rhs[0]
	if id, ok := lhs.(*ast.Ident); ok {
		if s.Tok == token.DEFINE {
			return c.rLocal(id.Name, rhs, cur)
		}
		return unk("reader: assignment to local %s", id.Name)
	}
	// this.F[i] = T{} | this.F[i] = T{a,b,c}   (zero value / forwarded locals)
	if ix, ok := lhs.(*ast.IndexExpr); ok {
		if f, owner, ok := c.fieldOf(ix.X); ok {
			if _, ok := rhs.(*ast.CompositeLit); ok {
				return nil
			}
			if u, ok := rhs.(*ast.UnaryExpr); ok && u.Op == token.AND {
				if cl, ok := u.X.(*ast.CompositeLit); ok && len(cl.Elts) == 0 {
					c.dynElem[f] = typeName(cl.Type)
					c.loopTable = f
					return nil
				}
			}
			if c.inTimes > 0 {
				// this.F[i] = T(in.ReadShort()) & 0xffff : the low 16 bits, unsigned
				if b, ok := rhs.(*ast.BinaryExpr); ok && b.Op == token.AND {
					if m, ok := intLit(b.Y); ok && m == "65535" {
						if st, p, _, ok := c.readCall(b.X); ok && p == "i16" {
							c.add(st, &Item{Kind: "fld", Name: f, Prim: "u16", Rng: "any"})
							return nil
						}
					}
				}
				if st, p, conv, ok := c.readCall(rhs); ok {
					rng := rngOfType(elemTypeOf(c.fieldType(owner, f)))
					if conv != "" && rngOfType(conv) != "any" {
						rng = rngOfType(conv)
					}
					if natRng(p) == "any" {
						rng = "any"
					}
					c.add(st, &Item{Kind: "fld", Name: f, Prim: p, Rng: rng})
					return nil
				}
			}
		}
		return unk("reader: %s", exprStr(s))
	}
	f, owner, ok := c.fieldOf(lhs)
	if !ok {
		return unk("reader: assignment to %s", exprStr(lhs))
	}
	// this.F = &T{}  — the concrete type chosen for an interface-typed field
	if u, ok := rhs.(*ast.UnaryExpr); ok && u.Op == token.AND {
		if cl, ok := u.X.(*ast.CompositeLit); ok && len(cl.Elts) == 0 && ifaces[typeName(c.fieldType(owner, f))] {
			c.dynType[f] = typeName(cl.Type)
			return nil
		}
	}
	// this.F = in.ReadP()
	if st, p, conv, ok := c.readCall(rhs); ok {
		if c.pending != nil {
			return unk("reader: the count in %s is not followed by its loop", c.pending.local)
		}
		if c.keyFields[f] { // the body switches on this field: it is delivered AND bound to a local of its name
			c.add(st, &Item{Kind: "key", Name: f, Prim: p, Val: f})
			return nil
		}
		t := c.fieldType(owner, f)
		if t == nil {
			return unk("reader: unknown field %s.%s", owner, f)
		}
		rng := rngOfType(typeName(t))
		if conv != "" && rngOfType(conv) != "any" {
			rng = rngOfType(conv)
		}
		if natRng(p) == "any" {
			rng = "any"
		}
		c.add(st, &Item{Kind: "fld", Name: f, Prim: p, Rng: rng})
		return nil
	}
	// this.F = value.ReadValue(in).(*value.T) | value.ReadMapValue(in)
	r := rhs
	asserted := ""
	if ta, ok := r.(*ast.TypeAssertExpr); ok {
		r = ta.X
		asserted = typeName(ta.Type)
	}
	if call, ok := r.(*ast.CallExpr); ok {
		if isValuePkgCall(call, "ReadValue", "ReadMapValue") && len(call.Args) == 1 {
			if st, ok := c.streamOf(call.Args[0]); ok {
				prim := "value"
				if isValuePkgCall(call, "ReadMapValue") || asserted == "value.MapValue" {
					prim = "mapV"
				} else if asserted == "value.IntMapValue" {
					prim = "imapV"
				}
				c.add(st, &Item{Kind: "fld", Name: f, Prim: prim, Rng: "any"})
				return nil
			}
		}
		// this.F = make(...) | this.F = value.NewMapValue() | hmap.NewX(...)   — allocation, no I/O
		if id, ok := call.Fun.(*ast.Ident); ok && id.Name == "make" {
			c.madeTable = f
			return nil
		}
		// this.F = CreateMap(n) : a table allocated by a helper that touches no stream and no field
		if id, ok := call.Fun.(*ast.Ident); ok && ctorOnly[id.Name] && !c.mentionsStream(call) {
			return nil
		}
		// this.F = NewT() | new(T) : a fresh struct to read into
		if id, ok := call.Fun.(*ast.Ident); ok && !c.mentionsStream(call) {
			if _, isCtor := ctorType[id.Name]; (isCtor && len(call.Args) == 0) || id.Name == "new" {
				return nil
			}
		}
		if sel, ok := call.Fun.(*ast.SelectorExpr); ok && strings.HasPrefix(sel.Sel.Name, "New") {
			if _, isStream := c.streamOf(sel.X); !isStream {
				for _, a := range call.Args {
					if c.mentionsStream(a) {
						return unk("reader: %s", exprStr(s))
					}
				}
				return nil
			}
		}
	}
	// this.F = x / &x   (a local already transcribed at its read)
	rr := rhs
	if u, ok := rr.(*ast.UnaryExpr); ok && u.Op == token.AND {
		rr = u.X
	}
	rr, _ = stripConv(rr)
	if id, ok := rr.(*ast.Ident); ok && c.roles[id.Name] == "fld:"+f {
		return nil
	}
	return unk("reader: assignment %s", exprStr(s))
}

func (c *ctx) mentionsStream(e ast.Expr) bool {
	found := false
	ast.Inspect(e, func(n ast.Node) bool {
		if id, ok := n.(*ast.Ident); ok {
			if _, ok := c.streams[id.Name]; ok {
				found = true
			}
		}
		return true
	})
	return found
}

func (c *ctx) rCall(call *ast.CallExpr, cur string) error {
	// in.ReadP()  discarded
	if st, p, _, ok := c.readCall(call); ok {
		if c.pending != nil {
			return unk("reader: the count in %s is not followed by its loop", c.pending.local)
		}
		c.add(st, &Item{Kind: "skip", Prim: p})
		return nil
	}
	sel, ok := call.Fun.(*ast.SelectorExpr)
	if !ok {
		return unk("reader: call %s", exprStr(call))
	}
	// in.CheckCount(n, minBytes): a guard on the count just read, before the loop it drives — it only
	// rejects counts the remaining bytes cannot satisfy (io.DataInputX.CheckCount); no bytes are consumed
	if _, ok := c.streamOf(sel.X); ok && sel.Sel.Name == "CheckCount" && len(call.Args) == 2 {
		x, _ := stripConv(call.Args[0])
		if id, ok := x.(*ast.Ident); ok && c.pending != nil && c.pending.local == id.Name {
			if _, ok := intLit(call.Args[1]); ok {
				return nil
			}
		}
		return unk("reader: %s does not guard the count read just before", exprStr(call))
	}
	if len(call.Args) == 1 {
		if st, ok := c.streamOf(call.Args[0]); ok && sel.Sel.Name == "Read" {
			if c.pending != nil {
				return unk("reader: the count in %s is not followed by its loop", c.pending.local)
			}
			recv := sel.X
			if f, owner, ok := c.fieldOf(recv); ok {
				if f == "AbstractPack" {
					c.add(st, &Item{Kind: "hdr"})
					return nil
				}
				if ifaces[typeName(c.fieldType(owner, f))] {
					if dt, ok := c.dynType[f]; ok {
						c.add(st, &Item{Kind: "sub", Name: f, A: []*Item{{Kind: "ref", Ref: dt + ".r"}}})
						return nil
					}
					return unk("reader: %s.Read on an interface field whose concrete type is not set just before", f)
				}
				switch typeName(c.fieldType(owner, f)) {
				case "value.MapValue":
					c.add(st, &Item{Kind: "fld", Name: f, Prim: "mapBody", Rng: "any"})
					return nil
				case "value.IntMapValue":
					c.add(st, &Item{Kind: "fld", Name: f, Prim: "imapBody", Rng: "any"})
					return nil
				}
				return unk("reader: %s.Read of type %s", f, typeName(c.fieldType(owner, f)))
			}
			if ix, ok := recv.(*ast.IndexExpr); ok {
				if f, owner, ok := c.fieldOf(ix.X); ok {
					c.loopTable = f
					et := elemTypeOf(c.fieldType(owner, f))
					if ifaces[et] {
						dt, ok := c.dynElem[f]
						if !ok {
							return unk("reader: %s[i].Read on interface elements whose concrete type is not set", f)
						}
						et = dt
					}
					c.add(st, &Item{Kind: "ref", Ref: et + ".r"})
					return nil
				}
			}
		}
	}
	// this.F.Put(key, value) | m.F.Put(hash, NewT().Read(in))
	if sel.Sel.Name == "Put" && len(call.Args) == 2 {
		if f, _, ok := c.fieldOf(sel.X); ok {
			c.loopTable = f
			k, ok := call.Args[0].(*ast.Ident)
			if !ok || c.roles[k.Name] != "fld:key" {
				return unk("reader: %s", exprStr(call))
			}
			switch v := call.Args[1].(type) {
			case *ast.Ident:
				if c.roles[v.Name] != "fld:val" {
					return unk("reader: %s", exprStr(call))
				}
				return nil
			case *ast.CallExpr: // NewT().Read(in)  |  NewT(count, err, time) of forwarded locals
				if id, ok := v.Fun.(*ast.Ident); ok {
					if fields, ok := ctorParams[id.Name]; ok && len(fields) == len(v.Args) {
						all := true
						for i, a := range v.Args {
							ai, isId := a.(*ast.Ident)
							if !isId || c.roles[ai.Name] != "fld:"+fields[i] {
								all = false
							}
						}
						if all {
							return nil
						}
					}
				}
				if vs, ok := v.Fun.(*ast.SelectorExpr); ok && vs.Sel.Name == "Read" && len(v.Args) == 1 {
					if st, ok := c.streamOf(v.Args[0]); ok {
						if ctor, ok := vs.X.(*ast.CallExpr); ok {
							if id, ok := ctor.Fun.(*ast.Ident); ok {
								if t, ok := ctorType[id.Name]; ok {
									c.add(st, &Item{Kind: "ref", Ref: t + ".r"})
									return nil
								}
							}
						}
					}
				}
			}
			return unk("reader: %s", exprStr(call))
		}
	}
	return unk("reader: call %s", exprStr(call))
}

func (c *ctx) rFor(s *ast.ForStmt, cur string) error {
	b, ok := s.Cond.(*ast.BinaryExpr)
	if !ok || b.Op != token.LSS {
		return unk("reader: loop %s", exprStr(s.Cond))
	}
	if id, isId := b.Y.(*ast.Ident); isId && c.pending == nil {
		if n, isConst := consts[id.Name]; isConst {
			c.inTimes++
			body, err := c.sub(cur, func() error { return c.rBlock(s.Body.List, cur) })
			c.inTimes--
			c.madeTable = ""
			if err != nil {
				return err
			}
			c.addSub(cur, &Item{Kind: "times", Val: strconv.FormatInt(n, 10), Name: "", A: body})
			return nil
		}
	}
	x, ok := b.Y.(*ast.Ident)
	if !ok || c.pending == nil || c.pending.local != x.Name {
		return unk("reader: loop bound %s is not the count read just before", exprStr(b.Y))
	}
	prim := c.pending.prim
	c.pending = nil
	savedT, savedE := c.loopTable, c.loopElem
	c.loopTable = c.madeTable
	if c.madeTable != "" {
		c.loopElem = elemTypeOf(c.fieldType(c.owner, c.madeTable))
		if structs[c.loopElem] == nil {
			c.loopElem = ""
		}
	}
	body, err := c.sub(cur, func() error { return c.rBlock(s.Body.List, cur) })
	tab := c.loopTable
	c.loopTable, c.loopElem = savedT, savedE
	c.madeTable = ""
	if err != nil {
		return err
	}
	if tab == "" {
		return unk("reader: loop does not say which table it fills")
	}
	c.addSub(cur, &Item{Kind: "rep", Prim: prim, Name: tab, A: body})
	return nil
}

// switch this.F { case A, B: …  case C: … }  with F a key field: a chain of tests on the local F
func (c *ctx) rSwitch(s *ast.SwitchStmt, cur string) error {
	if s.Init != nil || s.Tag == nil {
		return unk("reader: switch without a field tag")
	}
	f, _, ok := c.fieldOf(s.Tag)
	if !ok || !c.keyFields[f] {
		return unk("reader: switch %s", exprStr(s.Tag))
	}
	type arm struct {
		v    string
		body []*Item
	}
	var arms []arm
	for _, cc := range s.Body.List {
		cl := cc.(*ast.CaseClause)
		if cl.List == nil {
			return unk("reader: switch with a default arm")
		}
		body, err := c.sub(cur, func() error { return c.rBlock(cl.Body, cur) })
		if err != nil {
			return err
		}
		for _, e := range cl.List {
			v, ok := intLit(e)
			if !ok {
				return unk("reader: case %s", exprStr(e))
			}
			arms = append(arms, arm{v, body})
		}
	}
	var chain []*Item
	for i := len(arms) - 1; i >= 0; i-- {
		chain = []*Item{{Kind: "ite", Cond: &Cond{"eq", f, arms[i].v}, A: arms[i].body, B: chain}}
	}
	target := c.subStream // the stream the arms read from (all arms the same: checked by sub)
	c.subStream = ""
	if target == "" {
		target = cur
	}
	for _, it := range chain {
		c.add(target, it)
	}
	return nil
}

func (c *ctx) rIf(s *ast.IfStmt, rest []ast.Stmt, cur string) (bool, error) {
	if s.Init != nil {
		return false, unk("reader: if with init")
	}
	// if in.Available() == 0 { return }  — the rest is read only when input is left
	if b, ok := s.Cond.(*ast.BinaryExpr); ok && b.Op == token.EQL && s.Else == nil && endsWithReturn(s.Body) && len(s.Body.List) == 1 {
		if z, ok := intLit(b.Y); ok && z == "0" {
			if call, ok := b.X.(*ast.CallExpr); ok && len(call.Args) == 0 {
				if sel, ok := call.Fun.(*ast.SelectorExpr); ok && sel.Sel.Name == "Available" {
					if st, ok := c.streamOf(sel.X); ok {
						body, err := c.sub(cur, func() error { return c.rBlock(rest, cur) })
						if err != nil {
							return false, err
						}
						c.subStream = ""
						c.add(st, &Item{Kind: "avail", A: body})
						return true, nil
					}
				}
			}
		}
	}
	if s.Else == nil {
		flagExpr := s.Cond
		okTest := false
		if b, ok := s.Cond.(*ast.BinaryExpr); ok {
			n, isInt := intLit(b.Y)
			if isInt && ((b.Op == token.NEQ && n == "0") || (b.Op == token.EQL && n == "1") || (b.Op == token.GTR && n == "0")) {
				flagExpr, okTest = b.X, true
			}
		} else {
			okTest = true
		}
		if st, p, _, ok := c.readCall(flagExpr); ok && okTest && (p == "u8" || p == "bool") {
			if c.pending != nil {
				return false, unk("reader: the count in %s is not followed by its loop", c.pending.local)
			}
			body, err := c.sub(cur, func() error { return c.rBlock(s.Body.List, cur) })
			if err != nil {
				return false, err
			}
			c.subStream = ""
			name := ""
			for _, it := range body {
				if it.Kind == "fld" || it.Kind == "rep" {
					name = it.Name
					break
				}
			}
			if name == "" {
				return false, unk("reader: optional section without a field")
			}
			if i := strings.IndexByte(name, '.'); i > 0 {
				name = name[:i] // this.X.F = … : the section is the struct-valued field X
			}
			c.add(st, &Item{Kind: "opt", Name: name, A: body})
			return false, nil
		}
	}
	cd, ok := c.condOver(s.Cond)
	if !ok {
		return false, unk("reader: if %s", exprStr(s.Cond))
	}
	// if n > 0 { make; for i < n {...} }  — the loop alone (n ≤ 0: no iterations either way)
	if c.pending != nil && c.pending.local == cd.Var && cd.Op == "gt" && cd.N == "0" && s.Else == nil {
		return false, c.rBlock(s.Body.List, cur)
	}
	if c.pending != nil {
		return false, unk("reader: the count in %s is not followed by its loop", c.pending.local)
	}
	if isPanicBlock(s.Body) && s.Else == nil {
		c.add(cur, &Item{Kind: "guard", Cond: cd})
		return false, nil
	}
	if s.Else == nil && endsWithReturn(s.Body) {
		th, err := c.sub(cur, func() error { return c.rBlock(s.Body.List, cur) })
		if err != nil {
			return false, err
		}
		el, err := c.sub(cur, func() error { return c.rBlock(rest, cur) })
		if err != nil {
			return false, err
		}
		c.addSub(cur, &Item{Kind: "ite", Cond: cd, A: th, B: el})
		return true, nil
	}
	th, err := c.sub(cur, func() error { return c.rBlock(s.Body.List, cur) })
	if err != nil {
		return false, err
	}
	var el []*Item
	if s.Else != nil {
		eb, ok := s.Else.(*ast.BlockStmt)
		if !ok {
			return false, unk("reader: else-if")
		}
		el, err = c.sub(cur, func() error { return c.rBlock(eb.List, cur) })
		if err != nil {
			return false, err
		}
	}
	c.addSub(cur, &Item{Kind: "ite", Cond: cd, A: th, B: el})
	return false, nil
}

// ---------------------------------------------------------------- driving

type layout struct {
	wGaps, rGaps []string // statements not transcribed: parameters g0, g1, … of T.w / T.r
	wParams      []string // interface types the writer dispatches on: parameters of T.w
	name         string   // Lean name: T
	w, r         string
	wRefs        map[string]bool
	rRefs        map[string]bool
	wWhy         string
	rWhy         string
}

func newCtx(owner string, reader bool) *ctx {
	return &ctx{owner: owner, subj: map[string]string{}, streams: map[string]*[]*Item{}, params: map[string]bool{},
		counts: map[string]string{}, enums: map[string]string{}, ents: map[string]string{}, elems: map[string]string{},
		elemType: map[string]string{}, roles: map[string]string{}, locPrim: map[string]string{}, reader: reader,
		lparams: map[string]bool{}, keyFields: map[string]bool{}, dynType: map[string]string{}, dynElem: map[string]string{}}
}

// extra per-function reader state
func init() {}

var lastParams []string
var lastGaps []string

func transcribe(fd *ast.FuncDecl, recvType, subjType string, reader bool) (items []*Item, why string) {
	lastParams = nil
	lastGaps = nil
	defer func() {
		if r := recover(); r != nil {
			items, why = nil, fmt.Sprintf("translator panic: %v", r)
		}
	}()
	c := newCtx(subjType, reader)
	if fd.Recv != nil && len(fd.Recv.List) == 1 && len(fd.Recv.List[0].Names) == 1 {
		c.subj[fd.Recv.List[0].Names[0].Name] = recvType
	}
	cur := ""
	for _, p := range fd.Type.Params.List {
		tn := typeName(p.Type)
		for _, n := range p.Names {
			switch {
			case tn == "io.DataOutputX" || tn == "io.DataInputX":
				l := []*Item{}
				c.streams[n.Name] = &l
				if cur == "" {
					cur = n.Name
				}
			case structs[tn] != nil:
				c.subj[n.Name] = tn // record parameter: it is the subject
				if fd.Recv != nil && len(fd.Recv.List[0].Names) == 1 {
					delete(c.subj, fd.Recv.List[0].Names[0].Name)
				}
			default:
				c.params[n.Name] = true
			}
		}
	}
	if cur == "" {
		return nil, "no stream parameter"
	}
	var err error
	if reader {
		c.scanRoles(fd.Body)
	}
	err = c.top(fd.Body.List, cur, reader)
	lastGaps = c.gaps
	if err == nil && c.pending != nil {
		err = unk("a count is read/written but no loop follows")
	}
	if err != nil {
		pos := fset.Position(fd.Pos())
		return nil, fmt.Sprintf("%s (%s:%d)", err.Error(), filepath.Base(pos.Filename), pos.Line)
	}
	for _, wf := range c.wraps {
		wf.w.A = *wf.l
	}
	for p := range c.lparams {
		lastParams = append(lastParams, p)
	}
	sort.Strings(lastParams)
	return *c.streams[cur], ""
}

func leanName(t string) string { return strings.ReplaceAll(t, ".", "_") }

func main() {
	repo := flag.String("repo", "/repo", "repository root")
	out := flag.String("out", "", "output Lean file")
	flag.Parse()
	dir := filepath.Join(*repo, "lang", "pack")
	pkgs, err := parser.ParseDir(fset, dir, func(fi os.FileInfo) bool { return !strings.HasSuffix(fi.Name(), "_test.go") }, parser.ParseComments)
	if err != nil {
		fmt.Fprintln(os.Stderr, "parse:", err)
		os.Exit(1)
	}
	pkg := pkgs["pack"]
	if pkg == nil {
		fmt.Fprintln(os.Stderr, "package pack not found in", dir)
		os.Exit(1)
	}
	fileNames := []string{}
	for n := range pkg.Files {
		fileNames = append(fileNames, n)
	}
	sort.Strings(fileNames)
	// pass 1: structs, constants, functions, constructors
	for _, fn := range fileNames {
		for _, d := range pkg.Files[fn].Decls {
			switch t := d.(type) {
			case *ast.GenDecl:
				for _, sp := range t.Specs {
					switch s := sp.(type) {
					case *ast.TypeSpec:
						if _, ok := s.Type.(*ast.InterfaceType); ok {
							ifaces[s.Name.Name] = true
						}
						if st, ok := s.Type.(*ast.StructType); ok {
							si := &structInfo{fields: map[string]ast.Expr{}}
							for _, f := range st.Fields.List {
								if len(f.Names) == 0 {
									si.embeds = append(si.embeds, typeName(f.Type))
									si.fields[typeName(f.Type)] = f.Type
									continue
								}
								for _, n := range f.Names {
									si.fields[n.Name] = f.Type
									si.order = append(si.order, n.Name)
								}
							}
							structs[s.Name.Name] = si
						}
					case *ast.ValueSpec:
						if t.Tok == token.CONST {
							for i, n := range s.Names {
								if i < len(s.Values) {
									v := s.Values[i]
									if call, ok := v.(*ast.CallExpr); ok && len(call.Args) == 1 {
										v = call.Args[0]
									}
									if bl, ok := v.(*ast.BasicLit); ok && bl.Kind == token.INT {
										if x, err := strconv.ParseInt(bl.Value, 0, 64); err == nil {
											consts[n.Name] = x
										}
									}
								}
							}
						}
					}
				}
			case *ast.FuncDecl:
				fi := &fnInfo{decl: t, name: t.Name.Name}
				if t.Recv != nil && len(t.Recv.List) == 1 {
					fi.recv = typeName(t.Recv.List[0].Type)
				}
				funcs = append(funcs, fi)
				// constructors: func NewX(...) *T
				if t.Recv == nil && strings.HasPrefix(t.Name.Name, "New") && t.Type.Results != nil && len(t.Type.Results.List) == 1 {
					ctorType[t.Name.Name] = typeName(t.Type.Results.List[0].Type)
					var params []string
					for _, pl := range t.Type.Params.List {
						for _, n := range pl.Names {
							params = append(params, n.Name)
						}
					}
					fields := make([]string, len(params))
					ast.Inspect(t.Body, func(n ast.Node) bool {
						if as, ok := n.(*ast.AssignStmt); ok && len(as.Lhs) == 1 && len(as.Rhs) == 1 {
							if ls, ok := as.Lhs[0].(*ast.SelectorExpr); ok {
								if rid, ok := as.Rhs[0].(*ast.Ident); ok {
									for i, pn := range params {
										if pn == rid.Name {
											fields[i] = ls.Sel.Name
										}
									}
								}
							}
						}
						return true
					})
					okAll := len(params) > 0
					for _, f := range fields {
						if f == "" {
							okAll = false
						}
					}
					if okAll {
						ctorParams[t.Name.Name] = fields
					}
				}
				if t.Recv == nil && t.Body != nil {
					// func CreateMap(cnt int) *hmap.IntKeyMap { p := hmap.NewIntKeyMap(cnt, 1); return p }
					only := len(t.Body.List) > 0
					for _, st := range t.Body.List {
						switch x := st.(type) {
						case *ast.ReturnStmt:
						case *ast.AssignStmt:
							if len(x.Rhs) != 1 {
								only = false
							} else if call, ok := x.Rhs[0].(*ast.CallExpr); !ok || !strings.Contains(exprStr(call.Fun), "New") {
								only = false
							}
						default:
							only = false
						}
					}
					if only && strings.HasPrefix(t.Name.Name, "Create") {
						ctorOnly[t.Name.Name] = true
					}
				}
			}
		}
	}
	// pass 2: layouts
	find := func(recv, name string) *fnInfo {
		for _, f := range funcs {
			if f.recv == recv && f.name == name {
				return f
			}
		}
		return nil
	}
	isStreamFn := func(f *fnInfo, streamType string) bool {
		for _, p := range f.decl.Type.Params.List {
			if typeName(p.Type) == streamType {
				return true
			}
		}
		return false
	}
	var layouts []*layout
	addLayout := func(name string, wf, rf *fnInfo, subj string) {
		l := &layout{name: name, wRefs: map[string]bool{}, rRefs: map[string]bool{}}
		wi, why := transcribe(wf.decl, wf.recv, subj, false)
		if why != "" {
			l.w, l.wWhy = fmt.Sprintf("(.unknown %s)", q(why)), why
		} else {
			l.w = emit(wi)
			refsOf(wi, l.wRefs)
			l.wParams = lastParams
			l.wGaps = lastGaps
			for _, p := range l.wParams {
				delete(l.wRefs, p)
			}
		}
		ri, why := transcribe(rf.decl, rf.recv, subj, true)
		if why != "" {
			l.r, l.rWhy = fmt.Sprintf("(.unknown %s)", q(why)), why
		} else {
			l.r = emit(ri)
			refsOf(ri, l.rRefs)
			l.rGaps = lastGaps
		}
		layouts = append(layouts, l)
	}
	typeNames := []string{}
	for n := range structs {
		typeNames = append(typeNames, n)
	}
	sort.Strings(typeNames)
	for _, tn := range typeNames {
		if tn == "AbstractPack" {
			continue // hand-modelled: Golib.Layout.Header (tied by skeleton + correspondence)
		}
		w, r := find(tn, "Write"), find(tn, "Read")
		if w != nil && r != nil && isStreamFn(w, "io.DataOutputX") && isStreamFn(r, "io.DataInputX") {
			addLayout(tn, w, r, tn)
		}
	}
	// record codec pairs
	recPairs := []struct{ name, wRecv, wName, rRecv, rName, subj string }{
		{"TransactionRec", "", "WriteTransactionRec", "", "ReadTransactionRec", "TransactionRec"},
		{"ServiceRec", "StatServicePack", "WriteRec", "", "ReadRec", "ServiceRec"},
		{"ErrorRec", "StatErrorPack", "WriteRec", "StatErrorPack", "ReadRec", "ErrorRec"},
		{"DownCheckRec", "SMDownCheckPack", "WriteRec", "SMDownCheckPack", "ReadRec", "DownCheckRec"},
	}
	for _, rp := range recPairs {
		w, r := find(rp.wRecv, rp.wName), find(rp.rRecv, rp.rName)
		if w == nil || r == nil {
			layouts = append(layouts, &layout{name: rp.name, w: fmt.Sprintf("(.unknown %s)", q("function "+rp.wName+" not found")),
				r: fmt.Sprintf("(.unknown %s)", q("function "+rp.rName+" not found")), wRefs: map[string]bool{}, rRefs: map[string]bool{}})
			continue
		}
		addLayout(rp.name, w, r, rp.subj)
	}
	// order: referenced layouts first
	byName := map[string]*layout{}
	for _, l := range layouts {
		byName[l.name] = l
	}
	var ordered []*layout
	seen := map[string]bool{}
	var visit func(l *layout)
	visit = func(l *layout) {
		if seen[l.name] {
			return
		}
		seen[l.name] = true
		refs := []string{}
		for r := range l.wRefs {
			refs = append(refs, r)
		}
		for r := range l.rRefs {
			refs = append(refs, r)
		}
		sort.Strings(refs)
		for _, r := range refs {
			if d := byName[strings.TrimSuffix(strings.TrimSuffix(r, ".w"), ".r")]; d != nil {
				visit(d)
			}
		}
		ordered = append(ordered, l)
	}
	for _, l := range layouts {
		visit(l)
	}

	var b strings.Builder
	b.WriteString("-- GENERATED by xlate/c03 from lang/pack — do not edit; regenerated on every check run\n")
	b.WriteString("import Golib.Layout.IR\nimport Golib.Layout.HeaderProg\n\nnamespace Gen.Packs\nopen Layout\n\n")
	for _, l := range ordered {
		// a reference to a layout that was not generated must not compile silently: define it as unknown
		for _, refs := range []map[string]bool{l.wRefs, l.rRefs} {
			for r := range refs {
				base := strings.TrimSuffix(strings.TrimSuffix(r, ".w"), ".r")
				if byName[base] == nil {
					byName[base] = &layout{name: base}
					fmt.Fprintf(&b, "def %s.w : L := .unknown %s\ndef %s.r : L := .unknown %s\n\n", leanName(base), q("no Write/Read pair found for "+base), leanName(base), q("no Write/Read pair found for "+base))
				}
			}
		}
		sig := func(params, gaps []string) string {
			out := ""
			if len(params) > 0 {
				out += " (" + strings.Join(params, " ") + " : L)"
			}
			if len(gaps) > 0 {
				var gs []string
				for i := range gaps {
					gs = append(gs, fmt.Sprintf("g%d", i))
				}
				out += " (" + strings.Join(gs, " ") + " : L → L)"
			}
			return out
		}
		fmt.Fprintf(&b, "def %s.w%s : L :=\n  %s\ndef %s.r%s : L :=\n  %s\n", l.name, sig(l.wParams, l.wGaps), fixRefs(l.w), l.name, sig(nil, l.rGaps), fixRefs(l.r))
		gapList := func(gs []string) string {
			var qs []string
			for _, g := range gs {
				qs = append(qs, q(g))
			}
			return "[" + strings.Join(qs, ", ") + "]"
		}
		if len(l.wGaps) > 0 {
			fmt.Fprintf(&b, "/-- the statements of %s.Write that are not transcribed (the parameters g0, g1, … of %s.w, in order) -/\ndef %s.wGaps : List String :=\n  %s\n", l.name, l.name, l.name, gapList(l.wGaps))
		}
		if len(l.rGaps) > 0 {
			fmt.Fprintf(&b, "def %s.rGaps : List String :=\n  %s\n", l.name, gapList(l.rGaps))
		}
		b.WriteString("\n")
	}
	b.WriteString("/-- every pair transcribed completely: (type, writer layout, reader layout) -/\ndef all : List (String × L × L) := [\n")
	var alls []string
	for _, l := range ordered {
		if len(l.wParams) > 0 || len(l.wGaps) > 0 || len(l.rGaps) > 0 {
			continue // the writer takes layouts as parameters (dynamic dispatch): instantiated in Props/C03Gen.lean
		}
		alls = append(alls, fmt.Sprintf("  (%s, %s.w, %s.r)", q(l.name), l.name, l.name))
	}
	b.WriteString(strings.Join(alls, ",\n"))
	b.WriteString("\n]\n\n")
	b.WriteString("/-- shapes the translator did not transcribe: (type, side, why) -/\ndef untranscribed : List (String × String × String) := [\n")
	var us []string
	for _, l := range ordered {
		if l.wWhy != "" {
			us = append(us, fmt.Sprintf("  (%s, \"w\", %s)", q(l.name), q(l.wWhy)))
		}
		if l.rWhy != "" {
			us = append(us, fmt.Sprintf("  (%s, \"r\", %s)", q(l.name), q(l.rWhy)))
		}
	}
	b.WriteString(strings.Join(us, ",\n"))
	b.WriteString("\n]\n\n")

	// registry: CreatePack switch and GetPackType constants
	b.WriteString("/-- the CreatePack switch: (type code, type constructed) -/\ndef registry : List (Int × String) := [\n")
	var regs []string
	if cp := find("", "CreatePack"); cp != nil {
		ast.Inspect(cp.decl.Body, func(n ast.Node) bool {
			cc, ok := n.(*ast.CaseClause)
			if !ok {
				return true
			}
			for _, e := range cc.List {
				code, ok := intLit(e)
				if !ok {
					regs = append(regs, fmt.Sprintf("  (-1, %s)", q("unreadable case "+exprStr(e))))
					continue
				}
				ty := "?"
				for _, st := range cc.Body {
					if rs, ok := st.(*ast.ReturnStmt); ok && len(rs.Results) == 1 {
						if call, ok := rs.Results[0].(*ast.CallExpr); ok {
							if id, ok := call.Fun.(*ast.Ident); ok {
								if t, ok := ctorType[id.Name]; ok {
									ty = t
								}
							}
						}
					}
				}
				regs = append(regs, fmt.Sprintf("  (%s, %s)", code, q(ty)))
			}
			return true
		})
	}
	b.WriteString(strings.Join(regs, ",\n"))
	b.WriteString("\n]\n\n/-- GetPackType of every pack type that returns a constant: (type, code) -/\ndef packType : List (String × Int) := [\n")
	var pts []string
	for _, f := range funcs {
		if f.name == "GetPackType" && f.recv != "" && len(f.decl.Body.List) == 1 {
			if rs, ok := f.decl.Body.List[0].(*ast.ReturnStmt); ok && len(rs.Results) == 1 {
				if code, ok := intLit(rs.Results[0]); ok {
					pts = append(pts, fmt.Sprintf("  (%s, %s)", q(f.recv), code))
				} else if sel, ok := rs.Results[0].(*ast.SelectorExpr); ok {
					// return this.F — the code is a field set by the type's constructor New<T>()
					if ctor := find("", "New"+f.recv); ctor != nil {
						ast.Inspect(ctor.decl.Body, func(n ast.Node) bool {
							if as, ok := n.(*ast.AssignStmt); ok && len(as.Lhs) == 1 && len(as.Rhs) == 1 {
								if ls, ok := as.Lhs[0].(*ast.SelectorExpr); ok && ls.Sel.Name == sel.Sel.Name {
									if code, ok := intLit(as.Rhs[0]); ok {
										pts = append(pts, fmt.Sprintf("  (%s, %s)", q(f.recv), code))
									}
								}
							}
							return true
						})
					}
				}
			}
		}
	}
	sort.Strings(pts)
	b.WriteString(strings.Join(pts, ",\n"))
	b.WriteString("\n]\n\n")

	// capacity limits of bounded tables: constructor NewT() { p.F = hmap.NewX().SetMax(CONST) }
	b.WriteString("/-- bounded tables inside packs: (type, field, limit) as the constructors set them (SetMax) -/\ndef caps : List (String × String × Int) := [\n")
	var caps []string
	for _, f := range funcs {
		if f.recv != "" || !strings.HasPrefix(f.name, "New") || f.decl.Body == nil {
			continue
		}
		ty, ok := ctorType[f.name]
		if !ok {
			continue
		}
		ast.Inspect(f.decl.Body, func(n ast.Node) bool {
			as, ok := n.(*ast.AssignStmt)
			if !ok || len(as.Lhs) != 1 || len(as.Rhs) != 1 {
				return true
			}
			ls, ok := as.Lhs[0].(*ast.SelectorExpr)
			if !ok {
				return true
			}
			ast.Inspect(as.Rhs[0], func(m ast.Node) bool {
				call, ok := m.(*ast.CallExpr)
				if !ok || len(call.Args) != 1 {
					return true
				}
				if sel, ok := call.Fun.(*ast.SelectorExpr); ok && sel.Sel.Name == "SetMax" {
					v, ok := intLit(call.Args[0])
					if !ok {
						v = "-1"
					}
					caps = append(caps, fmt.Sprintf("  (%s, %s, %s)", q(ty), q(ls.Sel.Name), v))
				}
				return true
			})
			return true
		})
	}
	sort.Strings(caps)
	b.WriteString(strings.Join(caps, ",\n"))
	b.WriteString("\n]\n\n")

	// the common header, statement by statement (header.go)
	{
		var wd, rd *ast.FuncDecl
		if f := find("AbstractPack", "Write"); f != nil {
			wd = f.decl
		}
		if f := find("AbstractPack", "Read"); f != nil {
			rd = f.decl
		}
		b.WriteString(headerProgs(wd, rd))
	}

	// skeletons: one definition per function (name with '.' replaced by '_')
	b.WriteString("/-! statement skeletons (statements touching a stream or the receiver's fields, normalised source text) -/\nnamespace skel\n")
	var sks []string
	for _, f := range funcs {
		if !skeletonWanted(f) {
			continue
		}
		lines := skeletonOf(f)
		var qs []string
		for _, l := range lines {
			qs = append(qs, q(l))
		}
		name := f.name
		if f.recv != "" {
			name = f.recv + "_" + f.name
		}
		sks = append(sks, fmt.Sprintf("def %s : List String :=\n  [%s]", name, strings.Join(qs, ", ")))
	}
	sort.Strings(sks)
	b.WriteString(strings.Join(sks, "\n"))
	b.WriteString("\nend skel\n\nend Gen.Packs\n")

	if *out == "" {
		fmt.Print(b.String())
		return
	}
	if err := os.WriteFile(*out, []byte(b.String()), 0o644); err != nil {
		fmt.Fprintln(os.Stderr, err)
		os.Exit(1)
	}
}

func fixRefs(s string) string { return s }

// ---------------------------------------------------------------- skeletons

func skeletonWanted(f *fnInfo) bool {
	for _, p := range f.decl.Type.Params.List {
		tn := typeName(p.Type)
		if tn == "io.DataOutputX" || tn == "io.DataInputX" {
			return true
		}
	}
	switch f.name {
	case "SetRecords", "SetRecordsList", "SetRecordsArray", "GetRecords", "doZip", "doUnZip", "ToBytesPack", "ToPack",
		"writeTable", "readTable", "unpack", "GetContentBytes", "SetContentBytes", "ResetTagHash", "ToBytesPackECB":
		return true
	}
	return false
}

func skeletonOf(f *fnInfo) []string {
	interesting := map[string]bool{}
	if f.decl.Recv != nil && len(f.decl.Recv.List[0].Names) == 1 {
		interesting[f.decl.Recv.List[0].Names[0].Name] = true
	}
	for _, p := range f.decl.Type.Params.List {
		for _, n := range p.Names {
			interesting[n.Name] = true
		}
	}
	// locals bound to streams / records
	ast.Inspect(f.decl.Body, func(n ast.Node) bool {
		if as, ok := n.(*ast.AssignStmt); ok && as.Tok == token.DEFINE && len(as.Lhs) == 1 {
			if id, ok := as.Lhs[0].(*ast.Ident); ok {
				s := exprStr(as.Rhs[0])
				if strings.Contains(s, "io.NewData") || strings.HasPrefix(s, "New") || strings.HasPrefix(s, "new(") {
					interesting[id.Name] = true
				}
			}
		}
		return true
	})
	var lines []string
	var walk func(stmts []ast.Stmt)
	mentions := func(n ast.Node) bool {
		found := false
		ast.Inspect(n, func(x ast.Node) bool {
			if id, ok := x.(*ast.Ident); ok && interesting[id.Name] {
				found = true
			}
			return true
		})
		return found
	}
	walk = func(stmts []ast.Stmt) {
		for _, st := range stmts {
			switch s := st.(type) {
			case *ast.IfStmt:
				ini := ""
				if s.Init != nil {
					ini = exprStr(s.Init) + "; "
				}
				lines = append(lines, "if "+ini+exprStr(s.Cond)+" {")
				walk(s.Body.List)
				if s.Else != nil {
					lines = append(lines, "} else {")
					if eb, ok := s.Else.(*ast.BlockStmt); ok {
						walk(eb.List)
					} else {
						walk([]ast.Stmt{s.Else})
					}
				}
				lines = append(lines, "}")
			case *ast.ForStmt:
				c := ""
				if s.Cond != nil {
					c = exprStr(s.Cond)
				}
				lines = append(lines, "for "+c+" {")
				walk(s.Body.List)
				lines = append(lines, "}")
			case *ast.RangeStmt:
				lines = append(lines, "for range "+exprStr(s.X)+" {")
				walk(s.Body.List)
				lines = append(lines, "}")
			case *ast.SwitchStmt:
				t := ""
				if s.Tag != nil {
					t = exprStr(s.Tag)
				}
				lines = append(lines, "switch "+t+" {")
				for _, cc := range s.Body.List {
					c := cc.(*ast.CaseClause)
					var es []string
					for _, e := range c.List {
						es = append(es, exprStr(e))
					}
					lines = append(lines, "case "+strings.Join(es, ", ")+":")
					walk(c.Body)
				}
				lines = append(lines, "}")
			case *ast.BlockStmt:
				walk(s.List)
			case *ast.ReturnStmt:
				lines = append(lines, exprStr(s))
			case *ast.DeferStmt:
				lines = append(lines, "defer")
			default:
				if mentions(st) {
					lines = append(lines, exprStr(st))
				}
			}
		}
	}
	walk(f.decl.Body.List)
	return lines
}
