#!/usr/bin/env python3
"""
Bootstrap of the statement-skeleton goldens (run by hand by the C03 owner, NOT by the check):

  python3 xlate/c03/mkgolden.py lean/Golib/Gen/PackLayouts.lean

reads the `skeleton` table that xlate/c03 generated from a tree in which the irregular packs are as
intended (the worktree with the proposed fixes), and writes
  lean/Golib/Packs/Skeletons.lean      the expected skeletons (hand-owned from then on)
  lean/Golib/Props/C03GenSkel.lean     one obligation per function: regenerated skeleton = expected
Only the functions of the hand-modelled / harness-only (irregular) packs are pinned; the regular
ones are covered by the `agrees` obligations and may be rewritten freely.
"""
import re, sys

PINNED = [
 # AbstractPack.Write / Read are interpreted since round 8 (header.go, Golib/Layout/HeaderProg.lean): not pinned as text
 "WritePack", "ReadPack", "ToBytesPack", "ToBytesPackECB", "ToPack",
 "LogSinkPack.GetContentBytes", "LogSinkPack.SetContentBytes",
  "LogSinkPack.ResetTagHash",
  "toHeaderBytes", "toHeaderObject",
 "CompositePack.Write", "CompositePack.Read",
 "HitMapPack1.Write", "HitMapPack1.Read",
 "ProfilePack.Write", "ProfilePack.Read",
 "StatGeneralPack.Write", "StatGeneralPack.Read", "StatGeneralPack.writeTable", "StatGeneralPack.readTable", "StatGeneralPack.unpack",
 "CounterPack1.writeShortArray", "CounterPack1.readShortArray",
 "CounterPack1.ReadDropMap", "CounterPack1.readTxcallerUnknown", "CounterPack1.readTxcallerGroupMeter",
 "CounterPack1.readTxcallerPOidMeter", "CounterPack1.readTxcallerOkindMeterDeprecated", "CounterPack1.readHttpcMeter",
 "CounterPack1.readSqlMeter", "CounterPack1.readTxcallerOidMeter", "CounterPack1.writeTxcallerOther",
 "CounterPack1.writeTxcallerOidMeter", "CounterPack1.writeSqlMeter", "CounterPack1.writeHttpcMeter",
 "CounterPack1.writeTxcallerGroupMeter", "CounterPack1.writeTxcallerPOidMeter", "ReadShortArray",
 "ZipPack.SetRecords", "ZipPack.GetRecords",
 "LogSinkZipPack.SetRecords", "LogSinkZipPack.doZip", "LogSinkZipPack.doUnZip", "LogSinkZipPack.GetRecords",
 "StatTransactionPack.SetRecords", "StatTransactionPack.SetRecordsList", "StatTransactionPack.GetRecords",
 "StatTransactionPack1.SetRecords", "StatTransactionPack1.SetRecordsList", "StatTransactionPack1.GetRecords",
 "StatSqlPack.SetRecords", "StatSqlPack.SetRecordsList", "StatSqlPack.GetRecords",
 "StatHttpcPack.SetRecords", "StatHttpcPack.SetRecordsList", "StatHttpcPack.GetRecords",
 "StatErrorPack.SetRecords", "StatErrorPack.SetRecordsArray", "StatErrorPack.GetRecords",
 "StatServicePack.SetRecords", "StatServicePack.WriteRec", "ReadRec",
 "SMDownCheckPack.SetRecords", "SMDownCheckPack.GetRecords",
]

# functions transcribed up to a few statements: only those statements ("gaps") are pinned
GAPS = [("CounterPack1", "w"), ("CounterPack1", "r"), ("TagCountPack", "w"), ("TagLogPack", "w"), ("LogSinkPack", "w"),
        ("ParamPack", "w"), ("ParamPack", "r"), ("ExtensionPack", "w"), ("ExtensionPack", "r"), ("EventPack", "w"), ("EventPack", "r")]

src = open(sys.argv[1]).read()
sec = src[src.index("namespace skel"):]
entries = {}
for m in re.finditer(r'^def (\S+) : List String :=\n  (\[.*\])$', sec, re.M):
    entries[m.group(1)] = m.group(2)

def ident(n): return n.replace(".", "_")

out = ["/-",
 "  Golib.Packs.Skeletons — expected statement skeletons of the irregular pack functions",
 "  (hand-modelled in Golib/Packs/*.lean or covered by the correspondence harness only).",
 "  A skeleton lists, in source order, every statement that touches a stream or a field of the",
 "  receiver, as normalised source text.  Props/C03GenSkel.lean demands that the skeleton regenerated",
 "  from lang/pack on every run equals the one recorded here: an edit of one of these functions is",
 "  seen by tie A even though its body is not transcribed to the IR (then the model/harness must be",
 "  re-tied and this file updated — `python3 xlate/c03/mkgolden.py`).",
 "-/", "", "namespace Packs.Skeletons", ""]
thm = ["/-",
 "  Property C03 — skeleton obligations for the irregular pack functions (tie A, change detection).",
 "  Generated once by xlate/c03/mkgolden.py; hand-owned.",
 "-/", "import Golib.Packs.Skeletons", "import Golib.Gen.PackLayouts", "", "namespace C03GenSkel", "open Gen.Packs", ""]
missing = []
for n in PINNED:
    if ident(n) not in entries:
        missing.append(n); continue
    items = entries[ident(n)]
    out.append("def %s : List String :=\n  %s\n" % (ident(n), items))
    thm.append('theorem skel_%s : skel.%s = Packs.Skeletons.%s := rfl' % (ident(n), ident(n), ident(n)))
for (t, side) in GAPS:
    m = re.search(r'^def %s\.%sGaps : List String :=\n  (\[.*\])$' % (t, side), src, re.M)
    if not m:
        missing.append("%s.%sGaps" % (t, side)); continue
    out.append("def %s_%sGaps : List String :=\n  %s\n" % (t, side, m.group(1)))
    thm.append('theorem gaps_%s_%s : %s.%sGaps = Packs.Skeletons.%s_%sGaps := rfl' % (t, side, t, side, t, side))
out.append("end Packs.Skeletons")
thm.append("")
thm.append("end C03GenSkel")
open("lean/Golib/Packs/Skeletons.lean", "w").write("\n".join(out) + "\n")
open("lean/Golib/Props/C03GenSkel.lean", "w").write("\n".join(thm) + "\n")
print("pinned", len(PINNED) - len(missing), "missing", missing)
