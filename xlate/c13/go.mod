module verif/xlate/c13

go 1.23
