package main

// A small compiler from the statement subset used by the comparator closures, CompareChild and
// compare.CompareToX into Lean expressions (interpreted tie A): `if/else`, `switch` on a tag,
// declarations, (parallel) assignments, `return`.  Anything else becomes `unknown …`.

import (
	"go/ast"
	"go/token"
	"strings"
)

type cc struct {
	// leaf translates an expression the caller knows (field selectors, calls); ok=false → generic rules
	leaf func(e ast.Expr) (string, bool)
}

func (c *cc) expr(e ast.Expr) string {
	if s, ok := c.leaf(e); ok {
		return s
	}
	switch x := e.(type) {
	case *ast.BasicLit:
		if x.Kind == token.INT {
			return x.Value
		}
	case *ast.Ident:
		switch x.Name {
		case "true", "false":
			return x.Name
		}
		return x.Name
	case *ast.ParenExpr:
		return "(" + c.expr(x.X) + ")"
	case *ast.UnaryExpr:
		switch x.Op {
		case token.SUB:
			return "(-" + c.atom(x.X) + ")"
		case token.NOT:
			return "(!" + c.atom(x.X) + ")"
		}
	case *ast.BinaryExpr:
		a, b := c.atom(x.X), c.atom(x.Y)
		switch x.Op {
		case token.GTR:
			return a + " > " + b
		case token.GEQ:
			return a + " ≥ " + b
		case token.LSS:
			return a + " < " + b
		case token.LEQ:
			return a + " ≤ " + b
		case token.EQL:
			return a + " = " + b
		case token.NEQ:
			return a + " ≠ " + b
		case token.LAND:
			return a + " ∧ " + b
		case token.LOR:
			return a + " ∨ " + b
		case token.ADD:
			return a + " + " + b
		case token.SUB:
			return a + " - " + b
		}
	}
	return unknown("expression in compiled function")
}

func (c *cc) atom(e ast.Expr) string {
	s := c.expr(e)
	if strings.ContainsAny(s, " ") && !strings.HasPrefix(s, "(") {
		return "(" + s + ")"
	}
	return s
}

func terminates(b []ast.Stmt) bool {
	if len(b) == 0 {
		return false
	}
	switch s := b[len(b)-1].(type) {
	case *ast.ReturnStmt:
		return true
	case *ast.IfStmt:
		if s.Else == nil {
			return false
		}
		return terminates(s.Body.List) && terminates(elseList(s.Else))
	case *ast.SwitchStmt:
		hasDefault := false
		for _, cl := range s.Body.List {
			cc := cl.(*ast.CaseClause)
			if len(cc.List) == 0 {
				hasDefault = true
			}
			if !terminates(cc.Body) {
				return false
			}
		}
		return hasDefault
	case *ast.BlockStmt:
		return terminates(s.List)
	}
	return false
}

func elseList(e ast.Stmt) []ast.Stmt {
	switch x := e.(type) {
	case *ast.BlockStmt:
		return x.List
	case *ast.IfStmt:
		return []ast.Stmt{x}
	}
	return nil
}

// assigned: identifiers assigned (not declared) in a block of pure assignments; ok=false if the
// block holds anything else.
func assigned(b []ast.Stmt) ([]string, bool) {
	var out []string
	seen := map[string]bool{}
	for _, st := range b {
		as, ok := st.(*ast.AssignStmt)
		if !ok || as.Tok != token.ASSIGN {
			return nil, false
		}
		for _, l := range as.Lhs {
			id, ok := l.(*ast.Ident)
			if !ok {
				return nil, false
			}
			if !seen[id.Name] {
				seen[id.Name] = true
				out = append(out, id.Name)
			}
		}
	}
	return out, true
}

func tuple(xs []string) string {
	if len(xs) == 1 {
		return xs[0]
	}
	return "(" + strings.Join(xs, ", ") + ")"
}

func (c *cc) assign(as *ast.AssignStmt) string {
	var ls, rs []string
	for _, l := range as.Lhs {
		id, ok := l.(*ast.Ident)
		if !ok {
			return unknown("assignment target")
		}
		ls = append(ls, id.Name)
	}
	for _, r := range as.Rhs {
		rs = append(rs, c.expr(r))
	}
	if len(ls) != len(rs) {
		return unknown("assignment arity")
	}
	return "let " + tuple(ls) + " := " + tuple(rs) + "; "
}

// block compiles statements (ending, on every path, in a return) to one Lean expression.
func (c *cc) block(b []ast.Stmt) string {
	if len(b) == 0 {
		return unknown("function falls off its end")
	}
	rest := b[1:]
	switch s := b[0].(type) {
	case *ast.ReturnStmt:
		if len(s.Results) != 1 {
			return unknown("return arity")
		}
		return c.expr(s.Results[0])
	case *ast.DeclStmt:
		return c.block(rest) // `var rt int`
	case *ast.BlockStmt:
		return c.block(append(append([]ast.Stmt{}, s.List...), rest...))
	case *ast.AssignStmt:
		return c.assign(s) + c.block(rest)
	case *ast.IfStmt:
		pre := ""
		if s.Init != nil {
			as, ok := s.Init.(*ast.AssignStmt)
			if !ok {
				return unknown("if initialiser")
			}
			pre = c.assign(as)
		}
		cond := c.expr(s.Cond)
		thenL := s.Body.List
		if terminates(thenL) {
			var els string
			if s.Else != nil {
				els = c.block(append(append([]ast.Stmt{}, elseList(s.Else)...), rest...))
			} else {
				els = c.block(rest)
			}
			return pre + "(if " + cond + " then (" + c.block(thenL) + ") else (" + els + "))"
		}
		// assignment-only branches: merge into a let
		tv, ok1 := assigned(thenL)
		var ev []string
		ok2 := true
		var elseL []ast.Stmt
		if s.Else != nil {
			elseL = elseList(s.Else)
			ev, ok2 = assigned(elseL)
		}
		if !ok1 || !ok2 {
			return unknown("if statement that neither returns nor only assigns")
		}
		vars := append([]string{}, tv...)
		for _, v := range ev {
			found := false
			for _, w := range vars {
				if w == v {
					found = true
				}
			}
			if !found {
				vars = append(vars, v)
			}
		}
		br := func(l []ast.Stmt) string {
			var sb strings.Builder
			for _, st := range l {
				sb.WriteString(c.assign(st.(*ast.AssignStmt)))
			}
			return "(" + sb.String() + tuple(vars) + ")"
		}
		return pre + "let " + tuple(vars) + " := if " + cond + " then " + br(thenL) + " else " + br(elseL) + "; " + c.block(rest)
	case *ast.SwitchStmt:
		if s.Tag == nil || s.Init != nil {
			return unknown("switch without tag")
		}
		tag := c.atom(s.Tag)
		var def []ast.Stmt
		type arm struct {
			cond string
			body []ast.Stmt
		}
		var arms []arm
		for _, cl := range s.Body.List {
			k := cl.(*ast.CaseClause)
			if len(k.List) == 0 {
				def = k.Body
				continue
			}
			var cs []string
			for _, e := range k.List {
				cs = append(cs, tag+" = "+c.atom(e))
			}
			arms = append(arms, arm{strings.Join(cs, " ∨ "), k.Body})
		}
		out := ""
		closing := ""
		for _, a := range arms {
			out += "(if " + a.cond + " then (" + c.block(append(append([]ast.Stmt{}, a.body...), rest...)) + ") else "
			closing += ")"
		}
		if def != nil {
			out += "(" + c.block(append(append([]ast.Stmt{}, def...), rest...)) + ")"
		} else {
			out += "(" + c.block(rest) + ")"
		}
		return out + closing
	}
	return unknown("statement in compiled function")
}
